(* Effect IR (property C11): which array storages a function of synapgrad may write.

   The IR of every function is generated from the source (Gen/GenEffects.v); this file gives it a meaning:
     - a CONCRETE heap semantics: locations = array storages, variables are bound to the (finite set of)
       storages their value may share memory with (a tuple / list of arrays is bound to all of them),
       `Fresh` allocates, `ViewOf`/`Alias`/`Join` share, `Write x` changes the bytes of every storage x is
       bound to, to arbitrary new contents (an oracle), a call runs the callee on the caller's heap;
     - parameters are bound to caller-owned storages which may OVERLAP each other arbitrarily (operands that
       are views of one another, the same array passed twice);
     - control flow is abstracted by a SCHEDULE: the statements of a body may execute in any order, any number
       of times (the oracle picks the next statement), so every path through the branches and loops of the
       real function is one of the executions considered;
     - an ABSTRACT analysis: for each variable the set of parameters whose storage it may share
       ([] = Owned: only storages allocated by this invocation), per-function return summaries;
       a function is ok if every write goes to an Owned variable or to a parameter declared writable
       (the documented in-place effects: gradient buffers).
   Soundness (Proofs/EffectsProofs.v): ok => for ALL heaps, arguments, oracles, the contents of every
   pre-existing location outside the declared-writable arguments are unchanged.                              *)
From Coq Require Import List Bool Arith ZArith String.
Import ListNotations.

Definition var := nat.
Definition loc := nat.

Inductive rhs :=
| Fresh                                  (* allocating NumPy call, arithmetic, comparison, reduction, .copy(), .astype() *)
| ViewOf (y : var)                       (* reshape, .T, transpose, moveaxis, basic subscript, as_strided, ... (may share) *)
| Alias (y : var)                        (* plain name: the same object                                                  *)
| Join (ys : list var)                   (* may share with any of ys: conditional expressions, tuples/lists of arrays     *)
| CallRet (f : nat) (args : list var).   (* result of calling function number f of the program                            *)

Inductive stmt :=
| Bind (x : var) (r : rhs)
| Write (x : var)                        (* any in-place mutation of the array(s) bound to x *)
| Return (x : var).

Record fundef := mkFun {
  f_name     : string;
  f_nparams  : nat;                      (* parameters are the variables 0 .. f_nparams-1 *)
  f_writable : list nat;                 (* parameters the function is documented to update in place *)
  f_body     : list stmt
}.
Definition prog := list fundef.

(* ---------------------------------------------------------------- concrete semantics *)
Record heap := mkHeap { next : nat; tick : nat; cont : loc -> Z }.

Record oracle := mkOracle {
  choose : nat -> nat;                   (* at time t: index of the statement executed next (out of range = fall off the end) *)
  newval : nat -> loc -> Z               (* at time t: the new contents an in-place write stores at a location              *)
}.

Definition env := var -> list loc.
Definition upd (e : env) (x : var) (v : list loc) : env := fun y => if Nat.eqb y x then v else e y.
Definition init_env (argl : list (list loc)) : env := fun v => nth v argl [].

Definition memb (l : nat) (ls : list nat) : bool := existsb (Nat.eqb l) ls.

Definition tick_heap (h : heap) : heap := mkHeap (next h) (S (tick h)) (cont h).
Definition alloc (h : heap) : heap := mkHeap (S (next h)) (tick h) (cont h).
Definition write (o : oracle) (h : heap) (ls : list loc) : heap :=
  mkHeap (next h) (tick h) (fun l => if memb l ls then newval o (tick h) l else cont h l).

Fixpoint exec (o : oracle) (p : prog) (fuel : nat) (body : list stmt) (e : env) (h : heap)
  : option (heap * list loc) :=
  match fuel with
  | O => None
  | S k =>
    let h1 := tick_heap h in
    match nth_error body (choose o (tick h)) with
    | None => Some (h1, [])
    | Some (Return x) => Some (h1, e x)
    | Some (Write x) => exec o p k body e (write o h1 (e x))
    | Some (Bind x Fresh) => exec o p k body (upd e x [next h1]) (alloc h1)
    | Some (Bind x (ViewOf y)) => exec o p k body (upd e x (e y)) h1
    | Some (Bind x (Alias y)) => exec o p k body (upd e x (e y)) h1
    | Some (Bind x (Join ys)) => exec o p k body (upd e x (flat_map e ys)) h1
    | Some (Bind x (CallRet f args)) =>
        match nth_error p f with
        | None => None
        | Some fd =>
            match exec o p k (f_body fd) (init_env (map e args)) h1 with
            | None => None
            | Some (h2, ret) => exec o p k body (upd e x ret) h2
            end
        end
    end
  end.

(* run function fd on arguments bound to the given (possibly overlapping) storages *)
Definition run (o : oracle) (p : prog) (fuel : nat) (fd : fundef) (argl : list (list loc)) (h : heap) :=
  exec o p fuel (f_body fd) (init_env argl) h.

(* ---------------------------------------------------------------- abstract analysis *)
Definition aenv := list (list nat).          (* variable -> parameters it may share storage with; [] = Owned *)
Definition aget (A : aenv) (x : var) : list nat := nth x A [].
Definition summ := list (list nat).          (* function -> parameters its result may share storage with *)
Definition sget (Sm : summ) (f : nat) : list nat := nth f Sm [].

Definition subset (a b : list nat) : bool := forallb (fun x => memb x b) a.

Definition arg_of (args : list var) (pi : nat) : list var :=
  match nth_error args pi with Some a => [a] | None => [] end.

Definition abs_rhs (Sm : summ) (A : aenv) (r : rhs) : list nat :=
  match r with
  | Fresh => []
  | ViewOf y => aget A y
  | Alias y => aget A y
  | Join ys => flat_map (aget A) ys
  | CallRet f args => flat_map (fun pi => flat_map (aget A) (arg_of args pi)) (sget Sm f)
  end.

(* a call hands the callee's writable parameters storages the caller itself is allowed to write *)
Definition call_ok (p : prog) (A : aenv) (writable : list nat) (r : rhs) : bool :=
  match r with
  | CallRet f args =>
      match nth_error p f with
      | None => false
      | Some fd => Nat.leb (List.length args) (f_nparams fd) &&
                   forallb (fun pi => forallb (fun a => subset (aget A a) writable) (arg_of args pi)) (f_writable fd)
      end
  | _ => true
  end.

Definition stmt_ok (p : prog) (Sm : summ) (A : aenv) (writable ret : list nat) (s : stmt) : bool :=
  match s with
  | Bind x r => subset (abs_rhs Sm A r) (aget A x) && call_ok p A writable r
  | Write x => subset (aget A x) writable
  | Return x => subset (aget A x) ret
  end.

Definition params_ok (A : aenv) (n : nat) : bool := forallb (fun i => memb i (aget A i)) (seq 0 n).

Definition fun_ok_with (p : prog) (Sm : summ) (fi : nat) (fd : fundef) (A : aenv) : bool :=
  params_ok A (f_nparams fd) && forallb (stmt_ok p Sm A (f_writable fd) (sget Sm fi)) (f_body fd).

(* ---- computing A and S (any post-fixpoint is sound; these iterations just find one) ---- *)
Definition union (a b : list nat) : list nat := a ++ filter (fun x => negb (memb x a)) b.

Fixpoint set_nth (A : aenv) (x : nat) (v : list nat) : aenv :=
  match x, A with
  | O, [] => [v]
  | O, _ :: t => v :: t
  | S k, [] => [] :: set_nth [] k v
  | S k, a :: t => a :: set_nth t k v
  end.

Definition transfer (Sm : summ) (A : aenv) (s : stmt) : aenv :=
  match s with
  | Bind x r => set_nth A x (union (aget A x) (abs_rhs Sm A r))
  | _ => A
  end.

Definition pass (Sm : summ) (body : list stmt) (A : aenv) : aenv := fold_left (transfer Sm) body A.

Fixpoint iter {X} (n : nat) (f : X -> X) (x : X) : X :=
  match n with O => x | S k => iter k f (f x) end.

Definition solve (Sm : summ) (fd : fundef) : aenv :=
  iter (S (List.length (f_body fd))) (pass Sm (f_body fd)) (map (fun i => [i]) (seq 0 (f_nparams fd))).

Definition ret_of (A : aenv) (body : list stmt) : list nat :=
  fold_left (fun acc s => match s with Return x => union acc (aget A x) | _ => acc end) body [].

Definition summaries_step (p : prog) (Sm : summ) : summ :=
  map (fun fd => ret_of (solve Sm fd) (f_body fd)) p.

Definition summaries (p : prog) : summ := iter 8 (summaries_step p) (map (fun _ => []) p).

Fixpoint indexed {X} (n : nat) (l : list X) : list (nat * X) :=
  match l with [] => [] | x :: t => (n, x) :: indexed (S n) t end.

Definition ok_fun (p : prog) (Sm : summ) (fi : nat) (fd : fundef) : bool := fun_ok_with p Sm fi fd (solve Sm fd).

Definition ok_prog (p : prog) : bool :=
  let Sm := summaries p in forallb (fun '(fi, fd) => ok_fun p Sm fi fd) (indexed 0 p).

(* names of the functions that fail (for diagnostics printed by the check) *)
Definition failing (p : prog) : list string :=
  let Sm := summaries p in
  map (fun '(fi, fd) => f_name fd) (filter (fun '(fi, fd) => negb (ok_fun p Sm fi fd)) (indexed 0 p)).

Definition find_fun (p : prog) (name : string) : option (nat * fundef) :=
  find (fun '(fi, fd) => if string_dec (f_name fd) name then true else false) (indexed 0 p).

(* the result of function `name` is Owned: it shares storage with none of its parameters *)
Definition ret_owned (p : prog) (name : string) : bool :=
  match find_fun p name with
  | Some (fi, _) => match sget (summaries p) fi with [] => true | _ => false end
  | None => false
  end.

(* ---------------------------------------------------------------- documented in-place effects (census) *)
(* A census row (generated, whole package): a statement that assigns to / updates in place the `.data`, `._grad`
   or `.grad` of some object, or calls `.zero_()`:  (module, function, kind, line).                          *)
Open Scope string_scope.
Definition census_row := (string * string * string * nat)%type.

Definition ends_with (s suf : string) : bool :=
  Nat.leb (String.length suf) (String.length s) &&
  String.eqb (substring (String.length s - String.length suf) (String.length suf) s) suf.

Inductive category := OptimizerStep | Initialiser | BatchNormStats | ZeroGrad | GradAssignment | GradAccumulation | Construction.

(* the documented mutators of the package: (module, function, kinds allowed, category) *)
Definition documented : list (string * string * list string * category) :=
  [ ("optim.optimizers", "SGD.step", ["DataInPlace"], OptimizerStep);
    ("optim.optimizers", "Adam.step", ["DataInPlace"], OptimizerStep);
    ("optim.optimizers", "AdamW.step", ["DataInPlace"], OptimizerStep);
    ("optim.optimizers", "Optimizer.zero_grad", ["ZeroCall"], ZeroGrad);
    ("nn.modules", "Module.zero_grad", ["ZeroCall"], ZeroGrad);
    ("nn.init", "uniform_", ["DataRebind"], Initialiser);
    ("nn.init", "normal_", ["DataRebind"], Initialiser);
    ("nn.init", "constant_", ["DataRebind"], Initialiser);
    ("nn.init", "ones_", ["DataRebind"], Initialiser);
    ("nn.init", "zeros_", ["DataRebind"], Initialiser);
    ("nn.functional", "batch_norm", ["DataRebind"], BatchNormStats);
    ("tensor", "Tensor.zero_", ["GradRebind"], ZeroGrad);
    ("tensor", "Tensor.grad.setter", ["GradRebind"], GradAssignment);
    ("tensor", "Tensor.backward", ["GradInPlace"; "GradRebind"; "GradDel"; "ZeroCall"], GradAccumulation);
    ("tensor", "Tensor.__init__", ["DataRebind"; "GradRebind"], Construction) ].

Definition smemb (x : string) (l : list string) : bool := existsb (String.eqb x) l.

Definition row_category (r : census_row) : option category :=
  let '(m, f, k, _) := r in
  if (String.eqb m "functional" || String.eqb m "nn.functional") && ends_with f ".backward" && String.eqb k "GradInPlace"
  then Some GradAccumulation          (* the backward closures: `<operand>._grad += ...` *)
  else match find (fun '(m', f', ks, _) => String.eqb m m' && String.eqb f f' && smemb k ks) documented with
       | Some (_, _, _, c) => Some c
       | None => None
       end.

Definition census_documented (rows : list census_row) : bool :=
  forallb (fun r => match row_category r with Some _ => true | None => false end) rows.

(* every documented site really occurs (the list is exact, not merely an upper bound) *)
Definition documented_all_present (rows : list census_row) : bool :=
  forallb (fun '(m, f, ks, _) => existsb (fun '(m', f', k, _) => String.eqb m m' && String.eqb f f' && smemb k ks) rows) documented.
