(* C10 — dtype / array-kind calculus (model; executable; no proofs here).

   Abstract values describe what a Python expression of the implementation evaluates to, as far as the
   dtype of a result is concerned:
     Np d k      a NumPy value of dtype d; k says whether it is an ndarray (possibly 0-d), a NumPy scalar
                 (np.generic) or either of the two.  NumPy >= 2 (NEP 50): scalars are typed as strongly as arrays.
     PyBool/PyInt/PyFloat   *weak* Python scalars (PyBool carries its value when it is a literal: keepdims=False)
     NoneV       None
     ShapeV      a Python container of Python ints (a.shape, range(..), tuple arithmetic on them) - non numeric
     OpaqueV     any other non-numeric value (slices, tuples holding NumPy ints, index objects)
     StrV s      a string literal (mode = 'col2im'), compared exactly
     TupV l      a Python tuple of values (kernels returning several arrays, list-of-tensors operands)
     UnboundV    a local that is not bound on this path: any use of it raises (UnboundLocalError), i.e. yields no value
     ErrV        the model cannot type the expression (NumPy would raise, or the construct is not modelled)
   The empty result set of [deval] means "the call raises".

   The meaning of the generated dtype-transfer expressions (Gen/GenDtype.v) is [deval].                     *)
From Coq Require Import List Bool Arith String.
Import ListNotations.

Inductive dtype := DBool | DInt | F16 | F32 | F64.
Inductive kind := KArray | KScalar | KEither.

Inductive absval :=
| Np (d : dtype) (k : kind)
| PyBool (b : option bool)
| PyInt
| PyFloat
| NoneV
| ShapeV
| OpaqueV
| StrV (s : string)
| TupV (l : list absval)
| UnboundV
| ErrV.

(* ---- equality ------------------------------------------------------------------------------------ *)
Definition dtype_eqb (a b : dtype) : bool :=
  match a, b with
  | DBool, DBool | DInt, DInt | F16, F16 | F32, F32 | F64, F64 => true
  | _, _ => false
  end.
Definition kind_eqb (a b : kind) : bool :=
  match a, b with KArray, KArray | KScalar, KScalar | KEither, KEither => true | _, _ => false end.
Definition obool_eqb (a b : option bool) : bool :=
  match a, b with None, None => true | Some x, Some y => Bool.eqb x y | _, _ => false end.

Fixpoint absval_eqb (a b : absval) : bool :=
  match a, b with
  | Np d k, Np d' k' => dtype_eqb d d' && kind_eqb k k'
  | PyBool x, PyBool y => obool_eqb x y
  | PyInt, PyInt | PyFloat, PyFloat | NoneV, NoneV | ShapeV, ShapeV | OpaqueV, OpaqueV | ErrV, ErrV | UnboundV, UnboundV => true
  | StrV x, StrV y => if string_dec x y then true else false
  | TupV l, TupV l' =>
      (fix go (l l' : list absval) : bool :=
         match l, l' with
         | [], [] => true
         | x :: t, y :: t' => absval_eqb x y && go t t'
         | _, _ => false
         end) l l'
  | _, _ => false
  end.

Definition vmem (x : absval) (l : list absval) : bool := existsb (absval_eqb x) l.
Fixpoint vunion (a b : list absval) : list absval :=
  match a with
  | [] => b
  | x :: t => if vmem x b || vmem x t then vunion t b else x :: vunion t b
  end.
Fixpoint vdedup (l : list absval) : list absval :=
  match l with
  | [] => []
  | x :: t => if vmem x t then vdedup t else x :: vdedup t
  end.
Definition vsubset (a b : list absval) : bool := forallb (fun x => vmem x b) a.
(* equality of value sets *)
Definition list_eqb_abs (a b : list absval) : bool := vsubset a b && vsubset b a.
Definition vflat (f : absval -> list absval) (l : list absval) : list absval :=
  fold_right (fun x acc => vunion (f x) acc) [] l.

(* ---- the promotion lattice (NumPy 2, restricted to bool, int64, float16/32/64) --------------------- *)
Definition is_float (d : dtype) : bool := match d with F16 | F32 | F64 => true | _ => false end.

(* result_type of two *strongly typed* operands (arrays or NumPy scalars) *)
Definition join (a b : dtype) : dtype :=
  match a, b with
  | DBool, x | x, DBool => x
  | DInt, DInt => DInt
  | DInt, _ | _, DInt => F64          (* int64 with any float, float16/32 included, gives float64 *)
  | F64, _ | _, F64 => F64
  | F32, _ | _, F32 => F32
  | F16, F16 => F16
  end.

(* 0 bool, 1 integer, 2 floating: the "kind" used by same-kind casting *)
Definition krank (d : dtype) : nat := match d with DBool => 0 | DInt => 1 | _ => 2 end.
Definition same_kind_castable (from to : dtype) : bool := krank from <=? krank to.

(* ufunc results: np.generic iff every operand is 0-d.  An ndarray may be 0-d, so an operation with an
   ndarray operand may return either; without any ndarray operand it returns a NumPy scalar. *)
Definition kscalarish (k : kind) : bool := match k with KScalar => true | _ => false end.
Definition ufunc_kind2 (k1 k2 : kind) : kind := if kscalarish k1 && kscalarish k2 then KScalar else KEither.
Definition ufunc_kind1 (k : kind) : kind := if kscalarish k then KScalar else KEither.

Definition intish (v : absval) : bool :=
  match v with
  | ShapeV | OpaqueV | PyInt | PyBool _ | Np DInt _ | Np DBool _ => true
  | _ => false
  end.

(* a + b, a - b, a * b, np.maximum/minimum(a, b), a @ b (kind handled by the caller for matmul) *)
Definition arith (a b : absval) : absval :=
  match a, b with
  | Np d1 k1, Np d2 k2 => Np (join d1 d2) (ufunc_kind2 k1 k2)
  | Np d k, PyFloat | PyFloat, Np d k => Np (if is_float d then d else F64) (ufunc_kind1 k)
  | Np d k, PyInt | PyInt, Np d k => Np (match d with DBool => DInt | _ => d end) (ufunc_kind1 k)
  | Np d k, PyBool _ | PyBool _, Np d k => Np d (ufunc_kind1 k)
  | PyFloat, (PyFloat | PyInt | PyBool _) | (PyInt | PyBool _), PyFloat => PyFloat
  | PyInt, (PyInt | PyBool _) | PyBool _, PyInt => PyInt
  | PyBool _, PyBool _ => PyInt
  | ShapeV, ShapeV | ShapeV, PyInt | PyInt, ShapeV => ShapeV          (* tuple concatenation / repetition *)
  | (ShapeV | OpaqueV), y => if intish y then OpaqueV else ErrV
  | x, (ShapeV | OpaqueV) => if intish x then OpaqueV else ErrV
  | _, _ => ErrV
  end.

(* a ** b : as [arith], except that NumPy has no boolean power loop (bool ** int gives int8): not modelled.
   Python int ** Python int is an int or (negative exponent) a float: see [deval]. *)
Definition has_bool_np (v : absval) : bool := match v with Np DBool _ => true | _ => false end.
Definition powv (a b : absval) : absval :=
  if has_bool_np a || has_bool_np b then ErrV else arith a b.

(* true division *)
Definition divv (a b : absval) : absval :=
  match arith a b with
  | Np d k => Np (if is_float d then d else F64) k
  | PyInt | PyFloat => PyFloat
  | _ => ErrV
  end.

(* floor division, modulo: integers stay integers *)
Definition floordivv (a b : absval) : absval :=
  match arith a b with
  | Np DBool k => ErrV
  | v => v
  end.

(* comparisons *)
Definition cmpv (a b : absval) : absval :=
  match a, b with
  | Np _ k1, Np _ k2 => Np DBool (ufunc_kind2 k1 k2)
  | Np _ k, (PyFloat | PyInt | PyBool _) | (PyFloat | PyInt | PyBool _), Np _ k => Np DBool (ufunc_kind1 k)
  | ErrV, _ | _, ErrV => ErrV
  | StrV x, StrV y => PyBool (Some (if string_dec x y then true else false))
  | _, _ => PyBool None
  end.

(* unary minus / np.abs : dtype kept; no boolean negative *)
Definition negv (a : absval) : absval :=
  match a with
  | Np DBool _ => ErrV
  | Np d k => Np d (ufunc_kind1 k)
  | PyBool _ | PyInt => PyInt
  | PyFloat => PyFloat
  | _ => ErrV
  end.

(* np.exp / np.log / np.sqrt / np.tanh : floats keep their width, int64 -> float64, bool -> float16;
   a Python number becomes a NumPy scalar of the default dtype (np.log(2) is a np.float64) *)
Definition floatfn (a : absval) : absval :=
  match a with
  | Np d k => Np (match d with DInt => F64 | DBool => F16 | x => x end) (ufunc_kind1 k)
  | PyInt | PyFloat => Np F64 KScalar
  | PyBool _ => Np F16 KScalar
  | _ => ErrV
  end.

(* np.floor : floats keep their width, int64 stays int64 (NumPy >= 2.1) *)
Definition floorfn (a : absval) : absval :=
  match a with
  | Np DBool _ => ErrV
  | Np d k => Np d (ufunc_kind1 k)
  | PyInt => Np DInt KScalar
  | PyFloat => Np F64 KScalar
  | _ => ErrV
  end.

(* reshape / transpose / moveaxis / swapaxes / squeeze / .T : views keep dtype; an ndarray stays an ndarray *)
Definition viewv (a : absval) : absval :=
  match a with
  | Np d KArray => Np d KArray
  | Np d _ => Np d KEither
  | _ => ErrV
  end.

(* functions that always return a fresh/strided ndarray of the argument's dtype:
   np.pad, np.ascontiguousarray, np.expand_dims, as_strided, sliding_window_view, np.split (as a pile), np.rollaxis *)
Definition toarr (a : absval) : absval :=
  match a with
  | Np d _ => Np d KArray
  | _ => ErrV
  end.

(* a.copy() *)
Definition copyv (a : absval) : absval :=
  match a with Np d k => Np d k | _ => ErrV end.

(* np.asarray-like conversion of Python data: np.broadcast_to(kernel_size, dims), np.array(shape), np.prod([..]) *)
Definition asarray (a : absval) : absval :=
  match a with
  | Np d _ => Np d KArray
  | PyInt | ShapeV => Np DInt KArray
  | PyFloat => Np F64 KArray
  | PyBool _ => Np DBool KArray
  | _ => ErrV
  end.

Inductive redop := RSum | RMean | RMax | RArg.     (* sum/prod/cumprod ; mean/var ; max/min ; argmax/argmin *)

Definition red_dtype (op : redop) (d : dtype) : dtype :=
  match op with
  | RSum => match d with DBool => DInt | x => x end
  | RMean => match d with DBool | DInt => F64 | x => x end
  | RMax => d
  | RArg => DInt
  end.

(* np.sum(a, axis, keepdims) ... : a NumPy scalar when axis is None and keepdims is False; with an axis the
   result is an ndarray unless the input is 1-d (then a scalar): the rank is not tracked, hence KEither;
   keepdims=True keeps an ndarray an ndarray except for 0-d input. *)
Definition reducev (op : redop) (a axis keep : absval) : absval :=
  match asarray a with
  | Np d _ =>
      match axis, keep with
      | ErrV, _ | _, ErrV => ErrV
      | NoneV, PyBool (Some false) => Np (red_dtype op d) KScalar
      | _, _ => Np (red_dtype op d) KEither
      end
  | _ => ErrV
  end.

Inductive idxkind := ISlice | IUnknown.   (* an index containing a basic slice written in the source / anything else *)

Definition indexv (a : absval) (ik : idxkind) : absval :=
  match a with
  | Np d KScalar => Np d KEither
  | Np d _ => Np d (match ik with ISlice => KArray | IUnknown => KEither end)
  | ShapeV => match ik with ISlice => ShapeV | IUnknown => PyInt end
  | OpaqueV | TupV _ => OpaqueV
  | _ => ErrV
  end.

(* element obtained by iterating *)
Definition elemv (a : absval) : absval :=
  match a with
  | Np d _ => Np d KEither
  | ShapeV => PyInt
  | OpaqueV | TupV _ => OpaqueV
  | _ => ErrV
  end.

Definition dtype_of (a : absval) : option dtype := match a with Np d _ => Some d | _ => None end.

(* a.astype(t.dtype) *)
Definition astypev (a t : absval) : absval :=
  match a, t with
  | Np _ k, Np d _ => Np d k
  | _, _ => ErrV
  end.

(* np.float64(x) / np.float32(x) : a NumPy scalar from a Python number, an array from an array *)
Definition castv (a t : absval) : absval :=
  match a, t with
  | Np _ k, Np d _ => Np d k
  | (PyInt | PyFloat | PyBool _), Np d _ => Np d KScalar
  | _, _ => ErrV
  end.

(* np.zeros(shape) / np.ones / np.empty / np.full(shape, pyfloat) : float64 unless dtype=<e>.dtype is given *)
Definition allocv (t : option absval) : absval :=
  match t with
  | None => Np F64 KArray
  | Some (Np d _) => Np d KArray
  | Some NoneV => Np F64 KArray        (* dtype=None *)
  | Some _ => ErrV
  end.

(* np.zeros_like(a) / np.ones_like(a) *)
Definition likev (a : absval) : absval := match a with Np d _ => Np d KArray | _ => ErrV end.

(* np.arange(ints) *)
Definition arangev (a : absval) : absval :=
  match a with
  | PyInt | PyBool _ | ShapeV | OpaqueV | Np DInt _ => Np DInt KArray
  | PyFloat => Np F64 KArray
  | Np d _ => Np d KArray
  | _ => ErrV
  end.

(* np.where(c, a, b) : result_type(a, b); two Python scalars give the default dtype; always an ndarray *)
Definition wherev (c a b : absval) : absval :=
  match c with
  | ErrV | NoneV | TupV _ => ErrV
  | _ =>
    match arith a b with
    | Np d _ => Np d KArray
    | PyFloat => Np F64 KArray
    | PyInt => match a, b with PyBool _, PyBool _ => Np DBool KArray | _, _ => Np DInt KArray end
    | _ => ErrV
    end
  end.

(* a.item() / int(a) / float(a) *)
Definition itemv (a : absval) : absval :=
  match a with
  | Np DBool _ => PyBool None
  | Np DInt _ => PyInt
  | Np _ _ => PyFloat
  | _ => ErrV
  end.
Definition intv (a : absval) : absval :=
  match a with Np _ _ | PyInt | PyFloat | PyBool _ | OpaqueV | ShapeV | TupV _ => PyInt | _ => ErrV end.

(* np.concatenate / np.stack of a sequence of arrays: result_type of all of them *)
Fixpoint concat_dt (l : list absval) : option dtype :=
  match l with
  | [] => None
  | [Np d _] => Some d
  | Np d _ :: t => match concat_dt t with Some d' => Some (join d d') | None => None end
  | _ => None
  end.
Definition concatv (a : absval) : absval :=
  match a with
  | TupV l => match concat_dt l with Some d => Np d KArray | None => ErrV end
  | Np d _ => Np d KArray
  | _ => ErrV
  end.

(* augmented assignment  buf op= val  on an ndarray: the ufunc runs with out=buf and casting='same_kind':
   it raises UFuncTypeError unless result_type(buf, val) can be cast to buf's dtype within the same kind
   (float64 into a float32 buffer: fine; a float into an int buffer, or a Python int into a bool buffer: raises).
   The buffer object, hence its dtype (and shape), is unchanged. *)
Definition inplacev (buf val : absval) : absval :=
  match buf with
  | Np db (KArray | KEither) =>      (* a NumPy scalar does not support subscripted assignment: if it worked it was an ndarray *)
      match arith buf val with
      | Np dr _ => if same_kind_castable dr db then Np db KArray else ErrV
      | _ => ErrV
      end
  | _ => ErrV
  end.

(* `name op= val` on a local: in place when the local is an ndarray, a rebinding `name = name op val` otherwise *)
Definition augv (buf val : absval) : list absval :=
  match buf with
  | Np _ KArray => [inplacev buf val]
  | Np d KEither => [inplacev (Np d KArray) val; arith (Np d KScalar) val]
  | _ => [arith buf val]
  end.

(* buf[idx] = val, np.add.at(buf, idx, val), np.put_along_axis(buf, idx, val, axis): unsafe casting, the value
   is converted to the buffer's dtype whatever it is. *)
Definition setitemv (buf val : absval) : absval :=
  match buf, val with
  | Np db (KArray | KEither), (Np _ _ | PyInt | PyFloat | PyBool _) => Np db KArray
  | (ShapeV | OpaqueV), (ErrV | NoneV | TupV _) => ErrV
  | (ShapeV | OpaqueV), _ => OpaqueV                    (* a Python list of slices / ints being filled in *)
  | _, _ => ErrV
  end.

(* ---- the Tensor constructor (translated flags: Gen/GenDtype.v gen_cfg) ---------------------------------- *)
Record cfg := mkCfg {
  ctor_keeps_generic : bool;    (* `if isinstance(data, np.generic): data = np.asarray(data)` present in Tensor.__init__ *)
  default_dtype : dtype         (* tensor.default_type__ *)
}.

(* Tensor(data) without dtype= :  ndarray kept; np.generic kept iff the flag; anything else converted to default *)
Definition ctorv (c : cfg) (v : absval) : list absval :=
  let dflt := Np (default_dtype c) KArray in
  match v with
  | Np d KArray => [Np d KArray]
  | Np d KScalar => [if ctor_keeps_generic c then Np d KArray else dflt]
  | Np d KEither => if ctor_keeps_generic c then [Np d KArray] else vunion [Np d KArray] [dflt]
  | PyBool _ | PyInt | PyFloat | ShapeV => [dflt]
  | TupV _ => [dflt]
  | _ => [ErrV]
  end.

(* ---- deep embedding of dtype-transfer expressions --------------------------------------------------- *)
Inductive dexpr :=
| DParam (i : nat)                       (* i-th entry of the environment (parameters, then let-bound locals) *)
| DLoopVar                               (* the loop-carried value inside the body of the innermost DLoop *)
| DConst (v : absval)
| DBin (a b : dexpr)                     (* + - * maximum minimum *)
| DPow (a b : dexpr)
| DDiv (a b : dexpr)
| DFloorDiv (a b : dexpr)
| DCmp (a b : dexpr)
| DNeg (a : dexpr)
| DFloatFn (a : dexpr)
| DFloor (a : dexpr)
| DView (a : dexpr)
| DToArr (a : dexpr)
| DCopy (a : dexpr)
| DAsArray (a : dexpr)
| DMatmul (a b : dexpr)                  (* a @ b : ndarray or scalar (1-d @ 1-d) *)
| DTensordot (a b : dexpr)               (* always an ndarray *)
| DReduce (op : redop) (a axis keep : dexpr)
| DIndex (a : dexpr) (ik : idxkind)
| DElem (a : dexpr)
| DAstype (a t : dexpr)
| DCast (a t : dexpr)                    (* np.float64(a) *)
| DAlloc (t : option dexpr)
| DLike (a : dexpr)
| DArange (a : dexpr)
| DWhere (c a b : dexpr)
| DItem (a : dexpr)
| DToInt (a : dexpr)
| DConcat (a : dexpr)
| DSeq (l : list dexpr)                  (* tuple / list / comprehension of shape-like things *)
| DInplace (buf val : dexpr)             (* buf[idx] op= val *)
| DAug (buf val : dexpr)                 (* name op= val *)
| DSetitem (buf val : dexpr)
| DCtor (a : dexpr) (dt : option dexpr)  (* Tensor(a) / Tensor(a, dtype=<e>.dtype) *)
| DIsNone (a : dexpr)
| DIsPy (i f : bool) (a : dexpr)         (* isinstance(a, int / float / (int, float)) *)
| DDtypeEq (a b : dexpr)                 (* a.dtype == b.dtype *)
| DIsNp (a : dexpr)                      (* isinstance(a, Tensor) at the tensor level: a NumPy value vs a Python one *)
| DNot (a : dexpr)
| DIf (c a b : dexpr)                    (* both branches unless the test is decided by the abstract value *)
| DChoice (a b : dexpr)
| DRaise
| DLet (e body : dexpr)                  (* body sees the value of e as the next environment entry *)
| DApp (body : dexpr) (args : list dexpr)(* call: body evaluated in the environment made of the argument values *)
| DLoop (init body : dexpr)              (* zero or more iterations of body on the loop-carried value *)
| DTuple (l : list dexpr)
| DProj (i : nat) (a : dexpr).

(* using an unbound local raises: such combinations contribute no value *)
Definition bound (v : absval) : bool := match v with UnboundV => false | _ => true end.
Definition nounb (s : list absval) : list absval := filter bound s.
Definition lift1 (f : absval -> absval) (s : list absval) : list absval := vdedup (map f (nounb s)).
Definition lift2 (f : absval -> absval -> absval) (s1 s2 : list absval) : list absval :=
  vflat (fun x => vdedup (map (f x) (nounb s2))) (nounb s1).
Definition lift3 (f : absval -> absval -> absval -> absval) (s1 s2 s3 : list absval) : list absval :=
  vflat (fun x => lift2 (f x) s2 s3) (nounb s1).

(* all ways of picking one value from each set *)
Fixpoint combos (ss : list (list absval)) : list (list absval) :=
  match ss with
  | [] => [[]]
  | s :: t => flat_map (fun x => map (cons x) (combos t)) s
  end.

Definition seqv (l : list absval) : absval :=
  if existsb (fun v => match v with ErrV | NoneV | TupV _ => true | _ => false end) l then
    (if existsb (fun v => match v with ErrV => true | _ => false end) l then ErrV else OpaqueV)
  else if forallb (fun v => match v with PyInt | PyBool _ | ShapeV => true | _ => false end) l then ShapeV
  else OpaqueV.

(* t[i] of a tuple / unpacking `a, b = v` *)
Definition projv (i : nat) (v : absval) : absval :=
  match v with
  | TupV l => nth i l ErrV
  | ShapeV => PyInt
  | OpaqueV => OpaqueV
  | Np d _ => Np d KEither
  | _ => ErrV
  end.

Definition is_none (v : absval) : absval :=
  match v with NoneV => PyBool (Some true) | ErrV => ErrV | _ => PyBool (Some false) end.
Definition is_np (v : absval) : absval :=
  match v with Np _ _ => PyBool (Some true) | ErrV => ErrV | _ => PyBool (Some false) end.
Definition notv (v : absval) : absval :=
  match v with
  | PyBool (Some b) => PyBool (Some (negb b))
  | NoneV => PyBool (Some true)
  | ErrV => ErrV
  | _ => PyBool None
  end.

(* isinstance(v, int) / isinstance(v, float) / isinstance(v, (int, float)) : bool is a subclass of int, np.float64 a
   subclass of float; NumPy integers and the other NumPy floats are neither *)
Definition is_py (i f : bool) (v : absval) : absval :=
  match v with
  | PyInt | PyBool _ => PyBool (Some i)
  | PyFloat => PyBool (Some f)
  | Np F64 KScalar => PyBool (Some f)
  | Np F64 KEither => if f then PyBool None else PyBool (Some false)
  | Np _ _ | NoneV | ShapeV | StrV _ | TupV _ => PyBool (Some false)
  | OpaqueV => PyBool None
  | _ => ErrV
  end.

(* a.dtype == b.dtype (b usually a dtype constant such as np.float32) *)
Definition dtype_eqv (a b : absval) : absval :=
  match a, b with
  | Np d _, Np d' _ => PyBool (Some (dtype_eqb d d'))
  | _, _ => ErrV
  end.

(* which branches of an `if` are possible for a value of the test *)
Definition truthy (v : absval) : bool * bool :=     (* (then possible, else possible) *)
  match v with
  | PyBool (Some true) => (true, false)
  | PyBool (Some false) | NoneV => (false, true)
  | UnboundV => (false, false)
  | _ => (true, true)
  end.

Definition pow_set (a b : absval) : list absval :=
  match a, b with
  | (PyInt | PyBool _), (PyInt | PyBool _) => [PyInt; PyFloat]     (* 2 ** -1 is a float *)
  | _, _ => [powv a b]
  end.

(* true division; with an integer of unknown origin (a Python int or a NumPy int) the quotient is a Python float
   or a np.float64: both *)
Definition div_set (a b : absval) : list absval :=
  match arith a b with
  | OpaqueV | ShapeV => [PyFloat; Np F64 KScalar]
  | _ => [divv a b]
  end.

Definition matmulv (a b : absval) : absval :=
  match a, b with
  | Np d1 _, Np d2 _ => Np (join d1 d2) KEither
  | _, _ => ErrV
  end.
Definition tensordotv (a b : absval) : absval :=
  match a, b with
  | Np d1 _, Np d2 _ => Np (join d1 d2) KArray
  | _, _ => ErrV
  end.

Definition loop_fuel : nat := 12.

Fixpoint iter_union (n : nat) (step : absval -> list absval) (s : list absval) : list absval :=
  match n with
  | 0 => s
  | S n' => iter_union n' step (vunion (vflat step s) s)
  end.

(* [deval c env lv e] : the set of values e may have; env = parameters followed by let-bound locals,
   lv = current value of the loop-carried variable *)
Fixpoint deval (c : cfg) (env : list absval) (lv : absval) (e : dexpr) {struct e} : list absval :=
  let ev := deval c env lv in
  match e with
  | DParam i => [nth i env ErrV]
  | DLoopVar => [lv]
  | DConst v => [v]
  | DBin a b => lift2 arith (ev a) (ev b)
  | DPow a b => vflat (fun x => vflat (fun y => vdedup (pow_set x y)) (nounb (ev b))) (nounb (ev a))
  | DDiv a b => vflat (fun x => vflat (fun y => vdedup (div_set x y)) (nounb (ev b))) (nounb (ev a))
  | DFloorDiv a b => lift2 floordivv (ev a) (ev b)
  | DCmp a b => lift2 cmpv (ev a) (ev b)
  | DNeg a => lift1 negv (ev a)
  | DFloatFn a => lift1 floatfn (ev a)
  | DFloor a => lift1 floorfn (ev a)
  | DView a => lift1 viewv (ev a)
  | DToArr a => lift1 toarr (ev a)
  | DCopy a => lift1 copyv (ev a)
  | DAsArray a => lift1 asarray (ev a)
  | DMatmul a b => lift2 matmulv (ev a) (ev b)
  | DTensordot a b => lift2 tensordotv (ev a) (ev b)
  | DReduce op a ax k => lift3 (reducev op) (ev a) (ev ax) (ev k)
  | DIndex a ik => lift1 (fun v => indexv v ik) (ev a)
  | DElem a => lift1 elemv (ev a)
  | DAstype a t => lift2 astypev (ev a) (ev t)
  | DCast a t => lift2 castv (ev a) (ev t)
  | DAlloc None => [allocv None]
  | DAlloc (Some t) => lift1 (fun v => allocv (Some v)) (ev t)
  | DLike a => lift1 likev (ev a)
  | DArange a => lift1 arangev (ev a)
  | DWhere x a b => lift3 wherev (ev x) (ev a) (ev b)
  | DItem a => lift1 itemv (ev a)
  | DToInt a => lift1 intv (ev a)
  | DConcat a => lift1 concatv (ev a)
  | DSeq l => vdedup (map seqv (combos (map (fun x => nounb (ev x)) l)))
  | DInplace b v => lift2 inplacev (ev b) (ev v)
  | DAug b v => vflat (fun x => vflat (fun y => vdedup (augv x y)) (nounb (ev v))) (nounb (ev b))
  | DSetitem b v => lift2 setitemv (ev b) (ev v)
  | DCtor a None => vflat (ctorv c) (nounb (ev a))
  | DCtor a (Some t) =>
      (* `if dtype is not None and data.dtype != dtype: data = data.astype(dtype)` *)
      vflat (fun tv => lift1 (fun v => match tv with NoneV => v | _ => astypev v tv end) (vflat (ctorv c) (nounb (ev a)))) (nounb (ev t))
  | DIsNone a => lift1 is_none (ev a)
  | DIsPy i f a => lift1 (is_py i f) (ev a)
  | DDtypeEq a b => lift2 dtype_eqv (ev a) (ev b)
  | DIsNp a => lift1 is_np (ev a)
  | DNot a => lift1 notv (ev a)
  | DIf x a b =>
      vflat (fun t => let '(p, q) := truthy t in
                      vunion (if p then ev a else []) (if q then ev b else [])) (ev x)
  | DChoice a b => vunion (ev a) (ev b)
  | DRaise => []
  | DLet e1 body => vflat (fun v => deval c (env ++ [v]) lv body) (ev e1)
  | DApp body args => nounb (vdedup (flat_map (fun env' => deval c env' ErrV body) (combos (map (fun x => nounb (ev x)) args))))   (* returning an unbound local raises *)
  | DLoop init body =>
      let s := iter_union loop_fuel (fun v => deval c env v body) (ev init) in
      (* fail closed if the iteration did not reach a fixpoint *)
      if vsubset (vflat (fun v => deval c env v body) s) s then s else vunion [ErrV] s
  | DTuple l => vdedup (map TupV (combos (map ev l)))
  | DProj i a => lift1 (projv i) (ev a)
  end.

Definition deval0 (c : cfg) (args : list absval) (e : dexpr) : list absval := nounb (deval c args ErrV e).

(* ---- concrete buffers: dtype and shape (the gradient-buffer argument) ----------------------------------- *)
Definition shape := list nat.
Definition buffer := (dtype * shape)%type.

Fixpoint shape_eqb (a b : shape) : bool :=
  match a, b with
  | [], [] => true
  | x :: t, y :: t' => Nat.eqb x y && shape_eqb t t'
  | _, _ => false
  end.

(* NumPy broadcasting of a value of shape v into an existing buffer of shape b (out= semantics):
   aligned from the right, each value dimension equals the buffer's or is 1; v may not have more dimensions. *)
Fixpoint bcast_rev (v b : shape) : bool :=
  match v, b with
  | [], _ => true
  | _ :: _, [] => false
  | x :: v', y :: b' => (Nat.eqb x y || Nat.eqb x 1) && bcast_rev v' b'
  end.
Definition broadcasts_to (v b : shape) : bool := bcast_rev (rev v) (rev b).

(* buf += val / buf -= val on an ndarray buffer *)
Definition inplace (b : buffer) (v : buffer) : option buffer :=
  if same_kind_castable (join (fst b) (fst v)) (fst b) && broadcasts_to (snd v) (snd b) then Some b else None.

Fixpoint accumulate (b : buffer) (vs : list buffer) : option buffer :=
  match vs with
  | [] => Some b
  | v :: t => match inplace b v with Some b' => accumulate b' t | None => None end
  end.

(* Tensor.zero_():  self.grad = Tensor(np.zeros_like(self.data))  through the grad setter (shape check, then
   `self._grad = grad.data`): a fresh buffer with the dtype and shape of the tensor's data *)
Definition zeros_like_buf (data : buffer) : buffer := data.

(* the root of backward(grad):  with the in-place seed `self._grad += grad.data` the buffer made by zero_()
   is kept; with the old `self.grad = grad` the buffer *is* the caller's array (its dtype, checked shape). *)
Definition seed_root (in_place : bool) (data upstream : buffer) : option buffer :=
  if in_place then inplace (zeros_like_buf data) upstream
  else if shape_eqb (snd data) (snd upstream) then Some upstream else None.

(* buffer of a tensor after a backward pass: created by zero_() (children) or by the seeding of the root, then any
   sequence of accumulated pieces, each one written according to [in_place] of its wrapper *)
Definition start_buffer (seed_in_place is_root : bool) (data upstream : buffer) : option buffer :=
  if is_root then seed_root seed_in_place data upstream else Some (zeros_like_buf data).

Definition final_grad (seed_in_place is_root : bool) (data upstream : buffer) (vs : list buffer) : option buffer :=
  match start_buffer seed_in_place is_root data upstream with
  | Some b => accumulate b vs
  | None => None
  end.

(* ---- generated tables: rows ------------------------------------------------------------------------------- *)
(* how an argument of a public op is filled in when the table is instantiated for a dtype *)
Inductive argspec :=
| ATensor                      (* a tensor operand of the dtype under consideration *)
| ATensor2                     (* a further tensor operand: the second dtype (= the first one except in mixed rows) *)
| ALabel                       (* an integer index tensor (class labels) *)
| AList                        (* a list of two tensor operands *)
| AFix (v : absval).           (* a configuration value / an absent optional operand / a Python scalar operand *)

Record oprow := mkOp {
  op_name : string;
  op_args : list argspec;
  op_expr : dexpr;                     (* over the arguments ++ [upstream gradient]; value: TupV (result :: accumulated values) *)
  op_accs : list (nat * bool)          (* per accumulation: (index of the operand written, written in place with += / -=) *)
}.

Definition inst_arg (d d2 : dtype) (a : argspec) : absval :=
  match a with
  | ATensor => Np d KArray
  | ATensor2 => Np d2 KArray
  | ALabel => Np DInt KArray
  | AList => TupV [Np d KArray; Np d2 KArray]
  | AFix v => v
  end.

Definition op_eval (c : cfg) (d d2 g : dtype) (r : oprow) : list absval :=
  deval0 c (map (inst_arg d d2) (op_args r) ++ [Np g KArray]) (op_expr r).
Definition op_result (c : cfg) (d d2 : dtype) (r : oprow) : list absval := nounb (lift1 (projv 0) (op_eval c d d2 d r)).
Definition acc_values (c : cfg) (d d2 g : dtype) (r : oprow) (j : nat) : list absval :=
  nounb (lift1 (projv (S j)) (op_eval c d d2 g r)).

Definition arg_absent (r : oprow) (i : nat) : bool :=
  match nth i (op_args r) (AFix ErrV) with AFix NoneV => true | _ => false end.

Definition is_nil {A} (l : list A) : bool := match l with [] => true | _ => false end.

(* ---- layers with state: histories ------------------------------------------------------------------------------------ *)
(* A layer whose forward changes attributes of self (BatchNorm: running_mean / running_var are rebound by the batch_norm
   wrapper, num_batches_tracked is incremented) is a state machine.  State = TupV of the attributes (sorted names).
   sl_init : over the constructor arguments -> state;  sl_step : over x :: training :: attributes -> TupV (output :: state'). *)
Record slrow := mkSL {
  sl_name : string;
  sl_ctor : list argspec;
  sl_init : dexpr;
  sl_step : dexpr
}.

Definition comps (st : absval) : list absval := match st with TupV l => l | _ => [] end.
Definition res_out (v : absval) : absval := projv 0 v.
Definition res_state (v : absval) : absval := match v with TupV (_ :: s) => TupV s | _ => ErrV end.

Definition sl_init_states (c : cfg) (d d2 : dtype) (r : slrow) : list absval :=
  deval0 c (map (inst_arg d d2) (sl_ctor r)) (sl_init r).
Definition sl_step1 (c : cfg) (r : slrow) (x : absval) (tr : bool) (st : absval) : list absval :=
  deval0 c (x :: PyBool (Some tr) :: comps st) (sl_step r).
Definition sl_next (c : cfg) (r : slrow) (x : absval) (tr : bool) (S : list absval) : list absval :=
  vflat (fun st => lift1 res_state (sl_step1 c r x tr st)) S.
Definition sl_outs (c : cfg) (r : slrow) (x : absval) (tr : bool) (S : list absval) : list absval :=
  vflat (fun st => lift1 res_out (sl_step1 c r x tr st)) S.

(* a history = the forward calls in order: (training mode?, input); result: the possible outputs of every call and the
   possible states afterwards *)
Fixpoint sl_run (c : cfg) (r : slrow) (h : list (bool * absval)) (S : list absval) : list (list absval) * list absval :=
  match h with
  | [] => ([], S)
  | (tr, x) :: t => let res := sl_run c r t (sl_next c r x tr S) in (sl_outs c r x tr S :: fst res, snd res)
  end.

(* every floating buffer / parameter in the state has dtype d, nothing is ill-typed *)
Definition good_state (d : dtype) (st : absval) : bool :=
  match st with
  | TupV l => forallb (fun v => match v with
                                | Np dt _ => if is_float dt then dtype_eqb dt d else true
                                | ErrV | UnboundV => false
                                | _ => true
                                end) l
  | _ => false
  end.

(* states reachable by train / eval forwards on inputs x *)
Fixpoint reach_iter (n : nat) (c : cfg) (r : slrow) (x : absval) (S : list absval) : list absval :=
  match n with
  | 0 => S
  | S n' => reach_iter n' c r x (vunion (sl_next c r x true S) (vunion (sl_next c r x false S) S))
  end.

Definition out_is (d : dtype) (v : absval) : bool := match v with Np d' _ => dtype_eqb d d' | _ => false end.

(* R is closed under both kinds of forward on inputs of dtype d, and every output from a state of R has dtype d *)
Definition closed_ok (c : cfg) (r : slrow) (d : dtype) (R : list absval) : bool :=
  forallb (fun st => forallb (fun tr =>
     forallb (fun res => negb (bound res) || (vmem (res_state res) R && out_is d (res_out res)))
             (sl_step1 c r (Np d KArray) tr st)) [true; false]) R.

Definition sl_row_ok (c : cfg) (r : slrow) (d : dtype) : bool :=
  let S0 := sl_init_states c d d r in
  if forallb (good_state d) S0 then
    let R := reach_iter 4 c r (Np d KArray) S0 in
    closed_ok c r d R && forallb (good_state d) R && vsubset S0 R
  else true.     (* the layer's buffers are not of dtype d (a float32 layer, d = float64): mixed, not constrained *)

(* every possible value is a NumPy value of dtype d (an empty set = the call raises) *)
Definition all_dtype (d : dtype) (s : list absval) : bool :=
  forallb (fun v => match v with Np d' _ => dtype_eqb d d' | _ => false end) s.

Definition all_float (s : list absval) : bool :=
  forallb (fun v => match v with Np d' _ => is_float d' | _ => false end) s.

Definition all_scalar_kind (s : list absval) : bool :=
  forallb (fun v => match v with Np _ (KScalar | KEither) => true | _ => false end) s.

Definition accs_in_place (r : oprow) : bool := forallb (fun a => snd a) (op_accs r).

Definition in_dtypes (ds : list dtype) (s : list absval) : bool :=
  forallb (fun v => match v with Np d _ => existsb (dtype_eqb d) ds | _ => false end) s.

Definition str_eqb (a b : string) : bool := if string_dec a b then true else false.
