(* Short exact models of the remaining forward definitions of property C06 that need no theory of their own
   (cpu_ops.py relu/leaky_relu/mse_loss/nll_loss forward, nn/losses.py reduction, F.linear, batch_norm_forward statistics).
   Used only by the correspondence run of checks/c06.py on integer / dyadic data; no proofs. *)
From Coq Require Import List ZArith Bool QArith.
Import ListNotations.
Open Scope Q_scope.

Definition qsum (l : list Q) : Q := fold_right Qplus 0 l.
Definition qlen (l : list Q) : Q := inject_Z (Z.of_nat (length l)).
Definition qmax (a b : Q) : Q := if Qle_bool a b then b else a.
(* np.maximum(0, a);  np.where(a > 0, a, neg_slope * a) *)
Definition relu (x : Q) : Q := qmax 0 x.
Definition leaky_relu (slope x : Q) : Q := if negb (Qle_bool x 0) then x else slope * x.
(* (y_pred - y_true)**2 *)
Definition mse (a b : Q) : Q := (a - b) * (a - b).
(* -y_pred[range(len(y_pred)), y_true].reshape((-1, 1)) *)
Definition nll (rows : list (list Q)) (ys : list nat) : list Q :=
  map (fun ry => - nth (snd ry) (fst ry) 0) (combine rows ys).
(* Loss.__call__: 'sum' -> loss.sum(), 'mean' -> loss.mean(), anything else -> the unreduced loss *)
Inductive reduction := RMean | RSum | RNone.
Definition reduce (r : reduction) (l : list Q) : list Q :=
  match r with RSum => [qsum l] | RMean => [qsum l / qlen l] | RNone => l end.
(* F.linear: x @ w.T (+ bias) *)
Definition dotq (a b : list Q) : Q := qsum (map (fun p => fst p * snd p) (combine a b)).
Definition linear (x w : list (list Q)) (b : option (list Q)) : list (list Q) :=
  map (fun xr => map (fun jw => dotq xr (snd jw) + match b with Some bb => nth (fst jw) bb 0 | None => 0 end)
                     (combine (seq 0 (length w)) w)) x.
(* batch_norm_forward, per channel: x.mean(axis=normed_dims), x.var(axis=normed_dims) (biased, ddof = 0) in training;
   the running statistics as given in eval mode *)
Definition bn_mean (l : list Q) : Q := qsum l / qlen l.
Definition bn_var (l : list Q) : Q := let m := bn_mean l in qsum (map (fun v => (v - m) * (v - m)) l) / qlen l.
Definition bn_stats (training : bool) (running : option (Q * Q)) (l : list Q) : Q * Q :=
  match running, training with
  | Some rv, false => rv
  | _, _ => (bn_mean l, bn_var l)
  end.
(* running_mean = mean * momentum + running_mean * (1 - momentum);  running_var likewise with the unbiased variance var * n/(n-1) *)
Definition bn_running (momentum : Q) (rm rv : Q) (l : list Q) : Q * Q :=
  let n := qlen l in
  (bn_mean l * momentum + rm * (1 - momentum), bn_var l * (n / (n - 1)) * momentum + rv * (1 - momentum)).

(* nn.BatchNorm.forward bookkeeping (track_running_stats=True): num_batches_tracked is incremented by training-mode forwards only;
   exponential_average_factor = momentum, or 1 / num_batches_tracked (after the increment) when momentum is None;
   eval-mode forwards leave the running statistics alone *)
Definition bn_tracked (training : bool) (n : Z) : Z := if training then (n + 1)%Z else n.
Definition bn_factor (momentum : option Q) (n_after : Z) : Q := match momentum with Some m => m | None => 1 / inject_Z n_after end.
Definition bn_layer_mean (momentum : option Q) (training : bool) (n_before : Z) (rm rv : Q) (l : list Q) : Q :=
  if training then fst (bn_running (bn_factor momentum (bn_tracked training n_before)) rm rv l) else rm.

Fixpoint qlist_eqb (a b : list Q) : bool :=
  match a, b with [] , [] => true | x :: a', y :: b' => Qeq_bool x y && qlist_eqb a' b' | _, _ => false end.
Fixpoint qll_eqb (a b : list (list Q)) : bool :=
  match a, b with [] , [] => true | x :: a', y :: b' => qlist_eqb x y && qll_eqb a' b' | _, _ => false end.
Definition qpair_eqb (a b : Q * Q) : bool := Qeq_bool (fst a) (fst b) && Qeq_bool (snd a) (snd b).
