(* Convolution / pooling / unfold / fold of synapgrad, forward and backward, *as the code computes them*
   (synapgrad/cpu_ops.py 417-533, synapgrad/nn/functional.py 529-927, synapgrad/nn/layers.py 163-514) — model only, no
   proofs (Proofs/ConvPoolAux.v, Proofs/ConvPoolProofs.v).  Hand-written; tied to the code by the correspondence runs of
   checks/c06.py (forward, acceptance, layer constructors) and checks/ops_convpool.py (backward, fused = composition).

   Tensors are functions from index tuples to scalars; the window view and its adjoint are package D's
   NumPy/Window.v (ew1, pw1_contribs, fibre1) and NumPy/Im2col.v (ew, pw_contribs, fibre2, fast_unf, fast_contribs_unf):
   every step of a kernel (extract_windows, np.tensordot with the axes given, bias add, np.moveaxis, max/mean over the
   window axis, max_backward mask, mean_backward, place_windows) is a separate definition in the order of the code.
   Scalars: any [Scalar A] (Base/Sums.v) for the linear kernels; max pooling works on integers extended by -inf;
   np.mean / mean_backward divide by an integer count through the class [Divider] (instances Q and Qc, not Z).         *)
From Coq Require Import List ZArith Bool QArith Qround Qcanon.
Import ListNotations.
From SG Require Import Base.Sums NumPy.Window NumPy.Im2col.
Open Scope Z_scope.

Definition win6 := (Z * Z * Z * Z * Z * Z)%type.      (* (wi, wj, n, c, a, b) : index of the 2-D window view *)
Definition win4 := (Z * Z * Z * Z)%type.              (* (wj, n, c, b)        : index of the 1-D window view *)
Definition idx3 := (Z * Z * Z)%type.

Definition pos1_eqb (a b : pos1) : bool :=
  let '(n, c, w) := a in let '(n', c', w') := b in (n =? n') && (c =? c') && (w =? w').

(* ------------------------------------------------------------------ geometry: 1-D counterparts of Im2col.v *)
Definition o1 g := out_size_view (Wp1 g) (k1 g) (s1 g) (d1 g).          (* windows.shape[0] *)
Definition valid1 g : Prop :=
  0 <= N1 g /\ 0 <= C1 g /\ 0 <= W1 g /\ 0 < k1 g /\ 0 < s1 g /\ 0 <= p1 g /\ 0 < d1 g /\ 1 <= l1 g.
Definition valid1b g : bool :=
  (0 <=? N1 g) && (0 <=? C1 g) && (0 <=? W1 g) && (0 <? k1 g) && (0 <? s1 g) && (0 <=? p1 g) && (0 <? d1 g) && (1 <=? l1 g).
(* extract_windows on a 3-D array: raises iff L = sizes = 0; a negative extent is rejected by as_strided *)
Definition accepts1 g := 0 <? l1 g.
Definition accepts2 := accepts_im2col_fast.

(* index ranges, row-major *)
Definition K2 g : list idx3 := list_prod (list_prod (zr (gC g)) (zr (kH g))) (zr (kW g)).      (* (ci, a, b) *)
Definition K1 g : list (Z * Z) := list_prod (zr (C1 g)) (zr (k1 g)).                            (* (ci, b) *)
Definition O2 g : list idx3 := list_prod (list_prod (zr (oH g)) (zr (oW g))) (zr (gN g)).       (* (wi, wj, n) *)
Definition O1 g : list (Z * Z) := list_prod (zr (o1 g)) (zr (N1 g)).                            (* (wj, n) *)
Definition B2 g : list idx3 := list_prod (list_prod (zr (gN g)) (zr (oH g))) (zr (oW g)).       (* (n, wi, wj) *)
Definition B1 g : list (Z * Z) := list_prod (zr (N1 g)) (zr (o1 g)).                            (* (n, wj) *)
Definition Out2 g (Co : Z) : list pos := list_prod (list_prod (list_prod (zr (gN g)) (zr Co)) (zr (oH g))) (zr (oW g)).
Definition Out1 g (Co : Z) : list pos1 := list_prod (list_prod (zr (N1 g)) (zr Co)) (zr (o1 g)).
Definition Wt2 g (Co : Z) : list pos := list_prod (list_prod (list_prod (zr Co) (zr (gC g))) (zr (kH g))) (zr (kW g)).
Definition Wt1 g (Co : Z) : list pos1 := list_prod (list_prod (zr Co) (zr (C1 g))) (zr (k1 g)).
Definition Ipos1 g : list pos1 := list_prod (list_prod (zr (N1 g)) (zr (C1 g))) (zr (W1 g)).
Definition Jwin1 g : list win4 := list_prod (list_prod (list_prod (zr (l1 g)) (zr (N1 g))) (zr (C1 g))) (zr (k1 g)).

(* ================================================================== linear kernels over any scalar type *)
Section Linear.
Context {A : Type} `{Scalar A}.

(* extract_windows(a, kernel_size, stride, padding, dilation, pad_value) *)
Definition windows2 g (pv : A) (x : pos -> A) : win6 -> A :=
  fun t => let '(wi, wj, n, c, a, b) := t in cell_val s0 pv x (ew g wi wj n c a b).
Definition windows1 g (pv : A) (x : pos1 -> A) : win4 -> A :=
  fun t => let '(wj, n, c, b) := t in cell_val s0 pv x (ew1 g wj n c b).

(* place_windows, 1-D (the 2-D one is Im2col.col2im_apply (pw_contribs g)) *)
Definition place1_apply (contribs : list (win4 * option pos1)) (y : win4 -> A) : pos1 -> A :=
  fun i => isum contribs (fun jt => match snd jt with Some i' => if pos1_eqb i' i then y (fst jt) else s0 | None => s0 end).
Definition place2 g (y : win6 -> A) : pos -> A := col2im_apply (pw_contribs g) y.
Definition place1 g (y : win4 -> A) : pos1 -> A := place1_apply (pw1_contribs g) y.

(* ---------------------------------------------------------------- conv2d_forward
     windows  = extract_windows(a, (kH,kW), stride, padding, dilation)                 [wi, wj, n, ci, a, b]
     conv_out = np.tensordot(weight, windows, axes=[(1,2,3), (3,4,5)])                 [co, wi, wj, n]
     if bias is not None: conv_out += bias.reshape(-1, 1, 1, 1)
     out      = np.moveaxis(conv_out, source=-1, destination=0)                        [n, co, wi, wj]        *)
Definition conv2d_td g (w : pos -> A) (win : win6 -> A) : pos -> A :=
  fun q => let '(co, wi, wj, n) := q in
    isum (K2 g) (fun k => let '(ci, a, b) := k in smul (w (co, ci, a, b)) (win (wi, wj, n, ci, a, b))).
Definition bias_add4 (bias : option (Z -> A)) (t : pos -> A) : pos -> A :=
  fun q => let '(co, _, _, _) := q in match bias with Some bb => sadd (t q) (bb co) | None => t q end.
Definition move_last_first4 (t : pos -> A) : pos -> A := fun q => let '(n, co, wi, wj) := q in t (co, wi, wj, n).
Definition conv2d_fwd g (w : pos -> A) (bias : option (Z -> A)) (x : pos -> A) : pos -> A :=
  move_last_first4 (bias_add4 bias (conv2d_td g w (windows2 g s0 x))).

(* ---------------------------------------------------------------- conv2d_backward   (Co = weight.shape[0] = grad.shape[1])
     a_grad_windows = np.tensordot(grad, weight, axes=[[1], [0]])                      [n, wi, wj, ci, a, b]
     a_grad_windows = np.moveaxis(a_grad_windows, source=0, destination=2)             [wi, wj, n, ci, a, b]
     a_grad         = place_windows(a_grad_windows, a_shape, ...)
     weight_grad    = np.tensordot(grad, windows, axes=[(2,3,0), (0,1,2)])             [co, ci, a, b]
     bias_grad      = grad.sum(axis=(0,2,3))                                                                  *)
Definition conv2d_agw (Co : Z) (gr w : pos -> A) : win6 -> A :=
  fun t => let '(n, wi, wj, ci, a, b) := t in isum (zr Co) (fun co => smul (gr (n, co, wi, wj)) (w (co, ci, a, b))).
Definition move_0_2_of6 (t : win6 -> A) : win6 -> A := fun q => let '(wi, wj, n, ci, a, b) := q in t (n, wi, wj, ci, a, b).
Definition conv2d_bwd_x g (Co : Z) (gr w : pos -> A) : pos -> A := place2 g (move_0_2_of6 (conv2d_agw Co gr w)).
Definition conv2d_bwd_w g (gr : pos -> A) (win : win6 -> A) : pos -> A :=
  fun q => let '(co, ci, a, b) := q in
    isum (O2 g) (fun t => let '(wi, wj, n) := t in smul (gr (n, co, wi, wj)) (win (wi, wj, n, ci, a, b))).
Definition conv2d_bwd_b g (gr : pos -> A) : Z -> A :=
  fun co => isum (B2 g) (fun t => let '(n, wi, wj) := t in gr (n, co, wi, wj)).

(* ---------------------------------------------------------------- conv1d_forward / conv1d_backward
     conv_out = np.tensordot(weight, windows, axes=[(1,2), (2,3)])   [co, wj, n];   out = np.moveaxis(conv_out, -1, 0)
     a_grad_windows = np.moveaxis(np.tensordot(grad, weight, axes=[[1],[0]]), 0, 1)    [n,wj,ci,b] -> [wj,n,ci,b]
     weight_grad    = np.tensordot(grad, windows, axes=[(2,0), (0,1)]);   bias_grad = grad.sum(axis=(0,2))    *)
Definition conv1d_td g (w : pos1 -> A) (win : win4 -> A) : pos1 -> A :=
  fun q => let '(co, wj, n) := q in isum (K1 g) (fun k => let '(ci, b) := k in smul (w (co, ci, b)) (win (wj, n, ci, b))).
Definition bias_add3 (bias : option (Z -> A)) (t : pos1 -> A) : pos1 -> A :=
  fun q => let '(co, _, _) := q in match bias with Some bb => sadd (t q) (bb co) | None => t q end.
Definition move_last_first3 (t : pos1 -> A) : pos1 -> A := fun q => let '(n, co, wj) := q in t (co, wj, n).
Definition conv1d_fwd g (w : pos1 -> A) (bias : option (Z -> A)) (x : pos1 -> A) : pos1 -> A :=
  move_last_first3 (bias_add3 bias (conv1d_td g w (windows1 g s0 x))).
Definition conv1d_agw (Co : Z) (gr w : pos1 -> A) : win4 -> A :=
  fun t => let '(n, wj, ci, b) := t in isum (zr Co) (fun co => smul (gr (n, co, wj)) (w (co, ci, b))).
Definition move_0_1_of4 (t : win4 -> A) : win4 -> A := fun q => let '(wj, n, ci, b) := q in t (n, wj, ci, b).
Definition conv1d_bwd_x g (Co : Z) (gr w : pos1 -> A) : pos1 -> A := place1 g (move_0_1_of4 (conv1d_agw Co gr w)).
Definition conv1d_bwd_w g (gr : pos1 -> A) (win : win4 -> A) : pos1 -> A :=
  fun q => let '(co, ci, b) := q in isum (O1 g) (fun t => let '(wj, n) := t in smul (gr (n, co, wj)) (win (wj, n, ci, b))).
Definition conv1d_bwd_b g (gr : pos1 -> A) : Z -> A :=
  fun co => isum (B1 g) (fun t => let '(n, wj) := t in gr (n, co, wj)).

(* ---------------------------------------------------------------- F.unfold / F.fold
     unfold: im2col_fast(x, ..., pad_value, as_unfold=True);  backward: col2im_fast(grad, x.shape, ...)
     fold:   col2im_fast(x, output_size, ...);                backward: im2col_fast(grad, ..., as_unfold=True), pad value 0 *)
Definition unfold_fwd g (pv : A) (x : pos -> A) : idx3 -> A := im2col_apply (fast_unf g) pv x.
Definition fold_fwd g (y : idx3 -> A) : pos -> A := col2im_apply (fast_contribs_unf g) y.
Definition unfold_bwd g (gr : idx3 -> A) : pos -> A := fold_fwd g gr.
Definition fold_bwd g (gr : pos -> A) : idx3 -> A := unfold_fwd g s0 gr.

(* ---------------------------------------------------------------- the defining sums (what the theorems compare with) *)
Definition xpad2 g (pv : A) (x : pos -> A) (q : pos) : A := cell_val s0 pv x (pad_lookup g q).
Definition xpad1 g (pv : A) (x : pos1 -> A) (q : pos1) : A := cell_val s0 pv x (pad_lookup1 g q).
Definition with_bias (bias : option (Z -> A)) (co : Z) (v : A) : A :=
  match bias with Some bb => sadd (bb co) v | None => v end.
(* out[n, co, i, j] = bias[co] + sum_{ci, a, b} w[co, ci, a, b] * xpad[n, ci, i*sH + a*dH, j*sW + b*dW] *)
Definition crosscorr2 g (w : pos -> A) (bias : option (Z -> A)) (x : pos -> A) : pos -> A :=
  fun q => let '(n, co, wi, wj) := q in
    with_bias bias co (isum (K2 g) (fun k => let '(ci, a, b) := k in
       smul (w (co, ci, a, b)) (xpad2 g s0 x (n, ci, wi * sH g + a * dH g, wj * sW g + b * dW g)))).
Definition crosscorr1 g (w : pos1 -> A) (bias : option (Z -> A)) (x : pos1 -> A) : pos1 -> A :=
  fun q => let '(n, co, wj) := q in
    with_bias bias co (isum (K1 g) (fun k => let '(ci, b) := k in
       smul (w (co, ci, b)) (xpad1 g s0 x (n, ci, wj * s1 g + b * d1 g)))).

(* w.reshape(C_out, -1) @ unfold(x)[n] (+ b), reshaped to the output grid: row r = ci*kH*kW + a*kW + b, column l = wi*lW + wj *)
Definition w_flat g (w : pos -> A) (co r : Z) : A := w (co, r / (kH g * kW g), (r / kW g) mod kH g, r mod kW g).
Definition conv_via_unfold g (w : pos -> A) (bias : option (Z -> A)) (x : pos -> A) : pos -> A :=
  fun q => let '(n, co, wi, wj) := q in
    with_bias bias co (isum (zr (nR g)) (fun r => smul (w_flat g w co r) (unfold_fwd g s0 x (n, r, wi * lW g + wj)))).

(* inner products over the index sets of the tensors involved *)
Definition dotl {K} (l : list K) (u v : K -> A) : A := isum l (fun k => smul (u k) (v k)).
End Linear.

(* ================================================================== average pooling: np.mean / mean_backward *)
Class Divider (A : Type) := sdiv : A -> Z -> A.          (* division of a scalar by an integer count *)
#[global] Instance ScalarQ : Scalar Q := {| s0 := 0%Q; sadd := Qplus; smul := Qmult |}.
#[global] Instance DividerQ : Divider Q := fun a n => (a / inject_Z n)%Q.
#[global] Instance ScalarQc : Scalar Qc := {| s0 := Q2Qc 0; sadd := Qcplus; smul := Qcmult |}.
#[global] Instance DividerQc : Divider Qc := fun a n => Qcdiv a (Q2Qc (inject_Z n)).

Section Avg.
Context {A : Type} `{Scalar A} `{Divider A}.
(* avg_pool2d_forward: windows = extract_windows(a, ..., pad_value=0);
   windows.reshape( *windows.shape[:-2], -1).mean(axis=-1).transpose(2, 3, 0, 1)
   np.mean = sum over the axis / length of the axis                                                           *)
Definition fibre_vals2 g (x : pos -> A) wi wj n c : list A := map (cell_val s0 s0 x) (fibre2 g wi wj n c).
Definition fibre_vals1 g (x : pos1 -> A) wj n c : list A := map (cell_val s0 s0 x) (fibre1 g wj n c).
Definition avgpool2d_fwd g (x : pos -> A) : pos -> A :=
  fun q => let '(n, c, wi, wj) := q in sdiv (lsum (fibre_vals2 g x wi wj n c)) (zlen (fibre_vals2 g x wi wj n c)).
Definition avgpool1d_fwd g (x : pos1 -> A) : pos1 -> A :=
  fun q => let '(n, c, wj) := q in sdiv (lsum (fibre_vals1 g x wj n c)) (zlen (fibre_vals1 g x wj n c)).
(* avg_pool2d_backward: grad.transpose(2,3,0,1); mean_backward(grad, (.., kH*kW), -1, False) = broadcast(grad) / (kH*kW);
   reshape to windows.shape; place_windows *)
Definition avg_wgrad2 g (gr : pos -> A) : win6 -> A :=
  fun t => let '(wi, wj, n, c, a, b) := t in sdiv (gr (n, c, wi, wj)) (kH g * kW g).
Definition avg_wgrad1 g (gr : pos1 -> A) : win4 -> A :=
  fun t => let '(wj, n, c, b) := t in sdiv (gr (n, c, wj)) (k1 g).
Definition avgpool2d_bwd g (gr : pos -> A) : pos -> A := place2 g (avg_wgrad2 g gr).
Definition avgpool1d_bwd g (gr : pos1 -> A) : pos1 -> A := place1 g (avg_wgrad1 g gr).
End Avg.

(* ================================================================== max pooling: integers extended by -inf *)
Inductive ext := NegInf | Fin (z : Z).
Definition ext_ltb (a b : ext) : bool :=
  match a, b with NegInf, Fin _ => true | Fin x, Fin y => x <? y | _, _ => false end.
Definition ext_eqb (a b : ext) : bool :=
  match a, b with NegInf, NegInf => true | Fin x, Fin y => x =? y | _, _ => false end.
Definition ext_max (a b : ext) : ext := if ext_ltb a b then b else a.
(* np.max / np.argmax along an axis: the first position holding the maximum *)
Fixpoint amax_go (bi : Z) (bv : ext) (i : Z) (l : list ext) : Z * ext :=
  match l with
  | [] => (bi, bv)
  | x :: t => if ext_ltb bv x then amax_go i x (i + 1) t else amax_go bi bv (i + 1) t
  end.
Definition amax (l : list ext) : Z := match l with [] => 0 | x :: t => fst (amax_go 0 x 1 t) end.
Definition lmax (l : list ext) : ext := match l with [] => NegInf | x :: t => fold_left ext_max t x end.

(* windows = extract_windows(a, ..., pad_value=-np.inf): values of one window fibre *)
Definition ecell {P} (x : P -> Z) (c : cell P) : ext := cell_val (Fin 0) NegInf (fun q => Fin (x q)) c.
Definition efibre2 g (x : pos -> Z) wi wj n c : list ext := map (ecell x) (fibre2 g wi wj n c).
Definition efibre1 g (x : pos1 -> Z) wj n c : list ext := map (ecell x) (fibre1 g wj n c).
(* max_pool2d_forward: windows.reshape( *windows.shape[:-2], -1).max(axis=-1).transpose(2, 3, 0, 1) *)
Definition maxpool2d_fwd g (x : pos -> Z) : pos -> ext :=
  fun q => let '(n, c, wi, wj) := q in lmax (efibre2 g x wi wj n c).
Definition maxpool1d_fwd g (x : pos1 -> Z) : pos1 -> ext :=
  fun q => let '(n, c, wj) := q in lmax (efibre1 g x wj n c).

Section MaxBwd.
Context {A : Type} `{Scalar A}.
(* max_pool2d_backward: grad.transpose(2,3,0,1); max_backward(grad, windows_flat, -1, False):
     mask = zeros; put_along_axis(mask, argmax(windows_flat, -1, keepdims), 1, -1);  unsqueeze(grad, -1) * mask
   reshaped to windows.shape (flat kernel index t = a*kW + b), then place_windows                             *)
Definition max_wgrad2 g (x : pos -> Z) (gr : pos -> A) : win6 -> A :=
  fun t => let '(wi, wj, n, c, a, b) := t in
    if a * kW g + b =? amax (efibre2 g x wi wj n c) then gr (n, c, wi, wj) else s0.
Definition max_wgrad1 g (x : pos1 -> Z) (gr : pos1 -> A) : win4 -> A :=
  fun t => let '(wj, n, c, b) := t in if b =? amax (efibre1 g x wj n c) then gr (n, c, wj) else s0.
Definition maxpool2d_bwd g (x : pos -> Z) (gr : pos -> A) : pos -> A := place2 g (max_wgrad2 g x gr).
Definition maxpool1d_bwd g (x : pos1 -> Z) (gr : pos1 -> A) : pos1 -> A := place1 g (max_wgrad1 g x gr).
End MaxBwd.

(* the position of the input selected by window (wi,wj) of channel (n,c): None when the arg-max is a padding cell *)
Definition sel2 g (x : pos -> Z) (q : pos) : option pos :=
  let '(n, c, wi, wj) := q in
  let t := amax (efibre2 g x wi wj n c) in phi_win_opt g (wi, wj, n, c, t / kW g, t mod kW g).
Definition sel1 g (x : pos1 -> Z) (q : pos1) : option pos1 :=
  let '(n, c, wj) := q in
  match pad_lookup1 g (n, c, wj * s1 g + amax (efibre1 g x wj n c) * d1 g) with At i => Some i | _ => None end.

(* ================================================================== argument normalisation of the layer constructors *)
Inductive arg := AInt (n : Z) | ATup (l : list Z).              (* int | tuple *)
Inductive padarg := PSame | PValid | PNum (a : arg).             (* 'same' | 'valid' | int | tuple *)
Inductive res (T : Type) := Ok (t : T) | Raises.
Arguments Ok {T}. Arguments Raises {T}.
Definition bind {T U} (r : res T) (f : T -> res U) : res U := match r with Ok t => f t | Raises => Raises end.
(* np.broadcast_to(x, 2) / np.broadcast_to(x, 1) *)
Definition bcast2 (a : arg) : res (Z * Z) :=
  match a with AInt n => Ok (n, n) | ATup [x] => Ok (x, x) | ATup [x; y] => Ok (x, y) | ATup _ => Raises end.
Definition bcast1 (a : arg) : res Z :=
  match a with AInt n => Ok n | ATup [x] => Ok x | ATup _ => Raises end.

Record geo2 := { g_k : Z * Z; g_s : Z * Z; g_p : Z * Z; g_d : Z * Z }.
Record geo1 := { h_k : Z; h_s : Z; h_p : Z; h_d : Z }.

(* nn.Conv2d.__init__ *)
Definition conv2d_ctor (k s : arg) (p : padarg) (d : arg) : res geo2 :=
  bind (bcast2 k) (fun k' => bind (bcast2 s) (fun s' => bind (bcast2 d) (fun d' =>
    let p1 := match p with
              | PSame =>
                  if negb ((fst s' =? 1) && (snd s' =? 1)) then Raises
                  else let tH := fst d' * (fst k' - 1) in let tW := snd d' * (snd k' - 1) in
                       if negb ((tH mod 2 =? 0) && (tW mod 2 =? 0)) then Raises
                       else Ok (ATup [tH / 2; tW / 2])
              | PValid => Ok (AInt 0)
              | PNum a => Ok a
              end in
    bind p1 (fun pa => bind (bcast2 pa) (fun p' => Ok {| g_k := k'; g_s := s'; g_p := p'; g_d := d' |}))))).
(* nn.Conv1d.__init__ (integer arguments) *)
Inductive padarg1 := P1Same | P1Valid | P1Num (n : Z).
Definition conv1d_ctor (k s : Z) (p : padarg1) (d : Z) : res geo1 :=
  match p with
  | P1Same => if negb (s =? 1) then Raises
              else let t := d * (k - 1) in if negb (t mod 2 =? 0) then Raises
              else Ok {| h_k := k; h_s := s; h_p := t / 2; h_d := d |}
  | P1Valid => Ok {| h_k := k; h_s := s; h_p := 0; h_d := d |}
  | P1Num n => Ok {| h_k := k; h_s := s; h_p := n; h_d := d |}
  end.
(* nn.MaxPool2d / nn.AvgPool2d.__init__ : stride None -> the (broadcast) kernel size *)
Definition pool2d_ctor (k : arg) (s : option arg) (p d : arg) : res geo2 :=
  bind (bcast2 k) (fun k' =>
  bind (match s with None => Ok k' | Some s => bcast2 s end) (fun s' =>
  bind (bcast2 p) (fun p' => bind (bcast2 d) (fun d' => Ok {| g_k := k'; g_s := s'; g_p := p'; g_d := d' |})))).
(* nn.MaxPool1d / nn.AvgPool1d.__init__ and F.max_pool1d / F.avg_pool1d *)
Definition pool1d_ctor (k : Z) (s : option Z) (p d : Z) : geo1 :=
  {| h_k := k; h_s := match s with None => k | Some s => s end; h_p := p; h_d := d |}.
(* F.max_pool2d / F.avg_pool2d (stride None -> kernel_size as given; extract_windows broadcasts every argument to 2) *)
Definition pool2d_fn := pool2d_ctor.
(* nn.Unfold / nn.Fold.__init__, F.unfold / F.fold, F.conv2d: every argument broadcast to 2 *)
Definition unfold_ctor (k s p d : arg) : res geo2 :=
  bind (bcast2 k) (fun k' => bind (bcast2 s) (fun s' => bind (bcast2 p) (fun p' => bind (bcast2 d) (fun d' =>
    Ok {| g_k := k'; g_s := s'; g_p := p'; g_d := d' |})))).

Definition mk_geom (N C H W : Z) (q : geo2) : geom :=
  {| gN := N; gC := C; gH := H; gW := W; kH := fst (g_k q); kW := snd (g_k q); sH := fst (g_s q); sW := snd (g_s q);
     pH := fst (g_p q); pW := snd (g_p q); dH := fst (g_d q); dW := snd (g_d q) |}.
Definition mk_geom1 (N C W : Z) (q : geo1) : geom1 :=
  {| N1 := N; C1 := C; W1 := W; k1 := h_k q; s1 := h_s q; p1 := h_p q; d1 := h_d q |}.

(* shape of the result of a layer applied to an (N,C,H,W) input (None = the call raises) *)
Definition out_shape2 (Co : Z) g : option (Z * Z * Z * Z) := if accepts2 g then Some (gN g, Co, oH g, oW g) else None.
Definition out_shape1 (Co : Z) g : option (Z * Z * Z) := if accepts1 g then Some (N1 g, Co, o1 g) else None.
Definition unfold_shape g : option (Z * Z * Z) := if accepts2 g then Some (gN g, gC g * kH g * kW g, oH g * oW g) else None.
(* col2im_fast in fold mode with output_size = (H, W):  N, R, L = a.shape;  C = R // (kH*kW);  then
   _check_fold_input(a.shape, (N, C, H, W), ...) raises ValueError unless lH, lW >= 1 and a.shape = (N, C*kH*kW, lH*lW)
   (since the fix "fold / col2im (fold mode) validate the shape of their argument"; before it only the element counts had to
   agree for np.reshape(lH, lW, N, C, kH, kW) to succeed) *)
Definition fold_geom (N R L H W : Z) (q : geo2) : geom := mk_geom N (R / (fst (g_k q) * snd (g_k q))) H W q.
Definition fold_accepts (N R L H W : Z) (q : geo2) : bool :=
  let g := fold_geom N R L H W q in
  (1 <=? lH g) && (1 <=? lW g) && (R =? gC g * kH g * kW g) && (L =? lH g * lW g).

(* the functional wrappers: rank checks of F.max_pool*/avg_pool*/unfold/fold, shape requirements of the conv kernels
   (C_out, C_in, kH, kW = weight.shape unpacks a rank-4 weight only; extract_windows wants rank 3 or 4 and the kernel
   argument broadcast to that many axes; tensordot needs weight.shape[1] = x.shape[1]; a bias is added by broadcasting
   (C_out,1,1,1) so it needs C_out entries (or 1)) *)
Definition accepts_pool2d (xrank : Z) g : bool := (xrank =? 4) && accepts2 g.
Definition accepts_pool1d (xrank : Z) g : bool := (xrank =? 3) && accepts1 g.
Definition accepts_conv2d (xrank wrank wCin : Z) g : bool := (xrank =? 4) && (wrank =? 4) && (wCin =? gC g) && accepts2 g.
Definition accepts_conv1d (xrank wrank wCin : Z) g : bool := (xrank =? 3) && (wrank =? 3) && (wCin =? C1 g) && accepts1 g.

(* ================================================================== tensors from flat (row-major) lists, for the checks *)
Definition zget (l : list Z) (i : Z) : Z := if i <? 0 then 0 else nth (Z.to_nat i) l 0.
Definition of4 (d2 d3 d4 : Z) (l : list Z) : pos -> Z := fun q => let '(i, j, k, m) := q in zget l (ravel4 d2 d3 d4 i j k m).
Definition of3 (d2 d3 : Z) (l : list Z) : pos1 -> Z := fun q => let '(i, j, k) := q in zget l (ravel3 d2 d3 i j k).
Definition of1 (l : list Z) : Z -> Z := zget l.
Definition qget (l : list Q) (i : Z) : Q := if i <? 0 then 0%Q else nth (Z.to_nat i) l 0%Q.
Definition qof4 (d2 d3 d4 : Z) (l : list Q) : pos -> Q := fun q => let '(i, j, k, m) := q in qget l (ravel4 d2 d3 d4 i j k m).
Definition qof3 (d2 d3 : Z) (l : list Q) : pos1 -> Q := fun q => let '(i, j, k) := q in qget l (ravel3 d2 d3 i j k).
Definition ext_code (e : ext) : option Z := match e with NegInf => None | Fin z => Some z end.
