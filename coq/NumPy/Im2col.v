(* Index maps of the six im2col / col2im functions of synapgrad/conv_tools.py (lines 214-601) and of the 2-D
   extract_windows / place_windows pair (lines 76-208), transcribed *as the code computes them* — model only,
   no proofs (Proofs/Im2colProofs.v), hand-written, tied to the code by the C16 correspondence (checks/c16.py:
   every function is probed with arange / one-hot data and the tables are compared with these definitions
   inside Coq).

   A forward function (the im2col functions) is modelled by the map from an index of its result to the cell of the input that
   is copied there:  At (n,c,h,w) | PadV (the pad value) | Unwritten (np.zeros never overwritten) | OOB.
   A backward function (the col2im functions, place_windows) is modelled by its list of contributions
   (index of the argument entry, position of the image it is added to | None = added to padding and cut off);
   the result is col2im_apply: the image whose pixel i is the sum of the entries contributed to i.
   Both result layouts:  "unf" = (N, C*kH*kW, L) indexed (n,r,l);   "2d" = (C*kH*kW, N*L) indexed (r,q).   *)
From Coq Require Import List ZArith Bool QArith Qround.
Import ListNotations.
From SG Require Import Base.Sums NumPy.Window.
Open Scope Z_scope.

Record geom := { gN : Z; gC : Z; gH : Z; gW : Z; kH : Z; kW : Z; sH : Z; sW : Z;
                 pH : Z; pW : Z; dH : Z; dW : Z }.

Definition Hp g := gH g + 2 * pH g.
Definition Wp g := gW g + 2 * pW g.
(* get_conv2d_output_size (and the same expression inlined in im2col_v2 / col2im_v2) *)
Definition lH g := out_size_float (gH g) (kH g) (sH g) (pH g) (dH g).
Definition lW g := out_size_float (gW g) (kW g) (sW g) (pW g) (dW g).
Definition nK g := kH g * kW g.
Definition nR g := kH g * kW g * gC g.          (* kernel_size[0] * kernel_size[1] * C *)
Definition nL g := lH g * lW g.

Definition pos := (Z * Z * Z * Z)%type.
Definition pos_eqb (a b : pos) : bool :=
  let '(n, c, h, w) := a in let '(n', c', h', w') := b in (n =? n') && (c =? c') && (h =? h') && (w =? w').
Definition flat_pos g (q : pos) : Z := let '(n, c, h, w) := q in ravel4 (gC g) (gH g) (gW g) n c h w.

(* np.pad(a, ((0,0),(0,0),(pH,pH),(pW,pW)), constant_values=pad_value)[n, c, hp, wp] *)
Definition pad_lookup g (q : pos) : cell pos :=
  let '(n, c, hp, wp) := q in
  if (0 <=? n) && (n <? gN g) && (0 <=? c) && (c <? gC g) && (0 <=? hp) && (hp <? Hp g) && (0 <=? wp) && (wp <? Wp g)
  then (if is_real (gH g) (pH g) hp && is_real (gW g) (pW g) wp then At (n, c, hp - pH g, wp - pW g) else PadV)
  else OOB.

(* un-padding of an accumulated padded image position *)
Definition unpad_with (u : Z -> Z -> Z -> option Z) g (q : pos) : option pos :=
  let '(n, c, hp, wp) := q in
  match u (pH g) (Hp g) hp, u (pW g) (Wp g) wp with Some h, Some w => Some (n, c, h, w) | _, _ => None end.
Definition unpad_c2i := unpad_with unpad_pos.     (* col2im, col2im_v2: output[:, :, pH:Hp-pH, pW:Wp-pW] *)
Definition unpad_pw := unpad_with unpad_neg.      (* place_windows:     slice(p, -p if p else None)      *)

(* the geometries of property C16: positive kernel / stride / dilation, padding >= 0, at least one window per axis *)
Definition valid g : Prop :=
  0 <= gN g /\ 0 <= gC g /\ 0 <= gH g /\ 0 <= gW g /\ 0 < kH g /\ 0 < kW g /\ 0 < sH g /\ 0 < sW g /\
  0 <= pH g /\ 0 <= pW g /\ 0 < dH g /\ 0 < dW g /\ 1 <= lH g /\ 1 <= lW g.
Definition validb g : bool :=
  (0 <=? gN g) && (0 <=? gC g) && (0 <=? gH g) && (0 <=? gW g) && (0 <? kH g) && (0 <? kW g) && (0 <? sH g) && (0 <? sW g) &&
  (0 <=? pH g) && (0 <=? pW g) && (0 <? dH g) && (0 <? dW g) && (1 <=? lH g) && (1 <=? lW g).

(* ------------------------------------------------------------------ 1. index-based: get_im2col_indices, im2col, col2im *)
Definition idx_i0 g := np_tile (np_repeat (arange3 0 (kH g * dH g) (dH g)) (kW g)) (gC g).
Definition idx_i1 g := map (Z.mul (sH g)) (np_repeat (zr (lH g)) (lW g)).
Definition idx_j0 g := np_tile (arange3 0 (kW g * dW g) (dW g)) (kH g * gC g).
Definition idx_j1 g := map (Z.mul (sW g)) (np_tile (zr (lW g)) (lH g)).
Definition idx_k g := np_repeat (zr (gC g)) (kH g * kW g).
(* k, i0, j0 are column vectors (R,1) and i1, j1 row vectors (1,L): i = i0 + i1, j = j0 + j1 by broadcasting *)
Definition idx_rows g : list (Z * Z * Z) := combine (combine (idx_k g) (idx_i0 g)) (idx_j0 g).
Definition idx_cols g : list (Z * Z) := combine (idx_i1 g) (idx_j1 g).

(* cols = x_padded[:, k, i, j] : cols[n, r, l] = x_padded[n, k[r], i[r,l], j[r,l]] *)
Definition idx_unf g (j : Z * Z * Z) : cell pos :=
  let '(n, r, l) := j in
  match znth_error (idx_rows g) r, znth_error (idx_cols g) l with
  | Some (c, a, b), Some (u, v) => pad_lookup g (n, c, a + u, b + v)
  | _, _ => OOB
  end.
(* cols.transpose(1, 2, 0).reshape(kH*kW*C, -1)[r, q] : same flat index in shape (R, L, N) *)
Definition idx_2d g (j : Z * Z) : cell pos :=
  let '(r, q) := j in
  let '(r', l, n) := unravel3 (zlen (idx_cols g)) (gN g) (ravel2 (zlen (idx_cols g) * gN g) r q) in
  idx_unf g (n, r', l).

(* col2im, fold mode: np.add.at(output, (slice(None), k, i, j), a) then un-pad *)
Definition idx_contribs_unf g : list ((Z * Z * Z) * option pos) :=
  flat_map (fun n =>
    flat_map (fun rr : Z * (Z * Z * Z) => let '(r, (c, a, b)) := rr in
      map (fun ll : Z * (Z * Z) => let '(l, (u, v)) := ll in
             ((n, r, l), unpad_c2i g (n, c, a + u, b + v)))
          (combine (zr (zlen (idx_cols g))) (idx_cols g)))
      (combine (zr (zlen (idx_rows g))) (idx_rows g)))
    (zr (gN g)).
(* col2im mode: cols_reshaped = a.reshape(C*kH*kW, -1, N).transpose(2, 0, 1): entry [n,r,l] is a[r', q] with the
   same flat index; the -1 is (number of columns of a) / N = L *)
Definition src2d g (j : Z * Z * Z) : Z * Z :=
  let '(n, r, l) := j in unravel2 (nL g * gN g) (ravel3 (nL g) (gN g) r l n).
Definition idx_contribs_2d g : list ((Z * Z) * option pos) :=
  map (fun jt => (src2d g (fst jt), snd jt)) (idx_contribs_unf g).

(* ------------------------------------------------------------------ 2. loop-based: im2col_v2, col2im_v2 *)
Definition loop_pairs g : list (Z * Z) := list_prod (zr (lH g)) (zr (lW g)).    (* for i in range(lH): for j in range(lW) *)
Definition v2_hs g i := slice_idx (i * sH g) (i * sH g + kH g + (dH g - 1) * (kH g - 1)) (dH g) (Hp g).
Definition v2_ws g j := slice_idx (j * sW g) (j * sW g + kW g + (dW g - 1) * (kW g - 1)) (dW g) (Wp g).

(* window = padded[:, :, hs, ws]  (N, C, nh, nw);   output[:, :, col] = window.ravel().reshape((N, C*kH*kW)) *)
Definition v2_col g (i j n r : Z) : cell pos :=
  let hs := v2_hs g i in let ws := v2_ws g j in
  let nh := zlen hs in let nw := zlen ws in
  if negb (gN g * gC g * nh * nw =? gN g * (gC g * (kH g * kW g))) then OOB     (* reshape raises *)
  else
    let '(n', c, a, b) := unravel4 (gC g) nh nw (ravel2 (gC g * (kH g * kW g)) n r) in
    match znth_error hs a, znth_error ws b with
    | Some hp, Some wp => pad_lookup g (n', c, hp, wp)
    | _, _ => OOB
    end.
(* which iteration wrote column l of the zero-initialised output (last write wins) *)
Definition v2_writer g : Z -> option (Z * Z) :=
  fold_left (fun m ij => upd m (fst ij * lW g + snd ij) ij) (loop_pairs g) (fun _ => None).
Definition v2_unf g (j : Z * Z * Z) : cell pos :=
  let '(n, r, l) := j in
  if (0 <=? n) && (n <? gN g) && (0 <=? r) && (r <? gC g * (kH g * kW g)) && (0 <=? l) && (l <? nL g) then
    match v2_writer g l with Some (i, j') => v2_col g i j' n r | None => Unwritten end
  else OOB.
(* output.transpose(1, 2, 0).reshape(kH*kW*C, -1) *)
Definition v2_2d g (j : Z * Z) : cell pos :=
  let '(r, q) := j in
  let '(r', l, n) := unravel3 (nL g) (gN g) (ravel2 (nL g * gN g) r q) in
  v2_unf g (n, r', l).

(* col2im_v2, fold mode.  a.reshape((N, C, kH*kW, L)); for each (i,j):
     o = output[:, :, hs, ws];  window = a[:, :, :, i*lW + j].reshape(o.shape);  output[:, :, hs, ws] = o + window
   entry a4[n, c, t, l] is a[n, r, l] with the same flat index *)
Definition v2_contribs_unf g : list ((Z * Z * Z) * option pos) :=
  flat_map (fun ij : Z * Z => let '(i, j) := ij in
    let hs := v2_hs g i in let ws := v2_ws g j in
    let nh := zlen hs in let nw := zlen ws in
    if nh * nw =? kH g * kW g then
      flat_map (fun n => flat_map (fun c =>
        flat_map (fun ah : Z * Z => let '(a, hp) := ah in
          map (fun bw : Z * Z => let '(b, wp) := bw in
                 let '(n', r, l) := unravel3 (nR g) (nL g) (ravel4 (gC g) (nK g) (nL g) n c (ravel2 nw a b) (i * lW g + j)) in
                 ((n', r, l), unpad_c2i g (n, c, hp, wp)))
              (combine (zr nw) ws))
          (combine (zr nh) hs)) (zr (gC g))) (zr (gN g))
    else [])                                                                     (* reshape raises *)
  (loop_pairs g).
(* col2im mode: first a = a.reshape(C*kH*kW, -1, N).transpose(2, 0, 1), as in col2im *)
Definition v2_contribs_2d g : list ((Z * Z) * option pos) :=
  map (fun jt => (src2d g (fst jt), snd jt)) (v2_contribs_unf g).

(* ------------------------------------------------------------------ 3. view-based: extract_windows, place_windows, im2col_fast, col2im_fast *)
Definition ew_strides g := ew_strides_gen [gN g; gC g; Hp g; Wp g] [sH g; sW g] [dH g; dW g].
Definition oH g := out_size_view (Hp g) (kH g) (sH g) (dH g).
Definition oW g := out_size_view (Wp g) (kW g) (sW g) (dW g).
(* windows[wi, wj, n, c, a, b] of shape (oH, oW, N, C, kH, kW): the element of the padded contiguous buffer at
   offset <index, strides> *)
Definition ew g (wi wj n c a b : Z) : cell pos :=
  if (0 <=? wi) && (wi <? oH g) && (0 <=? wj) && (wj <? oW g) && (0 <=? n) && (n <? gN g) && (0 <=? c) && (c <? gC g)
     && (0 <=? a) && (a <? kH g) && (0 <=? b) && (b <? kW g)
  then let off := dotZ [wi; wj; n; c; a; b] (ew_strides g) in
       if (0 <=? off) && (off <? gN g * gC g * Hp g * Wp g)
       then let '(n', c', hp, wp) := unravel4 (gC g) (Hp g) (Wp g) off in pad_lookup g (n', c', hp, wp)
       else OOB
  else OOB.
Definition ew6 g (f : Z) : cell pos :=
  let '(wi, wj, n, c, a, b) := unravel6 (oW g) (gN g) (gC g) (kH g) (kW g) f in ew g wi wj n c a b.
(* as_unfold: np.moveaxis(windows.reshape(L, N, C*kH*kW), 0, 2)[n, r, l],  L = prod(windows.shape[:2]) *)
Definition fast_unf g (j : Z * Z * Z) : cell pos :=
  let '(n, r, l) := j in
  if (0 <=? n) && (n <? gN g) && (0 <=? r) && (r <? gC g * kH g * kW g) && (0 <=? l) && (l <? oH g * oW g)
  then ew6 g (ravel3 (gN g) (gC g * kH g * kW g) l n r) else OOB.
(* windows.reshape(N * L, C*kH*kW).T[r, q] *)
Definition fast_2d g (j : Z * Z) : cell pos :=
  let '(r, q) := j in
  if (0 <=? r) && (r <? gC g * kH g * kW g) && (0 <=? q) && (q <? gN g * (oH g * oW g))
  then ew6 g (ravel2 (gC g * kH g * kW g) q r) else OOB.

(* place_windows on (lH, lW, N, C, kH, kW): for ind in np.ndindex(sizes):
     output[..., slice(i*sH, i*sH + kH*dH, dH), slice(j*sW, j*sW + kW*dW, dW)] += windows[:, i, j, ...]  *)
Definition pw_contribs g : list ((Z * Z * Z * Z * Z * Z) * option pos) :=
  flat_map (fun ij : Z * Z => let '(wi, wj) := ij in
    let hs := slice_idx (wi * sH g) (wi * sH g + kH g * dH g) (dH g) (Hp g) in
    let ws := slice_idx (wj * sW g) (wj * sW g + kW g * dW g) (dW g) (Wp g) in
    if (zlen hs =? kH g) && (zlen ws =? kW g) then
      flat_map (fun n => flat_map (fun c =>
        flat_map (fun ah : Z * Z => let '(a, hp) := ah in
          map (fun bw : Z * Z => let '(b, wp) := bw in
                 ((wi, wj, n, c, a, b), unpad_pw g (n, c, hp, wp)))
              (combine (zr (kW g)) ws))
          (combine (zr (kH g)) hs)) (zr (gC g))) (zr (gN g))
    else [])                                                                     (* operands could not be broadcast *)
  (list_prod (zr (lH g)) (zr (lW g))).
(* col2im_fast: which entry of the argument is windows[wi, wj, n, c, a, b]
     fold mode:   windows = np.moveaxis(a, 2, 0).reshape(lH, lW, N, C, kH, kW)     (moved[l, n, r] = a[n, r, l])
     col2im mode: windows = a.T.reshape(lH, lW, N, C, kH, kW)                      (a.T[q, r] = a[r, q])      *)
Definition fast_src_unf g (w : Z * Z * Z * Z * Z * Z) : Z * Z * Z :=
  let '(wi, wj, n, c, a, b) := w in
  let '(l, n', r) := unravel3 (gN g) (nR g) (ravel6 (lW g) (gN g) (gC g) (kH g) (kW g) wi wj n c a b) in (n', r, l).
Definition fast_src_2d g (w : Z * Z * Z * Z * Z * Z) : Z * Z :=
  let '(wi, wj, n, c, a, b) := w in
  let '(q, r) := unravel2 (nR g) (ravel6 (lW g) (gN g) (gC g) (kH g) (kW g) wi wj n c a b) in (r, q).
Definition fast_contribs_unf g := map (fun wt => (fast_src_unf g (fst wt), snd wt)) (pw_contribs g).
Definition fast_contribs_2d g := map (fun wt => (fast_src_2d g (fst wt), snd wt)) (pw_contribs g).

(* ------------------------------------------------------------------ the three variants, uniformly *)
Inductive variant := VIdx | VLoop | VFast.
Definition im2col_unf v := match v with VIdx => idx_unf | VLoop => v2_unf | VFast => fast_unf end.
Definition im2col_2d v := match v with VIdx => idx_2d | VLoop => v2_2d | VFast => fast_2d end.
Definition col2im_unf v := match v with VIdx => idx_contribs_unf | VLoop => v2_contribs_unf | VFast => fast_contribs_unf end.
Definition col2im_2d v := match v with VIdx => idx_contribs_2d | VLoop => v2_contribs_2d | VFast => fast_contribs_2d end.

(* which geometries each function accepts (returns without raising), as observed from the guards in the code:
     get_im2col_indices, im2col_v2 : raise iff L = lH*lW <= 0     (so lH, lW both negative is accepted)
     extract_windows               : raises iff L = 0, and as_strided rejects a negative extent                *)
Definition accepts_im2col g := 0 <? lH g * lW g.
Definition accepts_im2col_v2 g := 0 <? lH g * lW g.
Definition accepts_im2col_fast g := (0 <? lH g) && (0 <? lW g).

(* ------------------------------------------------------------------ index ranges (row-major, as ravel() lists them) *)
Definition Junf g : list (Z * Z * Z) := list_prod (list_prod (zr (gN g)) (zr (nR g))) (zr (nL g)).
Definition J2d g : list (Z * Z) := list_prod (zr (nR g)) (zr (gN g * nL g)).
Definition Jwin g : list (Z * Z * Z * Z * Z * Z) :=
  list_prod (list_prod (list_prod (list_prod (list_prod (zr (lH g)) (zr (lW g))) (zr (gN g))) (zr (gC g))) (zr (kH g))) (zr (kW g)).
Definition Ipos g : list pos := list_prod (list_prod (list_prod (zr (gN g)) (zr (gC g))) (zr (gH g))) (zr (gW g)).

(* ------------------------------------------------------------------ the closed form all variants are proved equal to *)
(* padded coordinates read by result entry (n, r, l):  channel r / (kH*kW), kernel offset ((r / kW) mod kH, r mod kW),
   window (l / lW, l mod lW) *)
Definition phi_pad g (j : Z * Z * Z) : pos :=
  let '(n, r, l) := j in
  (n, r / (kH g * kW g), ((r / kW g) mod kH g) * dH g + sH g * (l / lW g), (r mod kW g) * dW g + sW g * (l mod lW g)).
Definition phi g (j : Z * Z * Z) : cell pos := pad_lookup g (phi_pad g j).
Definition phi2d g (j : Z * Z) : cell pos := let '(r, q) := j in phi g (q mod gN g, r, q / gN g).    (* column q = l*N + n *)
Definition phi_win g (w : Z * Z * Z * Z * Z * Z) : cell pos :=
  let '(wi, wj, n, c, a, b) := w in pad_lookup g (n, c, wi * sH g + a * dH g, wj * sW g + b * dW g).
Definition cell_opt {P} (c : cell P) : option P := match c with At x => Some x | _ => None end.
Definition phi_opt g j := cell_opt (phi g j).
Definition phi2d_opt g j := cell_opt (phi2d g j).
Definition phi_win_opt g w := cell_opt (phi_win g w).

(* ------------------------------------------------------------------ applying the maps to data over any commutative semiring *)
Section Apply.
Context {A : Type} `{Scalar A}.
Definition im2col_apply {J} (f : J -> cell pos) (pv : A) (x : pos -> A) : J -> A := fun j => cell_val s0 pv x (f j).
Definition col2im_apply {J} (contribs : list (J * option pos)) (y : J -> A) : pos -> A :=
  fun i => isum contribs (fun jt => match snd jt with Some i' => if pos_eqb i' i then y (fst jt) else s0 | None => s0 end).
Fixpoint nsmul (n : nat) (a : A) : A := match n with O => s0 | S m => sadd a (nsmul m a) end.
End Apply.

(* number of (window, kernel offset) pairs that read pixel i  — the coverage count of fold(unfold .) *)
Definition cell_is {P} (eqb : P -> P -> bool) (i : P) (c : cell P) : bool := match c with At x => eqb x i | _ => false end.
Definition cover g (i : pos) : nat := length (filter (fun j => cell_is pos_eqb i (phi g j)) (Junf g)).

(* the fibre of window (wi, wj) for (n, c): windows.reshape(shape[:-2] + (-1,))[wi, wj, n, c, :];
   max over it = max_pool2d (pad value -inf), mean over it = avg_pool2d (pad value 0, divisor = its length) *)
Definition fibre2 g wi wj n c : list (cell pos) := map (fun t => ew g wi wj n c (t / kW g) (t mod kW g)) (zr (kH g * kW g)).

(* ------------------------------------------------------------------ tables for the correspondence check *)
Definition code g (c : cell pos) : Z := cell_code (cell_map (flat_pos g) c).
Definition table_unf v g : list Z := map (fun j => code g (im2col_unf v g j)) (Junf g).
Definition table_2d v g : list Z := map (fun j => code g (im2col_2d v g j)) (J2d g).
Definition table_win g : list Z := map (fun w => let '(wi, wj, n, c, a, b) := w in code g (ew g wi wj n c a b)) (Jwin g).
(* a contribution as one number: (flat index of the source entry) * (pixels + 1) + (1 + flat index of the pixel | 0) *)
Definition npix g := gN g * gC g * gH g * gW g.
Definition ccode g (src : Z) (t : option pos) : Z := src * (npix g + 1) + match t with Some i => 1 + flat_pos g i | None => 0 end.
Definition ctable_unf v g : list Z := map (fun jt => let '(n, r, l) := fst jt in ccode g (ravel3 (nR g) (nL g) n r l) (snd jt)) (col2im_unf v g).
Definition ctable_2d v g : list Z := map (fun jt => let '(r, q) := fst jt in ccode g (ravel2 (gN g * nL g) r q) (snd jt)) (col2im_2d v g).
Definition ctable_win g : list Z :=
  map (fun wt => let '(wi, wj, n, c, a, b) := fst wt in ccode g (ravel6 (lW g) (gN g) (gC g) (kH g) (kW g) wi wj n c a b) (snd wt)) (pw_contribs g).
