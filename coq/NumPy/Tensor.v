(* NumPy-lite, common representation.
   A shape is a list of dimension sizes; a multi-index a list of the same length; arrays are read in
   row-major (C) order.  An index map [phi] from output multi-indices to input multi-indices
   (None = a position filled with a constant such as padding) describes a *gather*:
        out[j] = in[phi j].
   Every view / indexing / window op of the library is such a gather; its only correct backward is
   [scatter phi] (NumPy/Gather.v: gather_scatter_adjoint).

   The correspondence with the implementation reads the maps by probing: applying the real op to
   arange(n) yields exactly [probe], applying the real backward to an upstream gradient g yields
   [scatter_list].                                                                                *)
From Coq Require Import List Arith ZArith Lia Bool.
Import ListNotations.
From SG Require Import NumPy.Index.

Definition shape := list nat.
Definition size (sh : shape) : nat := fold_right Nat.mul 1 sh.

(* row-major flat index of a multi-index *)
Fixpoint ravel (sh : shape) (i : idx) : nat :=
  match sh, i with
  | d :: r, k :: t => k * size r + ravel r t
  | _, _ => 0
  end.

Fixpoint unravel (sh : shape) (k : nat) : idx :=
  match sh with
  | [] => []
  | d :: r => (k / size r) :: unravel r (k mod size r)
  end.

Definition in_bounds (sh : shape) (i : idx) : bool :=
  (length i =? length sh) && forallb (fun p => fst p <? snd p) (combine i sh).

Definition imap := idx -> option idx.

Record gather_op := mkGather {
  g_in  : shape;
  g_out : shape;
  g_phi : imap
}.

(* what applying the op to arange(size in).reshape(in) gives, flattened: the flat input index read at
   every output position (None for constant-filled positions) *)
Definition probe (op : gather_op) : list (option nat) :=
  map (fun j => match g_phi op j with
                | Some i => if in_bounds (g_in op) i then Some (ravel (g_in op) i) else Some (size (g_in op)) (* out of range: flagged *)
                | None => None
                end) (idxs (g_out op)).

(* the scatter of an upstream gradient given as a flat list (row-major over the output shape):
   result as a flat list over the input shape *)
Definition scatter_list (op : gather_op) (g : list Z) : list Z :=
  let outs := idxs (g_out op) in
  map (fun i =>
         fold_left Z.add
           (map (fun p => match g_phi op (fst p) with
                          | Some i' => if list_eq_dec Nat.eq_dec i' i then snd p else 0%Z
                          | None => 0%Z
                          end) (combine outs g)) 0%Z)
      (idxs (g_in op)).

(* normalisation of a possibly negative axis: Some k with 0 <= k < n, or None (AxisError) *)
Definition norm_axis (n : nat) (a : Z) : option nat :=
  if (0 <=? a)%Z && (a <? Z.of_nat n)%Z then Some (Z.to_nat a)
  else if (a <? 0)%Z && (- Z.of_nat n <=? a)%Z then Some (Z.to_nat (a + Z.of_nat n))
  else None.
