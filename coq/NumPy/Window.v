(* Window geometry of synapgrad/conv_tools.py (lines 8-208) — model only, no proofs.

   * the NumPy list primitives the index computations are made of (arange, repeat, tile, cumprod,
     basic slices start:stop:step, row-major ravel/unravel used to model reshape),
   * the output-size function in its two formulations
        get_conv1d_output_size / get_conv2d_output_size / im2col_v2 / col2im_v2 :
             int(np.floor((L + 2p - d(k-1) - 1) / s + 1))                (exact rationals, floor)
        extract_windows :  (L_padded - ((k-1)*d + 1)) // s + 1             (integer floor division)
   * the 1-D instance of extract_windows / place_windows (3-D input (N,C,W)) used by conv1d and the
     1-D pools, and the pooling/convolution forward definitions on window fibres.

   Everything is executable over Z; a cell of a result is [At position | PadV | Unwritten | OOB]:
   OOB marks an access outside the padded buffer (IndexError / reading foreign memory through
   as_strided) or a shape mismatch that makes NumPy raise — theorems prove it never occurs.
   Hand-written model, tied to the code by the C16 correspondence (checks/c16.py).               *)
From Coq Require Import List ZArith Bool QArith Qround.
Import ListNotations.
Open Scope Z_scope.

(* ---------------------------------------------------------------- lists indexed by Z *)
Definition zr (n : Z) : list Z := map Z.of_nat (seq 0 (Z.to_nat n)).      (* range(n) / np.arange(n); [] for n <= 0 *)
Definition zlen {A} (l : list A) : Z := Z.of_nat (length l).
Definition znth_error {A} (l : list A) (i : Z) : option A :=
  if i <? 0 then None else nth_error l (Z.to_nat i).

(* np.arange(start, stop, step), step > 0 : ceil((stop-start)/step) items *)
Definition arange3 (start stop step : Z) : list Z :=
  map (fun i => start + i * step) (zr ((stop - start + step - 1) / step)).
(* np.repeat(l, n) : every element n times;  np.tile(l, n) : the whole list n times *)
Definition np_repeat {A} (l : list A) (n : Z) : list A := flat_map (fun x => repeat x (Z.to_nat n)) l.
Definition np_tile {A} (l : list A) (n : Z) : list A := concat (repeat l (Z.to_nat n)).
Fixpoint cumprod_from (acc : Z) (l : list Z) : list Z :=
  match l with [] => [] | x :: t => (acc * x) :: cumprod_from (acc * x) t end.
Definition cumprod := cumprod_from 1.
Fixpoint zip_mul (l l' : list Z) : list Z :=
  match l, l' with x :: t, y :: t' => x * y :: zip_mul t t' | _, _ => [] end.
Definition dotZ (l l' : list Z) : Z := fold_right Z.add 0 (zip_mul l l').
Definition lastn {A} (n : nat) (l : list A) : list A := skipn (length l - n) l.
Definition butlastn {A} (n : nat) (l : list A) : list A := firstn (length l - n) l.

(* indices selected by the basic slice start:stop:step on an axis of length len (0 <= start, 0 <= stop, step > 0):
   start and stop are clipped to len, then range(start, stop, step) *)
Definition slice_idx (start stop step len : Z) : list Z :=
  arange3 (Z.min start len) (Z.min stop len) step.

(* row-major flat index <-> multi-index (how reshape is modelled: same flat index, other shape).
   The leading extent is not needed to unravel. *)
Definition unravel2 (d2 f : Z) := (f / d2, f mod d2).
Definition unravel3 (d2 d3 f : Z) := (f / (d2 * d3), (f / d3) mod d2, f mod d3).
Definition unravel4 (d2 d3 d4 f : Z) := (f / (d2 * d3 * d4), (f / (d3 * d4)) mod d2, (f / d4) mod d3, f mod d4).
Definition unravel6 (d2 d3 d4 d5 d6 f : Z) :=
  (f / (d2 * d3 * d4 * d5 * d6), (f / (d3 * d4 * d5 * d6)) mod d2, (f / (d4 * d5 * d6)) mod d3,
   (f / (d5 * d6)) mod d4, (f / d6) mod d5, f mod d6).
Definition ravel2 (d2 i j : Z) := i * d2 + j.
Definition ravel3 (d2 d3 i j k : Z) := (i * d2 + j) * d3 + k.
Definition ravel4 (d2 d3 d4 i j k l : Z) := ((i * d2 + j) * d3 + k) * d4 + l.
Definition ravel6 (d2 d3 d4 d5 d6 i j k l m n : Z) := ((((i * d2 + j) * d3 + k) * d4 + l) * d5 + m) * d6 + n.

(* finite maps written by a loop (last write wins) *)
Definition upd {A} (m : Z -> option A) (k : Z) (v : A) : Z -> option A :=
  fun k' => if k' =? k then Some v else m k'.

(* ---------------------------------------------------------------- output size *)
(* int(np.floor((L + 2p - d(k-1) - 1) / s + 1)) over exact rationals (float64 rounding of the quotient is outside the
   model; for |numerator|, s < 2^26 the correctly rounded quotient has the same floor).  For a negative numerator the
   floor goes towards -infinity, so the result may be 0 or negative: the callers reject such geometries (see
   Im2col.v, the accepts_ functions), each in its own way. *)
Definition out_size_float (L k s p d : Z) : Z :=
  Qfloor (inject_Z (L + 2 * p - d * (k - 1) - 1) / inject_Z s + 1).
(* the closed form used in statements *)
Definition out_size (L k s p d : Z) : Z := (L + 2 * p - d * (k - 1) - 1) / s + 1.
(* extract_windows: (in_shape - ((kernel_size - 1) * dilation + 1)) // step + 1 on the padded length *)
Definition out_size_view (Lp k s d : Z) : Z := (Lp - ((k - 1) * d + 1)) / s + 1.

(* padded coordinate of kernel offset j of window l *)
Definition wpos (s d l j : Z) : Z := l * s + j * d.
(* is padded coordinate x a position of the un-padded input of length L ? *)
Definition is_real (L p x : Z) : bool := (p <=? x) && (x <? p + L).

(* ---------------------------------------------------------------- cells *)
Inductive cell {P : Type} := At (x : P) | PadV | Unwritten | OOB.
Arguments cell : clear implicits.

Definition cell_map {P Q} (f : P -> Q) (c : cell P) : cell Q :=
  match c with At x => At (f x) | PadV => PadV | Unwritten => Unwritten | OOB => OOB end.
(* what the probing harness sees: data is 1 + flat index, pad value -1, np.zeros initial value 0 *)
Definition cell_code (c : cell Z) : Z :=
  match c with At f => 1 + f | PadV => -1 | Unwritten => 0 | OOB => -3 end.
(* the value of a cell of im2col(x) for input x and pad value pv (zero-initialised where never written) *)
Definition cell_val {P A} (zero : A) (pv : A) (x : P -> A) (c : cell P) : A :=
  match c with At q => x q | PadV => pv | _ => zero end.

(* ---------------------------------------------------------------- 1-D windows: extract_windows / place_windows on (N, C, W) *)
Record geom1 := { N1 : Z; C1 : Z; W1 : Z; k1 : Z; s1 : Z; p1 : Z; d1 : Z }.
Definition Wp1 g := W1 g + 2 * p1 g.
Definition l1 g := out_size_float (W1 g) (k1 g) (s1 g) (p1 g) (d1 g).      (* get_conv1d_output_size *)
Definition pos1 := (Z * Z * Z)%type.

(* np.pad(a, ((0,0),(0,0),(p,p)), constant_values=pad_value)[n, c, wp] *)
Definition pad_lookup1 g (q : pos1) : cell pos1 :=
  let '(n, c, wp) := q in
  if (0 <=? n) && (n <? N1 g) && (0 <=? c) && (c <? C1 g) && (0 <=? wp) && (wp <? Wp1 g)
  then (if is_real (W1 g) (p1 g) wp then At (n, c, wp - p1 g) else PadV)
  else OOB.

(* strides of the as_strided view, in elements, exactly as extract_windows computes them:
     win_stride  = tuple(np.cumprod(a.shape[:0:-1])[::-1]) + (1,)
     step_stride = tuple(win_stride[-len(step):] * step)
     win_stride[-len(step):] *= dilation
     stride      = step_stride + win_stride                                        *)
Definition ew_strides_gen (shape step dil : list Z) : list Z :=
  let nd := length step in
  let ws0 := rev (cumprod (rev (tl shape))) ++ [1] in
  let step_stride := zip_mul (lastn nd ws0) step in
  let ws := butlastn nd ws0 ++ zip_mul (lastn nd ws0) dil in
  step_stride ++ ws.

Definition ew1_strides g := ew_strides_gen [N1 g; C1 g; Wp1 g] [s1 g] [d1 g].
Definition ew1_shape g := [out_size_view (Wp1 g) (k1 g) (s1 g) (d1 g); N1 g; C1 g; k1 g].
(* windows[wj, n, c, b] *)
Definition ew1 g (wj n c b : Z) : cell pos1 :=
  if (0 <=? wj) && (wj <? out_size_view (Wp1 g) (k1 g) (s1 g) (d1 g)) && (0 <=? n) && (n <? N1 g)
     && (0 <=? c) && (c <? C1 g) && (0 <=? b) && (b <? k1 g)
  then let off := dotZ [wj; n; c; b] (ew1_strides g) in
       if (0 <=? off) && (off <? N1 g * C1 g * Wp1 g)
       then let '(n', c', wp) := unravel3 (C1 g) (Wp1 g) off in pad_lookup1 g (n', c', wp)
       else OOB
  else OOB.

(* un-padding of place_windows: output[..., slice(p, -p if p else None)] applied when sum(padding) != 0 *)
Definition unpad_neg (p Lp x : Z) : option Z :=
  if p =? 0 then Some x else if (p <=? x) && (x <? Lp - p) then Some (x - p) else None.
(* un-padding of col2im / col2im_v2: output[..., p : Lp - p] *)
Definition unpad_pos (p Lp x : Z) : option Z :=
  if (p <=? x) && (x <? Lp - p) then Some (x - p) else None.

(* place_windows, 1-D: every entry windows[wj, n, c, b] with the position of the (un-padded) output it is added to
   (None: added to a padding position, cut off at the end).
     for ind in np.ndindex(sizes):  output[..., slice(i*s, i*s + w*d, d)] += windows[:, ind, ...]          *)
Definition pw1_contribs g : list ((Z * Z * Z * Z) * option pos1) :=
  flat_map (fun wj =>
    let ws := slice_idx (wj * s1 g) (wj * s1 g + k1 g * d1 g) (d1 g) (Wp1 g) in
    if zlen ws =? k1 g then
      flat_map (fun n => flat_map (fun c => map (fun bw : Z * Z =>
         let '(b, wp) := bw in
         ((wj, n, c, b), option_map (fun w => (n, c, w)) (unpad_neg (p1 g) (Wp1 g) wp)))
         (combine (zr (k1 g)) ws)) (zr (C1 g))) (zr (N1 g))
    else [])       (* shapes (N,C,|ws|) and (N,C,k) differ: NumPy raises *)
  (zr (l1 g)).

(* the fibre of a window: what windows[wj, n, c, :] lists; max/mean over it are the 1-D pools *)
Definition fibre1 g wj n c : list (cell pos1) := map (ew1 g wj n c) (zr (k1 g)).
