(* Executable front-end of the view/index models for the correspondence files (checks/ops_views.py):
   one constructor per real call, observation = what the harness reads off the implementation.   *)
From Coq Require Import List Arith ZArith Lia Bool.
Import ListNotations.
From SG Require Import Base.Sums Base.Cmp NumPy.Gather NumPy.Index NumPy.Tensor NumPy.ViewsAux NumPy.Views NumPy.Indexing.

Inductive vop :=
| VReshape (t : list Z)
| VFlatten (s e : Z)
| VSqueeze (a : sqarg)
| VUnsqueeze (a : unsqarg)
| VMovedim (s d : Z)
| VTranspose (a b : Z)
| VUnfold (d sz st : Z)
| VIndex (items : list item)
| VClone.

Definition run_fwd (sh : shape) (op : vop) : option gather_op :=
  match op with
  | VReshape t => fwd_reshape sh t
  | VFlatten s e => fwd_flatten sh s e
  | VSqueeze a => fwd_squeeze sh a
  | VUnsqueeze a => fwd_unsqueeze sh a
  | VMovedim s d => fwd_movedim sh s d
  | VTranspose a b => fwd_transpose sh a b
  | VUnfold d sz st => fwd_unfold_dim sh d sz st
  | VIndex items => fwd_index sh items
  | VClone => fwd_clone sh
  end.

(* forward on arange(size).reshape(sh): (result shape, flattened result) *)
Definition probe_n (op : gather_op) : list nat :=
  map (fun o => match o with Some v => v | None => S (size (g_in op)) end) (probe op).
Definition fwd_obs (sh : shape) (op : vop) : option (shape * list nat) :=
  option_map (fun o => (g_out o, probe_n o)) (run_fwd sh op).

Definition via_op (b : option gather_op) (g : idx -> Z) : option (shape * list Z) :=
  option_map (fun o => (g_out o, to_list (g_out o) (apply_op o g))) b.

(* backward kernel applied to the upstream gradient gl (flat, over the result shape):
   (shape of the array added into x._grad, its flattened contents) *)
Definition bwd_obs (sh : shape) (op : vop) (gl : list Z) : option (shape * list Z) :=
  match run_fwd sh op with
  | None => None
  | Some f =>
      let gsh := g_out f in
      let g := of_list gsh gl in
      match op with
      | VReshape _ => via_op (bwd_reshape gsh sh) g
      | VFlatten _ _ => via_op (bwd_flatten gsh sh) g
      | VSqueeze _ => via_op (bwd_squeeze gsh sh) g
      | VUnsqueeze a => via_op (bwd_unsqueeze gsh a) g
      | VMovedim s d => via_op (bwd_movedim gsh s d) g
      | VTranspose a b => via_op (bwd_transpose gsh a b) g
      | VClone => via_op (bwd_clone gsh) g
      | VUnfold d sz st =>
          match unfold_args sh d sz st with
          | None => None
          | Some (d', sz', st') => option_map (fun r => (sh, to_list sh r)) (bwd_unfold_dim gsh sh d' sz' st' g)
          end
      | VIndex items => option_map (fun r => (sh, to_list sh r)) (bwd_index sh items g)
      end
  end.

(* the adjoint of the forward map, computed from the definition of scatter *)
Definition scatter_obs (sh : shape) (op : vop) (gl : list Z) : option (shape * list Z) :=
  option_map (fun f => (g_in f, scatter_list f gl)) (run_fwd sh op).

(* the harness's upstream gradient: g = 1 + arange(out.size) *)
Definition std_grad (n : nat) : list Z := map (fun k => Z.of_nat (S k)) (seq 0 n).
Definition bwd_obs_std (sh : shape) (op : vop) : option (shape * list Z) :=
  match run_fwd sh op with
  | None => None
  | Some f => bwd_obs sh op (std_grad (size (g_out f)))
  end.
Definition scatter_obs_std (sh : shape) (op : vop) : option (shape * list Z) :=
  match run_fwd sh op with
  | None => None
  | Some f => scatter_obs sh op (std_grad (size (g_out f)))
  end.

Definition shape_eqb : shape -> shape -> bool := list_eqb Nat.eqb.
Definition fobs_eqb : option (shape * list nat) -> option (shape * list nat) -> bool :=
  option_eqb (pair_eqb shape_eqb (list_eqb Nat.eqb)).
Definition bobs_eqb : option (shape * list Z) -> option (shape * list Z) -> bool :=
  option_eqb (pair_eqb shape_eqb (list_eqb Z.eqb)).

(* iteration: the observations of an event sequence, rows resolved to (shape, values) of self[r] *)
Inductive iobs' := ICreated | IRow (s : shape) (v : list nat) | IStop | IErr.
Definition iobs_resolve (sh : shape) (o : iobs) : iobs' :=
  match o with
  | OCreated => ICreated
  | ORow r => match row_op sh r with Some op => IRow (g_out op) (probe_n op) | None => IErr end
  | OStop => IStop
  | OErr => IErr
  end.
Definition iter_obs (sh : shape) (evs : list iev) : list iobs' := map (iobs_resolve sh) (irun sh [] evs).
Definition iobs_eqb (a b : iobs') : bool :=
  match a, b with
  | ICreated, ICreated | IStop, IStop | IErr, IErr => true
  | IRow s v, IRow s' v' => shape_eqb s s' && list_eqb Nat.eqb v v'
  | _, _ => false
  end.
