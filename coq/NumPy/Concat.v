(* np.concatenate / np.split(sections) / np.stack / np.rollaxis + iteration (unbind), and the wrappers'
   own logic (functional.py:376-533: `sections`, zip of inputs and gradients) and unbind_backward's slice
   assignment (cpu_ops.py:94-117).                                                                 *)
From Coq Require Import List Arith ZArith Lia Bool.
Import ListNotations.
From SG Require Import Base.Sums Base.Cmp NumPy.Index NumPy.Tensor NumPy.Gather NumPy.TensorFn NumPy.Broadcast.

(* shapes agree except (possibly) at axis ax *)
Definition eq_except (ax:nat) (s t:shape) : bool := shape_eqb (remove_at ax s) (remove_at ax t) && (length s =? length t).

(* the wrapper's cumulative `sections`: one entry per operand except the last *)
Fixpoint cumsum (acc:nat) (l:list nat) : list nat :=
  match l with [] => [] | d :: r => (acc + d) :: cumsum (acc + d) r end.
Definition concat_sections (dims:list nat) : list nat := cumsum 0 (removelast dims).

(* np.split boundaries: [0] ++ sections ++ [N] as consecutive (start, stop) pairs *)
Fixpoint bounds (prev:nat) (secs:list nat) (n:nat) : list (nat * nat) :=
  match secs with [] => [(prev, n)] | s :: r => (prev, s) :: bounds s r n end.

Section Concat.
Context {A:Type} `{Scalar A}.

(* element k along the axis of the concatenation *)
Fixpoint cat_at (ax:nat) (xs:list (tensor A)) (k:nat) (j:idx) : A :=
  match xs with
  | [] => s0
  | x :: r => let d := nth ax (tshape x) 0 in
              if k <? d then tat x (set_at ax k j) else cat_at ax r (k - d) j
  end.

Definition concat_forward (xs:list (tensor A)) (dim:Z) : option (tensor A) :=
  match xs with
  | [] => None                                             (* need at least one array *)
  | x0 :: _ =>
      if rank x0 =? 0 then None                            (* zero-dimensional arrays cannot be concatenated *)
      else ax <- norm_axis (rank x0) dim ;;
           if forallb (fun x => eq_except ax (tshape x) (tshape x0)) xs
           then Some (mkT (set_at ax (fold_right Nat.add 0 (map (fun x => nth ax (tshape x) 0) xs)) (tshape x0))
                          (fun j => cat_at ax xs (nth ax j 0) j))
           else None
  end.

(* np.split(grad, sections, axis): slices grad[.., start:stop, ..] (Python slice clamping) *)
Definition np_split (g:tensor A) (secs:list nat) (dim:Z) : option (list (tensor A)) :=
  ax <- norm_axis (rank g) dim ;;
  let n := nth ax (tshape g) 0 in
  Some (map (fun se => let st := Nat.min (fst se) n in let en := Nat.min (snd se) n in
                       mkT (set_at ax (en - st) (tshape g)) (fun i => tat g (set_at ax (st + nth ax i 0) i)))
            (bounds 0 secs n)).

(* the wrapper: sections from t.shape[dim] of all operands but the last *)
Definition concat_backward (g:tensor A) (xs:list (tensor A)) (dim:Z) : option (list (tensor A)) :=
  match xs with
  | [] => None
  | x0 :: _ => ax <- norm_axis (rank x0) dim ;;
               np_split g (concat_sections (map (fun x => nth ax (tshape x) 0) xs)) dim
  end.

(* np.rollaxis(a, axis) followed by iteration over the first axis *)
Definition unbind_forward (x:tensor A) (dim:Z) : option (list (tensor A)) :=
  ax <- norm_axis (rank x) dim ;;
  Some (map (fun k => mkT (remove_at ax (tshape x)) (fun i => tat x (insert_at ax k i))) (seq 0 (nth ax (tshape x) 0))).

Definition stack_forward (xs:list (tensor A)) (dim:Z) : option (tensor A) :=
  match xs with
  | [] => None
  | x0 :: _ =>
      ax <- norm_axis (S (rank x0)) dim ;;
      if forallb (fun x => shape_eqb (tshape x) (tshape x0)) xs
      then Some (mkT (insert_at ax (length xs) (tshape x0))
                     (fun j => tat (nth (nth ax j 0) xs (zeros [])) (remove_at ax j)))
      else None
  end.
Definition stack_backward (g:tensor A) (dim:Z) : option (list (tensor A)) := unbind_forward g dim.

(* zeros(a_shape); if axis < 0: axis += len(a_shape); slice_grad[.., index, ..] = grad *)
Definition unbind_backward (g:tensor A) (sa:shape) (dim:Z) (index:nat) : tensor A :=
  let ax := Z.to_nat (if (dim <? 0)%Z then (Z.of_nat (length sa) + dim)%Z else dim) in
  mkT sa (fun i => if nth ax i 0 =? index then tat g (remove_at ax i) else s0).

(* unsqueeze at one (normalised) position: the small expand_dims needed to state stack = concat of unsqueezed *)
Definition unsqueeze1 (ax:nat) (t:tensor A) : tensor A :=
  mkT (insert_at ax 1 (tshape t)) (fun j => tat t (remove_at ax j)).

(* for inp, grad in zip(inputs, gradients): inp._grad += grad   (buffers start at zero) *)
Fixpoint zip_accumulate (xs gs:list (tensor A)) : option (list (tensor A)) :=
  match xs, gs with
  | x :: xr, g :: gr => b <- accumulate (zeros (tshape x)) g ;; r <- zip_accumulate xr gr ;; Some (b :: r)
  | x :: xr, [] => r <- zip_accumulate xr [] ;; Some (zeros (tshape x) :: r)
  | [], _ => Some []
  end.
End Concat.
