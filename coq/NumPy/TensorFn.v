(* Rank-polymorphic arrays as (shape, index function), and the small list surgery on shapes /
   multi-indices used by the arithmetic, reduction, bilinear and concatenation models (E2).
   Only in-range indices (In i (idxs shape)) are meaningful; every theorem is stated on those.   *)
From Coq Require Import List Arith ZArith Lia Bool.
Import ListNotations.
From SG Require Import Base.Sums Base.Cmp NumPy.Index NumPy.Tensor.

Record tensor (A:Type) := mkT { tshape : shape; tat : idx -> A }.
Arguments mkT {A} _ _.
Arguments tshape {A} _.
Arguments tat {A} _ _.

Definition rank {A} (t:tensor A) : nat := length (tshape t).

(* list surgery *)
Fixpoint insert_at {X} (n:nat) (x:X) (l:list X) : list X :=
  match n, l with
  | 0, _ => x :: l
  | S n', a :: t => a :: insert_at n' x t
  | S _, [] => [x]
  end.
Fixpoint remove_at {X} (n:nat) (l:list X) : list X :=
  match n, l with
  | _, [] => []
  | 0, _ :: t => t
  | S n', a :: t => a :: remove_at n' t
  end.
Fixpoint set_at {X} (n:nat) (x:X) (l:list X) : list X :=
  match n, l with
  | _, [] => []
  | 0, _ :: t => x :: t
  | S n', a :: t => a :: set_at n' x t
  end.

Definition idx_eqb : idx -> idx -> bool := list_eqb Nat.eqb.
Definition shape_eqb : shape -> shape -> bool := list_eqb Nat.eqb.

Fixpoint all_some {X} (l:list (option X)) : option (list X) :=
  match l with
  | [] => Some []
  | None :: _ => None
  | Some x :: t => match all_some t with Some r => Some (x :: r) | None => None end
  end.

Fixpoint nodupb (l:list nat) : bool :=
  match l with [] => true | a :: t => negb (existsb (Nat.eqb a) t) && nodupb t end.

Definition obind {X Y} (o:option X) (f:X -> option Y) : option Y :=
  match o with Some x => f x | None => None end.
Notation "x <- o ;; k" := (obind o (fun x => k)) (at level 61, o at next level, right associativity).

Section Conv.
Context {A:Type} `{Scalar A}.

Definition of_list (sh:shape) (l:list A) : tensor A := mkT sh (fun i => nth (ravel sh i) l s0).
Definition to_list (t:tensor A) : list A := map (tat t) (idxs (tshape t)).
Definition zeros (sh:shape) : tensor A := mkT sh (fun _ => s0).
Definition scalar0d (c:A) : tensor A := mkT [] (fun _ => c).
Definition tmap (f:A->A) (t:tensor A) : tensor A := mkT (tshape t) (fun i => f (tat t i)).

(* extensional equality on the in-range indices *)
Definition teq (t u:tensor A) : Prop :=
  tshape t = tshape u /\ forall i, In i (idxs (tshape t)) -> tat t i = tat u i.
End Conv.
