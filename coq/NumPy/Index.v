(* Multi-indices of a shape in row-major order. *)
From Coq Require Import List Arith Lia Bool Permutation.
Import ListNotations.

Definition idx := list nat.
Fixpoint idxs (sh:list nat) : list idx :=
  match sh with
  | [] => [[]]
  | d::r => flat_map (fun i => map (cons i) (idxs r)) (seq 0 d)
  end.

Lemma in_idxs sh : forall i, In i (idxs sh) <-> Forall2 lt i sh.
Proof.
  induction sh as [|d r IH]; intros i; simpl.
  - split. intros [<-|[]]. constructor. intros F; inversion F; auto.
  - rewrite in_flat_map. split.
    + intros (k & Hk & Hi). apply in_map_iff in Hi as (t & <- & Ht).
      apply in_seq in Hk. constructor. lia. now apply IH.
    + intros F. inversion F as [|k d' t r' Hk Ht]; subst.
      exists k. split. apply in_seq; lia. apply in_map. now apply IH.
Qed.

Lemma NoDup_app' {X} (l l':list X) : NoDup l -> NoDup l' -> (forall x, In x l -> ~ In x l') -> NoDup (l ++ l').
Proof.
  induction l as [|a l IH]; simpl; intros N1 N2 D; auto.
  inversion N1; subst. constructor.
  - intro Hc. apply in_app_or in Hc. destruct Hc; auto. eapply D; eauto.
  - apply IH; auto; intros x Hx; apply D; right; auto.
Qed.

Lemma NoDup_map_inj {X Y} (f:X->Y) l : (forall a b, f a = f b -> a = b) -> NoDup l -> NoDup (map f l).
Proof.
  intros Inj. induction 1; simpl; constructor; auto.
  intro Hc. apply in_map_iff in Hc as (y & E & Hy). apply Inj in E. subst. contradiction.
Qed.

Lemma nodup_idxs sh : NoDup (idxs sh).
Proof.
  induction sh as [|d r IH]; simpl. repeat constructor; auto.
  assert (G: forall l, NoDup l -> NoDup (flat_map (fun i => map (cons i) (idxs r)) l)).
  { induction l as [|k l IHl]; intros ND; simpl. constructor.
    inversion ND; subst. apply NoDup_app'.
    - apply NoDup_map_inj; auto. intros a b E. now inversion E.
    - auto.
    - intros x Hx Hc. apply in_map_iff in Hx as (t & <- & _).
      apply in_flat_map in Hc as (k' & Hk' & Hc). apply in_map_iff in Hc as (t' & E & _).
      inversion E; subst. contradiction. }
  apply G. apply seq_NoDup.
Qed.

