(* Tensor constructors (synapgrad/tensor.py:56-137): the shape-argument normalisation shared by
   empty/ones/zeros/rand/randn, arange's element count, eye.  Model (hand-written, tied by the C05
   correspondence) and the PyTorch-side spec.                                                        *)
From Coq Require Import List ZArith Lia Bool.
Import ListNotations.

(* a positional argument of the ones constructor: an int, or a list/tuple of ints *)
Inductive sarg := SInt (n : Z) | SSeq (l : list Z).

(* `if len(shape) == 1 and isinstance(shape[0], (list, tuple)): shape = shape[0]`, then np.ones(shape):
   every entry must be an int >= 0 *)
Definition norm_shape_args (args : list sarg) : option (list Z) :=
  let flat :=
    match args with
    | [SSeq l] => Some l
    | _ => fold_right (fun a acc => match a, acc with SInt n, Some t => Some (n :: t) | _, _ => None end) (Some []) args
    end in
  match flat with
  | Some l => if forallb (fun n => (0 <=? n)%Z) l then Some l else None
  | None => None
  end.

(* rand/randn go through np.random.rand( *shape ), which returns a Python float for an empty shape;
   the following .astype raises: 0-d random tensors are rejected *)
Definition norm_shape_args_rand (args : list sarg) : option (list Z) :=
  match norm_shape_args args with Some [] => None | r => r end.

(* spec: torch.ones(2,3) = torch.ones((2,3)) = torch.ones([2,3]) : the sizes given either as varargs or as one sequence *)
Definition spec_shape_args (args : list sarg) : option (list Z) :=
  match args with
  | [SSeq l] => if forallb (fun n => (0 <=? n)%Z) l then Some l else None
  | _ => if forallb (fun a => match a with SInt n => (0 <=? n)%Z | SSeq _ => false end) args
         then Some (map (fun a => match a with SInt n => n | SSeq _ => 0%Z end) args) else None
  end.

(* number of elements of arange(start, stop, step) for integer arguments: ceil((stop-start)/step), 0 if empty *)
Definition arange_len (start stop step : Z) : option Z :=
  if (step =? 0)%Z then None
  else if (0 <? step)%Z then Some (Z.max 0 ((stop - start + step - 1) / step))
  else Some (Z.max 0 ((start - stop + (- step) - 1) / (- step))).

Definition arange_nth (start step k : Z) : Z := (start + k * step)%Z.

Definition eye_entry (i j : Z) : Z := if (i =? j)%Z then 1%Z else 0%Z.
