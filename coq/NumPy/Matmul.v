(* np.matmul (2-D, batched with batch broadcasting, 1-D promotion), np.swapaxes(-2,-1), ndarray.T,
   and the kernels matmul / addmm (cpu_ops.py:43-58), F.matmul's rank check (functional.py:154),
   F.linear (nn/functional.py:471-523).                                                            *)
From Coq Require Import List Arith ZArith Lia Bool.
Import ListNotations.
From SG Require Import Base.Sums Base.Cmp NumPy.Index NumPy.Tensor NumPy.Gather NumPy.TensorFn NumPy.Broadcast.

Definition batch_of (sh:shape) : shape := firstn (length sh - 2) sh.
Definition last2_of {X} (l:list X) : list X := skipn (length l - 2) l.

Section Matmul.
Context {A:Type} `{Scalar A}.

(* np.swapaxes(a, -2, -1): AxisError below rank 2 *)
Definition swap_last2 (t:tensor A) : option (tensor A) :=
  match last2_of (tshape t) with
  | [r; c] => if 2 <=? rank t then
      Some (mkT (batch_of (tshape t) ++ [c; r])
                (fun j => match last2_of j with
                          | [x; y] => tat t (firstn (length j - 2) j ++ [y; x])
                          | _ => s0 end))
      else None
  | _ => None
  end.

(* ndarray.T: all axes reversed *)
Definition np_T (t:tensor A) : tensor A := mkT (rev (tshape t)) (fun j => tat t (rev j)).

(* a @ b for rank a, rank b >= 2 *)
Definition mm (a b:tensor A) : option (tensor A) :=
  match last2_of (tshape a), last2_of (tshape b) with
  | [n; k], [k'; m] =>
      if (2 <=? rank a) && (2 <=? rank b) && (k =? k') then
        match broadcast_shapes (batch_of (tshape a)) (batch_of (tshape b)) with
        | Some bo =>
            Some (mkT (bo ++ [n; m])
                      (fun j => let p := firstn (length j - 2) j in
                                match last2_of j with
                                | [r; c] => isum (seq 0 k) (fun l =>
                                      smul (tat a (bcast_idx (batch_of (tshape a)) bo p ++ [r; l]))
                                           (tat b (bcast_idx (batch_of (tshape b)) bo p ++ [l; c])))
                                | _ => s0 end))
        | None => None
        end
      else None
  | _, _ => None
  end.

(* np.matmul: a 1-D first operand is a row (1,k), a 1-D second operand a column (k,1); the added axis is removed again *)
Definition np_matmul (a b:tensor A) : option (tensor A) :=
  match rank a, rank b with
  | 0, _ | _, 0 => None
  | _, _ =>
    let a1 := rank a =? 1 in let b1 := rank b =? 1 in
    let a' := if a1 then mkT (1 :: tshape a) (fun j => tat a (tl j)) else a in
    let b' := if b1 then mkT (tshape b ++ [1]) (fun j => tat b (removelast j)) else b in
    r <- mm a' b' ;;
    let n := rank r in
    let r1 := if b1 then mkT (removelast (tshape r)) (fun j => tat r (j ++ [0])) else r in
    let r2 := if a1 then mkT (remove_at (rank r1 - 1 - (if b1 then 0 else 1)) (tshape r1))
                             (fun j => tat r1 (insert_at (rank r1 - 1 - (if b1 then 0 else 1)) 0 j)) else r1 in
    Some r2
  end.

Definition matmul_forward := np_matmul.
(* F.matmul: "At least two dimensions are required for each input" *)
Definition F_matmul (a b:tensor A) : option (tensor A) :=
  if (rank a <? 2) || (rank b <? 2) then None else np_matmul a b.

(* the gradients for operands of rank >= 2 *)
Definition matmul_backward2 (g a b:tensor A) : option (tensor A * tensor A) :=
  bT <- swap_last2 b ;; ga <- np_matmul g bT ;;
  aT <- swap_last2 a ;; gb <- np_matmul aT g ;;
  ua <- unbroadcast ga (tshape a) ;; ub <- unbroadcast gb (tshape b) ;; Some (ua, ub).

(* a[np.newaxis, :] / b[:, np.newaxis] / grad[..., np.newaxis] / grad[..., np.newaxis, :] and the reshapes back *)
Definition row_of (a:tensor A) : tensor A := mkT (1 :: tshape a) (fun j => tat a (tl j)).
Definition col_of (b:tensor A) : tensor A := mkT (tshape b ++ [1]) (fun j => tat b (removelast j)).
Definition add_row_axis (g:tensor A) : tensor A :=
  mkT (insert_at (rank g - 1) 1 (tshape g)) (fun j => tat g (remove_at (rank g - 1) j)).
Definition unrow (sh:shape) (t:tensor A) : tensor A := mkT sh (fun j => tat t (0 :: j)).
Definition uncol (sh:shape) (t:tensor A) : tensor A := mkT sh (fun j => tat t (j ++ [0])).

(* matmul_backward: 1-D operands promoted as np.matmul does, the dropped axis put back into grad *)
Definition matmul_backward (g a b:tensor A) : option (tensor A * tensor A) :=
  let a1 := rank a =? 1 in let b1 := rank b =? 1 in
  let a2 := if a1 then row_of a else a in
  let b2 := if b1 then col_of b else b in
  let g1 := if b1 then col_of g else g in
  let g2 := if a1 then add_row_axis g1 else g1 in
  r <- matmul_backward2 g2 a2 b2 ;;
  Some (if a1 then unrow (tshape a) (fst r) else fst r, if b1 then uncol (tshape b) (snd r) else snd r).

Definition addmm_forward (a b c:tensor A) : option (tensor A) := m <- np_matmul b c ;; badd a m.

(* matmul_shape(b.shape, c.shape): the shape of b @ c under np.matmul's 1-D promotion *)
Definition addmm_prod_shape (sb sc:shape) : option shape :=
  let b1 := length sb =? 1 in let c1 := length sc =? 1 in
  let b2 := if b1 then 1 :: sb else sb in
  let c2 := if c1 then sc ++ [1] else sc in
  bs <- broadcast_shapes (batch_of b2) (batch_of c2) ;;
  if (2 <=? length b2) && (1 <=? length c2)
  then let sh := bs ++ [nth (length b2 - 2) b2 0; nth (length c2 - 1) c2 0] in
       let sh1 := if c1 then removelast sh else sh in
       Some (if b1 then (if c1 then removelast sh1 else remove_at (length sh1 - 2) sh1) else sh1)
  else None.

Definition addmm_backward (g a b c:tensor A) : option (tensor A * tensor A * tensor A) :=
  ps <- addmm_prod_shape (tshape b) (tshape c) ;;
  ab <- add_backward g (tshape a) ps ;;
  bc <- matmul_backward (snd ab) b c ;;
  Some (fst ab, fst bc, snd bc).

(* F.linear.  `if bias:` is len(bias.data) > 0, a TypeError for a 0-d bias *)
Definition bias_truth (bias:option (tensor A)) : option bool :=
  match bias with
  | None => Some false
  | Some b => match tshape b with [] => None | d :: _ => Some (negb (d =? 0)) end
  end.
Definition linear_forward (x w:tensor A) (bias:option (tensor A)) : option (tensor A) :=
  bt <- bias_truth bias ;;
  match bias, bt with
  | Some b, true => addmm_forward b x (np_T w)
  | _, _ => matmul_forward x (np_T w)
  end.
(* gradients for (x, weight, bias) *)
Definition linear_backward (g x w:tensor A) (bias:option (tensor A)) : option (tensor A * tensor A * option (tensor A)) :=
  bt <- bias_truth bias ;;
  match bias, bt with
  | Some b, true => r <- addmm_backward g b x (np_T w) ;;
                    Some (snd (fst r), np_T (snd r), Some (fst (fst r)))
  | _, _ => r <- matmul_backward g x (np_T w) ;; Some (fst r, np_T (snd r), None)
  end.
End Matmul.
