(* Deliberately naive statements of the PyTorch / Python semantics that the view and indexing ops of the
   tensor API mirror (work package E1).  Written independently of the models in Views.v / Indexing.v:
   no list surgery shared with the models, dims are wrapped with `mod`, results are characterised by
   properties ("element order unchanged", "output axis k is input axis sigma k", ...) rather than computed
   the way NumPy computes them.  Proofs/Views*Proofs.v show that the models meet these statements.          *)
From Coq Require Import List Arith ZArith Lia Bool.
Import ListNotations.
From SG Require Import NumPy.Index NumPy.Tensor NumPy.ViewsAux NumPy.Views NumPy.Indexing.

(* PyTorch's dim wrapping: a dim d of an n-d tensor is legal iff -m <= d < m with m = max(n, 1)
   (0-d tensors are treated as 1-d for this purpose), and denotes axis d mod m. *)
Definition wrap_dim (n : nat) (d : Z) : option nat :=
  let m := Z.max (Z.of_nat n) 1 in
  if ((- m <=? d) && (d <? m))%Z then Some (Z.to_nat (d mod m)) else None.

(* NumPy's axis rule, which movedim / transpose / unfold mirror: an axis a of an n-d array is legal iff -n <= a < n
   and denotes axis a mod n; a 0-d array has no axis (PyTorch would accept dims 0/-1 there: the library's documentation
   promises nothing for 0-d operands of these ops, and rejecting by exception is what np.moveaxis / np.swapaxes do). *)
Definition axis_dim (n : nat) (a : Z) : option nat :=
  if ((- Z.of_nat n <=? a) && (a <? Z.of_nat n))%Z then Some (Z.to_nat (a mod Z.of_nat n)) else None.

(* "the elements keep their (row-major) order": reading the result in order reads the operand in order *)
Definition order_preserving (op : gather_op) : Prop :=
  forall j, In j (idxs (g_out op)) ->
    exists i, g_phi op j = Some i /\ In i (idxs (g_in op)) /\ ravel (g_in op) i = ravel (g_out op) j.

(* the entries of l at the positions that satisfy keep, in order *)
Definition select_positions {X} (keep : nat -> bool) (l : list X) : list X :=
  map snd (filter (fun p => keep (fst p)) (combine (seq 0 (length l)) l)).

(* ------------------------------------------------------------------ reshape (mirrors ndarray.reshape: at most one
   negative entry, which stands for the unknown dimension; torch.reshape is the same with -1 the only negative
   value it allows - the library hands the target to ndarray.reshape and follows NumPy here) *)
Definition known_prod (t : list Z) : Z := fold_right Z.mul 1%Z (filter (fun z => (0 <=? z)%Z) t).
Definition unknowns (t : list Z) : nat := length (filter (fun z => (z <? 0)%Z) t).

Definition legal_reshape (sh : shape) (t : list Z) : Prop :=
  match unknowns t with
  | 0 => known_prod t = Z.of_nat (size sh)
  | 1 => (0 < known_prod t)%Z /\ (Z.of_nat (size sh) mod known_prod t = 0)%Z
  | _ => False
  end.

Definition spec_reshape (sh : shape) (t : list Z) (op : gather_op) : Prop :=
  g_in op = sh /\
  length (g_out op) = length t /\
  (forall k, k < length t -> (0 <= nth k t 0)%Z -> Z.of_nat (nth k (g_out op) 0) = nth k t 0%Z) /\
  size (g_out op) = size sh /\
  order_preserving op.

(* ------------------------------------------------------------------ flatten (torch.flatten) *)
Definition legal_flatten (sh : shape) (s e : Z) : Prop :=
  exists s' e', wrap_dim (length sh) s = Some s' /\ wrap_dim (length sh) e = Some e' /\ s' <= e'.

Definition spec_flatten_shape (sh : shape) (s' e' : nat) : shape :=
  firstn s' sh ++ [size (firstn (e' - s' + 1) (skipn s' sh))] ++ skipn (e' + 1) sh.

Definition spec_flatten (sh : shape) (s e : Z) (op : gather_op) : Prop :=
  exists s' e', wrap_dim (length sh) s = Some s' /\ wrap_dim (length sh) e = Some e' /\
    g_in op = sh /\ g_out op = spec_flatten_shape sh s' e' /\ order_preserving op.

(* ------------------------------------------------------------------ squeeze (torch.squeeze: dim None | int | tuple;
   a named dim whose size is not 1 is silently skipped) *)
Definition sq_dims (arg : sqarg) : option (list Z) :=
  match arg with SqNone => None | SqInt z => Some [z] | SqTuple l => Some l end.

Definition legal_squeeze (sh : shape) (arg : sqarg) : Prop :=
  match sq_dims arg with
  | None => True
  | Some l => (forall z, In z l -> wrap_dim (length sh) z <> None) /\ NoDup (map (wrap_dim (length sh)) l)
  end.

Definition sq_selected (n : nat) (arg : sqarg) (k : nat) : bool :=
  match sq_dims arg with
  | None => true
  | Some l => existsb (fun z => match wrap_dim n z with Some k' => k' =? k | None => false end) l
  end.

Definition spec_squeeze_shape (sh : shape) (arg : sqarg) : shape :=
  select_positions (fun k => negb (sq_selected (length sh) arg k && (nth k sh 0 =? 1))) sh.

Definition spec_squeeze (sh : shape) (arg : sqarg) (op : gather_op) : Prop :=
  g_in op = sh /\ g_out op = spec_squeeze_shape sh arg /\ order_preserving op.

(* ------------------------------------------------------------------ unsqueeze (documented: int | tuple; the dims are
   positions in the result, as in torch.unsqueeze / np.expand_dims) *)
Definition legal_unsqueeze (sh : shape) (arg : unsqarg) : Prop :=
  let l := unsq_axes arg in
  let m := Z.of_nat (length sh + length l) in
  (forall z, In z l -> (- m <= z < m)%Z) /\ NoDup (map (fun z => (z mod m)%Z) l).

Definition spec_unsqueeze (sh : shape) (arg : unsqarg) (op : gather_op) : Prop :=
  let l := unsq_axes arg in
  let m := length sh + length l in
  let newpos := fun k => existsb (fun z => (z mod Z.of_nat m =? Z.of_nat k)%Z) l in
  g_in op = sh /\
  length (g_out op) = m /\
  (forall k, k < m -> newpos k = true -> nth k (g_out op) 0 = 1) /\
  select_positions (fun k => negb (newpos k)) (g_out op) = sh /\
  order_preserving op.

(* ------------------------------------------------------------------ axis permutations *)
(* output axis k is input axis sigma k *)
Definition permutes (op : gather_op) (sigma : nat -> nat) : Prop :=
  let n := length (g_in op) in
  length (g_out op) = n /\
  (forall k, k < n -> sigma k < n /\ nth k (g_out op) 0 = nth (sigma k) (g_in op) 0) /\
  (forall j, In j (idxs (g_out op)) ->
     exists i, g_phi op j = Some i /\ In i (idxs (g_in op)) /\ forall k, k < n -> nth (sigma k) i 0 = nth k j 0).

(* closed forms of the axis maps (used to state the key laws): out axis k of movedim(s -> d) is in axis mv s d k;
   out axis k of transpose(a, b) is in axis sw a b k *)
Definition mv (s d k : nat) : nat :=
  if k =? d then s else let k' := if k <? d then k else k - 1 in if k' <? s then k' else S k'.
Definition sw (a b k : nat) : nat := if k =? b then a else if k =? a then b else k.

(* torch.movedim(x, source, destination): output axis `destination` is input axis `source`,
   the other axes keep their relative order *)
Definition legal_movedim (sh : shape) (s d : Z) : Prop :=
  axis_dim (length sh) s <> None /\ axis_dim (length sh) d <> None.

Definition spec_movedim (sh : shape) (s d : Z) (op : gather_op) : Prop :=
  exists s' d' sigma,
    axis_dim (length sh) s = Some s' /\ axis_dim (length sh) d = Some d' /\
    g_in op = sh /\ permutes op sigma /\
    sigma d' = s' /\
    (forall k, k < length sh -> k <> d' -> sigma k <> s') /\
    (forall k k', k < k' -> k' < length sh -> k <> d' -> k' <> d' -> sigma k < sigma k').

(* torch.transpose(x, dim0, dim1): the two axes are swapped, the others stay *)
Definition legal_transpose (sh : shape) (a b : Z) : Prop :=
  axis_dim (length sh) a <> None /\ axis_dim (length sh) b <> None.

Definition spec_transpose (sh : shape) (a b : Z) (op : gather_op) : Prop :=
  exists a' b',
    axis_dim (length sh) a = Some a' /\ axis_dim (length sh) b = Some b' /\
    g_in op = sh /\ permutes op (fun k => if k =? a' then b' else if k =? b' then a' else k).

(* ------------------------------------------------------------------ unfold (Tensor.unfold(dimension, size, step)):
   (L - size)/step + 1 windows along `dimension`, the window axis appended last,
   out[..., w, ..., k] = in[..., w*step + k, ...]; size and step positive (the op's own documentation) *)
Definition legal_unfold (sh : shape) (dimension size step : Z) : Prop :=
  exists d, axis_dim (length sh) dimension = Some d /\
    (0 < size)%Z /\ (0 < step)%Z /\ (size <= Z.of_nat (nth d sh 0%nat))%Z.

Definition spec_unfold (sh : shape) (dimension size step : Z) (op : gather_op) : Prop :=
  exists d pre L post,
    axis_dim (length sh) dimension = Some d /\ sh = pre ++ L :: post /\ length pre = d /\
    g_in op = sh /\
    g_out op = pre ++ ((L - Z.to_nat size) / Z.to_nat step + 1) :: post ++ [Z.to_nat size] /\
    forall p w q k, length p = d -> length q = length post ->
      In (p ++ w :: q ++ [k]) (idxs (g_out op)) ->
      g_phi op (p ++ w :: q ++ [k]) = Some (p ++ (w * Z.to_nat step + k) :: q).

(* ------------------------------------------------------------------ slices: the Python language reference
   (s[i:j:k]): "the items with index x = i + n*k such that 0 <= n < (j-i)/k"; i, j negative are relative to the
   end; omitted or out-of-range i, j are clipped to the "end" values, which depend on the sign of k; k <> 0. *)
Definition py_clip (n : Z) (neg_step : bool) (v : option Z) (dflt_pos dflt_neg : Z) : Z :=
  match v with
  | None => if neg_step then dflt_neg else dflt_pos
  | Some v =>
      let v := (if v <? 0 then v + n else v)%Z in
      if neg_step then Z.max (-1) (Z.min v (n - 1)) else Z.max 0 (Z.min v n)
  end.

(* the positions selected, by plain enumeration with fuel *)
Fixpoint enum_up (fuel : nat) (x step stop : Z) : list nat :=
  match fuel with
  | 0 => []
  | S f => if (x <? stop)%Z then Z.to_nat x :: enum_up f (x + step)%Z step stop else []
  end.
Fixpoint enum_down (fuel : nat) (x step stop : Z) : list nat :=
  match fuel with
  | 0 => []
  | S f => if (stop <? x)%Z then Z.to_nat x :: enum_down f (x + step)%Z step stop else []
  end.

Definition spec_slice_positions (n : nat) (a b c : option Z) : option (list nat) :=
  let k := match c with None => 1%Z | Some k => k end in
  if (k =? 0)%Z then None
  else
    let nz := Z.of_nat n in
    let neg := (k <? 0)%Z in
    let i := py_clip nz neg a 0 (nz - 1) in
    let j := py_clip nz neg b nz (-1) in
    Some (if neg then enum_down (S n) i k j else enum_up (S n) i k j).

(* x[a:b:c] on the first axis: row t of the result is row (nth t positions) of x *)
Definition spec_slice0 (sh : shape) (a b c : option Z) (op : gather_op) : Prop :=
  exists d rest sel,
    sh = d :: rest /\ spec_slice_positions d a b c = Some sel /\
    g_in op = sh /\ g_out op = length sel :: rest /\
    forall t r, In (t :: r) (idxs (g_out op)) -> g_phi op (t :: r) = Some (nth t sel 0 :: r).

(* x[k] (k possibly negative): the k-th row *)
Definition spec_row (sh : shape) (k : Z) (op : gather_op) : Prop :=
  exists d rest k',
    sh = d :: rest /\ (- Z.of_nat d <= k < Z.of_nat d)%Z /\ k' = Z.to_nat (k mod Z.of_nat d) /\
    g_in op = sh /\ g_out op = rest /\
    forall r, In r (idxs rest) -> g_phi op r = Some (k' :: r).

(* x[[k1, ..., km]] (integer array on the first axis, repeats allowed): row t of the result is row k_t of x *)
Definition spec_take0 (sh : shape) (ks : list Z) (op : gather_op) : Prop :=
  exists d rest,
    sh = d :: rest /\ Forall (fun k => (- Z.of_nat d <= k < Z.of_nat d)%Z) ks /\
    g_in op = sh /\ g_out op = length ks :: rest /\
    forall t r, In (t :: r) (idxs (g_out op)) ->
      g_phi op (t :: r) = Some (Z.to_nat (nth t ks 0%Z mod Z.of_nat d) :: r).

(* ------------------------------------------------------------------ iteration: what one iterator yielded in a run *)
(* the rows yielded to `next(it_k)` calls, in order, read off the observations of a run *)
Fixpoint yields (k : nat) (evs : list iev) (obs : list iobs) : list nat :=
  match evs, obs with
  | Next k' :: es, ORow r :: os => if k' =? k then r :: yields k es os else yields k es os
  | _ :: es, _ :: os => yields k es os
  | _, _ => []
  end.

(* how many times next(it_k) was called *)
Definition count_next (k : nat) (evs : list iev) : nat :=
  length (filter (fun e => match e with Next k' => k' =? k | NewIter => false end) evs).
