(* An independent, deliberately naive statement of the NumPy / PyTorch semantics mirrored by the E2 ops
   (C05).  Nothing here is shared with the models: broadcasting is "pad with ones on the left, dims
   equal or one of them 1, read the operand periodically (index mod size)"; a reduction is "add up
   every input element whose kept coordinates agree with the output position"; concatenation is "the
   k-th row of the rows of all operands laid end to end"; negative axes are taken modulo the rank.   *)
From Coq Require Import List Arith ZArith Lia Bool.
Import ListNotations.
From SG Require Import Base.Sums Base.ScalarExt Base.Cmp NumPy.Index NumPy.Tensor NumPy.TensorFn.

(* ---------- axes ---------- *)
Definition spec_axis (n:nat) (a:Z) : option nat :=
  if ((- Z.of_nat n <=? a) && (a <? Z.of_nat n))%Z then Some (Z.to_nat (a mod Z.of_nat n)) else None.

(* ---------- broadcasting ---------- *)
Definition spec_pad (n:nat) (s:shape) : shape := repeat 1 (n - length s) ++ s.
Definition spec_bshape (a b:shape) : option shape :=
  let n := Nat.max (length a) (length b) in
  let ab := combine (spec_pad n a) (spec_pad n b) in
  if forallb (fun xy => (fst xy =? snd xy) || (fst xy =? 1) || (snd xy =? 1)) ab
  then Some (map (fun xy => if fst xy =? 1 then snd xy else fst xy) ab) else None.
(* the operand element seen at output position j: the last (rank s) coordinates, each modulo the operand's size *)
Definition spec_bindex (s:shape) (j:idx) : idx :=
  map (fun kd => fst kd mod snd kd) (combine (skipn (length j - length s) j) s).

(* ---------- reductions ---------- *)
Definition spec_reduced (axes:list nat) (t:nat) : bool := existsb (Nat.eqb t) axes.
Definition spec_red_shape (axes:list nat) (keep:bool) (s:shape) : shape :=
  let st := combine s (seq 0 (length s)) in
  if keep then map (fun dt => if spec_reduced axes (snd dt) then 1 else fst dt) st
  else map fst (filter (fun dt => negb (spec_reduced axes (snd dt))) st).
Definition spec_kept (axes:list nat) (keep:bool) (i:idx) : idx :=
  let it := combine i (seq 0 (length i)) in
  if keep then map (fun kt => if spec_reduced axes (snd kt) then 0 else fst kt) it
  else map fst (filter (fun kt => negb (spec_reduced axes (snd kt))) it).
Definition spec_count (axes:list nat) (s:shape) : nat := fold_right Nat.mul 1 (map (fun t => nth t s 0) axes).

Section Spec.
Context {A:Type} `{Scalar A}.

Definition spec_sum_at (a:tensor A) (axes:list nat) (keep:bool) (j:idx) : A :=
  isum (filter (fun i => idx_eqb (spec_kept axes keep i) j) (idxs (tshape a))) (tat a).

(* ---------- matmul ---------- *)
Definition spec_mm_at (a b:tensor A) (k:nat) (j:idx) : A :=
  let p := firstn (length j - 2) j in
  let r := nth (length j - 2) j 0 in let c := nth (length j - 1) j 0 in
  isum (seq 0 k) (fun l => smul (tat a (spec_bindex (firstn (rank a - 2) (tshape a)) p ++ [r; l]))
                                (tat b (spec_bindex (firstn (rank b - 2) (tshape b)) p ++ [l; c]))).

(* ---------- concatenation: the rows of all operands laid end to end along the axis ---------- *)
Definition spec_rows (ax:nat) (xs:list (tensor A)) (j:idx) : list A :=
  flat_map (fun x => map (fun k => tat x (set_at ax k j)) (seq 0 (nth ax (tshape x) 0))) xs.
Definition spec_concat_at (ax:nat) (xs:list (tensor A)) (j:idx) : A := nth (nth ax j 0) (spec_rows ax xs j) s0.
Definition spec_concat_legal (xs:list (tensor A)) (dim:Z) : Prop :=
  exists x0 r ax, xs = x0 :: r /\ rank x0 <> 0 /\ spec_axis (rank x0) dim = Some ax /\
    forall x, In x xs -> rank x = rank x0 /\ forall t, t <> ax -> nth t (tshape x) 0 = nth t (tshape x0) 0.
Definition spec_stack_legal (xs:list (tensor A)) (dim:Z) : Prop :=
  exists x0 r ax, xs = x0 :: r /\ spec_axis (S (rank x0)) dim = Some ax /\ forall x, In x xs -> tshape x = tshape x0.
End Spec.
