(* Runners for the correspondence checks of NumPy/ConvPool.v: tensors come as flat row-major lists (integer data),
   results go back as flat row-major lists, compared inside Coq with the values recorded from the implementation.
   No proofs.  Used by the generated files under Corr/C06, Corr/C02, Corr/C14 (checks/convpool_common.py).       *)
From Coq Require Import List ZArith Bool QArith Qround.
Import ListNotations.
From SG Require Import Base.Sums Base.Cmp NumPy.Window NumPy.Im2col NumPy.ConvPool.
Open Scope Z_scope.

Definition zl_eqb := list_eqb Z.eqb.
Definition ol_eqb := list_eqb (option_eqb Z.eqb).
Fixpoint ql_eqb (l : list Q) (e : list Z) : bool :=
  match l, e with
  | [], [] => true
  | q :: l', z :: e' => Qeq_bool q (inject_Z z) && ql_eqb l' e'
  | _, _ => false
  end.
Definition qlq_eqb (l : list Q) (e : list Q) : bool := list_eqb Qeq_bool l e.
Definition injl (l : list Z) : list Q := map inject_Z l.
Definition obias (b : option (list Z)) : option (Z -> Z) := option_map of1 b.

Definition Jout2 g : list pos := Out2 g (gC g).          (* pooling output (N, C, oH, oW) *)
Definition Jout1 g : list pos1 := Out1 g (C1 g).
Definition Junf' g : list idx3 := list_prod (list_prod (zr (gN g)) (zr (gC g * kH g * kW g))) (zr (oH g * oW g)).

(* ---------------------------------------------------------------- forward *)
Definition run_conv2d g (Co : Z) (x w : list Z) (b : option (list Z)) : list Z :=
  map (conv2d_fwd g (of4 (gC g) (kH g) (kW g) w) (obias b) (of4 (gC g) (gH g) (gW g) x)) (Out2 g Co).
Definition run_conv1d g (Co : Z) (x w : list Z) (b : option (list Z)) : list Z :=
  map (conv1d_fwd g (of3 (C1 g) (k1 g) w) (obias b) (of3 (C1 g) (W1 g) x)) (Out1 g Co).
Definition run_maxpool2d g (x : list Z) : list (option Z) :=
  map (fun q => ext_code (maxpool2d_fwd g (of4 (gC g) (gH g) (gW g) x) q)) (Jout2 g).
Definition run_maxpool1d g (x : list Z) : list (option Z) :=
  map (fun q => ext_code (maxpool1d_fwd g (of3 (C1 g) (W1 g) x) q)) (Jout1 g).
Definition run_avgpool2d g (x : list Z) : list Q :=
  map (avgpool2d_fwd g (qof4 (gC g) (gH g) (gW g) (injl x))) (Jout2 g).
Definition run_avgpool1d g (x : list Z) : list Q :=
  map (avgpool1d_fwd g (qof3 (C1 g) (W1 g) (injl x))) (Jout1 g).
Definition run_unfold g (pv : Z) (x : list Z) : list Z :=
  map (unfold_fwd g pv (of4 (gC g) (gH g) (gW g) x)) (Junf' g).
Definition run_fold g (y : list Z) : list Z :=
  map (fold_fwd g (of3 (gC g * kH g * kW g) (lH g * lW g) y)) (Ipos g).

(* ---------------------------------------------------------------- backward (upstream gradient gr has the shape of the output) *)
Definition run_conv2d_bwd g (Co : Z) (x w gr : list Z) : list Z * list Z * list Z :=
  let xf := of4 (gC g) (gH g) (gW g) x in let wf := of4 (gC g) (kH g) (kW g) w in
  let gf := of4 Co (oH g) (oW g) gr in
  (map (conv2d_bwd_x g Co gf wf) (Ipos g), map (conv2d_bwd_w g gf (windows2 g 0 xf)) (Wt2 g Co), map (conv2d_bwd_b g gf) (zr Co)).
Definition run_conv1d_bwd g (Co : Z) (x w gr : list Z) : list Z * list Z * list Z :=
  let xf := of3 (C1 g) (W1 g) x in let wf := of3 (C1 g) (k1 g) w in
  let gf := of3 Co (o1 g) gr in
  (map (conv1d_bwd_x g Co gf wf) (Ipos1 g), map (conv1d_bwd_w g gf (windows1 g 0 xf)) (Wt1 g Co), map (conv1d_bwd_b g gf) (zr Co)).
Definition run_maxpool2d_bwd g (x gr : list Z) : list Z :=
  map (maxpool2d_bwd g (of4 (gC g) (gH g) (gW g) x) (of4 (gC g) (oH g) (oW g) gr)) (Ipos g).
Definition run_maxpool1d_bwd g (x gr : list Z) : list Z :=
  map (maxpool1d_bwd g (of3 (C1 g) (W1 g) x) (of3 (C1 g) (o1 g) gr)) (Ipos1 g).
Definition run_avgpool2d_bwd g (gr : list Z) : list Q :=
  map (avgpool2d_bwd g (qof4 (gC g) (oH g) (oW g) (injl gr))) (Ipos g).
Definition run_avgpool1d_bwd g (gr : list Z) : list Q :=
  map (avgpool1d_bwd g (qof3 (C1 g) (o1 g) (injl gr))) (Ipos1 g).
Definition run_unfold_bwd g (gr : list Z) : list Z :=
  map (unfold_bwd g (of3 (gC g * kH g * kW g) (oH g * oW g) gr)) (Ipos g).
Definition run_fold_bwd g (gr : list Z) : list Z :=
  map (fold_bwd g (of4 (gC g) (gH g) (gW g) gr)) (Junf' g).

(* ---------------------------------------------------------------- fused = composition (C14) *)
Definition run_conv_via_unfold g (Co : Z) (x w : list Z) (b : option (list Z)) : list Z :=
  map (conv_via_unfold g (of4 (gC g) (kH g) (kW g) w) (obias b) (of4 (gC g) (gH g) (gW g) x)) (Out2 g Co).

Definition triple_eqb (a b : list Z * list Z * list Z) : bool :=
  let '(a1, a2, a3) := a in let '(b1, b2, b3) := b in zl_eqb a1 b1 && zl_eqb a2 b2 && zl_eqb a3 b3.

(* shapes / acceptance *)
Definition shape4_eqb (a b : option (Z * Z * Z * Z)) : bool :=
  match a, b with
  | None, None => true
  | Some (a1, a2, a3, a4), Some (b1, b2, b3, b4) => (a1 =? b1) && (a2 =? b2) && (a3 =? b3) && (a4 =? b4)
  | _, _ => false
  end.
Definition shape3_eqb (a b : option (Z * Z * Z)) : bool :=
  match a, b with
  | None, None => true
  | Some (a1, a2, a3), Some (b1, b2, b3) => (a1 =? b1) && (a2 =? b2) && (a3 =? b3)
  | _, _ => false
  end.
Definition geo2_code (r : res geo2) : option (list Z) :=
  match r with
  | Ok q => Some [fst (g_k q); snd (g_k q); fst (g_s q); snd (g_s q); fst (g_p q); snd (g_p q); fst (g_d q); snd (g_d q)]
  | Raises => None
  end.
Definition geo1_code (r : res geo1) : option (list Z) :=
  match r with Ok q => Some [h_k q; h_s q; h_p q; h_d q] | Raises => None end.
Definition olz_eqb := option_eqb zl_eqb.
Definition flags (l : list bool) : list (bool * bool) := map (fun b => (b, true)) l.

(* ---------------------------------------------------------------- layer classes: constructor normalisation, then the functional op *)
Definition layer_conv2d (N C H W Co : Z) (k s : arg) (p : padarg) (d : arg) (x w : list Z) (b : option (list Z)) : option (list Z) :=
  match conv2d_ctor k s p d with
  | Ok q => let g := mk_geom N C H W q in if accepts2 g then Some (run_conv2d g Co x w b) else None
  | Raises => None
  end.
Definition layer_conv2d_shape (N C H W Co : Z) (k s : arg) (p : padarg) (d : arg) : option (Z * Z * Z * Z) :=
  match conv2d_ctor k s p d with Ok q => out_shape2 Co (mk_geom N C H W q) | Raises => None end.
Definition layer_conv1d (N C W Co : Z) (k s : Z) (p : padarg1) (d : Z) (x w : list Z) (b : option (list Z)) : option (list Z) :=
  match conv1d_ctor k s p d with
  | Ok q => let g := mk_geom1 N C W q in if accepts1 g then Some (run_conv1d g Co x w b) else None
  | Raises => None
  end.
Definition layer_maxpool2d (N C H W : Z) (k : arg) (s : option arg) (p d : arg) (x : list Z) : option (list (option Z)) :=
  match pool2d_ctor k s p d with
  | Ok q => let g := mk_geom N C H W q in if accepts2 g then Some (run_maxpool2d g x) else None
  | Raises => None
  end.
Definition layer_avgpool2d (N C H W : Z) (k : arg) (s : option arg) (p d : arg) (x : list Z) : option (list Q) :=
  match pool2d_ctor k s p d with
  | Ok q => let g := mk_geom N C H W q in if accepts2 g then Some (run_avgpool2d g x) else None
  | Raises => None
  end.
Definition layer_unfold (N C H W : Z) (k s p d : arg) (x : list Z) : option (list Z) :=
  match unfold_ctor k s p d with
  | Ok q => let g := mk_geom N C H W q in if accepts2 g then Some (run_unfold g 0 x) else None
  | Raises => None
  end.
Definition layer_maxpool1d (N C W : Z) (k : Z) (s : option Z) (p d : Z) (x : list Z) : option (list (option Z)) :=
  let g := mk_geom1 N C W (pool1d_ctor k s p d) in if accepts1 g then Some (run_maxpool1d g x) else None.
Definition layer_avgpool1d (N C W : Z) (k : Z) (s : option Z) (p d : Z) (x : list Z) : option (list Q) :=
  let g := mk_geom1 N C W (pool1d_ctor k s p d) in if accepts1 g then Some (run_avgpool1d g x) else None.

Definition oql_eqb (a : option (list Q)) (e : option (list Z)) : bool :=
  match a, e with Some l, Some l' => ql_eqb l l' | None, None => true | _, _ => false end.
Definition ozl_eqb (a e : option (list Z)) : bool := option_eqb zl_eqb a e.
Definition ool_eqb (a e : option (list (option Z))) : bool := option_eqb ol_eqb a e.

(* ---------------------------------------------------------------- pooling as window extraction (F.unfold) followed by max / mean (C14) *)
Definition run_maxpool_via_unfold g (x : list Z) : list (option Z) :=
  let xf := of4 (gC g) (gH g) (gW g) x in
  map (fun q => let '(n, c, wi, wj) := q in
         ext_code (lmax (map (fun t => ecell xf (fast_unf g (n, c * (kH g * kW g) + t, wi * oW g + wj))) (zr (kH g * kW g))))) (Jout2 g).
Definition run_avgpool_via_unfold g (x : list Z) : list Q :=
  let xf := qof4 (gC g) (gH g) (gW g) (injl x) in
  map (fun q => let '(n, c, wi, wj) := q in
         sdiv (isum (zr (kH g * kW g)) (fun t => unfold_fwd g 0%Q xf (n, c * (kH g * kW g) + t, wi * oW g + wj))) (kH g * kW g)) (Jout2 g).

(* two applications of the same op (shared weights) before the backward passes: the gradients of shared operands add up *)
Definition ladd (a b : list Z) : list Z := map (fun p => fst p + snd p) (combine a b).
Definition run_conv2d_bwd2 g (Co : Z) (x1 x2 w u1 u2 : list Z) : list Z * list Z * list Z * list Z :=
  let '(a1, w1, b1) := run_conv2d_bwd g Co x1 w u1 in
  let '(a2, w2, b2) := run_conv2d_bwd g Co x2 w u2 in (a1, a2, ladd w1 w2, ladd b1 b2).
Definition run_conv1d_bwd2 g (Co : Z) (x1 x2 w u1 u2 : list Z) : list Z * list Z * list Z * list Z :=
  let '(a1, w1, b1) := run_conv1d_bwd g Co x1 w u1 in
  let '(a2, w2, b2) := run_conv1d_bwd g Co x2 w u2 in (a1, a2, ladd w1 w2, ladd b1 b2).
Definition quad_eqb (a b : list Z * list Z * list Z * list Z) : bool :=
  let '(a1, a2, a3, a4) := a in let '(b1, b2, b3, b4) := b in zl_eqb a1 b1 && zl_eqb a2 b2 && zl_eqb a3 b3 && zl_eqb a4 b4.
