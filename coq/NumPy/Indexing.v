(* Model of Tensor.__getitem__ = functional.slice = a[key] (NumPy basic + advanced indexing), of its backward
   np.add.at(zeros(a_shape), key, grad), and of iteration over the first dimension (Tensor.__iter__/__len__).

   Index expressions: a tuple of
     integers, slices start:stop:step (each part an integer or None), None (newaxis), Ellipsis,
     1-D integer sequences (advanced index; repeats allowed; several of them broadcast together).
   Not modelled: boolean masks, integer arrays of rank >= 2.

   NumPy's rules (numpy/_core/src/multiarray/mapping.c: prepare_index, get_view_from_index, mapiter):
     * at most one Ellipsis; #(int|slice|array) <= ndim; the Ellipsis (or the end of the tuple) is filled
       with full slices;
     * an integer is normalised (IndexError when out of range); a slice goes through PySlice_AdjustIndices;
     * if an integer array is present, integers are advanced indices too; all advanced indices are broadcast
       (here: equal lengths, or length 1); the broadcast axis goes where the first advanced index stood if the
       advanced indices are adjacent (an Ellipsis, even an empty one, a slice or a newaxis between them
       separates them), otherwise first.                                                                   *)
From Coq Require Import List Arith ZArith Lia Bool.
Import ListNotations.
From SG Require Import Base.Sums Base.Cmp NumPy.Gather NumPy.Index NumPy.Tensor NumPy.ViewsAux NumPy.Views.

Inductive item :=
| IInt (z : Z)
| ISlice (a b c : option Z)
| INew
| IEll
| IArr (l : list Z).

Inductive ritem :=
| RFix (k : nat)                         (* integer, normalised *)
| RSl (start step : Z) (len : nat)       (* slice: positions start + m*step, m < len *)
| RNew
| REll                                   (* the place where the Ellipsis stood (no axis) *)
| RArr (l : list nat).                   (* integer array, normalised *)

(* slice.indices(n) followed by the length computation (CPython Objects/sliceobject.c:
   PySlice_Unpack + PySlice_AdjustIndices) *)
Definition adjust_bound (n : Z) (neg_step : bool) (v : Z) : Z :=
  if (v <? 0)%Z then
    let v' := (v + n)%Z in
    if (v' <? 0)%Z then (if neg_step then (-1)%Z else 0%Z) else v'
  else if (n <=? v)%Z then (if neg_step then (n - 1)%Z else n)
  else v.

Definition slice_indices (n : nat) (a b c : option Z) : option (Z * Z * nat) :=
  let step := match c with None => 1%Z | Some s => s end in
  if (step =? 0)%Z then None                                         (* ValueError: slice step cannot be zero *)
  else
    let nz := Z.of_nat n in
    let neg := (step <? 0)%Z in
    let start := match a with
                 | None => if neg then (nz - 1)%Z else 0%Z
                 | Some v => adjust_bound nz neg v
                 end in
    let stop := match b with
                | None => if neg then (-1)%Z else nz
                | Some v => adjust_bound nz neg v
                end in
    let len := if neg
               then (if (stop <? start)%Z then ((start - stop - 1) / (- step) + 1)%Z else 0%Z)
               else (if (start <? stop)%Z then ((stop - start - 1) / step + 1)%Z else 0%Z) in
    Some (start, step, Z.to_nat len).

Definition consuming (it : item) : bool :=
  match it with IInt _ | ISlice _ _ _ | IArr _ => true | _ => false end.
Definition is_ell (it : item) : bool := match it with IEll => true | _ => false end.

Fixpoint expand_at (fill : list item) (items : list item) : list item :=
  match items with
  | [] => []
  | IEll :: t => IEll :: fill ++ t
  | it :: t => it :: expand_at fill t
  end.

Definition expand (n : nat) (items : list item) : option (list item) :=
  let nell := length (filter is_ell items) in
  let used := length (filter consuming items) in
  if 1 <? nell then None                                             (* IndexError: single ellipsis *)
  else if n <? used then None                                        (* IndexError: too many indices *)
  else
    let fill := repeat (ISlice None None None) (n - used) in
    Some (if nell =? 1 then expand_at fill items else items ++ fill).

Fixpoint resolve (sh : shape) (items : list item) : option (list ritem) :=
  match items with
  | [] => Some []
  | INew :: t => option_map (cons RNew) (resolve sh t)
  | IEll :: t => option_map (cons REll) (resolve sh t)
  | IInt z :: t =>
      match sh with
      | [] => None
      | d :: r => match norm_axis d z, resolve r t with
                  | Some k, Some rs => Some (RFix k :: rs)
                  | _, _ => None
                  end
      end
  | ISlice a b c :: t =>
      match sh with
      | [] => None
      | d :: r => match slice_indices d a b c, resolve r t with
                  | Some (st, sp, len), Some rs => Some (RSl st sp len :: rs)
                  | _, _ => None
                  end
      end
  | IArr l :: t =>
      match sh with
      | [] => None
      | d :: r => match norm_axes d l, resolve r t with
                  | Some ks, Some rs => Some (RArr ks :: rs)
                  | _, _ => None
                  end
      end
  end.

Definition is_arr (r : ritem) : bool := match r with RArr _ => true | _ => false end.
Definition is_adv (r : ritem) : bool := match r with RFix _ | RArr _ => true | _ => false end.
Definition arr_lens (rs : list ritem) : list nat :=
  flat_map (fun r => match r with RArr l => [length l] | _ => [] end) rs.

Definition bcast_len (lens : list nat) : option nat :=
  match filter (fun l => negb (l =? 1)) lens with
  | [] => Some 1
  | b :: t => if forallb (Nat.eqb b) t then Some b else None    (* IndexError: shape mismatch *)
  end.

Fixpoint skip_nonadv (rs : list ritem) : list ritem :=
  match rs with
  | [] => []
  | r :: t => if is_adv r then rs else skip_nonadv t
  end.
Fixpoint skip_adv (rs : list ritem) : list ritem :=
  match rs with
  | [] => []
  | r :: t => if is_adv r then skip_adv t else rs
  end.
Definition contiguous (rs : list ritem) : bool := negb (existsb is_adv (skip_adv (skip_nonadv rs))).

Definition out_axes (r : ritem) : list nat :=
  match r with RSl _ _ len => [len] | RNew => [1] | _ => [] end.
Definition basic_shape (rs : list ritem) : shape := flat_map out_axes rs.

Fixpoint axes_before_adv (rs : list ritem) : nat :=
  match rs with
  | [] => 0
  | r :: t => if is_adv r then 0 else length (out_axes r) + axes_before_adv t
  end.

(* the input index read at output position j (the broadcast axis already taken out: t) *)
Fixpoint walk (rs : list ritem) (t : nat) (j : idx) : idx :=
  match rs with
  | [] => []
  | RFix k :: r => k :: walk r t j
  | RSl st sp _ :: r => Z.to_nat (st + Z.of_nat (hd 0%nat j) * sp)%Z :: walk r t (tl j)
  | RNew :: r => walk r t (tl j)
  | REll :: r => walk r t j
  | RArr l :: r => (if length l =? 1 then nth 0 l 0 else nth t l 0) :: walk r t j
  end.

Definition index_op (sh : shape) (rs : list ritem) : option gather_op :=
  if existsb is_arr rs then
    match bcast_len (arr_lens rs) with
    | None => None
    | Some B =>
        let pos := if contiguous rs then axes_before_adv rs else 0 in
        Some (mkGather sh (insert_at pos B (basic_shape rs))
                       (fun j => Some (walk rs (nth pos j 0) (remove_at pos j))))
    end
  else Some (mkGather sh (basic_shape rs) (fun j => Some (walk rs 0 j))).

(* slice_forward = a[s] *)
Definition fwd_index (sh : shape) (items : list item) : option gather_op :=
  match expand (length sh) items with
  | None => None
  | Some ex => match resolve sh ex with
               | None => None
               | Some rs => index_op sh rs
               end
  end.

(* slice_backward = zeros(a_shape); np.add.at(grad_a, s, grad) *)
Definition bwd_index {A} `{Scalar A} (a_shape : shape) (items : list item) (g : idx -> A) : option (idx -> A) :=
  match fwd_index a_shape items with
  | None => None
  | Some op => Some (add_at (g_phi op) (idxs (g_out op)) g)
  end.

(* ---------------------------------------------------------------- iteration over the first dimension
   Tensor.__len__  = len(self.data)                      (TypeError for 0-d)
   Tensor.__iter__ = (self[i] for i in range(len(self))) a fresh generator per call; range(len(self)) is evaluated
                                                         when the generator is created.                          *)
Definition tlen (sh : shape) : option nat := match sh with [] => None | d :: _ => Some d end.

Inductive iev := NewIter | Next (k : nat).           (* k: the k-th iterator created so far *)
Inductive iobs := OCreated | ORow (r : nat) | OStop | OErr.

(* one live generator: (cursor, bound) *)
Definition istate := list (nat * nat).

Definition istep (sh : shape) (st : istate) (e : iev) : istate * iobs :=
  match e with
  | NewIter => match tlen sh with
               | None => (st, OErr)
               | Some d => (st ++ [(0, d)], OCreated)
               end
  | Next k => match nth_error st k with
              | None => (st, OErr)
              | Some (c, b) => if c <? b then (upd_nth k (S c, b) st, ORow c) else (st, OStop)
              end
  end.

Fixpoint irun (sh : shape) (st : istate) (evs : list iev) : list iobs :=
  match evs with
  | [] => []
  | e :: t => let (st', o) := istep sh st e in o :: irun sh st' t
  end.

(* the item yielded for row r is self[r] *)
Definition row_op (sh : shape) (r : nat) : option gather_op := fwd_index sh [IInt (Z.of_nat r)].
