(* NumPy broadcasting, the broadcast index map, and the code's `unbroadcast` (cpu_ops.py:8-17),
   add/mul forward+backward (cpu_ops.py:25-40) transcribed on (shape, index function) level.       *)
From Coq Require Import List Arith ZArith Lia Bool.
Import ListNotations.
From SG Require Import Base.Sums Base.Cmp NumPy.Index NumPy.Tensor NumPy.Gather NumPy.TensorFn.

(* ---- np.broadcast_shapes (two operands): right-aligned; dims equal, or one of them 1 -------- *)
Definition bdim (a b:nat) : option nat :=
  if a =? b then Some a else if a =? 1 then Some b else if b =? 1 then Some a else None.

Definition pad_left (n:nat) (sh:shape) : shape := repeat 1 (n - length sh) ++ sh.

Fixpoint bzip (a b:shape) : option shape :=
  match a, b with
  | [], [] => Some []
  | x :: ta, y :: tb => match bdim x y, bzip ta tb with Some d, Some t => Some (d :: t) | _, _ => None end
  | _, _ => None
  end.

Definition broadcast_shapes (a b:shape) : option shape :=
  let n := Nat.max (length a) (length b) in bzip (pad_left n a) (pad_left n b).

(* an operand of shape s_op can be broadcast to s_out *)
Fixpoint bcompat (s_op s_out:shape) : bool :=
  match s_op, s_out with
  | [], [] => true
  | d :: r, e :: t => ((d =? e) || (d =? 1)) && bcompat r t
  | _, _ => false
  end.
Definition broadcastable (s_op s_out:shape) : bool :=
  (length s_op <=? length s_out) && bcompat s_op (skipn (length s_out - length s_op) s_out).

(* ---- the index of the operand element read at output position j --------------------------- *)
Fixpoint bm_al (s_op:shape) (j:idx) : idx :=
  match s_op, j with
  | d :: r, k :: t => (if d =? 1 then 0 else k) :: bm_al r t
  | _, _ => []
  end.
Definition bcast_idx (s_op s_out:shape) (j:idx) : idx := bm_al s_op (skipn (length s_out - length s_op) j).
Definition bcast_map (s_op s_out:shape) : imap := fun j => Some (bcast_idx s_op s_out j).
Definition bcast_op (s_op s_out:shape) : gather_op := mkGather s_op s_out (bcast_map s_op s_out).

Section Bcast.
Context {A:Type} `{Scalar A}.

Definition bcast_to (so:shape) (t:tensor A) : tensor A :=
  mkT so (fun j => tat t (bcast_idx (tshape t) so j)).

(* a (op) b with broadcasting; None = "operands could not be broadcast together" *)
Definition bop (f:A->A->A) (a b:tensor A) : option (tensor A) :=
  match broadcast_shapes (tshape a) (tshape b) with
  | Some so => Some (mkT so (fun j => f (tat a (bcast_idx (tshape a) so j)) (tat b (bcast_idx (tshape b) so j))))
  | None => None
  end.
Definition badd := bop sadd.
Definition bmul := bop smul.

(* np.ones(sh, dtype) * grad : multiplication by 1.0 is the identity on values; what remains is the broadcast *)
Definition ones_mul (sh:shape) (g:tensor A) : option (tensor A) :=
  match broadcast_shapes sh (tshape g) with Some so => Some (bcast_to so g) | None => None end.

(* ---- reductions used by unbroadcast -------------------------------------------------------- *)
(* grad.sum(axis=0) *)
Definition sum_axis0 (t:tensor A) : tensor A :=
  mkT (tl (tshape t)) (fun i => isum (seq 0 (hd 0 (tshape t))) (fun k => tat t (k :: i))).
(* grad.sum(axis=i, keepdims=True) *)
Definition sum_axis_keep (i:nat) (t:tensor A) : tensor A :=
  mkT (set_at i 1 (tshape t)) (fun j => isum (seq 0 (nth i (tshape t) 0)) (fun k => tat t (set_at i k j))).

(* while len(grad.shape) > len(shape): grad = grad.sum(axis=0)   -- n = the exact trip count *)
Fixpoint lead_sums (n:nat) (t:tensor A) : tensor A :=
  match n with 0 => t | S n' => lead_sums n' (sum_axis0 t) end.

(* for i in range(len(shape)): if grad.shape[i] != shape[i]: grad = grad.sum(axis=i, keepdims=True)
   n = remaining iterations, i = loop variable *)
Fixpoint unb_loop (n i:nat) (t:tensor A) (sh:shape) : tensor A :=
  match n with
  | 0 => t
  | S n' => unb_loop n' (S i) (if nth i (tshape t) 0 =? nth i sh 0 then t else sum_axis_keep i t) sh
  end.

Definition unbroadcast (g:tensor A) (sh:shape) : option (tensor A) :=
  if length (tshape g) <? length sh then badd (zeros sh) g
  else Some (unb_loop (length sh) 0 (lead_sums (length (tshape g) - length sh) g) sh).

(* ---- kernels ---------------------------------------------------------------------------------- *)
Definition add_forward := badd.
Definition add_backward (g:tensor A) (sa sb:shape) : option (tensor A * tensor A) :=
  ga <- ones_mul sa g ;; gb <- ones_mul sb g ;;
  ua <- unbroadcast ga sa ;; ub <- unbroadcast gb sb ;; Some (ua, ub).

Definition mul_forward := bmul.
Definition mul_backward (g a b:tensor A) : option (tensor A * tensor A) :=
  ga <- bmul g b ;; gb <- bmul g a ;;
  ua <- unbroadcast ga (tshape a) ;; ub <- unbroadcast gb (tshape b) ;; Some (ua, ub).

(* x._grad += kernel_result : NumPy in-place add; the result must broadcast to the buffer's shape *)
Definition accumulate (buf g:tensor A) : option (tensor A) :=
  if broadcastable (tshape g) (tshape buf)
  then Some (mkT (tshape buf) (fun j => sadd (tat buf j) (tat g (bcast_idx (tshape g) (tshape buf) j))))
  else None.

(* the scatter (adjoint) of a gather between two shapes *)
Definition tscatter (s_out:shape) (phi:imap) (g:idx -> A) : idx -> A :=
  scatter idx idx idx_eqb (idxs s_out) phi g.
End Bcast.
