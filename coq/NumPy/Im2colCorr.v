(* Helpers for the C16 correspondence files (coq/Corr/C16/*.v): the table of every probed function of
   conv_tools.py computed from the models, and the comparison with the tables read off the implementation. *)
From Coq Require Import List ZArith Bool Sorting.Mergesort Orders.
Import ListNotations.
From SG Require Import Base.Cmp NumPy.Window NumPy.Im2col.
Open Scope Z_scope.

Module ZOrder <: TotalLeBool.
  Definition t := Z.
  Definition leb := Z.leb.
  Theorem leb_total : forall a1 a2, leb a1 a2 = true \/ leb a2 a1 = true.
  Proof. intros a b. unfold leb. destruct (Z.leb_spec a b); auto. right. apply Z.leb_le. apply Z.lt_le_incl. assumption. Qed.
End ZOrder.
Module ZSort := Sort ZOrder.

(* function ids used by checks/c16.py:
   0-2  im2col / im2col_v2 / im2col_fast, as_unfold=True      3-5  the same, 2-D column matrix
   6    extract_windows                                        14   nn.functional.unfold
   7-9  col2im / col2im_v2 / col2im_fast on (N, C*kH*kW, L)    10-12 the same on the 2-D column matrix
   13   place_windows                                          15   nn.functional.fold
   forward tables list the code of the cell copied to each result entry in ravel() order; backward tables are
   the sorted codes of (argument entry, pixel it is added to | dropped). *)
Definition variant_of (k : nat) : variant := match k with O => VIdx | S O => VLoop | _ => VFast end.
Definition fn_table (fid : nat) (g : geom) : list Z :=
  match fid with
  | 0 | 1 | 2 => table_unf (variant_of fid) g
  | 3 | 4 | 5 => table_2d (variant_of (fid - 3)) g
  | 6 => table_win g
  | 7 | 8 | 9 => ZSort.sort (ctable_unf (variant_of (fid - 7)) g)
  | 10 | 11 | 12 => ZSort.sort (ctable_2d (variant_of (fid - 10)) g)
  | 13 => ZSort.sort (ctable_win g)
  | 14 => table_unf VFast g
  | 15 => ZSort.sort (ctable_unf VFast g)
  | _ => []
  end%nat.

Definition zlist_eqb := list_eqb Z.eqb.

(* a case: geometry and groups (function ids, the table all of them produced).  Result: 100*case + fid for every
   function whose model table differs from the implementation's *)
Definition case := (geom * list (list nat * list Z))%type.
Definition check_case (k : Z) (c : case) : list Z :=
  let '(g, groups) := c in
  flat_map (fun grp : list nat * list Z =>
    flat_map (fun fid => if zlist_eqb (fn_table fid g) (snd grp) then [] else [100 * k + Z.of_nat fid]) (fst grp)) groups.
Fixpoint check_from (k : Z) (cs : list case) : list Z :=
  match cs with [] => [] | c :: t => check_case k c ++ check_from (k + 1) t end.
Definition check_cases := check_from 0.

(* 1-D: extract_windows / place_windows on (N, C, W) *)
Definition flat_pos1 g (q : pos1) : Z := let '(n, c, w) := q in ravel3 (C1 g) (W1 g) n c w.
Definition table_win1 g : list Z :=
  map (fun w : Z * Z * Z * Z => let '(wj, n, c, b) := w in cell_code (cell_map (flat_pos1 g) (ew1 g wj n c b)))
      (list_prod (list_prod (list_prod (zr (l1 g)) (zr (N1 g))) (zr (C1 g))) (zr (k1 g))).
Definition ctable_win1 g : list Z :=
  ZSort.sort (map (fun wt : (Z * Z * Z * Z) * option pos1 =>
      let '(wj, n, c, b) := fst wt in
      ravel4 (N1 g) (C1 g) (k1 g) wj n c b * (N1 g * C1 g * W1 g + 1)
      + match snd wt with Some q => 1 + flat_pos1 g q | None => 0 end) (pw1_contribs g)).
Definition case1 := (geom1 * (list Z * list Z))%type.
Definition check_case1 (k : Z) (c : case1) : list Z :=
  let '(g, (tw, tc)) := c in
  (if zlist_eqb (table_win1 g) tw then [] else [100 * k + 20]) ++ (if zlist_eqb (ctable_win1 g) tc then [] else [100 * k + 21]).
Fixpoint check_from1 (k : Z) (cs : list case1) : list Z :=
  match cs with [] => [] | c :: t => check_case1 k c ++ check_from1 (k + 1) t end.
Definition check_cases1 := check_from1 0.

(* acceptance of empty / negative output geometries *)
Definition accept_row g : list bool := [accepts_im2col g; accepts_im2col_v2 g; accepts_im2col_fast g].
Definition check_accepts (cs : list (geom * list bool)) : list nat :=
  mismatches accept_row (list_eqb Bool.eqb) cs.
