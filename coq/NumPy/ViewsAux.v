(* Helpers shared by the models of the shape-changing / view / indexing ops (work package E1).
   Only definitions (executable); lemmas are in Proofs/ViewsAuxProofs.v.                       *)
From Coq Require Import List Arith ZArith Lia Bool.
Import ListNotations.
From SG Require Import Base.Sums Base.Cmp NumPy.Gather NumPy.Index NumPy.Tensor.

(* list surgery used by np.moveaxis / int indexing / window ops *)
Definition remove_at {X} (s : nat) (l : list X) : list X := firstn s l ++ skipn (S s) l.
Definition insert_at {X} (d : nat) (x : X) (l : list X) : list X := firstn d l ++ x :: skipn d l.
Definition upd_nth {X} (d : nat) (x : X) (l : list X) : list X := firstn d l ++ x :: skipn (S d) l.
(* moveaxis on a list: take the element at position s out and re-insert it at position d *)
Definition move {X} (dflt : X) (s d : nat) (l : list X) : list X := insert_at d (nth s l dflt) (remove_at s l).

(* position of the first occurrence of a in l (length l if absent) *)
Fixpoint pos_of (a : nat) (l : list nat) : nat :=
  match l with
  | [] => 0
  | b :: t => if a =? b then 0 else S (pos_of a t)
  end.

Definition idx_eqb : idx -> idx -> bool := list_eqb Nat.eqb.

(* tensors as functions on multi-indices; the gather / scatter of NumPy/Gather.v at index type idx *)
Definition tgather {A} `{Scalar A} (phi : imap) (x : idx -> A) : idx -> A := gather idx idx phi x.
Definition tscatter {A} `{Scalar A} (op : gather_op) (g : idx -> A) : idx -> A :=
  scatter idx idx idx_eqb (idxs (g_out op)) (g_phi op) g.
Definition tdot {A} `{Scalar A} (sh : shape) (u v : idx -> A) : A := dot (idxs sh) u v.

(* applying a backward that is itself a gather (moveaxis / swapaxes / reshape / squeeze of the gradient) *)
Definition apply_op {A} `{Scalar A} (op : gather_op) (x : idx -> A) : idx -> A := tgather (g_phi op) x.

Definition of_list {A} `{Scalar A} (sh : shape) (l : list A) : idx -> A := fun j => nth (ravel sh j) l s0.
Definition to_list {A} (sh : shape) (f : idx -> A) : list A := map f (idxs sh).

Definition id_op (sh : shape) : gather_op := mkGather sh sh (fun j => Some j).

(* op1 first, then op2 on op1's result *)
Definition compose_op (op1 op2 : gather_op) : gather_op :=
  mkGather (g_in op1) (g_out op2)
           (fun j => match g_phi op2 j with Some m => g_phi op1 m | None => None end).

(* every output index is mapped to an in-range input index *)
Definition maps_into (op : gather_op) : Prop :=
  forall j, In j (idxs (g_out op)) -> exists i, g_phi op j = Some i /\ In i (idxs (g_in op)).

(* the index map is a bijection between the output and the input index sets *)
Definition bijective (op : gather_op) : Prop :=
  maps_into op /\
  (forall j j' i, In j (idxs (g_out op)) -> In j' (idxs (g_out op)) ->
                  g_phi op j = Some i -> g_phi op j' = Some i -> j = j') /\
  (forall i, In i (idxs (g_in op)) -> exists j, In j (idxs (g_out op)) /\ g_phi op j = Some i).

(* two ops denote the same gather: same shapes, same map on the in-range output indices *)
Definition op_equiv (o1 o2 : gather_op) : Prop :=
  g_in o1 = g_in o2 /\ g_out o1 = g_out o2 /\
  forall j, In j (idxs (g_out o1)) -> g_phi o1 j = g_phi o2 j.

Fixpoint norm_axes (n : nat) (l : list Z) : option (list nat) :=
  match l with
  | [] => Some []
  | z :: t => match norm_axis n z, norm_axes n t with
              | Some k, Some r => Some (k :: r)
              | _, _ => None
              end
  end.

Definition memb (k : nat) (l : list nat) : bool := existsb (Nat.eqb k) l.

Fixpoint nodupb (l : list nat) : bool :=
  match l with
  | [] => true
  | a :: t => negb (memb a t) && nodupb t
  end.

(* mask over n positions: true at the listed axes *)
Definition mask_of (n : nat) (axes : list nat) : list bool := map (fun k => memb k axes) (seq 0 n).

(* remove the positions whose mask bit is true *)
Fixpoint drop_mask {X} (mask : list bool) (l : list X) : list X :=
  match mask, l with
  | true :: m, _ :: t => drop_mask m t
  | false :: m, a :: t => a :: drop_mask m t
  | _, _ => []
  end.

(* insert x at the positions whose mask bit is true, the other positions are filled from l in order *)
Fixpoint fill_mask {X} (mask : list bool) (x : X) (l : list X) : list X :=
  match mask with
  | [] => []
  | true :: m => x :: fill_mask m x l
  | false :: m => match l with
                  | a :: t => a :: fill_mask m x t
                  | [] => []
                  end
  end.

(* ---- how the C01 statements are phrased ------------------------------------------------------------
   A backward kernel that is itself a gather of the upstream gradient (bop: moveaxis / swapaxes / reshape /
   squeeze applied to grad) is exact when its result has the operand's shape and equals the scatter of the
   forward map at every operand position, for upstream gradients over any commutative semiring.          *)
Definition backward_is_scatter (op bop : gather_op) : Prop :=
  g_in bop = g_out op /\ g_out bop = g_in op /\
  forall (A : Type) (SA : Scalar A) (LA : ScalarLaws A) (g : idx -> A) (i : idx),
    In i (idxs (g_in op)) -> apply_op bop g i = tscatter op g i.

(* <g, op x> = <backward g, x> *)
Definition vjp_identity (op : gather_op) (b : forall (A : Type), Scalar A -> (idx -> A) -> idx -> A) : Prop :=
  forall (A : Type) (SA : Scalar A) (LA : ScalarLaws A) (x g : idx -> A),
    tdot (g_out op) g (tgather (g_phi op) x) = tdot (g_in op) (b A SA g) x.
