(* Operator overloads of Tensor with Python scalars and between tensors (tensor.py: __add__ ... __rtruediv__).
   A Python scalar operand is wrapped as a 0-d Tensor of the tensor's own floating dtype (Tensor._wrap_scalar);
   -, / and the reflected forms are expressed through add / mul / pow(-1) exactly as the code does.  x ** -1 is the elementwise inverse [sinv].          *)
From Coq Require Import List Arith ZArith Lia Bool.
Import ListNotations.
From SG Require Import Base.Sums Base.ScalarExt Base.Cmp NumPy.Index NumPy.Tensor NumPy.TensorFn NumPy.Broadcast.

Section Ov.
Context {A:Type} `{ScalarRing A}.

Definition ov_neg (t:tensor A) := bmul t (scalar0d (sopp s1)).                    (* self * -1.0 *)
Definition ov_add_ts (t:tensor A) (c:A) := badd t (scalar0d c).                    (* self + Tensor(c) *)
Definition ov_radd_ts (c:A) (t:tensor A) := ov_add_ts t c.                          (* __radd__: self + other *)
Definition ov_sub_tt (a b:tensor A) := nb <- ov_neg b ;; badd a nb.                (* self + (-other) *)
Definition ov_sub_ts (t:tensor A) (c:A) := badd t (scalar0d (sopp c)).             (* -other done by Python *)
Definition ov_rsub_ts (c:A) (t:tensor A) := nt <- ov_neg t ;; badd nt (scalar0d c). (* other + (-self) -> (-self) + other *)
Definition ov_mul_ts (t:tensor A) (c:A) := bmul t (scalar0d c).
Definition ov_rmul_ts (c:A) (t:tensor A) := ov_mul_ts t c.
Definition pow_m1 (t:tensor A) := tmap sinv t.
Definition ov_div_tt (a b:tensor A) := bmul a (pow_m1 b).                           (* self * other**-1 *)
Definition ov_div_ts (t:tensor A) (c:A) := bmul t (scalar0d (sinv c)).             (* other**-1 done by Python *)
Definition ov_rdiv_ts (c:A) (t:tensor A) := bmul (pow_m1 t) (scalar0d c).          (* other * self**-1 -> (self**-1) * other *)

(* gradient reaching the tensor operand (the 0-d wrapper of the scalar does not require grad) *)
Definition ov_neg_bw (g t:tensor A) := r <- mul_backward g t (scalar0d (sopp s1)) ;; Some (fst r).
Definition ov_add_ts_bw (g t:tensor A) := r <- add_backward g (tshape t) [] ;; Some (fst r).
Definition ov_mul_ts_bw (g t:tensor A) (c:A) := r <- mul_backward g t (scalar0d c) ;; Some (fst r).
Definition ov_rsub_ts_bw (g t:tensor A) := r <- add_backward g (tshape t) [] ;; ov_neg_bw (fst r) t.
End Ov.
