(* Models of the shape-changing / view ops of the tensor API (work package E1):
     reshape, flatten, squeeze, unsqueeze, movedim (= moveaxis), transpose, unfold_dim (Tensor.unfold), clone.
   For each op
     fwd_<op> : shape -> args -> option gather_op      None exactly when the real call raises; the
                                                        gather_op gives the output shape and the index
                                                        map as NumPy computes it, behind the wrapper's
                                                        own argument logic (synapgrad/functional.py);
     bwd_<op>                                           a separate transcription of the *_backward
                                                        kernel of synapgrad/cpu_ops.py, applied to the
                                                        upstream gradient.
   The NumPy primitives are transcribed from their reference implementations:
     ndarray.transpose(axes)      out.shape[k] = a.shape[axes[k]],  out[j] = a[i] with i[axes[k]] = j[k]
     np.moveaxis                  numpy/_core/numeric.py: order = [n for n in range(ndim) if n not in source];
                                  order.insert(dest, src); a.transpose(order)
     np.swapaxes                  PyArray_SwapAxes: dims[i] = i; dims[a1] = a2; dims[a2] = a1; transpose(dims)
     ndarray.reshape              _fix_unknown_dimension: every negative entry is "unknown", at most one,
                                  s_known = product of the others, error if s_known == 0 or size % s_known != 0;
                                  without unknown: error unless the products agree.  C order: the flat index is kept.
     np.squeeze                   axis None: drop all size-1 axes; else normalise, reject duplicates, reject size != 1
     np.expand_dims               numpy/lib/_shape_base_impl.py: normalize_axis_tuple(axis, ndim + len(axis)) (duplicates
                                  rejected); shape = [1 if ax in axis else next(shape_it) ...]; a.reshape(shape)
     sliding_window_view(a, size, axis)   out.shape = a.shape with L -> L-size+1 at axis, ++ [size];
                                  out[.., w, .., k] = a[.., w+k, ..]                                         *)
From Coq Require Import List Arith ZArith Lia Bool.
Import ListNotations.
From SG Require Import Base.Sums Base.Cmp NumPy.Gather NumPy.Index NumPy.Tensor NumPy.ViewsAux.

(* ---------------------------------------------------------------- transpose by a permutation *)
Definition perm_op (sh : shape) (perm : list nat) : gather_op :=
  mkGather sh (map (fun a => nth a sh 0) perm)
           (fun j => Some (map (fun a => nth (pos_of a perm) j 0) (seq 0 (length sh)))).

Definition np_moveaxis (sh : shape) (s d : Z) : option gather_op :=
  let n := length sh in
  match norm_axis n s, norm_axis n d with
  | Some s', Some d' =>
      let order := filter (fun a => negb (a =? s')) (seq 0 n) in
      Some (perm_op sh (insert_at d' s' order))
  | _, _ => None
  end.

Definition np_swapaxes (sh : shape) (a1 a2 : Z) : option gather_op :=
  let n := length sh in
  match norm_axis n a1, norm_axis n a2 with
  | Some k1, Some k2 =>
      Some (perm_op sh (map (fun k => if k =? k2 then k1 else if k =? k1 then k2 else k) (seq 0 n)))
  | _, _ => None
  end.

(* movedim_forward = np.moveaxis(a, source, destination); movedim_backward = np.moveaxis(grad, destination, source) *)
Definition fwd_movedim (sh : shape) (source destination : Z) : option gather_op := np_moveaxis sh source destination.
Definition bwd_movedim (gsh : shape) (source destination : Z) : option gather_op := np_moveaxis gsh destination source.

(* transpose_forward = np.swapaxes(a, axis0, axis1); transpose_backward = np.swapaxes(grad, axis0, axis1) *)
Definition fwd_transpose (sh : shape) (dim0 dim1 : Z) : option gather_op := np_swapaxes sh dim0 dim1.
Definition bwd_transpose (gsh : shape) (dim0 dim1 : Z) : option gather_op := np_swapaxes gsh dim0 dim1.

(* ---------------------------------------------------------------- reshape *)
Definition infer_shape (total : nat) (target : list Z) : option shape :=
  let negs := length (filter (fun z => z <? 0)%Z target) in
  let known := fold_right Nat.mul 1 (map Z.to_nat (filter (fun z => 0 <=? z)%Z target)) in
  match negs with
  | 0 => if known =? total then Some (map Z.to_nat target) else None
  | 1 => if (known =? 0) || negb (total mod known =? 0) then None
         else Some (map (fun z => if (z <? 0)%Z then total / known else Z.to_nat z) target)
  | _ => None
  end.

Definition reshape_op (sh out : shape) : gather_op :=
  mkGather sh out (fun j => Some (unravel sh (ravel out j))).

Definition np_reshape (sh : shape) (target : list Z) : option gather_op :=
  option_map (reshape_op sh) (infer_shape (size sh) target).

(* reshape_forward = a.reshape(shape); reshape_backward = grad.reshape(a_shape) *)
Definition fwd_reshape (sh : shape) (target : list Z) : option gather_op := np_reshape sh target.
Definition bwd_reshape (gsh a_shape : shape) : option gather_op := np_reshape gsh (map Z.of_nat a_shape).

(* ---------------------------------------------------------------- flatten (wrapper logic of functional.flatten) *)
Definition flatten_target (sh : shape) (start_dim end_dim : Z) : option (list Z) :=
  let n := length sh in
  let ndim := Z.of_nat (if n =? 0 then 1 else n) in
  if negb ((- ndim <=? start_dim) && (start_dim <? ndim) && (- ndim <=? end_dim) && (end_dim <? ndim))%Z
  then None                                                  (* IndexError *)
  else
    let start := (if start_dim <? 0 then start_dim + ndim else start_dim)%Z in
    let end_ := (if end_dim <? 0 then end_dim + ndim else end_dim)%Z in
    if (end_ <? start)%Z then None                            (* RuntimeError *)
    else
      let s := Z.to_nat start in
      let e := Z.to_nat end_ in
      (* shape[:start] + (math.prod(shape[start:end+1]),) + shape[end+1:] *)
      Some (map Z.of_nat (firstn s sh ++ [size (firstn (e + 1 - s) (skipn s sh))] ++ skipn (e + 1) sh)).

Definition fwd_flatten (sh : shape) (start_dim end_dim : Z) : option gather_op :=
  match flatten_target sh start_dim end_dim with
  | None => None
  | Some t => np_reshape sh t
  end.
Definition bwd_flatten (gsh a_shape : shape) : option gather_op := bwd_reshape gsh a_shape.

(* ---------------------------------------------------------------- squeeze / unsqueeze *)
Definition np_squeeze (sh : shape) (axes : option (list Z)) : option gather_op :=
  let n := length sh in
  match axes with
  | None =>
      let mask := map (fun d => d =? 1) sh in
      Some (mkGather sh (drop_mask mask sh) (fun j => Some (fill_mask mask 0 j)))
  | Some l =>
      match norm_axes n l with
      | None => None                                          (* AxisError *)
      | Some ks =>
          if negb (nodupb ks) then None                       (* duplicate value in 'axis' *)
          else if negb (forallb (fun k => nth k sh 0 =? 1) ks) then None   (* size not equal to one *)
          else let mask := mask_of n ks in
               Some (mkGather sh (drop_mask mask sh) (fun j => Some (fill_mask mask 0 j)))
      end
  end.

Definition np_expand_dims (sh : shape) (l : list Z) : option gather_op :=
  let m := length l + length sh in
  match norm_axes m l with
  | None => None
  | Some ks =>
      if negb (nodupb ks) then None                           (* repeated axis *)
      else Some (reshape_op sh (fill_mask (mask_of m ks) 1 sh))
  end.

Inductive sqarg := SqNone | SqInt (z : Z) | SqTuple (l : list Z).

(* cpu_ops.squeeze_forward:
     axis None            -> np.squeeze(a)
     int | tuple          -> every dim range-checked against [-max(ndim,1), max(ndim,1)) and normalised (IndexError),
                             repeated dims rejected (ValueError), then only the named dims of size 1 are squeezed *)
Definition sq_axes (arg : sqarg) : option (list Z) :=
  match arg with SqNone => None | SqInt z => Some [z] | SqTuple l => Some l end.

Definition fwd_squeeze (sh : shape) (arg : sqarg) : option gather_op :=
  let n := length sh in
  match sq_axes arg with
  | None => np_squeeze sh None
  | Some l =>
      match norm_axes (Nat.max n 1) l with
      | None => None                                          (* IndexError *)
      | Some ks =>
          if negb (nodupb ks) then None                       (* ValueError: repeated dim *)
          else
            match filter (fun k => (0 <? n) && (nth k sh 0 =? 1)) ks with
            | [] => Some (id_op sh)
            | ks' => np_squeeze sh (Some (map Z.of_nat ks'))
            end
      end
  end.
(* squeeze_backward = grad.reshape(a_shape) *)
Definition bwd_squeeze (gsh a_shape : shape) : option gather_op := bwd_reshape gsh a_shape.

Inductive unsqarg := UInt (z : Z) | UTuple (l : list Z).
Definition unsq_axes (arg : unsqarg) : list Z := match arg with UInt z => [z] | UTuple l => l end.
(* unsqueeze_forward = np.expand_dims(a, axis); unsqueeze_backward = np.squeeze(grad, axis) *)
Definition fwd_unsqueeze (sh : shape) (arg : unsqarg) : option gather_op := np_expand_dims sh (unsq_axes arg).
Definition bwd_unsqueeze (gsh : shape) (arg : unsqarg) : option gather_op := np_squeeze gsh (Some (unsq_axes arg)).

(* ---------------------------------------------------------------- clone *)
Definition fwd_clone (sh : shape) : option gather_op := Some (id_op sh).
Definition bwd_clone (gsh : shape) : option gather_op := Some (id_op gsh).

(* ---------------------------------------------------------------- unfold_dim *)
Definition window_op (sh : shape) (d size : nat) : gather_op :=
  let L := nth d sh 0 in
  mkGather sh (upd_nth d (L - size + 1) sh ++ [size])
           (fun j => let jj := removelast j in Some (upd_nth d (nth d jj 0 + last j 0) jj)).

(* a[..., ::step, ...] at axis d *)
Definition step_op (sh : shape) (d step : nat) : gather_op :=
  let L := nth d sh 0 in
  mkGather sh (upd_nth d ((L + step - 1) / step) sh)
           (fun j => Some (upd_nth d (nth d j 0 * step) j)).

(* the wrapper's validation (functional.unfold_dim) followed by the kernel's (cpu_ops.unfold_dim_forward) *)
Definition unfold_args (sh : shape) (dimension size step : Z) : option (nat * nat * nat) :=
  let n := Z.of_nat (length sh) in
  if ((dimension >=? n) || (dimension <? - n))%Z then None
  else
    let d := Z.to_nat (if dimension <? 0 then dimension + n else dimension)%Z in
    if (size <=? 0)%Z then None
    else if (step <=? 0)%Z then None
    else if (Z.of_nat (nth d sh 0%nat) <? size)%Z then None
    else Some (d, Z.to_nat size, Z.to_nat step).

Definition fwd_unfold_dim (sh : shape) (dimension size step : Z) : option gather_op :=
  match unfold_args sh dimension size step with
  | None => None
  | Some (d, sz, st) =>
      let w := window_op sh d sz in
      Some (compose_op w (step_op (g_out w) d st))
  end.

Section Backward.
Context {A : Type} `{Scalar A}.

(* cpu_ops.unfold_dim_backward(grad, a_shape, dimension, size, step), dimension already normalised:
     a_grad = zeros(a_shape)
     for i in range(grad.shape[dimension]):
         start = i*step; end = start+size
         a_grad[(:,)*dimension + (start:end,)] += moveaxis(grad[(:,)*dimension + (i,)], -1, dimension).reshape(...)
   The reshape is the identity when the window fits (checked), and raises otherwise.              *)
Definition bwd_unfold_dim (gsh a_shape : shape) (d size step : nat) (g : idx -> A) : option (idx -> A) :=
  let nwin := nth d gsh 0 in
  let sub_sh := remove_at d gsh in                                   (* shape of grad[s2] *)
  match np_moveaxis sub_sh (-1)%Z (Z.of_nat d) with
  | None => None
  | Some mv =>
      if negb (forallb (fun w => w * step + size <=? nth d a_shape 0) (seq 0 nwin)) then None
      else Some (fold_left
             (fun (acc : idx -> A) (w : nat) =>
                let sub := fun j' => g (insert_at d w j') in         (* grad[s2] *)
                let moved := apply_op mv sub in                      (* np.moveaxis(grad[s2], -1, dimension) *)
                fun i => let p := nth d i 0 in
                         if (w * step <=? p) && (p <? w * step + size)
                         then sadd (acc i) (moved (upd_nth d (p - w * step) i))
                         else acc i)
             (seq 0 nwin) (fun _ => s0))
  end.

(* np.add.at(zeros, index, grad): unbuffered, one accumulation per output position, in order *)
Definition add_at (phi : imap) (outs : list idx) (g : idx -> A) : idx -> A :=
  fold_left (fun (acc : idx -> A) (j : idx) =>
               fun i => match phi j with
                        | Some i' => if idx_eqb i' i then sadd (acc i) (g j) else acc i
                        | None => acc i
                        end)
            outs (fun _ => s0).
End Backward.
