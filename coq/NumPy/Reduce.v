(* sum / mean / max / min over axis None | int | tuple with keepdims (cpu_ops.py:151-218), and
   np.expand_dims as used by their backward kernels.                                              *)
From Coq Require Import List Arith ZArith Lia Bool.
Import ListNotations.
From SG Require Import Base.Sums Base.ScalarExt Base.Cmp NumPy.Index NumPy.Tensor NumPy.Gather NumPy.TensorFn NumPy.Broadcast.

Inductive axis_arg := AxNone | AxInt (a:Z) | AxTuple (l:list Z).

(* normalize_axis_tuple: every entry in range, no repeats *)
Definition norm_axes (n:nat) (l:list Z) : option (list nat) :=
  match all_some (map (norm_axis n) l) with
  | Some ks => if nodupb ks then Some ks else None
  | None => None
  end.

(* the axes a NumPy reduction over an array of rank n reduces.  [legacy0d]: ufunc reductions (sum, max, min)
   accept the int axes 0 and -1 on a 0-d array and reduce nothing; np.mean does not. *)
Definition np_reduce_axes (legacy0d:bool) (n:nat) (ax:axis_arg) : option (list nat) :=
  match ax with
  | AxNone => Some (seq 0 n)
  | AxInt a => if legacy0d && (n =? 0) && ((a =? 0) || (a =? -1))%Z then Some []
               else match norm_axis n a with Some k => Some [k] | None => None end
  | AxTuple l => norm_axes n l
  end.

Definition mask_of (n:nat) (ks:list nat) : list bool := map (fun i => existsb (Nat.eqb i) ks) (seq 0 n).

(* output shape *)
Fixpoint red_shape (m:list bool) (sh:shape) (keep:bool) : shape :=
  match m, sh with
  | true :: m', _ :: r => if keep then 1 :: red_shape m' r keep else red_shape m' r keep
  | false :: m', d :: r => d :: red_shape m' r keep
  | _, _ => []
  end.
(* the input positions reduced into output position j, in row-major order *)
Fixpoint fibre (m:list bool) (sh:shape) (keep:bool) (j:idx) : list idx :=
  match m, sh with
  | true :: m', d :: r =>
      let t := if keep then tl j else j in
      flat_map (fun k => map (cons k) (fibre m' r keep t)) (seq 0 d)
  | false :: m', _ :: r =>
      match j with k :: t => map (cons k) (fibre m' r keep t) | [] => [] end
  | _, _ => [[]]
  end.
(* the output position an input position is reduced into *)
Fixpoint proj (m:list bool) (keep:bool) (i:idx) : idx :=
  match m, i with
  | true :: m', _ :: t => if keep then 0 :: proj m' keep t else proj m' keep t
  | false :: m', k :: t => k :: proj m' keep t
  | _, _ => []
  end.
(* number of reduced elements per output element *)
Fixpoint fibre_size (m:list bool) (sh:shape) : nat :=
  match m, sh with
  | true :: m', d :: r => d * fibre_size m' r
  | false :: m', _ :: r => fibre_size m' r
  | _, _ => 1
  end.

(* np.expand_dims(a, axis) with axis a tuple (an int is a 1-tuple): out rank = rank a + len(axis) *)
Fixpoint exp_shape (m:list bool) (sh:shape) : shape :=
  match m with
  | [] => []
  | true :: m' => 1 :: exp_shape m' sh
  | false :: m' => match sh with d :: r => d :: exp_shape m' r | [] => [] end
  end.

Section Reduce.
Context {A:Type} `{Scalar A}.

Definition expand_dims (t:tensor A) (axes:list Z) : option (tensor A) :=
  let n := length axes + rank t in
  match norm_axes n axes with
  | Some ks => let m := mask_of n ks in Some (mkT (exp_shape m (tshape t)) (fun j => tat t (proj m false j)))
  | None => None
  end.

(* unsqueeze_forward(grad, axis) when `not keepdims and axis is not None` *)
Definition bw_expand (g:tensor A) (ax:axis_arg) (keep:bool) : option (tensor A) :=
  match ax with
  | AxNone => Some g
  | AxInt a => if keep then Some g else expand_dims g [a]
  | AxTuple l => if keep then Some g else expand_dims g l
  end.

(* the same with the guard of sum / max / min: a 0-d operand (rank n = 0) has no dim to put back *)
Definition bw_expand0 (n:nat) (g:tensor A) (ax:axis_arg) (keep:bool) : option (tensor A) :=
  if n =? 0 then Some g else bw_expand g ax keep.

(* ---------------- sum ---------------- *)
Definition sum_forward (a:tensor A) (ax:axis_arg) (keep:bool) : option (tensor A) :=
  match np_reduce_axes true (rank a) ax with
  | Some ks => let m := mask_of (rank a) ks in
               Some (mkT (red_shape m (tshape a) keep) (fun j => isum (fibre m (tshape a) keep j) (tat a)))
  | None => None
  end.
Definition sum_backward (g:tensor A) (sa:shape) (ax:axis_arg) (keep:bool) : option (tensor A) :=
  g' <- bw_expand0 (length sa) g ax keep ;; badd (zeros sa) g'.

(* ---------------- mean ---------------- *)
Context `{!ScalarDiv A}.
Definition mean_forward (a:tensor A) (ax:axis_arg) (keep:bool) : option (tensor A) :=
  match np_reduce_axes false (rank a) ax with
  | Some ks => let m := mask_of (rank a) ks in
               Some (mkT (red_shape m (tshape a) keep)
                         (fun j => sdivn (isum (fibre m (tshape a) keep j) (tat a)) (fibre_size m (tshape a))))
  | None => None
  end.
(* the code's own axis handling (cpu_ops.py:172-175) *)
Definition mean_code_axes (n:nat) (ax:axis_arg) : list Z :=
  let l := match ax with AxNone => map Z.of_nat (seq 0 n) | AxInt a => [a] | AxTuple l => l end in
  map (fun a => if (a <? 0)%Z then (Z.of_nat n + a)%Z else a) l.
Definition mean_n_samples (sa:shape) (ax:axis_arg) : nat :=
  let axs := mean_code_axes (length sa) ax in
  fold_right Nat.mul 1
    (map (fun i => nth i sa 0) (filter (fun i => existsb (Z.eqb (Z.of_nat i)) axs) (seq 0 (length sa)))).
Definition mean_backward (g:tensor A) (sa:shape) (ax:axis_arg) (keep:bool) : option (tensor A) :=
  g' <- bw_expand g ax keep ;; o <- badd (zeros sa) g' ;;
  Some (tmap (fun v => sdivn v (mean_n_samples sa ax)) o).

(* ---------------- max / min ---------------- *)
Context `{!ScalarOrd A}.
(* position of the first largest element (np.argmax tie rule); [le] is <= for max, >= for min *)
Fixpoint arg_first (le:A->A->bool) (best:nat) (bv:A) (pos:nat) (l:list A) : nat :=
  match l with
  | [] => best
  | v :: t => if le v bv then arg_first le best bv (S pos) t else arg_first le pos v (S pos) t
  end.
Definition argbest (le:A->A->bool) (l:list A) : nat :=
  match l with [] => 0 | v :: t => arg_first le 0 v 1 t end.
Definition best_of (le:A->A->bool) (l:list A) : A := nth (argbest le l) l s0.

Definition ext_forward (le:A->A->bool) (a:tensor A) (ax:axis_arg) (keep:bool) : option (tensor A) :=
  match np_reduce_axes true (rank a) ax with
  | Some ks => let m := mask_of (rank a) ks in
               if fibre_size m (tshape a) =? 0 then None   (* zero-size array to reduction operation ... *)
               else Some (mkT (red_shape m (tshape a) keep) (fun j => best_of le (map (tat a) (fibre m (tshape a) keep j))))
  | None => None
  end.

(* first_extremum_mask (cpu_ops.py): its own axis handling (None -> all, int -> [a], negative + ndim, nothing for a
   0-d array; no validation, the forward did it), the reduced axes moved last in ascending order and flattened,
   arg{max,min} along that axis (first occurrence), one-hot mask reshaped / transposed back.
   In index terms: position i is selected iff its rank among the positions that share its kept coordinates, in
   row-major order of the reduced coordinates, is the arg-best of that group. *)
Definition ext_code_mask (n:nat) (ax:axis_arg) : list bool :=
  let l := match ax with AxNone => map Z.of_nat (seq 0 n) | AxInt a => [a] | AxTuple l => l end in
  let axs := if n =? 0 then [] else map (fun a => if (a <? 0)%Z then (Z.of_nat n + a)%Z else a) l in
  map (fun i => existsb (Z.eqb (Z.of_nat i)) axs) (seq 0 n).
(* the positions sharing the kept coordinates of i, row-major over the reduced coordinates *)
Fixpoint colof (m:list bool) (sh:shape) (i:idx) : list idx :=
  match m, sh, i with
  | true :: m', d :: r, _ :: t => flat_map (fun k => map (cons k) (colof m' r t)) (seq 0 d)
  | false :: m', _ :: r, k :: t => map (cons k) (colof m' r t)
  | _, _, _ => [[]]
  end.
(* the rank of i in that list *)
Fixpoint fpos (m:list bool) (sh:shape) (i:idx) : nat :=
  match m, sh, i with
  | true :: m', _ :: r, k :: t => k * fibre_size m' r + fpos m' r t
  | false :: m', _ :: r, _ :: t => fpos m' r t
  | _, _, _ => 0
  end.
Definition ext_mask (le:A->A->bool) (a:tensor A) (ax:axis_arg) : option (idx -> bool) :=
  let m := ext_code_mask (rank a) ax in
  if fibre_size m (tshape a) =? 0 then None       (* arg{max,min} of an empty sequence *)
  else Some (fun i => fpos m (tshape a) i =? argbest le (map (tat a) (colof m (tshape a) i))).
(* grad * mask with broadcasting; multiplication by a 0/1 mask is a selection *)
Definition ext_backward (le:A->A->bool) (g a:tensor A) (ax:axis_arg) (keep:bool) : option (tensor A) :=
  mk <- ext_mask le a ax ;; g' <- bw_expand0 (rank a) g ax keep ;;
  so <- broadcast_shapes (tshape g') (tshape a) ;;
  Some (mkT so (fun j => if mk (bcast_idx (tshape a) so j) then tat g' (bcast_idx (tshape g') so j) else s0)).

Definition max_forward := ext_forward sleb.
Definition max_backward := ext_backward sleb.
Definition sgeb (x y:A) := sleb y x.
Definition min_forward := ext_forward sgeb.
Definition min_backward := ext_backward sgeb.
End Reduce.
