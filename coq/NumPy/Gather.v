(* gather / scatter over abstract finite index sets, and their adjointness (DESIGN 3.1).
   A linear op whose forward is a gather  y j = x (phi j)  (0 where phi j = None)  has exactly one
   correct backward:  scatter phi g i = sum over { j | phi j = Some i } of g j.                      *)
From Coq Require Import List Arith Lia Bool Permutation.
Import ListNotations.
From SG Require Import Base.Sums.

Section Gather.
Context {A:Type} `{ScalarLaws A}.

Variables (I J:Type) (eqbI:I->I->bool).
Hypothesis eqbI_spec : forall a b, eqbI a b = true <-> a = b.
Variables (li:list I) (lj:list J).
Hypothesis NDi : NoDup li.

Definition gather (phi:J->option I) (x:I->A) : J->A :=
  fun j => match phi j with Some i => x i | None => s0 end.
Definition scatter (phi:J->option I) (g:J->A) : I->A :=
  fun i => isum lj (fun j => match phi j with Some i' => if eqbI i' i then g j else s0 | None => s0 end).
Definition dot {K} (l:list K) (u v:K->A) := isum l (fun k => smul (u k) (v k)).

Theorem gather_scatter_adjoint phi x g :
  (forall j i, In j lj -> phi j = Some i -> In i li) ->
  dot lj g (gather phi x) = dot li (scatter phi g) x.
Proof.
  intros Hinto. unfold dot, scatter, gather.
  transitivity (isum li (fun i => isum lj (fun j =>
     smul (match phi j with Some i' => if eqbI i' i then g j else s0 | None => s0 end) (x i)))).
  2:{ apply isum_ext. intros i _. now rewrite isum_mul_r. }
  rewrite isum_exchange. apply isum_ext. intros j Hj.
  destruct (phi j) as [i'|] eqn:Ep.
  - transitivity (isum li (fun i => if eqbI i' i then smul (g j) (x i) else s0)).
    + symmetry. apply (isum_pick eqbI eqbI_spec li i' (fun i => smul (g j) (x i))); auto. eapply Hinto; eauto.
    + apply isum_ext. intros i _. destruct (eqbI i' i); auto. now rewrite smul_0_l.
  - rewrite smul_0_r. symmetry. transitivity (isum li (fun _ : I => s0)).
    apply isum_ext; intros; apply smul_0_l. apply isum_zero.
Qed.
End Gather.
