(* Engine model, part 3: gradient buffers and the reverse sweep of Tensor.backward
   (synapgrad/tensor.py, everything after the `while stack:` loop), and the op closures of
   synapgrad/functional.py as the engine sees them.

        if self._grad is None or not self.is_leaf:
            self.zero_()
        self._grad += grad.data
        for i, node in enumerate(reversed(ordered_nodes)):
            if node.grad_fn is not None:
                node.grad_fn()
            if node is not self and not node.is_leaf and not node._retain_grad and not retain_grads__:
                del node._grad
                node._grad = None

   and every wrapper's closure

        def backward():
            grad_output = out.grad                         # read once
            ... a_grad, b_grad = <local derivative applied to grad_output>
            if x1.requires_grad: x1._grad += a_grad
            if x2.requires_grad: x2._grad += b_grad

   Gradient values live in a type [V] with an addition; the local derivative of node [n] with respect to
   its child slot [k] is an element [w n k] of a type [W] acting on [V] (for one-element tensors V = W = a
   commutative ring and the action is multiplication; for tensors, V = arrays and W = the linear maps that
   C01/C02 are about).  The model is polymorphic in this structure ([galg]); it is run at Z (scalars) and
   at Z^2 with 2x2 integer matrices (tensors with up to two elements) by the correspondence checks.

   [None] as a buffer is `_grad is None`.  [None] as a result is "the code raises" (`None += array`,
   `None.device`, backward on a tensor that does not require grad).                                  *)
From Coq Require Import List Bool Arith Lia.
Import ListNotations.
From SG Require Import Engine.Graph Engine.Dfs.

Record galg := mkGalg {
  V : Type;                      (* gradient values                         *)
  W : Type;                      (* local derivatives (edge weights)        *)
  vzero : V;
  vadd : V -> V -> V;
  act : W -> V -> V              (* a_grad = act (w n k) grad_output        *)
}.

(* the laws the theorems need: V is a commutative monoid and every weight acts additively *)
Record galg_ok (A : galg) : Prop := mkGalgOk {
  vadd_comm  : forall a b : V A, vadd A a b = vadd A b a;
  vadd_assoc : forall a b c : V A, vadd A a (vadd A b c) = vadd A (vadd A a b) c;
  vadd_0_l   : forall a : V A, vadd A (vzero A) a = a;
  act_add    : forall (x : W A) (a b : V A), act A x (vadd A a b) = vadd A (act A x a) (act A x b);
  act_0      : forall x : W A, act A x (vzero A) = vzero A
}.

Definition is_some {X} (o : option X) : bool := match o with Some _ => true | None => false end.

(* child slots with their index: enumerate(children) *)
Definition indexed {X} (l : list X) : list (nat * X) := combine (seq 0 (length l)) l.

Section Sweep.
Variable A : galg.
Notation V := (V A).
Notation W := (W A).

Definition bufs := nat -> option V.            (* tensor -> _grad *)
Definition weights := nat -> nat -> W.         (* node -> child slot -> local derivative *)

Definition upd (b : bufs) (n : nat) (x : option V) : bufs :=
  fun m => if m =? n then x else b m.

(* Tensor.zero_ *)
Definition zero_buf (b : bufs) (n : nat) : bufs := upd b n (Some (vzero A)).

(* `if x.requires_grad: x._grad += act (w n k) grad_output` for the operand in slot k *)
Definition slot_update (g : arena) (w : weights) (n : nat) (go : V) (st : option bufs) (kc : nat * nat)
  : option bufs :=
  match st with
  | None => None
  | Some b =>
      let c := snd kc in
      if req (getn g c) then
        match b c with
        | None => None                                                   (* None += array *)
        | Some x => Some (upd b c (Some (vadd A x (act A (w n (fst kc)) go))))
        end
      else Some b
  end.

(* node.grad_fn() *)
Definition closure (g : arena) (w : weights) (n : nat) (b : bufs) : option bufs :=
  match b n with
  | None => None                                                         (* out.grad is None *)
  | Some go => fold_left (slot_update g w n go) (indexed (children (getn g n))) (Some b)
  end.

(* the release condition of the sweep loop *)
Definition releases (g : arena) (mode : bool) (root n : nat) : bool :=
  negb (n =? root) && negb (is_leaf (getn g n)) && negb (retain (getn g n)) && negb mode.

(* one iteration of `for node in reversed(ordered_nodes)`; the log records the closure invocations,
   most recent first *)
Definition sweep_step (g : arena) (w : weights) (mode : bool) (root : nat)
  (st : option (bufs * list nat)) (n : nat) : option (bufs * list nat) :=
  match st with
  | None => None
  | Some (b, log) =>
      let r := if has_fn (getn g n)
               then match closure g w n b with None => None | Some b' => Some (b', n :: log) end
               else Some (b, log) in
      match r with
      | None => None
      | Some (b', log') => Some (if releases g mode root n then upd b' n None else b', log')
      end
  end.

Definition sweep (g : arena) (w : weights) (mode : bool) (root : nat) (l : list nat) (b : bufs)
  : option (bufs * list nat) :=
  fold_left (sweep_step g w mode root) l (Some (b, [])).

(* `if self._grad is None or not self.is_leaf: self.zero_()` ; `self._grad += grad.data` *)
Definition seed_root (g : arena) (root : nat) (seed : V) (b : bufs) : option bufs :=
  let b1 := if negb (is_some (b root)) || negb (is_leaf (getn g root)) then zero_buf b root else b in
  match b1 root with
  | None => None
  | Some x => Some (upd b1 root (Some (vadd A x seed)))
  end.

(* everything after the ordering loop, for a given ordered_nodes [ord] and list of zero_() calls [z] *)
Definition run_sweep (g : arena) (w : weights) (mode : bool) (root : nat) (seed : V)
  (ord z : list nat) (b : bufs) : option (bufs * list nat) :=
  match seed_root g root seed (fold_left zero_buf z b) with
  | None => None
  | Some b2 =>
      match sweep g w mode root (rev ord) b2 with
      | None => None
      | Some (b3, log) => Some (b3, rev log)
      end
  end.

(* tensors of the arena that have a buffer *)
Definition present_of (g : arena) (b : bufs) : list nat :=
  filter (fun v => is_some (b v)) (seq 0 (length g)).

(* Tensor.backward(seed) on tensor [root]; [mode] is retain_grads__.  Result: buffers afterwards and the
   sequence of closure invocations (in call order). *)
Definition backward (g : arena) (w : weights) (mode : bool) (root : nat) (seed : V) (b : bufs)
  : option (bufs * list nat) :=
  if negb (req (getn g root)) then None             (* RuntimeError: backward on requires_grad=False *)
  else
    match dfs g root (present_of g b) (dfs_fuel g) with
    | None => None
    | Some (ord, z, _) => run_sweep g w mode root seed ord z b
    end.

(* A call that fails and is caught by the caller.  `r.backward(g)` with a gradient of the wrong shape raises AFTER the
   ordering loop (the shape check follows it), i.e. after the loop's zero_() calls; a root that does not require grad is
   refused before anything happens.  The caller continues with these buffers. *)
Definition backward_fails (g : arena) (root : nat) (b : bufs) : bufs :=
  if negb (req (getn g root)) then b
  else
    match dfs g root (present_of g b) (dfs_fuel g) with
    | None => b
    | Some (_, z, _) => fold_left zero_buf z b
    end.

(* ------------------------------------------------------------------------------------------------ *)
(* Specification side: the sum over all paths, as naively as possible (explicit path enumeration).   *)

(* A path is the list of edges (node, child slot) taken from the root downwards.  An edge (n,k) can be
   taken iff n has a backward function and the child in slot k requires grad. *)
Inductive is_path (g : arena) : nat -> nat -> list (nat * nat) -> Prop :=
| path_nil n : is_path g n n []
| path_cons n k c v p :
    has_fn (getn g n) = true ->
    nth_error (children (getn g n)) k = Some c ->
    req (getn g c) = true ->
    is_path g c v p ->
    is_path g n v ((n, k) :: p).

(* all paths from n to v; [fuel] bounds the length (S n suffices in a well-formed arena: paths_spec) *)
Fixpoint paths (g : arena) (fuel : nat) (n v : nat) : list (list (nat * nat)) :=
  (if n =? v then [[]] else []) ++
  match fuel with
  | O => []
  | S f =>
      if has_fn (getn g n) then
        flat_map (fun kc => if req (getn g (snd kc))
                            then map (cons (n, fst kc)) (paths g f (snd kc) v)
                            else [])
                 (indexed (children (getn g n)))
      else []
  end.

Definition all_paths (g : arena) (r v : nat) : list (list (nat * nat)) := paths g (S r) r v.

(* push a gradient value down a path *)
Fixpoint apply_path (w : weights) (p : list (nat * nat)) (s : V) : V :=
  match p with
  | [] => s
  | (n, k) :: p' => apply_path w p' (act A (w n k) s)
  end.

Definition vsum (l : list V) : V := fold_right (vadd A) (vzero A) l.

(* "the sum over all paths" *)
Definition pathval (g : arena) (w : weights) (r v : nat) (s : V) : V :=
  vsum (map (fun p => apply_path w p s) (all_paths g r v)).

(* decidable reachability through `_children` *)
Fixpoint reachb_f (g : arena) (fuel : nat) (r v : nat) : bool :=
  (r =? v) ||
  match fuel with
  | O => false
  | S f => existsb (fun c => reachb_f g f c v) (children (getn g r))
  end.
Definition reachb (g : arena) (r v : nat) : bool := reachb_f g (S r) r v.

(* what a leaf keeps from before the call; non-leaf buffers are restarted from zero *)
Definition leaf_part (g : arena) (b : bufs) (v : nat) : V :=
  if is_leaf (getn g v) then match b v with Some x => x | None => vzero A end else vzero A.

(* the buffers after root.backward(seed), in closed form *)
Definition expected (g : arena) (w : weights) (mode : bool) (root : nat) (seed : V) (b : bufs) : bufs :=
  fun v =>
    if reachb g root v && req (getn g v) then
      if releases g mode root v then None
      else Some (vadd A (leaf_part g b v) (pathval g w root v seed))
    else b v.

(* the same in closed form *)
Definition fails_expected (g : arena) (root : nat) (b : bufs) : bufs :=
  fun v =>
    if req (getn g root) && reachb g root v && negb (v =? root) && req (getn g v) &&
       (negb (is_some (b v)) || negb (is_leaf (getn g v)))
    then Some (vzero A) else b v.

End Sweep.

Arguments upd {A} _ _ _ _.
Arguments zero_buf {A} _ _ _.

(* the tensors a result keeps alive through `_children` (C17) *)
Definition retained (g : arena) (n : nat) : list nat := filter (reachb g n) (seq 0 (S n)).

(* what Engine/Dfs.v's loop is proved to do (Proofs/DfsProofs.v); the sweep theorems take it as a hypothesis
   and Proofs/EngineCompose.v discharges it *)
Definition dfs_spec : Prop :=
  forall g root present0, wf g -> root < length g ->
    exists ord z p, dfs g root present0 (dfs_fuel g) = Some (ord, z, p) /\
      is_postorder g root ord /\
      (forall c, In c z <-> (c <> root /\ reachable g root c /\ req (getn g c) = true /\
                             (mem c present0 = false \/ is_leaf (getn g c) = false))).

(* ------------------------------------------------------------------------------------------------ *)
(* Instances *)
From Coq Require Import ZArith.

(* one-element tensors: integers, the action is multiplication *)
Definition ZAlg : galg := mkGalg Z Z 0%Z Z.add Z.mul.

(* tensors with at most two elements: V = Z^2 (a scalar x is (x,0)), W = 2x2 integer matrices
   ((a,b),(c,d)) acting by matrix-vector product *)
Definition Z2Alg : galg :=
  mkGalg (Z * Z) ((Z * Z) * (Z * Z)) (0%Z, 0%Z)
    (fun a b => (fst a + fst b, snd a + snd b)%Z)
    (fun m x => (fst (fst m) * fst x + snd (fst m) * snd x, fst (snd m) * fst x + snd (snd m) * snd x)%Z).

(* scalar spec: weight of a path and the path sum *)
Definition path_weight (w : nat -> nat -> Z) (p : list (nat * nat)) : Z :=
  fold_right (fun e acc => (w (fst e) (snd e) * acc)%Z) 1%Z p.
Definition pathsum (g : arena) (w : nat -> nat -> Z) (r v : nat) : Z :=
  fold_right Z.add 0%Z (map (path_weight w) (all_paths g r v)).
