(* Engine model, part 1: the recorded computation graph (synapgrad/tensor.py: Tensor._children,
   _requires_grad, _grad_fn, _retain_grad) as an arena.

   Tensors are numbered in creation order.  A result is created after its operands, hence every child
   index is smaller than the node's own index ([wf]); this is the only structural assumption (it is what
   makes the graph a DAG).  Node [n]'s [children] is the tuple `_children` in order, with repetitions
   (x*x has children [x; x]); since the fix "results that do not require grad do not keep their operands
   alive" it is [] whenever the node does not require grad.

   Shared by Engine/Dfs.v (traversal), Engine/Sweep.v (reverse sweep) and Engine/History.v.            *)
From Coq Require Import List Bool Arith Lia.
Import ListNotations.

Record node := mkNode {
  children : list nat;    (* operand tensors, by arena index, in order                    *)
  req      : bool;        (* requires_grad                                                 *)
  has_fn   : bool;        (* grad_fn is not None (the op's backward closure is attached)   *)
  retain   : bool         (* _retain_grad                                                  *)
}.

Definition arena := list node.

Definition dummy_node : node := mkNode [] false false false.
Definition getn (g : arena) (n : nat) : node := nth n g dummy_node.

Definition is_leaf (nd : node) : bool := negb (req nd) || negb (has_fn nd).   (* tensor.py:225-226 *)

(* operands are created before results *)
Definition wf (g : arena) : Prop :=
  forall n, n < length g -> Forall (fun c => c < n) (children (getn g n)).

Fixpoint wfb_from (n : nat) (g : list node) : bool :=
  match g with
  | [] => true
  | nd :: t => forallb (fun c => c <? n) (children nd) && wfb_from (S n) t
  end.
Definition wfb (g : arena) : bool := wfb_from 0 g.

(* what every op wrapper guarantees about the node it creates (proved about the generated wrapper
   summaries in Props/C03.v / C07.v): a node has a backward function iff it requires grad and is an op
   result, and then it has its operands as children. *)
Definition node_ok (nd : node) : Prop :=
  (has_fn nd = true -> req nd = true) /\ (req nd = false -> children nd = []).

Inductive reachable (g : arena) : nat -> nat -> Prop :=
| reach_refl n : reachable g n n
| reach_step n c m : In c (children (getn g n)) -> reachable g c m -> reachable g n m.

Definition before (a b : nat) (l : list nat) : Prop :=
  exists l1 l2 l3, l = l1 ++ a :: l2 ++ b :: l3.

(* [ord] is the list `ordered_nodes` of tensor.py as appended (children first, root last). *)
Definition is_postorder (g : arena) (r : nat) (ord : list nat) : Prop :=
  NoDup ord /\
  (exists pre, ord = pre ++ [r]) /\
  (forall n, In n ord <-> reachable g r n) /\
  (forall n c, In n ord -> In c (children (getn g n)) -> before c n ord).
