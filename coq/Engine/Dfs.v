(* Engine model, part 2: the graph ordering loop of Tensor.backward (synapgrad/tensor.py, the
   `while stack:` loop).  Line-by-line transcription:

        ordered_nodes = []
        visited_nodes = {self}
        stack = [(self, iter(self._children))]
        while stack:
            node, children = stack[-1]
            child = next(children, None)
            if child is None:
                stack.pop(); ordered_nodes.append(node); continue
            if child.requires_grad and (child._grad is None or not child.is_leaf):
                child.zero_()
            if child not in visited_nodes:
                visited_nodes.add(child)
                stack.append((child, iter(child._children)))

   The Python set is used only through `in` and `add` (checked by the source census of C19), so it is
   modelled by a list with membership.  [present] is the set of tensors whose gradient buffer exists
   (`_grad is not None`); [zlog] records the zero_() calls, most recent first.                       *)
From Coq Require Import List Bool Arith Lia.
Import ListNotations.
From SG Require Import Engine.Graph.

Definition mem (x : nat) (l : list nat) : bool := existsb (Nat.eqb x) l.

Record dstate := mkD {
  stack   : list (nat * list nat);   (* top first; (node, children not yet taken from its iterator) *)
  vis     : list nat;                (* visited_nodes                                               *)
  rord    : list nat;                (* ordered_nodes, most recently appended first                 *)
  present : list nat;                (* tensors with a gradient buffer                              *)
  zlog    : list nat                 (* zero_() calls, most recent first                            *)
}.

(* does the loop call child.zero_() ? *)
Definition zeroes (g : arena) (present : list nat) (c : nat) : bool :=
  let nd := getn g c in
  req nd && (negb (mem c present) || negb (is_leaf nd)).

(* one iteration of the while loop; None = the loop condition is false *)
Definition dstep (g : arena) (s : dstate) : option dstate :=
  match stack s with
  | [] => None
  | (n, []) :: rest =>
      Some (mkD rest (vis s) (n :: rord s) (present s) (zlog s))
  | (n, c :: cs) :: rest =>
      let z := zeroes g (present s) c in
      let present' := if z && negb (mem c (present s)) then c :: present s else present s in
      let zlog' := if z then c :: zlog s else zlog s in
      if mem c (vis s)
      then Some (mkD ((n, cs) :: rest) (vis s) (rord s) present' zlog')
      else Some (mkD ((c, children (getn g c)) :: (n, cs) :: rest) (c :: vis s) (rord s) present' zlog')
  end.

(* run the loop; None = out of fuel (excluded by the theorems: enough fuel always exists) *)
Fixpoint drun (g : arena) (fuel : nat) (s : dstate) : option dstate :=
  match dstep g s with
  | None => Some s
  | Some s' => match fuel with O => None | S f => drun g f s' end
  end.

Definition dinit (g : arena) (root : nat) (present0 : list nat) : dstate :=
  mkD [(root, children (getn g root))] [root] [] present0 [].

(* ordered_nodes (in append order), the zero_ calls (in call order), the buffers present afterwards *)
Definition dfs (g : arena) (root : nat) (present0 : list nat) (fuel : nat)
  : option (list nat * list nat * list nat) :=
  match drun g fuel (dinit g root present0) with
  | None => None
  | Some s => Some (rev (rord s), rev (zlog s), present s)
  end.

(* a fuel that always suffices: every iteration either consumes one child entry or pops one frame *)
Definition dfs_fuel (g : arena) : nat :=
  S (fold_right (fun nd acc => S (length (children nd)) + acc) 0 g).

(* ---- the recursive reference (the pre-fix `visit_node`), used as the specification of the order ---- *)
Fixpoint visit (g : arena) (fuel : nat) (n : nat) (st : list nat * list nat) : list nat * list nat :=
  let '(vs, ro) := st in
  if mem n vs then st else
  match fuel with
  | O => st
  | S f =>
      let '(vs', ro') := fold_left (fun acc c => visit g f c acc) (children (getn g n)) (n :: vs, ro) in
      (vs', n :: ro')
  end.

Definition dfs_rec (g : arena) (root : nat) : list nat :=
  rev (snd (visit g (S (length g)) root ([], []))).
