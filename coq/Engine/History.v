(* Engine model, part 4: histories.  The state that persists between calls is the recorded graph (tensors
   are never removed from the arena; the model keeps every tensor ever created), the local derivatives
   captured by the closures, the per-tensor gradient buffers `_grad`, the `_retain_grad` flags and the
   global `retain_grads__`.

   Events (what a user program does between and around backward calls):
     Build nd wn     a new tensor: a leaf created by the user or the result of an op wrapper
                     ([op_node] below is what the wrappers of functional.py produce); wn k = local
                     derivative for child slot k, fixed at construction
     Backward r s    r.backward(s)                           (Engine/Sweep.v)
     BackwardFails r r.backward(g) with g of the wrong shape (or r not requiring grad), the exception caught by the
                     caller: the ordering loop's zero_() calls have happened, nothing else (Sweep.backward_fails)
     ZeroTensor v    v.zero_()            tensor.py: self.grad = Tensor(np.zeros_like(self.data))
     ZeroModule ps   Module.zero_grad()   nn/modules.py:  for p in parameters(): if p.requires_grad: p.zero_()
     ZeroOptim ps    Optimizer.zero_grad() optim/optimizers.py: for p in self.parameters: p.zero_()
     RetainGrad v    v.retain_grad()      raises unless v.requires_grad
     SetRetainMode m retain_grads__ := m  (the effect of entering/leaving a `retain_grads` block; the
                                           bracket discipline itself is State/Contexts.v, C07)
   [None] = the code raises.                                                                         *)
From Coq Require Import List Bool Arith Lia.
Import ListNotations.
From SG Require Import Engine.Graph Engine.Dfs Engine.Sweep.

(* what every op wrapper builds (functional.py: `req_grad = any(inp.requires_grad ...)`,
   Tensor.__init__: `req_grad = requires_grad and gradient__`, `_children = children if req_grad else ()`,
   `if out.requires_grad: out.grad_fn = ...`); [gm] is gradient__ *)
Definition op_node (g : arena) (gm : bool) (cs : list nat) : node :=
  let r := existsb (fun c => req (getn g c)) cs && gm in
  mkNode (if r then cs else []) r r false.

(* a tensor created by the user: Tensor(data, requires_grad=r) *)
Definition leaf_node (gm : bool) (r : bool) : node := mkNode [] (r && gm) false false.

Fixpoint set_retain (g : arena) (v : nat) : arena :=
  match g, v with
  | [], _ => []
  | nd :: t, O => mkNode (children nd) (req nd) (has_fn nd) true :: t
  | nd :: t, S v' => nd :: set_retain t v'
  end.

Section History.
Variable A : galg.
Notation V := (V A).
Notation W := (W A).

Record hstate := mkH {
  h_g : arena;
  h_w : weights A;
  h_b : bufs A;
  h_mode : bool            (* retain_grads__ *)
}.

Inductive event :=
| Build (nd : node) (wn : nat -> W)
| Backward (root : nat) (seed : V)
| BackwardFails (root : nat)
| ZeroTensor (v : nat)
| ZeroModule (ps : list nat)
| ZeroOptim (ps : list nat)
| RetainGrad (v : nat)
| SetRetainMode (m : bool).

(* the part of an event that changes the graph *)
Definition evolve_g (g : arena) (e : event) : arena :=
  match e with
  | Build nd _ => g ++ [nd]
  | RetainGrad v => if req (getn g v) then set_retain g v else g
  | _ => g
  end.

Definition evolve_w (g : arena) (w : weights A) (e : event) : weights A :=
  match e with
  | Build _ wn => let len := length g in fun n k => if n =? len then wn k else w n k
  | _ => w
  end.

Definition in_range (g : arena) (ps : list nat) : bool := forallb (fun v => v <? length g) ps.

Definition step (s : hstate) (e : event) : option hstate :=
  let g := h_g s in
  let g' := evolve_g g e in
  let w' := evolve_w g (h_w s) e in
  match e with
  | Build _ _ => Some (mkH g' w' (h_b s) (h_mode s))
  | Backward r seed =>
      match backward A g (h_w s) (h_mode s) r seed (h_b s) with
      | None => None
      | Some (b', _) => Some (mkH g' w' b' (h_mode s))
      end
  | BackwardFails r => Some (mkH g' w' (backward_fails A g r (h_b s)) (h_mode s))
  | ZeroTensor v =>
      if v <? length g then Some (mkH g' w' (zero_buf (h_b s) v) (h_mode s)) else None
  | ZeroModule ps =>
      if in_range g ps
      then Some (mkH g' w' (fold_left (fun b v => if req (getn g v) then zero_buf b v else b) ps (h_b s)) (h_mode s))
      else None
  | ZeroOptim ps =>
      if in_range g ps then Some (mkH g' w' (fold_left zero_buf ps (h_b s)) (h_mode s)) else None
  | RetainGrad v =>
      if (v <? length g) && req (getn g v) then Some (mkH g' w' (h_b s) (h_mode s)) else None
  | SetRetainMode m => Some (mkH g' w' (h_b s) m)
  end.

Fixpoint run (s : hstate) (h : list event) : option hstate :=
  match h with
  | [] => Some s
  | e :: h' => match step s e with None => None | Some s' => run s' h' end
  end.

Definition empty (w0 : W) : hstate := mkH [] (fun _ _ => w0) (fun _ => None) false.

(* observation for the correspondence: after every event, every tensor's buffer; for a Backward also the
   sequence of closure invocations.  None = the code raised (the trace stops there). *)
Definition observe (s : hstate) : list (option V) := map (h_b s) (seq 0 (length (h_g s))).

Definition call_log (s : hstate) (e : event) : list nat :=
  match e with
  | Backward r seed =>
      match backward A (h_g s) (h_w s) (h_mode s) r seed (h_b s) with Some (_, log) => log | None => [] end
  | _ => []
  end.

Fixpoint trace (s : hstate) (h : list event) : list (option (list (option V) * list nat)) :=
  match h with
  | [] => []
  | e :: h' =>
      match step s e with
      | None => [None]
      | Some s' => Some (observe s', call_log s e) :: trace s' h'
      end
  end.

(* ------------------------------------------------------------------------------------------------ *)
(* Specification: what one tensor's .grad should be after a history, told without the engine.
   [a] is the tensor's accumulated gradient (None = absent).  A reset makes it zero; a backward call
   whose root reaches the tensor adds the path sum of that call; nothing else touches it.             *)
Definition oget (a : option V) : V := match a with Some x => x | None => vzero A end.

Definition touches (g : arena) (r v : nat) : bool :=
  req (getn g r) && reachb g r v && negb (v =? r) && req (getn g v).

Definition acc_step (g : arena) (w : weights A) (e : event) (v : nat) (a : option V) : option V :=
  match e with
  | Backward r seed =>
      if reachb g r v && req (getn g v) then Some (vadd A (oget a) (pathval A g w r v seed)) else a
  | BackwardFails r =>
      (* a failed call never changes a value: at most it creates the (zero) buffer of a leaf below the root *)
      if touches g r v then Some (oget a) else a
  | ZeroTensor u => if u =? v then Some (vzero A) else a
  | ZeroModule ps => if mem v ps && req (getn g v) then Some (vzero A) else a
  | ZeroOptim ps => if mem v ps then Some (vzero A) else a
  | _ => a
  end.

Fixpoint leaf_spec (g : arena) (w : weights A) (h : list event) (v : nat) (a : option V) : option V :=
  match h with
  | [] => a
  | e :: h' => leaf_spec (evolve_g g e) (evolve_w g w e) h' v (acc_step g w e v a)
  end.

(* the same thing as an explicit sum, for a stretch of history that does not reset v *)
Definition resets (g : arena) (e : event) (v : nat) : bool :=
  match e with
  | ZeroTensor u => u =? v
  | ZeroModule ps => mem v ps && req (getn g v)
  | ZeroOptim ps => mem v ps
  | _ => false
  end.

Fixpoint no_reset (g : arena) (h : list event) (v : nat) : bool :=
  match h with
  | [] => true
  | e :: h' => negb (resets g e v) && no_reset (evolve_g g e) h' v
  end.

(* the contributions of the backward calls that reach v, in order *)
Fixpoint contribs (g : arena) (w : weights A) (h : list event) (v : nat) : list V :=
  match h with
  | [] => []
  | e :: h' =>
      match e with
      | Backward r seed => if reachb g r v && req (getn g v) then [pathval A g w r v seed] else []
      | _ => []
      end ++ contribs (evolve_g g e) (evolve_w g w e) h' v
  end.

(* did a failed call create v's buffer ? *)
Fixpoint touched (g : arena) (h : list event) (v : nat) : bool :=
  match h with
  | [] => false
  | e :: h' =>
      match e with
      | BackwardFails r => touches g r v
      | _ => false
      end || touched (evolve_g g e) h' v
  end.

(* did any backward call reach v ? *)
Fixpoint reached (g : arena) (h : list event) (v : nat) : bool :=
  match h with
  | [] => false
  | e :: h' =>
      match e with
      | Backward r _ => reachb g r v && req (getn g v)
      | _ => false
      end || reached (evolve_g g e) h' v
  end.

(* histories whose Build events respect construction order and the wrapper contract *)
Fixpoint builds_ok (len : nat) (h : list event) : Prop :=
  match h with
  | [] => True
  | Build nd _ :: h' => Forall (fun c => c < len) (children nd) /\ node_ok nd /\ builds_ok (S len) h'
  | _ :: h' => builds_ok len h'
  end.

End History.

Arguments Build {A} _ _.
Arguments Backward {A} _ _.
Arguments BackwardFails {A} _.
Arguments ZeroTensor {A} _.
Arguments ZeroModule {A} _.
Arguments ZeroOptim {A} _.
Arguments RetainGrad {A} _.
Arguments SetRetainMode {A} _.
