(* sum / mean: forward = scatter along the projection onto the kept axes, backward = gather along it,
   for dim None | int | tuple (any sign, any order) and both keepdims; the count used by mean.       *)
From Coq Require Import List Arith ZArith Lia Bool Permutation.
Import ListNotations.
From SG Require Import Base.Sums Base.ScalarExt Base.Cmp NumPy.Index NumPy.Tensor NumPy.Gather NumPy.TensorFn NumPy.Broadcast NumPy.Reduce
  Proofs.IdxSums Proofs.BcastProofs Proofs.ArithProofs.

(* ---------- axes normalisation ---------- *)
Lemma norm_axis_lt n a k : norm_axis n a = Some k -> k < n.
Proof.
  unfold norm_axis. destruct ((0 <=? a)%Z && (a <? Z.of_nat n)%Z) eqn:E1.
  - intros [= <-]. apply andb_true_iff in E1 as [E1 E2]. lia.
  - destruct ((a <? 0)%Z && (- Z.of_nat n <=? a)%Z) eqn:E2; [|discriminate].
    intros [= <-]. apply andb_true_iff in E2 as [E2 E3]. lia.
Qed.
Lemma norm_axis_code n a k : norm_axis n a = Some k ->
  (if (a <? 0)%Z then (Z.of_nat n + a)%Z else a) = Z.of_nat k.
Proof.
  unfold norm_axis. destruct ((0 <=? a)%Z && (a <? Z.of_nat n)%Z) eqn:E1.
  - intros [= <-]. apply andb_true_iff in E1 as [E1 E2]. destruct (a <? 0)%Z eqn:E; lia.
  - destruct ((a <? 0)%Z && (- Z.of_nat n <=? a)%Z) eqn:E2; [|discriminate].
    intros [= <-]. apply andb_true_iff in E2 as [E2 E3]. rewrite E2. lia.
Qed.
Lemma all_some_spec {X} : forall (l:list (option X)) r, all_some l = Some r -> l = map Some r.
Proof.
  induction l as [|[x|] l IH]; intros r E; simpl in E; try discriminate.
  - inversion E. reflexivity.
  - destruct (all_some l) eqn:El; [|discriminate]. inversion E; subst. simpl. f_equal. now apply IH.
Qed.
Lemma all_some_map {X Y} (f:X->option Y) : forall l r, all_some (map f l) = Some r ->
  length r = length l /\ forall k, In k r -> exists a, In a l /\ f a = Some k.
Proof.
  induction l as [|a l IH]; intros r E; simpl in E.
  - inversion E. split; auto. intros k [].
  - destruct (f a) as [y|] eqn:Ea; [|discriminate]. destruct (all_some (map f l)) as [r'|] eqn:El; [|discriminate].
    inversion E; subst. destruct (IH r' eq_refl) as [Hl Hin]. split. simpl. now rewrite Hl.
    intros k [<-|Hk]. exists a. split; auto. left; auto.
    destruct (Hin k Hk) as (a' & Ha' & Ea'). exists a'. split; auto. right; auto.
Qed.
Lemma nodupb_NoDup : forall l, nodupb l = true -> NoDup l.
Proof.
  induction l as [|a l IH]; simpl; intros E. constructor.
  apply andb_true_iff in E as [E1 E2]. constructor; auto.
  intro Hin. apply negb_true_iff in E1. assert (existsb (Nat.eqb a) l = true).
  { apply existsb_exists. exists a. split; auto. apply Nat.eqb_refl. }
  congruence.
Qed.
Lemma norm_axes_spec n l ks : norm_axes n l = Some ks ->
  NoDup ks /\ (forall k, In k ks -> k < n) /\ length ks = length l /\ map (norm_axis n) l = map Some ks.
Proof.
  unfold norm_axes. destruct (all_some (map (norm_axis n) l)) as [r|] eqn:E; [|discriminate].
  destruct (nodupb r) eqn:En; [|discriminate]. intros [= <-].
  destruct (all_some_map _ _ _ E) as [Hl Hin]. repeat split.
  - now apply nodupb_NoDup.
  - intros k Hk. destruct (Hin k Hk) as (a & _ & Ea). eapply norm_axis_lt; eauto.
  - exact Hl.
  - now apply all_some_spec.
Qed.

(* ---------- masks ---------- *)
Definition cnt (m:list bool) : nat := length (filter (fun b => b) m).
Lemma cnt_map {X} (f:X->bool) l : cnt (map f l) = length (filter f l).
Proof. unfold cnt. induction l as [|a l IH]; simpl; auto. destruct (f a); simpl; auto. Qed.
Lemma mask_of_length n ks : length (mask_of n ks) = n.
Proof. unfold mask_of. now rewrite map_length, seq_length. Qed.
Lemma cnt_mask_of n ks : NoDup ks -> (forall k, In k ks -> k < n) -> cnt (mask_of n ks) = length ks.
Proof.
  intros ND Hlt. unfold mask_of. rewrite cnt_map. apply Permutation_length. apply NoDup_Permutation; auto.
  - apply NoDup_filter. apply seq_NoDup.
  - intros i. rewrite filter_In, in_seq, existsb_exists. split.
    + intros (_ & x & Hx & E). apply Nat.eqb_eq in E. now subst.
    + intros Hi. split. specialize (Hlt i Hi). lia. exists i. split; auto. apply Nat.eqb_refl.
Qed.

Lemma red_shape_keep_length : forall m sh, length m = length sh -> length (red_shape m sh true) = length sh.
Proof. induction m as [|[|] m IH]; intros [|d r] E; simpl in *; try discriminate; auto. Qed.
Lemma red_shape_nokeep_length : forall m sh, length m = length sh -> length (red_shape m sh false) + cnt m = length sh.
Proof.
  unfold cnt. induction m as [|[|] m IH]; intros [|d r] E; simpl in *; try discriminate; auto.
  all: try (injection E as E; specialize (IH r E); lia).
Qed.
Lemma exp_red_shape : forall m sh, length m = length sh -> exp_shape m (red_shape m sh false) = red_shape m sh true.
Proof. induction m as [|[|] m IH]; intros [|d r] E; simpl in *; try discriminate; auto; injection E as E; f_equal; auto. Qed.
Lemma red_shape_keep_compat : forall m sh, length m = length sh -> bcompat (red_shape m sh true) sh = true.
Proof.
  induction m as [|[|] m IH]; intros [|d r] E; simpl in *; try discriminate; auto; injection E as E; rewrite IH by auto.
  - rewrite orb_true_r. reflexivity.
  - rewrite Nat.eqb_refl. reflexivity.
Qed.
Lemma red_shape_keep_broadcastable m sh : length m = length sh -> broadcastable (red_shape m sh true) sh = true.
Proof.
  intros E. unfold broadcastable. rewrite red_shape_keep_length by auto. rewrite Nat.leb_refl, Nat.sub_diag. simpl.
  now apply red_shape_keep_compat.
Qed.

(* ---------- the projection ---------- *)
Lemma proj_in : forall m sh keep i, length m = length sh -> In i (idxs sh) -> In (proj m keep i) (idxs (red_shape m sh keep)).
Proof.
  induction m as [|[|] m IH]; intros [|d r] keep i E Hi; simpl in E; try discriminate.
  - simpl. auto.
  - destruct i as [|k t]. { apply in_idxs_length in Hi. discriminate. }
    apply in_idxs_cons in Hi as [Hk Ht]. injection E as E. simpl. destruct keep.
    + apply in_idxs_cons. split. lia. now apply IH.
    + now apply IH.
  - destruct i as [|k t]. { apply in_idxs_length in Hi. discriminate. }
    apply in_idxs_cons in Hi as [Hk Ht]. injection E as E. simpl. apply in_idxs_cons. split; auto.
Qed.
Lemma bm_al_red_keep : forall m sh i, length m = length sh -> In i (idxs sh) -> bm_al (red_shape m sh true) i = proj m true i.
Proof.
  induction m as [|[|] m IH]; intros [|d r] i E Hi; simpl in E; try discriminate.
  - apply in_idxs_nil in Hi. now subst.
  - destruct i as [|k t]. { apply in_idxs_length in Hi. discriminate. }
    apply in_idxs_cons in Hi as [Hk Ht]. injection E as E. simpl. f_equal. now apply IH.
  - destruct i as [|k t]. { apply in_idxs_length in Hi. discriminate. }
    apply in_idxs_cons in Hi as [Hk Ht]. injection E as E. simpl. rewrite IH by auto.
    destruct (d =? 1) eqn:E1; auto. apply Nat.eqb_eq in E1. f_equal. lia.
Qed.
Lemma proj_false_true : forall m i, length m = length i -> proj m false (proj m true i) = proj m false i.
Proof. induction m as [|[|] m IH]; intros [|k t] E; simpl in *; try discriminate; auto; injection E as E; try f_equal; auto. Qed.
Lemma proj_true_length : forall m i, length m = length i -> length (proj m true i) = length i.
Proof. induction m as [|[|] m IH]; intros [|k t] E; simpl in *; try discriminate; auto. Qed.

Section P.
Context {A:Type} `{ScalarLaws A}.

(* ---------- R1: a sum over the fibre = the scatter along the projection ---------- *)
Lemma fibre_sum_is_scatter : forall m sh keep j (F:idx->A), length m = length sh -> In j (idxs (red_shape m sh keep)) ->
  isum (fibre m sh keep j) F = isum (idxs sh) (fun i => if idx_eqb (proj m keep i) j then F i else s0).
Proof.
  induction m as [|[|] m IH]; intros [|d r] keep j F E Hj; simpl in E; try discriminate.
  - simpl in Hj. destruct Hj as [<-|[]]. simpl. reflexivity.
  - injection E as E. cbn [fibre]. rewrite isum_flat_map, isum_idxs_cons. apply isum_ext. intros k _.
    rewrite isum_map. cbn [red_shape] in Hj. destruct keep.
    + destruct j as [|j0 t]. { apply in_idxs_length in Hj. discriminate. }
      apply in_idxs_cons in Hj as [Hj0 Ht]. assert (j0 = 0) by lia. subst j0. cbn [tl].
      rewrite (IH r true t) by auto. apply isum_ext. intros i' _. cbn [proj]. rewrite idx_eqb_cons. reflexivity.
    + rewrite (IH r false j) by auto. reflexivity.
  - injection E as E. cbn [red_shape] in Hj. destruct j as [|k t]. { apply in_idxs_length in Hj. discriminate. }
    apply in_idxs_cons in Hj as [Hk Ht]. cbn [fibre]. rewrite isum_map, isum_idxs_cons.
    rewrite (IH r keep t) by auto.
    transitivity (isum (seq 0 d) (fun k' => if k' =? k
        then isum (idxs r) (fun i' => if idx_eqb (proj m keep i') t then F (k' :: i') else s0) else s0)).
    { symmetry. exact (isum_seq_pick d k (fun k' => isum (idxs r) (fun i' => if idx_eqb (proj m keep i') t then F (k' :: i') else s0)) Hk). }
    apply isum_ext. intros k' _. destruct (k' =? k) eqn:Ek.
    + apply isum_ext. intros i' _. cbn [proj]. rewrite idx_eqb_cons, Ek. reflexivity.
    + symmetry. transitivity (isum (idxs r) (fun _ : idx => @s0 A _)). 2: apply isum_zero.
      apply isum_ext. intros i' _. cbn [proj]. rewrite idx_eqb_cons, Ek. reflexivity.
Qed.

(* regrouping a sum over all positions by fibres *)
Lemma isum_by_fibres m sh keep (F:idx->A) : length m = length sh ->
  isum (idxs sh) F = isum (idxs (red_shape m sh keep)) (fun j => isum (fibre m sh keep j) F).
Proof.
  intros E. transitivity (isum (idxs (red_shape m sh keep)) (fun j => isum (idxs sh) (fun i => if idx_eqb (proj m keep i) j then F i else s0))).
  2:{ apply isum_ext. intros j Hj. symmetry. now apply fibre_sum_is_scatter. }
  rewrite isum_exchange. apply isum_ext. intros i Hi. symmetry.
  exact (isum_pick idx_eqb idx_eqb_spec (idxs (red_shape m sh keep)) (proj m keep i) (fun _ => F i) (nodup_idxs _) (proj_in m sh keep i E Hi)).
Qed.

(* ---------- R2: the backward kernels gather along the projection ---------- *)
Definition strict_axes (n:nat) (ax:axis_arg) : option (list nat) := np_reduce_axes false n ax.

Lemma mask_of_all n : mask_of n (seq 0 n) = repeat true n.
Proof.
  unfold mask_of. assert (G: forall l, (forall i, In i l -> In i (seq 0 n)) -> map (fun i => existsb (Nat.eqb i) (seq 0 n)) l = repeat true (length l)).
  { induction l as [|a l IH]; intros Hl; simpl. reflexivity. rewrite IH by (intros; apply Hl; right; auto). f_equal.
    apply existsb_exists. exists a. split. apply Hl. left; auto. apply Nat.eqb_refl. }
  rewrite G by auto. now rewrite seq_length.
Qed.
Lemma red_shape_all_false : forall sh, red_shape (repeat true (length sh)) sh false = [].
Proof. induction sh; simpl; auto. Qed.
Lemma proj_all_false : forall i, proj (repeat true (length i)) false i = [].
Proof. induction i; simpl; auto. Qed.

(* the upstream gradient as seen after unsqueeze_forward: shape red_shape m sa true, value g (proj m false j) *)
Lemma bw_expand_spec (g:tensor A) sa ax keep ks :
  strict_axes (length sa) ax = Some ks ->
  tshape g = red_shape (mask_of (length sa) ks) sa keep ->
  exists g', bw_expand g ax keep = Some g' /\
    ((keep = false /\ ax <> AxNone /\ tshape g' = red_shape (mask_of (length sa) ks) sa true /\
        forall j, tat g' j = tat g (proj (mask_of (length sa) ks) false j))
     \/ ((keep = true \/ ax = AxNone) /\ g' = g)).
Proof.
  intros Hax Hg. set (n := length sa) in *. set (m := mask_of n ks) in *.
  assert (Hm: length m = length sa) by apply mask_of_length.
  destruct keep.
  { exists g. split. destruct ax; reflexivity. right. auto. }
  destruct ax as [|a|l].
  - exists g. split. reflexivity. right. auto.
  - (* int *)
    unfold strict_axes, np_reduce_axes in Hax. cbn [andb] in Hax.
    destruct (norm_axis n a) as [k|] eqn:Ea; [|discriminate]. injection Hax as <-.
    assert (Hk: k < n) by (eapply norm_axis_lt; eauto).
    assert (Hc: cnt m = 1). { unfold m. rewrite cnt_mask_of. reflexivity. repeat constructor; auto. intros x [<-|[]]; auto. }
    assert (Hr: length [a] + rank g = n).
    { unfold rank. rewrite Hg. pose proof (red_shape_nokeep_length m sa Hm). simpl. lia. }
    cbn [bw_expand]. unfold expand_dims. rewrite Hr. unfold norm_axes. cbn [map all_some]. rewrite Ea. cbn [nodupb existsb negb andb].
    eexists. split. reflexivity. left. repeat split; try discriminate.
    cbn [tshape]. rewrite Hg. now apply exp_red_shape.
  - (* tuple *)
    unfold strict_axes, np_reduce_axes in Hax.
    destruct (norm_axes_spec _ _ _ Hax) as (ND & Hlt & Hlen & _).
    assert (Hc: cnt m = length ks) by (apply cnt_mask_of; auto).
    assert (Hr: length l + rank g = n).
    { unfold rank. rewrite Hg. pose proof (red_shape_nokeep_length m sa Hm). lia. }
    cbn [bw_expand]. unfold expand_dims. rewrite Hr, Hax.
    eexists. split. reflexivity. left. repeat split; try discriminate.
    cbn [tshape]. rewrite Hg. now apply exp_red_shape.
Qed.

Lemma strict_axes_lt n ax ks : strict_axes n ax = Some ks -> forall k, In k ks -> k < n.
Proof.
  destruct ax as [|a|l]; unfold strict_axes, np_reduce_axes; cbn [andb].
  - intros [= <-] k Hk. apply in_seq in Hk. lia.
  - destruct (norm_axis n a) eqn:E; [|discriminate]. intros [= <-] k [<-|[]]. eapply norm_axis_lt; eauto.
  - intros E. now destruct (norm_axes_spec _ _ _ E) as (_ & Hlt & _).
Qed.

(* what the three forms of the (possibly expanded) upstream gradient have in common *)
Definition expanded_ok (g g':tensor A) sa ax keep ks : Prop :=
  (keep = false /\ ax <> AxNone /\ tshape g' = red_shape (mask_of (length sa) ks) sa true /\
     forall j, tat g' j = tat g (proj (mask_of (length sa) ks) false j))
  \/ ((keep = true \/ ax = AxNone) /\ g' = g)
  \/ (sa = [] /\ g' = g).

Lemma expanded_gather (g g':tensor A) sa ax keep ks :
  np_reduce_axes true (length sa) ax = Some ks ->
  tshape g = red_shape (mask_of (length sa) ks) sa keep ->
  expanded_ok g g' sa ax keep ks ->
  exists r, badd (zeros sa) g' = Some r /\ tshape r = sa /\
    forall i, In i (idxs sa) -> tat r i = tat g (proj (mask_of (length sa) ks) keep i).
Proof.
  intros Hax Hg Hcase. unfold expanded_ok in Hcase. set (m := mask_of (length sa) ks) in *.
  assert (Hm: length m = length sa) by apply mask_of_length.
  destruct Hcase as [(Hk & Hn & Hs & Ha)|[(Hk & ->)|(Hsa & ->)]].
  - subst keep. unfold badd, bop. cbn [zeros tshape tat].
    rewrite Hs. rewrite (broadcast_shapes_absorb_r _ sa (red_shape_keep_broadcastable m sa Hm)).
    eexists. split. reflexivity. split. reflexivity. intros i Hi. cbn [tat]. rewrite sadd_0_l, Ha.
    unfold bcast_idx. rewrite red_shape_keep_length by auto. rewrite Nat.sub_diag. cbn [skipn].
    rewrite bm_al_red_keep by auto. apply f_equal. apply proj_false_true.
    rewrite Hm. symmetry. now apply in_idxs_length.
  - unfold badd, bop. cbn [zeros tshape tat]. rewrite Hg.
    destruct Hk as [->| ->].
    + rewrite (broadcast_shapes_absorb_r _ sa (red_shape_keep_broadcastable m sa Hm)).
      eexists. split. reflexivity. split. reflexivity. intros i Hi. cbn [tat]. rewrite sadd_0_l.
      unfold bcast_idx. rewrite red_shape_keep_length by auto. rewrite Nat.sub_diag. cbn [skipn].
      rewrite bm_al_red_keep by auto. reflexivity.
    + (* None *)
      cbn [np_reduce_axes] in Hax. injection Hax as <-. unfold m in *. rewrite mask_of_all in *.
      destruct keep.
      * rewrite (broadcast_shapes_absorb_r _ sa (red_shape_keep_broadcastable _ sa Hm)).
        eexists. split. reflexivity. split. reflexivity. intros i Hi. cbn [tat]. rewrite sadd_0_l.
        unfold bcast_idx. rewrite red_shape_keep_length by auto. rewrite Nat.sub_diag. cbn [skipn].
        rewrite bm_al_red_keep by auto. reflexivity.
      * rewrite red_shape_all_false. rewrite (broadcast_shapes_absorb_r _ sa (broadcastable_nil sa)).
        eexists. split. reflexivity. split. reflexivity. intros i Hi. cbn [tat]. rewrite sadd_0_l.
        unfold bcast_idx. cbn [bm_al]. apply in_idxs_length in Hi. rewrite <- Hi. now rewrite proj_all_false.
  - (* 0-d operand *)
    subst sa. unfold badd, bop. cbn [zeros tshape tat]. rewrite Hg. unfold m. cbn [length mask_of seq map red_shape].
    eexists. split. reflexivity. split. reflexivity. intros i Hi. apply in_idxs_nil in Hi. subst i.
    cbn [tat]. rewrite sadd_0_l. reflexivity.
Qed.

Lemma legacy_is_strict n ax : n <> 0 -> np_reduce_axes true n ax = strict_axes n ax.
Proof.
  intros Hn. destruct ax as [|a|l]; unfold strict_axes; cbn [np_reduce_axes]; auto.
  replace (n =? 0) with false by (symmetry; now apply Nat.eqb_neq). reflexivity.
Qed.
Lemma reduce_axes_legacy n ax ks : strict_axes n ax = Some ks -> np_reduce_axes true n ax = Some ks.
Proof.
  destruct ax as [|a|l]; unfold strict_axes, np_reduce_axes; auto. cbn [andb].
  destruct (norm_axis n a) as [k|] eqn:E; [|discriminate]. intros [= <-].
  destruct ((n =? 0) && ((a =? 0)%Z || (a =? -1)%Z)) eqn:E0; auto.
  apply andb_true_iff in E0 as [E0 _]. apply Nat.eqb_eq in E0. subst. apply norm_axis_lt in E. lia.
Qed.

(* the guarded expansion used by sum / max / min, for every axis argument their forward accepts (incl. int axes on 0-d) *)
Lemma bw_expand0_spec (g:tensor A) sa ax keep ks :
  np_reduce_axes true (length sa) ax = Some ks ->
  tshape g = red_shape (mask_of (length sa) ks) sa keep ->
  exists g', bw_expand0 (length sa) g ax keep = Some g' /\ expanded_ok g g' sa ax keep ks.
Proof.
  intros Hax Hg. unfold bw_expand0. destruct (length sa =? 0) eqn:E0.
  - apply Nat.eqb_eq in E0. exists g. split. reflexivity. right. right. split; auto. now apply length_zero_iff_nil.
  - apply Nat.eqb_neq in E0. rewrite (legacy_is_strict _ _ E0) in Hax.
    destruct (bw_expand_spec g sa ax keep ks Hax Hg) as (g' & Eg & Hc). exists g'. split. exact Eg.
    destruct Hc as [Hc|Hc]; [left|right; left]; exact Hc.
Qed.

Theorem sum_backward_is_gather (g:tensor A) sa ax keep ks :
  np_reduce_axes true (length sa) ax = Some ks ->
  tshape g = red_shape (mask_of (length sa) ks) sa keep ->
  exists r, sum_backward g sa ax keep = Some r /\ tshape r = sa /\
    forall i, In i (idxs sa) -> tat r i = tat g (proj (mask_of (length sa) ks) keep i).
Proof.
  intros Hax Hg. destruct (bw_expand0_spec g sa ax keep ks Hax Hg) as (g' & Eg & Hc).
  unfold sum_backward. rewrite Eg. cbn [obind]. now apply (expanded_gather g g' sa ax keep ks).
Qed.

(* ---------- R3: sum ---------- *)
(* <g, sum a> = <r, a> for any r that is the gather of g along the projection *)
Lemma sum_dot_core (a g:tensor A) m keep (r:idx->A) : length m = length (tshape a) ->
  (forall i, In i (idxs (tshape a)) -> r i = tat g (proj m keep i)) ->
  dot (idxs (red_shape m (tshape a) keep)) (tat g) (fun j => isum (fibre m (tshape a) keep j) (tat a)) =
  dot (idxs (tshape a)) r (tat a).
Proof.
  intros Hm Har. set (sa := tshape a) in *. unfold dot.
  transitivity (isum (idxs (red_shape m sa keep)) (fun j => isum (fibre m sa keep j) (fun i => smul (tat g (proj m keep i)) (tat a i)))).
  - apply isum_ext. intros j Hj. rewrite <- isum_mul_l.
    rewrite !(fibre_sum_is_scatter m sa keep j) by auto. apply isum_ext. intros i _.
    destruct (idx_eqb (proj m keep i) j) eqn:E. apply idx_eqb_spec in E. now subst. reflexivity.
  - rewrite <- (isum_by_fibres m sa keep) by auto. apply isum_ext. intros i Hi. now rewrite Har.
Qed.

Theorem sum_vjp_proof (a g:tensor A) ax keep ks :
  np_reduce_axes true (rank a) ax = Some ks ->
  tshape g = red_shape (mask_of (rank a) ks) (tshape a) keep ->
  exists o r, sum_forward a ax keep = Some o /\ tshape o = tshape g /\
    sum_backward g (tshape a) ax keep = Some r /\ tshape r = tshape a /\
    dot (idxs (tshape o)) (tat g) (tat o) = dot (idxs (tshape a)) (tat r) (tat a).
Proof.
  intros Hax Hg. unfold rank in *.
  destruct (sum_backward_is_gather g (tshape a) ax keep ks Hax Hg) as (r & Er & Hr & Har).
  unfold sum_forward. unfold rank. rewrite Hax.
  eexists. exists r. split. reflexivity. split. { cbn [tshape]. now rewrite Hg. } split. exact Er. split. exact Hr.
  cbn [tshape tat]. apply sum_dot_core; auto. apply mask_of_length.
Qed.

(* ---------- R4: mean ---------- *)
Context `{!ScalarDiv A} `{!ScalarDivLaws A}.

Lemma isum_sdivn {I} (l:list I) (f:I->A) n : isum l (fun i => sdivn (f i) n) = sdivn (isum l f) n.
Proof.
  unfold isum. induction l as [|x l IH]; simpl. symmetry. apply sdivn_0. now rewrite IH, sdivn_add.
Qed.

Lemma existsb_of_nat i ks : existsb (Z.eqb (Z.of_nat i)) (map Z.of_nat ks) = existsb (Nat.eqb i) ks.
Proof.
  induction ks as [|k ks IH]; simpl; auto. rewrite IH. f_equal.
  destruct (Nat.eqb i k) eqn:E. apply Nat.eqb_eq in E. subst. apply Z.eqb_refl.
  apply Nat.eqb_neq in E. apply Z.eqb_neq. lia.
Qed.
Lemma mean_code_axes_spec n ax ks : strict_axes n ax = Some ks -> mean_code_axes n ax = map Z.of_nat ks.
Proof.
  unfold mean_code_axes. destruct ax as [|a|l]; unfold strict_axes, np_reduce_axes; cbn [andb].
  - intros [= <-]. rewrite map_map. apply map_ext. intros i. destruct (Z.of_nat i <? 0)%Z eqn:E; auto. lia.
  - destruct (norm_axis n a) as [k|] eqn:E; [|discriminate]. intros [= <-]. simpl. f_equal. eapply norm_axis_code; eauto.
  - intros E. destruct (norm_axes_spec _ _ _ E) as (_ & _ & _ & Hmap). clear E.
    revert ks Hmap. induction l as [|a l IH]; intros [|k ks] Hmap; simpl in Hmap; try discriminate. reflexivity.
    injection Hmap as Ea Hmap. simpl. f_equal. eapply norm_axis_code; eauto. auto.
Qed.
Lemma fibre_size_filter (f:nat->bool) : forall sa off,
  fold_right Nat.mul 1 (map (fun i => nth (i - off) sa 0) (filter f (seq off (length sa)))) =
  fibre_size (map f (seq off (length sa))) sa.
Proof.
  induction sa as [|d r IH]; intros off. reflexivity.
  assert (G: fold_right Nat.mul 1 (map (fun i => nth (i - off) (d :: r) 0) (filter f (seq (S off) (length r)))) =
             fibre_size (map f (seq (S off) (length r))) r).
  { rewrite <- IH. f_equal. apply map_ext_in. intros i Hi. apply filter_In in Hi as [Hi _]. apply in_seq in Hi.
    replace (i - off) with (S (i - S off)) by lia. reflexivity. }
  cbn [length seq filter map]. destruct (f off); cbn [map fold_right fibre_size]; rewrite G, ?Nat.sub_diag; reflexivity.
Qed.
Lemma mean_n_samples_spec sa ax ks : strict_axes (length sa) ax = Some ks ->
  mean_n_samples sa ax = fibre_size (mask_of (length sa) ks) sa.
Proof.
  intros Hax. unfold mean_n_samples. rewrite (mean_code_axes_spec _ _ _ Hax).
  unfold mask_of. rewrite <- (fibre_size_filter (fun i => existsb (Nat.eqb i) ks) sa 0).
  f_equal. rewrite (filter_ext _ (fun i => existsb (Nat.eqb i) ks)) by (intros; apply existsb_of_nat).
  apply map_ext. intros i. now rewrite Nat.sub_0_r.
Qed.

Theorem mean_vjp_proof (a g:tensor A) ax keep ks :
  strict_axes (rank a) ax = Some ks ->
  tshape g = red_shape (mask_of (rank a) ks) (tshape a) keep ->
  exists o r, mean_forward a ax keep = Some o /\ tshape o = tshape g /\
    mean_backward g (tshape a) ax keep = Some r /\ tshape r = tshape a /\
    dot (idxs (tshape o)) (tat g) (tat o) = dot (idxs (tshape a)) (tat r) (tat a).
Proof.
  intros Hax Hg. unfold rank in *.
  destruct (bw_expand_spec g (tshape a) ax keep ks Hax Hg) as (g' & Eg & Hc).
  destruct (expanded_gather g g' (tshape a) ax keep ks (reduce_axes_legacy _ _ _ Hax) Hg) as (r & Eb & Hr & Har).
  { destruct Hc as [Hc|Hc]; [left|right; left]; exact Hc. }
  unfold mean_forward, mean_backward. unfold rank. unfold strict_axes in Hax. rewrite Hax, Eg. cbn [obind]. rewrite Eb. cbn [obind].
  eexists. eexists. split. reflexivity. split. { cbn [tshape]. now rewrite Hg. } split. reflexivity. split. exact Hr.
  cbn [tshape tat tmap]. rewrite (mean_n_samples_spec _ _ _ Hax).
  set (m := mask_of (length (tshape a)) ks) in *. set (c := fibre_size _ _).
  pose proof (sum_dot_core a g m keep (tat r) (mask_of_length _ _) Har) as Hdot. unfold dot in *.
  transitivity (sdivn (isum (idxs (red_shape m (tshape a) keep))
      (fun k => smul (tat g k) (isum (fibre m (tshape a) keep k) (tat a)))) c).
  { rewrite <- isum_sdivn. apply isum_ext. intros k _. apply sdivn_mul_r. }
  rewrite Hdot. rewrite <- isum_sdivn. apply isum_ext. intros k _. symmetry. apply sdivn_mul_l.
Qed.

Theorem mean_is_sum_div_count_proof (a:tensor A) ax keep ks :
  strict_axes (rank a) ax = Some ks ->
  exists o s, mean_forward a ax keep = Some o /\ sum_forward a ax keep = Some s /\ tshape o = tshape s /\
    forall j, tat o j = sdivn (tat s j) (fold_right Nat.mul 1 (map (fun k => nth k (tshape a) 0) (filter (fun i => existsb (Nat.eqb i) ks) (seq 0 (rank a))))).
Proof.
  intros Hax. unfold mean_forward, sum_forward. rewrite (reduce_axes_legacy _ _ _ Hax). unfold strict_axes in Hax. rewrite Hax.
  eexists. eexists. split. reflexivity. split. reflexivity. split. reflexivity.
  intros j. cbn [tat]. f_equal. unfold rank, mask_of.
  rewrite <- (fibre_size_filter (fun i => existsb (Nat.eqb i) ks) (tshape a) 0).
  f_equal. apply map_ext. intros i. now rewrite Nat.sub_0_r.
Qed.
End P.
