(* Proofs about State/Trainer.v (property C20), part 2: history dictionary, loss averaging, Evaluator. *)
From Coq Require Import List Bool Arith ZArith QArith Lqa Lia String.
Import ListNotations.
From SG Require Import State.Trainer.
Open Scope Q_scope.

Notation llen := List.length.

(* ------------------------------------------------------------------ association lists *)
Fixpoint assoc (k : string) (r : list (string * Q)) : option Q :=
  match r with
  | [] => None
  | (k', v) :: t => if String.eqb k k' then Some v else assoc k t
  end.

(* the list stored under a key after one more value *)
Definition ext (o : option (list Q)) (v : Q) : list Q :=
  match o with Some (x :: l) => (x :: l) ++ [v] | _ => [v] end.

Lemma lookup_record_one k v h k' :
  lookup k' (record_one k v h) = if String.eqb k' k then Some (ext (lookup k h) v) else lookup k' h.
Proof.
  induction h as [|[k1 l] t IH]; cbn [record_one lookup].
  - destruct (String.eqb_spec k' k); reflexivity.
  - destruct (String.eqb_spec k k1) as [E|NE].
    + subst k1. cbn [lookup]. destruct (String.eqb_spec k' k) as [E'|NE'].
      * destruct l; reflexivity.
      * reflexivity.
    + cbn [lookup]. rewrite IH. destruct (String.eqb_spec k' k1) as [E1|NE1].
      * subst k'. destruct (String.eqb_spec k1 k); [congruence|reflexivity].
      * reflexivity.
Qed.

Lemma keys_record_one_in k v h : In k (map fst h) -> map fst (record_one k v h) = map fst h.
Proof.
  induction h as [|[k1 l] t IH]; intro H; [destruct H|]. cbn [record_one].
  destruct (String.eqb_spec k k1) as [E|NE]; [reflexivity|].
  cbn [map fst]. f_equal. apply IH. destruct H as [H|H]; [cbn in H; congruence|exact H].
Qed.

Lemma keys_record_one_new k v h : ~ In k (map fst h) -> map fst (record_one k v h) = map fst h ++ [k].
Proof.
  induction h as [|[k1 l] t IH]; intro H; [reflexivity|]. cbn [record_one].
  destruct (String.eqb_spec k k1) as [E|NE]; [exfalso; apply H; left; cbn; congruence|].
  cbn [map fst app]. f_equal. apply IH. intro X. apply H. right. exact X.
Qed.

Lemma record_metrics_cons h kv r : record_metrics h (kv :: r) = record_metrics (record_one (fst kv) (snd kv) h) r.
Proof. reflexivity. Qed.

Lemma record_metrics_app h a b : record_metrics h (a ++ b) = record_metrics (record_metrics h a) b.
Proof. unfold record_metrics. apply fold_left_app. Qed.

Lemma assoc_none k r : ~ In k (map fst r) -> assoc k r = None.
Proof.
  induction r as [|[k1 v] t IH]; intro H; [reflexivity|]. cbn [assoc].
  destruct (String.eqb_spec k k1) as [E|NE]; [exfalso; apply H; left; cbn; congruence|].
  apply IH. intro X. apply H. right. exact X.
Qed.

Lemma assoc_in k r : In k (map fst r) -> exists v, assoc k r = Some v.
Proof.
  induction r as [|[k1 v] t IH]; intro H; [destruct H|]. cbn [assoc].
  destruct (String.eqb_spec k k1) as [E|NE]; [eexists; reflexivity|].
  apply IH. destruct H as [H|H]; [cbn in H; congruence|exact H].
Qed.

Lemma assoc_app k a b : assoc k (a ++ b) = match assoc k a with Some v => Some v | None => assoc k b end.
Proof.
  induction a as [|[k1 v] t IH]; [reflexivity|]. cbn [app assoc].
  destruct (String.eqb k k1); [reflexivity|exact IH].
Qed.

Lemma lookup_record_metrics r : forall h k, NoDup (map fst r) ->
  lookup k (record_metrics h r) =
  match assoc k r with Some v => Some (ext (lookup k h) v) | None => lookup k h end.
Proof.
  induction r as [|[k1 v1] r IH]; intros h k Hnd; [reflexivity|].
  rewrite record_metrics_cons. cbn [fst snd map] in *. inversion Hnd as [|? ? Hni Hnd']; subst.
  rewrite IH by exact Hnd'. cbn [assoc]. rewrite lookup_record_one.
  destruct (String.eqb_spec k k1) as [E|NE].
  - subst k1. rewrite (assoc_none k r Hni). reflexivity.
  - reflexivity.
Qed.

Lemma keys_record_metrics_new r : forall h, NoDup (map fst h ++ map fst r) ->
  map fst (record_metrics h r) = map fst h ++ map fst r.
Proof.
  induction r as [|[k1 v1] r IH]; intros h Hnd; [cbn; rewrite app_nil_r; reflexivity|].
  rewrite record_metrics_cons. cbn [fst snd map] in *.
  assert (Hni : ~ In k1 (map fst h)).
  { apply NoDup_remove_2 in Hnd. intro X. apply Hnd. apply in_or_app. left. exact X. }
  rewrite IH; rewrite (keys_record_one_new _ _ _ Hni), <- app_assoc; [reflexivity|exact Hnd].
Qed.

Lemma keys_record_metrics_old r : forall h, (forall k, In k (map fst r) -> In k (map fst h)) ->
  map fst (record_metrics h r) = map fst h.
Proof.
  induction r as [|[k1 v1] r IH]; intros h H; [reflexivity|].
  rewrite record_metrics_cons. cbn [fst snd map] in *.
  assert (E : map fst (record_one k1 v1 h) = map fst h) by (apply keys_record_one_in, H; left; reflexivity).
  rewrite IH; [exact E|]. intros k Hk. rewrite E. apply H. right. exact Hk.
Qed.

(* ------------------------------------------------------------------ the table: one row of metrics per epoch *)
Section Table.
  Variable row : nat -> list (string * Q).
  Variable keys : list string.
  Hypothesis Hkeys : forall e, map fst (row e) = keys.
  Hypothesis Hnd : NoDup keys.

  Definition hist_upto (n : nat) : hist := fold_left (fun h e => record_metrics h (row e)) (seq 0 n) [].

  Lemma hist_upto_S n : hist_upto (S n) = record_metrics (hist_upto n) (row n).
  Proof. unfold hist_upto. rewrite seq_S, fold_left_app. reflexivity. Qed.

  Definition column_ok (k : string) (n : nat) (o : option (list Q)) : Prop :=
    match n with
    | O => o = None
    | S _ => exists l, o = Some l /\ llen l = n /\ forall e v, nth_error l e = Some v -> assoc k (row e) = Some v
    end.

  Lemma table n :
    map fst (hist_upto n) = (match n with O => [] | S _ => keys end) /\
    forall k, In k keys -> column_ok k n (lookup k (hist_upto n)).
  Proof.
    induction n as [|n [IHk IHc]]; [split; [reflexivity|intros; reflexivity]|].
    rewrite hist_upto_S. split.
    - destruct n as [|n].
      + rewrite keys_record_metrics_new; cbn [hist_upto fold_left seq map app]; rewrite Hkeys; [reflexivity|exact Hnd].
      + rewrite keys_record_metrics_old; [exact IHk|]. intros k Hk. rewrite IHk, <- (Hkeys (S n)). exact Hk.
    - intros k Hk. rewrite lookup_record_metrics by (rewrite Hkeys; exact Hnd).
      destruct (assoc_in k (row n)) as [v Hv]; [rewrite Hkeys; exact Hk|]. rewrite Hv.
      specialize (IHc k Hk). destruct n as [|n]; cbn [column_ok] in *.
      + rewrite IHc. cbn [ext]. exists [v]. split; [reflexivity|]. split; [reflexivity|].
        intros e v' H. destruct e as [|e]; cbn in H; [inversion H; subst; exact Hv|destruct e; discriminate].
      + destruct IHc as (l & Hl & Hlen & Hcol). rewrite Hl.
        destruct l as [|x l]; [cbn in Hlen; discriminate|]. cbn [ext].
        exists ((x :: l) ++ [v]). split; [reflexivity|]. split; [rewrite app_length, Hlen; cbn; lia|].
        intros e v' H. destruct (Nat.lt_ge_cases e (llen (x :: l))) as [Hlt|Hge].
        * rewrite nth_error_app1 in H by exact Hlt. apply Hcol. exact H.
        * rewrite nth_error_app2 in H by exact Hge. rewrite Hlen in *.
          destruct (e - S n)%nat as [|j] eqn:Ej; cbn in H; [|destruct j; discriminate].
          inversion H; subst v'. assert (e = S n) by lia. subst e. exact Hv.
  Qed.
End Table.

(* ------------------------------------------------------------------ Evaluator *)
Lemma eval_steps_concat E bs : forall st,
  fold_left (eval_step E) bs st =
  (fst st ++ List.concat (map (batch_true (emode_of E)) bs), snd st ++ List.concat (map (batch_pred (emode_of E)) bs)).
Proof.
  induction bs as [|b bs IH]; intro st; cbn [fold_left map List.concat].
  - rewrite !app_nil_r. destruct st; reflexivity.
  - rewrite IH. unfold eval_step. cbn [fst snd]. rewrite <- !app_assoc. reflexivity.
Qed.

Lemma eval_epoch_resets E p bs : snd (eval_epoch E p ([], []) bs) = ([], []).
Proof. destruct E; reflexivity. Qed.

(* positions at which the two label lists agree *)
Definition agree (yt yp : list Z) (i : nat) : bool :=
  match nth_error yt i, nth_error yp i with Some a, Some b => Z.eqb a b | _, _ => false end.

Lemma filter_false {A} (p : A -> bool) l : (forall x, p x = false) -> filter p l = [].
Proof. intro H. induction l; cbn; auto. rewrite H. auto. Qed.

Lemma filter_map_S (p : nat -> bool) l : llen (filter p (map S l)) = llen (filter (fun i => p (S i)) l).
Proof. induction l as [|x l IH]; cbn; auto. destruct (p (S x)); cbn; auto. Qed.

Lemma count_eq_positions yt : forall yp,
  count_eq yt yp = llen (filter (agree yt yp) (seq 0 (llen yt))).
Proof.
  induction yt as [|a t1 IH]; intros [|b t2]; cbn [count_eq]; try reflexivity.
  - rewrite filter_false; [reflexivity|]. intro i. unfold agree. destruct (nth_error (a :: t1) i); destruct i; reflexivity.
  - cbn [List.length seq filter]. rewrite <- seq_shift.
    assert (E : llen (filter (agree (a :: t1) (b :: t2)) (map S (seq 0 (llen t1)))) = llen (filter (agree t1 t2) (seq 0 (llen t1)))).
    { rewrite filter_map_S. f_equal. }
    unfold agree at 1. cbn [nth_error]. destruct (Z.eqb a b); cbn [List.length]; rewrite E, IH; reflexivity.
Qed.

(* np.argmax: a maximal element, and the first one *)
Lemma argmax_spec l : l <> [] ->
  (argmax l < llen l)%nat /\
  (forall j, (j < llen l)%nat -> nth j l 0 <= nth (argmax l) l 0) /\
  (forall j, (j < argmax l)%nat -> nth j l 0 < nth (argmax l) l 0).
Proof.
  induction l as [|x t IH]; intro H; [congruence|]. clear H.
  destruct t as [|y t'].
  - cbn. split; [lia|]. split; [intros j Hj; assert (j = 0)%nat by lia; subst; cbn; lra|intros; lia].
  - assert (Hne : y :: t' <> []) by discriminate. specialize (IH Hne).
    set (t := y :: t') in *. destruct IH as (Hlt & Hmax & Hfirst).
    change (argmax (x :: t)) with (let j := argmax t in if Qle_bool (nth j t 0) x then 0%nat else S j). cbn zeta.
    destruct (Qle_bool (nth (argmax t) t 0) x) eqn:E.
    + apply Qle_bool_iff in E. split; [cbn; lia|]. split; [|intros; lia].
      intros j Hj. destruct j as [|j]; cbn [nth]; [lra|]. cbn [List.length] in Hj.
      specialize (Hmax j ltac:(lia)). lra.
    + assert (E' : x < nth (argmax t) t 0).
      { destruct (Qlt_le_dec x (nth (argmax t) t 0)) as [L|L]; [exact L|]. apply Qle_bool_iff in L. congruence. }
      split; [cbn [List.length]; lia|]. split.
      * intros j Hj. destruct j as [|j]; cbn [nth]; [lra|]. cbn [List.length] in Hj. apply Hmax. lia.
      * intros j Hj. destruct j as [|j]; cbn [nth]; [exact E'|]. apply Hfirst. lia.
Qed.

Lemma decode_binary o rest : decode_pred Binary (o :: rest) = 1%Z <-> 1 # 2 < o.
Proof.
  cbn. destruct (Qle_bool o (1 # 2)) eqn:E.
  - apply Qle_bool_iff in E. split; [discriminate|lra].
  - split; [|reflexivity]. intros _. destruct (Qlt_le_dec (1 # 2) o) as [L|L]; [exact L|]. apply Qle_bool_iff in L. congruence.
Qed.

Lemma decode_binary_01 row : decode_pred Binary row = 0%Z \/ decode_pred Binary row = 1%Z.
Proof. destruct row as [|o r]; cbn; [auto|]. destruct (Qle_bool o (1 # 2)); auto. Qed.

(* ------------------------------------------------------------------ loss averaging *)
Lemma fold_plus l : forall a, fold_left Qplus l a == a + fold_right Qplus 0 l.
Proof.
  induction l as [|x l IH]; intro a; cbn [fold_left fold_right]; [ring|]. rewrite IH. ring.
Qed.

Lemma qnat_pos n : (1 <= n)%nat -> 0 < qnat n.
Proof. intro H. unfold qnat. change 0 with (inject_Z 0). rewrite <- Zlt_Qlt. lia. Qed.

Lemma epoch_loss_mean losses n : (1 <= n)%nat ->
  epoch_loss losses (n - 1) == fold_right Qplus 0 losses / qnat n.
Proof.
  intro H. unfold epoch_loss. replace (n - 1 + 1)%nat with n by lia.
  rewrite fold_plus. pose proof (qnat_pos n H). field. lra.
Qed.

(* ------------------------------------------------------------------ fit_history as a table *)
Section History.
  Variables (E : option evaluator) (d : run_data) (n : nat) (v : option nat).

  Definition tm_row (e : nat) : list (string * Q) := fst (train_metrics E d n e ([], [])).
  Definition vm_row (e : nat) : list (string * Q) :=
    match v with None => [] | Some nv => fst (val_metrics E d nv e ([], [])) end.
  Definition hrow (e : nat) : list (string * Q) := tm_row e ++ vm_row e.

  Lemma tm_row_eq e :
    tm_row e = ("loss"%string, epoch_loss (map (tloss d e) (seq 0 n)) (n - 1))
               :: fst (eval_epoch E None ([], []) (map (tbatch d e) (seq 0 n))).
  Proof. unfold tm_row, train_metrics. destruct (eval_epoch E None ([], []) (map (tbatch d e) (seq 0 n))). reflexivity. Qed.

  Lemma vm_row_eq e nv : v = Some nv ->
    vm_row e = ("val_loss"%string, epoch_loss (map (vloss d e) (seq 0 nv)) (nv - 1))
               :: fst (eval_epoch E (Some "val"%string) ([], []) (map (vbatch d e) (seq 0 nv))).
  Proof.
    intro Hv. unfold vm_row, val_metrics. rewrite Hv.
    destruct (eval_epoch E (Some "val"%string) ([], []) (map (vbatch d e) (seq 0 nv))). reflexivity.
  Qed.

  Lemma epoch_history_empty e h : epoch_history E d n v e (h, ([], [])) = (record_metrics h (hrow e), ([], [])).
  Proof.
    unfold epoch_history, hrow, tm_row, vm_row, train_metrics, val_metrics.
    pose proof (eval_epoch_resets E None (map (tbatch d e) (seq 0 n))) as R1.
    destruct (eval_epoch E None ([], []) (map (tbatch d e) (seq 0 n))) as [ms1 st1]. cbn [snd] in R1. subst st1.
    destruct v as [nv|].
    - pose proof (eval_epoch_resets E (Some "val"%string) (map (vbatch d e) (seq 0 nv))) as R2.
      destruct (eval_epoch E (Some "val"%string) ([], []) (map (vbatch d e) (seq 0 nv))) as [ms2 st2]. cbn [snd] in R2. subst st2.
      cbn [fst]. rewrite record_metrics_app. reflexivity.
    - cbn [fst]. rewrite app_nil_r. reflexivity.
  Qed.

  Lemma fit_history_table epochs : fit_history E d n v epochs = hist_upto hrow epochs.
  Proof.
    unfold fit_history, hist_upto.
    assert (G : forall l h, fold_left (fun hs e => epoch_history E d n v e hs) l (h, ([], []))
                            = (fold_left (fun h e => record_metrics h (hrow e)) l h, ([], []))).
    { induction l as [|e l IH]; intro h; [reflexivity|]. cbn [fold_left]. rewrite epoch_history_empty. apply IH. }
    rewrite G. reflexivity.
  Qed.

  (* metric names *)
  Definition cb_names (names : list string) : Prop :=
    match E with
    | Some Ev => match ecb Ev with
                 | Some f => forall yt yp, map fst (f yt yp) = names
                 | None => names = []
                 end
    | None => names = []
    end.

  Definition metric_names (names : list string) : list string :=
    match E with
    | Some Ev => (if acc_on Ev then ["accuracy"%string] else []) ++ names
    | None => []
    end.

  Definition val_name (m : string) : string := append "val" (append "_" m).

  Definition all_keys (names : list string) : list string :=
    ("loss"%string :: metric_names names) ++
    match v with None => [] | Some _ => "val_loss"%string :: map val_name (metric_names names) end.

  Lemma eval_epoch_keys names p bs : cb_names names ->
    map fst (fst (eval_epoch E p ([], []) bs)) =
    match p with Some pre => map (fun m => append pre (append "_" m)) (metric_names names) | None => metric_names names end.
  Proof.
    unfold cb_names, metric_names, eval_epoch. intro H. destruct E as [Ev|].
    - unfold eval_compute. cbn [fst]. unfold add_prefix.
      assert (K : forall st, map fst ((if acc_on Ev then [("accuracy"%string, accuracy (fst st) (snd st))] else [])
                               ++ match ecb Ev with Some f => f (fst st) (snd st) | None => [] end)
                  = (if acc_on Ev then ["accuracy"%string] else []) ++ names).
      { intro st. rewrite map_app. destruct (ecb Ev) as [f|]; [rewrite H|subst names]; destruct (acc_on Ev); reflexivity. }
      destruct p as [pre|].
      + rewrite map_map. cbn [fst]. rewrite <- K with (st := fold_left (eval_step Ev) bs ([], [])).
        rewrite map_map. reflexivity.
      + apply K.
    - subst names. destruct p; reflexivity.
  Qed.

  Lemma hrow_keys names e : cb_names names -> map fst (hrow e) = all_keys names.
  Proof.
    intro H. unfold hrow, all_keys. rewrite map_app, tm_row_eq. cbn [map fst].
    rewrite (eval_epoch_keys names None _ H). f_equal.
    pose proof (vm_row_eq e) as V. unfold vm_row in *. destruct v as [nv|]; [|reflexivity].
    rewrite (V nv eq_refl). cbn [map fst]. rewrite (eval_epoch_keys names (Some "val"%string) _ H). reflexivity.
  Qed.
End History.

(* ------------------------------------------------------------------ the theorems about self.history *)
Lemma NoDup_app_disjoint {A} (a b : list A) k : NoDup (a ++ b) -> In k b -> ~ In k a.
Proof.
  induction a as [|x a IH]; intros H Hb Ha; [destruct Ha|].
  cbn in H. inversion H as [|? ? Hx Hn]; subst. destruct Ha as [Ha|Ha].
  - subst x. apply Hx. apply in_or_app. right. exact Hb.
  - exact (IH Hn Hb Ha).
Qed.

Section HistoryTheorems.
  Variables (E : option evaluator) (d : run_data) (n : nat) (v : option nat) (names : list string).
  Hypothesis Hcb : cb_names E names.
  Hypothesis Hnd : NoDup (all_keys E v names).

  Lemma history_empty : fit_history E d n v 0 = [].
  Proof. reflexivity. Qed.

  (* exactly the expected keys, in insertion order, each with one entry per epoch *)
  Lemma history_shape epochs : (1 <= epochs)%nat ->
    map fst (fit_history E d n v epochs) = all_keys E v names /\
    forall k, In k (all_keys E v names) ->
      exists l, lookup k (fit_history E d n v epochs) = Some l /\ llen l = epochs.
  Proof.
    intro He. rewrite fit_history_table.
    destruct (table (hrow E d n v) (all_keys E v names) (fun e => hrow_keys E d n v names e Hcb) Hnd epochs) as [K C].
    destruct epochs as [|k]; [lia|]. split; [exact K|].
    intros key Hk. destruct (C key Hk) as (l & Hl & Hlen & _). exists l. auto.
  Qed.

  (* every stored value is the value the epoch's metric list associates with the key *)
  Lemma history_column k l e x : In k (all_keys E v names) ->
    lookup k (fit_history E d n v (llen l)) = Some l -> nth_error l e = Some x ->
    assoc k (hrow E d n v e) = Some x.
  Proof.
    intros Hk Hl Hx. rewrite fit_history_table in Hl.
    destruct (table (hrow E d n v) (all_keys E v names) (fun e => hrow_keys E d n v names e Hcb) Hnd (llen l)) as [_ C].
    specialize (C k Hk). destruct (llen l) as [|m] eqn:Em; cbn [column_ok] in C.
    - destruct l; [destruct e; discriminate|discriminate].
    - destruct C as (l' & Hl' & _ & Hcol). rewrite Hl in Hl'. inversion Hl'; subst l'. exact (Hcol e x Hx).
  Qed.

  Lemma loss_in_keys : In "loss"%string (all_keys E v names).
  Proof. unfold all_keys. left. reflexivity. Qed.

  Lemma history_loss l e x :
    lookup "loss"%string (fit_history E d n v (llen l)) = Some l -> nth_error l e = Some x ->
    x = epoch_loss (map (tloss d e) (seq 0 n)) (n - 1).
  Proof.
    intros Hl Hx. pose proof (history_column _ _ _ _ loss_in_keys Hl Hx) as A.
    unfold hrow in A. rewrite tm_row_eq in A. cbn in A. congruence.
  Qed.

  Lemma tm_row_keys e : map fst (tm_row E d n e) = "loss"%string :: metric_names E names.
  Proof. rewrite tm_row_eq. cbn [map fst]. rewrite (eval_epoch_keys E names None _ Hcb). reflexivity. Qed.

  Lemma history_val_loss nv l e x : v = Some nv ->
    lookup "val_loss"%string (fit_history E d n v (llen l)) = Some l -> nth_error l e = Some x ->
    x = epoch_loss (map (vloss d e) (seq 0 nv)) (nv - 1).
  Proof.
    intros Hv Hl Hx.
    assert (Hin : In "val_loss"%string ("val_loss"%string :: map val_name (metric_names E names))) by (left; reflexivity).
    assert (Hk : In "val_loss"%string (all_keys E v names)).
    { unfold all_keys. rewrite Hv. apply in_or_app. right. exact Hin. }
    pose proof (history_column _ _ _ _ Hk Hl Hx) as A.
    unfold hrow in A. rewrite assoc_app in A.
    rewrite (assoc_none "val_loss"%string (tm_row E d n e)) in A.
    - rewrite (vm_row_eq E d v e nv Hv) in A. cbn in A. congruence.
    - rewrite tm_row_keys. unfold all_keys in Hnd. rewrite Hv in Hnd.
      exact (NoDup_app_disjoint _ _ _ Hnd Hin).
  Qed.

  (* accuracy entries: the fraction of agreeing positions over all samples of the epoch, in loader order *)
  Lemma history_accuracy Ev l e x : E = Some Ev -> acc_on Ev = true ->
    lookup "accuracy"%string (fit_history E d n v (llen l)) = Some l -> nth_error l e = Some x ->
    x = accuracy (List.concat (map (batch_true (emode_of Ev)) (map (tbatch d e) (seq 0 n))))
                 (List.concat (map (batch_pred (emode_of Ev)) (map (tbatch d e) (seq 0 n)))).
  Proof.
    intros HE Hacc Hl Hx.
    assert (Hk : In "accuracy"%string (all_keys E v names)).
    { unfold all_keys, metric_names. rewrite HE, Hacc. right. apply in_or_app. left. left. reflexivity. }
    pose proof (history_column _ _ _ _ Hk Hl Hx) as A.
    unfold hrow in A. rewrite tm_row_eq in A. subst E. cbn [app assoc] in A.
    unfold eval_epoch, eval_compute in A. rewrite Hacc in A. cbn in A.
    rewrite eval_steps_concat in A. cbn in A. congruence.
  Qed.

  Lemma history_val_accuracy Ev nv l e x : E = Some Ev -> acc_on Ev = true -> v = Some nv ->
    lookup "val_accuracy"%string (fit_history E d n v (llen l)) = Some l -> nth_error l e = Some x ->
    x = accuracy (List.concat (map (batch_true (emode_of Ev)) (map (vbatch d e) (seq 0 nv))))
                 (List.concat (map (batch_pred (emode_of Ev)) (map (vbatch d e) (seq 0 nv)))).
  Proof.
    intros HE Hacc Hv Hl Hx.
    assert (Hin : In "val_accuracy"%string ("val_loss"%string :: map val_name (metric_names E names))).
    { right. unfold metric_names. rewrite HE, Hacc. left. reflexivity. }
    assert (Hk : In "val_accuracy"%string (all_keys E v names)).
    { unfold all_keys. rewrite Hv. apply in_or_app. right. exact Hin. }
    pose proof (history_column _ _ _ _ Hk Hl Hx) as A.
    unfold hrow in A. rewrite assoc_app in A.
    rewrite (assoc_none "val_accuracy"%string (tm_row E d n e)) in A.
    - rewrite (vm_row_eq E d v e nv Hv) in A. subst E. cbn [assoc] in A.
      unfold eval_epoch, eval_compute in A. rewrite Hacc in A. cbn in A.
      rewrite eval_steps_concat in A. cbn in A. congruence.
    - rewrite tm_row_keys. unfold all_keys in Hnd. rewrite Hv in Hnd.
      exact (NoDup_app_disjoint _ _ _ Hnd Hin).
  Qed.
End HistoryTheorems.

(* accuracy = (number of positions where prediction and label agree) / (number of samples) *)
Lemma accuracy_fraction yt yp :
  accuracy yt yp = qnat (llen (filter (agree yt yp) (seq 0 (llen yt)))) / qnat (llen yt).
Proof. unfold accuracy. rewrite count_eq_positions. reflexivity. Qed.
