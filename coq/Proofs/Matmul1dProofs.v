(* np.matmul's promotion of 1-D operands (row / column) in matmul_backward, addmm_backward and F.linear:
   the gradients are the VJPs of what the forward computed, for a 1-D first operand or a 1-D second operand.   *)
From Coq Require Import List Arith ZArith Lia Bool Permutation.
Import ListNotations.
From SG Require Import Base.Sums Base.ScalarExt Base.Cmp NumPy.Index NumPy.Tensor NumPy.Gather NumPy.TensorFn NumPy.Broadcast NumPy.Matmul
  Proofs.IdxSums Proofs.BcastProofs Proofs.ArithProofs Proofs.MatmulProofs.

Lemma remove_at_app_len {X} (p:list X) x q : remove_at (length p) (p ++ x :: q) = p ++ q.
Proof. induction p; simpl; auto. f_equal. auto. Qed.
Lemma insert_at_app_len {X} (p:list X) x q : insert_at (length p) x (p ++ q) = p ++ x :: q.
Proof. induction p; simpl; auto. f_equal. auto. Qed.
Lemma removelast_app1 {X} (p:list X) x : removelast (p ++ [x]) = p.
Proof. rewrite removelast_app by discriminate. simpl. apply app_nil_r. Qed.

Section P.
Context {A:Type} `{ScalarLaws A} `{!ScalarMulLaws A}.

(* sums over a shape with a singleton axis *)
Lemma isum_row_axis s m (F:idx->A) :
  isum (idxs (s ++ [1; m])) F = isum (idxs (s ++ [m])) (fun j => F (insert_at (length s) 0 j)).
Proof.
  rewrite !isum_idxs_app. apply isum_ext. intros p Hp. pose proof (in_idxs_length _ _ Hp) as Lp.
  rewrite isum_idxs_2. cbn [seq]. rewrite isum_single. rewrite isum_idxs_cons. apply isum_ext. intros c _.
  rewrite isum_idxs_nil. rewrite <- Lp, insert_at_app_len. reflexivity.
Qed.
Lemma isum_col_axis s (F:idx->A) : isum (idxs (s ++ [1])) F = isum (idxs s) (fun j => F (j ++ [0])).
Proof.
  rewrite isum_idxs_app. apply isum_ext. intros p _. rewrite isum_idxs_cons. cbn [seq]. rewrite isum_single. apply isum_idxs_nil.
Qed.

Lemma np_matmul_rank2_mm (x y o:tensor A) px py (a b c d:nat) :
  tshape x = px ++ [a; b] -> tshape y = py ++ [c; d] -> F_matmul x y = Some o -> mm x y = Some o.
Proof.
  intros Hx Hy E. unfold F_matmul, np_matmul in E. rewrite (rank_app2 x _ _ _ Hx), (rank_app2 y _ _ _ Hy) in E.
  cbn [Nat.ltb Nat.leb orb Nat.eqb] in E. destruct (mm x y); cbn [obind] in E; congruence.
Qed.

(* ================= a 1-D first operand: a row ================= *)
Theorem matmul_vjp_row_proof bb k m (g a b:tensor A) :
  tshape a = [k] -> tshape b = bb ++ [k; m] -> tshape g = bb ++ [m] ->
  exists ga gb, matmul_backward g a b = Some (ga, gb) /\ tshape ga = tshape a /\ tshape gb = tshape b /\
    (forall da, tshape da = tshape a -> exists o, np_matmul da b = Some o /\ tshape o = tshape g /\
        dot (idxs (tshape g)) (tat g) (tat o) = dot (idxs (tshape a)) (tat ga) (tat da)) /\
    (forall db, tshape db = tshape b -> exists o, np_matmul a db = Some o /\ tshape o = tshape g /\
        dot (idxs (tshape g)) (tat g) (tat o) = dot (idxs (tshape b)) (tat gb) (tat db)).
Proof.
  intros Ha Hb Hg.
  assert (Ebb: broadcast_shapes [] bb = Some bb) by (apply broadcast_shapes_absorb_l, broadcastable_nil).
  assert (Hrow: forall x:tensor A, tshape x = [k] -> tshape (row_of x) = [] ++ [1; k]) by (intros x Hx; unfold row_of; cbn [tshape]; now rewrite Hx).
  assert (Rg: rank g = S (length bb)). { unfold rank. rewrite Hg, app_length. simpl. lia. }
  assert (Hg2: tshape (add_row_axis g) = bb ++ [1; m]).
  { unfold add_row_axis. cbn [tshape]. rewrite Rg, Hg. cbn [Nat.sub]. rewrite Nat.sub_0_r. apply insert_at_app_len. }
  destruct (matmul_vjp_proof [] bb bb 1 k m (add_row_axis g) (row_of a) b Ebb (Hrow a Ha) Hb Hg2) as (ga2 & gb & E & Hs2 & Hsb & Va & Vb).
  rewrite (matmul_backward_rank2 _ _ _ [] bb 1 k k m (Hrow a Ha) Hb) in E.
  assert (Ra: rank a = 1) by (unfold rank; now rewrite Ha).
  assert (Rb: rank b = S (S (length bb))) by (apply (rank_app2 b _ _ _ Hb)).
  exists (unrow (tshape a) ga2), gb. split.
  { unfold matmul_backward. rewrite Ra, Rb. cbn [Nat.eqb]. rewrite E. reflexivity. }
  split. reflexivity. split. exact Hsb.
  (* the forward with a 1-D first operand, in terms of the promoted product *)
  assert (Fwd: forall (x y o2:tensor A), tshape x = [k] -> tshape y = bb ++ [k; m] -> mm (row_of x) y = Some o2 -> tshape o2 = bb ++ [1; m] ->
     exists o, np_matmul x y = Some o /\ tshape o = bb ++ [m] /\ forall j, tat o j = tat o2 (insert_at (length bb) 0 j)).
  { intros x y o2 Hx Hy Eo Ho. assert (Rx: rank x = 1) by (unfold rank; now rewrite Hx).
    unfold np_matmul. rewrite Rx, (rank_app2 y _ _ _ Hy). cbn [Nat.eqb]. fold (row_of x). rewrite Eo. cbn [obind].
    unfold rank. rewrite Ho, app_length. cbn [length]. replace (length bb + 2 - 1 - 1) with (length bb) by lia.
    eexists. split. reflexivity. split. cbn [tshape]. apply remove_at_app_len. reflexivity. }
  assert (Dg: forall (o o2:tensor A), (forall j, tat o j = tat o2 (insert_at (length bb) 0 j)) ->
     dot (idxs (bb ++ [m])) (tat g) (tat o) = dot (idxs (bb ++ [1; m])) (tat (add_row_axis g)) (tat o2)).
  { intros o o2 Vo. unfold dot. rewrite isum_row_axis. apply isum_ext. intros j Hj. rewrite Vo. f_equal.
    unfold add_row_axis. cbn [tat]. rewrite Rg. cbn [Nat.sub]. rewrite Nat.sub_0_r. rewrite remove_insert. reflexivity.
    apply in_idxs_length in Hj. rewrite app_length in Hj. simpl in Hj. lia. }
  split.
  - intros da Hda. rewrite Ha in Hda. destruct (Va (row_of da)) as (o2 & Eo2 & Ho2 & Hd). { rewrite (Hrow da Hda), (Hrow a Ha). reflexivity. }
    apply (np_matmul_rank2_mm _ _ _ [] bb 1 k k m (Hrow da Hda) Hb) in Eo2. rewrite Hg2 in Ho2.
    destruct (Fwd da b o2 Hda Hb Eo2 Ho2) as (o & Eo & Ho & Vo). exists o. split. exact Eo. split. congruence.
    rewrite Hg. rewrite (Dg o o2 Vo). rewrite Ho2 in Hd. rewrite Hd. rewrite (Hrow a Ha), Ha. cbn [app].
    unfold dot. rewrite isum_idxs_2. cbn [seq]. rewrite isum_single. rewrite isum_idxs_cons. apply isum_ext. intros l _.
    rewrite isum_idxs_nil. reflexivity.
  - intros db Hdb. rewrite Hb in Hdb. destruct (Vb db) as (o2 & Eo2 & Ho2 & Hd). congruence.
    apply (np_matmul_rank2_mm _ _ _ [] bb 1 k k m (Hrow a Ha) Hdb) in Eo2. rewrite Hg2 in Ho2.
    destruct (Fwd a db o2 Ha Hdb Eo2 Ho2) as (o & Eo & Ho & Vo). exists o. split. exact Eo. split. congruence.
    rewrite Hg. rewrite (Dg o o2 Vo). rewrite Ho2 in Hd. exact Hd.
Qed.

(* ================= a 1-D second operand: a column ================= *)
Theorem matmul_vjp_col_proof ba n k (g a b:tensor A) :
  tshape a = ba ++ [n; k] -> tshape b = [k] -> tshape g = ba ++ [n] ->
  exists ga gb, matmul_backward g a b = Some (ga, gb) /\ tshape ga = tshape a /\ tshape gb = tshape b /\
    (forall da, tshape da = tshape a -> exists o, np_matmul da b = Some o /\ tshape o = tshape g /\
        dot (idxs (tshape g)) (tat g) (tat o) = dot (idxs (tshape a)) (tat ga) (tat da)) /\
    (forall db, tshape db = tshape b -> exists o, np_matmul a db = Some o /\ tshape o = tshape g /\
        dot (idxs (tshape g)) (tat g) (tat o) = dot (idxs (tshape b)) (tat gb) (tat db)).
Proof.
  intros Ha Hb Hg.
  assert (Eba: broadcast_shapes ba [] = Some ba) by (apply broadcast_shapes_absorb_r, broadcastable_nil).
  assert (Hcol: forall x:tensor A, tshape x = [k] -> tshape (col_of x) = [] ++ [k; 1]) by (intros x Hx; unfold col_of; cbn [tshape]; now rewrite Hx).
  assert (Hg2: tshape (col_of g) = ba ++ [n; 1]). { unfold col_of. cbn [tshape]. rewrite Hg, <- app_assoc. reflexivity. }
  destruct (matmul_vjp_proof ba [] ba n k 1 (col_of g) a (col_of b) Eba Ha (Hcol b Hb) Hg2) as (ga & gb2 & E & Hsa & Hs2 & Va & Vb).
  rewrite (matmul_backward_rank2 _ _ _ ba [] n k k 1 Ha (Hcol b Hb)) in E.
  assert (Ra: rank a = S (S (length ba))) by (apply (rank_app2 a _ _ _ Ha)).
  assert (Rb: rank b = 1) by (unfold rank; now rewrite Hb).
  exists ga, (uncol (tshape b) gb2). split.
  { unfold matmul_backward. rewrite Ra, Rb. cbn [Nat.eqb]. rewrite E. reflexivity. }
  split. exact Hsa. split. reflexivity.
  assert (Fwd: forall (x y o2:tensor A), tshape x = ba ++ [n; k] -> tshape y = [k] -> mm x (col_of y) = Some o2 -> tshape o2 = ba ++ [n; 1] ->
     exists o, np_matmul x y = Some o /\ tshape o = ba ++ [n] /\ forall j, tat o j = tat o2 (j ++ [0])).
  { intros x y o2 Hx Hy Eo Ho. assert (Ry: rank y = 1) by (unfold rank; now rewrite Hy).
    unfold np_matmul. rewrite Ry, (rank_app2 x _ _ _ Hx). cbn [Nat.eqb]. fold (col_of y). rewrite Eo. cbn [obind].
    eexists. split. reflexivity. split. cbn [tshape]. rewrite Ho. change (ba ++ [n; 1]) with (ba ++ [n] ++ [1]). rewrite app_assoc. apply removelast_app1.
    reflexivity. }
  assert (Dg: forall (o o2:tensor A), (forall j, tat o j = tat o2 (j ++ [0])) ->
     dot (idxs (ba ++ [n])) (tat g) (tat o) = dot (idxs (ba ++ [n; 1])) (tat (col_of g)) (tat o2)).
  { intros o o2 Vo. unfold dot. change (ba ++ [n; 1]) with (ba ++ [n] ++ [1]). rewrite app_assoc, isum_col_axis.
    apply isum_ext. intros j _. rewrite Vo. f_equal. unfold col_of. cbn [tat]. now rewrite removelast_app1. }
  split.
  - intros da Hda. rewrite Ha in Hda. destruct (Va da) as (o2 & Eo2 & Ho2 & Hd). congruence.
    apply (np_matmul_rank2_mm _ _ _ ba [] n k k 1 Hda (Hcol b Hb)) in Eo2. rewrite Hg2 in Ho2.
    destruct (Fwd da b o2 Hda Hb Eo2 Ho2) as (o & Eo & Ho & Vo). exists o. split. exact Eo. split. congruence.
    rewrite Hg. rewrite (Dg o o2 Vo). rewrite Ho2 in Hd. exact Hd.
  - intros db Hdb. rewrite Hb in Hdb. destruct (Vb (col_of db)) as (o2 & Eo2 & Ho2 & Hd). { rewrite (Hcol db Hdb), (Hcol b Hb). reflexivity. }
    apply (np_matmul_rank2_mm _ _ _ ba [] n k k 1 Ha (Hcol db Hdb)) in Eo2. rewrite Hg2 in Ho2.
    destruct (Fwd a db o2 Ha Hdb Eo2 Ho2) as (o & Eo & Ho & Vo). exists o. split. exact Eo. split. congruence.
    rewrite Hg. rewrite (Dg o o2 Vo). rewrite Ho2 in Hd. rewrite Hd. rewrite (Hcol b Hb), Hb. cbn [app].
    unfold dot. rewrite isum_idxs_2. rewrite isum_idxs_cons. apply isum_ext. intros l _.
    cbn [seq]. rewrite isum_single, isum_idxs_nil. unfold uncol, col_of. cbn [tat app removelast]. reflexivity.
Qed.

(* ================= addmm over any matmul for which matmul_backward is the VJP ================= *)
Definition mm_vjp_ok (ps:shape) (b c:tensor A) : Prop :=
  forall gmm:tensor A, tshape gmm = ps ->
  exists gb gc, matmul_backward gmm b c = Some (gb, gc) /\ tshape gb = tshape b /\ tshape gc = tshape c /\
    (forall b', tshape b' = tshape b -> exists o, np_matmul b' c = Some o /\ tshape o = ps /\
        dot (idxs ps) (tat gmm) (tat o) = dot (idxs (tshape b)) (tat gb) (tat b')) /\
    (forall c', tshape c' = tshape c -> exists o, np_matmul b c' = Some o /\ tshape o = ps /\
        dot (idxs ps) (tat gmm) (tat o) = dot (idxs (tshape c)) (tat gc) (tat c')).

Lemma addmm_vjp_generic sa ps so (g a b c:tensor A) :
  addmm_prod_shape (tshape b) (tshape c) = Some ps -> broadcast_shapes sa ps = Some so ->
  tshape a = sa -> tshape g = so -> mm_vjp_ok ps b c ->
  exists ga gb gc, addmm_backward g a b c = Some (ga, gb, gc) /\
    tshape ga = tshape a /\ tshape gb = tshape b /\ tshape gc = tshape c /\
    (forall a' b', tshape a' = tshape a -> tshape b' = tshape b ->
       exists o, addmm_forward a' b' c = Some o /\ tshape o = so /\
         dot (idxs so) (tat g) (tat o) = sadd (dot (idxs (tshape a)) (tat ga) (tat a')) (dot (idxs (tshape b)) (tat gb) (tat b'))) /\
    (forall a' c', tshape a' = tshape a -> tshape c' = tshape c ->
       exists o, addmm_forward a' b c' = Some o /\ tshape o = so /\
         dot (idxs so) (tat g) (tat o) = sadd (dot (idxs (tshape a)) (tat ga) (tat a')) (dot (idxs (tshape c)) (tat gc) (tat c'))).
Proof.
  intros Eps Es Ha Hg MM.
  destruct (add_vjp_proof sa ps so g Es Hg) as (ga & gmm & Eab & Hsa & Hsm & _ & _ & Vadd).
  destruct (MM gmm Hsm) as (gb & gc & Ebc & Hsb & Hsc & Vb & Vc).
  exists ga, gb, gc. unfold addmm_backward. rewrite Eps. cbn [obind]. rewrite Ha, Eab. cbn [obind fst snd]. rewrite Ebc. cbn [obind fst snd].
  split. reflexivity. split. congruence. split. congruence. split. congruence. split.
  - intros a' b' Ha' Hb'. destruct (Vb b' Hb') as (o & Eo & Ho & Hd).
    destruct (Vadd a' o) as (r & Er & Hr & Hdr). congruence. congruence.
    exists r. unfold addmm_forward. rewrite Eo. cbn [obind]. split. exact Er. split. exact Hr. rewrite Hdr. f_equal. exact Hd.
  - intros a' c' Ha' Hc'. destruct (Vc c' Hc') as (o & Eo & Ho & Hd).
    destruct (Vadd a' o) as (r & Er & Hr & Hdr). congruence. congruence.
    exists r. unfold addmm_forward. rewrite Eo. cbn [obind]. split. exact Er. split. exact Hr. rewrite Hdr. f_equal. exact Hd.
Qed.

Lemma prod_shape_col bb (n k k':nat) : addmm_prod_shape (bb ++ [n; k]) [k'] = Some (bb ++ [n]).
Proof.
  unfold addmm_prod_shape. rewrite app_length. cbn [length app].
  replace (length bb + 2 =? 1) with false by (symmetry; apply Nat.eqb_neq; lia). cbn [Nat.eqb].
  rewrite batch_of_app. change [k'; 1] with ([] ++ [k'; 1]). rewrite batch_of_app.
  rewrite (broadcast_shapes_absorb_r [] bb (broadcastable_nil bb)). cbn [obind].
  rewrite app_length. cbn [length app]. replace (2 <=? length bb + 2) with true by (symmetry; apply Nat.leb_le; lia). cbn [Nat.leb andb Nat.sub nth].
  replace (length bb + 2 - 2) with (length bb + 0) by lia. rewrite app_nth2_plus. cbn [nth].
  change (bb ++ [n; 1]) with (bb ++ [n] ++ [1]). rewrite app_assoc, removelast_app1. reflexivity.
Qed.
Lemma prod_shape_row bc (k k' m:nat) : addmm_prod_shape [k] (bc ++ [k'; m]) = Some (bc ++ [m]).
Proof.
  assert (E1: (length (bc ++ [k'; m]) =? 1) = false) by (rewrite app_length; apply Nat.eqb_neq; simpl; lia).
  assert (E2: (1 <=? length (bc ++ [k'; m])) = true) by (rewrite app_length; apply Nat.leb_le; simpl; lia).
  assert (E3: nth (length (bc ++ [k'; m]) - 1) (bc ++ [k'; m]) 0 = m).
  { rewrite app_length. cbn [length]. replace (length bc + 2 - 1) with (length bc + 1) by lia. now rewrite app_nth2_plus. }
  assert (E4: remove_at (length (bc ++ [1; m]) - 2) (bc ++ [1; m]) = bc ++ [m]).
  { rewrite app_length. cbn [length]. replace (length bc + 2 - 2) with (length bc) by lia. apply remove_at_app_len. }
  unfold addmm_prod_shape. rewrite E1. change (length [k] =? 1) with true. cbv iota.
  change (batch_of [1; k]) with (@nil nat). rewrite batch_of_app.
  rewrite (broadcast_shapes_absorb_l [] bc (broadcastable_nil bc)). cbn [obind].
  rewrite E2, E3. change (2 <=? length [1; k]) with true. cbn [andb]. change (nth (length [1; k] - 2) [1; k] 0) with 1.
  now rewrite E4.
Qed.

Lemma mm_vjp_ok_col ba n k (b c:tensor A) : tshape b = ba ++ [n; k] -> tshape c = [k] -> mm_vjp_ok (ba ++ [n]) b c.
Proof.
  intros Hb Hc gmm Hg. destruct (matmul_vjp_col_proof ba n k gmm b c Hb Hc Hg) as (gb & gc & E & S1 & S2 & V1 & V2).
  exists gb, gc. rewrite Hg in V1, V2. repeat split; auto.
Qed.
Lemma mm_vjp_ok_row bc k m (b c:tensor A) : tshape b = [k] -> tshape c = bc ++ [k; m] -> mm_vjp_ok (bc ++ [m]) b c.
Proof.
  intros Hb Hc gmm Hg. destruct (matmul_vjp_row_proof bc k m gmm b c Hb Hc Hg) as (gb & gc & E & S1 & S2 & V1 & V2).
  exists gb, gc. rewrite Hg in V1, V2. repeat split; auto.
Qed.

(* addmm(a, b, c) with a 1-D c (column) or a 1-D b (row) *)
Theorem addmm_vjp_col_proof sa bb n k so (g a b c:tensor A) :
  broadcast_shapes sa (bb ++ [n]) = Some so -> tshape a = sa -> tshape b = bb ++ [n; k] -> tshape c = [k] -> tshape g = so ->
  exists ga gb gc, addmm_backward g a b c = Some (ga, gb, gc) /\
    tshape ga = tshape a /\ tshape gb = tshape b /\ tshape gc = tshape c /\
    (forall a' b', tshape a' = tshape a -> tshape b' = tshape b ->
       exists o, addmm_forward a' b' c = Some o /\ tshape o = so /\
         dot (idxs so) (tat g) (tat o) = sadd (dot (idxs (tshape a)) (tat ga) (tat a')) (dot (idxs (tshape b)) (tat gb) (tat b'))) /\
    (forall a' c', tshape a' = tshape a -> tshape c' = tshape c ->
       exists o, addmm_forward a' b c' = Some o /\ tshape o = so /\
         dot (idxs so) (tat g) (tat o) = sadd (dot (idxs (tshape a)) (tat ga) (tat a')) (dot (idxs (tshape c)) (tat gc) (tat c'))).
Proof.
  intros Es Ha Hb Hc Hg. apply (addmm_vjp_generic sa (bb ++ [n]) so); auto.
  rewrite Hb, Hc. apply prod_shape_col. now apply (mm_vjp_ok_col bb n k).
Qed.
Theorem addmm_vjp_row_proof sa bc k m so (g a b c:tensor A) :
  broadcast_shapes sa (bc ++ [m]) = Some so -> tshape a = sa -> tshape b = [k] -> tshape c = bc ++ [k; m] -> tshape g = so ->
  exists ga gb gc, addmm_backward g a b c = Some (ga, gb, gc) /\
    tshape ga = tshape a /\ tshape gb = tshape b /\ tshape gc = tshape c /\
    (forall a' b', tshape a' = tshape a -> tshape b' = tshape b ->
       exists o, addmm_forward a' b' c = Some o /\ tshape o = so /\
         dot (idxs so) (tat g) (tat o) = sadd (dot (idxs (tshape a)) (tat ga) (tat a')) (dot (idxs (tshape b)) (tat gb) (tat b'))) /\
    (forall a' c', tshape a' = tshape a -> tshape c' = tshape c ->
       exists o, addmm_forward a' b c' = Some o /\ tshape o = so /\
         dot (idxs so) (tat g) (tat o) = sadd (dot (idxs (tshape a)) (tat ga) (tat a')) (dot (idxs (tshape c)) (tat gc) (tat c'))).
Proof.
  intros Es Ha Hb Hc Hg. apply (addmm_vjp_generic sa (bc ++ [m]) so); auto.
  rewrite Hb, Hc. apply prod_shape_row. now apply (mm_vjp_ok_row bc k m).
Qed.

(* ================= F.linear with a 1-D input ================= *)
Theorem linear_1d_vjp_proof k m sb so (g x w bias:tensor A) :
  broadcast_shapes sb [m] = Some so ->
  tshape x = [k] -> tshape w = [m; k] -> tshape bias = sb -> bias_truth (Some bias) = Some true -> tshape g = so ->
  exists gx gw gb, linear_backward g x w (Some bias) = Some (gx, gw, Some gb) /\
    tshape gx = tshape x /\ tshape gw = tshape w /\ tshape gb = tshape bias /\
    (forall x' b', tshape x' = tshape x -> tshape b' = tshape bias -> bias_truth (Some b') = Some true ->
       exists o, linear_forward x' w (Some b') = Some o /\ tshape o = so /\
         dot (idxs so) (tat g) (tat o) = sadd (dot (idxs (tshape x)) (tat gx) (tat x')) (dot (idxs (tshape bias)) (tat gb) (tat b'))) /\
    (forall w' b', tshape w' = tshape w -> tshape b' = tshape bias -> bias_truth (Some b') = Some true ->
       exists o, linear_forward x w' (Some b') = Some o /\ tshape o = so /\
         dot (idxs so) (tat g) (tat o) = sadd (dot (idxs (tshape w)) (tat gw) (tat w')) (dot (idxs (tshape bias)) (tat gb) (tat b'))).
Proof.
  intros Es Hx Hw Hb Bt Hg. destruct (np_T_2d w m k Hw) as [HwT _].
  destruct (addmm_vjp_row_proof sb [] k m so g bias x (np_T w) Es Hb Hx HwT Hg)
    as (gb & gx & gwt & Ebw & Hsb & Hsx & Hswt & Vxb & Vwb).
  exists gx, (np_T gwt), gb. unfold linear_backward. rewrite Bt. cbn [obind]. rewrite Ebw. cbn [obind fst snd].
  split. reflexivity. split. exact Hsx. split. { unfold np_T. cbn [tshape]. rewrite Hswt, HwT, Hw. reflexivity. } split. exact Hsb. split.
  - intros x' b' Hx' Hb' Bt'. destruct (Vxb b' x') as (o & Eo & Ho & Hd); auto.
    exists o. unfold linear_forward. rewrite Bt'. cbn [obind]. split. exact Eo. split. exact Ho. rewrite Hd. apply sadd_comm.
  - intros w' b' Hw' Hb' Bt'. destruct (np_T_2d w' m k) as [HwT' _]. congruence.
    destruct (Vwb b' (np_T w')) as (o & Eo & Ho & Hd); auto. congruence.
    exists o. unfold linear_forward. rewrite Bt'. cbn [obind]. split. exact Eo. split. exact Ho.
    rewrite Hd, sadd_comm. f_equal. rewrite HwT, Hw. cbn [app]. apply dot_T. rewrite Hswt, HwT. reflexivity.
Qed.
Theorem linear_1d_nobias_vjp_proof k m (g x w:tensor A) :
  tshape x = [k] -> tshape w = [m; k] -> tshape g = [m] ->
  exists gx gw, linear_backward g x w None = Some (gx, gw, None) /\
    tshape gx = tshape x /\ tshape gw = tshape w /\
    (forall x', tshape x' = tshape x -> exists o, linear_forward x' w None = Some o /\ tshape o = tshape g /\
         dot (idxs (tshape g)) (tat g) (tat o) = dot (idxs (tshape x)) (tat gx) (tat x')) /\
    (forall w', tshape w' = tshape w -> exists o, linear_forward x w' None = Some o /\ tshape o = tshape g /\
         dot (idxs (tshape g)) (tat g) (tat o) = dot (idxs (tshape w)) (tat gw) (tat w')).
Proof.
  intros Hx Hw Hg. destruct (np_T_2d w m k Hw) as [HwT _].
  destruct (matmul_vjp_row_proof [] k m g x (np_T w) Hx HwT Hg) as (gx & gwt & Ebw & Hsx & Hswt & Vx & Vw).
  exists gx, (np_T gwt). unfold linear_backward. cbn [bias_truth obind]. rewrite Ebw. cbn [obind fst snd].
  split. reflexivity. split. exact Hsx. split. { unfold np_T. cbn [tshape]. rewrite Hswt, HwT, Hw. reflexivity. } split.
  - intros x' Hx'. destruct (Vx x' Hx') as (o & Eo & Ho & Hd). exists o. unfold linear_forward. cbn [bias_truth obind]. auto.
  - intros w' Hw'. destruct (np_T_2d w' m k) as [HwT' _]. congruence.
    destruct (Vw (np_T w')) as (o & Eo & Ho & Hd). congruence. exists o. unfold linear_forward. cbn [bias_truth obind].
    split. exact Eo. split. exact Ho. rewrite Hd. rewrite HwT, Hw. cbn [app]. apply dot_T. rewrite Hswt, HwT. reflexivity.
Qed.
End P.
