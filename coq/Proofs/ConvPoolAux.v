(* Auxiliary lemmas for NumPy/ConvPool.v: extra scalar laws (commutative ring, division by a count), the 1-D window view
   and place_windows in closed form (the 2-D ones are package D's Proofs/Im2colProofs.v), place_windows as a scatter,
   sums over products of ranges. *)
From Coq Require Import List ZArith Lia Bool Arith QArith Qround Qcanon Permutation.
Import ListNotations.
From SG Require Import Base.Sums NumPy.Gather NumPy.Index NumPy.Window NumPy.Im2col NumPy.ConvPool
  Proofs.WindowProofs Proofs.Im2colProofs.
Open Scope Z_scope.

(* ------------------------------------------------------------------ scalar laws beyond Base/Sums.v *)
Class CommLaws (A : Type) `{Scalar A} := {
  smul_assoc : forall a b c : A, smul a (smul b c) = smul (smul a b) c;
  smul_comm : forall a b : A, smul a b = smul b a }.
(* division by a count is additive and can be moved across a product *)
Class DivLaws (A : Type) `{Scalar A} `{Divider A} := {
  sdiv_add : forall (a b : A) n, sdiv (sadd a b) n = sadd (sdiv a n) (sdiv b n);
  sdiv_0 : forall n, sdiv s0 n = s0;
  sdiv_mul_l : forall (a b : A) n, smul (sdiv a n) b = sdiv (smul a b) n;
  sdiv_mul_r : forall (a b : A) n, smul a (sdiv b n) = sdiv (smul a b) n }.

#[global] Instance CommLawsZ : CommLaws Z.
Proof. constructor; intros; cbn; lia. Qed.

#[global] Instance ScalarLawsQc : ScalarLaws Qc.
Proof.
  constructor; intros; cbn; try ring.
Qed.
#[global] Instance CommLawsQc : CommLaws Qc.
Proof. constructor; intros; cbn; ring. Qed.
#[global] Instance DivLawsQc : DivLaws Qc.
Proof.
  constructor; intros; cbv [sdiv DividerQc sadd smul s0 ScalarQc Qcdiv]; ring.
Qed.

Section MoreSums.
Context {A : Type} `{ScalarLaws A}.

Lemma isum_sdiv `{Divider A} `{!DivLaws A} {I} (l : list I) (f : I -> A) n :
  isum l (fun i => sdiv (f i) n) = sdiv (isum l f) n.
Proof.
  unfold isum. induction l as [|a l IH]; simpl. now rewrite sdiv_0. now rewrite IH, sdiv_add.
Qed.

Lemma lsum_map_isum {I} (l : list I) (f : I -> A) : lsum (map f l) = isum l f.
Proof. reflexivity. Qed.

Lemma isum_ext_zr n (f f' : Z -> A) : (forall i, 0 <= i < n -> f i = f' i) -> isum (zr n) f = isum (zr n) f'.
Proof. intros E. apply isum_ext. intros i Hi. apply E. now apply in_zr. Qed.

(* a sum in which only the index i0 contributes *)
Lemma isum_single (l : list Z) (i0 : Z) (v : A) :
  NoDup l -> In i0 l -> isum l (fun i => if i =? i0 then v else s0) = v.
Proof.
  intros ND Hin.
  rewrite (isum_ext l _ (fun i => if Z.eqb i0 i then (fun _ => v) i else s0)).
  - apply (isum_pick Z.eqb); auto. intros a b. apply Z.eqb_eq.
  - intros i _. rewrite (Z.eqb_sym i i0). reflexivity.
Qed.
Lemma isum_single_zr n i0 (v : A) : 0 <= i0 < n -> isum (zr n) (fun i => if i =? i0 then v else s0) = v.
Proof. intros Hi. apply isum_single. apply NoDup_zr. now apply in_zr. Qed.
Lemma isum_none (l : list Z) (i0 : Z) (v : A) : ~ In i0 l -> isum l (fun i => if i =? i0 then v else s0) = s0.
Proof.
  intros Hn.
  rewrite (isum_ext l _ (fun i => if Z.eqb i0 i then (fun _ => v) i else s0)).
  - apply (isum_nopick Z.eqb); auto. intros a b. apply Z.eqb_eq.
  - intros i _. rewrite (Z.eqb_sym i i0). reflexivity.
Qed.
End MoreSums.

(* ------------------------------------------------------------------ 1-D geometry *)
Ltac dv1 H := destruct H as (HN & HC & HWn & Hk & Hs & Hp & Hd & Hl).

Lemma l1_eq g : valid1 g -> l1 g = out_size (W1 g) (k1 g) (s1 g) (p1 g) (d1 g).
Proof. intros Hv. dv1 Hv. unfold l1. now apply out_size_float_eq. Qed.
Lemma o1_eq g : valid1 g -> o1 g = l1 g.
Proof. intros Hv. rewrite l1_eq by auto. unfold o1, Wp1. apply out_size_view_eq. Qed.
Lemma fits1 g j : valid1 g -> 0 <= j < l1 g -> j * s1 g + (k1 g - 1) * d1 g + 1 <= Wp1 g.
Proof.
  intros Hv [Hj0 Hj]. rewrite l1_eq in Hj by auto. dv1 Hv. apply fits_iff in Hj; auto.
Qed.
Lemma wpos1_range g j b : valid1 g -> 0 <= j < l1 g -> 0 <= b < k1 g -> 0 <= j * s1 g + b * d1 g < Wp1 g.
Proof. intros Hv Hj Hb. pose proof (fits1 g j Hv Hj). dv1 Hv. nia. Qed.

Lemma ravel3_bound d1 d2 d3 i j k : 0 <= i < d1 -> 0 <= j < d2 -> 0 <= k < d3 -> 0 <= ravel3 d2 d3 i j k < d1 * d2 * d3.
Proof.
  intros Hi Hj Hk. unfold ravel3.
  pose proof (mul_lt_bound i d2 j d1 Hi Hj) as B1.
  pose proof (mul_lt_bound (i * d2 + j) d3 k (d1 * d2) B1 Hk) as B2. lia.
Qed.

Lemma ew1_offset_closed g wj n c b :
  dotZ [wj; n; c; b] (ew1_strides g) = ravel3 (C1 g) (Wp1 g) n c (wj * s1 g + b * d1 g).
Proof.
  cbv [ew1_strides ew_strides_gen dotZ zip_mul lastn butlastn cumprod cumprod_from rev tl app length skipn firstn
       fold_right Nat.sub ravel3]. ring.
Qed.

Lemma ew1_closed g wj n c b : valid1 g ->
  0 <= wj < l1 g -> 0 <= n < N1 g -> 0 <= c < C1 g -> 0 <= b < k1 g ->
  ew1 g wj n c b = pad_lookup1 g (n, c, wj * s1 g + b * d1 g).
Proof.
  intros Hv Hwj Hn Hc Hb. pose proof (wpos1_range g wj b Hv Hwj Hb) as Hw.
  unfold ew1. fold (o1 g). rewrite o1_eq by auto. guard_true.
  rewrite ew1_offset_closed.
  pose proof (ravel3_bound (N1 g) (C1 g) (Wp1 g) n c _ Hn Hc Hw) as B.
  guard_true. rewrite unravel3_ravel by auto. reflexivity.
Qed.

(* the position of the input that entry (wj, n, c, b) of the window view reads / is added to *)
Definition phi1 g (t : win4) : cell pos1 := let '(wj, n, c, b) := t in pad_lookup1 g (n, c, wj * s1 g + b * d1 g).
Definition phi1_opt g (t : win4) : option pos1 := cell_opt (phi1 g t).

Lemma unpad_neg_lookup1 g n c x : 0 <= p1 g -> 0 <= n < N1 g -> 0 <= c < C1 g -> 0 <= x < Wp1 g ->
  option_map (fun w => (n, c, w)) (unpad_neg (p1 g) (Wp1 g) x) = cell_opt (pad_lookup1 g (n, c, x)).
Proof.
  intros Hp Hn Hc Hx. unfold pad_lookup1. guard_true. unfold unpad_neg, is_real, Wp1 in *.
  destruct (Z.eqb_spec (p1 g) 0) as [E|NE].
  - rewrite E in *. replace (x - 0) with x by ring.
    assert (G : (0 <=? x) && (x <? 0 + W1 g) = true) by btrue. rewrite G. reflexivity.
  - replace (W1 g + 2 * p1 g - p1 g) with (p1 g + W1 g) by ring.
    destruct ((p1 g <=? x) && (x <? p1 g + W1 g)); reflexivity.
Qed.

Lemma pw1_sum g : valid1 g -> forall (A : Type) (HS : Scalar A) (HL : ScalarLaws A) (F : win4 -> option pos1 -> A),
  isum (pw1_contribs g) (fun wt => F (fst wt) (snd wt)) =
  isum (zr (l1 g)) (fun wj => isum (zr (N1 g)) (fun n => isum (zr (C1 g)) (fun c => isum (zr (k1 g)) (fun b =>
    F (wj, n, c, b) (phi1_opt g (wj, n, c, b)))))).
Proof.
  intros Hv A HS HL F. unfold pw1_contribs. rewrite isum_flat_map. apply isum_ext. intros wj Hwj. apply in_zr in Hwj.
  pose proof (fits1 g wj Hv Hwj) as Hf.
  assert (Hsl : slice_idx (wj * s1 g) (wj * s1 g + k1 g * d1 g) (d1 g) (Wp1 g) = map (fun a => wj * s1 g + a * d1 g) (zr (k1 g))).
  { dv1 Hv. apply slice_idx_fit; auto; nia. }
  rewrite Hsl. rewrite zlen_map, zlen_zr by (dv1 Hv; lia). rewrite Z.eqb_refl.
  rewrite isum_flat_map. apply isum_ext. intros n Hn. apply in_zr in Hn.
  rewrite isum_flat_map. apply isum_ext. intros c Hc. apply in_zr in Hc.
  rewrite combine_map_r, isum_map, isum_map. apply isum_ext. intros b Hb. apply in_zr in Hb.
  cbn [fst snd]. f_equal. unfold phi1_opt, phi1.
  apply unpad_neg_lookup1; auto. dv1 Hv; lia. apply wpos1_range; auto.
Qed.

(* ------------------------------------------------------------------ re-ordering nested sums *)
(* [swap_sums n]: exchange the two sums found under n enclosing sums of the left-hand side *)
Ltac exch0 := apply isum_exchange.
Ltac exch1 := apply isum_ext; intros ? _; exch0.
Ltac exch2 := apply isum_ext; intros ? _; exch1.
Ltac exch3 := apply isum_ext; intros ? _; exch2.
Ltac exch4 := apply isum_ext; intros ? _; exch3.
Ltac swap0 := etransitivity; [ exch0 | cbv beta ].
Ltac swap1 := etransitivity; [ exch1 | cbv beta ].
Ltac swap2 := etransitivity; [ exch2 | cbv beta ].
Ltac swap3 := etransitivity; [ exch3 | cbv beta ].
Ltac swap4 := etransitivity; [ exch4 | cbv beta ].

Section Contraction.
Context {A : Type} `{ScalarLaws A} `{!CommLaws A}.
Variables (O C K : Type) (LO : list O) (LC : list C) (LK : list K).
Variables (gr : O -> C -> A) (w : C -> K -> A) (win : O -> K -> A).

(* <g, conv> with  conv o c = sum_k w c k * win o k *)
Definition pairing := isum LO (fun o => isum LC (fun c => smul (gr o c) (isum LK (fun k => smul (w c k) (win o k))))).

Lemma pairing_x : pairing = isum LO (fun o => isum LK (fun k => smul (isum LC (fun c => smul (gr o c) (w c k))) (win o k))).
Proof.
  unfold pairing. apply isum_ext. intros o _.
  transitivity (isum LC (fun c => isum LK (fun k => smul (smul (gr o c) (w c k)) (win o k)))).
  { apply isum_ext. intros c _. rewrite <- isum_mul_l. apply isum_ext. intros k _. apply smul_assoc. }
  rewrite isum_exchange. apply isum_ext. intros k _. now rewrite isum_mul_r.
Qed.

Lemma pairing_w : pairing = isum LC (fun c => isum LK (fun k => smul (isum LO (fun o => smul (gr o c) (win o k))) (w c k))).
Proof.
  unfold pairing. rewrite isum_exchange. apply isum_ext. intros c _.
  transitivity (isum LO (fun o => isum LK (fun k => smul (smul (gr o c) (win o k)) (w c k)))).
  { apply isum_ext. intros o _. rewrite <- isum_mul_l. apply isum_ext. intros k _.
    rewrite (smul_comm (w c k)). apply smul_assoc. }
  rewrite isum_exchange. apply isum_ext. intros k _. now rewrite isum_mul_r.
Qed.

Lemma pairing_b (b : C -> A) :
  isum LO (fun o => isum LC (fun c => smul (gr o c) (b c))) = isum LC (fun c => smul (isum LO (fun o => gr o c)) (b c)).
Proof. rewrite isum_exchange. apply isum_ext. intros c _. now rewrite isum_mul_r. Qed.
End Contraction.

(* ------------------------------------------------------------------ products of ranges *)
Lemma pos1_eqb_spec (a b : pos1) : pos1_eqb a b = true <-> a = b.
Proof.
  destruct a as [[n c] w], b as [[n' c'] w']. unfold pos1_eqb. rewrite !andb_true_iff, !Z.eqb_eq.
  split. intros [[-> ->] ->]; reflexivity. intros E; inversion E; auto.
Qed.

Lemma NoDup_Ipos1 g : NoDup (Ipos1 g).
Proof. unfold Ipos1. repeat apply NoDup_list_prod; apply NoDup_zr. Qed.
Lemma in_Ipos1 g n c w : In (n, c, w) (Ipos1 g) <-> 0 <= n < N1 g /\ 0 <= c < C1 g /\ 0 <= w < W1 g.
Proof. unfold Ipos1. rewrite !in_prod_iff, !in_zr. tauto. Qed.
Lemma in_Jwin1 g wj n c b : In (wj, n, c, b) (Jwin1 g) <-> 0 <= wj < l1 g /\ 0 <= n < N1 g /\ 0 <= c < C1 g /\ 0 <= b < k1 g.
Proof. unfold Jwin1. rewrite !in_prod_iff, !in_zr. tauto. Qed.

Lemma phi1_opt_into g t i : In t (Jwin1 g) -> phi1_opt g t = Some i -> In i (Ipos1 g).
Proof.
  destruct t as [[[wj n] c] b]. intros Hin. unfold phi1_opt, phi1, pad_lookup1.
  destruct ((0 <=? n) && (n <? N1 g) && (0 <=? c) && (c <? C1 g) && (0 <=? wj * s1 g + b * d1 g) && (wj * s1 g + b * d1 g <? Wp1 g)) eqn:G;
    [|discriminate].
  destruct (is_real (W1 g) (p1 g) (wj * s1 g + b * d1 g)) eqn:R; [|discriminate].
  cbn [cell_opt]. intros E. inversion E; subst. apply in_Ipos1.
  rewrite !andb_true_iff, !Z.leb_le, !Z.ltb_lt in G. unfold is_real in R. rewrite andb_true_iff, Z.leb_le, Z.ltb_lt in R. lia.
Qed.

Section Window1.
Context {A : Type} `{ScalarLaws A}.

Lemma cell_val_opt {P} (x : P -> A) (c : cell P) :
  cell_val s0 s0 x c = match cell_opt c with Some i => x i | None => s0 end.
Proof. destruct c; reflexivity. Qed.

Lemma isum_Jwin1 g (F : win4 -> A) :
  isum (Jwin1 g) F = isum (zr (l1 g)) (fun wj => isum (zr (N1 g)) (fun n => isum (zr (C1 g)) (fun c => isum (zr (k1 g)) (fun b => F (wj, n, c, b))))).
Proof. unfold Jwin1, win4. rewrite !isum_list_prod. reflexivity. Qed.

(* place_windows (1-D) is the scatter along the window map *)
Lemma place1_scatter g (y : win4 -> A) i : valid1 g ->
  place1 g y i = scatter pos1 win4 pos1_eqb (Jwin1 g) (phi1_opt g) y i.
Proof.
  intros Hv. unfold place1, place1_apply, scatter.
  rewrite (pw1_sum g Hv A _ _ (fun t o => match o with Some i' => if pos1_eqb i' i then y t else s0 | None => s0 end)).
  now rewrite isum_Jwin1.
Qed.

Lemma windows1_gather g (x : pos1 -> A) t : valid1 g -> In t (Jwin1 g) ->
  windows1 g s0 x t = gather pos1 win4 (phi1_opt g) x t.
Proof.
  intros Hv Hin. destruct t as [[[wj n] c] b]. apply in_Jwin1 in Hin as (Hwj & Hn & Hc & Hb).
  unfold windows1, gather. rewrite ew1_closed by auto. apply cell_val_opt.
Qed.

(* extract_windows and place_windows are adjoint (1-D) *)
Theorem windows1_adjoint g (x : pos1 -> A) (y : win4 -> A) : valid1 g ->
  dotl (Jwin1 g) y (windows1 g s0 x) = dotl (Ipos1 g) (place1 g y) x.
Proof.
  intros Hv.
  pose proof (gather_scatter_adjoint pos1 win4 pos1_eqb pos1_eqb_spec (Ipos1 g) (Jwin1 g) (NoDup_Ipos1 g)
                (phi1_opt g) x y (fun j i => phi1_opt_into g j i)) as E.
  unfold dot in E. unfold dotl.
  transitivity (isum (Jwin1 g) (fun k => smul (y k) (gather pos1 win4 (phi1_opt g) x k))).
  { apply isum_ext. intros t Ht. now rewrite windows1_gather. }
  rewrite E. apply isum_ext. intros i _. now rewrite place1_scatter.
Qed.
End Window1.

(* ------------------------------------------------------------------ 2-D: the same facts from package D's closed forms *)
Lemma in_Jwin g wi wj n c a b : In (wi, wj, n, c, a, b) (Jwin g) <->
  0 <= wi < lH g /\ 0 <= wj < lW g /\ 0 <= n < gN g /\ 0 <= c < gC g /\ 0 <= a < kH g /\ 0 <= b < kW g.
Proof. unfold Jwin. rewrite !in_prod_iff, !in_zr. tauto. Qed.

Lemma phi_win_opt_into g t i : phi_win_opt g t = Some i -> In i (Ipos g).
Proof.
  destruct t as [[[[[wi wj] n] c] a] b]. unfold phi_win_opt, phi_win.
  destruct (pad_lookup g _) eqn:E; try discriminate. cbn [cell_opt]. intros E'. inversion E'; subst.
  eapply pad_lookup_At; eauto.
Qed.

Section Window2.
Context {A : Type} `{ScalarLaws A}.

Lemma isum_Jwin g (F : win6 -> A) :
  isum (Jwin g) F = isum (zr (lH g)) (fun wi => isum (zr (lW g)) (fun wj => isum (zr (gN g)) (fun n => isum (zr (gC g)) (fun c =>
                    isum (zr (kH g)) (fun a => isum (zr (kW g)) (fun b => F (wi, wj, n, c, a, b))))))).
Proof. unfold Jwin, win6. rewrite !isum_list_prod. reflexivity. Qed.

Lemma place2_scatter g (y : win6 -> A) i : valid g ->
  place2 g y i = scatter pos win6 pos_eqb (Jwin g) (phi_win_opt g) y i.
Proof.
  intros Hv. unfold place2, col2im_apply, scatter.
  rewrite (pw_sum g (fun t o => match o with Some i' => if pos_eqb i' i then y t else s0 | None => s0 end) Hv).
  rewrite isum_Jwin. unfold P2, P4. rewrite !isum_list_prod.
  apply isum_ext; intros wi _. apply isum_ext; intros wj _. rewrite !isum_list_prod. reflexivity.
Qed.

Lemma windows2_gather g (x : pos -> A) t : valid g -> In t (Jwin g) ->
  windows2 g s0 x t = gather pos win6 (phi_win_opt g) x t.
Proof.
  intros Hv Hin. destruct t as [[[[[wi wj] n] c] a] b]. apply in_Jwin in Hin as (Hwi & Hwj & Hn & Hc & Ha & Hb).
  unfold windows2, gather. rewrite ew_closed by auto. apply cell_val_opt.
Qed.

(* extract_windows and place_windows are adjoint (2-D) *)
Theorem windows2_adjoint g (x : pos -> A) (y : win6 -> A) : valid g ->
  dotl (Jwin g) y (windows2 g s0 x) = dotl (Ipos g) (place2 g y) x.
Proof.
  intros Hv.
  pose proof (gather_scatter_adjoint pos win6 pos_eqb pos_eqb_spec (Ipos g) (Jwin g) (NoDup_Ipos g)
                (phi_win_opt g) x y (fun j i _ => phi_win_opt_into g j i)) as E.
  unfold dot in E. unfold dotl.
  transitivity (isum (Jwin g) (fun k => smul (y k) (gather pos win6 (phi_win_opt g) x k))).
  { apply isum_ext. intros t Ht. now rewrite windows2_gather. }
  etransitivity; [exact E|]. apply isum_ext. intros i _. now rewrite place2_scatter.
Qed.
End Window2.
