(* unfold_dim (Tensor.unfold): closed form of the forward map, the spec, and
   "the backward loop over windows computes the scatter of the forward map".                       *)
From Coq Require Import List Arith ZArith Lia Bool Permutation.
Import ListNotations.
From SG Require Import Base.Sums Base.Cmp NumPy.Gather NumPy.Index NumPy.Tensor NumPy.ViewsAux NumPy.Views NumPy.Spec.
From SG Require Import Proofs.ViewsAuxProofs Proofs.ViewsReshapeProofs Proofs.ViewsPermProofs.

(* ------------------------------------------------------------------ list surgery at a split point *)
Lemma nth_mid {X} (dx : X) p x q : nth (length p) (p ++ x :: q) dx = x.
Proof. rewrite app_nth2 by lia. now rewrite Nat.sub_diag. Qed.

Lemma firstn_mid {X} (p : list X) x q : firstn (length p) (p ++ x :: q) = p.
Proof. rewrite firstn_app, Nat.sub_diag, firstn_all. simpl. now rewrite app_nil_r. Qed.

Lemma skipn_mid {X} (p : list X) x q : skipn (S (length p)) (p ++ x :: q) = q.
Proof. rewrite skipn_app. rewrite skipn_all2 by lia. replace (S (length p) - length p) with 1 by lia. reflexivity. Qed.

Lemma skipn_mid0 {X} (p : list X) q : skipn (length p) (p ++ q) = q.
Proof. rewrite skipn_app, skipn_all, Nat.sub_diag. reflexivity. Qed.

Lemma upd_nth_mid {X} (p : list X) x y q : upd_nth (length p) y (p ++ x :: q) = p ++ y :: q.
Proof. unfold upd_nth. now rewrite firstn_mid, skipn_mid. Qed.

Lemma remove_at_mid {X} (p : list X) x q : remove_at (length p) (p ++ x :: q) = p ++ q.
Proof. unfold remove_at. now rewrite firstn_mid, skipn_mid. Qed.

Lemma insert_at_mid {X} (p : list X) x q : insert_at (length p) x (p ++ q) = p ++ x :: q.
Proof.
  unfold insert_at. rewrite firstn_app, Nat.sub_diag, firstn_all. simpl. rewrite app_nil_r. now rewrite skipn_mid0.
Qed.

Lemma split_at {X} (l : list X) d (dx : X) : d < length l ->
  l = firstn d l ++ nth d l dx :: skipn (S d) l /\ length (firstn d l) = d.
Proof.
  intros Hd. split. 2: rewrite firstn_length; lia.
  revert d Hd. induction l as [|a l IH]; intros d Hd; simpl in Hd. lia.
  destruct d as [|d]. reflexivity.
  cbn [firstn nth skipn app]. f_equal. apply IH. lia.
Qed.

Lemma app_inv_len {X} (p p' l l' : list X) : length p = length p' -> p ++ l = p' ++ l' -> p = p' /\ l = l'.
Proof.
  revert p'. induction p as [|a p IH]; intros [|a' p'] HL E; simpl in *; try discriminate; auto.
  inversion E; subst. destruct (IH p') as [-> ->]; auto.
Qed.

Lemma removelast_snoc {X} (l : list X) x : removelast (l ++ [x]) = l.
Proof. apply removelast_last. Qed.
Lemma last_snoc {X} (l : list X) x dx : last (l ++ [x]) dx = x.
Proof. apply last_last. Qed.

(* ------------------------------------------------------------------ closed form of the forward *)
Lemma unfold_args_some sh dimension size step d sz st :
  unfold_args sh dimension size step = Some (d, sz, st) ->
  norm_axis (length sh) dimension = Some d /\ d < length sh /\
  0 < sz /\ 0 < st /\ sz <= nth d sh 0 /\ Z.of_nat sz = size /\ Z.of_nat st = step.
Proof.
  unfold unfold_args, norm_axis. set (n := Z.of_nat (length sh)).
  destruct ((dimension >=? n)%Z || (dimension <? - n)%Z) eqn:E1; try discriminate.
  apply orb_false_iff in E1 as [A B]. rewrite Z.geb_leb in A. apply Z.leb_gt in A. apply Z.ltb_ge in B.
  destruct (Z.leb_spec size 0); try discriminate. destruct (Z.leb_spec step 0); try discriminate.
  match goal with |- context[(?a <? size)%Z] => destruct (Z.ltb_spec a size) end; try discriminate.
  intros X; inversion X; subst. clear X.
  destruct (Z.ltb_spec dimension 0).
  - assert (E : (0 <=? dimension)%Z && (dimension <? n)%Z = false) by (apply andb_false_iff; left; apply Z.leb_gt; lia).
    rewrite E. assert (E' : (- n <=? dimension)%Z = true) by (apply Z.leb_le; lia). rewrite E'. simpl.
    repeat split; auto; try lia.
  - assert (E : (0 <=? dimension)%Z && (dimension <? n)%Z = true) by (apply andb_true_iff; split; [apply Z.leb_le|apply Z.ltb_lt]; lia).
    rewrite E. repeat split; auto; try lia.
Qed.

Definition nwin (L sz st : nat) : nat := (L - sz) / st + 1.

Lemma nwin_eq L sz st : 0 < st -> sz <= L -> (L - sz + 1 + st - 1) / st = nwin L sz st.
Proof.
  intros Hst Hsz. unfold nwin. replace (L - sz + 1 + st - 1) with (L - sz + 1 * st) by lia.
  rewrite Nat.div_add by lia. reflexivity.
Qed.

Lemma nwin_bound L sz st w k : 0 < st -> sz <= L -> w < nwin L sz st -> k < sz -> w * st + k < L.
Proof.
  intros Hst Hsz Hw Hk. unfold nwin in Hw.
  assert (w <= (L - sz) / st) by lia.
  assert (w * st <= L - sz). { transitivity ((L - sz) / st * st). nia. rewrite Nat.mul_comm. apply Nat.mul_div_le. lia. }
  lia.
Qed.

Lemma fwd_unfold_closed sh dimension size step op :
  fwd_unfold_dim sh dimension size step = Some op ->
  exists d sz st pre L post,
    unfold_args sh dimension size step = Some (d, sz, st) /\
    sh = pre ++ L :: post /\ length pre = d /\ 0 < sz /\ 0 < st /\ sz <= L /\
    g_in op = sh /\
    g_out op = pre ++ nwin L sz st :: post ++ [sz] /\
    forall p w q k, length p = d -> length q = length post ->
      g_phi op (p ++ w :: q ++ [k]) = Some (p ++ (w * st + k) :: q).
Proof.
  unfold fwd_unfold_dim. destruct (unfold_args sh dimension size step) as [[[d sz] st]|] eqn:Ua; try discriminate.
  intros X; inversion X; subst; clear X.
  destruct (unfold_args_some _ _ _ _ _ _ _ Ua) as (_ & Hd & Hsz & Hst & Hle & _ & _).
  destruct (split_at sh d 0 Hd) as [Esh Lp].
  set (pre := firstn d sh) in *. set (L := nth d sh 0) in *. set (post := skipn (S d) sh) in *.
  exists d, sz, st, pre, L, post. repeat split; auto.
  - cbn [compose_op g_out step_op window_op]. fold L. rewrite Esh. rewrite <- Lp.
    rewrite upd_nth_mid. rewrite <- app_assoc. cbn [app]. rewrite nth_mid, upd_nth_mid.
    rewrite nwin_eq by auto. reflexivity.
  - intros p w q k Lpp Lq. cbn [compose_op g_phi step_op window_op g_out]. rewrite <- Lpp.
    rewrite nth_mid, upd_nth_mid.
    replace (p ++ w * st :: q ++ [k]) with ((p ++ w * st :: q) ++ [k]) by (now rewrite <- app_assoc).
    rewrite removelast_snoc, last_snoc. now rewrite nth_mid, upd_nth_mid.
Qed.

(* every index of the result splits as p ++ w :: q ++ [k] *)
Lemma idxs_split pre nw post sz j :
  In j (idxs (pre ++ nw :: post ++ [sz])) <->
  exists p w q k, j = p ++ w :: q ++ [k] /\ In p (idxs pre) /\ w < nw /\ In q (idxs post) /\ k < sz.
Proof.
  split.
  - intros Hj. apply in_idxs in Hj. apply Forall2_app_inv_r in Hj as (p & r & Fp & Fr & ->).
    inversion Fr as [|w nw' r' rest Hw Fr']; subst.
    apply Forall2_app_inv_r in Fr' as (q & kk & Fq & Fk & ->).
    inversion Fk as [|k sz' t t' Hk Ft]; subst. inversion Ft; subst.
    exists p, w, q, k. repeat split; auto; now apply in_idxs.
  - intros (p & w & q & k & -> & Hp & Hw & Hq & Hk). apply in_idxs. apply in_idxs in Hp. apply in_idxs in Hq.
    apply Forall2_app; auto. constructor; auto. apply Forall2_app; auto.
Qed.

Lemma idxs_split3 pre L post i :
  In i (idxs (pre ++ L :: post)) <-> exists p x q, i = p ++ x :: q /\ In p (idxs pre) /\ x < L /\ In q (idxs post).
Proof.
  split.
  - intros Hi. apply in_idxs in Hi. apply Forall2_app_inv_r in Hi as (p & r & Fp & Fr & ->).
    inversion Fr as [|x L' q rest Hx Fq]; subst. exists p, x, q. repeat split; auto; now apply in_idxs.
  - intros (p & x & q & -> & Hp & Hx & Hq). apply in_idxs. apply in_idxs in Hp. apply in_idxs in Hq.
    apply Forall2_app; auto.
Qed.

Theorem unfold_maps_into sh dimension size step op :
  fwd_unfold_dim sh dimension size step = Some op -> maps_into op.
Proof.
  intros F. destruct (fwd_unfold_closed _ _ _ _ _ F) as (d & sz & st & pre & L & post & _ & Esh & Lp & Hsz & Hst & Hle & Ei & Eo & Phi).
  intros j Hj. rewrite Eo in Hj. apply idxs_split in Hj as (p & w & q & k & -> & Hp & Hw & Hq & Hk).
  exists (p ++ (w * st + k) :: q). split.
  - apply Phi. apply in_idxs_length in Hp. lia. now apply in_idxs_length in Hq.
  - rewrite Ei, Esh. apply idxs_split3. exists p, (w * st + k), q. repeat split; auto. now apply (nwin_bound L sz st).
Qed.

(* ------------------------------------------------------------------ the backward loop *)
Section UnfoldBackward.
Context {A : Type} `{ScalarLaws A}.

Lemma fold_cond_add (cond : nat -> idx -> bool) (c : nat -> idx -> A) (ws : list nat) : forall (acc : idx -> A) i,
  fold_left (fun (acc : idx -> A) (w : nat) => fun i => if cond w i then sadd (acc i) (c w i) else acc i) ws acc i
  = sadd (acc i) (isum ws (fun w => if cond w i then c w i else s0)).
Proof.
  induction ws as [|w ws IH]; intros acc i; simpl.
  - unfold isum; simpl. now rewrite sadd_0_r.
  - rewrite IH. unfold isum; simpl. fold (isum ws (fun w0 => if cond w0 i then c w0 i else s0)).
    destruct (cond w i). now rewrite sadd_assoc. now rewrite sadd_0_l.
Qed.

(* summing over a list split by a key *)
Lemma isum_by_key {J} (lj : list J) (key : J -> nat) (keys : list nat) (F : J -> A) :
  NoDup keys -> (forall j, In j lj -> In (key j) keys) ->
  isum lj F = isum keys (fun w => isum lj (fun j => if key j =? w then F j else s0)).
Proof.
  intros ND Hk. rewrite isum_exchange. apply isum_ext. intros j Hj. symmetry.
  apply (isum_pick Nat.eqb Nat.eqb_eq keys (key j) (fun _ => F j)); auto.
Qed.

Lemma isum_one_hit {J} (lj : list J) (P : J -> bool) (g : J -> A) (j0 : J)
      (eqb : J -> J -> bool) (eqb_spec : forall a b, eqb a b = true <-> a = b) :
  NoDup lj -> In j0 lj -> P j0 = true -> (forall j, In j lj -> P j = true -> j = j0) ->
  isum lj (fun j => if P j then g j else s0) = g j0.
Proof.
  intros ND Hin Hp Hu.
  transitivity (isum lj (fun j => if eqb j0 j then g j else s0)).
  - apply isum_ext. intros j Hj. destruct (P j) eqn:E.
    + rewrite (Hu j Hj E). assert (X : eqb j0 j0 = true) by now apply eqb_spec. now rewrite X.
    + destruct (eqb j0 j) eqn:E2; auto. apply eqb_spec in E2. subst. congruence.
  - apply (isum_pick eqb eqb_spec); auto.
Qed.

Lemma isum_no_hit {J} (lj : list J) (P : J -> bool) (g : J -> A) :
  (forall j, In j lj -> P j = false) -> isum lj (fun j => if P j then g j else s0) = s0.
Proof.
  intros Hn. transitivity (isum lj (fun _ : J => s0)). apply isum_ext. intros j Hj. now rewrite Hn. apply isum_zero.
Qed.

(* what moveaxis(-1 -> d) of grad[..., w, ...] reads *)
Lemma moveaxis_last_to_d (pi qi : idx) x n :
  n = S (length pi + length qi) ->
  map (fun a => nth (mv (length pi) (n - 1) a) (pi ++ x :: qi) 0) (seq 0 n) = pi ++ qi ++ [x].
Proof.
  intros En. set (d := length pi). apply (nth_ext _ _ 0 0).
  - rewrite map_length, seq_length, !app_length. simpl. lia.
  - intros a Ha. rewrite map_length, seq_length in Ha. rewrite nth_map_seq by auto. unfold mv.
    destruct (Nat.eqb_spec a (n - 1)).
    + subst a. unfold d. rewrite nth_mid. rewrite app_assoc. rewrite app_nth2; rewrite app_length; try lia.
      replace (n - 1 - (length pi + length qi)) with 0 by lia. reflexivity.
    + destruct (Nat.ltb_spec a (n - 1)); try lia. cbn zeta. destruct (Nat.ltb_spec a d).
      * rewrite !app_nth1 by (fold d; lia). reflexivity.
      * rewrite app_nth2 by (fold d; lia). fold d. replace (S a - d) with (S (a - d)) by lia. cbn [nth].
        rewrite app_nth2 by (fold d; lia). fold d. rewrite app_nth1 by lia. reflexivity.
Qed.

Theorem unfold_bwd_is_scatter sh dimension size step op d sz st (g : idx -> A) :
  fwd_unfold_dim sh dimension size step = Some op ->
  unfold_args sh dimension size step = Some (d, sz, st) ->
  exists b, bwd_unfold_dim (g_out op) sh d sz st g = Some b /\
            forall i, In i (idxs sh) -> b i = tscatter op g i.
Proof.
  intros F Ua. destruct (fwd_unfold_closed _ _ _ _ _ F) as (d' & sz' & st' & pre & L & post & Ua' & Esh & Lp & Hsz & Hst & Hle & Ei & Eo & Phi).
  rewrite Ua in Ua'. injection Ua' as <- <- <-.
  set (nw := nwin L sz st) in *.
  unfold bwd_unfold_dim. rewrite Eo. rewrite <- Lp. rewrite nth_mid, remove_at_mid.
  set (n := length (pre ++ post ++ [sz])).
  assert (En : n = S (length pre + length post)) by (unfold n; rewrite !app_length; simpl; lia).
  assert (Na : norm_axis n (-1) = Some (n - 1)).
  { unfold norm_axis. assert (E : (0 <=? -1)%Z && (-1 <? Z.of_nat n)%Z = false) by reflexivity. rewrite E.
    assert (E2 : (-1 <? 0)%Z && (- Z.of_nat n <=? -1)%Z = true) by (apply andb_true_iff; split; [reflexivity|apply Z.leb_le; lia]).
    rewrite E2. f_equal. lia. }
  assert (Nd : norm_axis n (Z.of_nat (length pre)) = Some (length pre)).
  { unfold norm_axis. assert (E : (0 <=? Z.of_nat (length pre))%Z && (Z.of_nat (length pre) <? Z.of_nat n)%Z = true)
      by (apply andb_true_iff; split; [apply Z.leb_le|apply Z.ltb_lt]; lia). rewrite E. now rewrite Nat2Z.id. }
  rewrite (np_moveaxis_is_some (pre ++ post ++ [sz]) (-1) (Z.of_nat (length pre)) (n - 1) (length pre)) by auto.
  fold n.
  assert (Guard : forallb (fun w => w * st + sz <=? nth (length pre) sh 0) (seq 0 nw) = true).
  { apply forallb_forall. intros w Hw. apply in_seq in Hw. apply Nat.leb_le. rewrite Esh, nth_mid.
    destruct sz as [|sz']. lia. pose proof (nwin_bound L (S sz') st w sz' Hst Hle). fold nw in H1. lia. }
  rewrite Guard. cbn [negb]. eexists. split. reflexivity.
  intros i Hi. rewrite fold_cond_add, sadd_0_l.
  (* the scatter, split by window *)
  unfold tscatter, scatter. rewrite Eo.
  rewrite (isum_by_key (idxs (pre ++ nw :: post ++ [sz])) (fun j => nth (length pre) j 0) (seq 0 nw)).
  2: apply seq_NoDup.
  2:{ intros j Hj. apply idxs_split in Hj as (p & w & q & k & -> & Hp & Hw & Hq & Hk).
      apply in_idxs_length in Hp. rewrite <- Hp, nth_mid. apply in_seq. lia. }
  apply isum_ext. intros w Hw. apply in_seq in Hw.
  rewrite Esh in Hi. apply idxs_split3 in Hi as (pi & x & qi & -> & Hpi & Hx & Hqi).
  pose proof (in_idxs_length _ _ Hpi) as Lpi. pose proof (in_idxs_length _ _ Hqi) as Lqi.
  rewrite <- Lpi. rewrite nth_mid, upd_nth_mid.
  (* the value read through moveaxis *)
  assert (Moved : forall v, apply_op (perm_op (pre ++ post ++ [sz]) (map (mv (n - 1) (length pre)) (seq 0 n)))
                                    (fun j' => g (insert_at (length pi) w j')) (pi ++ v :: qi)
                            = g (pi ++ w :: qi ++ [v])).
  { intros v. unfold apply_op, tgather, gather.
    rewrite (perm_op_phi n (mv (n - 1) (length pre)) (mv (length pre) (n - 1))); auto.
    - rewrite <- Lpi. rewrite moveaxis_last_to_d by lia. now rewrite insert_at_mid.
    - intros a Ha. apply mv_lt; lia.
    - intros k Hk. apply (mv_mv n); lia.
    - intros a Ha. apply (mv_mv n); lia. }
  rewrite Lpi at 1. rewrite Moved.
  set (P := fun j : idx => (nth (length pi) j 0 =? w) &&
                           match g_phi op j with Some i' => idx_eqb i' (pi ++ x :: qi) | None => false end).
  transitivity (isum (idxs (pre ++ nw :: post ++ [sz])) (fun j => if P j then g j else s0)).
  2:{ apply isum_ext. intros j Hj. unfold P. rewrite Lpi. destruct (nth (length pre) j 0 =? w); simpl; auto.
      destruct (g_phi op j) as [i'|]; auto. }
  destruct ((w * st <=? x) && (x <? w * st + sz)) eqn:Win.
  - apply andb_true_iff in Win as [W1 W2]. apply Nat.leb_le in W1. apply Nat.ltb_lt in W2. symmetry.
    apply (isum_one_hit _ P g (pi ++ w :: qi ++ [x - w * st]) idx_eqb idx_eqb_spec).
    + apply nodup_idxs.
    + apply idxs_split. exists pi, w, qi, (x - w * st). repeat split; auto; lia.
    + unfold P. rewrite nth_mid, Nat.eqb_refl. rewrite Phi by lia. simpl.
      apply idx_eqb_spec. repeat f_equal. lia.
    + intros j Hj Pj. apply idxs_split in Hj as (p & w' & q & k & -> & Hp & Hw' & Hq & Hk).
      pose proof (in_idxs_length _ _ Hp) as Lp'. pose proof (in_idxs_length _ _ Hq) as Lq'.
      unfold P in Pj. apply andb_true_iff in Pj as [P1 P2].
      replace (length pi) with (length p) in P1 by lia. rewrite nth_mid in P1. apply Nat.eqb_eq in P1. subst w'.
      rewrite Phi in P2 by lia. apply idx_eqb_spec in P2.
      apply app_inv_len in P2. 2: lia.
      destruct P2 as [-> P2]. inversion P2; subst. repeat f_equal. lia.
  - symmetry. apply isum_no_hit. intros j Hj. apply idxs_split in Hj as (p & w' & q & k & -> & Hp & Hw' & Hq & Hk).
    pose proof (in_idxs_length _ _ Hp) as Lp'. pose proof (in_idxs_length _ _ Hq) as Lq'.
    unfold P. destruct (nth (length pi) (p ++ w' :: q ++ [k]) 0 =? w) eqn:E1; simpl; auto.
    replace (length pi) with (length p) in E1 by lia. rewrite nth_mid in E1. apply Nat.eqb_eq in E1. subst w'.
    rewrite Phi by lia. destruct (idx_eqb (p ++ (w * st + k) :: q) (pi ++ x :: qi)) eqn:E2; auto.
    apply idx_eqb_spec in E2. apply app_inv_len in E2. 2: lia.
    destruct E2 as [_ E2]. inversion E2; subst.
    exfalso. apply andb_false_iff in Win as [W|W]; [apply Nat.leb_gt in W|apply Nat.ltb_ge in W]; lia.
Qed.
End UnfoldBackward.
