(* Soundness of the boolean checkers of IR/Census.v: what a `forallb checker rows = true` computation means as a Prop.
   Everything is stated for arbitrary row lists; Props/C19.v instantiates them with the generated lists.               *)
From Coq Require Import List String Bool Arith.
Import ListNotations.
Open Scope string_scope.
From SG Require Import IR.Census.

Lemma str_eqb_eq a b : str_eqb a b = true <-> a = b.
Proof. unfold str_eqb. destruct (string_dec a b) as [E|E]; split; intro H; auto; discriminate. Qed.

Lemma use_kind_ok_iff k : use_kind_ok k = true <-> (k = Membership \/ k = Add \/ k = Size).
Proof.
  destruct k; cbn [use_kind_ok]; split; intro H; auto;
    try discriminate; destruct H as [H|[H|H]]; discriminate.
Qed.

(* ---- draws ------------------------------------------------------------------------------------------------------------ *)
Lemma draw_ok_sound d :
  draw_ok d = true -> d_class d <> AddressOrHash -> d_class d = GlobalNumpy \/ d_class d = GlobalPython.
Proof.
  unfold draw_ok. destruct (d_class d); intros H N; auto; try discriminate. now contradiction N.
Qed.

Lemma draws_global ds :
  forallb draw_ok ds = true ->
  forall d, In d ds -> d_class d <> AddressOrHash -> d_class d = GlobalNumpy \/ d_class d = GlobalPython.
Proof. intros H d Hin. apply draw_ok_sound. rewrite forallb_forall in H. now apply H. Qed.

Lemma draws_refuted ds :
  forallb draw_ok ds = false ->
  exists d, In d ds /\ (d_class d = LocalGenerator \/ d_class d = OsEntropy \/ d_class d = Clock).
Proof.
  induction ds as [|d t IH]; cbn [forallb]; [discriminate|].
  destruct (draw_ok d) eqn:E; cbn [andb]; intro H.
  - destruct (IH H) as (x & Hx & Hc). exists x. split; [now right|exact Hc].
  - exists d. split; [now left|]. unfold draw_ok in E. destruct (d_class d); try discriminate; auto.
Qed.

Lemma reseed_ok_sound d :
  reseed_ok d = true -> is_reseed d = true -> d_file d = "utils.py" /\ d_func d = "manual_seed".
Proof.
  unfold reseed_ok. intros H R. rewrite R in H. cbn [negb orb] in H.
  apply andb_true_iff in H. destruct H as [H1 H2]. split; now apply str_eqb_eq.
Qed.

(* ---- manual_seed ------------------------------------------------------------------------------------------------------ *)
Lemma seed_stmt_is_sound c s : seed_stmt_is c s = true -> ss_callee s = c /\ ss_arg s = ArgParam.
Proof.
  unfold seed_stmt_is. intro H. apply andb_true_iff in H. destruct H as [H1 H2]. split.
  - destruct (ss_callee s), c; cbn [seedc_eqb] in H1; try discriminate; reflexivity.
  - destruct (ss_arg s); [reflexivity|discriminate].
Qed.

Lemma seed_body_ok_sound b :
  seed_body_ok b = true ->
  exists x y, b = [x; y] /\ ss_arg x = ArgParam /\ ss_arg y = ArgParam /\
    ((ss_callee x = SeedNumpy /\ ss_callee y = SeedPython) \/ (ss_callee x = SeedPython /\ ss_callee y = SeedNumpy)).
Proof.
  destruct b as [|x [|y [|z t]]]; cbn [seed_body_ok]; try discriminate. intro H.
  exists x, y. split; [reflexivity|]. apply orb_true_iff in H. destruct H as [H|H];
    apply andb_true_iff in H; destruct H as [H1 H2];
    apply seed_stmt_is_sound in H1; apply seed_stmt_is_sound in H2;
    destruct H1 as [C1 A1], H2 as [C2 A2]; repeat split; auto.
Qed.

Lemma seeds_sound b c : seeds b c = true -> exists s, In s b /\ ss_callee s = c /\ ss_arg s = ArgParam.
Proof.
  unfold seeds. intro H. apply existsb_exists in H. destruct H as (s & Hin & Hs).
  exists s. split; [exact Hin|]. now apply seed_stmt_is_sound.
Qed.

Lemma family_seeded_sound b ds :
  forallb (family_seeded b) ds = true ->
  forall d, In d ds ->
    (d_class d = GlobalNumpy -> exists s, In s b /\ ss_callee s = SeedNumpy /\ ss_arg s = ArgParam) /\
    (d_class d = GlobalPython -> exists s, In s b /\ ss_callee s = SeedPython /\ ss_arg s = ArgParam).
Proof.
  intros H d Hin. rewrite forallb_forall in H. specialize (H d Hin). unfold family_seeded in H.
  split; intro C; rewrite C in H; now apply seeds_sound.
Qed.

(* ---- sets --------------------------------------------------------------------------------------------------------------- *)
Lemma set_uses_sound us :
  forallb set_use_ok us = true ->
  forall u, In u us -> is_visual (su_file u) = false ->
    su_kind u = Membership \/ su_kind u = Add \/ su_kind u = Size.
Proof.
  intros H u Hin Hv. rewrite forallb_forall in H. specialize (H u Hin). unfold set_use_ok in H.
  rewrite Hv in H. cbn [orb] in H. now apply use_kind_ok_iff.
Qed.

Lemma set_uses_refuted us :
  forallb set_use_ok us = false ->
  exists u, In u us /\ is_visual (su_file u) = false /\
    (su_kind u = Iterate \/ su_kind u = Escape \/ su_kind u = OtherUse).
Proof.
  induction us as [|u t IH]; cbn [forallb]; [discriminate|].
  destruct (set_use_ok u) eqn:E; cbn [andb]; intro H.
  - destruct (IH H) as (x & Hx & Hc). exists x. split; [now right|exact Hc].
  - exists u. split; [now left|]. unfold set_use_ok in E. apply orb_false_iff in E. destruct E as [E1 E2].
    split; [exact E1|]. destruct (su_kind u); cbn [use_kind_ok] in E2; try discriminate; auto.
Qed.

Lemma same_var_sound file owner var u :
  same_var file owner var u = true <-> (su_file u = file /\ su_owner u = owner /\ su_var u = var).
Proof.
  unfold same_var. rewrite !andb_true_iff, !str_eqb_eq. tauto.
Qed.

Lemma var_membership_only_sound us file owner var :
  var_membership_only us file owner var = true ->
  (exists u, In u us /\ su_file u = file /\ su_owner u = owner /\ su_var u = var) /\
  (forall u, In u us -> su_file u = file -> su_owner u = owner -> su_var u = var ->
     su_kind u = Membership \/ su_kind u = Add \/ su_kind u = Size).
Proof.
  unfold var_membership_only. intro H. apply andb_true_iff in H. destruct H as [H1 H2]. split.
  - apply existsb_exists in H1. destruct H1 as (u & Hin & Hu). exists u. split; [exact Hin|]. now apply same_var_sound.
  - intros u Hin Hf Ho Hv. rewrite forallb_forall in H2. specialize (H2 u Hin).
    assert (S : same_var file owner var u = true) by (apply same_var_sound; auto).
    rewrite S in H2. cbn [negb orb] in H2. now apply use_kind_ok_iff.
Qed.

(* ---- id / hash ------------------------------------------------------------------------------------------------------------ *)
Lemma hash_rows_sound us ds :
  forallb (hash_row_ok us) ds = true ->
  forall d, In d ds -> d_class d = AddressOrHash -> is_visual (d_file d) = false ->
    d_use d = DedupKey /\
    (exists u, In u us /\ su_file u = d_file d /\ su_owner u = d_owner d /\ su_var u = d_set d) /\
    (forall u, In u us -> su_file u = d_file d -> su_owner u = d_owner d -> su_var u = d_set d ->
       su_kind u = Membership \/ su_kind u = Add \/ su_kind u = Size).
Proof.
  intros H d Hin Hc Hv. rewrite forallb_forall in H. specialize (H d Hin). unfold hash_row_ok in H.
  rewrite Hc, Hv in H. cbn [orb] in H. destruct (d_use d); try discriminate.
  split; [reflexivity|]. now apply var_membership_only_sound.
Qed.

Lemma sorts_sound ss :
  forallb sort_ok ss = true -> forall s, In s ss -> so_has_key s = true \/ so_elems s = ElemsNumeric.
Proof.
  intros H s Hin. rewrite forallb_forall in H. specialize (H s Hin). unfold sort_ok in H.
  apply orb_true_iff in H. destruct H as [H|H]; [now left|right]. destruct (so_elems s); [reflexivity|discriminate].
Qed.

Lemma sorts_refuted ss :
  forallb sort_ok ss = false -> exists s, In s ss /\ so_has_key s = false /\ so_elems s = ElemsUnknown.
Proof.
  induction ss as [|s t IH]; cbn [forallb]; [discriminate|].
  destruct (sort_ok s) eqn:E; cbn [andb]; intro H.
  - destruct (IH H) as (x & Hx & Hc). exists x. split; [now right|exact Hc].
  - exists s. split; [now left|]. unfold sort_ok in E. apply orb_false_iff in E. destruct E as [E1 E2].
    split; [exact E1|]. destruct (so_elems s); [discriminate|reflexivity].
Qed.

Lemma uninit_sound xs :
  forallb uninit_ok xs = true -> forall s, In s xs -> s_file s = "tensor.py" /\ s_func s = "empty".
Proof.
  intros H s Hin. rewrite forallb_forall in H. specialize (H s Hin). unfold uninit_ok in H.
  apply andb_true_iff in H. destruct H. split; now apply str_eqb_eq.
Qed.

Lemma visual_imports_sound xs :
  forallb visual_import_ok xs = true ->
  forall s, In s xs -> (s_file s = "__init__.py" /\ s_func s = "<module>") \/
                       (s_file s = "tensor.py" /\ s_func s = "Tensor.draw_graph").
Proof.
  intros H s Hin. rewrite forallb_forall in H. specialize (H s Hin). unfold visual_import_ok in H.
  apply orb_true_iff in H. destruct H as [H|H]; apply andb_true_iff in H; destruct H as [H1 H2];
    apply str_eqb_eq in H1; apply str_eqb_eq in H2; auto.
Qed.

(* ---- uninitialised memory reaching state ------------------------------------------------------------------------------ *)
Lemma empty_uses_sound es :
  forallb eu_initialised es = true -> forall r, In r es -> eu_initialised r = true.
Proof. intro H. now apply forallb_forall. Qed.

Lemma empty_uses_refuted es :
  forallb eu_initialised es = false -> exists r, In r es /\ eu_initialised r = false.
Proof.
  induction es as [|r t IH]; cbn [forallb]; [discriminate|].
  destruct (eu_initialised r) eqn:E; cbn [andb]; intro H.
  - destruct (IH H) as (x & Hx & Hc). exists x. split; [now right|exact Hc].
  - exists r. split; [now left|exact E].
Qed.
