(* add / mul: the backward kernels are the VJPs, for every broadcasting pattern; scalar-operand forms. *)
From Coq Require Import List Arith Lia Bool Permutation.
Import ListNotations.
From SG Require Import Base.Sums Base.ScalarExt Base.Cmp NumPy.Index NumPy.Tensor NumPy.Gather NumPy.TensorFn NumPy.Broadcast
  Proofs.IdxSums Proofs.BcastProofs.

(* ---------- facts about broadcast_shapes ---------- *)
Lemma bdim_compat x y d : bdim x y = Some d -> ((x =? d) || (x =? 1)) = true /\ ((y =? d) || (y =? 1)) = true.
Proof.
  unfold bdim. destruct (x =? y) eqn:E.
  - intros [= <-]. apply Nat.eqb_eq in E. subst. rewrite Nat.eqb_refl. auto.
  - destruct (x =? 1) eqn:E1.
    + intros [= <-]. rewrite Nat.eqb_refl. rewrite orb_true_r. auto.
    + destruct (y =? 1) eqn:E2; [|discriminate]. intros [= <-]. rewrite Nat.eqb_refl. rewrite orb_true_r. auto.
Qed.
Lemma bzip_compat : forall x y z, bzip x y = Some z -> bcompat x z = true /\ bcompat y z = true /\ length z = length x /\ length z = length y.
Proof.
  induction x as [|a x IH]; intros [|b y] z E; simpl in E; try discriminate.
  - inversion E; subst. auto.
  - destruct (bdim a b) as [d|] eqn:Ed; [|discriminate]. destruct (bzip x y) as [t|] eqn:Et; [|discriminate].
    inversion E; subst. apply bdim_compat in Ed as [E1 E2]. apply IH in Et as (H1 & H2 & H3 & H4).
    simpl. rewrite E1, E2, H1, H2. auto.
Qed.
Lemma bcompat_pad : forall k a so, bcompat (repeat 1 k ++ a) so = true -> bcompat a (skipn k so) = true.
Proof.
  induction k as [|k IH]; intros a so E; simpl in *. exact E.
  destruct so as [|e so]; [discriminate|]. apply andb_true_iff in E as [_ E]. apply IH. exact E.
Qed.
Lemma bcompat_length : forall a so, bcompat a so = true -> length a = length so.
Proof. induction a as [|d a IH]; intros [|e so] E; simpl in *; try discriminate; auto. apply andb_true_iff in E as [_ E]. f_equal. auto. Qed.

Lemma broadcast_shapes_sound a b so : broadcast_shapes a b = Some so ->
  broadcastable a so = true /\ broadcastable b so = true.
Proof.
  unfold broadcast_shapes. intros E. apply bzip_compat in E as (Ha & Hb & La & Lb).
  unfold pad_left in *. rewrite app_length, repeat_length in La, Lb.
  unfold broadcastable. split; apply andb_true_iff; split.
  - apply Nat.leb_le. lia.
  - replace (length so - length a) with (Nat.max (length a) (length b) - length a) by lia. now apply bcompat_pad.
  - apply Nat.leb_le. lia.
  - replace (length so - length b) with (Nat.max (length a) (length b) - length b) by lia. now apply bcompat_pad.
Qed.

Lemma bdim_absorb_l d e : ((d =? e) || (d =? 1)) = true -> bdim d e = Some e.
Proof.
  unfold bdim. intros E. destruct (d =? e) eqn:E1. apply Nat.eqb_eq in E1. now subst.
  simpl in E. now rewrite E.
Qed.
Lemma bdim_absorb_r d e : ((d =? e) || (d =? 1)) = true -> bdim e d = Some e.
Proof.
  unfold bdim. intros E. destruct (e =? d) eqn:E1. reflexivity.
  rewrite Nat.eqb_sym in E1. rewrite E1 in E. simpl in E.
  destruct (e =? 1) eqn:E2. apply Nat.eqb_eq in E, E2. subst. rewrite Nat.eqb_refl in E1. discriminate.
  now rewrite E.
Qed.
Lemma bzip_absorb_l : forall k s so, bcompat s (skipn k so) = true -> k <= length so ->
  bzip (repeat 1 k ++ s) so = Some so.
Proof.
  induction k as [|k IH]; intros s so E Hk.
  - simpl in *. revert so E Hk. induction s as [|d s IHs]; intros [|e so] E _; simpl in *; try discriminate; auto.
    apply andb_true_iff in E as [E1 E2]. rewrite (bdim_absorb_l _ _ E1), (IHs so E2). reflexivity. lia.
  - destruct so as [|e so]; simpl in Hk. lia. simpl in E. simpl.
    rewrite (IH s so E) by lia. unfold bdim. destruct (1 =? e) eqn:E1. apply Nat.eqb_eq in E1. now subst. reflexivity.
Qed.
Lemma bzip_absorb_r : forall k s so, bcompat s (skipn k so) = true -> k <= length so ->
  bzip so (repeat 1 k ++ s) = Some so.
Proof.
  induction k as [|k IH]; intros s so E Hk.
  - simpl in *. revert so E Hk. induction s as [|d s IHs]; intros [|e so] E _; simpl in *; try discriminate; auto.
    apply andb_true_iff in E as [E1 E2]. rewrite (bdim_absorb_r _ _ E1), (IHs so E2). reflexivity. lia.
  - destruct so as [|e so]; simpl in Hk. lia. simpl in E. simpl.
    rewrite (IH s so E) by lia. unfold bdim. destruct (e =? 1) eqn:E1. apply Nat.eqb_eq in E1. now subst. reflexivity.
Qed.
Lemma broadcast_shapes_absorb_l s so : broadcastable s so = true -> broadcast_shapes s so = Some so.
Proof.
  intros Hb. apply broadcastable_spec in Hb as [Hl Hc]. unfold broadcast_shapes, pad_left.
  rewrite Nat.max_r by lia. rewrite Nat.sub_diag. simpl. apply bzip_absorb_l; auto. lia.
Qed.
Lemma broadcast_shapes_absorb_r s so : broadcastable s so = true -> broadcast_shapes so s = Some so.
Proof.
  intros Hb. apply broadcastable_spec in Hb as [Hl Hc]. unfold broadcast_shapes, pad_left.
  rewrite Nat.max_l by lia. rewrite Nat.sub_diag. simpl. apply bzip_absorb_r; auto. lia.
Qed.
Lemma bcompat_refl : forall s, bcompat s s = true.
Proof. induction s; simpl; auto. rewrite Nat.eqb_refl. auto. Qed.
Lemma broadcastable_refl s : broadcastable s s = true.
Proof. unfold broadcastable. rewrite Nat.leb_refl, Nat.sub_diag. simpl. apply bcompat_refl. Qed.
Lemma broadcastable_nil s : broadcastable [] s = true.
Proof. unfold broadcastable. simpl. rewrite Nat.sub_0_r, skipn_all. reflexivity. Qed.

(* ---------- the broadcast index map ---------- *)
Lemma bm_al_id : forall s j, In j (idxs s) -> bm_al s j = j.
Proof.
  induction s as [|d s IH]; intros j Hj.
  - apply in_idxs_nil in Hj. now subst.
  - destruct j as [|k j]. { apply in_idxs_length in Hj. discriminate. }
    apply in_idxs_cons in Hj as [Hk Hj]. simpl. rewrite IH by auto.
    destruct (d =? 1) eqn:E; auto. apply Nat.eqb_eq in E. f_equal. lia.
Qed.
Lemma bcast_idx_id s j : In j (idxs s) -> bcast_idx s s j = j.
Proof. intros Hj. unfold bcast_idx. rewrite Nat.sub_diag. simpl. now apply bm_al_id. Qed.
Lemma bm_al_in : forall s sg q, bcompat s sg = true -> In q (idxs sg) -> In (bm_al s q) (idxs s).
Proof.
  induction s as [|d s IH]; intros [|e sg] q Hc Hq; simpl in Hc; try discriminate.
  - simpl. auto.
  - destruct q as [|k q]. { apply in_idxs_length in Hq. discriminate. }
    apply in_idxs_cons in Hq as [Hk Hq]. apply andb_true_iff in Hc as [Hd Hc].
    cbn [bm_al]. apply in_idxs_cons. split; [|eapply IH; eauto].
    destruct (d =? 1) eqn:E. apply Nat.eqb_eq in E. lia.
    simpl in Hd. rewrite orb_false_r in Hd. apply Nat.eqb_eq in Hd. lia.
Qed.
Lemma in_idxs_skipn : forall m so j, In j (idxs so) -> In (skipn m j) (idxs (skipn m so)).
Proof.
  intros m so j. rewrite !in_idxs. intros F. revert m. induction F; intros m; destruct m; simpl; auto.
Qed.
Lemma bcast_idx_in s so j : broadcastable s so = true -> In j (idxs so) -> In (bcast_idx s so j) (idxs s).
Proof.
  intros Hb Hj. apply broadcastable_spec in Hb as [Hl Hc]. unfold bcast_idx.
  eapply bm_al_in; eauto. now apply in_idxs_skipn.
Qed.

Section P.
Context {A:Type} `{ScalarLaws A}.

Lemma tscatter_ext so phi (g1 g2:idx->A) i :
  (forall j, In j (idxs so) -> g1 j = g2 j) -> tscatter so phi g1 i = tscatter so phi g2 i.
Proof.
  intros E. unfold tscatter, scatter. apply isum_ext. intros j Hj. rewrite (E j Hj). reflexivity.
Qed.
Lemma dot_ext {K} (l:list K) (u u' v v':K->A) :
  (forall k, In k l -> u k = u' k) -> (forall k, In k l -> v k = v' k) -> dot l u v = dot l u' v'.
Proof. intros E1 E2. unfold dot. apply isum_ext. intros k Hk. now rewrite E1, E2. Qed.

(* gather/scatter adjointness specialised to the broadcast map *)
Lemma bcast_adjoint s so (g x:idx->A) : broadcastable s so = true ->
  dot (idxs so) g (fun j => x (bcast_idx s so j)) = dot (idxs s) (tscatter so (bcast_map s so) g) x.
Proof.
  intros Hb.
  apply (gather_scatter_adjoint idx idx idx_eqb idx_eqb_spec (idxs s) (idxs so) (nodup_idxs s) (bcast_map s so) x g).
  intros j i Hj E. unfold bcast_map in E. inversion E; subst. now apply bcast_idx_in.
Qed.

(* the scatter along the identity broadcast is the identity *)
Lemma tscatter_id so (g:idx->A) i : In i (idxs so) -> tscatter so (bcast_map so so) g i = g i.
Proof.
  intros Hi. unfold bcast_map. rewrite tscatter_unfold.
  transitivity (isum (idxs so) (fun j => if idx_eqb i j then g j else s0)).
  - apply isum_ext. intros j Hj. rewrite bcast_idx_id by auto.
    destruct (idx_eqb j i) eqn:E1, (idx_eqb i j) eqn:E2; auto.
    + apply idx_eqb_spec in E1. subst. rewrite idx_eqb_refl in E2. discriminate.
    + apply idx_eqb_spec in E2. subst. rewrite idx_eqb_refl in E1. discriminate.
  - apply (isum_pick idx_eqb idx_eqb_spec). apply nodup_idxs. exact Hi.
Qed.

(* unbroadcast of something that only matters on the in-range positions *)
Lemma unbroadcast_scatter_ext s so (g:tensor A) (g0:idx->A) :
  broadcastable s so = true -> tshape g = so -> (forall j, In j (idxs so) -> tat g j = g0 j) ->
  exists r, unbroadcast g s = Some r /\ tshape r = s /\
    forall i, In i (idxs s) -> tat r i = tscatter so (bcast_map s so) g0 i.
Proof.
  intros Hb Hg E. destruct (unbroadcast_is_scatter_proof s so g Hb Hg) as (r & Hr & Hs & Ha).
  exists r. repeat split; auto. intros i Hi. rewrite Ha by auto. now apply tscatter_ext.
Qed.

(* ================= add ================= *)
Theorem add_vjp_proof sa sb so (g:tensor A) :
  broadcast_shapes sa sb = Some so -> tshape g = so ->
  exists ga gb, add_backward g sa sb = Some (ga, gb) /\ tshape ga = sa /\ tshape gb = sb /\
    (forall i, In i (idxs sa) -> tat ga i = tscatter so (bcast_map sa so) (tat g) i) /\
    (forall i, In i (idxs sb) -> tat gb i = tscatter so (bcast_map sb so) (tat g) i) /\
    forall a b, tshape a = sa -> tshape b = sb ->
      exists o, add_forward a b = Some o /\ tshape o = so /\
        dot (idxs so) (tat g) (tat o) = sadd (dot (idxs sa) (tat ga) (tat a)) (dot (idxs sb) (tat gb) (tat b)).
Proof.
  intros Eb Hg. destruct (broadcast_shapes_sound _ _ _ Eb) as [Ba Bb].
  unfold add_backward, ones_mul. rewrite Hg.
  rewrite (broadcast_shapes_absorb_l sa so Ba), (broadcast_shapes_absorb_l sb so Bb). cbn [obind].
  destruct (unbroadcast_scatter_ext sa so (bcast_to so g) (tat g) Ba eq_refl) as (ra & Era & Hsa & Haa).
  { intros j Hj. simpl. rewrite Hg. now rewrite bcast_idx_id. }
  destruct (unbroadcast_scatter_ext sb so (bcast_to so g) (tat g) Bb eq_refl) as (rb & Erb & Hsb & Hab).
  { intros j Hj. simpl. rewrite Hg. now rewrite bcast_idx_id. }
  rewrite Era, Erb. cbn [obind]. exists ra, rb. repeat split; auto.
  intros a b Ha Hb. unfold add_forward, badd, bop. rewrite Ha, Hb, Eb. eexists. split. reflexivity. split. reflexivity.
  cbn [tat]. unfold dot at 1.
  transitivity (isum (idxs so) (fun k => sadd (smul (tat g k) (tat a (bcast_idx sa so k))) (smul (tat g k) (tat b (bcast_idx sb so k))))).
  { apply isum_ext. intros k _. apply smul_add_r. }
  rewrite isum_add. f_equal.
  - fold (dot (idxs so) (tat g) (fun k => tat a (bcast_idx sa so k))). rewrite bcast_adjoint by auto.
    apply dot_ext; auto. intros k Hk. symmetry. now apply Haa.
  - fold (dot (idxs so) (tat g) (fun k => tat b (bcast_idx sb so k))). rewrite bcast_adjoint by auto.
    apply dot_ext; auto. intros k Hk. symmetry. now apply Hab.
Qed.

(* ================= mul ================= *)
Context `{!ScalarMulLaws A}.

Theorem mul_vjp_proof sa sb so (g a b:tensor A) :
  broadcast_shapes sa sb = Some so -> tshape g = so -> tshape a = sa -> tshape b = sb ->
  exists ga gb, mul_backward g a b = Some (ga, gb) /\ tshape ga = sa /\ tshape gb = sb /\
    (forall da, tshape da = sa -> exists o, mul_forward da b = Some o /\ tshape o = so /\
        dot (idxs so) (tat g) (tat o) = dot (idxs sa) (tat ga) (tat da)) /\
    (forall db, tshape db = sb -> exists o, mul_forward a db = Some o /\ tshape o = so /\
        dot (idxs so) (tat g) (tat o) = dot (idxs sb) (tat gb) (tat db)).
Proof.
  intros Eb Hg Ha Hb. destruct (broadcast_shapes_sound _ _ _ Eb) as [Ba Bb].
  unfold mul_backward, bmul, bop. rewrite Hg, Ha, Hb.
  rewrite (broadcast_shapes_absorb_r sa so Ba), (broadcast_shapes_absorb_r sb so Bb). cbn [obind].
  match goal with |- context [unbroadcast ?t sa] =>
    destruct (unbroadcast_scatter_ext sa so t (fun j => smul (tat g j) (tat b (bcast_idx sb so j))) Ba eq_refl) as (ra & Era & Hsa & Haa) end.
  { intros j Hj. cbn [tat]. now rewrite bcast_idx_id. }
  match goal with |- context [unbroadcast ?t sb] =>
    destruct (unbroadcast_scatter_ext sb so t (fun j => smul (tat g j) (tat a (bcast_idx sa so j))) Bb eq_refl) as (rb & Erb & Hsb & Hab) end.
  { intros j Hj. cbn [tat]. now rewrite bcast_idx_id. }
  rewrite Era, Erb. cbn [obind]. exists ra, rb. repeat split; auto.
  - intros da Hda. unfold mul_forward, bmul, bop. rewrite Hda, Hb, Eb. eexists. split. reflexivity. split. reflexivity.
    cbn [tat]. unfold dot at 1.
    transitivity (dot (idxs so) (fun j => smul (tat g j) (tat b (bcast_idx sb so j))) (fun j => tat da (bcast_idx sa so j))).
    { unfold dot. apply isum_ext. intros k _. rewrite (smul_comm (tat da _)). apply smul_assoc. }
    rewrite bcast_adjoint by auto. apply dot_ext; auto. intros k Hk. symmetry. now apply Haa.
  - intros db Hdb. unfold mul_forward, bmul, bop. rewrite Ha, Hdb, Eb. eexists. split. reflexivity. split. reflexivity.
    cbn [tat]. unfold dot at 1.
    transitivity (dot (idxs so) (fun j => smul (tat g j) (tat a (bcast_idx sa so j))) (fun j => tat db (bcast_idx sb so j))).
    { unfold dot. apply isum_ext. intros k _. apply smul_assoc. }
    rewrite bcast_adjoint by auto. apply dot_ext; auto. intros k Hk. symmetry. now apply Hab.
Qed.
End P.
