(* Proofs about State/Trainer.v + State/ModeTree.v (property C20): model.train() / model.eval() issued by
   fit / test reach every submodule, whatever the flags of the module tree were when fit / test was entered. *)
From Coq Require Import List Bool Arith Lia.
Import ListNotations.
From SG Require Import State.ModeTree Proofs.ModeTreeProofs State.Trainer Proofs.TrainerProofs.

(* the module tree below `self.model` along a trace: TrainMode / EvalMode are calls on the root *)
Definition tree_after (t : tree) (tr : list ev) : tree :=
  fold_left (fun t e => match e with TrainMode => set_all true t | EvalMode => set_all false t | _ => t end) tr t.

Lemma tree_follows lp pre : forall t m,
  flag_at t lp = Some (mtrain m) -> flag_at (tree_after t pre) lp = Some (mtrain (mrun m pre)).
Proof.
  induction pre as [|e pre IH]; intros t m H; [exact H|].
  unfold tree_after, mrun. cbn [fold_left]. fold (tree_after (match e with TrainMode => set_all true t | EvalMode => set_all false t | _ => t end) pre).
  fold (mrun (mstep m e) pre). apply IH.
  destruct e; cbn [mstep mtrain]; try exact H; try (eapply flag_set_all; exact H).
  destruct (msaved m); cbn [mtrain]; exact H.
Qed.

Lemma tree_follows_after_mode_call lp b pre t m f :
  flag_at t lp = Some f -> mtrain m = b ->
  flag_at (tree_after (set_all b t) pre) lp = Some (mtrain (mrun m pre)).
Proof.
  intros H Hm. apply tree_follows. rewrite Hm. eapply flag_set_all. exact H.
Qed.

Lemma fit_submodules c epochs t0 g0 sv t lp f pre post :
  1 <= nb c -> val_ok c -> fst (fit c epochs) = pre ++ Forward :: post -> flag_at t lp = Some f ->
  flag_at (tree_after t pre) lp = Some (mtrain (mrun (mstart t0 g0 sv) pre)).
Proof.
  intros Hn Hv E H. rewrite fit_ok in E by assumption. cbn [fst] in E.
  destruct epochs as [|k]; [destruct pre; discriminate|].
  cbn [seq flat_map] in E. unfold epoch_ok at 1, head_evs in E. cbn [app] in E.
  destruct pre as [|x pre']; [discriminate|]. inversion E as [[Hx E']]. subst x.
  unfold tree_after, mrun. cbn [fold_left].
  fold (tree_after (set_all true t) pre'). fold (mrun (mstep (mstart t0 g0 sv) TrainMode) pre').
  eapply tree_follows_after_mode_call; [exact H|reflexivity].
Qed.

Lemma test_submodules nbt t lp f pre post :
  test_trace nbt = pre ++ Forward :: post -> flag_at t lp = Some f ->
  flag_at (tree_after t pre) lp = Some false.
Proof.
  intros E H. destruct (test_clause nbt true true [] pre post E) as [M _]. rewrite <- M.
  unfold test_trace in E. cbn [app] in E.
  destruct pre as [|x pre']; [discriminate|]. inversion E as [[Hx E']]. subst x.
  unfold tree_after, mrun. cbn [fold_left].
  fold (tree_after (set_all false t) pre'). fold (mrun (mstep (mstart true true []) EvalMode) pre').
  eapply tree_follows_after_mode_call; [exact H|reflexivity].
Qed.
