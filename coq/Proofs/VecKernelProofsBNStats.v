(* Batch-norm forward: which statistics it normalises with and the running-statistics update it returns (C13). *)
From Coq Require Import Reals Lra.
From SG Require Import Analysis.Vector Gen.GenVecKernels.
Open Scope R_scope.

Lemma bn_running_stats_update_proof : forall n x weight bias (m v : R) momentum eps,
  (let '(_, rm', rv', mean, var) := batch_norm_forward n x weight bias (Some m) (Some v) true momentum eps in
   rm' = Some (vmean n x * momentum + m * (1 - momentum)) /\
   rv' = Some (vvar n x * (INR n / (INR n - 1)) * momentum + v * (1 - momentum)) /\
   mean = vmean n x /\ var = vvar n x) /\
  (let '(_, rm', rv', mean, var) := batch_norm_forward n x weight bias (Some m) (Some v) false momentum eps in
   rm' = Some m /\ rv' = Some v /\ mean = m /\ var = v).
Proof.
  intros. unfold batch_norm_forward. destruct weight, bias; cbv zeta iota beta; repeat split; reflexivity.
Qed.

