(* Batch normalisation: the generated forward/backward (Gen/GenVecKernels.v), wired as in nn/functional.py,
   on one channel (the vector of all N*spatial entries of that channel; gamma, beta, running statistics scalars).

   modes:  batch statistics  <=>  training = true  \/  (running_mean = None /\ running_var = None)
           running statistics <=> training = false /\ running_mean = Some m /\ running_var = Some v
   (eval mode with exactly one running statistic given is reachable only through the functional API and is
    not covered: PyTorch rejects it; see notes)                                                               *)
From Coq Require Import Reals Lra Lia Arith List Bool.
From Coquelicot Require Import Coquelicot.
From SG Require Import Analysis.Vector Gen.GenVecKernels Proofs.VecKernelProofsBNFwd.
Open Scope R_scope.

Definition bnx_formula (n : nat) (x h : vec) (eps : R) (i : nat) : R :=
  let mean := vmean n x in
  let variance := vvar n x in
  let dvar := vsum n (fun j => (- (1 / 2) * h j) * (x j - mean)) * rpow (variance + eps) (- (3 / 2)) in
  let davg := vsum n (fun j => (- 1) / sqrt (variance + eps) * h j)
              + dvar * vsum n (fun j => (- 2) * (x j - mean)) / INR n in
  h i / sqrt (variance + eps) + 2 * dvar * (x i - mean) / INR n + davg / INR n.

(* ------------------------------------------------------------------ what the generated code is, per mode *)
Lemma bn_grad_x_batch_affine n x gamma b rm rv tr mo eps g i : batch_mode tr rm rv ->
  batch_norm_grad_x n x (Some gamma) b rm rv tr mo eps g i = bnx_formula n x (fun j => g j * gamma) eps i.
Proof.
  intros Hm. unfold batch_norm_grad_x, batch_norm_forward, batch_norm_backward, bnx_formula.
  destruct b, rm, rv, tr; destruct Hm as [Hm|[Hm1 Hm2]]; try discriminate; reflexivity.
Qed.

Lemma bn_grad_x_batch_plain n x b rm rv tr mo eps g i : batch_mode tr rm rv ->
  batch_norm_grad_x n x None b rm rv tr mo eps g i = bnx_formula n x g eps i.
Proof.
  intros Hm. unfold batch_norm_grad_x, batch_norm_forward, batch_norm_backward, bnx_formula.
  destruct b, rm, rv, tr; destruct Hm as [Hm|[Hm1 Hm2]]; try discriminate; reflexivity.
Qed.

Lemma bn_grad_x_eval n x w b m v mo eps g i :
  batch_norm_grad_x n x w b (Some m) (Some v) false mo eps g i = g i * gam w / sqrt (v + eps).
Proof.
  unfold batch_norm_grad_x, batch_norm_forward, batch_norm_backward, gam; destruct w, b; cbv zeta; try reflexivity.
  all: rewrite Rmult_1_r; reflexivity.
Qed.

(* ------------------------------------------------------------------ gamma, beta: every mode *)
(* the statistics the forward actually normalises with (its 4th and 5th results, saved for the backward) *)
Definition bn_mean n x (rm rv : option R) (tr : bool) (mo eps : R) : R :=
  let '(_, _, _, m, _) := batch_norm_forward n x None None rm rv tr mo eps in m.
Definition bn_var n x (rm rv : option R) (tr : bool) (mo eps : R) : R :=
  let '(_, _, _, _, v) := batch_norm_forward n x None None rm rv tr mo eps in v.
Definition bn_u n x rm rv tr mo eps : vec :=
  fun j => (x j - bn_mean n x rm rv tr mo eps) / sqrt (bn_var n x rm rv tr mo eps + eps).

Lemma bn_out_gamma_linear n x gamma' b rm rv tr mo eps j :
  batch_norm_out n x (Some gamma') b rm rv tr mo eps j = bn_u n x rm rv tr mo eps j * gamma' + obeta b.
Proof.
  unfold batch_norm_out, bn_u, bn_mean, bn_var, batch_norm_forward, obeta.
  destruct b, rm, rv, tr; cbv zeta iota beta; ring.
Qed.

Lemma bn_grad_weight_form n x gamma b rm rv tr mo eps g :
  batch_norm_grad_weight n x (Some gamma) b rm rv tr mo eps g =
  Some (vsum n (fun j => g j * bn_u n x rm rv tr mo eps j)).
Proof.
  unfold batch_norm_grad_weight, bn_u, bn_mean, bn_var, batch_norm_forward, batch_norm_backward.
  destruct b, rm, rv, tr; reflexivity.
Qed.

Lemma bn_vjp_gamma_proof : forall n x g gamma b rm rv tr mo eps,
  exists d, batch_norm_grad_weight n x (Some gamma) b rm rv tr mo eps g = Some d /\
    is_derive (fun t => vsum n (fun j => g j * batch_norm_out n x (Some (gamma + t)) b rm rv tr mo eps j)) 0 d.
Proof.
  intros n x g gamma b rm rv tr mo eps.
  set (u := bn_u n x rm rv tr mo eps).
  exists (vsum n (fun j => g j * u j)). split; [apply bn_grad_weight_form|].
  apply (is_derive_ext (fun t => vsum n (fun j => g j * (u j * (gamma + t) + obeta b)))).
  { intros t. apply vsum_ext. intros j _. rewrite bn_out_gamma_linear. reflexivity. }
  apply (is_derive_vsum n (fun j t => g j * (u j * (gamma + t) + obeta b))).
  intros j _. auto_derive; auto. ring.
Qed.

Lemma bn_out_beta_linear n x w beta' rm rv tr mo eps j :
  batch_norm_out n x w (Some beta') rm rv tr mo eps j = bn_u n x rm rv tr mo eps j * gam w + beta'.
Proof.
  unfold batch_norm_out, bn_u, bn_mean, bn_var, batch_norm_forward, gam.
  destruct w, rm, rv, tr; cbv zeta iota beta; ring.
Qed.

Lemma bn_grad_bias_form n x w beta rm rv tr mo eps g :
  batch_norm_grad_bias n x w (Some beta) rm rv tr mo eps g = Some (vsum n g).
Proof.
  unfold batch_norm_grad_bias, batch_norm_forward, batch_norm_backward.
  destruct w, rm, rv, tr; reflexivity.
Qed.

Lemma bn_vjp_beta_proof : forall n x g w beta rm rv tr mo eps,
  exists d, batch_norm_grad_bias n x w (Some beta) rm rv tr mo eps g = Some d /\
    is_derive (fun t => vsum n (fun j => g j * batch_norm_out n x w (Some (beta + t)) rm rv tr mo eps j)) 0 d.
Proof.
  intros n x g w beta rm rv tr mo eps.
  set (c := fun j => bn_u n x rm rv tr mo eps j * gam w).
  exists (vsum n g). split; [apply bn_grad_bias_form|].
  apply (is_derive_ext (fun t => vsum n (fun j => g j * (c j + (beta + t))))).
  { intros t. apply vsum_ext. intros j _. rewrite bn_out_beta_linear. reflexivity. }
  replace (vsum n g) with (vsum n (fun j => g j * 1)) by (apply vsum_ext; intros; ring).
  apply (is_derive_vsum n (fun j t => g j * (c j + (beta + t)))).
  intros j _. auto_derive; auto; try ring.
Qed.

(* ------------------------------------------------------------------ x, eval mode (running statistics) *)
Lemma affine_sum n (g : vec) w b (u : vec) :
  vsum n (fun j => g j * affine w b (u j)) =
  vsum n (fun j => (g j * gam w) * u j) + vsum n g * match b with Some beta => beta | None => 0 end.
Proof.
  rewrite <- vsum_scal_r, <- vsum_plus. apply vsum_ext. intros j _.
  unfold affine, gam. destruct w, b; ring.
Qed.

Lemma bn_eval_vjp_x_proof : forall n x g w b m v mo eps i, (i < n)%nat ->
  is_derive (fun t => vsum n (fun j => g j * batch_norm_out n (vpert x i t) w b (Some m) (Some v) false mo eps j)) 0
            (batch_norm_grad_x n x w b (Some m) (Some v) false mo eps g i).
Proof.
  intros n x g w b m v mo eps i Hi.
  rewrite bn_grad_x_eval.
  set (c := sqrt (v + eps)).
  apply (is_derive_ext (fun t =>
     vsum n (fun j => (g j * gam w) * ((x j + (if Nat.eqb j i then t else 0) - m) / c))
     + vsum n g * match b with Some beta => beta | None => 0 end)).
  { intros t. rewrite <- affine_sum. apply vsum_ext. intros j _. rewrite bn_out_eval. fold c.
    unfold vpert. destruct (Nat.eqb j i); [reflexivity|rewrite Rplus_0_r; reflexivity]. }
  replace (g i * gam w / c) with (vsum n (fun j => if Nat.eqb j i then (fun j => g j * gam w / c) j else 0) + 0)
    by (rewrite vsum_onehot by exact Hi; ring).
  apply (is_derive_plus (K:=R_AbsRing) (V:=R_NormedModule)).
  2: apply (is_derive_const (K:=R_AbsRing) (V:=R_NormedModule)).
  apply (is_derive_vsum n (fun j t => (g j * gam w) * ((x j + (if Nat.eqb j i then t else 0) - m) / c))).
  intros j _. destruct (Nat.eqb j i); auto_derive; auto; unfold Rdiv; ring.
Qed.

Lemma is_derive_ext_both (f f' : R -> R) (t l l' : R) :
  (forall u, f u = f' u) -> l = l' -> is_derive f t l -> is_derive f' t l'.
Proof. intros Hf -> H. apply (is_derive_ext f); assumption. Qed.

(* ------------------------------------------------------------------ x, batch statistics: the three-term formula *)
Lemma rpow_m32 u : 0 < u -> rpow u (- (3 / 2)) = / (u * sqrt u).
Proof.
  intros Hu. unfold rpow. rewrite Rpower_Ropp. f_equal.
  replace (3 / 2) with (1 + / 2) by field.
  rewrite Rpower_plus, Rpower_1, Rpower_sqrt by exact Hu. reflexivity.
Qed.

Section Train.
Variables (n : nat) (x : vec) (i : nat) (eps : R).
Hypothesis Hn : (1 <= n)%nat.
Hypothesis Hi : (i < n)%nat.
Hypothesis Heps : 0 < eps.

Let N := INR n.
Let m0 := vmean n x.
Let d := fun k => x k - m0.
Let v0 := vvar n x.

Lemma N_pos : 0 < N.
Proof. unfold N. apply lt_0_INR. lia. Qed.

Lemma sum_d : vsum n d = 0.
Proof. apply vsum_centered. exact Hn. Qed.

Lemma mean_pert t : vmean n (vpert x i t) = m0 + t / N.
Proof. apply vmean_vpert. exact Hi. Qed.

Lemma centered_pert t k : vpert x i t k - vmean n (vpert x i t) = d k + t * ((if Nat.eqb k i then 1 else 0) - 1 / N).
Proof.
  rewrite mean_pert. unfold vpert, d. pose proof N_pos. destruct (Nat.eqb k i); field; lra.
Qed.

Lemma var_pert t : vvar n (vpert x i t) = v0 + (2 * d i / N) * t + ((1 - 1 / N) / N) * t ^ 2.
Proof.
  pose proof N_pos as HN.
  unfold vvar at 1. unfold vmean at 1.
  rewrite (vsum_ext n _ (fun k => (d k ^ 2 + (- (2 * t / N)) * d k + t ^ 2 / N ^ 2)
                                  + (if Nat.eqb k i then (fun k => 2 * t * d k + t ^ 2 * (1 - 2 / N)) k else 0))).
  2:{ intros k _. rewrite centered_pert. destruct (Nat.eqb k i); field; lra. }
  rewrite vsum_plus, vsum_onehot by exact Hi.
  rewrite !vsum_plus, vsum_scal_l, vsum_const, sum_d. fold N.
  replace v0 with (vsum n (fun k => d k ^ 2) / N) by reflexivity.
  field. lra.
Qed.

Lemma v0_nonneg : 0 <= v0.
Proof. apply vvar_nonneg. Qed.

(* the derivative of sum_j h_j * xhat_j at x along e_i is the code's formula *)
Lemma xhat_vjp (h : vec) :
  is_derive (fun t => vsum n (fun j => h j * xhat n (vpert x i t) eps j)) 0 (bnx_formula n x h eps i).
Proof.
  pose proof N_pos as HN. pose proof v0_nonneg as Hv.
  set (a := 2 * d i / N). set (b := (1 - 1 / N) / N).
  set (std := sqrt (v0 + eps)).
  assert (Hstd : 0 < std) by (apply sqrt_lt_R0; lra).
  assert (Hsq : std * std = v0 + eps) by (apply sqrt_sqrt; lra).
  apply (is_derive_ext (fun t =>
     vsum n (fun j => h j * ((d j + t * ((if Nat.eqb j i then 1 else 0) - 1 / N)) / sqrt (v0 + a * t + b * t ^ 2 + eps))))).
  { intros t. apply vsum_ext. intros j _. unfold xhat. rewrite centered_pert, var_pert. reflexivity. }
  (* the code's formula in terms of the atoms  A = sum h,  Bv = sum h*d *)
  set (A := vsum n h). set (Bv := vsum n (fun j => h j * d j)).
  replace (bnx_formula n x h eps i)
    with (vsum n (fun j => (if Nat.eqb j i then (fun j => h j / std) j else 0)
                           + (- (1 / (N * std))) * h j + (- (a / (2 * std * (v0 + eps)))) * (h j * d j))).
  2:{ rewrite !vsum_plus, vsum_onehot, !vsum_scal_l by exact Hi. fold A. fold Bv.
      unfold bnx_formula. cbv zeta. fold m0. fold v0. fold d. fold std. fold N.
      rewrite rpow_m32 by lra. fold std.
      rewrite (vsum_ext n (fun j => - (1 / 2) * h j * (x j - m0)) (fun j => - (1 / 2) * (h j * d j))) by (intros; unfold d; ring).
      rewrite (vsum_ext n (fun j => -2 * (x j - m0)) (fun j => -2 * d j)) by (intros; reflexivity).
      rewrite !vsum_scal_l, sum_d. fold A. fold Bv. change (x i - m0) with (d i).
      unfold a. rewrite <- Hsq. field. lra. }
  apply (is_derive_vsum n (fun j t =>
     h j * ((d j + t * ((if Nat.eqb j i then 1 else 0) - 1 / N)) / sqrt (v0 + a * t + b * t ^ 2 + eps)))).
  intros j _.
  assert (Hgoal : forall dl : R, is_derive (fun t =>
      h j * ((d j + t * (dl - 1 / N)) / sqrt (v0 + a * t + b * t ^ 2 + eps))) 0
      (dl * (h j / std) + - (1 / (N * std)) * h j + - (a / (2 * std * (v0 + eps))) * (h j * d j))).
  { intros dl. auto_derive.
    - repeat match goal with |- context [sqrt ?u] =>
        lazymatch u with (v0 + eps) => fail | _ => replace u with (v0 + eps) by ring end end.
      repeat match goal with |- context [0 < ?u] =>
        lazymatch u with (v0 + eps) => fail | _ => replace u with (v0 + eps) by ring end end.
      fold std. repeat split; lra.
    - repeat match goal with |- context [sqrt ?u] =>
        lazymatch u with (v0 + eps) => fail | _ => replace u with (v0 + eps) by ring end end.
      fold std. rewrite <- Hsq. field. lra. }
  destruct (Nat.eqb j i).
  - generalize (Hgoal 1). apply is_derive_ext_both; intros; ring.
  - generalize (Hgoal 0). apply is_derive_ext_both; intros; ring.
Qed.

Lemma bn_train_vjp_x_proof : forall g w b rm rv tr mo, batch_mode tr rm rv ->
  is_derive (fun t => vsum n (fun j => g j * batch_norm_out n (vpert x i t) w b rm rv tr mo eps j)) 0
            (batch_norm_grad_x n x w b rm rv tr mo eps g i).
Proof.
  intros g w b rm rv tr mo Hm.
  apply (is_derive_ext (fun t =>
     vsum n (fun j => (g j * gam w) * xhat n (vpert x i t) eps j)
     + vsum n g * match b with Some beta => beta | None => 0 end)).
  { intros t. rewrite <- affine_sum. apply vsum_ext. intros j _. rewrite bn_out_batch by exact Hm. reflexivity. }
  replace (batch_norm_grad_x n x w b rm rv tr mo eps g i) with (bnx_formula n x (fun j => g j * gam w) eps i + 0).
  2:{ rewrite Rplus_0_r. destruct w as [gamma|].
      - rewrite bn_grad_x_batch_affine by exact Hm. reflexivity.
      - rewrite bn_grad_x_batch_plain by exact Hm. unfold gam, bnx_formula. cbv zeta.
        rewrite (vsum_ext n (fun j => - (1 / 2) * (g j * 1) * (x j - vmean n x)) (fun j => - (1 / 2) * g j * (x j - vmean n x)))
          by (intros; ring).
        rewrite (vsum_ext n (fun j => -1 / sqrt (vvar n x + eps) * (g j * 1)) (fun j => -1 / sqrt (vvar n x + eps) * g j))
          by (intros; ring).
        rewrite Rmult_1_r. reflexivity. }
  apply (is_derive_plus (K:=R_AbsRing) (V:=R_NormedModule)).
  - apply xhat_vjp.
  - apply (is_derive_const (K:=R_AbsRing) (V:=R_NormedModule)).
Qed.

End Train.

Lemma batch_mode_examples_proof :
  batch_mode true (Some 0) (Some 1) /\ batch_mode false None None /\ ~ batch_mode false (Some 0) (Some 1).
Proof.
  repeat split; [left; reflexivity|right; split; reflexivity|].
  intros [H|[H _]]; discriminate.
Qed.
