(* max / min over the reals: at an input whose extremum is attained at a unique position in every reduced group,
   the argmax table is constant on a neighbourhood, hence the forward is differentiable there and the code's
   backward is its vector-Jacobian product in the analytic sense (Coquelicot is_derive).                    *)
From Coq Require Import List Arith ZArith Lia Bool Reals Lra.
From Coquelicot Require Import Coquelicot.
Import ListNotations.
From SG Require Import Base.Sums Base.ScalarExt Base.Cmp NumPy.Index NumPy.Tensor NumPy.Gather NumPy.TensorFn NumPy.Broadcast NumPy.Reduce
  Proofs.IdxSums Proofs.BcastProofs Proofs.ArithProofs Proofs.ReduceProofs Proofs.MaxProofs.
Local Open Scope R_scope.

(* ---------- the reals as a scalar instance ---------- *)
#[global] Instance ScalarR : Scalar R := {| s0 := 0; sadd := Rplus; smul := Rmult |}.
#[global] Instance ScalarLawsR : ScalarLaws R.
Proof. constructor; intros; cbn; ring. Qed.
#[global] Instance ScalarMulLawsR : ScalarMulLaws R.
Proof. constructor; intros; cbn; ring. Qed.
Definition Rleb (a b:R) : bool := if Rle_dec a b then true else false.
#[global] Instance ScalarOrdR : ScalarOrd R := {| sleb := Rleb |}.
Lemma Rleb_true a b : Rleb a b = true <-> a <= b.
Proof. unfold Rleb. destruct (Rle_dec a b); split; auto; discriminate. Qed.
Lemma Rleb_false a b : Rleb a b = false <-> b < a.
Proof. unfold Rleb. destruct (Rle_dec a b); split; intros; try discriminate; try lra; auto. Qed.
#[global] Instance ScalarOrdLawsR : ScalarOrdLaws R.
Proof.
  constructor; cbn; intros.
  - apply Rleb_true. lra.
  - apply Rleb_true. apply Rleb_true in H, H0. lra.
  - destruct (Rle_dec a b). left. now apply Rleb_true. right. apply Rleb_true. lra.
  - apply Rleb_true in H, H0. lra.
Qed.
(* min uses >= *)
Lemma sgeb_R a b : @sgeb R _ a b = Rleb b a. Proof. reflexivity. Qed.

Lemma sgebR_refl a : @sgeb R _ a a = true. Proof. apply sleb_refl. Qed.
Lemma sgebR_trans a b c : @sgeb R _ a b = true -> @sgeb R _ b c = true -> @sgeb R _ a c = true.
Proof. unfold sgeb. intros. eapply sleb_trans; eauto. Qed.
Lemma sgebR_total a b : @sgeb R _ a b = true \/ @sgeb R _ b a = true.
Proof. unfold sgeb. destruct (sleb_total a b); auto. Qed.

(* ---------- finitely many neighbourhoods ---------- *)
Lemma finite_delta {X} (l:list X) (P:X -> R -> Prop) :
  (forall p, In p l -> exists d, 0 < d /\ forall t, Rabs t < d -> P p t) ->
  exists d, 0 < d /\ forall t, Rabs t < d -> forall p, In p l -> P p t.
Proof.
  induction l as [|a l IH]; intros Hl.
  - exists 1. split. lra. intros t _ p [].
  - destruct (Hl a (or_introl eq_refl)) as (d1 & H1 & P1).
    destruct IH as (d2 & H2 & P2). { intros p Hp. apply Hl. right; auto. }
    exists (Rmin d1 d2). split. apply Rmin_pos; auto.
    intros t Ht p [<-|Hp]. apply P1. eapply Rlt_le_trans. exact Ht. apply Rmin_l.
    apply P2; auto. eapply Rlt_le_trans. exact Ht. apply Rmin_r.
Qed.

(* a strict inequality between two affine functions of t persists for small t *)
Lemma affine_gap (xp xm wp wm:R) : xp < xm -> exists d, 0 < d /\ forall t, Rabs t < d -> xp + t * wp < xm + t * wm.
Proof.
  intros Hlt. set (c := Rabs (wp - wm)). assert (0 <= c) by apply Rabs_pos.
  exists ((xm - xp) / (1 + c)). split. apply Rdiv_lt_0_compat; lra.
  intros t Ht.
  assert (E: t * (wp - wm) <= Rabs t * c). { unfold c. rewrite <- Rabs_mult. apply Rle_abs. }
  assert (Rabs t * (1 + c) < xm - xp).
  { apply (Rmult_lt_compat_r (1 + c)) in Ht; [|lra]. unfold Rdiv in Ht. rewrite Rmult_assoc, Rinv_l in Ht by lra. lra. }
  assert (0 <= Rabs t) by apply Rabs_pos. nra.
Qed.

(* ---------- one fibre ---------- *)
Definition strict_max_at (l:list R) (m:nat) : Prop :=
  (m < length l)%nat /\ forall p, (p < length l)%nat -> p <> m -> nth p l 0 < nth m l 0.
Definition strict_min_at (l:list R) (m:nat) : Prop :=
  (m < length l)%nat /\ forall p, (p < length l)%nat -> p <> m -> nth m l 0 < nth p l 0.

Definition perturb (l w:list R) (t:R) : list R := map (fun xw => fst xw + t * snd xw) (combine l w).
Lemma perturb_length l w t : length w = length l -> length (perturb l w t) = length l.
Proof. intros E. unfold perturb. rewrite map_length, combine_length. lia. Qed.
Lemma nth_map_any {X Y} (f:X->Y) : forall l p d dx, (p < length l)%nat -> nth p (map f l) d = f (nth p l dx).
Proof. induction l as [|a l IH]; intros [|p] d dx Hp; simpl in *; try lia; auto. apply IH. lia. Qed.
Lemma perturb_nth l w t p : length w = length l -> (p < length l)%nat -> nth p (perturb l w t) 0 = nth p l 0 + t * nth p w 0.
Proof.
  intros E Hp. unfold perturb.
  rewrite (nth_map_any _ _ p 0 (0, 0)) by (rewrite combine_length; lia).
  rewrite combine_nth by auto. reflexivity.
Qed.

Lemma argmax_stable (l w:list R) m : length w = length l -> strict_max_at l m ->
  exists d, 0 < d /\ forall t, Rabs t < d -> argbest sleb (perturb l w t) = m.
Proof.
  intros E [Hm Hs].
  destruct (finite_delta (seq 0 (length l)) (fun p t => p <> m -> nth p l 0 + t * nth p w 0 < nth m l 0 + t * nth m w 0)) as (d & Hd & Pd).
  { intros p Hp. apply in_seq in Hp. destruct (Nat.eq_dec p m) as [->|Hn].
    - exists 1. split. lra. intros t _ Hc. congruence.
    - destruct (affine_gap (nth p l 0) (nth m l 0) (nth p w 0) (nth m w 0)) as (d & Hd & Pd). apply Hs; auto; lia.
      exists d. split; auto. }
  exists d. split. exact Hd. intros t Ht.
  apply (argbest_unique sleb sleb_refl sleb_trans sleb_total 0).
  - now rewrite perturb_length.
  - intros p Hp Hn. rewrite perturb_length in Hp by auto. rewrite !perturb_nth by auto.
    cbn. apply Rleb_false. apply Pd; auto. apply in_seq. lia.
Qed.
Lemma argmin_stable (l w:list R) m : length w = length l -> strict_min_at l m ->
  exists d, 0 < d /\ forall t, Rabs t < d -> argbest sgeb (perturb l w t) = m.
Proof.
  intros E [Hm Hs].
  destruct (finite_delta (seq 0 (length l)) (fun p t => p <> m -> nth m l 0 + t * nth m w 0 < nth p l 0 + t * nth p w 0)) as (d & Hd & Pd).
  { intros p Hp. apply in_seq in Hp. destruct (Nat.eq_dec p m) as [->|Hn].
    - exists 1. split. lra. intros t _ Hc. congruence.
    - destruct (affine_gap (nth m l 0) (nth p l 0) (nth m w 0) (nth p w 0)) as (d & Hd & Pd). apply Hs; auto; lia.
      exists d. split; auto. }
  exists d. split. exact Hd. intros t Ht.
  apply (argbest_unique sgeb sgebR_refl sgebR_trans sgebR_total 0).
  - now rewrite perturb_length.
  - intros p Hp Hn. rewrite perturb_length in Hp by auto. rewrite !perturb_nth by auto.
    rewrite sgeb_R. apply Rleb_false. apply Pd; auto. apply in_seq. lia.
Qed.

Lemma locally_0 (P:R -> Prop) d : 0 < d -> (forall t, Rabs t < d -> P t) -> locally 0 P.
Proof.
  intros Hd HP. exists (mkposreal d Hd). intros y Hy. apply HP.
  unfold ball in Hy. simpl in Hy. unfold AbsRing_ball, abs, minus, plus, opp in Hy. simpl in Hy.
  rewrite Ropp_0, Rplus_0_r in Hy. exact Hy.
Qed.

(* the value of a fibre: best_of, i.e. what max_forward / min_forward compute for one output position *)
Theorem best_of_derive_max (l w:list R) m : length w = length l -> strict_max_at l m ->
  is_derive (fun t => best_of sleb (perturb l w t)) 0 (nth m w 0).
Proof.
  intros E Hs. destruct (argmax_stable l w m E Hs) as (d & Hd & Pd). destruct Hs as [Hm _].
  apply (is_derive_ext_loc (fun t => nth m l 0 + t * nth m w 0)).
  - apply (locally_0 _ d Hd). intros t Ht. unfold best_of. rewrite (Pd t Ht). cbn [s0 ScalarR]. now rewrite perturb_nth.
  - auto_derive. auto. ring.
Qed.
Theorem best_of_derive_min (l w:list R) m : length w = length l -> strict_min_at l m ->
  is_derive (fun t => best_of sgeb (perturb l w t)) 0 (nth m w 0).
Proof.
  intros E Hs. destruct (argmin_stable l w m E Hs) as (d & Hd & Pd). destruct Hs as [Hm _].
  apply (is_derive_ext_loc (fun t => nth m l 0 + t * nth m w 0)).
  - apply (locally_0 _ d Hd). intros t Ht. unfold best_of. rewrite (Pd t Ht). cbn [s0 ScalarR]. now rewrite perturb_nth.
  - auto_derive. auto. ring.
Qed.

(* the same for a fibre given as x : nat -> R of length n *)
Definition vmaxR (n:nat) (x:nat -> R) : R := best_of sleb (map x (seq 0 n)).
Definition vminR (n:nat) (x:nat -> R) : R := best_of sgeb (map x (seq 0 n)).
Lemma perturb_fun n (x v:nat -> R) t : map (fun j => x j + t * v j) (seq 0 n) = perturb (map x (seq 0 n)) (map v (seq 0 n)) t.
Proof. unfold perturb. generalize (seq 0 n). intros l. induction l; simpl; auto. f_equal. auto. Qed.
Lemma nth_map_seqR (f:nat -> R) n k : (k < n)%nat -> nth k (map f (seq 0 n)) 0 = f k.
Proof. intros Hk. now apply nth_map_seq0. Qed.

Theorem vmaxR_derive n (x v:nat -> R) m : (m < n)%nat -> (forall j, (j < n)%nat -> j <> m -> x j < x m) ->
  is_derive (fun t => vmaxR n (fun j => x j + t * v j)) 0 (v m).
Proof.
  intros Hm Hs. unfold vmaxR.
  apply (is_derive_ext (fun t => best_of sleb (perturb (map x (seq 0 n)) (map v (seq 0 n)) t))).
  { intros t. now rewrite perturb_fun. }
  rewrite <- (nth_map_seqR v n m Hm). apply best_of_derive_max. now rewrite !map_length.
  split. now rewrite map_length, seq_length. intros p Hp Hn. rewrite map_length, seq_length in Hp.
  rewrite !nth_map_seqR by auto. now apply Hs.
Qed.
Theorem vminR_derive n (x v:nat -> R) m : (m < n)%nat -> (forall j, (j < n)%nat -> j <> m -> x m < x j) ->
  is_derive (fun t => vminR n (fun j => x j + t * v j)) 0 (v m).
Proof.
  intros Hm Hs. unfold vminR.
  apply (is_derive_ext (fun t => best_of sgeb (perturb (map x (seq 0 n)) (map v (seq 0 n)) t))).
  { intros t. now rewrite perturb_fun. }
  rewrite <- (nth_map_seqR v n m Hm). apply best_of_derive_min. now rewrite !map_length.
  split. now rewrite map_length, seq_length. intros p Hp Hn. rewrite map_length, seq_length in Hp.
  rewrite !nth_map_seqR by auto. now apply Hs.
Qed.
(* vmaxR is the maximum *)
Theorem vmaxR_is_max n (x:nat -> R) : (0 < n)%nat ->
  (forall j, (j < n)%nat -> x j <= vmaxR n x) /\ exists j, (j < n)%nat /\ vmaxR n x = x j.
Proof.
  intros Hn. set (l := map x (seq 0 n)).
  assert (Hl: l <> []). { intro E. apply (f_equal (@length R)) in E. unfold l in E. rewrite map_length, seq_length in E. simpl in E. lia. }
  destruct (argbest_spec sleb sleb_refl sleb_trans sleb_total 0 l Hl) as [H1 _].
  pose proof (argbest_lt sleb l Hl) as Hlt. unfold l in Hlt at 2. rewrite map_length, seq_length in Hlt.
  unfold vmaxR, best_of. fold l. cbn [s0 ScalarR]. split.
  - intros j Hj. apply Rleb_true. apply (H1 (x j)). unfold l. apply in_map, in_seq. lia.
  - exists (argbest sleb l). split. exact Hlt. unfold l at 2. now rewrite nth_map_seqR.
Qed.

(* ---------- a whole tensor, any accepted dim form ---------- *)
Definition tadd_scaled (a d:tensor R) (t:R) : tensor R := mkT (tshape a) (fun i => tat a i + t * tat d i).

Section T.
Variable le : R -> R -> bool.
Variable strict_at : list R -> nat -> Prop.
Hypothesis stable : forall (l w:list R) m, length w = length l -> strict_at l m ->
  exists d, 0 < d /\ forall t, Rabs t < d -> argbest le (perturb l w t) = m.
Hypothesis strict_is_arg : forall l m, strict_at l m -> argbest le l = m.

Lemma map_tadd_scaled (a d:tensor R) t (F:list idx) :
  map (tat (tadd_scaled a d t)) F = perturb (map (tat a) F) (map (tat d) F) t.
Proof. unfold perturb, tadd_scaled. cbn [tat]. induction F; simpl; auto. f_equal. auto. Qed.

(* the argmax table is locally constant where every group has a strict extremum *)
Lemma mask_stable (a d:tensor R) ax ks :
  np_reduce_axes true (rank a) ax = Some ks -> fibre_size (mask_of (rank a) ks) (tshape a) <> 0%nat ->
  (forall i, In i (idxs (tshape a)) -> exists K, strict_at (map (tat a) (colof (mask_of (rank a) ks) (tshape a) i)) K) ->
  exists dl, 0 < dl /\ forall t, Rabs t < dl ->
    exists mk mk', ext_mask le a ax = Some mk /\ ext_mask le (tadd_scaled a d t) ax = Some mk' /\
      forall i, In i (idxs (tshape a)) -> mk' i = mk i.
Proof.
  intros Hax Hf Hu. unfold rank in *. set (sa := tshape a) in *. set (m := mask_of (length sa) ks) in *.
  assert (Ecm: ext_code_mask (length sa) ax = m) by now apply ext_code_mask_spec.
  destruct (finite_delta (idxs sa) (fun i t => argbest le (map (tat (tadd_scaled a d t)) (colof m sa i)) = argbest le (map (tat a) (colof m sa i))))
    as (dl & Hd & Pd).
  { intros i Hi. destruct (Hu i Hi) as (K & HK).
    destruct (stable (map (tat a) (colof m sa i)) (map (tat d) (colof m sa i)) K) as (dl & Hd & Pd). now rewrite !map_length. exact HK.
    exists dl. split. exact Hd. intros t Ht. rewrite map_tadd_scaled, (Pd t Ht). symmetry. now apply strict_is_arg. }
  exists dl. split. exact Hd. intros t Ht.
  assert (Emask: forall (b:tensor R), tshape b = sa ->
     ext_mask le b ax = Some (fun i => (fpos m sa i =? argbest le (map (tat b) (colof m sa i)))%nat)).
  { intros b Hb. unfold ext_mask. unfold rank. rewrite Hb, Ecm.
    destruct (fibre_size m sa =? 0)%nat eqn:E0. apply Nat.eqb_eq in E0. congruence. reflexivity. }
  eexists. eexists. split. apply Emask; reflexivity. split. apply Emask; reflexivity.
  intros i Hi. cbv beta. now rewrite (Pd t Ht i Hi).
Qed.

(* the analytic VJP: d/dt <g, ext(a + t d)> at 0 is <backward g, d> *)
Theorem ext_vjp_analytic (g a d:tensor R) ax keep ks :
  np_reduce_axes true (rank a) ax = Some ks -> fibre_size (mask_of (rank a) ks) (tshape a) <> 0%nat ->
  tshape g = red_shape (mask_of (rank a) ks) (tshape a) keep -> tshape d = tshape a ->
  (forall i, In i (idxs (tshape a)) -> exists K, strict_at (map (tat a) (colof (mask_of (rank a) ks) (tshape a) i)) K) ->
  exists r, ext_backward le g a ax keep = Some r /\ tshape r = tshape a /\
    is_derive (fun t => match ext_forward le (tadd_scaled a d t) ax keep with
                        | Some o => dot (idxs (tshape o)) (tat g) (tat o) | None => 0 end)
              0 (dot (idxs (tshape a)) (tat r) (tat d)).
Proof.
  intros Hax Hf Hg Hd Hu.
  destruct (ext_vjp le g a ax keep ks Hax Hf Hg) as (mk & r & Emk & Er & Hr & _ & V).
  exists r. split. exact Er. split. exact Hr.
  destruct (mask_stable a d ax ks Hax Hf Hu) as (dl & Hdl & Pd).
  apply (is_derive_ext_loc (fun t => dot (idxs (tshape a)) (tat r) (tat a) + t * dot (idxs (tshape a)) (tat r) (tat d))).
  - apply (locally_0 _ dl Hdl). intros t Ht. destruct (Pd t Ht) as (mk0 & mk' & E0 & E' & Hsame).
    rewrite Emk in E0. injection E0 as <-.
    destruct (V (tadd_scaled a d t) mk' eq_refl E' Hsame) as (o & Eo & Ho & Hdot). rewrite Eo, Hdot.
    unfold dot, tadd_scaled. cbn [tat].
    transitivity (isum (idxs (tshape a)) (fun k => sadd (smul (tat r k) (tat a k)) (smul t (smul (tat r k) (tat d k))))).
    + rewrite isum_add, isum_mul_l. reflexivity.
    + apply isum_ext. intros k _. cbn. ring.
  - auto_derive. auto. ring.
Qed.
End T.

Lemma strict_max_is_arg l m : strict_max_at l m -> argbest sleb l = m.
Proof.
  intros [Hm Hs]. apply (argbest_unique sleb sleb_refl sleb_trans sleb_total 0); auto.
  intros p Hp Hn. cbn. apply Rleb_false. now apply Hs.
Qed.
Lemma strict_min_is_arg l m : strict_min_at l m -> argbest sgeb l = m.
Proof.
  intros [Hm Hs]. apply (argbest_unique sgeb sgebR_refl sgebR_trans sgebR_total 0); auto.
  intros p Hp Hn. rewrite sgeb_R. apply Rleb_false. now apply Hs.
Qed.

Theorem max_vjp_analytic_proof (g a d:tensor R) ax keep ks :
  np_reduce_axes true (rank a) ax = Some ks -> fibre_size (mask_of (rank a) ks) (tshape a) <> 0%nat ->
  tshape g = red_shape (mask_of (rank a) ks) (tshape a) keep -> tshape d = tshape a ->
  (forall i, In i (idxs (tshape a)) -> exists K, strict_max_at (map (tat a) (colof (mask_of (rank a) ks) (tshape a) i)) K) ->
  exists r, max_backward g a ax keep = Some r /\ tshape r = tshape a /\
    is_derive (fun t => match max_forward (tadd_scaled a d t) ax keep with
                        | Some o => dot (idxs (tshape o)) (tat g) (tat o) | None => 0 end)
              0 (dot (idxs (tshape a)) (tat r) (tat d)).
Proof. apply (ext_vjp_analytic sleb strict_max_at argmax_stable strict_max_is_arg). Qed.
Theorem min_vjp_analytic_proof (g a d:tensor R) ax keep ks :
  np_reduce_axes true (rank a) ax = Some ks -> fibre_size (mask_of (rank a) ks) (tshape a) <> 0%nat ->
  tshape g = red_shape (mask_of (rank a) ks) (tshape a) keep -> tshape d = tshape a ->
  (forall i, In i (idxs (tshape a)) -> exists K, strict_min_at (map (tat a) (colof (mask_of (rank a) ks) (tshape a) i)) K) ->
  exists r, min_backward g a ax keep = Some r /\ tshape r = tshape a /\
    is_derive (fun t => match min_forward (tadd_scaled a d t) ax keep with
                        | Some o => dot (idxs (tshape o)) (tat g) (tat o) | None => 0 end)
              0 (dot (idxs (tshape a)) (tat r) (tat d)).
Proof. apply (ext_vjp_analytic sgeb strict_min_at argmin_stable strict_min_is_arg). Qed.
