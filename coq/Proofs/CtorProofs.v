From Coq Require Import List ZArith Lia Bool.
Import ListNotations.
From SG Require Import NumPy.Ctor.

Lemma fold_ints_spec args :
  fold_right (fun a acc => match a, acc with SInt n, Some t => Some (n :: t) | _, _ => None end) (Some []) args
  = if forallb (fun a => match a with SInt _ => true | SSeq _ => false end) args
    then Some (map (fun a => match a with SInt n => n | SSeq _ => 0%Z end) args) else None.
Proof.
  induction args as [|a args IH]; simpl; auto.
  rewrite IH. destruct a as [n|l]; simpl; auto.
  destruct (forallb _ args); reflexivity.
Qed.

Lemma forallb_ints_nonneg args :
  forallb (fun a => match a with SInt n => (0 <=? n)%Z | SSeq _ => false end) args
  = forallb (fun a => match a with SInt _ => true | SSeq _ => false end) args
    && forallb (fun n => (0 <=? n)%Z) (map (fun a => match a with SInt n => n | SSeq _ => 0%Z end) args).
Proof.
  induction args as [|a args IH]; simpl; auto.
  rewrite IH. destruct a as [n|l]; simpl; auto.
  destruct (0 <=? n)%Z; simpl; auto.
  rewrite andb_false_r. reflexivity.
Qed.

(* the constructors accept exactly the documented forms (sizes as varargs, or one list/tuple) and
   produce the documented shape *)
Lemma norm_shape_args_spec args : norm_shape_args args = spec_shape_args args.
Proof.
  unfold norm_shape_args, spec_shape_args.
  destruct args as [|a rest].
  - reflexivity.
  - destruct a as [n|l]; destruct rest as [|b rest'].
    + simpl. destruct (0 <=? n)%Z; reflexivity.
    + rewrite fold_ints_spec, forallb_ints_nonneg.
      destruct (forallb (fun a => match a with SInt _ => true | SSeq _ => false end) (SInt n :: b :: rest')); simpl; auto.
    + reflexivity.
    + rewrite fold_ints_spec. simpl. reflexivity.
Qed.

Lemma arange_len_pos start stop step n :
  (0 < step)%Z -> arange_len start stop step = Some n ->
  forall k, (0 <= k)%Z -> ((k < n)%Z <-> (arange_nth start step k < stop)%Z).
Proof.
  intros Hs H k Hk. unfold arange_len in H.
  destruct (step =? 0)%Z eqn:E0; [apply Z.eqb_eq in E0; lia|].
  destruct (0 <? step)%Z eqn:E1; [|apply Z.ltb_ge in E1; lia].
  inversion H; subst n. clear H. unfold arange_nth.
  pose proof (Z.div_mod (stop - start + step - 1) step ltac:(lia)) as Hdm.
  pose proof (Z.mod_pos_bound (stop - start + step - 1) step Hs) as Hmb.
  set (q := ((stop - start + step - 1) / step)%Z) in *.
  set (r := ((stop - start + step - 1) mod step)%Z) in *.
  split; intro Hlt.
  - assert (k + 1 <= q)%Z by lia. nia.
  - apply Z.max_lt_iff. right. nia.
Qed.
