(* Forward values of the generated softmax / log_softmax / nll / cross-entropy kernels and of the loss reductions (C06). *)
From Coq Require Import Reals Lra Lia Arith Bool.
From Coquelicot Require Import Coquelicot.
From SG Require Import Analysis.Vector Gen.GenVecKernels Proofs.VecKernelProofs Proofs.VecKernelProofsLossFwd.
Open Scope R_scope.

Lemma softmax_value_proof n x j : (1 <= n)%nat ->
  softmax_out n x j = exp (x j) / vsum n (fun k => exp (x k)).
Proof. intros Hn. unfold softmax_out. cbv zeta. apply softmax_math. exact Hn. Qed.

Lemma softmax_sums_to_one_proof n x : (1 <= n)%nat -> vsum n (softmax_out n x) = 1.
Proof.
  intros Hn. rewrite (vsum_ext n _ (fun j => exp (x j) / expsum n x)).
  - rewrite vsum_div_r. fold (expsum n x). pose proof (expsum_pos n x Hn). field. lra.
  - intros j _. apply softmax_value_proof. exact Hn.
Qed.

Lemma softmax_unit_interval_proof n x j : (1 <= n)%nat -> (j < n)%nat -> 0 < softmax_out n x j <= 1.
Proof.
  intros Hn Hj. rewrite softmax_value_proof by exact Hn. fold (expsum n x).
  pose proof (expsum_pos n x Hn) as HS. pose proof (exp_pos (x j)) as He.
  assert (exp (x j) <= expsum n x).
  { unfold expsum. apply (vsum_ge_term n (fun k => exp (x k)) j Hj). intros; left; apply exp_pos. }
  split.
  - apply Rdiv_lt_0_compat; assumption.
  - apply Rmult_le_reg_r with (expsum n x); [exact HS|].
    unfold Rdiv. rewrite Rmult_assoc, Rinv_l by lra. lra.
Qed.

Lemma log_softmax_value_proof n x j : (1 <= n)%nat ->
  log_softmax_out n x j = x j - ln (vsum n (fun k => exp (x k))).
Proof. intros Hn. unfold log_softmax_out. cbv zeta. apply log_softmax_math. exact Hn. Qed.

Lemma nll_value_proof n x y : nll_loss_out n x y = - x y.
Proof. reflexivity. Qed.

Lemma cross_entropy_value_proof n x y : (1 <= n)%nat ->
  cross_entropy_out n x y = ln (vsum n (fun k => exp (x k))) - x y.
Proof. intros Hn. unfold cross_entropy_out. cbv zeta. apply cross_entropy_math. exact Hn. Qed.

(* Loss.__call__: per-row values (one number per row of the (N, C) input), then sum | mean | none over the N rows *)
Lemma nll_reductions_proof rows n (x : nat -> vec) (y : nat -> nat) :
  loss_reduce_sum rows (NLLLoss_rows n x y) = vsum rows (fun r => - x r (y r)) /\
  loss_reduce_mean rows (NLLLoss_rows n x y) = vsum rows (fun r => - x r (y r)) / INR rows /\
  (forall r, loss_reduce_none rows (NLLLoss_rows n x y) r = - x r (y r)).
Proof. repeat split. Qed.

Lemma cross_entropy_reductions_proof rows n (x : nat -> vec) (y : nat -> nat) : (1 <= n)%nat ->
  let ce := fun r => ln (vsum n (fun k => exp (x r k))) - x r (y r) in
  loss_reduce_sum rows (CrossEntropyLoss_rows n x y) = vsum rows ce /\
  loss_reduce_mean rows (CrossEntropyLoss_rows n x y) = vsum rows ce / INR rows /\
  (forall r, loss_reduce_none rows (CrossEntropyLoss_rows n x y) r = ce r).
Proof.
  intros Hn ce.
  assert (E : forall r, CrossEntropyLoss_rows n x y r = ce r).
  { intros r. unfold CrossEntropyLoss_rows. apply cross_entropy_value_proof. exact Hn. }
  unfold loss_reduce_sum, loss_reduce_mean, loss_reduce_none, vmean.
  rewrite (vsum_ext rows _ ce) by (intros; apply E). repeat split. exact E.
Qed.
