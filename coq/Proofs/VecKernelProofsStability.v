(* C09: the stability mechanism of the generated softmax / log_softmax / cross-entropy kernels, over R. *)
From Coq Require Import Reals Lra Lia Arith List Bool.
From Coquelicot Require Import Coquelicot.
From SG Require Import Analysis.Vector Gen.GenVecKernels Proofs.VecKernelProofs.
Import ListNotations.
Open Scope R_scope.

(* ------------------------------------------------------------------ C09: the mechanism over R *)
Section NoOverflow.
Variables (n : nat) (x : vec).
Hypothesis Hn : (1 <= n)%nat.

Let M := vmax n x.

Lemma shift_nonpos j : (j < n)%nat -> x j - M <= 0.
Proof. intros Hj. pose proof (vmax_ge n x j Hj). unfold M. lra. Qed.

Lemma shift_zero : exists j, (j < n)%nat /\ x j - M = 0.
Proof. destruct (vmax_attained n x Hn) as [j [Hj E]]. exists j. split; [exact Hj|unfold M; lra]. Qed.

Lemma shifted_sum_range : 1 <= vsum n (fun k => exp (x k - M)) <= INR n.
Proof.
  split.
  - destruct shift_zero as [j [Hj E]].
    eapply Rle_trans; [|apply (vsum_ge_term n _ j Hj); intros; left; apply exp_pos].
    cbv beta. rewrite E, exp_0. lra.
  - rewrite <- (Rmult_1_r (INR n)), <- vsum_const. apply vsum_le. intros k Hk.
    apply exp_le_1, shift_nonpos, Hk.
Qed.

Lemma INR_n_ge_1 : 1 <= INR n.
Proof. change 1 with (INR 1). apply le_INR. exact Hn. Qed.

Lemma ln_shifted_sum_range : 0 <= ln (vsum n (fun k => exp (x k - M))) <= ln (INR n).
Proof.
  destruct shifted_sum_range as [H1 H2]. split.
  - rewrite <- ln_1. destruct H1 as [H1|H1]; [left; apply ln_increasing; lra|rewrite <- H1; lra].
  - destruct H2 as [H2|H2]; [left; apply ln_increasing; lra|rewrite H2; lra].
Qed.

Lemma ln_n_le_n : ln (INR n) <= INR n.
Proof. left. apply ln_lt_id. pose proof INR_n_ge_1. lra. Qed.

Variable B : R.
Hypothesis HB : forall k, (k < n)%nat -> Rabs (x k) <= B.

Lemma B_nonneg : 0 <= B.
Proof. eapply Rle_trans; [apply Rabs_pos|apply (HB O); lia]. Qed.

Lemma M_abs : Rabs M <= B.
Proof. apply vmax_abs_le; assumption. Qed.

Lemma shift_abs j : (j < n)%nat -> Rabs (x j - M) <= 2 * B.
Proof.
  intros Hj. unfold Rminus. eapply Rle_trans; [apply Rabs_triang|].
  rewrite Rabs_Ropp. pose proof (HB j Hj). pose proof M_abs. lra.
Qed.

Lemma softmax_exp_args_proof :
  List.Forall (fun v : vec => (forall j, (j < n)%nat -> v j <= 0) /\ exists j, (j < n)%nat /\ v j = 0)
         (softmax_forward_exp_args n x).
Proof.
  unfold softmax_forward_exp_args. cbv zeta. repeat apply Forall_cons; try apply Forall_nil.
  all: split; [intros j Hj; apply shift_nonpos, Hj|apply shift_zero].
Qed.

Lemma log_softmax_exp_args_proof :
  List.Forall (fun v : vec => (forall j, (j < n)%nat -> v j <= 0) /\ exists j, (j < n)%nat /\ v j = 0)
         (log_softmax_forward_exp_args n x).
Proof.
  unfold log_softmax_forward_exp_args. cbv zeta. repeat apply Forall_cons; try apply Forall_nil.
  all: split; [intros j Hj; apply shift_nonpos, Hj|apply shift_zero].
Qed.

Lemma log_softmax_ln_args_proof :
  List.Forall (fun v : vec => forall j, (j < n)%nat -> 1 <= v j <= INR n) (log_softmax_forward_ln_args n x).
Proof.
  unfold log_softmax_forward_ln_args. cbv zeta. repeat apply Forall_cons; try apply Forall_nil.
  all: intros j Hj; apply shifted_sum_range.
Qed.

Lemma softmax_range_proof j : (j < n)%nat -> 0 < softmax_forward n x j <= 1.
Proof.
  intros Hj. unfold softmax_forward. cbv zeta. fold M.
  destruct shifted_sum_range as [H1 H2].
  set (N := vsum n (fun k => exp (x k - M))) in *.
  assert (0 < exp (x j - M)) by apply exp_pos.
  assert (exp (x j - M) <= N).
  { unfold N. apply (vsum_ge_term n (fun k => exp (x k - M)) j Hj). intros; left; apply exp_pos. }
  split.
  - apply Rdiv_lt_0_compat; lra.
  - apply Rmult_le_reg_r with N; [lra|]. unfold Rdiv. rewrite Rmult_assoc, Rinv_l by lra. lra.
Qed.

(* every intermediate is a linear expression in the atoms  x j - M, M, exp (x j - M), the normaliser N, ln N  (or the
   result exp(.)/N): the proof does not depend on the names, the order or the number of the intermediates *)
Ltac bound_intermediate j Hj :=
  let Ha := fresh "Ha" in let Hs := fresh "Hs" in let He0 := fresh "He0" in let He1 := fresh "He1" in
  pose proof (shift_abs j Hj) as Ha; apply Rabs_bnd in Ha;
  pose proof (shift_nonpos j Hj) as Hs;
  pose proof (exp_pos (x j - M)) as He0; pose proof (exp_le_1 _ Hs) as He1;
  first [ apply Rabs_le; lra
        | let Hr := fresh "Hr" in
          pose proof (softmax_range_proof j Hj) as Hr; unfold softmax_forward in Hr; cbv beta zeta in Hr; fold M in Hr;
          apply Rabs_le; lra ].

Lemma softmax_no_overflow_proof :
  List.Forall (fun v : vec => forall j, (j < n)%nat -> Rabs (v j) <= 2 * B + INR n) (softmax_forward_intermediates n x).
Proof.
  pose proof B_nonneg as HB0. pose proof INR_n_ge_1 as Hn1. pose proof ln_n_le_n as Hln.
  destruct shifted_sum_range as [S1 S2]. destruct ln_shifted_sum_range as [L1 L2].
  pose proof M_abs as HM. apply Rabs_bnd in HM.
  unfold softmax_forward_intermediates. cbv beta zeta. fold M. repeat apply Forall_cons; try apply Forall_nil.
  all: intros j Hj; bound_intermediate j Hj.
Qed.

Lemma log_softmax_range_proof j : (j < n)%nat -> - (2 * B + ln (INR n)) <= log_softmax_forward n x j <= 0.
Proof.
  intros Hj. unfold log_softmax_forward. cbv beta zeta. fold M.
  destruct ln_shifted_sum_range as [H1 H2].
  pose proof (shift_abs j Hj) as Ha. apply Rabs_bnd in Ha.
  pose proof (shift_nonpos j Hj). lra.
Qed.

Lemma log_softmax_no_overflow_proof :
  List.Forall (fun v : vec => forall j, (j < n)%nat -> Rabs (v j) <= 2 * B + INR n) (log_softmax_forward_intermediates n x).
Proof.
  pose proof B_nonneg as HB0. pose proof INR_n_ge_1 as Hn1. pose proof ln_n_le_n as Hln.
  destruct shifted_sum_range as [S1 S2]. destruct ln_shifted_sum_range as [L1 L2].
  pose proof M_abs as HM. apply Rabs_bnd in HM.
  unfold log_softmax_forward_intermediates. cbv beta zeta. fold M. repeat apply Forall_cons; try apply Forall_nil.
  all: intros j Hj; bound_intermediate j Hj.
Qed.

End NoOverflow.

Lemma cross_entropy_bounds_proof n x : (1 <= n)%nat -> forall B, (forall k, (k < n)%nat -> Rabs (x k) <= B) ->
  forall y, (y < n)%nat -> 0 <= cross_entropy_loss_forward n x y <= 2 * B + ln (INR n).
Proof.
  intros Hn B HB y Hy. unfold cross_entropy_loss_forward, nll_loss_forward. cbv zeta.
  pose proof (log_softmax_range_proof n x Hn B HB y Hy). lra.
Qed.
