(* Proofs about NumPy/ConvPool.v, part 1: convolution (1-D and 2-D).
   forward = cross-correlation (C06), the three backward kernels are the adjoints of the forward map in x, w and bias
   (C02), convolution = w.reshape(C_out,-1) @ unfold(x) (C14). *)
From Coq Require Import List ZArith Lia Bool Arith QArith Qround Qcanon Permutation.
Import ListNotations.
From SG Require Import Base.Sums NumPy.Gather NumPy.Index NumPy.Window NumPy.Im2col NumPy.ConvPool
  Proofs.WindowProofs Proofs.Im2colProofs Proofs.ConvPoolAux.
Open Scope Z_scope.

Section Conv1.
Context {A : Type} `{ScalarLaws A} `{!CommLaws A}.

Lemma in_K1 g ci b : In (ci, b) (K1 g) <-> 0 <= ci < C1 g /\ 0 <= b < k1 g.
Proof. unfold K1. rewrite in_prod_iff, !in_zr. tauto. Qed.

Lemma windows1_xpad g pv (x : pos1 -> A) wj n c b : valid1 g ->
  0 <= wj < l1 g -> 0 <= n < N1 g -> 0 <= c < C1 g -> 0 <= b < k1 g ->
  windows1 g pv x (wj, n, c, b) = xpad1 g pv x (n, c, wj * s1 g + b * d1 g).
Proof. intros. unfold windows1, xpad1. now rewrite ew1_closed. Qed.

(* C06: the tensordot / moveaxis pipeline of conv1d_forward is the cross-correlation *)
Theorem conv1d_is_crosscorr g (w : pos1 -> A) bias (x : pos1 -> A) n co wj : valid1 g ->
  0 <= n < N1 g -> 0 <= wj < l1 g ->
  conv1d_fwd g w bias x (n, co, wj) = crosscorr1 g w bias x (n, co, wj).
Proof.
  intros Hv Hn Hwj. unfold conv1d_fwd, move_last_first3, bias_add3, crosscorr1, with_bias, conv1d_td.
  assert (E : isum (K1 g) (fun k => let '(ci, b) := k in smul (w (co, ci, b)) (windows1 g s0 x (wj, n, ci, b))) =
              isum (K1 g) (fun k => let '(ci, b) := k in smul (w (co, ci, b)) (xpad1 g s0 x (n, ci, wj * s1 g + b * d1 g)))).
  { apply isum_ext. intros [ci b] Hin. apply in_K1 in Hin as [Hci Hb]. now rewrite windows1_xpad. }
  rewrite E. destruct bias; auto. apply sadd_comm.
Qed.

(* <gr, conv1d(x, w)> as a contraction over  o = (n, wj),  c = co,  k = (ci, b) *)
Lemma conv1d_pairing g Co (gr w : pos1 -> A) (win : win4 -> A) :
  dotl (Out1 g Co) gr (move_last_first3 (conv1d_td g w win)) =
  pairing (Z * Z) Z (Z * Z) (list_prod (zr (N1 g)) (zr (o1 g))) (zr Co) (K1 g)
    (fun o c => gr (fst o, c, snd o)) (fun c k => w (c, fst k, snd k)) (fun o k => win (snd o, fst o, fst k, snd k)).
Proof.
  unfold dotl, Out1, pairing, pos1. rewrite !isum_list_prod. swap1.
  apply isum_ext; intros n _. apply isum_ext; intros wj _. apply isum_ext; intros co _.
  cbn [fst snd move_last_first3 conv1d_td]. f_equal. apply isum_ext. intros [ci b] _. reflexivity.
Qed.

Lemma conv1d_nobias g (w x : pos1 -> A) (l : list pos1) (gr : pos1 -> A) :
  dotl l gr (conv1d_fwd g w None x) = dotl l gr (move_last_first3 (conv1d_td g w (windows1 g s0 x))).
Proof. apply isum_ext. intros [[n co] wj] _. reflexivity. Qed.

(* C02: input gradient *)
Theorem conv1d_vjp_x_lemma g Co (gr w x : pos1 -> A) : valid1 g ->
  dotl (Out1 g Co) gr (conv1d_fwd g w None x) = dotl (Ipos1 g) (conv1d_bwd_x g Co gr w) x.
Proof.
  intros Hv. unfold conv1d_bwd_x. rewrite <- windows1_adjoint by auto.
  rewrite conv1d_nobias, conv1d_pairing, pairing_x. unfold dotl. rewrite isum_Jwin1, o1_eq by auto.
  unfold K1. rewrite isum_list_prod. swap0.
  apply isum_ext; intros wj _. apply isum_ext; intros n _. rewrite isum_list_prod.
  apply isum_ext; intros ci _. apply isum_ext; intros b _. reflexivity.
Qed.

(* C02: weight gradient *)
Theorem conv1d_vjp_w_lemma g Co (gr w x : pos1 -> A) : valid1 g ->
  dotl (Out1 g Co) gr (conv1d_fwd g w None x) = dotl (Wt1 g Co) (conv1d_bwd_w g gr (windows1 g s0 x)) w.
Proof.
  intros Hv. rewrite conv1d_nobias, conv1d_pairing, pairing_w. unfold dotl, Wt1, K1, pos1. rewrite !isum_list_prod. apply isum_ext; intros co _. rewrite (isum_list_prod (zr (C1 g)) (zr (k1 g))).
  apply isum_ext; intros ci _. apply isum_ext; intros b _.
  cbn [fst snd conv1d_bwd_w]. f_equal. unfold O1. rewrite !isum_list_prod. apply isum_exchange.
Qed.

(* C02: bias gradient *)
Theorem conv1d_vjp_b_lemma g Co (gr : pos1 -> A) (b : Z -> A) :
  dotl (Out1 g Co) gr (fun q => let '(_, co, _) := q in b co) = dotl (zr Co) (conv1d_bwd_b g gr) b.
Proof.
  unfold dotl, Out1, pos1. rewrite !isum_list_prod. swap1.
  transitivity (isum (list_prod (zr (N1 g)) (zr (o1 g))) (fun o => isum (zr Co) (fun co => smul (gr (fst o, co, snd o)) (b co)))).
  { rewrite isum_list_prod. reflexivity. }
  rewrite (pairing_b (Z * Z) Z (list_prod (zr (N1 g)) (zr (o1 g))) (zr Co) (fun o c => gr (fst o, c, snd o)) b).
  apply isum_ext; intros co _. f_equal. unfold conv1d_bwd_b, B1. rewrite !isum_list_prod. reflexivity.
Qed.

(* the forward map is additive in x and in w, and the bias enters additively: together with the three adjoint identities
   this says that the increment of <gr, conv1d> along any direction is <code gradient, direction> exactly *)
Lemma windows1_add g (x h : pos1 -> A) t : windows1 g s0 (fun i => sadd (x i) (h i)) t = sadd (windows1 g s0 x t) (windows1 g s0 h t).
Proof.
  destruct t as [[[wj n] c] b]. unfold windows1. destruct (ew1 g wj n c b); cbn [cell_val]; auto; now rewrite sadd_0_l.
Qed.

Lemma sadd_swap_r (a b c : A) : sadd (sadd a b) c = sadd (sadd a c) b.
Proof. rewrite <- !sadd_assoc. f_equal. apply sadd_comm. Qed.

Theorem conv1d_additive_x g w bias (x h : pos1 -> A) q :
  conv1d_fwd g w bias (fun i => sadd (x i) (h i)) q = sadd (conv1d_fwd g w bias x q) (conv1d_fwd g w None h q).
Proof.
  destruct q as [[n co] wj]. unfold conv1d_fwd, move_last_first3, bias_add3, conv1d_td.
  assert (E : isum (K1 g) (fun k => let '(ci, b) := k in smul (w (co, ci, b)) (windows1 g s0 (fun i => sadd (x i) (h i)) (wj, n, ci, b))) =
              sadd (isum (K1 g) (fun k => let '(ci, b) := k in smul (w (co, ci, b)) (windows1 g s0 x (wj, n, ci, b))))
                   (isum (K1 g) (fun k => let '(ci, b) := k in smul (w (co, ci, b)) (windows1 g s0 h (wj, n, ci, b))))).
  { rewrite <- isum_add. apply isum_ext. intros [ci b] _. now rewrite windows1_add, smul_add_r. }
  rewrite E. destruct bias; auto. apply sadd_swap_r.
Qed.

Theorem conv1d_additive_w g (w v : pos1 -> A) bias (x : pos1 -> A) q :
  conv1d_fwd g (fun i => sadd (w i) (v i)) bias x q = sadd (conv1d_fwd g w bias x q) (conv1d_fwd g v None x q).
Proof.
  destruct q as [[n co] wj]. unfold conv1d_fwd, move_last_first3, bias_add3, conv1d_td.
  assert (E : isum (K1 g) (fun k => let '(ci, b) := k in smul (sadd (w (co, ci, b)) (v (co, ci, b))) (windows1 g s0 x (wj, n, ci, b))) =
              sadd (isum (K1 g) (fun k => let '(ci, b) := k in smul (w (co, ci, b)) (windows1 g s0 x (wj, n, ci, b))))
                   (isum (K1 g) (fun k => let '(ci, b) := k in smul (v (co, ci, b)) (windows1 g s0 x (wj, n, ci, b))))).
  { rewrite <- isum_add. apply isum_ext. intros [ci b] _. now rewrite smul_add_l. }
  rewrite E. destruct bias; auto. apply sadd_swap_r.
Qed.

Theorem conv1d_bias_additive g w (b : Z -> A) (x : pos1 -> A) q :
  conv1d_fwd g w (Some b) x q = sadd (conv1d_fwd g w None x q) (let '(_, co, _) := q in b co).
Proof. destruct q as [[n co] wj]. reflexivity. Qed.
End Conv1.
