(* Proofs about NumPy/ConvPool.v, part 1: convolution (1-D and 2-D).
   forward = cross-correlation (C06), the three backward kernels are the adjoints of the forward map in x, w and bias
   (C02), convolution = w.reshape(C_out,-1) @ unfold(x) (C14). *)
From Coq Require Import List ZArith Lia Bool Arith QArith Qround Qcanon Permutation.
Import ListNotations.
From SG Require Import Base.Sums NumPy.Gather NumPy.Index NumPy.Window NumPy.Im2col NumPy.ConvPool
  Proofs.WindowProofs Proofs.Im2colProofs Proofs.ConvPoolAux.
Open Scope Z_scope.

Section Conv1.
Context {A : Type} `{ScalarLaws A} `{!CommLaws A}.

Lemma in_K1 g ci b : In (ci, b) (K1 g) <-> 0 <= ci < C1 g /\ 0 <= b < k1 g.
Proof. unfold K1. rewrite in_prod_iff, !in_zr. tauto. Qed.

Lemma windows1_xpad g pv (x : pos1 -> A) wj n c b : valid1 g ->
  0 <= wj < l1 g -> 0 <= n < N1 g -> 0 <= c < C1 g -> 0 <= b < k1 g ->
  windows1 g pv x (wj, n, c, b) = xpad1 g pv x (n, c, wj * s1 g + b * d1 g).
Proof. intros. unfold windows1, xpad1. now rewrite ew1_closed. Qed.

(* C06: the tensordot / moveaxis pipeline of conv1d_forward is the cross-correlation *)
Theorem conv1d_is_crosscorr g (w : pos1 -> A) bias (x : pos1 -> A) n co wj : valid1 g ->
  0 <= n < N1 g -> 0 <= wj < l1 g ->
  conv1d_fwd g w bias x (n, co, wj) = crosscorr1 g w bias x (n, co, wj).
Proof.
  intros Hv Hn Hwj. unfold conv1d_fwd, move_last_first3, bias_add3, crosscorr1, with_bias, conv1d_td.
  assert (E : isum (K1 g) (fun k => let '(ci, b) := k in smul (w (co, ci, b)) (windows1 g s0 x (wj, n, ci, b))) =
              isum (K1 g) (fun k => let '(ci, b) := k in smul (w (co, ci, b)) (xpad1 g s0 x (n, ci, wj * s1 g + b * d1 g)))).
  { apply isum_ext. intros [ci b] Hin. apply in_K1 in Hin as [Hci Hb]. now rewrite windows1_xpad. }
  rewrite E. destruct bias; auto. apply sadd_comm.
Qed.

(* <gr, conv1d(x, w)> as a contraction over  o = (n, wj),  c = co,  k = (ci, b) *)
Lemma conv1d_pairing g Co (gr w : pos1 -> A) (win : win4 -> A) :
  dotl (Out1 g Co) gr (move_last_first3 (conv1d_td g w win)) =
  pairing (Z * Z) Z (Z * Z) (list_prod (zr (N1 g)) (zr (o1 g))) (zr Co) (K1 g)
    (fun o c => gr (fst o, c, snd o)) (fun c k => w (c, fst k, snd k)) (fun o k => win (snd o, fst o, fst k, snd k)).
Proof.
  unfold dotl, Out1, pairing, pos1. rewrite !isum_list_prod. swap1.
  apply isum_ext; intros n _. apply isum_ext; intros wj _. apply isum_ext; intros co _.
  cbn [fst snd move_last_first3 conv1d_td]. f_equal. apply isum_ext. intros [ci b] _. reflexivity.
Qed.

Lemma conv1d_nobias g (w x : pos1 -> A) (l : list pos1) (gr : pos1 -> A) :
  dotl l gr (conv1d_fwd g w None x) = dotl l gr (move_last_first3 (conv1d_td g w (windows1 g s0 x))).
Proof. apply isum_ext. intros [[n co] wj] _. reflexivity. Qed.

(* C02: input gradient *)
Theorem conv1d_vjp_x_lemma g Co (gr w x : pos1 -> A) : valid1 g ->
  dotl (Out1 g Co) gr (conv1d_fwd g w None x) = dotl (Ipos1 g) (conv1d_bwd_x g Co gr w) x.
Proof.
  intros Hv. unfold conv1d_bwd_x. rewrite <- windows1_adjoint by auto.
  rewrite conv1d_nobias, conv1d_pairing, pairing_x. unfold dotl. rewrite isum_Jwin1, o1_eq by auto.
  unfold K1. rewrite isum_list_prod. swap0.
  apply isum_ext; intros wj _. apply isum_ext; intros n _. rewrite isum_list_prod.
  apply isum_ext; intros ci _. apply isum_ext; intros b _. reflexivity.
Qed.

(* C02: weight gradient *)
Theorem conv1d_vjp_w_lemma g Co (gr w x : pos1 -> A) : valid1 g ->
  dotl (Out1 g Co) gr (conv1d_fwd g w None x) = dotl (Wt1 g Co) (conv1d_bwd_w g gr (windows1 g s0 x)) w.
Proof.
  intros Hv. rewrite conv1d_nobias, conv1d_pairing, pairing_w. unfold dotl, Wt1, K1, pos1. rewrite !isum_list_prod. apply isum_ext; intros co _. rewrite (isum_list_prod (zr (C1 g)) (zr (k1 g))).
  apply isum_ext; intros ci _. apply isum_ext; intros b _.
  cbn [fst snd conv1d_bwd_w]. f_equal. unfold O1. rewrite !isum_list_prod. apply isum_exchange.
Qed.

(* C02: bias gradient *)
Theorem conv1d_vjp_b_lemma g Co (gr : pos1 -> A) (b : Z -> A) :
  dotl (Out1 g Co) gr (fun q => let '(_, co, _) := q in b co) = dotl (zr Co) (conv1d_bwd_b g gr) b.
Proof.
  unfold dotl, Out1, pos1. rewrite !isum_list_prod. swap1.
  transitivity (isum (list_prod (zr (N1 g)) (zr (o1 g))) (fun o => isum (zr Co) (fun co => smul (gr (fst o, co, snd o)) (b co)))).
  { rewrite isum_list_prod. reflexivity. }
  rewrite (pairing_b (Z * Z) Z (list_prod (zr (N1 g)) (zr (o1 g))) (zr Co) (fun o c => gr (fst o, c, snd o)) b).
  apply isum_ext; intros co _. f_equal. unfold conv1d_bwd_b, B1. rewrite !isum_list_prod. reflexivity.
Qed.

(* the forward map is additive in x and in w, and the bias enters additively: together with the three adjoint identities
   this says that the increment of <gr, conv1d> along any direction is <code gradient, direction> exactly *)
Lemma windows1_add g (x h : pos1 -> A) t : windows1 g s0 (fun i => sadd (x i) (h i)) t = sadd (windows1 g s0 x t) (windows1 g s0 h t).
Proof.
  destruct t as [[[wj n] c] b]. unfold windows1. destruct (ew1 g wj n c b); cbn [cell_val]; auto; now rewrite sadd_0_l.
Qed.

Lemma sadd_swap_r (a b c : A) : sadd (sadd a b) c = sadd (sadd a c) b.
Proof. rewrite <- !sadd_assoc. f_equal. apply sadd_comm. Qed.

Theorem conv1d_additive_x g w bias (x h : pos1 -> A) q :
  conv1d_fwd g w bias (fun i => sadd (x i) (h i)) q = sadd (conv1d_fwd g w bias x q) (conv1d_fwd g w None h q).
Proof.
  destruct q as [[n co] wj]. unfold conv1d_fwd, move_last_first3, bias_add3, conv1d_td.
  assert (E : isum (K1 g) (fun k => let '(ci, b) := k in smul (w (co, ci, b)) (windows1 g s0 (fun i => sadd (x i) (h i)) (wj, n, ci, b))) =
              sadd (isum (K1 g) (fun k => let '(ci, b) := k in smul (w (co, ci, b)) (windows1 g s0 x (wj, n, ci, b))))
                   (isum (K1 g) (fun k => let '(ci, b) := k in smul (w (co, ci, b)) (windows1 g s0 h (wj, n, ci, b))))).
  { rewrite <- isum_add. apply isum_ext. intros [ci b] _. now rewrite windows1_add, smul_add_r. }
  rewrite E. destruct bias; auto. apply sadd_swap_r.
Qed.

Theorem conv1d_additive_w g (w v : pos1 -> A) bias (x : pos1 -> A) q :
  conv1d_fwd g (fun i => sadd (w i) (v i)) bias x q = sadd (conv1d_fwd g w bias x q) (conv1d_fwd g v None x q).
Proof.
  destruct q as [[n co] wj]. unfold conv1d_fwd, move_last_first3, bias_add3, conv1d_td.
  assert (E : isum (K1 g) (fun k => let '(ci, b) := k in smul (sadd (w (co, ci, b)) (v (co, ci, b))) (windows1 g s0 x (wj, n, ci, b))) =
              sadd (isum (K1 g) (fun k => let '(ci, b) := k in smul (w (co, ci, b)) (windows1 g s0 x (wj, n, ci, b))))
                   (isum (K1 g) (fun k => let '(ci, b) := k in smul (v (co, ci, b)) (windows1 g s0 x (wj, n, ci, b))))).
  { rewrite <- isum_add. apply isum_ext. intros [ci b] _. now rewrite smul_add_l. }
  rewrite E. destruct bias; auto. apply sadd_swap_r.
Qed.

Theorem conv1d_bias_additive g w (b : Z -> A) (x : pos1 -> A) q :
  conv1d_fwd g w (Some b) x q = sadd (conv1d_fwd g w None x q) (let '(_, co, _) := q in b co).
Proof. destruct q as [[n co] wj]. reflexivity. Qed.
End Conv1.

(* ================================================================== 2-D *)
Section Conv2.
Context {A : Type} `{ScalarLaws A} `{!CommLaws A}.

Lemma in_K2 g ci a b : In (ci, a, b) (K2 g) <-> 0 <= ci < gC g /\ 0 <= a < kH g /\ 0 <= b < kW g.
Proof. unfold K2. rewrite !in_prod_iff, !in_zr. tauto. Qed.

Lemma windows2_xpad g pv (x : pos -> A) wi wj n c a b : valid g ->
  0 <= wi < lH g -> 0 <= wj < lW g -> 0 <= n < gN g -> 0 <= c < gC g -> 0 <= a < kH g -> 0 <= b < kW g ->
  windows2 g pv x (wi, wj, n, c, a, b) = xpad2 g pv x (n, c, wi * sH g + a * dH g, wj * sW g + b * dW g).
Proof. intros. unfold windows2, xpad2. now rewrite ew_closed. Qed.

(* C06: the tensordot / moveaxis pipeline of conv2d_forward is the cross-correlation *)
Theorem conv2d_is_crosscorr g (w : pos -> A) bias (x : pos -> A) n co wi wj : valid g ->
  0 <= n < gN g -> 0 <= wi < lH g -> 0 <= wj < lW g ->
  conv2d_fwd g w bias x (n, co, wi, wj) = crosscorr2 g w bias x (n, co, wi, wj).
Proof.
  intros Hv Hn Hwi Hwj. unfold conv2d_fwd, move_last_first4, bias_add4, crosscorr2, with_bias, conv2d_td.
  assert (E : isum (K2 g) (fun k => let '(ci, a, b) := k in smul (w (co, ci, a, b)) (windows2 g s0 x (wi, wj, n, ci, a, b))) =
              isum (K2 g) (fun k => let '(ci, a, b) := k in
                 smul (w (co, ci, a, b)) (xpad2 g s0 x (n, ci, wi * sH g + a * dH g, wj * sW g + b * dW g)))).
  { apply isum_ext. intros [[ci a] b] Hin. apply in_K2 in Hin as (Hci & Ha & Hb). now rewrite windows2_xpad. }
  rewrite E. destruct bias; auto. apply sadd_comm.
Qed.

Lemma conv2d_pairing g Co (gr w : pos -> A) (win : win6 -> A) :
  dotl (Out2 g Co) gr (move_last_first4 (conv2d_td g w win)) =
  pairing idx3 Z idx3 (B2 g) (zr Co) (K2 g)
    (fun o c => let '(n, wi, wj) := o in gr (n, c, wi, wj)) (fun c k => let '(ci, a, b) := k in w (c, ci, a, b))
    (fun o k => let '(n, wi, wj) := o in let '(ci, a, b) := k in win (wi, wj, n, ci, a, b)).
Proof.
  unfold dotl, Out2, pairing, B2, pos, idx3. rewrite !isum_list_prod. swap1. swap2.
  apply isum_ext; intros n _. apply isum_ext; intros wi _. apply isum_ext; intros wj _. apply isum_ext; intros co _.
  cbn [move_last_first4 conv2d_td]. f_equal. apply isum_ext. intros [[ci a] b] _. reflexivity.
Qed.

Lemma conv2d_nobias g (w x : pos -> A) (l : list pos) (gr : pos -> A) :
  dotl l gr (conv2d_fwd g w None x) = dotl l gr (move_last_first4 (conv2d_td g w (windows2 g s0 x))).
Proof. apply isum_ext. intros [[[n co] wi] wj] _. reflexivity. Qed.

(* C02: input gradient *)
Theorem conv2d_vjp_x_lemma g Co (gr w x : pos -> A) : valid g ->
  dotl (Out2 g Co) gr (conv2d_fwd g w None x) = dotl (Ipos g) (conv2d_bwd_x g Co gr w) x.
Proof.
  intros Hv. unfold conv2d_bwd_x. rewrite <- windows2_adjoint by auto.
  rewrite conv2d_nobias, conv2d_pairing, pairing_x. unfold dotl. rewrite isum_Jwin.
  unfold B2, idx3. rewrite !isum_list_prod, oH_eq, oW_eq by auto. swap0. swap1.
  apply isum_ext; intros wi _. apply isum_ext; intros wj _. apply isum_ext; intros n _.
  unfold K2, idx3. rewrite !isum_list_prod.
  apply isum_ext; intros ci _. apply isum_ext; intros a _. apply isum_ext; intros b _. reflexivity.
Qed.

(* C02: weight gradient *)
Theorem conv2d_vjp_w_lemma g Co (gr w x : pos -> A) : valid g ->
  dotl (Out2 g Co) gr (conv2d_fwd g w None x) = dotl (Wt2 g Co) (conv2d_bwd_w g gr (windows2 g s0 x)) w.
Proof.
  intros Hv. rewrite conv2d_nobias, conv2d_pairing, pairing_w. unfold dotl, Wt2, pos. rewrite !isum_list_prod.
  apply isum_ext; intros co _. unfold K2, idx3. rewrite !isum_list_prod.
  apply isum_ext; intros ci _. apply isum_ext; intros a _. apply isum_ext; intros b _.
  cbn [conv2d_bwd_w]. f_equal. unfold O2, B2, idx3. rewrite !isum_list_prod. swap0. swap1. reflexivity.
Qed.

(* C02: bias gradient *)
Theorem conv2d_vjp_b_lemma g Co (gr : pos -> A) (b : Z -> A) :
  dotl (Out2 g Co) gr (fun q => let '(_, co, _, _) := q in b co) = dotl (zr Co) (conv2d_bwd_b g gr) b.
Proof.
  unfold dotl, Out2, pos. rewrite !isum_list_prod. swap1. swap2.
  transitivity (isum (B2 g) (fun o => isum (zr Co) (fun co => smul (let '(n, wi, wj) := o in gr (n, co, wi, wj)) (b co)))).
  { unfold B2, idx3. rewrite !isum_list_prod. reflexivity. }
  rewrite (pairing_b idx3 Z (B2 g) (zr Co) (fun o c => let '(n, wi, wj) := o in gr (n, c, wi, wj)) b).
  apply isum_ext; intros co _. reflexivity.
Qed.

Lemma windows2_add g (x h : pos -> A) t : windows2 g s0 (fun i => sadd (x i) (h i)) t = sadd (windows2 g s0 x t) (windows2 g s0 h t).
Proof.
  destruct t as [[[[[wi wj] n] c] a] b]. unfold windows2. destruct (ew g wi wj n c a b); cbn [cell_val]; auto; now rewrite sadd_0_l.
Qed.

Theorem conv2d_additive_x g w bias (x h : pos -> A) q :
  conv2d_fwd g w bias (fun i => sadd (x i) (h i)) q = sadd (conv2d_fwd g w bias x q) (conv2d_fwd g w None h q).
Proof.
  destruct q as [[[n co] wi] wj]. unfold conv2d_fwd, move_last_first4, bias_add4, conv2d_td.
  assert (E : isum (K2 g) (fun k => let '(ci, a, b) := k in smul (w (co, ci, a, b)) (windows2 g s0 (fun i => sadd (x i) (h i)) (wi, wj, n, ci, a, b))) =
              sadd (isum (K2 g) (fun k => let '(ci, a, b) := k in smul (w (co, ci, a, b)) (windows2 g s0 x (wi, wj, n, ci, a, b))))
                   (isum (K2 g) (fun k => let '(ci, a, b) := k in smul (w (co, ci, a, b)) (windows2 g s0 h (wi, wj, n, ci, a, b))))).
  { rewrite <- isum_add. apply isum_ext. intros [[ci a] b] _. now rewrite windows2_add, smul_add_r. }
  rewrite E. destruct bias; auto. apply sadd_swap_r.
Qed.

Theorem conv2d_additive_w g (w v : pos -> A) bias (x : pos -> A) q :
  conv2d_fwd g (fun i => sadd (w i) (v i)) bias x q = sadd (conv2d_fwd g w bias x q) (conv2d_fwd g v None x q).
Proof.
  destruct q as [[[n co] wi] wj]. unfold conv2d_fwd, move_last_first4, bias_add4, conv2d_td.
  assert (E : isum (K2 g) (fun k => let '(ci, a, b) := k in smul (sadd (w (co, ci, a, b)) (v (co, ci, a, b))) (windows2 g s0 x (wi, wj, n, ci, a, b))) =
              sadd (isum (K2 g) (fun k => let '(ci, a, b) := k in smul (w (co, ci, a, b)) (windows2 g s0 x (wi, wj, n, ci, a, b))))
                   (isum (K2 g) (fun k => let '(ci, a, b) := k in smul (v (co, ci, a, b)) (windows2 g s0 x (wi, wj, n, ci, a, b))))).
  { rewrite <- isum_add. apply isum_ext. intros [[ci a] b] _. now rewrite smul_add_l. }
  rewrite E. destruct bias; auto. apply sadd_swap_r.
Qed.

Theorem conv2d_bias_additive g w (b : Z -> A) (x : pos -> A) q :
  conv2d_fwd g w (Some b) x q = sadd (conv2d_fwd g w None x q) (let '(_, co, _, _) := q in b co).
Proof. destruct q as [[[n co] wi] wj]. reflexivity. Qed.
End Conv2.

(* ================================================================== unfold / fold, and convolution = matrix product with unfold *)
Lemma row_split g c a b : 0 < kH g -> 0 < kW g -> 0 <= a < kH g -> 0 <= b < kW g ->
  let r := (c * kH g + a) * kW g + b in
  r / (kH g * kW g) = c /\ (r / kW g) mod kH g = a /\ r mod kW g = b.
Proof.
  intros HkH HkW Ha Hb r.
  assert (Eb : r mod kW g = b) by (eapply mod_unique'; eauto; reflexivity).
  assert (Dk : r / kW g = c * kH g + a) by (eapply div_unique'; eauto; reflexivity).
  assert (Ea : (r / kW g) mod kH g = a) by (rewrite Dk; eapply mod_unique'; eauto).
  assert (Ec : r / (kH g * kW g) = c).
  { apply (div_unique' _ _ c (a * kW g + b)). nia. unfold r. ring. }
  auto.
Qed.

Lemma row_range g c a b : 0 <= c < gC g -> 0 <= a < kH g -> 0 <= b < kW g -> 0 <= (c * kH g + a) * kW g + b < nR g.
Proof.
  intros Hc Ha Hb. pose proof (mul_lt_bound c (kH g) a (gC g) Hc Ha) as B1.
  pose proof (mul_lt_bound _ (kW g) b _ B1 Hb) as B2. unfold nR. lia.
Qed.
Lemma col_range g wi wj : 0 <= wi < lH g -> 0 <= wj < lW g -> 0 <= wi * lW g + wj < nL g.
Proof. intros Hi Hj. pose proof (mul_lt_bound wi (lW g) wj (lH g) Hi Hj). unfold nL. lia. Qed.

Section Unfold.
Context {A : Type} `{ScalarLaws A}.

(* C06 unfold_layout: row r = ci*kH*kW + a*kW + b (channel-major kernel index), column l = wi*lW + wj (row-major block index);
   the entry is the padded input at (n, ci, wi*sH + a*dH, wj*sW + b*dW) *)
Theorem unfold_layout_rl g pv (x : pos -> A) n r l : valid g -> 0 <= n < gN g -> 0 <= r < nR g -> 0 <= l < nL g ->
  unfold_fwd g pv x (n, r, l) =
  xpad2 g pv x (n, r / (kH g * kW g), ((r / kW g) mod kH g) * dH g + sH g * (l / lW g), (r mod kW g) * dW g + sW g * (l mod lW g)).
Proof.
  intros Hv Hn Hr Hl. unfold unfold_fwd, im2col_apply, xpad2. rewrite fast_unf_closed by auto. reflexivity.
Qed.

Theorem unfold_layout g pv (x : pos -> A) n c a b wi wj : valid g ->
  0 <= n < gN g -> 0 <= c < gC g -> 0 <= a < kH g -> 0 <= b < kW g -> 0 <= wi < lH g -> 0 <= wj < lW g ->
  unfold_fwd g pv x (n, (c * kH g + a) * kW g + b, wi * lW g + wj) =
  xpad2 g pv x (n, c, wi * sH g + a * dH g, wj * sW g + b * dW g).
Proof.
  intros Hv Hn Hc Ha Hb Hwi Hwj. unfold unfold_fwd, im2col_apply, xpad2.
  rewrite fast_unf_closed by (auto using row_range, col_range).
  rewrite phi_of_win by (auto; lia). reflexivity.
Qed.

(* C06 fold_sums_overlaps: pixel i of fold(y) is the sum of all entries of y whose (row, column) reads pixel i in unfold *)
Theorem fold_sums_overlaps g (y : idx3 -> A) i : valid g ->
  fold_fwd g y i = isum (Junf g) (fun j => match phi_opt g j with Some i' => if pos_eqb i' i then y j else s0 | None => s0 end).
Proof. intros Hv. unfold fold_fwd. exact (col2im_unf_scatter VFast g y i Hv). Qed.

(* C02: unfold and fold are each other's transpose *)
Theorem unfold_fold_adjoint g (x : pos -> A) (y : idx3 -> A) : valid g ->
  dotl (Junf g) y (unfold_fwd g s0 x) = dotl (Ipos g) (fold_fwd g y) x.
Proof. intros Hv. exact (adjoint_unf VFast VFast g x y Hv). Qed.

(* a non-zero pad value only adds a constant: unfold is affine with linear part unfold(., pad 0) *)
Theorem unfold_additive g pv (x h : pos -> A) j :
  unfold_fwd g pv (fun i => sadd (x i) (h i)) j = sadd (unfold_fwd g pv x j) (unfold_fwd g s0 h j).
Proof.
  unfold unfold_fwd, im2col_apply. destruct (fast_unf g j); cbn [cell_val]; auto; now rewrite sadd_0_r.
Qed.
Theorem fold_additive g (y z : idx3 -> A) i :
  fold_fwd g (fun j => sadd (y j) (z j)) i = sadd (fold_fwd g y i) (fold_fwd g z i).
Proof.
  unfold fold_fwd, col2im_apply. rewrite <- isum_add. apply isum_ext. intros [j [t|]] _; cbn [fst snd].
  - destruct (pos_eqb t i); auto. now rewrite sadd_0_l.
  - now rewrite sadd_0_l.
Qed.
End Unfold.

Section ConvUnfold.
Context {A : Type} `{ScalarLaws A} `{!CommLaws A}.

(* C14: conv2d(x, w, b)[n] = w.reshape(C_out, -1) @ unfold(x)[n] + b, reshaped to the output grid *)
Theorem conv_is_unfold_matmul_lemma g (w : pos -> A) bias (x : pos -> A) n co wi wj : valid g ->
  0 <= n < gN g -> 0 <= wi < lH g -> 0 <= wj < lW g ->
  conv2d_fwd g w bias x (n, co, wi, wj) = conv_via_unfold g w bias x (n, co, wi, wj).
Proof.
  intros Hv Hn Hwi Hwj. rewrite conv2d_is_crosscorr by auto.
  unfold crosscorr2, conv_via_unfold. f_equal.
  rewrite isum_zr_R by auto. unfold K2, idx3. rewrite !isum_list_prod.
  apply isum_ext; intros ci Hci. apply isum_ext; intros a Ha. apply isum_ext; intros b Hb.
  apply in_zr in Hci. apply in_zr in Ha. apply in_zr in Hb.
  rewrite unfold_layout by auto. unfold w_flat.
  pose proof Hv as Hv'. dv Hv'.
  destruct (row_split g ci a b HkH HkW Ha Hb) as (E1 & E2 & E3). cbv zeta in E1, E2, E3. rewrite E1, E2, E3. reflexivity.
Qed.

(* C14, gradients: back-propagating through the composition  unfold -> matrix product  gives the gradients of the fused kernel.
   dU = w.reshape(C_out,-1).T @ g  is the gradient reaching unfold's output; unfold's backward (col2im_fast) maps it to x. *)
Definition dU_of g Co (gr w : pos -> A) : idx3 -> A :=
  fun j => let '(n, r, l) := j in isum (zr Co) (fun co => smul (w_flat g w co r) (gr (n, co, l / lW g, l mod lW g))).
Definition dWflat_of g (gr x : pos -> A) (co r : Z) : A :=
  isum (zr (gN g)) (fun n => isum (zr (nL g)) (fun l => smul (gr (n, co, l / lW g, l mod lW g)) (unfold_fwd g s0 x (n, r, l)))).

Lemma place2_ext g (y y' : win6 -> A) i : valid g -> (forall t, In t (Jwin g) -> y t = y' t) -> place2 g y i = place2 g y' i.
Proof.
  intros Hv E. rewrite !place2_scatter by auto. unfold scatter. apply isum_ext. intros t Ht.
  rewrite (E t Ht). reflexivity.
Qed.

Theorem conv_unfold_grad_x g Co (gr w : pos -> A) i : valid g ->
  unfold_bwd g (dU_of g Co gr w) i = conv2d_bwd_x g Co gr w i.
Proof.
  intros Hv. unfold unfold_bwd, fold_fwd, conv2d_bwd_x.
  rewrite (col2im_unf_scatter VFast g _ i Hv), <- (place_windows_scatter g _ i Hv).
  change (col2im_apply (pw_contribs g) ?y i) with (place2 g y i).
  apply place2_ext; auto. intros [[[[[wi wj] n] c] a] b] Hin. apply in_Jwin in Hin as (Hwi & Hwj & Hn & Hc & Ha & Hb).
  unfold jwin, dU_of, move_0_2_of6, conv2d_agw. apply isum_ext; intros co _.
  pose proof Hv as Hv'. dv Hv'.
  destruct (row_split g c a b HkH HkW Ha Hb) as (E1 & E2 & E3). cbv zeta in E1, E2, E3.
  unfold w_flat. rewrite E1, E2, E3.
  destruct (divmod_unique (wi * lW g + wj) (lW g) wi wj Hwj eq_refl) as [-> ->]. apply smul_comm.
Qed.

Theorem conv_unfold_grad_w g (gr x : pos -> A) co c a b : valid g -> 0 <= c < gC g -> 0 <= a < kH g -> 0 <= b < kW g ->
  dWflat_of g gr x co ((c * kH g + a) * kW g + b) = conv2d_bwd_w g gr (windows2 g s0 x) (co, c, a, b).
Proof.
  intros Hv Hc Ha Hb. unfold dWflat_of, conv2d_bwd_w, O2, idx3. rewrite !isum_list_prod, oH_eq, oW_eq by auto.
  symmetry. swap1. swap0. symmetry.
  apply isum_ext; intros n Hn. apply in_zr in Hn. rewrite isum_zr_L by auto.
  apply isum_ext; intros wi Hwi. apply isum_ext; intros wj Hwj. apply in_zr in Hwi. apply in_zr in Hwj.
  destruct (divmod_unique (wi * lW g + wj) (lW g) wi wj Hwj eq_refl) as [-> ->].
  rewrite unfold_layout, windows2_xpad by auto. reflexivity.
Qed.
End ConvUnfold.
