(* Proofs for C08.  Part 1: facts that hold for every array back-end (frozen parameters, fresh slots,
   non-corruption, untouched tensors).  Part 2: refinement of the documented algorithms over R. *)
From Coq Require Import List Bool Arith Lia QArith Qreals Reals FunctionalExtensionality.
Import ListNotations.
From SG Require Import State.ArrOps State.ArrOpsR Gen.GenOptim State.Optim State.OptimSpec.

(* ------------------------------------------------------------------------------------------- *)
(* list helpers *)
Lemma upd_nth_length {A} (f : A -> A) : forall l n, length (upd_nth n f l) = length l.
Proof. induction l as [|x l IH]; intros [|n]; cbn; auto. Qed.

Lemma nth_error_upd_nth_same {A} (f : A -> A) : forall l n x,
  nth_error l n = Some x -> nth_error (upd_nth n f l) n = Some (f x).
Proof. induction l as [|y l IH]; intros [|n] x H; cbn in *; try discriminate; [now inversion H | auto]. Qed.

Lemma nth_error_upd_nth_other {A} (f : A -> A) : forall l n m,
  n <> m -> nth_error (upd_nth n f l) m = nth_error l m.
Proof. induction l as [|y l IH]; intros [|n] [|m] H; cbn; auto; try congruence. Qed.

Lemma nth_error_app_last {A} (l : list A) x : nth_error (l ++ [x]) (length l) = Some x.
Proof. induction l; cbn; auto. Qed.

Lemma Forall2_upd_nth {A B} (R : A -> B -> Prop) f g :
  (forall a b, R a b -> R (f a) (g b)) ->
  forall l m, Forall2 R l m -> forall n, Forall2 R (upd_nth n f l) (upd_nth n g m).
Proof.
  intros Hfg l m H; induction H as [|a b l m Hab Hlm IH]; intros [|n]; cbn; constructor; auto.
Qed.

Lemma Forall2_map2 {A B C D} (R : A -> B -> Prop) (R' : C -> D -> Prop) f g :
  (forall a b, R a b -> R' (f a) (g b)) ->
  forall l m, Forall2 R l m -> Forall2 R' (map f l) (map g m).
Proof. intros Hfg l m H; induction H; cbn; constructor; auto. Qed.

Lemma Forall_upd_nth {A} (P : A -> Prop) f :
  (forall a, P a -> P (f a)) -> forall l n, Forall P l -> Forall P (upd_nth n f l).
Proof.
  intros Hf l; induction l as [|x l IH]; intros [|n] H; cbn; auto; inversion H; subst; constructor; auto.
Qed.

(* ------------------------------------------------------------------------------------------- *)
(* Part 1: any back-end *)
Section AnyOps.
Variable O : arr_ops.
Notation V := (V O).

(* the skip guard of the three generated steps *)
Lemma sgd_step_frozen h t g b d : sgd_step O h t false g b d = None.
Proof. reflexivity. Qed.
Lemma adam_step_frozen h t g m1 m2 n d : adam_step O h t false g m1 m2 n d = None.
Proof. reflexivity. Qed.
Lemma adamw_step_frozen h t g m1 m2 n d : adamw_step O h t false g m1 m2 n d = None.
Proof. reflexivity. Qed.
Lemma sgd_step_nograd h t r b d : sgd_step O h t r None b d = None.
Proof. unfold sgd_step. destruct r; reflexivity. Qed.
Lemma adam_step_nograd h t r m1 m2 n d : adam_step O h t r None m1 m2 n d = None.
Proof. unfold adam_step. destruct r; reflexivity. Qed.
Lemma adamw_step_nograd h t r m1 m2 n d : adamw_step O h t r None m1 m2 n d = None.
Proof. unfold adamw_step. destruct r; reflexivity. Qed.

(* every array the generated steps store into optimizer state is a fresh array, never the gradient buffer *)
Definition upd_fresh (u : upd V) : Prop := match u with Keep => True | Store _ al => al = false end.

Lemma sgd_stores_fresh h t r g b d d' u : sgd_step O h t r g b d = Some (d', u) -> upd_fresh u.
Proof.
  unfold sgd_step. destruct r, g as [g|]; cbn; try discriminate.
  destruct (Qeq_bool (sgd_weight_decay h) _), (Qeq_bool (sgd_momentum h) _), b as [b|], (sgd_nesterov h), (sgd_maximize h);
    cbn; intros H; inversion H; subst; cbn; auto.
Qed.

Lemma adam_stores_fresh h t r g m1 m2 n d d' u1 u2 n' :
  adam_step O h t r g m1 m2 n d = Some (d', u1, u2, n') -> upd_fresh u1 /\ upd_fresh u2.
Proof.
  unfold adam_step. destruct r, g as [g|]; cbn; try discriminate.
  destruct (Qeq_bool (adam_weight_decay h) _); cbn; intros H; inversion H; subst; cbn; auto.
Qed.

Lemma adamw_stores_fresh h t r g m1 m2 n d d' u1 u2 n' :
  adamw_step O h t r g m1 m2 n d = Some (d', u1, u2, n') -> upd_fresh u1 /\ upd_fresh u2.
Proof.
  unfold adamw_step. destruct r, g as [g|]; cbn; try discriminate.
  intros H; inversion H; subst; cbn; auto.
Qed.

Definition own (r : sref O) : Prop := is_ref O r = false.
Definition sgd_fresh (s : sgd_slots O) : Prop := match s with None => True | Some r => own r end.
Definition adam_fresh (s : adam_slots O) : Prop := let '(m1, m2, _) := s in own m1 /\ own m2.

Lemma store_fresh gcur v : own (store O gcur v false).
Proof. reflexivity. Qed.

Lemma apply_upd_own gcur r u : own r -> upd_fresh u -> own (apply_upd O gcur r u).
Proof. destruct u as [|v al]; cbn; auto. intros _ ->. apply store_fresh. Qed.

Lemma sgd_pstep_fresh h t r gcur hp s d s' d' :
  sgd_fresh s -> sgd_pstep O h t r gcur hp s d = Some (s', d') -> sgd_fresh s'.
Proof.
  unfold sgd_pstep. intros Hs.
  destruct (sgd_step O h t r _ _ d) as [[d2 u]|] eqn:E; [|discriminate].
  intros H; inversion H; subst. apply sgd_stores_fresh in E.
  destruct u as [|v al]; cbn in *; auto. subst. apply store_fresh.
Qed.

Lemma adam_pstep_fresh h t r gcur hp s d s' d' :
  adam_fresh s -> adam_pstep O h t r gcur hp s d = Some (s', d') -> adam_fresh s'.
Proof.
  unfold adam_pstep. destruct s as [[m1 m2] n]. intros [H1 H2].
  destruct (adam_step O h t r _ _ _ n d) as [[[[d2 u1] u2] n2]|] eqn:E; [|discriminate].
  intros H; inversion H; subst. apply adam_stores_fresh in E as [E1 E2].
  split; apply apply_upd_own; auto.
Qed.

Lemma adamw_pstep_fresh h t r gcur hp s d s' d' :
  adam_fresh s -> adamw_pstep O h t r gcur hp s d = Some (s', d') -> adam_fresh s'.
Proof.
  unfold adamw_pstep. destruct s as [[m1 m2] n]. intros [H1 H2].
  destruct (adamw_step O h t r _ _ _ n d) as [[[[d2 u1] u2] n2]|] eqn:E; [|discriminate].
  intros H; inversion H; subst. apply adamw_stores_fresh in E as [E1 E2].
  split; apply apply_upd_own; auto.
Qed.

Lemma sgd_obs_fresh h1 h2 s : sgd_fresh s -> sgd_obs O h1 s = sgd_obs O h2 s.
Proof. destruct s as [[v|l]|]; cbn; auto; discriminate. Qed.
Lemma adam_obs_fresh h1 h2 s : adam_fresh s -> adam_obs O h1 s = adam_obs O h2 s.
Proof. destruct s as [[[v|l] [w|l']] n]; cbn; intros [A B]; auto; discriminate. Qed.

(* ---- the generic machine ---- *)
Section Generic.
Variable St : Type.
Variable pstep : nat -> bool -> option nat -> list V -> St -> V -> option (St * V).
Variable fresh : St -> Prop.
Variable X : Type.
Variable obs : list V -> St -> X.
Hypothesis obs_fresh : forall h1 h2 s, fresh s -> obs h1 s = obs h2 s.
Hypothesis pstep_fresh : forall t r gcur hp s d s' d', fresh s -> pstep t r gcur hp s d = Some (s', d') -> fresh s'.
Hypothesis pstep_frozen : forall t gcur hp s d, pstep t false gcur hp s d = None.

Notation param := (param O St).
Notation ost := (ost O St).
Notation do_ev := (do_ev O St pstep).
Notation run := (run O St pstep).

Definition pfresh (p : param) : Prop := fresh (slots p).
Definition pobs (p : param) : X := obs (heap p) (slots p).

Lemma run_app s h1 h2 : run s (h1 ++ h2) = run (run s h1) h2.
Proof. unfold Optim.run. apply fold_left_app. Qed.

Lemma backward_slots : forall l gs, map slots (backward O St l gs) = map slots l.
Proof.
  induction l as [|p l IH]; intros [|g gs]; cbn; auto. f_equal; auto.
  destruct g as [g|]; cbn; auto. unfold accumulate. destruct (req p), (gcur p); reflexivity.
Qed.

Lemma upd_nth_set_req_slots b : forall (l : list param) i, map slots (upd_nth i (set_req O St b) l) = map slots l.
Proof. induction l as [|p l IH]; intros [|i]; cbn; auto. f_equal; auto. Qed.

Lemma do_ev_fresh s e : Forall pfresh (ps s) -> Forall pfresh (ps (do_ev s e)).
Proof.
  intros H. destruct e as [gs| | |i|i]; cbn.
  - revert gs. induction H as [|p l Hp Hl IH]; intros [|g gs]; cbn; auto.
    constructor; auto. destruct g as [g|]; cbn; auto. unfold accumulate, pfresh. destruct (req p), (gcur p); cbn; auto.
  - induction H as [|p l Hp Hl IH]; cbn; constructor; auto. destruct (given p); auto.
  - induction H as [|p l Hp Hl IH]; cbn; constructor; auto.
    unfold step1. destruct (given p); auto.
    destruct (pstep _ _ _ _ _ _) as [[s' d']|] eqn:E; auto. unfold pfresh; cbn. eapply pstep_fresh; eauto.
  - apply Forall_upd_nth; auto.
  - apply Forall_upd_nth; auto.
Qed.

Lemma run_fresh h : forall s, Forall pfresh (ps s) -> Forall pfresh (ps (run s h)).
Proof. induction h as [|e h IH]; intros s H; cbn; auto. apply IH, do_ev_fresh, H. Qed.

(* no event changes which tensors the optimizer owns *)
Lemma do_ev_given s e : map given (ps (do_ev s e)) = map given (ps s).
Proof.
  destruct e as [gs| | |i|i]; cbn.
  - revert gs. induction (ps s) as [|p l IH]; intros [|g gs]; cbn; auto. f_equal; auto.
    destruct g as [g|]; cbn; auto. unfold accumulate. destruct (req p), (gcur p); reflexivity.
  - induction (ps s) as [|p l IH]; cbn; auto. f_equal; auto. destruct (given p) eqn:E; cbn; auto.
  - induction (ps s) as [|p l IH]; cbn; auto. f_equal; auto. unfold step1.
    destruct (given p) eqn:E; auto. destruct (pstep _ _ _ _ _ _) as [[s' d']|]; cbn; auto.
  - revert i. induction (ps s) as [|p l IH]; intros [|i]; cbn; auto. f_equal; auto.
  - revert i. induction (ps s) as [|p l IH]; intros [|i]; cbn; auto. f_equal; auto.
Qed.

Lemma run_given h : forall s, map given (ps (run s h)) = map given (ps s).
Proof.
  induction h as [|e h IH]; intros s; [reflexivity|].
  transitivity (map given (ps (do_ev s e))); [exact (IH (do_ev s e)) | apply do_ev_given].
Qed.

Lemma init_given sinit l : map given (ps (init O St sinit l)) = map (fun x : V * bool * bool => snd x) l.
Proof. induction l as [|[[d r] g] l IH]; cbn; auto. f_equal; auto. Qed.

Lemma init_fresh sinit l : fresh sinit -> Forall pfresh (ps (init O St sinit l)).
Proof. intros H. induction l as [|[[d r] g] l IH]; cbn; constructor; auto. Qed.

(* Backward / ZeroGrad / Freeze / Unfreeze never change what the optimizer has stored *)
Lemma non_step_keeps_obs s e :
  Forall pfresh (ps s) -> e <> Step ->
  map pobs (ps (do_ev s e)) = map pobs (ps s) /\ tcount (do_ev s e) = tcount s.
Proof.
  intros H He. split; [|destruct e; cbn; congruence].
  destruct e as [gs| | |i|i]; cbn; try congruence.
  - clear He. revert gs. induction H as [|p l Hp Hl IH]; intros [|g gs]; cbn; auto. f_equal; auto.
    destruct g as [g|]; cbn; auto. unfold accumulate, pobs. destruct (req p), (gcur p); cbn; auto.
  - induction H as [|p l Hp Hl IH]; cbn; auto. f_equal; auto. destruct (given p); auto.
    unfold pobs; cbn. auto.
  - clear He. revert i. induction H as [|p l Hp Hl IH]; intros [|i]; cbn; auto. f_equal; auto.
  - clear He. revert i. induction H as [|p l Hp Hl IH]; intros [|i]; cbn; auto. f_equal; auto.
Qed.

(* a parameter that does not require grad, or a tensor not given to the optimizer, is left alone by Step *)
Lemma step1_frozen t (p : param) : req p = false -> step1 O St pstep t p = p.
Proof. intros H. unfold step1. rewrite H, pstep_frozen. destruct (given p); reflexivity. Qed.

Lemma step1_not_given t (p : param) : given p = false -> step1 O St pstep t p = p.
Proof. intros H. unfold step1. rewrite H. reflexivity. Qed.

Lemma step_nth s i p : nth_error (ps s) i = Some p ->
  nth_error (ps (do_ev s Step)) i = Some (step1 O St pstep (S (tcount s)) p).
Proof. intros H. cbn. rewrite nth_error_map, H. reflexivity. Qed.

End Generic.
End AnyOps.

(* ------------------------------------------------------------------------------------------- *)
(* Part 2: over R, the model driven by the generated steps follows the documented algorithms *)
Local Open Scope R_scope.

Section Refine.
Variable St SS : Type.
Variable pstep : nat -> bool -> option nat -> list vec -> St -> vec -> option (St * vec).
Variable update : SS -> vec -> vec -> SS * vec.
Variable Rs : St -> SS -> Prop.
(* one update of one parameter: skipped exactly when frozen or without gradient, otherwise the documented update *)
Hypothesis Hsim : forall t r gcur hp s ss d, Rs s ss ->
  match pstep t r gcur hp s d with
  | None => r = false \/ grad_of fun_ops gcur hp = None
  | Some (s', d') => r = true /\ exists g, grad_of fun_ops gcur hp = Some g /\
                     d' = snd (update ss d g) /\ Rs s' (fst (update ss d g))
  end.

Notation param := (param fun_ops St).
Notation sparam := (sparam SS).

Definition wfp (p : param) : Prop :=
  match gcur p with Some l => (l < length (heap p))%nat | None => True end.

Definition Rp (p : param) (q : sparam) : Prop :=
  data p = sdata q /\ req p = sreq q /\ given p = sgiven q /\ wfp p /\
  grad_val fun_ops St p = sacc q /\ Rs (slots p) (sstate q).

Lemma Rp_accumulate p q g : Rp p q -> Rp (accumulate fun_ops St p g) (s_backward1 SS q (Some g)).
Proof.
  intros (Hd & Hr & Hg & Hw & Ha & Hs). unfold accumulate, s_backward1. rewrite <- Hr.
  destruct (req p) eqn:Er; [|repeat split; auto; congruence].
  unfold wfp, grad_val, grad_of in *. destruct (gcur p) as [l|] eqn:El.
  - destruct (nth_error (heap p) l) as [b|] eqn:Eb; [|apply nth_error_None in Eb; lia].
    repeat split; cbn; auto; try congruence.
    all: try (rewrite upd_nth_length; exact Hw).
    all: try (rewrite (nth_error_upd_nth_same _ _ _ _ Eb), <- Ha; reflexivity).
  - repeat split; cbn; auto; try congruence.
    all: try (rewrite app_length; cbn; lia).
    all: try (rewrite nth_error_app_last, <- Ha; reflexivity).
Qed.

Lemma Rp_backward : forall l m, Forall2 Rp l m ->
  forall gs, Forall2 Rp (backward fun_ops St l gs) (s_backward SS m gs).
Proof.
  intros l m H; induction H as [|p q l m Hpq Hlm IH]; intros [|g gs]; cbn; try constructor; auto.
  destruct g as [g|]; [apply Rp_accumulate; auto | exact Hpq].
Qed.

Lemma Rp_zero p q : Rp p q -> Rp (if given p then zero1 fun_ops St p else p) (s_zero SS q).
Proof.
  intros (Hd & Hr & Hg & Hw & Ha & Hs). unfold s_zero. rewrite <- Hg.
  destruct (given p) eqn:Eg; [|repeat split; auto; congruence].
  unfold zero1, wfp, grad_val, grad_of. repeat split; cbn; auto; try congruence.
  all: try (rewrite app_length; cbn; lia).
  all: try (rewrite nth_error_app_last; reflexivity).
Qed.

Lemma Rp_step t p q : Rp p q -> Rp (step1 fun_ops St pstep t p) (s_step SS update q).
Proof.
  intros (Hd & Hr & Hg & Hw & Ha & Hs). unfold step1, s_step. rewrite <- Hg, <- Hr.
  destruct (given p) eqn:Eg; cbn; [|repeat split; auto; congruence].
  pose proof (Hsim t (req p) (gcur p) (heap p) (slots p) (sstate q) (data p) Hs) as H.
  destruct (pstep t (req p) (gcur p) (heap p) (slots p) (data p)) as [[s' d']|].
  - destruct H as (Er & g & Egv & Ed & Hs'). rewrite Er. fold (grad_val fun_ops St p) in Egv.
    rewrite <- Ha, Egv, <- Hd. repeat split; cbn; auto; congruence.
  - destruct H as [Er|En].
    + rewrite Er. repeat split; auto; congruence.
    + fold (grad_val fun_ops St p) in En. rewrite <- Ha, En. destruct (req p) eqn:Er; repeat split; auto; congruence.
Qed.

Lemma Rp_set_req b p q : Rp p q -> Rp (set_req fun_ops St b p) (s_set_req SS b q).
Proof. intros (Hd & Hr & Hg & Hw & Ha & Hs). repeat split; auto. Qed.

Lemma Rp_ev s m e : Forall2 Rp (ps s) m ->
  Forall2 Rp (ps (do_ev fun_ops St pstep s e)) (s_ev SS update m e).
Proof.
  intros H. destruct e as [gs| | |i|i]; cbn.
  - apply Rp_backward, H.
  - eapply Forall2_map2; [|exact H]. apply Rp_zero.
  - eapply Forall2_map2; [|exact H]. apply Rp_step.
  - apply Forall2_upd_nth; auto. apply Rp_set_req.
  - apply Forall2_upd_nth; auto. apply Rp_set_req.
Qed.

Lemma Rp_run h : forall s m, Forall2 Rp (ps s) m ->
  Forall2 Rp (ps (run fun_ops St pstep s h)) (s_run SS update m h).
Proof. induction h as [|e h IH]; intros s m H; cbn; auto. apply IH, Rp_ev, H. Qed.

Lemma Rp_init sinit s0 l : Rs sinit s0 -> Forall2 Rp (ps (init fun_ops St sinit l)) (s_init SS s0 l).
Proof.
  intros H. induction l as [|[[d r] g] l IH]; cbn; constructor; auto.
  repeat split; cbn; auto.
Qed.

Lemma Forall2_Rp_data l m : Forall2 Rp l m -> map data l = map sdata m.
Proof. intros H; induction H as [|p q l m (Hd & _) _ IH]; cbn; [reflexivity|]. f_equal; [exact Hd | exact IH]. Qed.

(* the parameter values after any history *)
Theorem refines sinit s0 l h : Rs sinit s0 ->
  map data (ps (run fun_ops St pstep (init fun_ops St sinit l) h)) = map sdata (s_run SS update (s_init SS s0 l) h).
Proof. intros H. apply Forall2_Rp_data, Rp_run, Rp_init, H. Qed.

End Refine.

(* ---- SGD ---- *)
Definition sgd_conf_of (h : sgd_hyper) : sgd_conf :=
  {| c_lr := sgd_lr h; c_mu := sgd_momentum h; c_tau := sgd_dampening h; c_lambda := sgd_weight_decay h;
     c_nesterov := sgd_nesterov h; c_maximize := sgd_maximize h |}.

Definition Rs_sgd (s : sgd_slots fun_ops) (b : option vec) : Prop := s = option_map (@Own fun_ops) b.

Lemma Q2R_1 : Q2R 1 = 1.
Proof. unfold Q2R; cbn. field. Qed.
Lemma Q2R_0 : Q2R 0 = 0.
Proof. unfold Q2R; cbn. field. Qed.
Lemma Q2R_qpow q n : Q2R (qpow q n) = Q2R q ^ n.
Proof. induction n as [|n IH]; cbn; [apply Q2R_1 | rewrite Q2R_mult, IH; reflexivity]. Qed.

Ltac q2r := repeat (rewrite ?Q2R_plus, ?Q2R_minus, ?Q2R_mult, ?Q2R_opp, ?Q2R_qpow, ?Q2R_1, ?Q2R_0).
Ltac vec_eq := let k := fresh "k" in extensionality k; cbn; q2r; unfold Rdiv; try ring.

Lemma sgd_sim h : forall t r gcur hp s ss d, Rs_sgd s ss ->
  match sgd_pstep fun_ops h t r gcur hp s d with
  | None => r = false \/ grad_of fun_ops gcur hp = None
  | Some (s', d') => r = true /\ exists g, grad_of fun_ops gcur hp = Some g /\
                     d' = snd (sgd_update (sgd_conf_of h) ss d g) /\ Rs_sgd s' (fst (sgd_update (sgd_conf_of h) ss d g))
  end.
Proof.
  intros t r gcur hp s b d ->. unfold sgd_pstep.
  replace (option_map (deref fun_ops hp) (option_map (@Own fun_ops) b)) with b by (destruct b; reflexivity).
  destruct r; [|rewrite sgd_step_frozen; auto].
  destruct (grad_of fun_ops gcur hp) as [g|]; [|rewrite sgd_step_nograd; auto].
  unfold sgd_step, sgd_update, Rs_sgd; cbn.
  destruct (Qeq_bool (sgd_weight_decay h) _), (Qeq_bool (sgd_momentum h) _), b as [b|], (sgd_nesterov h), (sgd_maximize h); cbn.
  all: split; [reflexivity|]; exists g; split; [reflexivity|]; split.
  all: try reflexivity.
  all: try (vec_eq; fail).
  all: try (do 2 f_equal; vec_eq; fail).
Qed.

(* ---- Adam / AdamW ---- *)
Definition adam_conf_of (h : adam_hyper) : adam_conf :=
  {| a_lr := adam_lr h; a_beta1 := adam_beta1 h; a_beta2 := adam_beta2 h; a_eps := adam_epsilon h;
     a_lambda := adam_weight_decay h; a_maximize := adam_maximize h |}.
Definition adamw_conf_of (h : adamw_hyper) : adam_conf :=
  {| a_lr := adamw_lr h; a_beta1 := adamw_beta1 h; a_beta2 := adamw_beta2 h; a_eps := adamw_epsilon h;
     a_lambda := adamw_weight_decay h; a_maximize := adamw_maximize h |}.

Definition Rs_adam (s : adam_slots fun_ops) (ss : adam_state) : Prop :=
  let '(m, v, t) := ss in s = (@Own fun_ops m, @Own fun_ops v, t).

(* equal real expressions: same shape down to sub-terms that [ring] identifies (division and sqrt are opaque to ring) *)
Ltac rsolve_n n :=
  lazymatch n with
  | O => fail
  | S ?m => solve [ reflexivity | ring | (progress f_equal; rsolve_n m) ]
  end.
Ltac rsolve := rsolve_n 12%nat.
Ltac vec_eq' := let k := fresh "k" in extensionality k; cbn; q2r; rewrite ?Nat.add_1_r; rsolve.

Lemma adam_sim h : forall t r gcur hp s ss d, Rs_adam s ss ->
  match adam_pstep fun_ops h t r gcur hp s d with
  | None => r = false \/ grad_of fun_ops gcur hp = None
  | Some (s', d') => r = true /\ exists g, grad_of fun_ops gcur hp = Some g /\
                     d' = snd (adam_update (adam_conf_of h) ss d g) /\ Rs_adam s' (fst (adam_update (adam_conf_of h) ss d g))
  end.
Proof.
  intros t r gcur hp s [[m v] n] d ->. unfold adam_pstep. cbn [deref].
  destruct r; [|rewrite adam_step_frozen; auto].
  destruct (grad_of fun_ops gcur hp) as [g|]; [|rewrite adam_step_nograd; auto].
  unfold adam_step, adam_update, adam_core, Rs_adam; cbn.
  destruct (adam_maximize h), (Qeq_bool (adam_weight_decay h) _); cbn.
  all: split; [reflexivity|]; exists g; split; [reflexivity|]; split.
  all: try (vec_eq'; fail).
  all: rewrite Nat.add_1_r; do 2 f_equal; [f_equal|]; f_equal; vec_eq'.
Qed.

Lemma adamw_sim h : forall t r gcur hp s ss d, Rs_adam s ss ->
  match adamw_pstep fun_ops h t r gcur hp s d with
  | None => r = false \/ grad_of fun_ops gcur hp = None
  | Some (s', d') => r = true /\ exists g, grad_of fun_ops gcur hp = Some g /\
                     d' = snd (adamw_update (adamw_conf_of h) ss d g) /\ Rs_adam s' (fst (adamw_update (adamw_conf_of h) ss d g))
  end.
Proof.
  intros t r gcur hp s [[m v] n] d ->. unfold adamw_pstep. cbn [deref].
  destruct r; [|rewrite adamw_step_frozen; auto].
  destruct (grad_of fun_ops gcur hp) as [g|]; [|rewrite adamw_step_nograd; auto].
  unfold adamw_step, adamw_update, adam_core, Rs_adam; cbn.
  destruct (adamw_maximize h); cbn.
  all: split; [reflexivity|]; exists g; split; [reflexivity|]; split.
  all: try (vec_eq'; fail).
  all: rewrite Nat.add_1_r; do 2 f_equal; [f_equal|]; f_equal; vec_eq'.
Qed.

Lemma Rs_adam_init : Rs_adam (adam_sinit fun_ops) adam_state0.
Proof. unfold Rs_adam, adam_sinit, adam_state0, adam_init_m1, adam_init_m2, adam_init_steps. repeat f_equal; vec_eq. Qed.
Lemma Rs_adamw_init : Rs_adam (adamw_sinit fun_ops) adam_state0.
Proof. unfold Rs_adam, adamw_sinit, adam_state0, adamw_init_m1, adamw_init_m2, adamw_init_steps. repeat f_equal; vec_eq. Qed.

(* ---- final statements (used by Props/C08.v) ---- *)
Definition sgd_model (O : arr_ops) (h : sgd_hyper) (params : list (V O * bool * bool)) (hist : list (ev (V O))) :=
  run O _ (sgd_pstep O h) (init O _ (sgd_sinit O) params) hist.
Definition adam_model (O : arr_ops) (h : adam_hyper) (params : list (V O * bool * bool)) (hist : list (ev (V O))) :=
  run O _ (adam_pstep O h) (init O _ (adam_sinit O) params) hist.
Definition adamw_model (O : arr_ops) (h : adamw_hyper) (params : list (V O * bool * bool)) (hist : list (ev (V O))) :=
  run O _ (adamw_pstep O h) (init O _ (adamw_sinit O) params) hist.

Lemma sgd_refines h params hist :
  map data (ps (sgd_model fun_ops h params hist)) =
  map sdata (s_run _ (sgd_update (sgd_conf_of h)) (s_init _ None params) hist).
Proof. apply (refines _ _ _ _ Rs_sgd (sgd_sim h)). reflexivity. Qed.

Lemma adam_refines h params hist :
  map data (ps (adam_model fun_ops h params hist)) =
  map sdata (s_run _ (adam_update (adam_conf_of h)) (s_init _ adam_state0 params) hist).
Proof. apply (refines _ _ _ _ Rs_adam (adam_sim h)). apply Rs_adam_init. Qed.

Lemma adamw_refines h params hist :
  map data (ps (adamw_model fun_ops h params hist)) =
  map sdata (s_run _ (adamw_update (adamw_conf_of h)) (s_init _ adam_state0 params) hist).
Proof. apply (refines _ _ _ _ Rs_adam (adamw_sim h)). apply Rs_adamw_init. Qed.

Section Final.
Variable O : arr_ops.

Lemma sgd_not_corrupted h params hist e : e <> Step ->
  let s := sgd_model O h params hist in
  let s' := do_ev O _ (sgd_pstep O h) s e in
  map (pobs O _ _ (sgd_obs O)) (ps s') = map (pobs O _ _ (sgd_obs O)) (ps s) /\ tcount s' = tcount s.
Proof.
  intros He. apply (non_step_keeps_obs O _ (sgd_pstep O h) (sgd_fresh O) _ (sgd_obs O)); auto.
  - intros; apply sgd_obs_fresh; auto.
  - apply run_fresh. { intros; eapply sgd_pstep_fresh; eauto. } apply init_fresh. exact I.
Qed.

Lemma adam_not_corrupted h params hist e : e <> Step ->
  let s := adam_model O h params hist in
  let s' := do_ev O _ (adam_pstep O h) s e in
  map (pobs O _ _ (adam_obs O)) (ps s') = map (pobs O _ _ (adam_obs O)) (ps s) /\ tcount s' = tcount s.
Proof.
  intros He. apply (non_step_keeps_obs O _ (adam_pstep O h) (adam_fresh O) _ (adam_obs O)); auto.
  - intros; apply adam_obs_fresh; auto.
  - apply run_fresh. { intros; eapply adam_pstep_fresh; eauto. } apply init_fresh. split; reflexivity.
Qed.

Lemma adamw_not_corrupted h params hist e : e <> Step ->
  let s := adamw_model O h params hist in
  let s' := do_ev O _ (adamw_pstep O h) s e in
  map (pobs O _ _ (adam_obs O)) (ps s') = map (pobs O _ _ (adam_obs O)) (ps s) /\ tcount s' = tcount s.
Proof.
  intros He. apply (non_step_keeps_obs O _ (adamw_pstep O h) (adam_fresh O) _ (adam_obs O)); auto.
  - intros; apply adam_obs_fresh; auto.
  - apply run_fresh. { intros; eapply adamw_pstep_fresh; eauto. } apply init_fresh. split; reflexivity.
Qed.

Lemma sgd_pstep_frozen h t gcur hp s d : sgd_pstep O h t false gcur hp s d = None.
Proof. unfold sgd_pstep. rewrite sgd_step_frozen. reflexivity. Qed.
Lemma adam_pstep_frozen h t gcur hp s d : adam_pstep O h t false gcur hp s d = None.
Proof. unfold adam_pstep. destruct s as [[m1 m2] n]. rewrite adam_step_frozen. reflexivity. Qed.
Lemma adamw_pstep_frozen h t gcur hp s d : adamw_pstep O h t false gcur hp s d = None.
Proof. unfold adamw_pstep. destruct s as [[m1 m2] n]. rewrite adamw_step_frozen. reflexivity. Qed.

(* whatever the state (any history before, weight decay or not): Step leaves a parameter that does not require
   grad exactly as it is — data, gradient, momentum/moment slots and step count *)
Lemma frozen_fixed_all :
  (forall h (s : ost O _) i p, nth_error (ps s) i = Some p -> req p = false ->
      nth_error (ps (do_ev O _ (sgd_pstep O h) s Step)) i = Some p) /\
  (forall h (s : ost O _) i p, nth_error (ps s) i = Some p -> req p = false ->
      nth_error (ps (do_ev O _ (adam_pstep O h) s Step)) i = Some p) /\
  (forall h (s : ost O _) i p, nth_error (ps s) i = Some p -> req p = false ->
      nth_error (ps (do_ev O _ (adamw_pstep O h) s Step)) i = Some p).
Proof.
  repeat split; intros h s i p Hn Hr; rewrite (step_nth O _ _ s i p Hn); f_equal; apply step1_frozen; auto;
    intros; first [apply sgd_pstep_frozen | apply adam_pstep_frozen | apply adamw_pstep_frozen].
Qed.

(* tensors that are not in optimizer.parameters are never touched by Step, for any per-parameter update *)
Lemma not_given_untouched St pstep (s : ost O St) i p :
  nth_error (ps s) i = Some p -> given p = false ->
  nth_error (ps (do_ev O St pstep s Step)) i = Some p /\
  nth_error (ps (do_ev O St pstep s ZeroGrad)) i = Some p.
Proof.
  intros Hn Hg. split.
  - rewrite (step_nth O _ _ s i p Hn). f_equal. apply step1_not_given, Hg.
  - cbn. rewrite nth_error_map, Hn. cbn. rewrite Hg. reflexivity.
Qed.

End Final.

(* the optimizer owns exactly the tensors it was given, in order, for ever *)
Lemma owns_given (O : arr_ops) St pstep sinit l h :
  map given (ps (run O St pstep (init O St sinit l) h)) = map (fun x : V O * bool * bool => snd x) l.
Proof. rewrite (run_given O St pstep h). apply init_given. Qed.

(* ---- write summaries of the three loop bodies ---- *)
Definition all_writes : list (wtarget * wkind) := sgd_writes ++ adam_writes ++ adamw_writes.

Definition write_ok (w : wtarget * wkind) : bool :=
  match w with
  | (TPData, WAugAdd) | (TPData, WAugSub) => true       (* p.data += e / p.data -= e : in place *)
  | (TPData, _) => false                                 (* p.data = e would rebind the array; other operators unknown *)
  | (TPOther _, _) => false                              (* no other attribute of the parameter is written *)
  | (TSlot _, _) => true
  | (TLocal _, _) => true
  end.

Lemma writes_ok : forallb write_ok all_writes = true.
Proof. vm_compute. reflexivity. Qed.

Lemma writes_inplace : forall w, In w all_writes ->
  match fst w with
  | TPData => snd w = WAugAdd \/ snd w = WAugSub
  | TPOther _ => False
  | _ => True
  end.
Proof.
  intros [tg k] Hin. pose proof (proj1 (forallb_forall write_ok all_writes) writes_ok _ Hin) as H.
  destruct tg, k; cbn in *; auto; discriminate.
Qed.

Lemma writes_touch_data : exists w, In w sgd_writes /\ fst w = TPData.
Proof. exists (TPData, WAugSub). split; [|reflexivity]. unfold sgd_writes. repeat (try (left; reflexivity); right). Qed.
