(* Proofs for C08.  Part 1: facts that hold for every array back-end (frozen parameters, fresh slots,
   non-corruption, untouched tensors).  Part 2: refinement of the documented algorithms over R. *)
From Coq Require Import List Bool Arith Lia QArith Qreals Reals FunctionalExtensionality.
Import ListNotations.
From SG Require Import State.ArrOps State.ArrOpsR Gen.GenOptim State.Optim State.OptimSpec.

(* ------------------------------------------------------------------------------------------- *)
(* list helpers *)
Lemma upd_nth_length {A} (f : A -> A) : forall l n, length (upd_nth n f l) = length l.
Proof. induction l as [|x l IH]; intros [|n]; cbn; auto. Qed.

Lemma nth_error_upd_nth_same {A} (f : A -> A) : forall l n x,
  nth_error l n = Some x -> nth_error (upd_nth n f l) n = Some (f x).
Proof. induction l as [|y l IH]; intros [|n] x H; cbn in *; try discriminate; [now inversion H | auto]. Qed.

Lemma nth_error_upd_nth_other {A} (f : A -> A) : forall l n m,
  n <> m -> nth_error (upd_nth n f l) m = nth_error l m.
Proof. induction l as [|y l IH]; intros [|n] [|m] H; cbn; auto; try congruence. Qed.

Lemma nth_error_app_last {A} (l : list A) x : nth_error (l ++ [x]) (length l) = Some x.
Proof. induction l; cbn; auto. Qed.

Lemma Forall2_upd_nth {A B} (R : A -> B -> Prop) f g :
  (forall a b, R a b -> R (f a) (g b)) ->
  forall l m, Forall2 R l m -> forall n, Forall2 R (upd_nth n f l) (upd_nth n g m).
Proof.
  intros Hfg l m H; induction H as [|a b l m Hab Hlm IH]; intros [|n]; cbn; constructor; auto.
Qed.

Lemma Forall2_map2 {A B C D} (R : A -> B -> Prop) (R' : C -> D -> Prop) f g :
  (forall a b, R a b -> R' (f a) (g b)) ->
  forall l m, Forall2 R l m -> Forall2 R' (map f l) (map g m).
Proof. intros Hfg l m H; induction H; cbn; constructor; auto. Qed.

Lemma Forall_upd_nth {A} (P : A -> Prop) f :
  (forall a, P a -> P (f a)) -> forall l n, Forall P l -> Forall P (upd_nth n f l).
Proof.
  intros Hf l; induction l as [|x l IH]; intros [|n] H; cbn; auto; inversion H; subst; constructor; auto.
Qed.

(* ------------------------------------------------------------------------------------------- *)
(* Part 1: any back-end *)
Section AnyOps.
Variable O : arr_ops.
Notation V := (V O).

(* the skip guard of the three generated steps *)
Lemma sgd_step_frozen h t g b d : sgd_step O h t false g b d = None.
Proof. reflexivity. Qed.
Lemma adam_step_frozen h t g m1 m2 n d : adam_step O h t false g m1 m2 n d = None.
Proof. reflexivity. Qed.
Lemma adamw_step_frozen h t g m1 m2 n d : adamw_step O h t false g m1 m2 n d = None.
Proof. reflexivity. Qed.
Lemma sgd_step_nograd h t r b d : sgd_step O h t r None b d = None.
Proof. unfold sgd_step. destruct r; reflexivity. Qed.
Lemma adam_step_nograd h t r m1 m2 n d : adam_step O h t r None m1 m2 n d = None.
Proof. unfold adam_step. destruct r; reflexivity. Qed.
Lemma adamw_step_nograd h t r m1 m2 n d : adamw_step O h t r None m1 m2 n d = None.
Proof. unfold adamw_step. destruct r; reflexivity. Qed.

(* every array the generated steps store into optimizer state is a fresh array, never the gradient buffer *)
Definition upd_fresh (u : upd V) : Prop := match u with Keep => True | Store _ al => al = false end.

Lemma sgd_stores_fresh h t r g b d d' u : sgd_step O h t r g b d = Some (d', u) -> upd_fresh u.
Proof.
  unfold sgd_step. destruct r, g as [g|]; cbn; try discriminate.
  destruct (Qeq_bool (sgd_weight_decay h) _), (Qeq_bool (sgd_momentum h) _), b as [b|], (sgd_nesterov h), (sgd_maximize h);
    cbn; intros H; inversion H; subst; cbn; auto.
Qed.

Lemma adam_stores_fresh h t r g m1 m2 n d d' u1 u2 n' :
  adam_step O h t r g m1 m2 n d = Some (d', u1, u2, n') -> upd_fresh u1 /\ upd_fresh u2.
Proof.
  unfold adam_step. destruct r, g as [g|]; cbn; try discriminate.
  destruct (Qeq_bool (adam_weight_decay h) _); cbn; intros H; inversion H; subst; cbn; auto.
Qed.

Lemma adamw_stores_fresh h t r g m1 m2 n d d' u1 u2 n' :
  adamw_step O h t r g m1 m2 n d = Some (d', u1, u2, n') -> upd_fresh u1 /\ upd_fresh u2.
Proof.
  unfold adamw_step. destruct r, g as [g|]; cbn; try discriminate.
  intros H; inversion H; subst; cbn; auto.
Qed.

Definition own (r : sref O) : Prop := is_ref O r = false.
Definition sgd_fresh (s : sgd_slots O) : Prop := match s with None => True | Some r => own r end.
Definition adam_fresh (s : adam_slots O) : Prop := let '(m1, m2, _) := s in own m1 /\ own m2.

Lemma store_fresh gcur v : own (store O gcur v false).
Proof. reflexivity. Qed.

Lemma apply_upd_own gcur r u : own r -> upd_fresh u -> own (apply_upd O gcur r u).
Proof. destruct u as [|v al]; cbn; auto. intros _ ->. apply store_fresh. Qed.

Lemma sgd_pstep_fresh h t r gcur hp s d s' d' :
  sgd_fresh s -> sgd_pstep O h t r gcur hp s d = Some (s', d') -> sgd_fresh s'.
Proof.
  unfold sgd_pstep. intros Hs.
  destruct (sgd_step O h t r _ _ d) as [[d2 u]|] eqn:E; [|discriminate].
  intros H; inversion H; subst. apply sgd_stores_fresh in E.
  destruct u as [|v al]; cbn in *; auto. subst. apply store_fresh.
Qed.

Lemma adam_pstep_fresh h t r gcur hp s d s' d' :
  adam_fresh s -> adam_pstep O h t r gcur hp s d = Some (s', d') -> adam_fresh s'.
Proof.
  unfold adam_pstep. destruct s as [[m1 m2] n]. intros [H1 H2].
  destruct (adam_step O h t r _ _ _ n d) as [[[[d2 u1] u2] n2]|] eqn:E; [|discriminate].
  intros H; inversion H; subst. apply adam_stores_fresh in E as [E1 E2].
  split; apply apply_upd_own; auto.
Qed.

Lemma adamw_pstep_fresh h t r gcur hp s d s' d' :
  adam_fresh s -> adamw_pstep O h t r gcur hp s d = Some (s', d') -> adam_fresh s'.
Proof.
  unfold adamw_pstep. destruct s as [[m1 m2] n]. intros [H1 H2].
  destruct (adamw_step O h t r _ _ _ n d) as [[[[d2 u1] u2] n2]|] eqn:E; [|discriminate].
  intros H; inversion H; subst. apply adamw_stores_fresh in E as [E1 E2].
  split; apply apply_upd_own; auto.
Qed.

Lemma sgd_obs_fresh h1 h2 s : sgd_fresh s -> sgd_obs O h1 s = sgd_obs O h2 s.
Proof. destruct s as [[v|l]|]; cbn; auto; discriminate. Qed.
Lemma adam_obs_fresh h1 h2 s : adam_fresh s -> adam_obs O h1 s = adam_obs O h2 s.
Proof. destruct s as [[[v|l] [w|l']] n]; cbn; intros [A B]; auto; discriminate. Qed.

(* ---- the generic machine ---- *)
Section Generic.
Variable St : Type.
Variable pstep : nat -> bool -> option nat -> list V -> St -> V -> option (St * V).
Variable fresh : St -> Prop.
Variable X : Type.
Variable obs : list V -> St -> X.
Hypothesis obs_fresh : forall h1 h2 s, fresh s -> obs h1 s = obs h2 s.
Hypothesis pstep_fresh : forall t r gcur hp s d s' d', fresh s -> pstep t r gcur hp s d = Some (s', d') -> fresh s'.
Hypothesis pstep_frozen : forall t gcur hp s d, pstep t false gcur hp s d = None.

Notation param := (param O St).
Notation ost := (ost O St).
Notation do_ev := (do_ev O St pstep).
Notation run := (run O St pstep).

Definition pfresh (p : param) : Prop := fresh (slots p).
Definition pobs (p : param) : X := obs (heap p) (slots p).

Lemma run_app s h1 h2 : run s (h1 ++ h2) = run (run s h1) h2.
Proof. unfold Optim.run. apply fold_left_app. Qed.

Lemma backward_slots : forall l gs, map slots (backward O St l gs) = map slots l.
Proof.
  induction l as [|p l IH]; intros [|g gs]; cbn; auto. f_equal; auto.
  destruct g as [g|]; cbn; auto. unfold accumulate. destruct (req p), (gcur p); reflexivity.
Qed.

Lemma upd_nth_set_req_slots b : forall (l : list param) i, map slots (upd_nth i (set_req O St b) l) = map slots l.
Proof. induction l as [|p l IH]; intros [|i]; cbn; auto. f_equal; auto. Qed.

Lemma do_ev_fresh s e : Forall pfresh (ps s) -> Forall pfresh (ps (do_ev s e)).
Proof.
  intros H. destruct e as [gs| | |i|i]; cbn.
  - revert gs. induction H as [|p l Hp Hl IH]; intros [|g gs]; cbn; auto.
    constructor; auto. destruct g as [g|]; cbn; auto. unfold accumulate, pfresh. destruct (req p), (gcur p); cbn; auto.
  - induction H as [|p l Hp Hl IH]; cbn; constructor; auto. destruct (given p); auto.
  - induction H as [|p l Hp Hl IH]; cbn; constructor; auto.
    unfold step1. destruct (given p); auto.
    destruct (pstep _ _ _ _ _ _) as [[s' d']|] eqn:E; auto. unfold pfresh; cbn. eapply pstep_fresh; eauto.
  - apply Forall_upd_nth; auto.
  - apply Forall_upd_nth; auto.
Qed.

Lemma run_fresh h : forall s, Forall pfresh (ps s) -> Forall pfresh (ps (run s h)).
Proof. induction h as [|e h IH]; intros s H; cbn; auto. apply IH, do_ev_fresh, H. Qed.

Lemma init_fresh sinit l : fresh sinit -> Forall pfresh (ps (init O St sinit l)).
Proof. intros H. induction l as [|[[d r] g] l IH]; cbn; constructor; auto. Qed.

(* Backward / ZeroGrad / Freeze / Unfreeze never change what the optimizer has stored *)
Lemma non_step_keeps_obs s e :
  Forall pfresh (ps s) -> e <> Step ->
  map pobs (ps (do_ev s e)) = map pobs (ps s) /\ tcount (do_ev s e) = tcount s.
Proof.
  intros H He. split; [|destruct e; cbn; congruence].
  destruct e as [gs| | |i|i]; cbn; try congruence.
  - clear He. revert gs. induction H as [|p l Hp Hl IH]; intros [|g gs]; cbn; auto. f_equal; auto.
    destruct g as [g|]; cbn; auto. unfold accumulate, pobs. destruct (req p), (gcur p); cbn; auto.
  - induction H as [|p l Hp Hl IH]; cbn; auto. f_equal; auto. destruct (given p); auto.
    unfold pobs; cbn. auto.
  - clear He. revert i. induction H as [|p l Hp Hl IH]; intros [|i]; cbn; auto. f_equal; auto.
  - clear He. revert i. induction H as [|p l Hp Hl IH]; intros [|i]; cbn; auto. f_equal; auto.
Qed.

(* a parameter that does not require grad, or a tensor not given to the optimizer, is left alone by Step *)
Lemma step1_frozen t (p : param) : req p = false -> step1 O St pstep t p = p.
Proof. intros H. unfold step1. rewrite H, pstep_frozen. destruct (given p); reflexivity. Qed.

Lemma step1_not_given t (p : param) : given p = false -> step1 O St pstep t p = p.
Proof. intros H. unfold step1. rewrite H. reflexivity. Qed.

Lemma step_nth s i p : nth_error (ps s) i = Some p ->
  nth_error (ps (do_ev s Step)) i = Some (step1 O St pstep (S (tcount s)) p).
Proof. intros H. cbn. rewrite nth_error_map, H. reflexivity. Qed.

End Generic.
End AnyOps.
