(* Proofs about NumPy/Window.v: list primitives (arange/repeat/tile/slices), row-major ravel/unravel,
   the output-size formula, window positions, the pooling side facts (C06 window geometry), finite sums. *)
From Coq Require Import List ZArith Lia Bool Arith QArith Qround Permutation.
Import ListNotations.
From SG Require Import Base.Sums NumPy.Index NumPy.Window.
Open Scope Z_scope.

(* ------------------------------------------------------------------ division helpers *)
Lemma divmod_unique a b q r : 0 <= r < b -> a = q * b + r -> a / b = q /\ a mod b = r.
Proof.
  intros Hr E. split; symmetry.
  - apply (Z.div_unique_pos a b q r); auto. lia.
  - apply (Z.mod_unique_pos a b q r); auto. lia.
Qed.

Lemma div_unique' a b q r : 0 <= r < b -> a = q * b + r -> a / b = q.
Proof. intros. eapply divmod_unique; eauto. Qed.
Lemma mod_unique' a b q r : 0 <= r < b -> a = q * b + r -> a mod b = r.
Proof. intros. eapply divmod_unique; eauto. Qed.

Lemma mul_lt_bound i d j D : 0 <= i < D -> 0 <= j < d -> 0 <= i * d + j < D * d.
Proof. intros. nia. Qed.

Lemma div_mod_eq a b : 0 < b -> a = (a / b) * b + a mod b.
Proof. intros. pose proof (Z.div_mod a b). lia. Qed.

Lemma mod_bound a b : 0 < b -> 0 <= a mod b < b.
Proof. intros. apply Z.mod_pos_bound. auto. Qed.

Lemma div_bound a b n : 0 < b -> 0 <= a < n * b -> 0 <= a / b < n.
Proof.
  intros Hb Ha. split.
  - apply Z.div_pos; lia.
  - apply Z.div_lt_upper_bound; lia.
Qed.

(* (a mod (c*b)) / b = (a / b) mod c *)
Lemma mod_mul_div a b c : 0 < b -> 0 < c -> (a mod (c * b)) / b = (a / b) mod c.
Proof.
  intros Hb Hc.
  replace (c * b) with (b * c) by ring.
  rewrite Z.rem_mul_r by lia.
  apply (div_unique' _ b ((a / b) mod c) (a mod b)).
  - apply mod_bound; auto.
  - ring.
Qed.

(* three-level split of a row index r of the column matrix: r = ((c*kH + a)*kW + b) *)
Lemma split3 r k2 k3 : 0 < k2 -> 0 < k3 ->
  r = ((r / (k2 * k3)) * k2 + (r / k3) mod k2) * k3 + r mod k3.
Proof.
  intros H2 H3.
  pose proof (div_mod_eq r k3 H3) as E1.
  pose proof (div_mod_eq (r / k3) k2 H2) as E2.
  rewrite Z.div_div in E2 by lia.
  replace (k2 * k3) with (k3 * k2) by ring. lia.
Qed.

(* ------------------------------------------------------------------ ravel / unravel *)
Lemma unravel2_ravel d2 i j : 0 <= j < d2 -> unravel2 d2 (ravel2 d2 i j) = (i, j).
Proof.
  intros Hj. unfold unravel2, ravel2.
  destruct (divmod_unique (i * d2 + j) d2 i j Hj eq_refl) as [-> ->]. reflexivity.
Qed.

Lemma unravel3_ravel d2 d3 i j k : 0 <= j < d2 -> 0 <= k < d3 ->
  unravel3 d2 d3 (ravel3 d2 d3 i j k) = (i, j, k).
Proof.
  intros Hj Hk. unfold unravel3, ravel3.
  assert (E3 : ((i * d2 + j) * d3 + k) mod d3 = k) by (eapply mod_unique'; eauto).
  assert (D3 : ((i * d2 + j) * d3 + k) / d3 = i * d2 + j) by (eapply div_unique'; eauto).
  assert (D2 : ((i * d2 + j) * d3 + k) / (d2 * d3) = i).
  { apply (div_unique' _ _ i (j * d3 + k)). nia. ring. }
  rewrite E3, D3, D2. rewrite (mod_unique' (i * d2 + j) d2 i j); auto.
Qed.

Lemma unravel4_ravel d2 d3 d4 i j k l : 0 <= j < d2 -> 0 <= k < d3 -> 0 <= l < d4 ->
  unravel4 d2 d3 d4 (ravel4 d2 d3 d4 i j k l) = (i, j, k, l).
Proof.
  intros Hj Hk Hl. unfold unravel4, ravel4.
  set (f := ((i * d2 + j) * d3 + k) * d4 + l).
  assert (E4 : f mod d4 = l) by (eapply mod_unique'; eauto; reflexivity).
  assert (D4 : f / d4 = (i * d2 + j) * d3 + k) by (eapply div_unique'; eauto; reflexivity).
  assert (D3 : f / (d3 * d4) = i * d2 + j).
  { apply (div_unique' _ _ _ (k * d4 + l)). nia. unfold f. ring. }
  assert (B3 : 0 <= k * d4 + l < d3 * d4) by (apply mul_lt_bound; auto).
  assert (B2 : 0 <= j * (d3 * d4) + (k * d4 + l) < d2 * (d3 * d4)) by (apply mul_lt_bound; auto).
  assert (D2 : f / (d2 * d3 * d4) = i).
  { apply (div_unique' _ _ _ (j * (d3 * d4) + (k * d4 + l))). lia. unfold f. ring. }
  rewrite E4, D4, D3, D2.
  rewrite (mod_unique' ((i * d2 + j) * d3 + k) d3 (i * d2 + j) k); auto.
  rewrite (mod_unique' (i * d2 + j) d2 i j); auto.
Qed.

Lemma ravel4_bound d1 d2 d3 d4 i j k l : 0 <= i < d1 -> 0 <= j < d2 -> 0 <= k < d3 -> 0 <= l < d4 ->
  0 <= ravel4 d2 d3 d4 i j k l < d1 * d2 * d3 * d4.
Proof.
  intros Hi Hj Hk Hl. unfold ravel4.
  pose proof (mul_lt_bound i d2 j d1 Hi Hj) as B1.
  pose proof (mul_lt_bound _ d3 k _ B1 Hk) as B2.
  pose proof (mul_lt_bound _ d4 l _ B2 Hl) as B3. lia.
Qed.

Lemma unravel6_ravel d2 d3 d4 d5 d6 i j k l m n :
  0 <= j < d2 -> 0 <= k < d3 -> 0 <= l < d4 -> 0 <= m < d5 -> 0 <= n < d6 ->
  unravel6 d2 d3 d4 d5 d6 (ravel6 d2 d3 d4 d5 d6 i j k l m n) = (i, j, k, l, m, n).
Proof.
  intros Hj Hk Hl Hm Hn. unfold unravel6, ravel6.
  set (f := ((((i * d2 + j) * d3 + k) * d4 + l) * d5 + m) * d6 + n).
  assert (E6 : f mod d6 = n) by (eapply mod_unique'; eauto; reflexivity).
  assert (D6 : f / d6 = (((i * d2 + j) * d3 + k) * d4 + l) * d5 + m) by (eapply div_unique'; eauto; reflexivity).
  assert (B5 : 0 <= m * d6 + n < d5 * d6) by nia.
  assert (D5 : f / (d5 * d6) = ((i * d2 + j) * d3 + k) * d4 + l).
  { apply (div_unique' _ _ _ (m * d6 + n)); auto. unfold f. ring. }
  assert (B4 : 0 <= l * (d5 * d6) + (m * d6 + n) < d4 * (d5 * d6)) by (apply mul_lt_bound; auto).
  assert (D4 : f / (d4 * d5 * d6) = (i * d2 + j) * d3 + k).
  { apply (div_unique' _ _ _ (l * (d5 * d6) + (m * d6 + n))). lia. unfold f. ring. }
  assert (B3 : 0 <= k * (d4 * (d5 * d6)) + (l * (d5 * d6) + (m * d6 + n)) < d3 * (d4 * (d5 * d6))) by (apply mul_lt_bound; auto).
  assert (D3 : f / (d3 * d4 * d5 * d6) = i * d2 + j).
  { apply (div_unique' _ _ _ (k * (d4 * (d5 * d6)) + (l * (d5 * d6) + (m * d6 + n)))). lia. unfold f. ring. }
  assert (B2 : 0 <= j * (d3 * (d4 * (d5 * d6))) + (k * (d4 * (d5 * d6)) + (l * (d5 * d6) + (m * d6 + n))) < d2 * (d3 * (d4 * (d5 * d6))))
    by (apply mul_lt_bound; auto).
  assert (D2 : f / (d2 * d3 * d4 * d5 * d6) = i).
  { apply (div_unique' _ _ _ (j * (d3 * (d4 * (d5 * d6))) + (k * (d4 * (d5 * d6)) + (l * (d5 * d6) + (m * d6 + n))))). lia. unfold f. ring. }
  rewrite E6, D6, D5, D4, D3, D2.
  rewrite (mod_unique' ((((i * d2 + j) * d3 + k) * d4 + l) * d5 + m) d5 _ m Hm eq_refl).
  rewrite (mod_unique' (((i * d2 + j) * d3 + k) * d4 + l) d4 _ l Hl eq_refl).
  rewrite (mod_unique' ((i * d2 + j) * d3 + k) d3 _ k Hk eq_refl).
  rewrite (mod_unique' (i * d2 + j) d2 _ j Hj eq_refl).
  reflexivity.
Qed.

(* ------------------------------------------------------------------ zr, znth_error *)
Lemma zr_length n : length (zr n) = Z.to_nat n.
Proof. unfold zr. now rewrite map_length, seq_length. Qed.

Lemma zlen_zr n : 0 <= n -> zlen (zr n) = n.
Proof. intros. unfold zlen. rewrite zr_length. lia. Qed.

Lemma in_zr x n : In x (zr n) <-> 0 <= x < n.
Proof.
  unfold zr. rewrite in_map_iff. split.
  - intros (k & <- & Hk). apply in_seq in Hk. lia.
  - intros Hx. exists (Z.to_nat x). split. lia. apply in_seq. lia.
Qed.

Lemma NoDup_zr n : NoDup (zr n).
Proof. unfold zr. apply NoDup_map_inj. intros a b E; lia. apply seq_NoDup. Qed.

Lemma nth_error_seq' s n i : (i < n)%nat -> nth_error (seq s n) i = Some (s + i)%nat.
Proof.
  revert s i. induction n as [|n IH]; intros s i Hi. lia.
  destruct i; simpl. f_equal; lia. rewrite IH by lia. f_equal; lia.
Qed.

Lemma znth_error_zr n i : 0 <= i < n -> znth_error (zr n) i = Some i.
Proof.
  intros Hi. unfold znth_error. destruct (Z.ltb_spec i 0). lia.
  unfold zr. rewrite nth_error_map, nth_error_seq' by lia. simpl. f_equal. lia.
Qed.

Lemma znth_error_map {A B} (f : A -> B) l i : znth_error (map f l) i = option_map f (znth_error l i).
Proof. unfold znth_error. destruct (i <? 0); auto. apply nth_error_map. Qed.

Lemma znth_error_range {A} (l : list A) i x : znth_error l i = Some x -> 0 <= i < zlen l.
Proof.
  unfold znth_error, zlen. destruct (Z.ltb_spec i 0). discriminate.
  intros E. assert (Hn : nth_error l (Z.to_nat i) <> None) by congruence.
  apply nth_error_Some in Hn. lia.
Qed.

Lemma znth_error_combine {A B} (l : list A) (l' : list B) i :
  znth_error (combine l l') i =
  match znth_error l i, znth_error l' i with Some a, Some b => Some (a, b) | _, _ => None end.
Proof.
  unfold znth_error. destruct (i <? 0); auto.
  generalize (Z.to_nat i) as k. revert l'. induction l as [|a l IH]; intros l' k.
  - destruct k; reflexivity.
  - destruct l' as [|b l']. destruct k; simpl; auto. destruct (nth_error l k); auto.
    destruct k; simpl; auto.
Qed.

Lemma nth_error_ext_eq {A} (l l' : list A) : (forall i, nth_error l i = nth_error l' i) -> l = l'.
Proof.
  revert l'. induction l as [|a l IH]; intros [|b l'] E; auto.
  - specialize (E 0%nat). discriminate.
  - specialize (E 0%nat). discriminate.
  - f_equal. specialize (E 0%nat). simpl in E. congruence.
    apply IH. intros i. apply (E (S i)).
Qed.

(* a list is the tabulation of its elements *)
Lemma list_eq_map_zr {A} (l : list A) (f : Z -> A) n :
  0 <= n -> zlen l = n -> (forall i, 0 <= i < n -> znth_error l i = Some (f i)) -> l = map f (zr n).
Proof.
  intros Hn Hl Hf. apply nth_error_ext_eq. intros k.
  destruct (Nat.lt_ge_cases k (length l)) as [Hk|Hk].
  - specialize (Hf (Z.of_nat k)). unfold zlen in Hl.
    unfold znth_error in Hf. destruct (Z.ltb_spec (Z.of_nat k) 0). lia.
    rewrite Nat2Z.id in Hf. rewrite Hf by lia.
    unfold zr. rewrite map_map, nth_error_map, nth_error_seq' by lia. reflexivity.
  - assert (E1 : nth_error l k = None) by (apply nth_error_None; auto).
    rewrite E1. symmetry. apply nth_error_None. rewrite map_length, zr_length. unfold zlen in Hl. lia.
Qed.

Lemma combine_map_r {A B} (f : A -> B) l : combine l (map f l) = map (fun x => (x, f x)) l.
Proof. induction l; simpl; congruence. Qed.

Lemma zlen_map {A B} (f : A -> B) l : zlen (map f l) = zlen l.
Proof. unfold zlen. now rewrite map_length. Qed.

Lemma zlen_combine {A B} (l : list A) (l' : list B) : zlen (combine l l') = Z.min (zlen l) (zlen l').
Proof. unfold zlen. rewrite combine_length. lia. Qed.

Lemma zr_app a b : 0 <= a -> 0 <= b -> zr (a + b) = zr a ++ map (fun j => a + j) (zr b).
Proof.
  intros Ha Hb. unfold zr. rewrite Z2Nat.inj_add, seq_app, map_app by lia. f_equal.
  rewrite map_map.
  assert (G : forall m s, map Z.of_nat (seq (s + Z.to_nat a) m) = map (fun x => a + Z.of_nat x) (seq s m)).
  { induction m as [|m IH]; intros s; simpl; auto. f_equal. lia. apply (IH (S s)). }
  apply (G (Z.to_nat b) 0%nat).
Qed.

(* ------------------------------------------------------------------ repeat / tile / arange / slices *)
Lemma nth_error_repeat_each {A} (l : list A) (n i : nat) : (0 < n)%nat ->
  nth_error (flat_map (fun x => repeat x n) l) i = nth_error l (i / n).
Proof.
  intros Hn. revert i. induction l as [|a l IH]; intros i; simpl.
  - destruct i; destruct (_ / n)%nat; reflexivity.
  - destruct (Nat.lt_ge_cases i n) as [Hi|Hi].
    + rewrite nth_error_app1 by (now rewrite repeat_length).
      rewrite nth_error_repeat by auto. rewrite Nat.div_small by auto. reflexivity.
    + rewrite nth_error_app2 by (now rewrite repeat_length). rewrite repeat_length.
      rewrite IH. replace i with ((i - n) + 1 * n)%nat at 2 by lia.
      rewrite Nat.div_add by lia. replace ((i - n) / n + 1)%nat with (S ((i - n) / n)) by lia. reflexivity.
Qed.

Lemma length_repeat_each {A} (l : list A) (n : nat) : length (flat_map (fun x => repeat x n) l) = (length l * n)%nat.
Proof. induction l; simpl; auto. rewrite app_length, repeat_length, IHl. lia. Qed.

Lemma length_tile {A} (l : list A) (n : nat) : length (concat (repeat l n)) = (n * length l)%nat.
Proof. induction n; simpl; auto. rewrite app_length, IHn. lia. Qed.

Lemma nth_error_tile {A} (l : list A) (n i : nat) : (i < n * length l)%nat ->
  nth_error (concat (repeat l n)) i = nth_error l (i mod length l).
Proof.
  revert i. induction n as [|n IH]; intros i Hi. lia.
  assert (Hl : (0 < length l)%nat) by (destruct (length l); lia).
  simpl. destruct (Nat.lt_ge_cases i (length l)) as [Hlt|Hge].
  - rewrite nth_error_app1 by auto. now rewrite Nat.mod_small.
  - rewrite nth_error_app2 by auto. rewrite IH by (simpl in Hi; lia).
    replace i with ((i - length l) + 1 * length l)%nat at 2 by lia.
    rewrite Nat.mod_add by lia. reflexivity.
Qed.

Lemma znth_error_np_repeat {A} (l : list A) n i : 0 < n -> 0 <= i ->
  znth_error (np_repeat l n) i = znth_error l (i / n).
Proof.
  intros Hn Hi. unfold znth_error, np_repeat.
  destruct (Z.ltb_spec i 0). lia.
  destruct (Z.ltb_spec (i / n) 0). assert (0 <= i / n) by (apply Z.div_pos; lia). lia.
  rewrite nth_error_repeat_each by lia. f_equal.
  apply Nat2Z.inj. rewrite Nat2Z.inj_div, !Z2Nat.id; auto; lia.
Qed.

Lemma zlen_np_repeat {A} (l : list A) n : 0 <= n -> zlen (np_repeat l n) = zlen l * n.
Proof. intros. unfold zlen, np_repeat. rewrite length_repeat_each. lia. Qed.

Lemma zlen_np_tile {A} (l : list A) n : 0 <= n -> zlen (np_tile l n) = n * zlen l.
Proof. intros. unfold zlen, np_tile. rewrite length_tile. lia. Qed.

Lemma znth_error_np_tile {A} (l : list A) n i : 0 <= i < n * zlen l ->
  znth_error (np_tile l n) i = znth_error l (i mod zlen l).
Proof.
  intros Hi. unfold znth_error, np_tile.
  assert (Hl : 0 < zlen l).
  { unfold zlen in *. destruct (length l). simpl in Hi. lia. lia. }
  destruct (Z.ltb_spec i 0). lia.
  pose proof (mod_bound i (zlen l) Hl).
  destruct (Z.ltb_spec (i mod zlen l) 0). lia.
  rewrite nth_error_tile. f_equal. apply Nat2Z.inj. unfold zlen. rewrite Nat2Z.inj_mod, !Z2Nat.id; auto; lia.
  unfold zlen in *. nia.
Qed.

Lemma ceil_div_unique x step n : 0 < step -> (n - 1) * step < x <= n * step -> (x + step - 1) / step = n.
Proof. intros Hs Hx. apply (div_unique' _ _ n (x + step - 1 - n * step)). lia. ring. Qed.

Lemma arange3_exact start stop step n : 0 < step -> (n - 1) * step < stop - start <= n * step ->
  arange3 start stop step = map (fun a => start + a * step) (zr n).
Proof. intros Hs Hx. unfold arange3. now rewrite (ceil_div_unique (stop - start) step n). Qed.

Lemma arange3_mul k d : 0 < d -> 0 < k -> arange3 0 (k * d) d = map (fun a => a * d) (zr k).
Proof. intros Hd Hk. rewrite (arange3_exact 0 (k * d) d k); auto. nia. Qed.

(* a window slice that fits the axis selects exactly n positions start, start+step, ... *)
Lemma slice_idx_fit start stop step len n : 0 < step -> 0 < n ->
  start + (n - 1) * step < len -> start + (n - 1) * step < stop <= start + n * step ->
  slice_idx start stop step len = map (fun a => start + a * step) (zr n).
Proof.
  intros Hs Hn Hlen Hstop. unfold slice_idx.
  assert (Hst : Z.min start len = start) by nia. rewrite Hst.
  apply arange3_exact; auto. lia.
Qed.

(* ------------------------------------------------------------------ the loop-writer *)
Lemma fold_upd_spec {X} (key : X -> Z) (l : list X) (m0 : Z -> option X) (x : X) :
  In x l -> (forall y, In y l -> key y = key x -> y = x) ->
  fold_left (fun m y => upd m (key y) y) l m0 (key x) = Some x.
Proof.
  revert x. induction l as [|a l IH] using rev_ind; intros x Hin Hinj. destruct Hin.
  rewrite fold_left_app. simpl. unfold upd at 1.
  destruct (Z.eqb_spec (key x) (key a)) as [E|NE].
  - f_equal. apply Hinj. apply in_or_app. right. left. auto. auto.
  - apply in_app_or in Hin. destruct Hin as [Hin|[->|[]]]; [|congruence].
    apply IH; auto. intros y Hy. apply Hinj. apply in_or_app. auto.
Qed.

(* ------------------------------------------------------------------ output size *)
Lemma out_size_float_eq L k s p d : 0 < s -> out_size_float L k s p d = out_size L k s p d.
Proof.
  intros Hs. unfold out_size_float, out_size.
  set (m := L + 2 * p - d * (k - 1) - 1).
  destruct s as [|sp|sp]; try lia.
  unfold Qfloor, Qdiv, Qmult, Qinv, Qplus, inject_Z. simpl Qnum. simpl Qden.
  rewrite Pos.mul_1_r. replace (m * 1 * 1 + 1 * Z.pos sp) with (m + 1 * Z.pos sp) by ring.
  rewrite Z.div_add by lia. reflexivity.
Qed.

Lemma out_size_view_eq L k s p d : out_size_view (L + 2 * p) k s d = out_size L k s p d.
Proof. unfold out_size_view, out_size. f_equal. f_equal. ring. Qed.

(* window l exists  iff  it fits into the padded axis *)
Lemma fits_iff L k s p d l : 0 < s ->
  (l < out_size L k s p d <-> l * s + (k - 1) * d + 1 <= L + 2 * p).
Proof.
  intros Hs. unfold out_size. set (m := L + 2 * p - d * (k - 1) - 1). split.
  - intros Hl. assert (Hq : l <= m / s) by lia.
    assert (s * (m / s) <= m) by (apply Z.mul_div_le; auto). unfold m in *. nia.
  - intros Hf. assert (l <= m / s). { apply Z.div_le_lower_bound; auto. unfold m. nia. } lia.
Qed.

Lemma wpos_range L k s p d l j : 0 < s -> 0 < d -> 0 <= l < out_size L k s p d -> 0 <= j < k ->
  0 <= wpos s d l j < L + 2 * p.
Proof.
  intros Hs Hd Hl Hj. destruct Hl as [Hl0 Hl]. apply fits_iff in Hl; auto. unfold wpos. nia.
Qed.

Lemma out_size_pos_iff L k s p d : 0 < s -> (1 <= out_size L k s p d <-> (k - 1) * d + 1 <= L + 2 * p).
Proof. intros Hs. pose proof (fits_iff L k s p d 0 Hs). lia. Qed.

(* ------------------------------------------------------------------ pooling side facts (C06) *)
(* every window contains a position of the un-padded input when the padding does not exceed the dilated kernel
   span and the dilation step cannot jump over the whole input *)
Lemma window_has_real L k s p d l : 0 < s -> 0 < d -> 0 < k -> 0 <= p ->
  d <= L -> p <= (k - 1) * d -> 0 <= l < out_size L k s p d ->
  exists j, 0 <= j < k /\ is_real L p (wpos s d l j) = true.
Proof.
  intros Hs Hd Hk Hp HdL Hpk [Hl0 Hl]. apply fits_iff in Hl; auto.
  unfold is_real, wpos.
  destruct (Z_lt_le_dec (l * s) p) as [Hlt|Hge].
  - set (x := p - l * s). set (j := (x + d - 1) / d).
    assert (Ej : x + d - 1 = d * j + (x + d - 1) mod d) by (apply Z.div_mod; lia).
    pose proof (mod_bound (x + d - 1) d Hd) as Hm.
    assert (Hj0 : 0 <= j) by (apply Z.div_pos; unfold x; lia).
    assert (Hjk : j < k).
    { destruct (Z_lt_le_dec j k); auto. exfalso. assert (k * d <= j * d) by nia. unfold x in *. nia. }
    exists j. split. lia. unfold x in *. apply andb_true_intro. split. apply Z.leb_le. nia. apply Z.ltb_lt. nia.
  - exists 0. split. lia. apply andb_true_intro. split. apply Z.leb_le. lia. apply Z.ltb_lt. nia.
Qed.

(* PyTorch's own requirement (pad <= kernel/2) implies the first hypothesis *)
Lemma torch_pad_condition k p d : 0 < d -> 0 < k -> 0 <= p -> 2 * p <= k -> p <= (k - 1) * d.
Proof. intros. nia. Qed.

(* necessity: with more padding than the dilated span, window 0 consists of padding only *)
Lemma first_window_all_padding L k s p d j : 0 < d -> (k - 1) * d < p -> 0 <= j < k ->
  is_real L p (wpos s d 0 j) = false.
Proof.
  intros Hd Hp Hj. unfold is_real, wpos. apply andb_false_intro1. apply Z.leb_gt. nia.
Qed.

(* ... and with a dilation wider than the input even 2p <= k does not help: L=1, k=2, s=1, p=1, d=2 has one window,
   positions {0, 2} of the padded axis [pad, x0, pad] *)
Lemma dilation_jumps_over_input :
  let '(L, k, s, p, d) := (1, 2, 1, 1, 2) in
  out_size L k s p d = 1 /\ 2 * p <= k /\ p <= (k - 1) * d /\
  forall j, 0 <= j < k -> is_real L p (wpos s d 0 j) = false.
Proof.
  cbv beta iota zeta. split. reflexivity. split. lia. split. lia.
  intros j Hj. assert (j = 0 \/ j = 1) as [-> | ->] by lia; reflexivity.
Qed.

(* ------------------------------------------------------------------ sums over ranges and products *)
Section SumLemmas.
Context {A : Type} `{ScalarLaws A}.

Lemma isum_app {I} (l l' : list I) (f : I -> A) : isum (l ++ l') f = sadd (isum l f) (isum l' f).
Proof. unfold isum. rewrite map_app. apply lsum_app. Qed.

Lemma isum_map {I K} (g : K -> I) (l : list K) (f : I -> A) : isum (map g l) f = isum l (fun k => f (g k)).
Proof. unfold isum. now rewrite map_map. Qed.

Lemma isum_nil {I} (f : I -> A) : isum [] f = s0.
Proof. reflexivity. Qed.

Lemma isum_flat_map {I K} (g : K -> list I) (l : list K) (f : I -> A) :
  isum (flat_map g l) f = isum l (fun k => isum (g k) f).
Proof.
  induction l as [|a l IH]; simpl. reflexivity.
  rewrite isum_app, IH. reflexivity.
Qed.

Lemma isum_list_prod {I K} (la : list I) (lb : list K) (f : I * K -> A) :
  isum (list_prod la lb) f = isum la (fun a => isum lb (fun b => f (a, b))).
Proof.
  induction la as [|a la IH]; simpl. reflexivity.
  rewrite isum_app, IH, isum_map. reflexivity.
Qed.

Lemma isum_zr_mul n m (f : Z -> A) : 0 <= n -> 0 <= m ->
  isum (zr (n * m)) f = isum (zr n) (fun i => isum (zr m) (fun j => f (i * m + j))).
Proof.
  intros Hn Hm. revert n Hn. apply natlike_ind.
  - reflexivity.
  - intros n Hn IH. replace (Z.succ n * m) with (n * m + m) by ring.
    rewrite zr_app by nia. rewrite isum_app, IH, isum_map.
    replace (Z.succ n) with (n + 1) by ring. rewrite (zr_app n 1) by lia.
    rewrite isum_app. f_equal. change (zr 1) with [0]. simpl. unfold isum at 2. simpl.
    rewrite sadd_0_r. replace (n + 0) with n by ring. reflexivity.
Qed.

End SumLemmas.
