(* max / min: first_extremum_mask selects, for every dim form (None | int | tuple, 0-d included), exactly one extremal
   element per fibre — the first in row-major order of the reduced coordinates (np.argmax's tie rule); on the set
   of inputs with the same argmax table the forward is a linear gather and the code's backward is its adjoint.     *)
From Coq Require Import List Arith ZArith Lia Bool Permutation.
Import ListNotations.
From SG Require Import Base.Sums Base.ScalarExt Base.Cmp NumPy.Index NumPy.Tensor NumPy.Gather NumPy.TensorFn NumPy.Broadcast NumPy.Reduce
  Proofs.IdxSums Proofs.BcastProofs Proofs.ArithProofs Proofs.ReduceProofs.

Lemma nth_map_seq0 {X} (f:nat->X) n k d : k < n -> nth k (map f (seq 0 n)) d = f k.
Proof.
  intros Hk. rewrite (nth_indep _ d (f 0)) by (rewrite map_length, seq_length; exact Hk).
  rewrite map_nth. rewrite seq_nth by exact Hk. reflexivity.
Qed.

(* ---------- one-hot masks ---------- *)
Lemma mask_of_single_0 n : mask_of (S n) [0] = true :: repeat false n.
Proof.
  unfold mask_of. cbn [seq map existsb Nat.eqb orb]. f_equal.
  rewrite <- seq_shift, map_map. rewrite <- (seq_length n 0) at 2. generalize (seq 0 n). intros l.
  induction l; simpl; auto. f_equal. auto.
Qed.
Lemma mask_of_single_S n x : mask_of (S n) [S x] = false :: mask_of n [x].
Proof.
  unfold mask_of. cbn [seq map existsb Nat.eqb orb]. f_equal.
  rewrite <- seq_shift, map_map. apply map_ext. intros i. reflexivity.
Qed.
Lemma fibre_none : forall sh keep j, length j = length sh -> fibre (repeat false (length sh)) sh keep j = [j].
Proof.
  induction sh as [|d r IH]; intros keep [|k t] E; simpl in E; try discriminate. reflexivity.
  cbn [length repeat fibre]. rewrite IH by lia. reflexivity.
Qed.
Lemma red_shape_none : forall sh keep, red_shape (repeat false (length sh)) sh keep = sh.
Proof. induction sh; intros keep; simpl; auto. f_equal. auto. Qed.

(* the fibre of a single reduced axis x, as the column through it *)
Lemma fibre_single : forall x sh keep j, x < length sh -> In j (idxs (red_shape (mask_of (length sh) [x]) sh keep)) ->
  fibre (mask_of (length sh) [x]) sh keep j =
  map (fun k => insert_at x k (if keep then remove_at x j else j)) (seq 0 (nth x sh 0)).
Proof.
  induction x as [|x IH]; intros [|d r] keep j Hx Hj; simpl in Hx; try lia.
  - cbn [length] in *. rewrite mask_of_single_0 in *.
    assert (G: forall (t:idx) l, flat_map (fun k => map (cons k) [t]) l = map (fun k => insert_at 0 k t) l).
    { intros t l. induction l; simpl; try (f_equal; auto); auto. }
    destruct keep; cbn [fibre nth red_shape] in *; rewrite red_shape_none in Hj.
    + destruct j as [|j0 t]. { apply in_idxs_length in Hj. discriminate. }
      apply in_idxs_cons in Hj as [_ Hj]. cbn [tl remove_at]. rewrite fibre_none by (now apply in_idxs_length). apply G.
    + rewrite fibre_none by (now apply in_idxs_length). apply G.
  - cbn [length] in *. rewrite mask_of_single_S in *. cbn [red_shape] in Hj.
    destruct j as [|k0 t]. { apply in_idxs_length in Hj. discriminate. }
    apply in_idxs_cons in Hj as [Hk0 Ht]. cbn [fibre nth]. rewrite (IH r keep t) by (auto; lia).
    rewrite map_map. apply map_ext. intros k. destruct keep; reflexivity.
Qed.

Lemma fibre_in : forall m sh keep j i, length m = length sh -> In j (idxs (red_shape m sh keep)) ->
  In i (fibre m sh keep j) -> In i (idxs sh).
Proof.
  induction m as [|[|] m IH]; intros [|e r] keep j i Hm Hj Hi; simpl in Hm; try discriminate.
  - simpl in Hi. destruct Hi as [<-|[]]. simpl. auto.
  - cbn [fibre] in Hi. apply in_flat_map in Hi as (k & Hk & Hi). apply in_map_iff in Hi as (t & <- & Ht).
    apply in_seq in Hk. apply in_idxs_cons. split. lia. cbn [red_shape] in Hj.
    destruct keep.
    + destruct j as [|j0 tj]. apply in_idxs_length in Hj. discriminate. apply in_idxs_cons in Hj as [_ Hj]. eapply IH; eauto.
    + eapply IH; eauto.
  - cbn [red_shape] in Hj. destruct j as [|k tj]. apply in_idxs_length in Hj. discriminate.
    apply in_idxs_cons in Hj as [Hk Hj]. cbn [fibre] in Hi. apply in_map_iff in Hi as (t & <- & Ht).
    apply in_idxs_cons. split; auto. eapply IH; eauto.
Qed.

(* ---------- the group of a position: colof / fpos ---------- *)
Lemma length_idxs : forall sh, length (idxs sh) = size sh.
Proof.
  induction sh as [|d r IH]; simpl. reflexivity.
  assert (G: forall l, length (flat_map (fun i => map (cons i) (idxs r)) l) = length l * size r).
  { induction l as [|a l IHl]. reflexivity. cbn [flat_map length]. rewrite app_length, map_length, IHl.
    change (@length (list nat) (idxs r)) with (@length idx (idxs r)). rewrite IH. lia. }
  now rewrite G, seq_length.
Qed.
Lemma flat_map_blocks {X} (f:nat->list X) L : (forall k, length (f k) = L) ->
  forall d off k p, k < d -> p < L -> nth_error (flat_map f (seq off d)) (k * L + p) = nth_error (f (off + k)) p.
Proof.
  intros HL. induction d as [|d IH]; intros off k p Hk Hp. lia.
  cbn [seq flat_map]. destruct k as [|k].
  - rewrite Nat.add_0_r. cbn [Nat.mul Nat.add]. apply nth_error_app1. now rewrite HL.
  - rewrite nth_error_app2 by (rewrite HL; nia). rewrite HL.
    replace (S k * L + p - L) with (k * L + p) by nia. rewrite IH by lia. f_equal. f_equal. lia.
Qed.
Lemma flat_map_length_const {X} (f:nat->list X) L : (forall k, length (f k) = L) -> forall l, length (flat_map f l) = length l * L.
Proof. intros HL. induction l as [|a l IH]; simpl; auto. now rewrite app_length, HL, IH. Qed.

Lemma colof_length : forall m sh i, length m = length sh -> length i = length sh -> length (colof m sh i) = fibre_size m sh.
Proof.
  induction m as [|[|] m IH]; intros [|d r] [|k t] Em Ei; simpl in Em, Ei; try discriminate; auto.
  - cbn [colof fibre_size]. rewrite (flat_map_length_const _ (fibre_size m r)), seq_length. reflexivity.
    intros k'. rewrite map_length. apply IH; lia.
  - cbn [colof fibre_size]. rewrite map_length. apply IH; lia.
Qed.
Lemma fpos_lt : forall m sh i, length m = length sh -> In i (idxs sh) -> fpos m sh i < fibre_size m sh.
Proof.
  induction m as [|[|] m IH]; intros [|d r] i Em Hi; simpl in Em; try discriminate.
  - simpl. destruct i; simpl; lia.
  - destruct i as [|k t]. { apply in_idxs_length in Hi. discriminate. }
    apply in_idxs_cons in Hi as [Hk Ht]. cbn [fpos fibre_size]. specialize (IH r t ltac:(lia) Ht). nia.
  - destruct i as [|k t]. { apply in_idxs_length in Hi. discriminate. }
    apply in_idxs_cons in Hi as [Hk Ht]. cbn [fpos fibre_size]. apply IH; auto; lia.
Qed.
Lemma colof_pos : forall m sh i, length m = length sh -> In i (idxs sh) -> nth_error (colof m sh i) (fpos m sh i) = Some i.
Proof.
  induction m as [|[|] m IH]; intros [|d r] i Em Hi; simpl in Em; try discriminate.
  - apply in_idxs_nil in Hi. subst. reflexivity.
  - destruct i as [|k t]. { apply in_idxs_length in Hi. discriminate. }
    apply in_idxs_cons in Hi as [Hk Ht]. cbn [fpos colof].
    rewrite (flat_map_blocks (fun k' => map (cons k') (colof m r t)) (fibre_size m r)).
    + cbn [Nat.add]. rewrite nth_error_map. unfold idx in *. rewrite (IH r t) by (auto; lia). reflexivity.
    + intros k'. rewrite map_length. apply colof_length. lia. now apply in_idxs_length.
    + exact Hk.
    + apply fpos_lt; auto; lia.
  - destruct i as [|k t]. { apply in_idxs_length in Hi. discriminate. }
    apply in_idxs_cons in Hi as [Hk Ht]. cbn [fpos colof]. rewrite nth_error_map. unfold idx in *. rewrite (IH r t) by (auto; lia). reflexivity.
Qed.
Lemma nodup_colof : forall m sh i, NoDup (colof m sh i).
Proof.
  induction m as [|[|] m IH]; intros sh i; try (simpl; repeat constructor; auto; fail).
  - destruct sh as [|d r]; [simpl; repeat constructor; auto|]. destruct i as [|k t]; [simpl; repeat constructor; auto|].
    cbn [colof].
    assert (G: forall l, NoDup l -> NoDup (flat_map (fun k' => map (cons k') (colof m r t)) l)).
    { induction l as [|a l IHl]; intros ND; simpl. constructor. inversion ND; subst. apply NoDup_app'.
      - apply NoDup_map_inj; auto. intros x y E. now inversion E.
      - auto.
      - intros x Hx Hc. apply in_map_iff in Hx as (u & <- & _). apply in_flat_map in Hc as (k' & Hk' & Hc).
        apply in_map_iff in Hc as (u' & E & _). inversion E; subst. contradiction. }
    apply G, seq_NoDup.
  - destruct sh as [|d r]; [simpl; repeat constructor; auto|]. destruct i as [|k t]; [simpl; repeat constructor; auto|].
    cbn [colof]. apply NoDup_map_inj; auto. intros x y E. now inversion E.
Qed.
Lemma colof_member : forall m sh keep j i, length m = length sh -> In j (idxs (red_shape m sh keep)) ->
  In i (fibre m sh keep j) -> colof m sh i = fibre m sh keep j /\ proj m keep i = j.
Proof.
  induction m as [|[|] m IH]; intros [|e r] keep j i Hm Hj Hi; simpl in Hm; try discriminate.
  - simpl in Hi. destruct Hi as [<-|[]]. simpl in Hj. destruct Hj as [<-|[]]. split; reflexivity.
  - cbn [fibre] in Hi. apply in_flat_map in Hi as (k & Hk & Hi). apply in_map_iff in Hi as (t & <- & Ht).
    cbn [red_shape] in Hj. cbn [colof fibre proj]. destruct keep.
    + destruct j as [|j0 tj]. apply in_idxs_length in Hj. discriminate. apply in_idxs_cons in Hj as [Hj0 Hj].
      cbn [tl] in *. destruct (IH r true tj t ltac:(lia) Hj Ht) as [E1 E2]. rewrite E1, E2. split. reflexivity. f_equal. lia.
    + destruct (IH r false j t ltac:(lia) Hj Ht) as [E1 E2]. rewrite E1, E2. split; reflexivity.
  - cbn [red_shape] in Hj. destruct j as [|k tj]. apply in_idxs_length in Hj. discriminate.
    apply in_idxs_cons in Hj as [Hk Hj]. cbn [fibre] in Hi. apply in_map_iff in Hi as (t & <- & Ht).
    cbn [colof fibre proj]. destruct (IH r keep tj t ltac:(lia) Hj Ht) as [E1 E2]. rewrite E1, E2. split; reflexivity.
Qed.
Lemma fibre_length m sh keep j : length m = length sh -> In j (idxs (red_shape m sh keep)) -> fibre_size m sh <> 0 ->
  length (fibre m sh keep j) = fibre_size m sh.
Proof.
  intros Hm Hj Hf. destruct (fibre m sh keep j) as [|i l] eqn:E.
  - (* the fibre of an in-range output position is never empty when fibre_size <> 0 *)
    exfalso. revert sh keep j Hm Hj Hf E. induction m as [|[|] m IH]; intros [|e r] keep j Hm Hj Hf E; simpl in Hm; try discriminate.
    + cbn [fibre fibre_size red_shape] in *. destruct e as [|e]. lia.
      cbn [seq flat_map] in E. apply app_eq_nil in E as [E _]. apply map_eq_nil in E.
      destruct keep.
      * destruct j as [|j0 tj]. apply in_idxs_length in Hj. discriminate. apply in_idxs_cons in Hj as [_ Hj].
        apply (IH r true tj); auto; try lia; try (intro Hc; rewrite Hc in Hf; lia).
      * apply (IH r false j); auto; try lia; try (intro Hc; rewrite Hc in Hf; lia).
    + cbn [fibre fibre_size red_shape] in *. destruct j as [|k tj]. apply in_idxs_length in Hj. discriminate.
      apply in_idxs_cons in Hj as [_ Hj]. apply map_eq_nil in E. apply (IH r keep tj); auto; lia.
  - assert (Hi: In i (fibre m sh keep j)) by (rewrite E; left; auto).
    destruct (colof_member m sh keep j i Hm Hj Hi) as [E1 _]. rewrite <- E, <- E1. apply colof_length. exact Hm.
    apply in_idxs_length. eapply fibre_in; eauto.
Qed.

Section P.
Context {A:Type} `{ScalarLaws A}.
Variable le : A -> A -> bool.

(* ---------- argbest: in range ---------- *)
Lemma arg_first_range : forall l best bv pos, best < pos ->
  arg_first le best bv pos l < pos + length l.
Proof.
  induction l as [|v t IH]; intros best bv pos Hb; simpl. lia.
  destruct (le v bv).
  - specialize (IH best bv (S pos)). lia.
  - specialize (IH pos v (S pos)). lia.
Qed.
Lemma argbest_lt l : l <> [] -> argbest le l < length l.
Proof. destruct l as [|v t]; intros Hn. congruence. simpl. pose proof (arg_first_range t 0 v 1). lia. Qed.

(* ---------- argbest: optimal and first, for a total preorder ---------- *)
Hypothesis le_refl : forall a, le a a = true.
Hypothesis le_trans : forall a b c, le a b = true -> le b c = true -> le a c = true.
Hypothesis le_total : forall a b, le a b = true \/ le b a = true.

Lemma arg_first_spec d : forall l pre best bv,
  best < length pre -> nth best pre d = bv ->
  (forall v, In v pre -> le v bv = true) ->
  (forall p, p < best -> le bv (nth p pre d) = false) ->
  let r := arg_first le best bv (length pre) l in
  r < length (pre ++ l) /\
  (forall v, In v (pre ++ l) -> le v (nth r (pre ++ l) d) = true) /\
  (forall p, p < r -> le (nth r (pre ++ l) d) (nth p (pre ++ l) d) = false).
Proof.
  induction l as [|v t IH]; intros pre best bv Hb Hn Hall Hfirst.
  - cbn [arg_first]. rewrite app_nil_r. rewrite Hn. repeat split; auto.
  - cbn [arg_first]. destruct (le v bv) eqn:Ev.
    + specialize (IH (pre ++ [v]) best bv). rewrite app_length in IH. cbn [length] in IH.
      replace (length pre + 1) with (S (length pre)) in IH by lia. rewrite <- app_assoc in IH. cbn [app] in IH.
      apply IH.
      * lia.
      * rewrite app_nth1 by lia. exact Hn.
      * intros u Hu. apply in_app_or in Hu as [Hu|[<-|[]]]; auto.
      * intros p Hp. rewrite app_nth1 by lia. now apply Hfirst.
    + specialize (IH (pre ++ [v]) (length pre) v). rewrite app_length in IH. cbn [length] in IH.
      replace (length pre + 1) with (S (length pre)) in IH by lia. rewrite <- app_assoc in IH. cbn [app] in IH.
      assert (Hbv: le bv v = true). { destruct (le_total v bv) as [E|E]; congruence. }
      apply IH.
      * lia.
      * rewrite app_nth2 by lia. rewrite Nat.sub_diag. reflexivity.
      * intros u Hu. apply in_app_or in Hu as [Hu|[<-|[]]]; auto. eapply le_trans; eauto.
      * intros p Hp. rewrite app_nth1 by lia.
        destruct (le v (nth p pre d)) eqn:E; auto.
        assert (le (nth p pre d) bv = true) by (apply Hall, nth_In; lia).
        rewrite (le_trans _ _ _ E H1) in Ev. discriminate.
Qed.

Lemma argbest_spec d l : l <> [] ->
  (forall v, In v l -> le v (nth (argbest le l) l d) = true) /\
  (forall p, p < argbest le l -> le (nth (argbest le l) l d) (nth p l d) = false).
Proof.
  destruct l as [|v t]; intros Hn. congruence.
  destruct (arg_first_spec d t [v] 0 v) as (_ & H1 & H2); simpl; auto; try lia.
  - intros u [<-|[]]. apply le_refl.
Qed.

(* a strict unique extremum is the one selected *)
Lemma argbest_unique d l K : K < length l ->
  (forall p, p < length l -> p <> K -> le (nth K l d) (nth p l d) = false) -> argbest le l = K.
Proof.
  intros HK Hs. assert (Hn: l <> []) by (destruct l; simpl in HK; [lia|congruence]).
  destruct (argbest_spec d l Hn) as [H1 _]. pose proof (argbest_lt l Hn) as Hlt.
  destruct (Nat.eq_dec (argbest le l) K) as [E|E]; auto.
  specialize (Hs _ Hlt E). rewrite (H1 (nth K l d)) in Hs by (apply nth_In; exact HK). discriminate.
Qed.

(* ---------- the kernels along one axis ---------- *)
Definition column (a:tensor A) x d (jj:idx) : list A := map (fun k => tat a (insert_at x k jj)) (seq 0 d).

Lemma column_length (a:tensor A) x d jj : length (column a x d jj) = d.
Proof. unfold column. now rewrite map_length, seq_length. Qed.
Lemma column_nonempty (a:tensor A) x d jj : d <> 0 -> column a x d jj <> [].
Proof. intros Hd E. apply (f_equal (@length A)) in E. rewrite column_length in E. simpl in E. congruence. Qed.

Lemma ext_forward_int (a:tensor A) z x keep :
  norm_axis (rank a) z = Some x -> nth x (tshape a) 0 <> 0 ->
  exists o, ext_forward le a (AxInt z) keep = Some o /\ tshape o = red_shape (mask_of (rank a) [x]) (tshape a) keep /\
    forall j, In j (idxs (tshape o)) ->
      let jj := if keep then remove_at x j else j in
      tat o j = tat a (insert_at x (argbest le (column a x (nth x (tshape a) 0) jj)) jj).
Proof.
  intros Ex Hd. pose proof (norm_axis_lt _ _ _ Ex) as Hx. unfold rank in *.
  unfold ext_forward. unfold rank.
  assert (Er: np_reduce_axes true (length (tshape a)) (AxInt z) = Some [x]).
  { apply reduce_axes_legacy. unfold strict_axes, np_reduce_axes. cbn [andb]. now rewrite Ex. }
  rewrite Er.
  assert (Hf: fibre_size (mask_of (length (tshape a)) [x]) (tshape a) <> 0).
  { revert Hx Hd. generalize (tshape a). clear. intros sh. revert sh. induction x as [|x IH]; intros [|d r] Hx Hd; simpl in Hx; try lia.
    - cbn [length]. rewrite mask_of_single_0. cbn [fibre_size nth] in *.
      assert (G: forall s, fibre_size (repeat false (length s)) s = 1) by (induction s; simpl; auto). rewrite G. lia.
    - cbn [length]. rewrite mask_of_single_S. cbn [fibre_size nth] in *. apply IH; auto. lia. }
  destruct (fibre_size _ _ =? 0) eqn:E0. apply Nat.eqb_eq in E0. congruence.
  eexists. split. reflexivity. split. reflexivity.
  intros j Hj. set (jj := if keep then remove_at x j else j). cbn [tshape tat] in *. rewrite fibre_single by auto. fold jj.
  unfold best_of. rewrite map_map. fold (column a x (nth x (tshape a) 0) jj).
  set (K := argbest le _).
  assert (HK: K < nth x (tshape a) 0).
  { unfold K. pose proof (argbest_lt (column a x (nth x (tshape a) 0) jj) (column_nonempty _ _ _ _ Hd)) as L.
    now rewrite column_length in L. }
  clearbody K. unfold column. now rewrite nth_map_seq0 by exact HK.
Qed.

(* ---------- the code's own axis handling agrees with NumPy's on every accepted argument ---------- *)
Lemma ext_code_mask_spec n ax ks : np_reduce_axes true n ax = Some ks -> ext_code_mask n ax = mask_of n ks.
Proof.
  intros Hax. unfold ext_code_mask, mask_of. destruct (n =? 0) eqn:E0.
  - apply Nat.eqb_eq in E0. subst. reflexivity.
  - apply Nat.eqb_neq in E0. rewrite (legacy_is_strict _ _ E0) in Hax.
    pose proof (mean_code_axes_spec n ax ks Hax) as Hc. unfold mean_code_axes in Hc. rewrite Hc.
    apply map_ext. intros i. apply existsb_of_nat.
Qed.

(* within a column, "rank = K" identifies the K-th element *)
Lemma colof_pos_eqb m sh (F:list idx) K i : length m = length sh -> colof m sh i = F -> In i (idxs sh) -> K < length F ->
  (fpos m sh i =? K) = idx_eqb (nth K F []) i.
Proof.
  intros Hm EF Hi HK. pose proof (colof_pos m sh i Hm Hi) as E. rewrite EF in E.
  destruct (fpos m sh i =? K) eqn:E1.
  - apply Nat.eqb_eq in E1. subst K. symmetry. apply idx_eqb_spec. now apply nth_error_nth.
  - symmetry. destruct (idx_eqb (nth K F []) i) eqn:E2; auto. apply idx_eqb_spec in E2.
    assert (E3: nth_error F K = Some i). { rewrite <- E2. now apply nth_error_nth'. }
    pose proof (nodup_colof m sh i) as ND. rewrite EF in ND. rewrite NoDup_nth_error in ND.
    assert (K = fpos m sh i). { apply ND. exact HK. congruence. }
    apply Nat.eqb_neq in E1. congruence.
Qed.

(* ---------- the VJP on a linear piece: all inputs a' with the same argmax table; every accepted dim form ---------- *)
Theorem ext_vjp (g a:tensor A) ax keep ks :
  np_reduce_axes true (rank a) ax = Some ks ->
  fibre_size (mask_of (rank a) ks) (tshape a) <> 0 ->
  tshape g = red_shape (mask_of (rank a) ks) (tshape a) keep ->
  exists mk r, ext_mask le a ax = Some mk /\ ext_backward le g a ax keep = Some r /\ tshape r = tshape a /\
    (forall i, In i (idxs (tshape a)) -> tat r i = if mk i then tat g (proj (mask_of (rank a) ks) keep i) else s0) /\
    forall a' mk', tshape a' = tshape a -> ext_mask le a' ax = Some mk' ->
      (forall i, In i (idxs (tshape a)) -> mk' i = mk i) ->
      exists o, ext_forward le a' ax keep = Some o /\ tshape o = tshape g /\
        dot (idxs (tshape o)) (tat g) (tat o) = dot (idxs (tshape a)) (tat r) (tat a').
Proof.
  intros Hax Hf Hg. unfold rank in *. set (sa := tshape a) in *. set (m := mask_of (length sa) ks) in *.
  assert (Hm: length m = length sa) by apply mask_of_length.
  assert (Ecm: ext_code_mask (length sa) ax = m) by now apply ext_code_mask_spec.
  destruct (bw_expand0_spec g sa ax keep ks Hax Hg) as (g' & Eg & Hc).
  destruct (expanded_gather g g' sa ax keep ks Hax Hg Hc) as (sr & Esr & Hsr & Vsr). fold m in Vsr.
  unfold badd, bop in Esr. cbn [zeros tshape tat] in Esr.
  destruct (broadcast_shapes sa (tshape g')) as [so|] eqn:Eb; [|discriminate]. injection Esr as <-. cbn [tshape tat] in *. subst so.
  assert (Eb': broadcast_shapes (tshape g') sa = Some sa).
  { apply broadcast_shapes_absorb_l. apply broadcast_shapes_sound in Eb. tauto. }
  assert (Vg: forall i, In i (idxs sa) -> tat g' (bcast_idx (tshape g') sa i) = tat g (proj m keep i)).
  { intros i Hi. rewrite <- Vsr by exact Hi. symmetry. apply sadd_0_l. }
  assert (Emask: forall (b:tensor A), tshape b = sa ->
     ext_mask le b ax = Some (fun i => fpos m sa i =? argbest le (map (tat b) (colof m sa i)))).
  { intros b Hb. unfold ext_mask. unfold rank. rewrite Hb, Ecm.
    destruct (fibre_size m sa =? 0) eqn:E0. apply Nat.eqb_eq in E0. congruence. reflexivity. }
  exists (fun i => fpos m sa i =? argbest le (map (tat a) (colof m sa i))).
  assert (Er: ext_backward le g a ax keep = Some (mkT sa (fun j =>
     if fpos m sa (bcast_idx sa sa j) =? argbest le (map (tat a) (colof m sa (bcast_idx sa sa j)))
     then tat g' (bcast_idx (tshape g') sa j) else s0))).
  { unfold ext_backward. rewrite (Emask a eq_refl). cbn [obind]. unfold rank. fold sa. rewrite Eg. cbn [obind]. rewrite Eb'. reflexivity. }
  eexists. split. apply Emask; reflexivity. split. exact Er. split. reflexivity. split.
  { intros i Hi. cbn [tat]. rewrite (bcast_idx_id sa i Hi), Vg by exact Hi. reflexivity. }
  intros a' mk' Ha' Emk' Hsame. rewrite (Emask a' Ha') in Emk'. injection Emk' as <-.
  unfold ext_forward. unfold rank. rewrite Ha'. fold sa. rewrite Hax. fold m.
  destruct (fibre_size m sa =? 0) eqn:E0. apply Nat.eqb_eq in E0. congruence.
  eexists. split. reflexivity. split. { cbn [tshape]. now rewrite Hg. }
  cbn [tshape tat]. unfold dot. rewrite (isum_by_fibres m sa keep) by auto. apply isum_ext. intros j Hj.
  set (F := fibre m sa keep j).
  assert (LF: length F = fibre_size m sa) by (apply fibre_length; auto).
  assert (HFne: map (tat a') F <> []).
  { intro E. apply (f_equal (@length A)) in E. rewrite map_length, LF in E. simpl in E. congruence. }
  set (K' := argbest le (map (tat a') F)).
  assert (HK': K' < length F). { pose proof (argbest_lt (map (tat a') F) HFne) as L. now rewrite map_length in L. }
  set (i' := nth K' F []).
  assert (Hi'F: In i' F) by (apply nth_In; exact HK').
  destruct (colof_member m sa keep j i' Hm Hj Hi'F) as [Ecol' Eproj'].
  assert (Hi': In i' (idxs sa)) by (eapply fibre_in; eauto).
  set (K := argbest le (map (tat a) F)).
  assert (HK: K < length F).
  { assert (map (tat a) F <> []). { intro E. apply (f_equal (@length A)) in E. rewrite map_length, LF in E. simpl in E. congruence. }
    pose proof (argbest_lt (map (tat a) F) H1) as L. now rewrite map_length in L. }
  assert (EK: K = K').
  { specialize (Hsame i' Hi'). rewrite Ecol' in Hsame. fold F K K' in Hsame.
    rewrite !(colof_pos_eqb m sa F) in Hsame by auto. fold i' in Hsame. rewrite idx_eqb_refl in Hsame.
    symmetry in Hsame. apply idx_eqb_spec in Hsame.
    pose proof (nodup_colof m sa i') as ND. rewrite Ecol' in ND. fold F in ND. rewrite NoDup_nth_error in ND. apply ND. exact HK.
    rewrite (@nth_error_nth' _ F K []) by exact HK. rewrite (@nth_error_nth' _ F K' []) by exact HK'. now f_equal. }
  assert (Ev: best_of le (map (tat a') F) = tat a' i').
  { unfold best_of. fold K'. rewrite (nth_indep _ s0 (tat a' [])) by (rewrite map_length; exact HK'). now rewrite map_nth. }
  rewrite Ev.
  transitivity (isum F (fun i => if idx_eqb i' i then smul (tat g j) (tat a' i) else s0)).
  { symmetry. apply (isum_pick idx_eqb idx_eqb_spec F i' (fun i => smul (tat g j) (tat a' i))).
    unfold F. rewrite <- Ecol'. apply nodup_colof. exact Hi'F. }
  apply isum_ext. intros i Hi. destruct (colof_member m sa keep j i Hm Hj Hi) as [Ecol Eproj].
  assert (Hisa: In i (idxs sa)) by (eapply fibre_in; eauto).
  rewrite (bcast_idx_id sa i Hisa), Vg, Ecol, Eproj by exact Hisa. fold F K.
  rewrite (colof_pos_eqb m sa F K i) by auto. rewrite EK. fold i'.
  destruct (idx_eqb i' i). reflexivity. now rewrite smul_0_l.
Qed.
End P.

