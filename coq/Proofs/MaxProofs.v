(* max / min: the argmax mask (np.argmax first-occurrence rule) selects exactly one extremal element per
   fibre; on the set of inputs with the same argmax table the forward is a linear gather and the code's
   backward is its adjoint; tuple dims are rejected by the backward.                               *)
From Coq Require Import List Arith ZArith Lia Bool Permutation.
Import ListNotations.
From SG Require Import Base.Sums Base.ScalarExt Base.Cmp NumPy.Index NumPy.Tensor NumPy.Gather NumPy.TensorFn NumPy.Broadcast NumPy.Reduce
  Proofs.IdxSums Proofs.BcastProofs Proofs.ArithProofs Proofs.ReduceProofs.

Lemma nth_map_seq0 {X} (f:nat->X) n k d : k < n -> nth k (map f (seq 0 n)) d = f k.
Proof.
  intros Hk. rewrite (nth_indep _ d (f 0)) by (rewrite map_length, seq_length; exact Hk).
  rewrite map_nth. rewrite seq_nth by exact Hk. reflexivity.
Qed.

(* ---------- one-hot masks ---------- *)
Lemma mask_of_single_0 n : mask_of (S n) [0] = true :: repeat false n.
Proof.
  unfold mask_of. cbn [seq map existsb Nat.eqb orb]. f_equal.
  rewrite <- seq_shift, map_map. rewrite <- (seq_length n 0) at 2. generalize (seq 0 n). intros l.
  induction l; simpl; auto. f_equal. auto.
Qed.
Lemma mask_of_single_S n x : mask_of (S n) [S x] = false :: mask_of n [x].
Proof.
  unfold mask_of. cbn [seq map existsb Nat.eqb orb]. f_equal.
  rewrite <- seq_shift, map_map. apply map_ext. intros i. reflexivity.
Qed.
Lemma fibre_none : forall sh keep j, length j = length sh -> fibre (repeat false (length sh)) sh keep j = [j].
Proof.
  induction sh as [|d r IH]; intros keep [|k t] E; simpl in E; try discriminate. reflexivity.
  cbn [length repeat fibre]. rewrite IH by lia. reflexivity.
Qed.
Lemma red_shape_none : forall sh keep, red_shape (repeat false (length sh)) sh keep = sh.
Proof. induction sh; intros keep; simpl; auto. f_equal. auto. Qed.

(* the fibre of a single reduced axis x, as the column through it *)
Lemma fibre_single : forall x sh keep j, x < length sh -> In j (idxs (red_shape (mask_of (length sh) [x]) sh keep)) ->
  fibre (mask_of (length sh) [x]) sh keep j =
  map (fun k => insert_at x k (if keep then remove_at x j else j)) (seq 0 (nth x sh 0)).
Proof.
  induction x as [|x IH]; intros [|d r] keep j Hx Hj; simpl in Hx; try lia.
  - cbn [length] in *. rewrite mask_of_single_0 in *.
    assert (G: forall (t:idx) l, flat_map (fun k => map (cons k) [t]) l = map (fun k => insert_at 0 k t) l).
    { intros t l. induction l; simpl; try (f_equal; auto); auto. }
    destruct keep; cbn [fibre nth red_shape] in *; rewrite red_shape_none in Hj.
    + destruct j as [|j0 t]. { apply in_idxs_length in Hj. discriminate. }
      apply in_idxs_cons in Hj as [_ Hj]. cbn [tl remove_at]. rewrite fibre_none by (now apply in_idxs_length). apply G.
    + rewrite fibre_none by (now apply in_idxs_length). apply G.
  - cbn [length] in *. rewrite mask_of_single_S in *. cbn [red_shape] in Hj.
    destruct j as [|k0 t]. { apply in_idxs_length in Hj. discriminate. }
    apply in_idxs_cons in Hj as [Hk0 Ht]. cbn [fibre nth]. rewrite (IH r keep t) by (auto; lia).
    rewrite map_map. apply map_ext. intros k. destruct keep; reflexivity.
Qed.

Lemma fibre_in : forall m sh keep j i, length m = length sh -> In j (idxs (red_shape m sh keep)) ->
  In i (fibre m sh keep j) -> In i (idxs sh).
Proof.
  induction m as [|[|] m IH]; intros [|e r] keep j i Hm Hj Hi; simpl in Hm; try discriminate.
  - simpl in Hi. destruct Hi as [<-|[]]. simpl. auto.
  - cbn [fibre] in Hi. apply in_flat_map in Hi as (k & Hk & Hi). apply in_map_iff in Hi as (t & <- & Ht).
    apply in_seq in Hk. apply in_idxs_cons. split. lia. cbn [red_shape] in Hj.
    destruct keep.
    + destruct j as [|j0 tj]. apply in_idxs_length in Hj. discriminate. apply in_idxs_cons in Hj as [_ Hj]. eapply IH; eauto.
    + eapply IH; eauto.
  - cbn [red_shape] in Hj. destruct j as [|k tj]. apply in_idxs_length in Hj. discriminate.
    apply in_idxs_cons in Hj as [Hk Hj]. cbn [fibre] in Hi. apply in_map_iff in Hi as (t & <- & Ht).
    apply in_idxs_cons. split; auto. eapply IH; eauto.
Qed.

Section P.
Context {A:Type} `{ScalarLaws A}.
Variable le : A -> A -> bool.

(* ---------- argbest: in range ---------- *)
Lemma arg_first_range : forall l best bv pos, best < pos ->
  arg_first le best bv pos l < pos + length l.
Proof.
  induction l as [|v t IH]; intros best bv pos Hb; simpl. lia.
  destruct (le v bv).
  - specialize (IH best bv (S pos)). lia.
  - specialize (IH pos v (S pos)). lia.
Qed.
Lemma argbest_lt l : l <> [] -> argbest le l < length l.
Proof. destruct l as [|v t]; intros Hn. congruence. simpl. pose proof (arg_first_range t 0 v 1). lia. Qed.

(* ---------- argbest: optimal and first, for a total preorder ---------- *)
Hypothesis le_refl : forall a, le a a = true.
Hypothesis le_trans : forall a b c, le a b = true -> le b c = true -> le a c = true.
Hypothesis le_total : forall a b, le a b = true \/ le b a = true.

Lemma arg_first_spec d : forall l pre best bv,
  best < length pre -> nth best pre d = bv ->
  (forall v, In v pre -> le v bv = true) ->
  (forall p, p < best -> le bv (nth p pre d) = false) ->
  let r := arg_first le best bv (length pre) l in
  r < length (pre ++ l) /\
  (forall v, In v (pre ++ l) -> le v (nth r (pre ++ l) d) = true) /\
  (forall p, p < r -> le (nth r (pre ++ l) d) (nth p (pre ++ l) d) = false).
Proof.
  induction l as [|v t IH]; intros pre best bv Hb Hn Hall Hfirst.
  - cbn [arg_first]. rewrite app_nil_r. rewrite Hn. repeat split; auto.
  - cbn [arg_first]. destruct (le v bv) eqn:Ev.
    + specialize (IH (pre ++ [v]) best bv). rewrite app_length in IH. cbn [length] in IH.
      replace (length pre + 1) with (S (length pre)) in IH by lia. rewrite <- app_assoc in IH. cbn [app] in IH.
      apply IH.
      * lia.
      * rewrite app_nth1 by lia. exact Hn.
      * intros u Hu. apply in_app_or in Hu as [Hu|[<-|[]]]; auto.
      * intros p Hp. rewrite app_nth1 by lia. now apply Hfirst.
    + specialize (IH (pre ++ [v]) (length pre) v). rewrite app_length in IH. cbn [length] in IH.
      replace (length pre + 1) with (S (length pre)) in IH by lia. rewrite <- app_assoc in IH. cbn [app] in IH.
      assert (Hbv: le bv v = true). { destruct (le_total v bv) as [E|E]; congruence. }
      apply IH.
      * lia.
      * rewrite app_nth2 by lia. rewrite Nat.sub_diag. reflexivity.
      * intros u Hu. apply in_app_or in Hu as [Hu|[<-|[]]]; auto. eapply le_trans; eauto.
      * intros p Hp. rewrite app_nth1 by lia.
        destruct (le v (nth p pre d)) eqn:E; auto.
        assert (le (nth p pre d) bv = true) by (apply Hall, nth_In; lia).
        rewrite (le_trans _ _ _ E H1) in Ev. discriminate.
Qed.

Lemma argbest_spec d l : l <> [] ->
  (forall v, In v l -> le v (nth (argbest le l) l d) = true) /\
  (forall p, p < argbest le l -> le (nth (argbest le l) l d) (nth p l d) = false).
Proof.
  destruct l as [|v t]; intros Hn. congruence.
  destruct (arg_first_spec d t [v] 0 v) as (_ & H1 & H2); simpl; auto; try lia.
  - intros u [<-|[]]. apply le_refl.
Qed.

(* a strict unique extremum is the one selected *)
Lemma argbest_unique d l K : K < length l ->
  (forall p, p < length l -> p <> K -> le (nth K l d) (nth p l d) = false) -> argbest le l = K.
Proof.
  intros HK Hs. assert (Hn: l <> []) by (destruct l; simpl in HK; [lia|congruence]).
  destruct (argbest_spec d l Hn) as [H1 _]. pose proof (argbest_lt l Hn) as Hlt.
  destruct (Nat.eq_dec (argbest le l) K) as [E|E]; auto.
  specialize (Hs _ Hlt E). rewrite (H1 (nth K l d)) in Hs by (apply nth_In; exact HK). discriminate.
Qed.

(* ---------- the kernels along one axis ---------- *)
Lemma ext_mask_int (a:tensor A) z x : norm_axis (rank a) z = Some x -> nth x (tshape a) 0 <> 0 ->
  ext_mask le a (AxInt z) = Some (fun i => nth x i 0 =? argbest le (map (fun k => tat a (set_at x k i)) (seq 0 (nth x (tshape a) 0)))).
Proof.
  intros Ex Hd. unfold ext_mask. rewrite Ex. destruct (nth x (tshape a) 0 =? 0) eqn:E. apply Nat.eqb_eq in E. congruence. reflexivity.
Qed.

Definition column (a:tensor A) x d (jj:idx) : list A := map (fun k => tat a (insert_at x k jj)) (seq 0 d).

Lemma column_length (a:tensor A) x d jj : length (column a x d jj) = d.
Proof. unfold column. now rewrite map_length, seq_length. Qed.
Lemma column_nonempty (a:tensor A) x d jj : d <> 0 -> column a x d jj <> [].
Proof. intros Hd E. apply (f_equal (@length A)) in E. rewrite column_length in E. simpl in E. congruence. Qed.

Theorem ext_backward_int (g a:tensor A) z x keep :
  norm_axis (rank a) z = Some x -> nth x (tshape a) 0 <> 0 ->
  tshape g = red_shape (mask_of (rank a) [x]) (tshape a) keep ->
  exists mk r, ext_mask le a (AxInt z) = Some mk /\ ext_backward le g a (AxInt z) keep = Some r /\ tshape r = tshape a /\
    forall i, In i (idxs (tshape a)) -> tat r i = if mk i then tat g (proj (mask_of (rank a) [x]) keep i) else s0.
Proof.
  intros Ex Hd Hg. unfold rank in *. set (sa := tshape a) in *. set (m := mask_of (length sa) [x]) in *.
  assert (Hm: length m = length sa) by apply mask_of_length.
  assert (Hax: strict_axes (length sa) (AxInt z) = Some [x]).
  { unfold strict_axes, np_reduce_axes. cbn [andb]. now rewrite Ex. }
  destruct (bw_expand_spec g sa (AxInt z) keep [x] Hax Hg) as (g' & Eg & Hcase).
  eexists. unfold ext_backward. rewrite (ext_mask_int a z x Ex Hd). cbn [obind]. rewrite Eg. cbn [obind]. fold sa.
  assert (Hs: tshape g' = red_shape m sa true /\ forall i, In i (idxs sa) -> tat g' (proj m true i) = tat g (proj m keep i)).
  { destruct Hcase as [(Hk & _ & Hs & Ha)|(Hk & ->)].
    - subst keep. split. exact Hs. intros i Hi. rewrite Ha. fold m. f_equal. apply proj_false_true.
      rewrite Hm. symmetry. now apply in_idxs_length.
    - destruct Hk as [->|Hk]; [|discriminate]. split. exact Hg. reflexivity. }
  destruct Hs as [Hs Ha]. rewrite Hs.
  rewrite (broadcast_shapes_absorb_l _ sa (red_shape_keep_broadcastable m sa Hm)). cbn [obind].
  eexists. split. reflexivity. split. reflexivity. split. reflexivity.
  intros i Hi. cbn [tat]. rewrite (bcast_idx_id sa i Hi).
  unfold bcast_idx. rewrite red_shape_keep_length by auto. rewrite Nat.sub_diag. cbn [skipn].
  rewrite bm_al_red_keep by auto. rewrite Ha by auto. reflexivity.
Qed.

(* the forward value is the selected element of the column *)
Lemma ext_forward_int (a:tensor A) z x keep :
  norm_axis (rank a) z = Some x -> nth x (tshape a) 0 <> 0 ->
  exists o, ext_forward le a (AxInt z) keep = Some o /\ tshape o = red_shape (mask_of (rank a) [x]) (tshape a) keep /\
    forall j, In j (idxs (tshape o)) ->
      let jj := if keep then remove_at x j else j in
      tat o j = tat a (insert_at x (argbest le (column a x (nth x (tshape a) 0) jj)) jj).
Proof.
  intros Ex Hd. pose proof (norm_axis_lt _ _ _ Ex) as Hx. unfold rank in *.
  unfold ext_forward. unfold rank.
  assert (Er: np_reduce_axes true (length (tshape a)) (AxInt z) = Some [x]).
  { apply reduce_axes_legacy. unfold strict_axes, np_reduce_axes. cbn [andb]. now rewrite Ex. }
  rewrite Er.
  assert (Hf: fibre_size (mask_of (length (tshape a)) [x]) (tshape a) <> 0).
  { revert Hx Hd. generalize (tshape a). clear. intros sh. revert sh. induction x as [|x IH]; intros [|d r] Hx Hd; simpl in Hx; try lia.
    - cbn [length]. rewrite mask_of_single_0. cbn [fibre_size nth] in *.
      assert (G: forall s, fibre_size (repeat false (length s)) s = 1) by (induction s; simpl; auto). rewrite G. lia.
    - cbn [length]. rewrite mask_of_single_S. cbn [fibre_size nth] in *. apply IH; auto. lia. }
  destruct (fibre_size _ _ =? 0) eqn:E0. apply Nat.eqb_eq in E0. congruence.
  eexists. split. reflexivity. split. reflexivity.
  intros j Hj. set (jj := if keep then remove_at x j else j). cbn [tshape tat] in *. rewrite fibre_single by auto. fold jj.
  unfold best_of. rewrite map_map. fold (column a x (nth x (tshape a) 0) jj).
  set (K := argbest le _).
  assert (HK: K < nth x (tshape a) 0).
  { unfold K. pose proof (argbest_lt (column a x (nth x (tshape a) 0) jj) (column_nonempty _ _ _ _ Hd)) as L.
    now rewrite column_length in L. }
  clearbody K. unfold column. now rewrite nth_map_seq0 by exact HK.
Qed.

(* ---------- the VJP on a linear piece: all inputs a' with the same argmax table ---------- *)
Theorem ext_vjp_int (g a:tensor A) z x keep :
  norm_axis (rank a) z = Some x -> nth x (tshape a) 0 <> 0 ->
  tshape g = red_shape (mask_of (rank a) [x]) (tshape a) keep ->
  exists mk r, ext_mask le a (AxInt z) = Some mk /\ ext_backward le g a (AxInt z) keep = Some r /\ tshape r = tshape a /\
    forall a' mk', tshape a' = tshape a -> ext_mask le a' (AxInt z) = Some mk' ->
      (forall i, In i (idxs (tshape a)) -> mk' i = mk i) ->
      exists o, ext_forward le a' (AxInt z) keep = Some o /\ tshape o = tshape g /\
        dot (idxs (tshape o)) (tat g) (tat o) = dot (idxs (tshape a)) (tat r) (tat a').
Proof.
  intros Ex Hd Hg. destruct (ext_backward_int g a z x keep Ex Hd Hg) as (mk & r & Emk & Er & Hr & Vr).
  exists mk, r. repeat split; auto. intros a' mk' Ha' Emk' Hsame.
  assert (Ex': norm_axis (rank a') z = Some x) by (unfold rank in *; now rewrite Ha').
  assert (Hd': nth x (tshape a') 0 <> 0) by now rewrite Ha'.
  destruct (ext_forward_int a' z x keep Ex' Hd') as (o & Eo & Ho & Vo).
  assert (Emk'2: Some mk' = Some (fun i => nth x i 0 =? argbest le (map (fun k => tat a' (set_at x k i)) (seq 0 (nth x (tshape a') 0)))))
    by (rewrite <- Emk'; apply ext_mask_int; auto).
  assert (Emk2: Some mk = Some (fun i => nth x i 0 =? argbest le (map (fun k => tat a (set_at x k i)) (seq 0 (nth x (tshape a) 0)))))
    by (rewrite <- Emk; apply ext_mask_int; auto).
  injection Emk'2 as ->. injection Emk2 as ->. clear Emk Emk'.
  exists o. split. exact Eo. unfold rank in *. rewrite Ha' in *. split. congruence.
  pose proof (norm_axis_lt _ _ _ Ex) as Hx. set (sa := tshape a) in *. set (m := mask_of (length sa) [x]) in *.
  assert (Hm: length m = length sa) by apply mask_of_length. set (d := nth x sa 0) in *.
  fold sa d in Vr, Hsame.
  unfold dot. rewrite Ho. rewrite (isum_by_fibres m sa keep) by auto. apply isum_ext. intros j Hj.
  (* inside the fibre of j *)
  transitivity (isum (fibre m sa keep j) (fun i =>
     if nth x i 0 =? argbest le (map (fun k => tat a (set_at x k i)) (seq 0 d)) then smul (tat g j) (tat a' i) else s0)).
  2:{ rewrite !(fibre_sum_is_scatter m sa keep j) by auto. apply isum_ext. intros i Hi.
      destruct (idx_eqb (proj m keep i) j) eqn:E; auto. apply idx_eqb_spec in E. rewrite Vr by auto.
      destruct (nth x i 0 =? _). now rewrite E. now rewrite smul_0_l. }
  unfold m. rewrite fibre_single by auto. fold m. rewrite isum_map.
  set (jj := if keep then remove_at x j else j).
  assert (Ljj: x <= length jj).
  { pose proof (in_idxs_length _ _ Hj) as L. unfold jj. destruct keep.
    - rewrite red_shape_keep_length in L by auto. rewrite length_remove by lia. lia.
    - pose proof (red_shape_nokeep_length m sa Hm) as L2. unfold m in L2 at 2. rewrite cnt_mask_of in L2.
      simpl in L2. lia. repeat constructor; auto. intros k [<-|[]]; auto. }
  assert (Hin: forall k, k < d -> In (insert_at x k jj) (idxs sa)).
  { intros k Hk. assert (In (insert_at x k jj) (fibre m sa keep j)).
    { unfold m. rewrite fibre_single by auto. apply in_map_iff. exists k. split; auto. apply in_seq. fold d. lia. }
    eapply fibre_in; eauto. }
  rewrite Vo by (rewrite Ho; exact Hj). cbn zeta. fold jj. fold d.
  set (K' := argbest le (column a' x d jj)).
  assert (HK': K' < d).
  { unfold K'. pose proof (argbest_lt (column a' x d jj) (column_nonempty _ _ _ _ Hd)) as L.
    now rewrite column_length in L. }
  transitivity (isum (seq 0 d) (fun k => if k =? K' then smul (tat g j) (tat a' (insert_at x k jj)) else s0)).
  { symmetry. exact (isum_seq_pick d K' (fun k => smul (tat g j) (tat a' (insert_at x k jj))) HK'). }
  apply isum_ext. intros k Hk. apply in_seq in Hk.
  rewrite nth_insert by exact Ljj.
  assert (Ecol: forall (b:tensor A) k0, map (fun k' => tat b (set_at x k' (insert_at x k0 jj))) (seq 0 d) = column b x d jj).
  { intros b k0. unfold column. apply map_ext. intros k'. now rewrite set_at_insert. }
  rewrite Ecol.
  (* the tables agree, so the selected positions agree *)
  assert (EK: argbest le (column a x d jj) = K').
  { specialize (Hsame (insert_at x K' jj) (Hin K' HK')). rewrite nth_insert, !Ecol in Hsame by exact Ljj.
    fold K' in Hsame. rewrite Nat.eqb_refl in Hsame. symmetry in Hsame. apply Nat.eqb_eq in Hsame. now symmetry. }
  rewrite EK. reflexivity.
Qed.

(* tuple dims: accepted by the forward, rejected by the backward (open finding) *)
Theorem ext_tuple_backward_raises (g a:tensor A) l keep : ext_backward le g a (AxTuple l) keep = None.
Proof. reflexivity. Qed.
End P.
