(* Proofs about NumPy/ConvPool.v, part 4: pooling = window extraction (F.unfold) followed by max / mean over the kernel axis,
   gradients of the compositions, fold's backward (C14, C02). *)
From Coq Require Import List ZArith Lia Bool Arith QArith Qround Qcanon Permutation.
Import ListNotations.
From SG Require Import Base.Sums NumPy.Gather NumPy.Index NumPy.Window NumPy.Im2col NumPy.ConvPool
  Proofs.WindowProofs Proofs.Im2colProofs Proofs.ConvPoolAux Proofs.ConvPoolProofs Proofs.ConvPoolPooling.
Open Scope Z_scope.

Lemma row_of_t g c t : valid g -> 0 <= t < kH g * kW g ->
  c * (kH g * kW g) + t = (c * kH g + t / kW g) * kW g + t mod kW g.
Proof. intros Hv Ht. dv Hv. pose proof (div_mod_eq t (kW g) HkW). nia. Qed.

Lemma fast_unf_win g n c t wi wj : valid g ->
  0 <= n < gN g -> 0 <= c < gC g -> 0 <= t < kH g * kW g -> 0 <= wi < lH g -> 0 <= wj < lW g ->
  fast_unf g (n, c * (kH g * kW g) + t, wi * lW g + wj) = phi_win g (wi, wj, n, c, t / kW g, t mod kW g).
Proof.
  intros Hv Hn Hc Ht Hwi Hwj. destruct (tk_parts g t Hv Ht) as (Ha & Hb).
  rewrite row_of_t by auto. rewrite fast_unf_closed by (auto using row_range, col_range).
  apply phi_of_win; auto. lia.
Qed.

(* C14: max pooling = window extraction followed by the maximum over the kernel axis.
   (a) on the window view of extract_windows (what the fused kernel literally does), (b) on F.unfold(x, pad_value=-inf)
   reshaped to (N, C, kH*kW, L) *)
Theorem maxpool2d_is_windows_max g (x : pos -> Z) n c wi wj :
  maxpool2d_fwd g x (n, c, wi, wj) = lmax (map (fun t => ecell x (ew g wi wj n c (t / kW g) (t mod kW g))) (zr (kH g * kW g))).
Proof. unfold maxpool2d_fwd, efibre2, fibre2. now rewrite map_map. Qed.

Theorem maxpool2d_is_unfold_max g (x : pos -> Z) n c wi wj : valid g ->
  0 <= n < gN g -> 0 <= c < gC g -> 0 <= wi < lH g -> 0 <= wj < lW g ->
  maxpool2d_fwd g x (n, c, wi, wj) =
  lmax (map (fun t => ecell x (fast_unf g (n, c * (kH g * kW g) + t, wi * lW g + wj))) (zr (kH g * kW g))).
Proof.
  intros Hv Hn Hc Hwi Hwj. unfold maxpool2d_fwd. rewrite efibre2_closed by auto. f_equal.
  apply map_ext_in. intros t Ht. apply in_zr in Ht. now rewrite fast_unf_win.
Qed.

Theorem maxpool1d_is_windows_max g (x : pos1 -> Z) n c wj :
  maxpool1d_fwd g x (n, c, wj) = lmax (map (fun b => ecell x (ew1 g wj n c b)) (zr (k1 g))).
Proof. unfold maxpool1d_fwd, efibre1, fibre1. now rewrite map_map. Qed.

Section AvgFused.
Context {A : Type} `{ScalarLaws A} `{Divider A} `{!DivLaws A}.

Theorem avgpool2d_is_windows_mean g (x : pos -> A) n c wi wj :
  avgpool2d_fwd g x (n, c, wi, wj) =
  sdiv (isum (zr (kH g * kW g)) (fun t => windows2 g s0 x (wi, wj, n, c, t / kW g, t mod kW g)))
       (zlen (zr (kH g * kW g))).
Proof.
  unfold avgpool2d_fwd, fibre_vals2, fibre2. rewrite !map_map, !zlen_map. reflexivity.
Qed.

Theorem avgpool1d_is_windows_mean g (x : pos1 -> A) n c wj :
  avgpool1d_fwd g x (n, c, wj) = sdiv (isum (zr (k1 g)) (fun b => windows1 g s0 x (wj, n, c, b))) (zlen (zr (k1 g))).
Proof.
  unfold avgpool1d_fwd, fibre_vals1, fibre1. rewrite !map_map, !zlen_map. reflexivity.
Qed.

Theorem avgpool2d_is_unfold_mean g (x : pos -> A) n c wi wj : valid g ->
  0 <= n < gN g -> 0 <= c < gC g -> 0 <= wi < lH g -> 0 <= wj < lW g ->
  avgpool2d_fwd g x (n, c, wi, wj) =
  sdiv (isum (zr (kH g * kW g)) (fun t => unfold_fwd g s0 x (n, c * (kH g * kW g) + t, wi * lW g + wj))) (kH g * kW g).
Proof.
  intros Hv Hn Hc Hwi Hwj. rewrite avgpool2d_is_windows_mean. rewrite zlen_zr by (dv Hv; nia). f_equal.
  apply isum_ext. intros t Ht. apply in_zr in Ht. destruct (tk_parts g t Hv Ht) as (Ha & Hb).
  unfold unfold_fwd, im2col_apply, windows2. rewrite fast_unf_win, ew_closed by auto. reflexivity.
Qed.

(* gradient of the composition mean(unfold(x).reshape(N, C, kH*kW, L), axis=2): broadcast g/(kH*kW) over the kernel axis, then
   unfold's backward (col2im_fast) — the gradient of the fused kernel *)
Definition avg_dU g (gr : pos -> A) : idx3 -> A :=
  fun j => let '(n, r, l) := j in sdiv (gr (n, r / (kH g * kW g), l / lW g, l mod lW g)) (kH g * kW g).

Theorem avgpool_unfold_grad g (gr : pos -> A) i : valid g ->
  unfold_bwd g (avg_dU g gr) i = avgpool2d_bwd g gr i.
Proof.
  intros Hv. unfold unfold_bwd, fold_fwd, avgpool2d_bwd.
  rewrite (col2im_unf_scatter VFast g _ i Hv), <- (place_windows_scatter g _ i Hv).
  change (col2im_apply (pw_contribs g) ?y i) with (place2 g y i).
  apply place2_ext; auto. intros [[[[[wi wj] n] c] a] b] Hin. apply in_Jwin in Hin as (Hwi & Hwj & Hn & Hc & Ha & Hb).
  unfold jwin, avg_dU, avg_wgrad2. pose proof Hv as Hv'. dv Hv'.
  destruct (row_split g c a b HkH HkW Ha Hb) as (E1 & _ & _). cbv zeta in E1. rewrite E1.
  destruct (divmod_unique (wi * lW g + wj) (lW g) wi wj Hwj eq_refl) as [-> ->]. reflexivity.
Qed.
End AvgFused.

Section FoldVjp.
Context {A : Type} `{ScalarLaws A} `{!CommLaws A}.

Lemma dotl_comm {K} (l : list K) (u v : K -> A) : dotl l u v = dotl l v u.
Proof. apply isum_ext. intros k _. apply smul_comm. Qed.

(* C02 fold_vjp: fold's backward is unfold (pad value 0) *)
Theorem fold_vjp_lemma g (gr : pos -> A) (y : idx3 -> A) : valid g ->
  dotl (Ipos g) gr (fold_fwd g y) = dotl (Junf g) (fold_bwd g gr) y.
Proof.
  intros Hv. unfold fold_bwd. rewrite dotl_comm, <- unfold_fold_adjoint by auto. apply dotl_comm.
Qed.
End FoldVjp.
