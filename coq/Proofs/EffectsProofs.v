(* Soundness of the effect analysis of IR/Effects.v (property C11).

   analysis_sound : ok_prog p = true -> for every function of p, every heap, every (possibly overlapping)
   binding of its parameters to storages, every oracle (= every control-flow path and every value written),
   every pre-existing location outside the arguments declared writable keeps its contents, and the result
   shares storage only with the parameters named by the function's summary (or is freshly allocated).     *)
From Coq Require Import List Bool Arith ZArith String Lia.
Import ListNotations.
From SG Require Import IR.Effects.

Lemma memb_In l ls : memb l ls = true <-> In l ls.
Proof.
  unfold memb. rewrite existsb_exists. split.
  - intros (x & Hin & Heq). apply Nat.eqb_eq in Heq. subst. exact Hin.
  - intro H. exists l. split; [exact H|apply Nat.eqb_refl].
Qed.

Lemma memb_false l ls : memb l ls = false <-> ~ In l ls.
Proof.
  split.
  - intros H Hin. apply memb_In in Hin. congruence.
  - intro H. destruct (memb l ls) eqn:E; [|reflexivity]. apply memb_In in E. contradiction.
Qed.

Lemma subset_In a b : subset a b = true -> forall x, In x a -> In x b.
Proof.
  unfold subset. intros H x Hx. rewrite forallb_forall in H. apply memb_In. apply H. exact Hx.
Qed.

Lemma nth_map_args (e : env) (args : list var) (pi : nat) (l : loc) :
  In l (nth pi (map e args) []) -> exists a, In a (arg_of args pi) /\ In l (e a).
Proof.
  unfold arg_of. revert pi. induction args as [|a args IH]; intros pi H.
  - destruct pi; cbn in H; contradiction.
  - destruct pi as [|pi]; cbn [map nth nth_error] in *.
    + exists a. split; [left; reflexivity|exact H].
    + apply IH. exact H.
Qed.

Lemma nth_nonempty_lt {X} (l : list (list X)) (i : nat) (x : X) : In x (nth i l []) -> i < List.length l.
Proof.
  revert i. induction l as [|a l IH]; intros i H.
  - destruct i; cbn in H; contradiction.
  - destruct i as [|i]; cbn [nth List.length] in *; [lia|]. apply IH in H. lia.
Qed.

Lemma indexed_In {X} (l : list X) : forall n i x, nth_error l i = Some x -> In (n + i, x) (indexed n l).
Proof.
  induction l as [|a l IH]; intros n i x H.
  - destruct i; discriminate.
  - destruct i as [|i]; cbn [nth_error indexed] in *.
    + inversion H; subst. rewrite Nat.add_0_r. left. reflexivity.
    + right. replace (n + S i) with (S n + i) by lia. apply IH. exact H.
Qed.

(* ------------------------------------------------------------------------------------------------ *)
Definition owned_or (n0 : nat) (argl : list (list loc)) (ps : list nat) (l : loc) : Prop :=
  n0 <= l \/ exists pi, In pi ps /\ In l (nth pi argl []).

Definition protected (n0 : nat) (argl : list (list loc)) (writable : list nat) (l : loc) : Prop :=
  l < n0 /\ forall pi, In pi writable -> ~ In l (nth pi argl []).

Lemma owned_or_mono n0 argl ps qs l :
  (forall x, In x ps -> In x qs) -> owned_or n0 argl ps l -> owned_or n0 argl qs l.
Proof. intros H [Hl|(pi & Hpi & Hin)]; [left; exact Hl|right; exists pi; split; [apply H; exact Hpi|exact Hin]]. Qed.

Record Inv (n0 : nat) (argl : list (list loc)) (A : aenv) (writable : list nat) (h0 : heap) (e : env) (h : heap) : Prop := {
  inv_env  : forall x l, In l (e x) -> owned_or n0 argl (aget A x) l;
  inv_next : n0 <= next h;
  inv_cont : forall l, protected n0 argl writable l -> cont h l = cont h0 l
}.

Lemma inv_upd n0 argl A w h0 e h x v :
  Inv n0 argl A w h0 e h ->
  (forall l, In l v -> owned_or n0 argl (aget A x) l) ->
  Inv n0 argl A w h0 (upd e x v) h.
Proof.
  intros [He Hn Hc] Hv. split; [|exact Hn|exact Hc].
  intros y l. unfold upd. destruct (Nat.eqb y x) eqn:E.
  - apply Nat.eqb_eq in E. subst y. apply Hv.
  - apply He.
Qed.

Lemma inv_heap n0 argl A w h0 e h h2 :
  Inv n0 argl A w h0 e h -> next h <= next h2 ->
  (forall l, protected n0 argl w l -> cont h2 l = cont h l) ->
  Inv n0 argl A w h0 e h2.
Proof.
  intros [He Hn Hc] Hle Hc2. split; [exact He|lia|].
  intros l Hp. rewrite Hc2 by exact Hp. apply Hc. exact Hp.
Qed.

Section Sound.
  Variable o : oracle.
  Variable p : prog.
  Variable Sm : summ.
  Hypothesis Hall : forall fi fd, nth_error p fi = Some fd -> exists A, fun_ok_with p Sm fi fd A = true.

  Lemma exec_sound : forall fuel fi fd A,
    nth_error p fi = Some fd -> fun_ok_with p Sm fi fd A = true ->
    forall n0 argl h0 e h h' ret,
      Inv n0 argl A (f_writable fd) h0 e h ->
      exec o p fuel (f_body fd) e h = Some (h', ret) ->
      n0 <= next h' /\
      (forall l, protected n0 argl (f_writable fd) l -> cont h' l = cont h0 l) /\
      (forall l, In l ret -> owned_or n0 argl (sget Sm fi) l).
  Proof.
    induction fuel as [|k IH]; intros fi fd A Hfd Hok n0 argl h0 e h h' ret HI Hex; [discriminate|].
    cbn [exec] in Hex.
    assert (Hok' := Hok). unfold fun_ok_with in Hok'. apply andb_true_iff in Hok'. destruct Hok' as (Hpar & Hbody).
    rewrite forallb_forall in Hbody.
    destruct (nth_error (f_body fd) (choose o (tick h))) as [s|] eqn:Es.
    2:{ inversion Hex; subst h' ret. cbn [tick_heap next cont]. destruct HI as [He Hn Hc].
        split; [exact Hn|]. split; [exact Hc|]. intros l [].
    }
    assert (Hs := Hbody s (nth_error_In _ _ Es)).
    assert (HI1 : Inv n0 argl A (f_writable fd) h0 e (tick_heap h)).
    { apply (inv_heap _ _ _ _ _ _ h); [exact HI|cbn; lia|intros; reflexivity]. }
    destruct s as [x r|x|x].
    - (* Bind *)
      cbn [stmt_ok] in Hs. apply andb_true_iff in Hs. destruct Hs as (Hsub & Hcall).
      assert (Hsub' := subset_In _ _ Hsub).
      destruct r as [|y|y|ys|f args].
      + (* Fresh *)
        eapply (IH fi fd A Hfd Hok); [|exact Hex].
        apply (inv_heap _ _ _ _ _ _ (tick_heap h)).
        * apply inv_upd; [exact HI1|]. intros l [Hl|[]]. subst l. left. cbn. exact (inv_next _ _ _ _ _ _ _ HI).
        * cbn; lia.
        * intros; reflexivity.
      + (* ViewOf *)
        eapply (IH fi fd A Hfd Hok); [|exact Hex].
        apply inv_upd; [exact HI1|]. intros l Hl.
        apply (owned_or_mono _ _ (aget A y)); [exact Hsub'|]. exact (inv_env _ _ _ _ _ _ _ HI y l Hl).
      + (* Alias *)
        eapply (IH fi fd A Hfd Hok); [|exact Hex].
        apply inv_upd; [exact HI1|]. intros l Hl.
        apply (owned_or_mono _ _ (aget A y)); [exact Hsub'|]. exact (inv_env _ _ _ _ _ _ _ HI y l Hl).
      + (* Join *)
        eapply (IH fi fd A Hfd Hok); [|exact Hex].
        apply inv_upd; [exact HI1|]. intros l Hl.
        apply in_flat_map in Hl. destruct Hl as (y & Hy & Hl).
        apply (owned_or_mono _ _ (aget A y)).
        * intros q Hq. apply Hsub'. cbn [abs_rhs]. apply in_flat_map. exists y. split; assumption.
        * exact (inv_env _ _ _ _ _ _ _ HI y l Hl).
      + (* CallRet *)
        cbn [call_ok] in Hcall.
        destruct (nth_error p f) as [gd|] eqn:Eg; [|discriminate].
        apply andb_true_iff in Hcall. destruct Hcall as (Hlen & Hwr). apply Nat.leb_le in Hlen.
        rewrite forallb_forall in Hwr.
        destruct (exec o p k (f_body gd) (init_env (map e args)) (tick_heap h)) as [[h2 ret']|] eqn:Ec; [|discriminate].
        destruct (Hall f gd Eg) as (Ag & Hgok).
        assert (Hgok' := Hgok). unfold fun_ok_with in Hgok'. apply andb_true_iff in Hgok'. destruct Hgok' as (Hgpar & _).
        unfold params_ok in Hgpar. rewrite forallb_forall in Hgpar.
        (* the callee, started on the caller's heap *)
        assert (HIc : Inv (next (tick_heap h)) (map e args) Ag (f_writable gd) (tick_heap h) (init_env (map e args)) (tick_heap h)).
        { split; [|lia|intros; reflexivity].
          intros v l Hl. unfold init_env in Hl. right. exists v. split; [|exact Hl].
          apply memb_In. apply Hgpar. apply in_seq. apply nth_nonempty_lt in Hl. rewrite map_length in Hl. lia. }
        destruct (IH f gd Ag Eg Hgok _ _ _ _ _ _ _ HIc Ec) as (Hn2 & Hc2 & Hr2).
        eapply (IH fi fd A Hfd Hok); [|exact Hex].
        apply (inv_heap _ _ _ _ _ _ (tick_heap h)).
        * apply inv_upd; [exact HI1|]. intros l Hl.
          destruct (Hr2 l Hl) as [Hfresh|(pi & Hpi & Hin)].
          -- left. cbn [tick_heap next] in Hfresh. pose proof (inv_next _ _ _ _ _ _ _ HI). lia.
          -- apply nth_map_args in Hin. destruct Hin as (a & Ha & Hla).
             apply (owned_or_mono _ _ (aget A a)); [|exact (inv_env _ _ _ _ _ _ _ HI a l Hla)].
             intros q Hq. apply Hsub'. cbn [abs_rhs]. apply in_flat_map. exists pi. split; [exact Hpi|].
             apply in_flat_map. exists a. split; assumption.
        * exact Hn2.
        * intros l (Hlt & Hnw). apply Hc2. split.
          -- cbn [tick_heap next]. pose proof (inv_next _ _ _ _ _ _ _ HI). lia.
          -- intros pi Hpi Hin. apply nth_map_args in Hin. destruct Hin as (a & Ha & Hla).
             assert (Hsa := Hwr pi Hpi). rewrite forallb_forall in Hsa. specialize (Hsa a Ha).
             destruct (inv_env _ _ _ _ _ _ _ HI a l Hla) as [Hge|(q & Hq & Hlq)]; [lia|].
             apply (Hnw q); [|exact Hlq]. exact (subset_In _ _ Hsa q Hq).
    - (* Write *)
      cbn [stmt_ok] in Hs. assert (Hsub' := subset_In _ _ Hs).
      eapply (IH fi fd A Hfd Hok); [|exact Hex].
      apply (inv_heap _ _ _ _ _ _ (tick_heap h)); [exact HI1|cbn; lia|].
      intros l (Hlt & Hnw). cbn [write cont].
      destruct (memb l (e x)) eqn:Em; [|reflexivity].
      exfalso. apply memb_In in Em.
      destruct (inv_env _ _ _ _ _ _ _ HI x l Em) as [Hge|(q & Hq & Hlq)]; [lia|].
      exact (Hnw q (Hsub' q Hq) Hlq).
    - (* Return *)
      cbn [stmt_ok] in Hs. assert (Hsub' := subset_In _ _ Hs).
      inversion Hex; subst h' ret. destruct HI1 as [He Hn Hc].
      split; [exact Hn|]. split; [exact Hc|].
      intros l Hl. apply (owned_or_mono _ _ (aget A x)); [exact Hsub'|]. apply He. exact Hl.
  Qed.
End Sound.

Lemma ok_prog_all p : ok_prog p = true ->
  forall fi fd, nth_error p fi = Some fd -> fun_ok_with p (summaries p) fi fd (solve (summaries p) fd) = true.
Proof.
  unfold ok_prog. intros H fi fd Hfd. rewrite forallb_forall in H.
  exact (H (fi, fd) (indexed_In p 0 fi fd Hfd)).
Qed.

Theorem analysis_sound_full : forall p, ok_prog p = true ->
  forall o fuel fi fd argl h h' ret,
    nth_error p fi = Some fd -> List.length argl <= f_nparams fd ->
    run o p fuel fd argl h = Some (h', ret) ->
    (forall l, l < next h -> (forall pi, In pi (f_writable fd) -> ~ In l (nth pi argl [])) -> cont h' l = cont h l)
    /\ (forall l, In l ret -> next h <= l \/ exists pi, In pi (sget (summaries p) fi) /\ In l (nth pi argl []))
    /\ next h <= next h'.
Proof.
  intros p Hok o fuel fi fd argl h h' ret Hfd Hlen Hrun.
  pose proof (ok_prog_all p Hok) as Hall.
  assert (Hall' : forall fi fd, nth_error p fi = Some fd -> exists A, fun_ok_with p (summaries p) fi fd A = true).
  { intros gi gd Hg. eexists. exact (Hall gi gd Hg). }
  assert (Hf := Hall fi fd Hfd).
  assert (Hf' := Hf). unfold fun_ok_with in Hf'. apply andb_true_iff in Hf'. destruct Hf' as (Hpar & _).
  unfold params_ok in Hpar. rewrite forallb_forall in Hpar.
  assert (HI : Inv (next h) argl (solve (summaries p) fd) (f_writable fd) h (init_env argl) h).
  { split; [|lia|intros; reflexivity].
    intros v l Hl. unfold init_env in Hl. right. exists v. split; [|exact Hl].
    apply memb_In. apply Hpar. apply in_seq. apply nth_nonempty_lt in Hl. lia. }
  destruct (exec_sound o p (summaries p) Hall' fuel fi fd _ Hfd Hf _ _ _ _ _ _ _ HI Hrun) as (Hn & Hc & Hr).
  split; [|split; [exact Hr|exact Hn]].
  intros l Hlt Hnw. apply Hc. split; assumption.
Qed.

(* the form quoted by the property: inputs (and everything else that existed before the call) are unchanged *)
Corollary analysis_sound : forall p, ok_prog p = true ->
  forall o fuel fi fd argl h h' ret,
    nth_error p fi = Some fd -> List.length argl <= f_nparams fd -> f_writable fd = [] ->
    run o p fuel fd argl h = Some (h', ret) ->
    forall l, l < next h -> cont h' l = cont h l.
Proof.
  intros p Hok o fuel fi fd argl h h' ret Hfd Hlen Hw Hrun l Hl.
  destruct (analysis_sound_full p Hok o fuel fi fd argl h h' ret Hfd Hlen Hrun) as (H & _).
  apply H; [exact Hl|]. rewrite Hw. intros pi [].
Qed.

(* a result summarised as Owned is freshly allocated storage *)
Corollary owned_result_fresh : forall p, ok_prog p = true ->
  forall o fuel fi fd argl h h' ret,
    nth_error p fi = Some fd -> List.length argl <= f_nparams fd -> sget (summaries p) fi = [] ->
    run o p fuel fd argl h = Some (h', ret) ->
    forall l, In l ret -> next h <= l.
Proof.
  intros p Hok o fuel fi fd argl h h' ret Hfd Hlen Hs Hrun l Hl.
  destruct (analysis_sound_full p Hok o fuel fi fd argl h h' ret Hfd Hlen Hrun) as (_ & H & _).
  destruct (H l Hl) as [Hge|(pi & Hpi & _)]; [exact Hge|]. rewrite Hs in Hpi. destruct Hpi.
Qed.

Lemma find_fun_nth p name fi fd : find_fun p name = Some (fi, fd) -> nth_error p fi = Some fd.
Proof.
  unfold find_fun. intro H. apply find_some in H. destruct H as (Hin & _).
  assert (G : forall (l : list fundef) n, In (fi, fd) (indexed n l) -> n <= fi /\ nth_error l (fi - n) = Some fd).
  { induction l as [|a l IH]; intros n Hi; [destruct Hi|].
    cbn [indexed] in Hi. destruct Hi as [Hi|Hi].
    - inversion Hi; subst. rewrite Nat.sub_diag. split; [lia|reflexivity].
    - apply IH in Hi. destruct Hi as (Hle & Hn). split; [lia|].
      replace (fi - n) with (S (fi - S n)) by lia. exact Hn. }
  destruct (G p 0 Hin) as (_ & Hn). rewrite Nat.sub_0_r in Hn. exact Hn.
Qed.
