(* Proofs about State/BNDropout.v (property C13). *)
From Coq Require Import List Bool Arith ZArith QArith Qabs Lia Lqa Field.
Import ListNotations.
From SG Require Import State.BNDropout.
Open Scope Q_scope.

(* ---------------------------------------------------------------- small facts *)
Lemma bn_eta s : {| rmean := rmean s; rvar := rvar s; nbt := nbt s; training := training s |} = s.
Proof. destruct s; reflexivity. Qed.

Lemma qnat_S k : qnat (S k) == qnat k + 1.
Proof. unfold qnat. rewrite Nat2Z.inj_succ, <- Z.add_1_r, inject_Z_plus. reflexivity. Qed.

Lemma qnat_nonneg k : 0 <= qnat k.
Proof. unfold qnat. change 0 with (inject_Z 0). rewrite <- Zle_Qle. lia. Qed.

Lemma qnat_pos k : (1 <= k)%nat -> 0 < qnat k.
Proof. intro H. unfold qnat. change 0 with (inject_Z 0). rewrite <- Zlt_Qlt. lia. Qed.

Lemma qnat_ge2 k : (2 <= k)%nat -> 0 < qnat k - 1.
Proof.
  intro H. unfold qnat. assert (inject_Z 2 <= inject_Z (Z.of_nat k)) by (rewrite <- Zle_Qle; lia).
  change (inject_Z 2) with 2 in H0. lra.
Qed.

Lemma map2_length {A B C} (f : A -> B -> C) l1 l2 :
  length l1 = length l2 -> length (map2 f l1 l2) = length l1.
Proof. revert l2; induction l1 as [|a l1 IH]; intros [|b l2] H; simpl in *; try discriminate; auto. Qed.

Lemma map2_nth_error {A B C} (f : A -> B -> C) l1 l2 i a b :
  nth_error l1 i = Some a -> nth_error l2 i = Some b -> nth_error (map2 f l1 l2) i = Some (f a b).
Proof.
  revert l2 i; induction l1 as [|x l1 IH]; intros [|y l2] [|i] Ha Hb; simpl in *; try discriminate.
  - inversion Ha; inversion Hb; reflexivity.
  - eauto.
Qed.

(* ---------------------------------------------------------------- eval mode *)
Definition eval_out (s : bn) (e : Q) (x : batch) : fwd_out :=
  normalise x (match rmean s with Some r => r | None => batch_means x end)
              (match rvar s with Some r => r | None => batch_vars x end) e.

Lemma eval_pure o s x : training s = false -> forward o s x = Done s (eval_out s (eps o) x).
Proof.
  intro Ht. unfold forward, eval_out. rewrite Ht. cbn [andb negb orb].
  destruct s as [rm rv k tr]; cbn in Ht; subst tr; cbn [rmean rvar nbt training].
  destruct rm as [rm|], rv as [rv|]; cbn; reflexivity.
Qed.

Lemma forward_training o s x : training (state_of (forward o s x)) = training s.
Proof.
  unfold forward.
  destruct (training s && track o) eqn:E.
  - match goal with |- context [bnf ?a ?b ?c ?d ?e ?f] => destruct (bnf a b c d e f) as [[[out nrm] nrv]|] end;
      cbn; reflexivity.
  - match goal with |- context [bnf ?a ?b ?c ?d ?e ?f] => destruct (bnf a b c d e f) as [[[out nrm] nrv]|] end;
      cbn; reflexivity.
Qed.

Definition no_train_ev (e : ev) : Prop := match e with Train => False | _ => True end.

(* an eval-mode layer is a pure function of its input: over any history without train() the state never
   moves and the k-th output is eval_out of the k-th input *)
Lemma eval_history o s h :
  training s = false -> Forall no_train_ev h ->
  run o s h = s /\
  trace o s h = map (fun e => match e with Forward x => (s, OOut (eval_out s (eps o) x)) | _ => (s, ONone) end) h.
Proof.
  intros Ht Hh. induction Hh as [|e h He Hh IH]; [split; reflexivity|].
  assert (Hs : step o s e = match e with Forward x => (s, OOut (eval_out s (eps o) x)) | _ => (s, ONone) end).
  { destruct e as [| |x]; cbn in He; try contradiction.
    - cbn. unfold set_training. rewrite <- Ht, bn_eta. reflexivity.
    - cbn. rewrite (eval_pure o s x Ht). reflexivity. }
  cbn [run trace map]. rewrite Hs.
  assert (Hf : fst (match e with Forward x => (s, OOut (eval_out s (eps o) x)) | _ => (s, ONone) end) = s)
    by (destruct e; reflexivity).
  rewrite Hf. destruct IH as [IH1 IH2]. split; [exact IH1|]. f_equal. exact IH2.
Qed.

(* ---------------------------------------------------------------- one training forward *)
Definition unbiased_vars (x : batch) : list Q :=
  map (fun vi => vi * (qnat (nsamp x) / (qnat (nsamp x) - 1))) (batch_vars x).

Lemma train_forward o s x m v :
  training s = true -> track o = true -> rmean s = Some m -> rvar s = Some v -> nsamp x <> 1%nat ->
  let f := match momentum o with None => 1 / qnat (S (nbt s)) | Some mo => mo end in
  forward o s x =
  Done {| rmean := Some (upd f (batch_means x) m);
          rvar := Some (upd f (unbiased_vars x) v);
          nbt := S (nbt s); training := true |}
       (normalise x (batch_means x) (batch_vars x) (eps o)).
Proof.
  intros Ht Htr Hm Hv Hn f. unfold forward. rewrite Ht, Htr. cbn [andb negb orb].
  cbn [bump rmean rvar nbt training]. rewrite Hm, Hv. unfold bnf. cbn [negb].
  apply Nat.eqb_neq in Hn. rewrite Hn. cbn [rmean rvar nbt training]. rewrite Ht.
  unfold unbiased_vars. reflexivity.
Qed.

Lemma train_n1 o s x v :
  training s = true -> track o = true -> rvar s = Some v -> nsamp x = 1%nat ->
  forward o s x = Raised (bump s).
Proof.
  intros Ht Htr Hv Hn. unfold forward. rewrite Ht, Htr. cbn [andb negb orb].
  cbn [bump rmean rvar nbt training]. rewrite Hv. unfold bnf. rewrite Hn. cbn. reflexivity.
Qed.

Lemma upd_nth f stat old i a b :
  nth_error stat i = Some a -> nth_error old i = Some b ->
  exists c, nth_error (upd f stat old) i = Some c /\ c == (1 - f) * b + f * a.
Proof.
  intros Ha Hb. unfold upd. rewrite (map2_nth_error _ _ _ _ _ _ Ha Hb).
  eexists; split; [reflexivity|]. ring.
Qed.

Lemma upd_length f stat old : length stat = length old -> length (upd f stat old) = length old.
Proof. intro H. unfold upd. rewrite map2_length; auto. Qed.

(* Bessel: the quantity stored in running_var is the unbiased sample variance *)
Lemma unbiased_is_bessel l :
  (2 <= length l)%nat ->
  var_b l * (qnat (length l) / (qnat (length l) - 1)) == qsum (sqdev l) / (qnat (length l) - 1).
Proof.
  intro H. unfold var_b.
  pose proof (qnat_ge2 _ H) as H1. assert (H0 : 0 < qnat (length l)) by (apply qnat_pos; lia).
  field. split; lra.
Qed.

Lemma train_updates_once_full o s x m v f :
  training s = true -> track o = true -> momentum o = Some f ->
  rmean s = Some m -> rvar s = Some v ->
  length m = length x -> length v = length x -> (2 <= nsamp x)%nat ->
  exists rm' rv',
    forward o s x = Done {| rmean := Some rm'; rvar := Some rv'; nbt := S (nbt s); training := true |}
                         (normalise x (batch_means x) (batch_vars x) (eps o)) /\
    length rm' = length x /\ length rv' = length x /\
    forall c xs, nth_error x c = Some xs ->
      (forall old, nth_error m c = Some old ->
         exists new, nth_error rm' c = Some new /\ new == (1 - f) * old + f * mean xs) /\
      (forall old, nth_error v c = Some old ->
         exists new, nth_error rv' c = Some new /\
                     new == (1 - f) * old + f * (var_b xs * (qnat (nsamp x) / (qnat (nsamp x) - 1)))).
Proof.
  intros Ht Htr Hmo Hm Hv Lm Lv Hn.
  pose proof (train_forward o s x m v Ht Htr Hm Hv ltac:(lia)) as Hf. cbn zeta in Hf. rewrite Hmo in Hf.
  eexists _, _. split; [exact Hf|].
  split; [|split].
  - rewrite upd_length; unfold batch_means; rewrite ?map_length; auto.
  - rewrite upd_length; unfold unbiased_vars, batch_vars; rewrite ?map_length; auto.
  - intros c xs Hc. split; intros old Ho.
    + apply upd_nth; auto. unfold batch_means. rewrite nth_error_map, Hc. reflexivity.
    + apply upd_nth; auto. unfold unbiased_vars, batch_vars. rewrite !nth_error_map, Hc. reflexivity.
Qed.

(* ---------------------------------------------------------------- no tracking *)
Lemma no_tracking_forward o s x :
  track o = false -> rmean s = None -> rvar s = None ->
  forward o s x = Done s (normalise x (batch_means x) (batch_vars x) (eps o)).
Proof.
  intros Htr Hm Hv. unfold forward. rewrite Htr, andb_false_r, orb_false_r.
  destruct s as [rm rv k tr]; cbn in Hm, Hv; subst rm rv; cbn [rmean rvar nbt training].
  destruct tr; cbn; reflexivity.
Qed.

Lemma no_tracking_history o C h :
  track o = false ->
  let s := run o (fresh o C) h in rmean s = None /\ rvar s = None /\ nbt s = 0%nat.
Proof.
  intro Htr. cbn zeta.
  assert (G : forall s, rmean s = None /\ rvar s = None /\ nbt s = 0%nat ->
                        rmean (run o s h) = None /\ rvar (run o s h) = None /\ nbt (run o s h) = 0%nat).
  { induction h as [|e h IH]; intros s Hs; [exact Hs|].
    cbn [run]. apply IH. destruct Hs as (H1 & H2 & H3).
    destruct e as [| |x]; cbn; auto.
    rewrite (no_tracking_forward o s x Htr H1 H2). cbn. auto. }
  apply G. unfold fresh. rewrite Htr. cbn. auto.
Qed.

(* ---------------------------------------------------------------- the state only sees training forwards *)
Definition stats (s : bn) := (rmean s, rvar s, nbt s).
Definition tstep (o : opts) (s : bn) (x : batch) : bn := state_of (forward o (set_training true s) x).

Lemma fold_tstep_mode o l : forall s b,
  stats (fold_left (tstep o) l (set_training b s)) = stats (fold_left (tstep o) l s).
Proof.
  destruct l as [|x l]; intros s b; [reflexivity|]. cbn [fold_left]. reflexivity.
Qed.

Lemma run_factor o h : forall s,
  stats (run o s h) = stats (fold_left (tstep o) (train_batches (training s) h) s) /\
  training (run o s h) = final_mode (training s) h.
Proof.
  induction h as [|e h IH]; intro s; [split; reflexivity|].
  destruct e as [| |x]; cbn [run step fst train_batches final_mode].
  - destruct (IH (set_training true s)) as [A B]. cbn [training set_training] in A, B.
    rewrite A, B, fold_tstep_mode. split; reflexivity.
  - destruct (IH (set_training false s)) as [A B]. cbn [training set_training] in A, B.
    rewrite A, B, fold_tstep_mode. split; reflexivity.
  - destruct (training s) eqn:Ht.
    + assert (E : fst (match forward o s x with Done s' out => (s', OOut out) | Raised s' => (s', ORaise) end)
                  = tstep o s x).
      { unfold tstep. replace (set_training true s) with s
          by (unfold set_training; rewrite <- Ht; symmetry; apply bn_eta).
        destruct (forward o s x); reflexivity. }
      rewrite E. destruct (IH (tstep o s x)) as [A B].
      assert (T : training (tstep o s x) = true).
      { unfold tstep. rewrite forward_training. reflexivity. }
      rewrite T in A, B. cbn [fold_left]. split; assumption.
    + rewrite (eval_pure o s x Ht). cbn [fst]. destruct (IH s) as [A B]. rewrite Ht in A, B. split; assumption.
Qed.

(* ---------------------------------------------------------------- momentum = None: cumulative average *)
Definition vsum (C : nat) (vs : list (list Q)) : list Q := fold_left (map2 Qplus) vs (repeat 0 C).

Lemma cma_scalar k st ro a :
  ro * qnat k == a ->
  (st * (1 / qnat (S k)) + ro * (1 - 1 / qnat (S k))) * qnat (S k) == a + st.
Proof.
  intro H. rewrite <- H. rewrite qnat_S. pose proof (qnat_nonneg k).
  field. lra.
Qed.

Lemma cma_vec k : forall rm acc bm,
  Forall2 (fun r a => r * qnat k == a) rm acc -> length bm = length rm ->
  Forall2 (fun r a => r * qnat (S k) == a) (upd (1 / qnat (S k)) bm rm) (map2 Qplus acc bm).
Proof.
  intros rm acc bm H. revert bm. induction H as [|r a rm acc Hra H IH]; intros [|b bm] L; cbn in *; try discriminate.
  - constructor.
  - constructor; [apply cma_scalar; exact Hra|]. apply IH. lia.
Qed.

Record cma_inv (o : opts) (C : nat) (s : bn) (tb : list batch) : Prop := {
  ci_nbt : nbt s = length tb;
  ci_stats : exists rm rv, rmean s = Some rm /\ rvar s = Some rv /\
     Forall2 (fun r a => r * qnat (length tb) == a) rm (vsum C (map batch_means tb)) /\
     Forall2 (fun r a => r * qnat (length tb) == a) rv (vsum C (map unbiased_vars tb)) }.

Lemma Forall2_length_eq {A B} (P : A -> B -> Prop) l1 l2 : Forall2 P l1 l2 -> length l1 = length l2.
Proof. induction 1; simpl; auto. Qed.

Lemma vsum_length C vs : Forall (fun v => length v = C) vs -> length (vsum C vs) = C.
Proof.
  unfold vsum. assert (G : forall acc, length acc = C -> Forall (fun v => length v = C) vs ->
                                       length (fold_left (map2 Qplus) vs acc) = C).
  { induction vs as [|v vs IH]; intros acc La Hv; [exact La|].
    inversion Hv; subst. cbn [fold_left]. apply IH; auto. rewrite map2_length; congruence. }
  intro H. apply G; auto. apply repeat_length.
Qed.

Lemma Forall2_repeat0 c C : Forall2 (fun r a => r * qnat 0 == a) (repeat c C) (vsum C []).
Proof.
  unfold vsum. cbn [fold_left]. induction C; cbn [repeat]; constructor; auto.
  change (qnat 0) with 0. ring.
Qed.

Definition good_batch (C : nat) (x : batch) : Prop := wf_batch C (nsamp x) x /\ (2 <= nsamp x)%nat.

Lemma cma_fold o C :
  momentum o = None -> track o = true ->
  forall tb, Forall (good_batch C) tb -> cma_inv o C (fold_left (tstep o) tb (fresh o C)) tb.
Proof.
  intros Hmo Htr tb. induction tb as [|x tb IH] using rev_ind; intro Hg.
  - cbn. unfold fresh. rewrite Htr. constructor; [reflexivity|].
    exists (repeat 0 C), (repeat 1 C). cbn. repeat split; try reflexivity.
    + apply Forall2_repeat0.
    + apply Forall2_repeat0.
  - apply Forall_app in Hg. destruct Hg as [Hg Hx]. apply Forall_inv in Hx. destruct Hx as [[Lx Wx] Nx].
    specialize (IH Hg). destruct IH as [Hk (rm & rv & Hm & Hv & Fm & Fv)].
    rewrite fold_left_app. cbn [fold_left]. set (s := fold_left (tstep o) tb (fresh o C)) in *.
    assert (Lbm : Forall (fun v => length v = C) (map batch_means tb)).
    { apply Forall_map. eapply Forall_impl; [|exact Hg]. intros b [[Lb _] _]. unfold batch_means. rewrite map_length. exact Lb. }
    assert (Lbv : Forall (fun v => length v = C) (map unbiased_vars tb)).
    { apply Forall_map. eapply Forall_impl; [|exact Hg]. intros b [[Lb _] _]. unfold unbiased_vars, batch_vars. rewrite !map_length. exact Lb. }
    pose proof (Forall2_length_eq _ _ _ Fm) as L1. rewrite (vsum_length _ _ Lbm) in L1.
    pose proof (Forall2_length_eq _ _ _ Fv) as L2. rewrite (vsum_length _ _ Lbv) in L2.
    unfold tstep.
    rewrite (train_forward o (set_training true s) x rm rv); cbn [set_training training rmean rvar nbt]; auto; [|lia].
    rewrite Hmo. cbn [state_of].
    constructor; cbn [nbt rmean rvar]; rewrite app_length, Nat.add_1_r; [congruence|].
    eexists _, _. split; [reflexivity|]. split; [reflexivity|].
    rewrite !map_app. cbn [map]. unfold vsum. rewrite !fold_left_app. cbn [fold_left].
    rewrite Hk. split.
    + apply cma_vec; [exact Fm|]. unfold batch_means. rewrite map_length. congruence.
    + apply cma_vec; [exact Fv|]. unfold unbiased_vars, batch_vars. rewrite !map_length. congruence.
Qed.

Lemma scaled_to_avg k rm acc :
  (1 <= k)%nat -> Forall2 (fun r a => r * qnat k == a) rm acc -> Forall2 (fun r a => r == a / qnat k) rm acc.
Proof.
  intros Hk H. pose proof (qnat_pos k Hk) as Hp. induction H as [|r a rm acc Hra H IH]; constructor; auto.
  rewrite <- Hra. field. lra.
Qed.

Lemma cumulative_mean o C h :
  momentum o = None -> track o = true ->
  Forall (good_batch C) (train_batches true h) ->
  let tb := train_batches true h in
  let s := run o (fresh o C) h in
  nbt s = length tb /\
  exists rm rv, rmean s = Some rm /\ rvar s = Some rv /\
    ((1 <= length tb)%nat ->
       Forall2 (fun r a => r == a / qnat (length tb)) rm (vsum C (map batch_means tb)) /\
       Forall2 (fun r a => r == a / qnat (length tb)) rv (vsum C (map unbiased_vars tb))).
Proof.
  intros Hmo Htr Hg. cbn zeta.
  destruct (run_factor o h (fresh o C)) as [A _]. cbn [fresh training] in A.
  destruct (cma_fold o C Hmo Htr _ Hg) as [Hk (rm & rv & Hm & Hv & Fm & Fv)].
  unfold stats in A. inversion A as [[A1 A2 A3]].
  split; [congruence|]. exists rm, rv. split; [congruence|]. split; [congruence|].
  intro H1. split; apply scaled_to_avg; auto.
Qed.

(* ---------------------------------------------------------------- Dropout *)
Lemma dropout_eval p r x : dropout p false r x = x.
Proof. reflexivity. Qed.

Lemma lt1_nonzero p : lt1 p = true -> ~ 1 - p == 0.
Proof.
  unfold lt1. intros H E. apply negb_true_iff in H.
  assert (Qle_bool 1 p = true); [|congruence]. apply Qle_bool_iff. lra.
Qed.

Lemma mask_nth p r i ri :
  nth_error r i = Some ri ->
  exists mi, nth_error (mask_tensor p r) i = Some mi /\
    (lt1 p = true -> mi == (if Qle_bool ri p then 0 else 1) / (1 - p)) /\
    (lt1 p = false -> mi = if Qle_bool ri p then 0 else 1).
Proof.
  intro H. unfold mask_tensor, raw_mask. destruct (lt1 p).
  - rewrite map_map, nth_error_map, H. cbn. eexists; split; [reflexivity|]. split; [reflexivity|discriminate].
  - rewrite nth_error_map, H. cbn. eexists; split; [reflexivity|]. split; [discriminate|reflexivity].
Qed.

(* forward and backward go through the same mask tensor *)
Lemma dropout_same_mask p r x g i xi gi ri :
  nth_error x i = Some xi -> nth_error g i = Some gi -> nth_error r i = Some ri ->
  exists mi, nth_error (mask_tensor p r) i = Some mi /\
    nth_error (dropout p true r x) i = Some (xi * mi) /\
    nth_error (dropout_bwd p r g) i = Some (gi * mi) /\
    (lt1 p = true -> mi == (if Qle_bool ri p then 0 else 1) / (1 - p)) /\
    (lt1 p = false -> mi = if Qle_bool ri p then 0 else 1).
Proof.
  intros Hx Hg Hr. destruct (mask_nth p r i ri Hr) as (mi & Hm & H1 & H2).
  exists mi. split; [exact Hm|]. unfold dropout, dropout_bwd. cbn [negb].
  rewrite (map2_nth_error _ _ _ _ _ _ Hx Hm), (map2_nth_error _ _ _ _ _ _ Hg Hm). auto.
Qed.

Lemma dropout_train p r x i xi ri :
  lt1 p = true -> nth_error x i = Some xi -> nth_error r i = Some ri ->
  exists oi, nth_error (dropout p true r x) i = Some oi /\
    oi == xi * (if Qle_bool ri p then 0 else 1) / (1 - p).
Proof.
  intros Hp Hx Hr. destruct (mask_nth p r i ri Hr) as (mi & Hm & H1 & _).
  unfold dropout. cbn [negb]. rewrite (map2_nth_error _ _ _ _ _ _ Hx Hm).
  eexists; split; [reflexivity|]. rewrite (H1 Hp). pose proof (lt1_nonzero p Hp). field. exact H.
Qed.

Lemma dropout_length p r x : length r = length x -> length (dropout p true r x) = length x.
Proof.
  intro H. unfold dropout. cbn [negb]. rewrite map2_length; auto.
  unfold mask_tensor, raw_mask. destruct (lt1 p); rewrite ?map_length; auto.
Qed.

Lemma dropout_ge1_zero p r x :
  1 <= p -> Forall (fun ri => ri < 1) r -> Forall (fun y => y == 0) (dropout p true r x).
Proof.
  intros Hp Hr. unfold dropout, mask_tensor. cbn [negb].
  assert (L : lt1 p = false). { unfold lt1. apply negb_false_iff, Qle_bool_iff. exact Hp. }
  rewrite L. revert x. induction Hr as [|ri r Hri Hr IH]; intros [|xi x]; cbn; try constructor.
  - assert (E : Qle_bool ri p = true) by (apply Qle_bool_iff; lra). rewrite E. ring.
  - apply IH.
Qed.

Lemma dropout_p0 p r x i xi ri :
  p == 0 -> 0 < ri -> nth_error x i = Some xi -> nth_error r i = Some ri ->
  exists oi, nth_error (dropout p true r x) i = Some oi /\ oi == xi.
Proof.
  intros Hp Hri Hx Hr.
  assert (L : lt1 p = true).
  { unfold lt1. apply negb_true_iff. destruct (Qle_bool 1 p) eqn:E; auto. apply Qle_bool_iff in E. lra. }
  destruct (dropout_train p r x i xi ri L Hx Hr) as (oi & Ho & E). exists oi. split; [exact Ho|].
  rewrite E. assert (K : Qle_bool ri p = false).
  { destruct (Qle_bool ri p) eqn:E2; auto. apply Qle_bool_iff in E2. lra. }
  rewrite K, Hp. field.
Qed.

(* ---- boundary momenta: 0 freezes the running statistics, 1 replaces them by the batch statistics.
   (momentum = Some 0 is NOT momentum = None: the model branches on `is None`, as the code does.) ---- *)
Lemma momentum_boundaries o s x m v f :
  training s = true -> track o = true -> momentum o = Some f ->
  rmean s = Some m -> rvar s = Some v ->
  length m = length x -> length v = length x -> (2 <= nsamp x)%nat ->
  exists rm' rv',
    forward o s x = Done {| rmean := Some rm'; rvar := Some rv'; nbt := S (nbt s); training := true |}
                         (normalise x (batch_means x) (batch_vars x) (eps o)) /\
    forall c xs, nth_error x c = Some xs ->
      (forall old, nth_error m c = Some old ->
         exists new, nth_error rm' c = Some new /\ (f == 0 -> new == old) /\ (f == 1 -> new == mean xs)) /\
      (forall old, nth_error v c = Some old ->
         exists new, nth_error rv' c = Some new /\ (f == 0 -> new == old) /\
                     (f == 1 -> new == var_b xs * (qnat (nsamp x) / (qnat (nsamp x) - 1)))).
Proof.
  intros Ht Htr Hmo Hm Hv Lm Lv Hn.
  destruct (train_updates_once_full o s x m v f Ht Htr Hmo Hm Hv Lm Lv Hn) as (rm' & rv' & Hf & _ & _ & H).
  exists rm', rv'. split; [exact Hf|]. intros c xs Hc. destruct (H c xs Hc) as [A B]. split.
  - intros old Ho. destruct (A old Ho) as (new & Hn' & E). exists new. split; [exact Hn'|].
    split; intro F; rewrite E, F; ring.
  - intros old Ho. destruct (B old Ho) as (new & Hn' & E). exists new. split; [exact Hn'|].
    split; intro F; rewrite E, F; ring.
Qed.
