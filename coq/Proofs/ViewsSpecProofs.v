(* C05 for the view ops: the models accept exactly the legal argument combinations of the (PyTorch) spec and
   produce the spec's shape and index map, for all ranks (incl. 0-d), shapes (incl. zero-size dims) and arguments. *)
From Coq Require Import List Arith ZArith Lia Bool Permutation.
Import ListNotations.
From SG Require Import Base.Sums Base.Cmp NumPy.Gather NumPy.Index NumPy.Tensor NumPy.ViewsAux NumPy.Views NumPy.Indexing NumPy.Spec.
From SG Require Import Proofs.ViewsAuxProofs Proofs.ViewsReshapeProofs Proofs.ViewsPermProofs Proofs.ViewsUnfoldProofs Proofs.ViewsIndexProofs.

(* ------------------------------------------------------------------ dims *)
Lemma wrap_dim_some n z k : wrap_dim n z = Some k ->
  let m := Z.max (Z.of_nat n) 1 in (- m <= z < m)%Z /\ k = Z.to_nat (z mod m).
Proof.
  unfold wrap_dim. cbn zeta. destruct (Z.leb_spec (- Z.max (Z.of_nat n) 1) z); simpl; try discriminate.
  destruct (Z.ltb_spec z (Z.max (Z.of_nat n) 1)); simpl; try discriminate. intros E; inversion E. split; auto.
Qed.

Lemma wrap_dim_none n z : wrap_dim n z = None <->
  let m := Z.max (Z.of_nat n) 1 in ~ (- m <= z < m)%Z.
Proof.
  unfold wrap_dim. cbn zeta. destruct (Z.leb_spec (- Z.max (Z.of_nat n) 1) z); simpl.
  destruct (Z.ltb_spec z (Z.max (Z.of_nat n) 1)); simpl. all: split; try discriminate; try lia; auto.
Qed.

Lemma mod_wrap m z : (0 < m)%Z -> (- m <= z < m)%Z -> (z mod m = if z <? 0 then z + m else z)%Z.
Proof.
  intros Hm Hz. destruct (Z.ltb_spec z 0).
  - rewrite <- (Z_mod_plus_full z 1 m). rewrite Z.mul_1_l. apply Z.mod_small. lia.
  - apply Z.mod_small. lia.
Qed.

Lemma norm_wrap n z : n <> 0 -> norm_axis n z = wrap_dim n z.
Proof.
  intros Hn. unfold norm_axis, wrap_dim. rewrite Z.max_l by lia.
  destruct (Z.leb_spec 0 z); destruct (Z.ltb_spec z (Z.of_nat n)); destruct (Z.ltb_spec z 0);
    destruct (Z.leb_spec (- Z.of_nat n) z); simpl; try lia; auto.
  - rewrite mod_wrap by lia. destruct (Z.ltb_spec z 0); try lia. reflexivity.
  - rewrite mod_wrap by lia. destruct (Z.ltb_spec z 0); try lia. reflexivity.
Qed.

Lemma norm_axis_0d z : norm_axis 0 z = None.
Proof.
  unfold norm_axis. destruct (Z.leb_spec 0 z); destruct (Z.ltb_spec z (Z.of_nat 0)); destruct (Z.ltb_spec z 0);
    destruct (Z.leb_spec (- Z.of_nat 0) z); simpl in *; try lia; auto.
Qed.

Lemma norm_axis_axis_dim n z : norm_axis n z = axis_dim n z.
Proof.
  destruct (Nat.eq_dec n 0) as [->|Hn].
  - rewrite norm_axis_0d. unfold axis_dim. simpl.
    destruct (Z.leb_spec 0 z); destruct (Z.ltb_spec z 0); simpl; auto; lia.
  - unfold norm_axis, axis_dim.
    destruct (Z.leb_spec 0 z); destruct (Z.ltb_spec z (Z.of_nat n)); destruct (Z.ltb_spec z 0);
      destruct (Z.leb_spec (- Z.of_nat n) z); simpl; try lia; auto.
    + rewrite mod_wrap by lia. destruct (Z.ltb_spec z 0); try lia. reflexivity.
    + rewrite mod_wrap by lia. destruct (Z.ltb_spec z 0); try lia. reflexivity.
Qed.

Lemma norm_max_wrap n z : norm_axis (Nat.max n 1) z = wrap_dim n z.
Proof.
  rewrite norm_axis_axis_dim. unfold axis_dim, wrap_dim. now rewrite Nat2Z.inj_max.
Qed.

(* ------------------------------------------------------------------ reshape *)
Lemma known_known_prod t : Z.of_nat (known t) = known_prod t.
Proof.
  unfold known, known_prod. induction t as [|z t IH]; simpl; auto.
  destruct (Z.leb_spec 0 z); simpl; auto. rewrite Nat2Z.inj_mul, Z2Nat.id by lia. now rewrite IH.
Qed.

Theorem reshape_accepts_iff_legal sh t : fwd_reshape sh t <> None <-> legal_reshape sh t.
Proof.
  unfold fwd_reshape, np_reshape, legal_reshape, infer_shape, unknowns. fold (negs t) (known t).
  pose proof (known_known_prod t) as K.
  destruct (negs t) as [|[|k]]; simpl.
  - destruct (Nat.eqb_spec (known t) (size sh)) as [E|E]; simpl.
    + split. intros _. lia. intros _. discriminate.
    + split. intros X. contradiction. intros X. lia.
  - destruct (Nat.eqb_spec (known t) 0) as [E0|E0]; simpl.
    + split. contradiction. intros [X _]. lia.
    + destruct (Nat.eqb_spec (size sh mod known t) 0) as [E1|E1]; simpl.
      * split. intros _. split. lia. rewrite <- K, <- Nat2Z.inj_mod. lia. intros _. discriminate.
      * split. contradiction. intros [_ X]. rewrite <- K, <- Nat2Z.inj_mod in X. lia.
  - split. contradiction. intros [].
Qed.

Theorem reshape_matches_spec sh t op : fwd_reshape sh t = Some op -> spec_reshape sh t op.
Proof.
  intros E. apply np_reshape_some in E as (out & Ei & -> & Es).
  apply infer_shape_spec in Ei as (Eo & _ & _).
  unfold spec_reshape; cbn [g_in g_out reshape_op]. split; auto. split. subst out. now rewrite map_length.
  split; [|split; auto].
  - intros k Hk Hz. subst out.
    rewrite (nth_indep _ 0 (fillq (size sh / known t) 0%Z)) by (now rewrite map_length).
    rewrite map_nth. unfold fillq. destruct (Z.ltb_spec (nth k t 0%Z) 0); lia.
  - apply reshape_op_order_preserving. auto.
Qed.

(* ------------------------------------------------------------------ flatten *)
Lemma flatten_target_spec sh s e t :
  flatten_target sh s e = Some t ->
  exists s' e', wrap_dim (length sh) s = Some s' /\ wrap_dim (length sh) e = Some e' /\ s' <= e' /\
    t = map Z.of_nat (spec_flatten_shape sh s' e').
Proof.
  unfold flatten_target, wrap_dim.
  assert (Em : Z.of_nat (if length sh =? 0 then 1 else length sh) = Z.max (Z.of_nat (length sh)) 1).
  { destruct (Nat.eqb_spec (length sh) 0) as [->|]; lia. }
  rewrite Em. set (m := Z.max (Z.of_nat (length sh)) 1). assert (Hm : (0 < m)%Z) by (unfold m; lia).
  destruct (Z.leb_spec (- m) s); destruct (Z.ltb_spec s m); destruct (Z.leb_spec (- m) e); destruct (Z.ltb_spec e m);
    simpl; try discriminate.
  rewrite <- !mod_wrap by lia.
  destruct (Z.ltb_spec (e mod m) (s mod m)); try discriminate.
  pose proof (Z.mod_pos_bound s m Hm). pose proof (Z.mod_pos_bound e m Hm).
  intros E. exists (Z.to_nat (s mod m)), (Z.to_nat (e mod m)). repeat split; auto. lia.
  injection E as <-. unfold spec_flatten_shape.
  replace (Z.to_nat (e mod m) + 1 - Z.to_nat (s mod m)) with (Z.to_nat (e mod m) - Z.to_nat (s mod m) + 1) by lia. reflexivity.
Qed.

Lemma flatten_target_legal sh s e s' e' :
  wrap_dim (length sh) s = Some s' -> wrap_dim (length sh) e = Some e' -> s' <= e' ->
  flatten_target sh s e <> None.
Proof.
  intros Ws We Hle. apply wrap_dim_some in Ws as [Rs ->]. apply wrap_dim_some in We as [Re ->]. cbn zeta in *.
  unfold flatten_target.
  assert (Em : Z.of_nat (if length sh =? 0 then 1 else length sh) = Z.max (Z.of_nat (length sh)) 1).
  { destruct (Nat.eqb_spec (length sh) 0) as [->|]; lia. }
  rewrite Em. set (m := Z.max (Z.of_nat (length sh)) 1) in *. assert (Hm : (0 < m)%Z) by (unfold m; lia).
  destruct (Z.leb_spec (- m) s); destruct (Z.ltb_spec s m); destruct (Z.leb_spec (- m) e); destruct (Z.ltb_spec e m);
    simpl; try lia.
  rewrite <- !mod_wrap by lia.
  pose proof (Z.mod_pos_bound s m Hm). pose proof (Z.mod_pos_bound e m Hm).
  destruct (Z.ltb_spec (e mod m) (s mod m)); try lia. discriminate.
Qed.

Lemma size_firstn_skipn sh a : size sh = size (firstn a sh) * size (skipn a sh).
Proof. rewrite <- (firstn_skipn a sh) at 1. apply size_app. Qed.

Lemma skipn_add {X} a : forall b (l : list X), skipn a (skipn b l) = skipn (b + a) l.
Proof.
  induction b as [|b IH]; intros l; simpl; auto.
  destruct l as [|x l]. now rewrite skipn_nil. apply IH.
Qed.

(* merging a run of dims keeps the number of elements (whatever the dims, zero-size included; also for 0-d) *)
Lemma size_spec_flatten_shape sh s' e' : s' <= e' -> size (spec_flatten_shape sh s' e') = size sh.
Proof.
  intros Hle. unfold spec_flatten_shape. rewrite !size_app.
  rewrite (size_firstn_skipn sh s'). rewrite (size_firstn_skipn (skipn s' sh) (e' - s' + 1)).
  rewrite skipn_add. replace (s' + (e' - s' + 1)) with (e' + 1) by lia.
  change (size [size (firstn (e' - s' + 1) (skipn s' sh))]) with (size (firstn (e' - s' + 1) (skipn s' sh)) * 1). lia.
Qed.

Lemma wrap_dim_0d z k : wrap_dim 0 z = Some k -> k = 0.
Proof. intros E. apply wrap_dim_some in E as [_ ->]. cbn. now rewrite Z.mod_1_r. Qed.

Theorem flatten_accepts_iff_legal sh s e : fwd_flatten sh s e <> None <-> legal_flatten sh s e.
Proof.
  unfold fwd_flatten, legal_flatten. split.
  - destruct (flatten_target sh s e) as [t|] eqn:Et; try contradiction. intros _.
    apply flatten_target_spec in Et as (s' & e' & Ws & We & Hle & _). exists s', e'. auto.
  - intros (s' & e' & Ws & We & Hle).
    destruct (flatten_target sh s e) as [t|] eqn:Et.
    2:{ exfalso. apply (flatten_target_legal sh s e s' e' Ws We Hle Et). }
    apply flatten_target_spec in Et as (s1 & e1 & Ws1 & We1 & Hle1 & ->).
    unfold np_reshape. rewrite infer_shape_of_nat by (now apply size_spec_flatten_shape). discriminate.
Qed.

Theorem flatten_matches_spec sh s e op : fwd_flatten sh s e = Some op -> spec_flatten sh s e op.
Proof.
  unfold fwd_flatten. destruct (flatten_target sh s e) as [t|] eqn:Et; try discriminate.
  apply flatten_target_spec in Et as (s' & e' & Ws & We & Hle & ->). intros E.
  unfold np_reshape in E. rewrite infer_shape_of_nat in E by (now apply size_spec_flatten_shape).
  injection E as <-. exists s', e'. cbn [g_in g_out reshape_op]. repeat split; auto.
  apply reshape_op_order_preserving. symmetry. now apply size_spec_flatten_shape.
Qed.

(* ------------------------------------------------------------------ movedim / transpose *)
Theorem movedim_accepts_iff_legal sh s d : fwd_movedim sh s d <> None <-> legal_movedim sh s d.
Proof.
  unfold fwd_movedim, np_moveaxis, legal_movedim. rewrite !norm_axis_axis_dim.
  destruct (axis_dim (length sh) s); destruct (axis_dim (length sh) d); split; try discriminate; try tauto.
  all: intros _; split; discriminate.
Qed.

Theorem movedim_matches_spec sh s d op : fwd_movedim sh s d = Some op -> spec_movedim sh s d op.
Proof.
  unfold fwd_movedim. intros F. apply np_moveaxis_some in F as (s' & d' & Es & Ed & Hs & Hd & ->).
  rewrite norm_axis_axis_dim in Es, Ed.
  exists s', d', (mv s' d'). split; auto. split; auto. split; auto. split.
  - apply (perm_op_permutes (length sh) (mv s' d') (mv d' s')); auto; intros; try apply mv_lt; try apply (mv_mv (length sh)); auto.
  - unfold mv. split; [|split].
    + now rewrite Nat.eqb_refl.
    + intros k Hk Hne. casesb; lia.
    + intros k k' H1 H2 H3 H4. casesb; lia.
Qed.

Theorem transpose_accepts_iff_legal sh a b : fwd_transpose sh a b <> None <-> legal_transpose sh a b.
Proof.
  unfold fwd_transpose, np_swapaxes, legal_transpose. rewrite !norm_axis_axis_dim.
  destruct (axis_dim (length sh) a); destruct (axis_dim (length sh) b); split; try discriminate; try tauto.
  all: intros _; split; discriminate.
Qed.

Lemma permutes_ext op sigma sigma' : (forall k, sigma k = sigma' k) -> permutes op sigma -> permutes op sigma'.
Proof.
  intros E (P1 & P2 & P3). unfold permutes. split; auto. split.
  - intros k Hk. rewrite <- E. auto.
  - intros j Hj. destruct (P3 j Hj) as (i & E1 & E2 & E3). exists i. split; auto. split; auto.
    intros k Hk. rewrite <- E. auto.
Qed.

Theorem transpose_matches_spec sh a b op : fwd_transpose sh a b = Some op -> spec_transpose sh a b op.
Proof.
  unfold fwd_transpose. intros F. apply np_swapaxes_some in F as (a' & b' & Ea & Eb & Ha & Hb & ->).
  rewrite norm_axis_axis_dim in Ea, Eb.
  exists a', b'. split; auto. split; auto. split; auto.
  apply (permutes_ext _ (sw a' b')).
  - intros k. unfold sw. destruct (Nat.eqb_spec k b'), (Nat.eqb_spec k a'); subst; auto.
  - apply (perm_op_permutes (length sh) (sw a' b') (sw a' b')); auto; intros; try apply sw_lt; try apply sw_sw; auto.
Qed.

(* ------------------------------------------------------------------ unfold *)
Lemma unfold_args_accepts sh dimension size step :
  unfold_args sh dimension size step <> None <->
  exists d, norm_axis (length sh) dimension = Some d /\ (0 < size)%Z /\ (0 < step)%Z /\ (size <= Z.of_nat (nth d sh 0%nat))%Z.
Proof.
  split.
  - destruct (unfold_args sh dimension size step) as [[[d sz] st]|] eqn:Ua; try contradiction. intros _.
    apply unfold_args_some in Ua as (N & _ & Hsz & Hst & Hle & E1 & E2). exists d. repeat split; auto; lia.
  - intros (d & N & Hsz & Hst & Hle). unfold unfold_args. unfold norm_axis in N. set (n := Z.of_nat (length sh)) in *.
    destruct (Z.leb_spec 0 dimension); destruct (Z.ltb_spec dimension n); destruct (Z.ltb_spec dimension 0);
      destruct (Z.leb_spec (- n) dimension); simpl in N; try discriminate; try lia; injection N as <-.
    + destruct (Z.geb_spec dimension n); try lia. simpl.
      destruct (Z.leb_spec size 0); try lia. destruct (Z.leb_spec step 0); try lia.
      destruct (Z.ltb_spec (Z.of_nat (nth (Z.to_nat dimension) sh 0%nat)) size); try lia. destruct (Z.ltb_spec dimension (- n)); try lia. discriminate.
    + destruct (Z.geb_spec dimension n); try lia. simpl.
      destruct (Z.leb_spec size 0); try lia. destruct (Z.leb_spec step 0); try lia.
      destruct (Z.ltb_spec (Z.of_nat (nth (Z.to_nat (dimension + n)) sh 0%nat)) size); try lia. destruct (Z.ltb_spec dimension (- n)); try lia. discriminate.
Qed.

Theorem unfold_accepts_iff_legal sh dimension size step :
  fwd_unfold_dim sh dimension size step <> None <-> legal_unfold sh dimension size step.
Proof.
  transitivity (unfold_args sh dimension size step <> None).
  { unfold fwd_unfold_dim. destruct (unfold_args sh dimension size step) as [[[d sz] st]|]; split; auto; discriminate. }
  rewrite unfold_args_accepts. unfold legal_unfold. now rewrite <- norm_axis_axis_dim.
Qed.

Theorem unfold_matches_spec sh dimension size step op :
  fwd_unfold_dim sh dimension size step = Some op -> spec_unfold sh dimension size step op.
Proof.
  intros F. destruct (fwd_unfold_closed _ _ _ _ _ F) as (d & sz & st & pre & L & post & Ua & Esh & Lp & Hsz & Hst & Hle & Ei & Eo & Phi).
  apply unfold_args_some in Ua as (N & Hd & _ & _ & _ & E1 & E2).
  rewrite norm_axis_axis_dim in N.
  exists d, pre, L, post. subst size step. rewrite !Nat2Z.id. repeat split; auto.
Qed.

(* ------------------------------------------------------------------ masks vs. selected positions *)
Definition sel_from {X} (a : nat) (keep : nat -> bool) (l : list X) : list X :=
  map snd (filter (fun p => keep (fst p)) (combine (seq a (length l)) l)).

Lemma sel_from_ext {X} a keep keep' (l : list X) :
  (forall k, a <= k < a + length l -> keep k = keep' k) -> sel_from a keep l = sel_from a keep' l.
Proof.
  intros E. unfold sel_from. f_equal. apply filter_ext_in. intros [k x] Hin. simpl.
  apply in_combine_l in Hin. apply in_seq in Hin. now apply E.
Qed.

Lemma sel_from_cons {X} a keep (x : X) l :
  sel_from a keep (x :: l) = if keep a then x :: sel_from (S a) keep l else sel_from (S a) keep l.
Proof. unfold sel_from. cbn [length seq combine filter fst]. destruct (keep a); reflexivity. Qed.

Lemma drop_mask_sel {X} mask : forall (l : list X) a, length mask = length l ->
  drop_mask mask l = sel_from a (fun k => negb (nth (k - a) mask false)) l.
Proof.
  induction mask as [|b m IH]; intros [|x l] a HL; simpl in HL; try discriminate; auto.
  rewrite sel_from_cons.
  assert (R : sel_from (S a) (fun k => negb (nth (k - a) (b :: m) false)) l = drop_mask m l).
  { rewrite (IH l (S a)) by lia. apply sel_from_ext. intros k Hk.
    replace (k - a) with (S (k - S a)) by lia. reflexivity. }
  rewrite R. rewrite Nat.sub_diag. destruct b; reflexivity.
Qed.

Lemma select_positions_sel {X} keep (l : list X) : select_positions keep l = sel_from 0 keep l.
Proof. reflexivity. Qed.

Lemma select_positions_ext {X} keep keep' (l : list X) :
  (forall k, k < length l -> keep k = keep' k) -> select_positions keep l = select_positions keep' l.
Proof. intros E. rewrite !select_positions_sel. apply sel_from_ext. intros k Hk. apply E. lia. Qed.

Lemma drop_mask_select {X} mask (l : list X) : length mask = length l ->
  drop_mask mask l = select_positions (fun k => negb (nth k mask false)) l.
Proof.
  intros HL. rewrite (drop_mask_sel mask l 0 HL). rewrite select_positions_sel. apply sel_from_ext.
  intros k Hk. now rewrite Nat.sub_0_r.
Qed.

Lemma sel_from_all {X} a keep (l : list X) : (forall k, a <= k < a + length l -> keep k = true) -> sel_from a keep l = l.
Proof.
  revert a. induction l as [|x l IH]; intros a E. reflexivity.
  rewrite sel_from_cons. rewrite (E a) by (simpl; lia). f_equal.
  apply IH. intros k Hk. apply E. simpl. lia.
Qed.

Lemma select_positions_all {X} keep (l : list X) : (forall k, k < length l -> keep k = true) -> select_positions keep l = l.
Proof. intros E. rewrite select_positions_sel. apply sel_from_all. intros k Hk. apply E. lia. Qed.

(* ------------------------------------------------------------------ squeeze *)
Lemma norm_axes_map n l ks : norm_axes n l = Some ks -> forall k, In k ks <-> exists z, In z l /\ norm_axis n z = Some k.
Proof.
  revert ks. induction l as [|z l IH]; intros ks E k; simpl in E.
  - inversion E; subst. simpl. split. tauto. intros (z & [] & _).
  - destruct (norm_axis n z) as [k0|] eqn:Ez; try discriminate.
    destruct (norm_axes n l) as [r|] eqn:El; try discriminate. inversion E; subst. simpl. rewrite (IH r eq_refl). split.
    + intros [<-|(z' & Hz & Ez')]. exists z. auto. exists z'. auto.
    + intros (z' & [<-|Hz] & Ez'). left. congruence. right. eauto.
Qed.

Lemma bool_eq_iff (a b : bool) : (a = true <-> b = true) -> a = b.
Proof. destruct a, b; intuition congruence. Qed.

Lemma np_squeeze_some_shape sh l op ks :
  np_squeeze sh (Some l) = Some op -> norm_axes (length sh) l = Some ks ->
  g_out op = select_positions (fun k => negb (memb k ks)) sh.
Proof.
  unfold np_squeeze. intros E N. rewrite N in E.
  destruct (nodupb ks); simpl in E; try discriminate.
  destruct (forallb (fun k => nth k sh 0 =? 1) ks); simpl in E; try discriminate.
  inversion E; subst; clear E. cbn [g_out]. rewrite drop_mask_select by (now rewrite mask_of_length).
  apply select_positions_ext. intros k Hk. now rewrite mask_of_nth.
Qed.

Lemma norm_axes_all_some n l : (forall z, In z l -> norm_axis n z <> None) -> exists ks, norm_axes n l = Some ks.
Proof.
  intros H. destruct (norm_axes n l) as [ks|] eqn:E. eauto.
  apply norm_axes_none in E as (z & Hz & Ez). exfalso. now apply (H z).
Qed.

Lemma norm_axes_map_some n : forall l ks, norm_axes n l = Some ks -> map (norm_axis n) l = map Some ks.
Proof.
  induction l as [|z l IH]; intros ks E; simpl in E.
  - inversion E; subst. reflexivity.
  - destruct (norm_axis n z) as [k|] eqn:Ez; try discriminate.
    destruct (norm_axes n l) as [r|] eqn:El; try discriminate. inversion E; subst. simpl. rewrite Ez. f_equal. auto.
Qed.

Lemma norm_axis_of_nat n k : k < n -> norm_axis n (Z.of_nat k) = Some k.
Proof.
  intros Hk. unfold norm_axis.
  assert (E : (0 <=? Z.of_nat k)%Z && (Z.of_nat k <? Z.of_nat n)%Z = true)
    by (apply andb_true_iff; split; [apply Z.leb_le|apply Z.ltb_lt]; lia).
  rewrite E. now rewrite Nat2Z.id.
Qed.

Lemma norm_axes_of_nat n ks : (forall k, In k ks -> k < n) -> norm_axes n (map Z.of_nat ks) = Some ks.
Proof.
  induction ks as [|k ks IH]; intros H; simpl; auto.
  rewrite norm_axis_of_nat by (apply H; now left). rewrite IH; auto. intros k' Hk'. apply H. now right.
Qed.

Lemma sq_axes_dims arg : sq_axes arg = sq_dims arg.
Proof. destruct arg; reflexivity. Qed.

(* the dims named by the argument are the normalised ones *)
Lemma sq_selected_iff n arg l ks k :
  sq_dims arg = Some l -> norm_axes (Nat.max n 1) l = Some ks -> (sq_selected n arg k = true <-> In k ks).
Proof.
  intros Ed En. unfold sq_selected. rewrite Ed. rewrite (norm_axes_map _ _ _ En), existsb_exists. split.
  - intros (z & Hz & E). exists z. split; auto. rewrite norm_max_wrap.
    destruct (wrap_dim n z) as [k'|]; try discriminate. apply Nat.eqb_eq in E. now subst.
  - intros (z & Hz & E). exists z. split; auto. rewrite norm_max_wrap in E. rewrite E. apply Nat.eqb_refl.
Qed.

Lemma NoDup_filter_sub {X} (P : X -> bool) l : NoDup l -> NoDup (filter P l).
Proof. apply NoDup_filter. Qed.

(* squeezing the selected size-1 axes is always possible once the dims are validated *)
Lemma np_squeeze_filtered sh ks :
  NoDup ks ->
  let ks' := filter (fun k => (0 <? length sh) && (nth k sh 0 =? 1)) ks in
  (forall k, In k ks -> k < Nat.max (length sh) 1) ->
  norm_axes (length sh) (map Z.of_nat ks') = Some ks' /\ np_squeeze sh (Some (map Z.of_nat ks')) <> None.
Proof.
  intros ND ks' B.
  assert (B' : forall k, In k ks' -> k < length sh /\ nth k sh 0 = 1).
  { intros k Hk. apply filter_In in Hk as [Hk P]. apply andb_true_iff in P as [P1 P2].
    apply Nat.ltb_lt in P1. apply Nat.eqb_eq in P2. specialize (B k Hk). split; auto. lia. }
  assert (N : norm_axes (length sh) (map Z.of_nat ks') = Some ks') by (apply norm_axes_of_nat; intros k Hk; now apply B').
  split; auto. unfold np_squeeze. rewrite N.
  assert (Nd : nodupb ks' = true) by (apply nodupb_NoDup; now apply NoDup_filter).
  assert (Fa : forallb (fun k => nth k sh 0 =? 1) ks' = true).
  { apply forallb_forall. intros k Hk. apply Nat.eqb_eq. now apply B'. }
  rewrite Nd, Fa. discriminate.
Qed.

Theorem squeeze_accepts_iff_legal sh arg : fwd_squeeze sh arg <> None <-> legal_squeeze sh arg.
Proof.
  unfold fwd_squeeze, legal_squeeze. rewrite sq_axes_dims. destruct (sq_dims arg) as [l|].
  2:{ split; auto. intros _. unfold np_squeeze. discriminate. }
  set (m := Nat.max (length sh) 1).
  assert (Ew : map (wrap_dim (length sh)) l = map (norm_axis m) l).
  { apply map_ext. intros z. symmetry. apply norm_max_wrap. }
  split.
  - destruct (norm_axes m l) as [ks|] eqn:En; try contradiction.
    destruct (nodupb ks) eqn:Nd; cbn [negb]; try contradiction. intros _. split.
    + intros z Hz. rewrite <- norm_max_wrap. fold m. now apply (norm_axes_spec _ _ _ En).
    + rewrite Ew, (norm_axes_map_some _ _ _ En). apply NoDup_map_inj. intros a b E; now inversion E. now apply nodupb_NoDup.
  - intros [R ND]. destruct (norm_axes_all_some m l) as (ks & En).
    { intros z Hz. unfold m. rewrite norm_max_wrap. now apply R. }
    rewrite En. rewrite Ew, (norm_axes_map_some _ _ _ En) in ND. apply NoDup_map_inv in ND.
    assert (Nd : nodupb ks = true) by now apply nodupb_NoDup. rewrite Nd. cbn [negb].
    destruct (np_squeeze_filtered sh ks ND) as [_ A]. { apply (norm_axes_spec _ _ _ En). }
    destruct (filter _ ks); auto. discriminate.
Qed.

Theorem squeeze_matches_spec sh arg op : fwd_squeeze sh arg = Some op -> spec_squeeze sh arg op.
Proof.
  intros F. destruct (fwd_squeeze_order_preserving _ _ _ F) as (Ei & OP & _).
  unfold spec_squeeze. split; auto. split; auto. unfold spec_squeeze_shape.
  unfold fwd_squeeze in F. rewrite sq_axes_dims in F. destruct (sq_dims arg) as [l|] eqn:Ed.
  - set (m := Nat.max (length sh) 1) in *.
    destruct (norm_axes m l) as [ks|] eqn:En; try discriminate.
    destruct (nodupb ks) eqn:Nd; cbn [negb] in F; try discriminate. apply nodupb_NoDup in Nd.
    destruct (np_squeeze_filtered sh ks Nd) as [N _]. { apply (norm_axes_spec _ _ _ En). }
    set (ks' := filter (fun k => (0 <? length sh) && (nth k sh 0 =? 1)) ks) in *.
    assert (Key : forall k, k < length sh ->
              (In k ks' <-> sq_selected (length sh) arg k && (nth k sh 0 =? 1) = true)).
    { intros k Hk. unfold ks'. rewrite filter_In, andb_true_iff, andb_true_iff, (sq_selected_iff _ _ _ _ k Ed En).
      assert (P : (0 <? length sh) = true) by (apply Nat.ltb_lt; lia). rewrite P. tauto. }
    destruct ks' as [|k0 r] eqn:Ek.
    + injection F as <-. cbn [g_out id_op]. symmetry. apply select_positions_all. intros k Hk.
      destruct (sq_selected (length sh) arg k && (nth k sh 0 =? 1)) eqn:X; auto.
      apply Key in X; [destruct X|auto].
    + rewrite <- Ek in *. rewrite (np_squeeze_some_shape sh _ op ks' F N).
      apply select_positions_ext. intros k Hk. f_equal. apply bool_eq_iff. rewrite memb_In. now apply Key.
  - unfold np_squeeze in F. injection F as <-. cbn [g_out].
    rewrite drop_mask_select by (now rewrite map_length). apply select_positions_ext.
    intros k Hk. unfold sq_selected. rewrite Ed. cbn [andb]. f_equal.
    change false with ((fun d => d =? 1) 0). now rewrite map_nth.
Qed.

(* ------------------------------------------------------------------ unsqueeze *)
Lemma norm_axis_in_range m z : m <> 0 ->
  (norm_axis m z <> None <-> (- Z.of_nat m <= z < Z.of_nat m)%Z).
Proof.
  intros Hm. rewrite norm_wrap by auto. split.
  - intros Hn. destruct (wrap_dim m z) as [k|] eqn:E; try contradiction. apply wrap_dim_some in E as [R _]. cbn zeta in R. lia.
  - intros R E. apply wrap_dim_none in E. cbn zeta in E. lia.
Qed.

Lemma norm_axis_val m z k : norm_axis m z = Some k -> k = Z.to_nat (z mod Z.of_nat m).
Proof.
  intros E. assert (Hm : m <> 0). { intro; subst. rewrite norm_axis_0d in E. discriminate. }
  rewrite norm_wrap in E by auto. apply wrap_dim_some in E as [_ ->]. cbn zeta. f_equal. f_equal. lia.
Qed.

Lemma norm_axes_vals m : forall l ks, norm_axes m l = Some ks -> ks = map (fun z => Z.to_nat (z mod Z.of_nat m)) l.
Proof.
  induction l as [|z l IH]; intros ks E; simpl in E.
  - now inversion E.
  - destruct (norm_axis m z) as [k|] eqn:Ez; try discriminate.
    destruct (norm_axes m l) as [r|] eqn:El; try discriminate. inversion E; subst. simpl. f_equal.
    now apply norm_axis_val. auto.
Qed.

Lemma NoDup_to_nat_mod m l : (0 < m)%Z ->
  (NoDup (map (fun z => Z.to_nat (z mod m)) l) <-> NoDup (map (fun z => (z mod m)%Z) l)).
Proof.
  intros Hm. induction l as [|z l IH]; simpl. split; constructor.
  split; intros ND; inversion ND; subst; constructor; try (now apply IH).
  - intro Hc. apply H1. apply in_map_iff in Hc as (x & E & Hx). apply in_map_iff. exists x. split; auto. now rewrite E.
  - intro Hc. apply H1. apply in_map_iff in Hc as (x & E & Hx). apply in_map_iff. exists x. split; auto.
    pose proof (Z.mod_pos_bound x m Hm). pose proof (Z.mod_pos_bound z m Hm). lia.
Qed.

Theorem unsqueeze_accepts_iff_legal sh arg : fwd_unsqueeze sh arg <> None <-> legal_unsqueeze sh arg.
Proof.
  unfold fwd_unsqueeze, np_expand_dims, legal_unsqueeze. generalize (unsq_axes arg). intros l.
  replace (Z.of_nat (length sh + length l)) with (Z.of_nat (length l + length sh)) by lia.
  set (m := length l + length sh).
  destruct (Nat.eq_dec (length l) 0) as [El|El].
  { destruct l; try discriminate. simpl. split. intros _. split. intros z []. constructor. intros _. discriminate. }
  assert (Hm : m <> 0) by (unfold m; lia).
  split.
  - destruct (norm_axes m l) as [ks|] eqn:En; try contradiction.
    destruct (nodupb ks) eqn:Nd; simpl; try contradiction. intros _.
    destruct (norm_axes_spec _ _ _ En) as (_ & _ & _ & Hr). split.
    + intros z Hz. apply norm_axis_in_range; auto.
    + apply nodupb_NoDup in Nd. rewrite (norm_axes_vals _ _ _ En) in Nd. apply NoDup_to_nat_mod in Nd; auto. lia.
  - intros [R ND]. destruct (norm_axes_all_some m l) as (ks & En).
    { intros z Hz. apply norm_axis_in_range; auto. }
    rewrite En. assert (Nd : nodupb ks = true).
    { apply nodupb_NoDup. rewrite (norm_axes_vals _ _ _ En). apply NoDup_to_nat_mod; auto. lia. }
    rewrite Nd. discriminate.
Qed.

Theorem unsqueeze_matches_spec sh arg op : fwd_unsqueeze sh arg = Some op -> spec_unsqueeze sh arg op.
Proof.
  unfold fwd_unsqueeze, spec_unsqueeze. set (l := unsq_axes arg). intros F.
  apply np_expand_dims_some in F as (ks & En & ND & -> & Cf). cbn [g_in g_out reshape_op].
  replace (length sh + length l) with (length l + length sh) by lia.
  set (m := length l + length sh) in *. set (mask := mask_of m ks) in *. set (out := fill_mask mask 1 sh).
  destruct (fill_mask_fits mask sh Cf) as [Fit Drop]. fold out in Fit, Drop.
  assert (Lo : length out = m). { apply sq_fits_length in Fit. unfold mask in Fit. now rewrite mask_of_length in Fit. }
  assert (Np : forall k, k < m -> existsb (fun z => (z mod Z.of_nat m =? Z.of_nat k)%Z) l = nth k mask false).
  { intros k Hk. unfold mask. rewrite mask_of_nth by auto. apply bool_eq_iff.
    rewrite memb_In, (norm_axes_map _ _ _ En), existsb_exists. split.
    - intros (z & Hz & E). apply Z.eqb_eq in E. exists z. split; auto.
      destruct (norm_axis m z) as [k'|] eqn:Ez.
      + apply norm_axis_val in Ez. subst k'. f_equal. lia.
      + exfalso. apply (norm_axes_spec _ _ _ En) in Hz. contradiction.
    - intros (z & Hz & Ez). exists z. split; auto. apply norm_axis_val in Ez. apply Z.eqb_eq.
      assert (0 < Z.of_nat m)%Z by lia. pose proof (Z.mod_pos_bound z (Z.of_nat m) H). lia. }
  split; auto. split; auto. split; [|split].
  - intros k Hk E. rewrite Np in E by auto. now apply (sq_fits_nth mask).
  - transitivity (drop_mask mask out); [|exact Drop].
    rewrite drop_mask_select by (unfold mask; now rewrite mask_of_length, Lo).
    apply select_positions_ext. intros k Hk. rewrite Lo in Hk. now rewrite Np.
  - apply reshape_op_order_preserving.
    transitivity (size (drop_mask mask out)). now rewrite Drop. now apply size_drop_mask.
Qed.
