(* C05 for the view ops: the models accept exactly the legal argument combinations of the (PyTorch) spec and
   produce the spec's shape and index map.  Where the faithful model deviates (0-d tensors, zero-size dims,
   NumPy's "any negative entry is the unknown dimension", duplicates that squeeze does not notice) the
   restricted statement is proved and the deviation is exhibited (`..._refuted`).                          *)
From Coq Require Import List Arith ZArith Lia Bool Permutation.
Import ListNotations.
From SG Require Import Base.Sums Base.Cmp NumPy.Gather NumPy.Index NumPy.Tensor NumPy.ViewsAux NumPy.Views NumPy.Indexing NumPy.Spec.
From SG Require Import Proofs.ViewsAuxProofs Proofs.ViewsReshapeProofs Proofs.ViewsPermProofs Proofs.ViewsUnfoldProofs Proofs.ViewsIndexProofs.

(* ------------------------------------------------------------------ dims *)
Lemma wrap_dim_some n z k : wrap_dim n z = Some k ->
  let m := Z.max (Z.of_nat n) 1 in (- m <= z < m)%Z /\ k = Z.to_nat (z mod m).
Proof.
  unfold wrap_dim. cbn zeta. destruct (Z.leb_spec (- Z.max (Z.of_nat n) 1) z); simpl; try discriminate.
  destruct (Z.ltb_spec z (Z.max (Z.of_nat n) 1)); simpl; try discriminate. intros E; inversion E. split; auto.
Qed.

Lemma wrap_dim_none n z : wrap_dim n z = None <->
  let m := Z.max (Z.of_nat n) 1 in ~ (- m <= z < m)%Z.
Proof.
  unfold wrap_dim. cbn zeta. destruct (Z.leb_spec (- Z.max (Z.of_nat n) 1) z); simpl.
  destruct (Z.ltb_spec z (Z.max (Z.of_nat n) 1)); simpl. all: split; try discriminate; try lia; auto.
Qed.

Lemma mod_wrap m z : (0 < m)%Z -> (- m <= z < m)%Z -> (z mod m = if z <? 0 then z + m else z)%Z.
Proof.
  intros Hm Hz. destruct (Z.ltb_spec z 0).
  - rewrite <- (Z_mod_plus_full z 1 m). rewrite Z.mul_1_l. apply Z.mod_small. lia.
  - apply Z.mod_small. lia.
Qed.

Lemma norm_wrap n z : n <> 0 -> norm_axis n z = wrap_dim n z.
Proof.
  intros Hn. unfold norm_axis, wrap_dim. rewrite Z.max_l by lia.
  destruct (Z.leb_spec 0 z); destruct (Z.ltb_spec z (Z.of_nat n)); destruct (Z.ltb_spec z 0);
    destruct (Z.leb_spec (- Z.of_nat n) z); simpl; try lia; auto.
  - rewrite mod_wrap by lia. destruct (Z.ltb_spec z 0); try lia. reflexivity.
  - rewrite mod_wrap by lia. destruct (Z.ltb_spec z 0); try lia. reflexivity.
Qed.

Lemma norm_axis_0d z : norm_axis 0 z = None.
Proof.
  unfold norm_axis. destruct (Z.leb_spec 0 z); destruct (Z.ltb_spec z (Z.of_nat 0)); destruct (Z.ltb_spec z 0);
    destruct (Z.leb_spec (- Z.of_nat 0) z); simpl in *; try lia; auto.
Qed.

(* ------------------------------------------------------------------ reshape *)
Lemma count_negs t : Forall (fun z => (-1 <= z)%Z) t -> negs t = count_occ Z.eq_dec t (-1)%Z.
Proof.
  unfold negs. induction 1 as [|z t Hz F IH]; simpl; auto.
  destruct (Z.ltb_spec z 0); destruct (Z.eq_dec z (-1)); simpl; try lia.
Qed.

Lemma known_known_prod t : Forall (fun z => (-1 <= z)%Z) t -> Z.of_nat (known t) = known_prod t.
Proof.
  unfold known, known_prod. induction 1 as [|z t Hz F IH]; simpl; auto.
  destruct (Z.leb_spec 0 z); destruct (Z.eqb_spec z (-1)); simpl; try lia.
Qed.

Theorem reshape_accepts_iff_legal_partial sh t :
  Forall (fun z => (-1 <= z)%Z) t -> (fwd_reshape sh t <> None <-> legal_reshape sh t).
Proof.
  intros F. unfold fwd_reshape, np_reshape, legal_reshape, infer_shape. fold (negs t) (known t).
  rewrite <- (count_negs t F). pose proof (known_known_prod t F) as K.
  destruct (negs t) as [|[|k]]; simpl.
  - destruct (Nat.eqb_spec (known t) (size sh)) as [E|E]; simpl.
    + split. intros _. split; auto. lia. intros _. discriminate.
    + split. intros X. contradiction. intros [_ X]. lia.
  - destruct (Nat.eqb_spec (known t) 0) as [E0|E0]; simpl.
    + split. contradiction. intros [_ [X _]]. lia.
    + destruct (Nat.eqb_spec (size sh mod known t) 0) as [E1|E1]; simpl.
      * split. intros _. split; auto. split. lia. rewrite <- K, <- Nat2Z.inj_mod. lia. intros _. discriminate.
      * split. contradiction. intros [_ [_ X]]. rewrite <- K, <- Nat2Z.inj_mod in X. lia.
  - split. contradiction. intros [_ []].
Qed.

Theorem reshape_matches_spec_partial sh t op :
  Forall (fun z => (-1 <= z)%Z) t -> fwd_reshape sh t = Some op -> spec_reshape sh t op.
Proof.
  intros F E. apply np_reshape_some in E as (out & Ei & -> & Es).
  apply infer_shape_spec in Ei as (Eo & _ & _).
  unfold spec_reshape; cbn [g_in g_out reshape_op]. split; auto. split. subst out. now rewrite map_length.
  split; [|split; auto].
  - intros k Hk Hne. subst out.
    rewrite (nth_indep _ 0 (fillq (size sh / known t) 0%Z)) by (now rewrite map_length).
    rewrite map_nth. unfold fillq.
    assert (Hz : (-1 <= nth k t 0)%Z). { rewrite Forall_forall in F. apply F. now apply nth_In. }
    destruct (Z.ltb_spec (nth k t 0%Z) 0); lia.
  - apply reshape_op_order_preserving. auto.
Qed.

(* NumPy treats every negative entry as the unknown dimension: x(2).reshape((-2,)) is accepted *)
Theorem reshape_accepts_iff_legal_refuted :
  exists sh t, fwd_reshape sh t <> None /\ ~ legal_reshape sh t.
Proof.
  exists [2], [(-2)%Z]. split. vm_compute. discriminate.
  intros [F _]. inversion F; subst. lia.
Qed.

(* ------------------------------------------------------------------ flatten *)
Lemma flatten_target_spec sh s e t :
  flatten_target sh s e = Some t ->
  exists s' e', wrap_dim (length sh) s = Some s' /\ wrap_dim (length sh) e = Some e' /\ s' <= e' /\
    t = if s' <? e' then map Z.of_nat (firstn s' sh) ++ [(-1)%Z] ++ map Z.of_nat (skipn (e' + 1) sh)
        else map Z.of_nat sh.
Proof.
  unfold flatten_target, wrap_dim.
  assert (Em : Z.of_nat (if length sh =? 0 then 1 else length sh) = Z.max (Z.of_nat (length sh)) 1).
  { destruct (Nat.eqb_spec (length sh) 0) as [->|]; lia. }
  rewrite Em. set (m := Z.max (Z.of_nat (length sh)) 1). assert (Hm : (0 < m)%Z) by (unfold m; lia).
  destruct (Z.leb_spec (- m) s); destruct (Z.ltb_spec s m); destruct (Z.leb_spec (- m) e); destruct (Z.ltb_spec e m);
    simpl; try discriminate.
  rewrite <- !mod_wrap by lia.
  destruct (Z.ltb_spec (e mod m) (s mod m)); try discriminate.
  pose proof (Z.mod_pos_bound s m Hm). pose proof (Z.mod_pos_bound e m Hm).
  intros E. exists (Z.to_nat (s mod m)), (Z.to_nat (e mod m)). repeat split; auto. lia.
  destruct (Z.ltb_spec (s mod m) (e mod m)); destruct (Nat.ltb_spec (Z.to_nat (s mod m)) (Z.to_nat (e mod m))); try lia;
    inversion E; auto.
Qed.

Lemma flatten_target_legal sh s e s' e' :
  wrap_dim (length sh) s = Some s' -> wrap_dim (length sh) e = Some e' -> s' <= e' ->
  flatten_target sh s e <> None.
Proof.
  intros Ws We Hle. apply wrap_dim_some in Ws as [Rs ->]. apply wrap_dim_some in We as [Re ->]. cbn zeta in *.
  unfold flatten_target.
  assert (Em : Z.of_nat (if length sh =? 0 then 1 else length sh) = Z.max (Z.of_nat (length sh)) 1).
  { destruct (Nat.eqb_spec (length sh) 0) as [->|]; lia. }
  rewrite Em. set (m := Z.max (Z.of_nat (length sh)) 1) in *. assert (Hm : (0 < m)%Z) by (unfold m; lia).
  destruct (Z.leb_spec (- m) s); destruct (Z.ltb_spec s m); destruct (Z.leb_spec (- m) e); destruct (Z.ltb_spec e m);
    simpl; try lia.
  rewrite <- !mod_wrap by lia.
  pose proof (Z.mod_pos_bound s m Hm). pose proof (Z.mod_pos_bound e m Hm).
  destruct (Z.ltb_spec (e mod m) (s mod m)); try lia.
  destruct (Z.ltb_spec (s mod m) (e mod m)); discriminate.
Qed.

Theorem flatten_accepted_is_legal sh s e : fwd_flatten sh s e <> None -> legal_flatten sh s e.
Proof.
  unfold fwd_flatten. destruct (flatten_target sh s e) as [t|] eqn:Et; try contradiction. intros _.
  apply flatten_target_spec in Et as (s' & e' & Ws & We & Hle & _). exists s', e'. auto.
Qed.

Lemma size_firstn_skipn sh a : size sh = size (firstn a sh) * size (skipn a sh).
Proof. rewrite <- (firstn_skipn a sh) at 1. apply size_app. Qed.

Lemma wrap_dim_lt n z k : n <> 0 -> wrap_dim n z = Some k -> k < n.
Proof. intros Hn E. rewrite <- norm_wrap in E by auto. eapply norm_axis_lt; eauto. Qed.

Lemma size_pos_no_zero sh : ~ In 0 sh -> size sh <> 0.
Proof.
  induction sh as [|d r IH]; intros H. unfold size; simpl; lia.
  change (size (d :: r)) with (d * size r). simpl in H. assert (d <> 0) by tauto. assert (size r <> 0) by (apply IH; tauto). nia.
Qed.

Lemma to_nat_of_nat_map l : map Z.to_nat (map Z.of_nat l) = l.
Proof. induction l; simpl; auto. now rewrite Nat2Z.id, IHl. Qed.

Lemma skipn_add {X} a : forall b (l : list X), skipn a (skipn b l) = skipn (b + a) l.
Proof.
  induction b as [|b IH]; intros l; simpl; auto.
  destruct l as [|x l]. now rewrite skipn_nil. apply IH.
Qed.

Lemma negs_of_nat l : negs (map Z.of_nat l) = 0.
Proof. unfold negs. induction l as [|d l IH]; simpl; auto. destruct (Z.ltb_spec (Z.of_nat d) 0); try lia; auto. Qed.
Lemma known_of_nat l : known (map Z.of_nat l) = size l.
Proof.
  unfold known. induction l as [|d l IH]; simpl; auto. destruct (Z.leb_spec 0 (Z.of_nat d)); [|lia].
  simpl. rewrite Nat2Z.id, IH. reflexivity.
Qed.
Lemma negs_app a b : negs (a ++ b) = negs a + negs b.
Proof. unfold negs. now rewrite filter_app, app_length. Qed.
Lemma known_app a b : known (a ++ b) = known a * known b.
Proof.
  unfold known. rewrite filter_app, map_app. induction (map Z.to_nat (filter (fun z => (0 <=? z)%Z) a)) as [|x l IH]; simpl.
  lia. rewrite IH. lia.
Qed.
Lemma fillq_of_nat q l : map (fillq q) (map Z.of_nat l) = l.
Proof. unfold fillq. induction l as [|d l IH]; simpl; auto. destruct (Z.ltb_spec (Z.of_nat d) 0); [lia|]. now rewrite Nat2Z.id, IH. Qed.

Lemma infer_shape_one_neg total t :
  negs t = 1 -> known t <> 0 -> total mod known t = 0 ->
  infer_shape total t = Some (map (fillq (total / known t)) t).
Proof.
  intros N K M. unfold infer_shape. fold (negs t) (known t). rewrite N.
  destruct (Nat.eqb_spec (known t) 0); try lia. rewrite M. reflexivity.
Qed.

(* the reshape target built by flatten, evaluated *)
Lemma flatten_infer sh s' e' : s' < e' -> e' < length sh ->
  size (firstn s' sh) * size (skipn (e' + 1) sh) <> 0 ->
  infer_shape (size sh) (map Z.of_nat (firstn s' sh) ++ [(-1)%Z] ++ map Z.of_nat (skipn (e' + 1) sh))
  = Some (spec_flatten_shape sh s' e').
Proof.
  intros Hlt He Hnz. unfold spec_flatten_shape.
  set (pre := firstn s' sh) in *. set (post := skipn (e' + 1) sh) in *.
  set (mid := firstn (e' - s' + 1) (skipn s' sh)).
  assert (Esz : size sh = size pre * size mid * size post).
  { rewrite (size_firstn_skipn sh s'). fold pre. rewrite (size_firstn_skipn (skipn s' sh) (e' - s' + 1)). fold mid.
    rewrite skipn_add. replace (s' + (e' - s' + 1)) with (e' + 1) by lia. fold post. lia. }
  set (t := map Z.of_nat pre ++ [(-1)%Z] ++ map Z.of_nat post).
  assert (N : negs t = 1). { unfold t. rewrite !negs_app, !negs_of_nat. reflexivity. }
  assert (K : known t = size pre * size post).
  { unfold t. rewrite !known_app, !known_of_nat. unfold known at 1. simpl. lia. }
  rewrite infer_shape_one_neg; auto; rewrite K; auto.
  - f_equal. unfold t. rewrite !map_app, !fillq_of_nat. simpl. unfold fillq at 1. simpl.
    repeat f_equal. rewrite Esz. replace (size pre * size mid * size post) with (size mid * (size pre * size post)) by lia.
    now rewrite Nat.div_mul.
  - rewrite Esz. replace (size pre * size mid * size post) with (size mid * (size pre * size post)) by lia.
    now apply Nat.mod_mul.
Qed.

Lemma size_sub_nonzero sh a : ~ In 0 sh -> size (firstn a sh) <> 0 /\ size (skipn a sh) <> 0.
Proof.
  intros H. split; apply size_pos_no_zero; intro Hc; apply H; rewrite <- (firstn_skipn a sh); apply in_or_app; auto.
Qed.

Lemma wrap_dim_0d z k : wrap_dim 0 z = Some k -> k = 0.
Proof. intros E. apply wrap_dim_some in E as [_ ->]. cbn. now rewrite Z.mod_1_r. Qed.

Lemma wrap_dim_lt' (sh : shape) z k : wrap_dim (length sh) z = Some k -> sh <> [] -> k < length sh.
Proof. intros E Hne. apply (wrap_dim_lt _ z); auto. destruct sh; simpl; auto; congruence. Qed.

Theorem flatten_accepts_iff_legal_partial sh s e :
  ~ In 0 sh -> (fwd_flatten sh s e <> None <-> legal_flatten sh s e).
Proof.
  intros Hz. split. apply flatten_accepted_is_legal.
  intros (s' & e' & Ws & We & Hle). unfold fwd_flatten.
  destruct (flatten_target sh s e) as [t|] eqn:Et.
  2:{ exfalso. apply (flatten_target_legal sh s e s' e' Ws We Hle Et). }
  apply flatten_target_spec in Et as (s1 & e1 & Ws1 & We1 & Hle1 & ->).
  rewrite Ws in Ws1. rewrite We in We1. inversion Ws1; inversion We1; subst s1 e1.
  unfold np_reshape. destruct (Nat.ltb_spec s' e').
  - assert (Hne : sh <> []). { intro; subst sh. apply wrap_dim_0d in Ws. apply wrap_dim_0d in We. lia. }
    pose proof (wrap_dim_lt' sh e e' We Hne).
    rewrite flatten_infer; auto. discriminate.
    destruct (size_sub_nonzero sh s' Hz). destruct (size_sub_nonzero sh (e' + 1) Hz). nia.
  - rewrite infer_shape_of_nat by auto. discriminate.
Qed.

Theorem flatten_matches_spec_partial sh s e op :
  sh <> [] -> fwd_flatten sh s e = Some op -> spec_flatten sh s e op.
Proof.
  intros Hne. unfold fwd_flatten. destruct (flatten_target sh s e) as [t|] eqn:Et; try discriminate.
  apply flatten_target_spec in Et as (s' & e' & Ws & We & Hle & ->). intros E.
  apply np_reshape_some in E as (out & Ei & -> & Es).
  pose proof (wrap_dim_lt' sh s s' Ws Hne) as Hs. pose proof (wrap_dim_lt' sh e e' We Hne) as He.
  exists s', e'. cbn [g_in g_out reshape_op]. split; auto. split; auto. split; auto. split.
  2: now apply reshape_op_order_preserving.
  destruct (Nat.ltb_spec s' e').
  - pose proof Ei as Ei'. apply infer_shape_spec in Ei' as (_ & _ & [N0|(N1 & K & _)]).
    + rewrite !negs_app, !negs_of_nat in N0. unfold negs in N0. simpl in N0. lia.
    + rewrite !known_app, !known_of_nat in K. change (known [(-1)%Z]) with 1 in K.
      rewrite flatten_infer in Ei; auto. now inversion Ei. lia.
  - assert (s' = e') by lia. subst e'. rewrite infer_shape_of_nat in Ei by auto. inversion Ei; subst out.
    unfold spec_flatten_shape. destruct (split_at sh s' 0 Hs) as [Esh Lp].
    replace (s' - s' + 1) with 1 by lia. replace (s' + 1) with (S s') by lia.
    assert (Sk : skipn s' sh = nth s' sh 0 :: skipn (S s') sh).
    { rewrite Esh at 1. rewrite <- Lp at 1. apply skipn_mid0. }
    rewrite Sk. cbn [firstn]. unfold size at 1. simpl. rewrite Nat.mul_1_r. exact Esh.
Qed.

(* flatten of a 0-d tensor keeps shape () where torch.flatten (and ndarray.flatten) give shape (1,) *)
Theorem flatten_0d_refuted :
  exists op, fwd_flatten [] 0 (-1) = Some op /\ legal_flatten [] 0 (-1) /\ ~ spec_flatten [] 0 (-1) op.
Proof.
  eexists. split. vm_compute. reflexivity. split.
  - exists 0, 0. repeat split; auto.
  - intros (s' & e' & Ws & We & _ & Eo & _). apply wrap_dim_0d in Ws. apply wrap_dim_0d in We. subst.
    cbn in Eo. discriminate.
Qed.

(* a zero-size dim outside the flattened range makes the inferred -1 ambiguous for NumPy: rejected though legal *)
Theorem flatten_zero_size_refuted :
  legal_flatten [0;3;2] 1 2 /\ fwd_flatten [0;3;2] 1 2 = None.
Proof. split. exists 1, 2. repeat split; auto. vm_compute. reflexivity. Qed.

(* ------------------------------------------------------------------ movedim / transpose *)
Theorem movedim_accepts_iff_legal_partial sh s d :
  sh <> [] -> (fwd_movedim sh s d <> None <-> legal_movedim sh s d).
Proof.
  intros Hne. assert (Hn : length sh <> 0) by (destruct sh; simpl; congruence).
  unfold fwd_movedim, np_moveaxis, legal_movedim. rewrite !norm_wrap by auto.
  destruct (wrap_dim (length sh) s); destruct (wrap_dim (length sh) d); split; try discriminate; try tauto.
  all: intros _; split; discriminate.
Qed.

Theorem movedim_matches_spec sh s d op : fwd_movedim sh s d = Some op -> spec_movedim sh s d op.
Proof.
  unfold fwd_movedim. intros F. apply np_moveaxis_some in F as (s' & d' & Es & Ed & Hs & Hd & ->).
  assert (Hn : length sh <> 0) by lia. rewrite norm_wrap in Es, Ed by auto.
  exists s', d', (mv s' d'). split; auto. split; auto. split; auto. split.
  - apply (perm_op_permutes (length sh) (mv s' d') (mv d' s')); auto; intros; try apply mv_lt; try apply (mv_mv (length sh)); auto.
  - unfold mv. split; [|split].
    + now rewrite Nat.eqb_refl.
    + intros k Hk Hne. casesb; lia.
    + intros k k' H1 H2 H3 H4. casesb; lia.
Qed.

Theorem movedim_0d_refuted : legal_movedim [] 0 0 /\ fwd_movedim [] 0 0 = None.
Proof. split. split; discriminate. reflexivity. Qed.

Theorem transpose_accepts_iff_legal_partial sh a b :
  sh <> [] -> (fwd_transpose sh a b <> None <-> legal_transpose sh a b).
Proof.
  intros Hne. assert (Hn : length sh <> 0) by (destruct sh; simpl; congruence).
  unfold fwd_transpose, np_swapaxes, legal_transpose. rewrite !norm_wrap by auto.
  destruct (wrap_dim (length sh) a); destruct (wrap_dim (length sh) b); split; try discriminate; try tauto.
  all: intros _; split; discriminate.
Qed.

Lemma permutes_ext op sigma sigma' : (forall k, sigma k = sigma' k) -> permutes op sigma -> permutes op sigma'.
Proof.
  intros E (P1 & P2 & P3). unfold permutes. split; auto. split.
  - intros k Hk. rewrite <- E. auto.
  - intros j Hj. destruct (P3 j Hj) as (i & E1 & E2 & E3). exists i. split; auto. split; auto.
    intros k Hk. rewrite <- E. auto.
Qed.

Theorem transpose_matches_spec sh a b op : fwd_transpose sh a b = Some op -> spec_transpose sh a b op.
Proof.
  unfold fwd_transpose. intros F. apply np_swapaxes_some in F as (a' & b' & Ea & Eb & Ha & Hb & ->).
  assert (Hn : length sh <> 0) by lia. rewrite norm_wrap in Ea, Eb by auto.
  exists a', b'. split; auto. split; auto. split; auto.
  apply (permutes_ext _ (sw a' b')).
  - intros k. unfold sw. destruct (Nat.eqb_spec k b'), (Nat.eqb_spec k a'); subst; auto.
  - apply (perm_op_permutes (length sh) (sw a' b') (sw a' b')); auto; intros; try apply sw_lt; try apply sw_sw; auto.
Qed.

Theorem transpose_0d_refuted : legal_transpose [] 0 0 /\ fwd_transpose [] 0 0 = None.
Proof. split. split; discriminate. reflexivity. Qed.
