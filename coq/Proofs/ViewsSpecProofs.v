(* C05 for the view ops: the models accept exactly the legal argument combinations of the (PyTorch) spec and
   produce the spec's shape and index map.  Where the faithful model deviates (0-d tensors, zero-size dims,
   NumPy's "any negative entry is the unknown dimension", duplicates that squeeze does not notice) the
   restricted statement is proved and the deviation is exhibited (`..._refuted`).                          *)
From Coq Require Import List Arith ZArith Lia Bool Permutation.
Import ListNotations.
From SG Require Import Base.Sums Base.Cmp NumPy.Gather NumPy.Index NumPy.Tensor NumPy.ViewsAux NumPy.Views NumPy.Indexing NumPy.Spec.
From SG Require Import Proofs.ViewsAuxProofs Proofs.ViewsReshapeProofs Proofs.ViewsPermProofs Proofs.ViewsUnfoldProofs Proofs.ViewsIndexProofs.

(* ------------------------------------------------------------------ dims *)
Lemma wrap_dim_some n z k : wrap_dim n z = Some k ->
  let m := Z.max (Z.of_nat n) 1 in (- m <= z < m)%Z /\ k = Z.to_nat (z mod m).
Proof.
  unfold wrap_dim. cbn zeta. destruct (Z.leb_spec (- Z.max (Z.of_nat n) 1) z); simpl; try discriminate.
  destruct (Z.ltb_spec z (Z.max (Z.of_nat n) 1)); simpl; try discriminate. intros E; inversion E. split; auto.
Qed.

Lemma wrap_dim_none n z : wrap_dim n z = None <->
  let m := Z.max (Z.of_nat n) 1 in ~ (- m <= z < m)%Z.
Proof.
  unfold wrap_dim. cbn zeta. destruct (Z.leb_spec (- Z.max (Z.of_nat n) 1) z); simpl.
  destruct (Z.ltb_spec z (Z.max (Z.of_nat n) 1)); simpl. all: split; try discriminate; try lia; auto.
Qed.

Lemma mod_wrap m z : (0 < m)%Z -> (- m <= z < m)%Z -> (z mod m = if z <? 0 then z + m else z)%Z.
Proof.
  intros Hm Hz. destruct (Z.ltb_spec z 0).
  - rewrite <- (Z_mod_plus_full z 1 m). rewrite Z.mul_1_l. apply Z.mod_small. lia.
  - apply Z.mod_small. lia.
Qed.

Lemma norm_wrap n z : n <> 0 -> norm_axis n z = wrap_dim n z.
Proof.
  intros Hn. unfold norm_axis, wrap_dim. rewrite Z.max_l by lia.
  destruct (Z.leb_spec 0 z); destruct (Z.ltb_spec z (Z.of_nat n)); destruct (Z.ltb_spec z 0);
    destruct (Z.leb_spec (- Z.of_nat n) z); simpl; try lia; auto.
  - rewrite mod_wrap by lia. destruct (Z.ltb_spec z 0); try lia. reflexivity.
  - rewrite mod_wrap by lia. destruct (Z.ltb_spec z 0); try lia. reflexivity.
Qed.

Lemma norm_axis_0d z : norm_axis 0 z = None.
Proof.
  unfold norm_axis. destruct (Z.leb_spec 0 z); destruct (Z.ltb_spec z (Z.of_nat 0)); destruct (Z.ltb_spec z 0);
    destruct (Z.leb_spec (- Z.of_nat 0) z); simpl in *; try lia; auto.
Qed.

(* ------------------------------------------------------------------ reshape *)
Lemma count_negs t : Forall (fun z => (-1 <= z)%Z) t -> negs t = count_occ Z.eq_dec t (-1)%Z.
Proof.
  unfold negs. induction 1 as [|z t Hz F IH]; simpl; auto.
  destruct (Z.ltb_spec z 0); destruct (Z.eq_dec z (-1)); simpl; try lia.
Qed.

Lemma known_known_prod t : Forall (fun z => (-1 <= z)%Z) t -> Z.of_nat (known t) = known_prod t.
Proof.
  unfold known, known_prod. induction 1 as [|z t Hz F IH]; simpl; auto.
  destruct (Z.leb_spec 0 z); destruct (Z.eqb_spec z (-1)); simpl; try lia.
Qed.

Theorem reshape_accepts_iff_legal_partial sh t :
  Forall (fun z => (-1 <= z)%Z) t -> (fwd_reshape sh t <> None <-> legal_reshape sh t).
Proof.
  intros F. unfold fwd_reshape, np_reshape, legal_reshape, infer_shape. fold (negs t) (known t).
  rewrite <- (count_negs t F). pose proof (known_known_prod t F) as K.
  destruct (negs t) as [|[|k]]; simpl.
  - destruct (Nat.eqb_spec (known t) (size sh)) as [E|E]; simpl.
    + split. intros _. split; auto. lia. intros _. discriminate.
    + split. intros X. contradiction. intros [_ X]. lia.
  - destruct (Nat.eqb_spec (known t) 0) as [E0|E0]; simpl.
    + split. contradiction. intros [_ [X _]]. lia.
    + destruct (Nat.eqb_spec (size sh mod known t) 0) as [E1|E1]; simpl.
      * split. intros _. split; auto. split. lia. rewrite <- K, <- Nat2Z.inj_mod. lia. intros _. discriminate.
      * split. contradiction. intros [_ [_ X]]. rewrite <- K, <- Nat2Z.inj_mod in X. lia.
  - split. contradiction. intros [_ []].
Qed.

Theorem reshape_matches_spec_partial sh t op :
  Forall (fun z => (-1 <= z)%Z) t -> fwd_reshape sh t = Some op -> spec_reshape sh t op.
Proof.
  intros F E. apply np_reshape_some in E as (out & Ei & -> & Es).
  apply infer_shape_spec in Ei as (Eo & _ & _).
  unfold spec_reshape; cbn [g_in g_out reshape_op]. split; auto. split. subst out. now rewrite map_length.
  split; [|split; auto].
  - intros k Hk Hne. subst out.
    rewrite (nth_indep _ 0 (fillq (size sh / known t) 0%Z)) by (now rewrite map_length).
    rewrite map_nth. unfold fillq.
    assert (Hz : (-1 <= nth k t 0)%Z). { rewrite Forall_forall in F. apply F. now apply nth_In. }
    destruct (Z.ltb_spec (nth k t 0%Z) 0); lia.
  - apply reshape_op_order_preserving. auto.
Qed.

(* NumPy treats every negative entry as the unknown dimension: x(2).reshape((-2,)) is accepted *)
Theorem reshape_accepts_iff_legal_refuted :
  exists sh t, fwd_reshape sh t <> None /\ ~ legal_reshape sh t.
Proof.
  exists [2], [(-2)%Z]. split. vm_compute. discriminate.
  intros [F _]. inversion F; subst. lia.
Qed.

(* ------------------------------------------------------------------ flatten *)
Lemma flatten_target_spec sh s e t :
  flatten_target sh s e = Some t ->
  exists s' e', wrap_dim (length sh) s = Some s' /\ wrap_dim (length sh) e = Some e' /\ s' <= e' /\
    t = if s' <? e' then map Z.of_nat (firstn s' sh) ++ [(-1)%Z] ++ map Z.of_nat (skipn (e' + 1) sh)
        else map Z.of_nat sh.
Proof.
  unfold flatten_target, wrap_dim.
  assert (Em : Z.of_nat (if length sh =? 0 then 1 else length sh) = Z.max (Z.of_nat (length sh)) 1).
  { destruct (Nat.eqb_spec (length sh) 0) as [->|]; lia. }
  rewrite Em. set (m := Z.max (Z.of_nat (length sh)) 1). assert (Hm : (0 < m)%Z) by (unfold m; lia).
  destruct (Z.leb_spec (- m) s); destruct (Z.ltb_spec s m); destruct (Z.leb_spec (- m) e); destruct (Z.ltb_spec e m);
    simpl; try discriminate.
  rewrite <- !mod_wrap by lia.
  destruct (Z.ltb_spec (e mod m) (s mod m)); try discriminate.
  pose proof (Z.mod_pos_bound s m Hm). pose proof (Z.mod_pos_bound e m Hm).
  intros E. exists (Z.to_nat (s mod m)), (Z.to_nat (e mod m)). repeat split; auto. lia.
  destruct (Z.ltb_spec (s mod m) (e mod m)); destruct (Nat.ltb_spec (Z.to_nat (s mod m)) (Z.to_nat (e mod m))); try lia;
    inversion E; auto.
Qed.

Lemma flatten_target_legal sh s e s' e' :
  wrap_dim (length sh) s = Some s' -> wrap_dim (length sh) e = Some e' -> s' <= e' ->
  flatten_target sh s e <> None.
Proof.
  intros Ws We Hle. apply wrap_dim_some in Ws as [Rs ->]. apply wrap_dim_some in We as [Re ->]. cbn zeta in *.
  unfold flatten_target.
  assert (Em : Z.of_nat (if length sh =? 0 then 1 else length sh) = Z.max (Z.of_nat (length sh)) 1).
  { destruct (Nat.eqb_spec (length sh) 0) as [->|]; lia. }
  rewrite Em. set (m := Z.max (Z.of_nat (length sh)) 1) in *. assert (Hm : (0 < m)%Z) by (unfold m; lia).
  destruct (Z.leb_spec (- m) s); destruct (Z.ltb_spec s m); destruct (Z.leb_spec (- m) e); destruct (Z.ltb_spec e m);
    simpl; try lia.
  rewrite <- !mod_wrap by lia.
  pose proof (Z.mod_pos_bound s m Hm). pose proof (Z.mod_pos_bound e m Hm).
  destruct (Z.ltb_spec (e mod m) (s mod m)); try lia.
  destruct (Z.ltb_spec (s mod m) (e mod m)); discriminate.
Qed.

Theorem flatten_accepted_is_legal sh s e : fwd_flatten sh s e <> None -> legal_flatten sh s e.
Proof.
  unfold fwd_flatten. destruct (flatten_target sh s e) as [t|] eqn:Et; try contradiction. intros _.
  apply flatten_target_spec in Et as (s' & e' & Ws & We & Hle & _). exists s', e'. auto.
Qed.

Lemma size_firstn_skipn sh a : size sh = size (firstn a sh) * size (skipn a sh).
Proof. rewrite <- (firstn_skipn a sh) at 1. apply size_app. Qed.

Lemma wrap_dim_lt n z k : n <> 0 -> wrap_dim n z = Some k -> k < n.
Proof. intros Hn E. rewrite <- norm_wrap in E by auto. eapply norm_axis_lt; eauto. Qed.

Lemma size_pos_no_zero sh : ~ In 0 sh -> size sh <> 0.
Proof.
  induction sh as [|d r IH]; intros H. unfold size; simpl; lia.
  change (size (d :: r)) with (d * size r). simpl in H. assert (d <> 0) by tauto. assert (size r <> 0) by (apply IH; tauto). nia.
Qed.

Lemma to_nat_of_nat_map l : map Z.to_nat (map Z.of_nat l) = l.
Proof. induction l; simpl; auto. now rewrite Nat2Z.id, IHl. Qed.

Lemma skipn_add {X} a : forall b (l : list X), skipn a (skipn b l) = skipn (b + a) l.
Proof.
  induction b as [|b IH]; intros l; simpl; auto.
  destruct l as [|x l]. now rewrite skipn_nil. apply IH.
Qed.

Lemma negs_of_nat l : negs (map Z.of_nat l) = 0.
Proof. unfold negs. induction l as [|d l IH]; simpl; auto. destruct (Z.ltb_spec (Z.of_nat d) 0); try lia; auto. Qed.
Lemma known_of_nat l : known (map Z.of_nat l) = size l.
Proof.
  unfold known. induction l as [|d l IH]; simpl; auto. destruct (Z.leb_spec 0 (Z.of_nat d)); [|lia].
  simpl. rewrite Nat2Z.id, IH. reflexivity.
Qed.
Lemma negs_app a b : negs (a ++ b) = negs a + negs b.
Proof. unfold negs. now rewrite filter_app, app_length. Qed.
Lemma known_app a b : known (a ++ b) = known a * known b.
Proof.
  unfold known. rewrite filter_app, map_app. induction (map Z.to_nat (filter (fun z => (0 <=? z)%Z) a)) as [|x l IH]; simpl.
  lia. rewrite IH. lia.
Qed.
Lemma fillq_of_nat q l : map (fillq q) (map Z.of_nat l) = l.
Proof. unfold fillq. induction l as [|d l IH]; simpl; auto. destruct (Z.ltb_spec (Z.of_nat d) 0); [lia|]. now rewrite Nat2Z.id, IH. Qed.

Lemma infer_shape_one_neg total t :
  negs t = 1 -> known t <> 0 -> total mod known t = 0 ->
  infer_shape total t = Some (map (fillq (total / known t)) t).
Proof.
  intros N K M. unfold infer_shape. fold (negs t) (known t). rewrite N.
  destruct (Nat.eqb_spec (known t) 0); try lia. rewrite M. reflexivity.
Qed.

(* the reshape target built by flatten, evaluated *)
Lemma flatten_infer sh s' e' : s' < e' -> e' < length sh ->
  size (firstn s' sh) * size (skipn (e' + 1) sh) <> 0 ->
  infer_shape (size sh) (map Z.of_nat (firstn s' sh) ++ [(-1)%Z] ++ map Z.of_nat (skipn (e' + 1) sh))
  = Some (spec_flatten_shape sh s' e').
Proof.
  intros Hlt He Hnz. unfold spec_flatten_shape.
  set (pre := firstn s' sh) in *. set (post := skipn (e' + 1) sh) in *.
  set (mid := firstn (e' - s' + 1) (skipn s' sh)).
  assert (Esz : size sh = size pre * size mid * size post).
  { rewrite (size_firstn_skipn sh s'). fold pre. rewrite (size_firstn_skipn (skipn s' sh) (e' - s' + 1)). fold mid.
    rewrite skipn_add. replace (s' + (e' - s' + 1)) with (e' + 1) by lia. fold post. lia. }
  set (t := map Z.of_nat pre ++ [(-1)%Z] ++ map Z.of_nat post).
  assert (N : negs t = 1). { unfold t. rewrite !negs_app, !negs_of_nat. reflexivity. }
  assert (K : known t = size pre * size post).
  { unfold t. rewrite !known_app, !known_of_nat. unfold known at 1. simpl. lia. }
  rewrite infer_shape_one_neg; auto; rewrite K; auto.
  - f_equal. unfold t. rewrite !map_app, !fillq_of_nat. simpl. unfold fillq at 1. simpl.
    repeat f_equal. rewrite Esz. replace (size pre * size mid * size post) with (size mid * (size pre * size post)) by lia.
    now rewrite Nat.div_mul.
  - rewrite Esz. replace (size pre * size mid * size post) with (size mid * (size pre * size post)) by lia.
    now apply Nat.mod_mul.
Qed.

Lemma size_sub_nonzero sh a : ~ In 0 sh -> size (firstn a sh) <> 0 /\ size (skipn a sh) <> 0.
Proof.
  intros H. split; apply size_pos_no_zero; intro Hc; apply H; rewrite <- (firstn_skipn a sh); apply in_or_app; auto.
Qed.

Lemma wrap_dim_0d z k : wrap_dim 0 z = Some k -> k = 0.
Proof. intros E. apply wrap_dim_some in E as [_ ->]. cbn. now rewrite Z.mod_1_r. Qed.

Lemma wrap_dim_lt' (sh : shape) z k : wrap_dim (length sh) z = Some k -> sh <> [] -> k < length sh.
Proof. intros E Hne. apply (wrap_dim_lt _ z); auto. destruct sh; simpl; auto; congruence. Qed.

Theorem flatten_accepts_iff_legal_partial sh s e :
  ~ In 0 sh -> (fwd_flatten sh s e <> None <-> legal_flatten sh s e).
Proof.
  intros Hz. split. apply flatten_accepted_is_legal.
  intros (s' & e' & Ws & We & Hle). unfold fwd_flatten.
  destruct (flatten_target sh s e) as [t|] eqn:Et.
  2:{ exfalso. apply (flatten_target_legal sh s e s' e' Ws We Hle Et). }
  apply flatten_target_spec in Et as (s1 & e1 & Ws1 & We1 & Hle1 & ->).
  rewrite Ws in Ws1. rewrite We in We1. inversion Ws1; inversion We1; subst s1 e1.
  unfold np_reshape. destruct (Nat.ltb_spec s' e').
  - assert (Hne : sh <> []). { intro; subst sh. apply wrap_dim_0d in Ws. apply wrap_dim_0d in We. lia. }
    pose proof (wrap_dim_lt' sh e e' We Hne).
    rewrite flatten_infer; auto. discriminate.
    destruct (size_sub_nonzero sh s' Hz). destruct (size_sub_nonzero sh (e' + 1) Hz). nia.
  - rewrite infer_shape_of_nat by auto. discriminate.
Qed.

Theorem flatten_matches_spec_partial sh s e op :
  sh <> [] -> fwd_flatten sh s e = Some op -> spec_flatten sh s e op.
Proof.
  intros Hne. unfold fwd_flatten. destruct (flatten_target sh s e) as [t|] eqn:Et; try discriminate.
  apply flatten_target_spec in Et as (s' & e' & Ws & We & Hle & ->). intros E.
  apply np_reshape_some in E as (out & Ei & -> & Es).
  pose proof (wrap_dim_lt' sh s s' Ws Hne) as Hs. pose proof (wrap_dim_lt' sh e e' We Hne) as He.
  exists s', e'. cbn [g_in g_out reshape_op]. split; auto. split; auto. split; auto. split.
  2: now apply reshape_op_order_preserving.
  destruct (Nat.ltb_spec s' e').
  - pose proof Ei as Ei'. apply infer_shape_spec in Ei' as (_ & _ & [N0|(N1 & K & _)]).
    + rewrite !negs_app, !negs_of_nat in N0. unfold negs in N0. simpl in N0. lia.
    + rewrite !known_app, !known_of_nat in K. change (known [(-1)%Z]) with 1 in K.
      rewrite flatten_infer in Ei; auto. now inversion Ei. lia.
  - assert (s' = e') by lia. subst e'. rewrite infer_shape_of_nat in Ei by auto. inversion Ei; subst out.
    unfold spec_flatten_shape. destruct (split_at sh s' 0 Hs) as [Esh Lp].
    replace (s' - s' + 1) with 1 by lia. replace (s' + 1) with (S s') by lia.
    assert (Sk : skipn s' sh = nth s' sh 0 :: skipn (S s') sh).
    { rewrite Esh at 1. rewrite <- Lp at 1. apply skipn_mid0. }
    rewrite Sk. cbn [firstn]. unfold size at 1. simpl. rewrite Nat.mul_1_r. exact Esh.
Qed.

(* flatten of a 0-d tensor keeps shape () where torch.flatten (and ndarray.flatten) give shape (1,) *)
Theorem flatten_0d_refuted :
  exists op, fwd_flatten [] 0 (-1) = Some op /\ legal_flatten [] 0 (-1) /\ ~ spec_flatten [] 0 (-1) op.
Proof.
  eexists. split. vm_compute. reflexivity. split.
  - exists 0, 0. repeat split; auto.
  - intros (s' & e' & Ws & We & _ & Eo & _). apply wrap_dim_0d in Ws. apply wrap_dim_0d in We. subst.
    cbn in Eo. discriminate.
Qed.

(* a zero-size dim outside the flattened range makes the inferred -1 ambiguous for NumPy: rejected though legal *)
Theorem flatten_zero_size_refuted :
  legal_flatten [0;3;2] 1 2 /\ fwd_flatten [0;3;2] 1 2 = None.
Proof. split. exists 1, 2. repeat split; auto. vm_compute. reflexivity. Qed.

(* ------------------------------------------------------------------ movedim / transpose *)
Theorem movedim_accepts_iff_legal_partial sh s d :
  sh <> [] -> (fwd_movedim sh s d <> None <-> legal_movedim sh s d).
Proof.
  intros Hne. assert (Hn : length sh <> 0) by (destruct sh; simpl; congruence).
  unfold fwd_movedim, np_moveaxis, legal_movedim. rewrite !norm_wrap by auto.
  destruct (wrap_dim (length sh) s); destruct (wrap_dim (length sh) d); split; try discriminate; try tauto.
  all: intros _; split; discriminate.
Qed.

Theorem movedim_matches_spec sh s d op : fwd_movedim sh s d = Some op -> spec_movedim sh s d op.
Proof.
  unfold fwd_movedim. intros F. apply np_moveaxis_some in F as (s' & d' & Es & Ed & Hs & Hd & ->).
  assert (Hn : length sh <> 0) by lia. rewrite norm_wrap in Es, Ed by auto.
  exists s', d', (mv s' d'). split; auto. split; auto. split; auto. split.
  - apply (perm_op_permutes (length sh) (mv s' d') (mv d' s')); auto; intros; try apply mv_lt; try apply (mv_mv (length sh)); auto.
  - unfold mv. split; [|split].
    + now rewrite Nat.eqb_refl.
    + intros k Hk Hne. casesb; lia.
    + intros k k' H1 H2 H3 H4. casesb; lia.
Qed.

Theorem movedim_0d_refuted : legal_movedim [] 0 0 /\ fwd_movedim [] 0 0 = None.
Proof. split. split; discriminate. reflexivity. Qed.

Theorem transpose_accepts_iff_legal_partial sh a b :
  sh <> [] -> (fwd_transpose sh a b <> None <-> legal_transpose sh a b).
Proof.
  intros Hne. assert (Hn : length sh <> 0) by (destruct sh; simpl; congruence).
  unfold fwd_transpose, np_swapaxes, legal_transpose. rewrite !norm_wrap by auto.
  destruct (wrap_dim (length sh) a); destruct (wrap_dim (length sh) b); split; try discriminate; try tauto.
  all: intros _; split; discriminate.
Qed.

Lemma permutes_ext op sigma sigma' : (forall k, sigma k = sigma' k) -> permutes op sigma -> permutes op sigma'.
Proof.
  intros E (P1 & P2 & P3). unfold permutes. split; auto. split.
  - intros k Hk. rewrite <- E. auto.
  - intros j Hj. destruct (P3 j Hj) as (i & E1 & E2 & E3). exists i. split; auto. split; auto.
    intros k Hk. rewrite <- E. auto.
Qed.

Theorem transpose_matches_spec sh a b op : fwd_transpose sh a b = Some op -> spec_transpose sh a b op.
Proof.
  unfold fwd_transpose. intros F. apply np_swapaxes_some in F as (a' & b' & Ea & Eb & Ha & Hb & ->).
  assert (Hn : length sh <> 0) by lia. rewrite norm_wrap in Ea, Eb by auto.
  exists a', b'. split; auto. split; auto. split; auto.
  apply (permutes_ext _ (sw a' b')).
  - intros k. unfold sw. destruct (Nat.eqb_spec k b'), (Nat.eqb_spec k a'); subst; auto.
  - apply (perm_op_permutes (length sh) (sw a' b') (sw a' b')); auto; intros; try apply sw_lt; try apply sw_sw; auto.
Qed.

Theorem transpose_0d_refuted : legal_transpose [] 0 0 /\ fwd_transpose [] 0 0 = None.
Proof. split. split; discriminate. reflexivity. Qed.

(* ------------------------------------------------------------------ unfold *)
Lemma unfold_args_accepts sh dimension size step :
  unfold_args sh dimension size step <> None <->
  exists d, norm_axis (length sh) dimension = Some d /\ (0 < size)%Z /\ (0 < step)%Z /\ (size <= Z.of_nat (nth d sh 0%nat))%Z.
Proof.
  split.
  - destruct (unfold_args sh dimension size step) as [[[d sz] st]|] eqn:Ua; try contradiction. intros _.
    apply unfold_args_some in Ua as (N & _ & Hsz & Hst & Hle & E1 & E2). exists d. repeat split; auto; lia.
  - intros (d & N & Hsz & Hst & Hle). unfold unfold_args. unfold norm_axis in N. set (n := Z.of_nat (length sh)) in *.
    destruct (Z.leb_spec 0 dimension); destruct (Z.ltb_spec dimension n); destruct (Z.ltb_spec dimension 0);
      destruct (Z.leb_spec (- n) dimension); simpl in N; try discriminate; try lia; injection N as <-.
    + destruct (Z.geb_spec dimension n); try lia. simpl.
      destruct (Z.leb_spec size 0); try lia. destruct (Z.leb_spec step 0); try lia.
      destruct (Z.ltb_spec (Z.of_nat (nth (Z.to_nat dimension) sh 0%nat)) size); try lia. destruct (Z.ltb_spec dimension (- n)); try lia. discriminate.
    + destruct (Z.geb_spec dimension n); try lia. simpl.
      destruct (Z.leb_spec size 0); try lia. destruct (Z.leb_spec step 0); try lia.
      destruct (Z.ltb_spec (Z.of_nat (nth (Z.to_nat (dimension + n)) sh 0%nat)) size); try lia. destruct (Z.ltb_spec dimension (- n)); try lia. discriminate.
Qed.

Theorem unfold_accepts_iff_legal_partial sh dimension size step :
  sh <> [] -> (fwd_unfold_dim sh dimension size step <> None <-> legal_unfold sh dimension size step).
Proof.
  intros Hne. assert (Hn : length sh <> 0) by (destruct sh; simpl; congruence).
  transitivity (unfold_args sh dimension size step <> None).
  { unfold fwd_unfold_dim. destruct (unfold_args sh dimension size step) as [[[d sz] st]|]; split; auto; discriminate. }
  rewrite unfold_args_accepts. unfold legal_unfold. rewrite <- (norm_wrap (length sh) dimension Hn).
  split; intros (d & N & H1 & H2 & H3); exists d; repeat split; auto;
    pose proof (norm_axis_lt _ _ _ N); rewrite (nth_indep sh 0 1) in * by auto; auto.
Qed.

Theorem unfold_matches_spec sh dimension size step op :
  fwd_unfold_dim sh dimension size step = Some op -> spec_unfold sh dimension size step op.
Proof.
  intros F. destruct (fwd_unfold_closed _ _ _ _ _ F) as (d & sz & st & pre & L & post & Ua & Esh & Lp & Hsz & Hst & Hle & Ei & Eo & Phi).
  apply unfold_args_some in Ua as (N & Hd & _ & _ & _ & E1 & E2).
  assert (Hn : length sh <> 0) by lia. rewrite norm_wrap in N by auto.
  exists d, pre, L, post. subst size step. rewrite !Nat2Z.id. repeat split; auto.
Qed.

Theorem unfold_0d_refuted : legal_unfold [] 0 1 1 /\ fwd_unfold_dim [] 0 1 1 = None.
Proof. split. exists 0. repeat split; simpl; lia. reflexivity. Qed.

(* ------------------------------------------------------------------ masks vs. selected positions *)
Definition sel_from {X} (a : nat) (keep : nat -> bool) (l : list X) : list X :=
  map snd (filter (fun p => keep (fst p)) (combine (seq a (length l)) l)).

Lemma sel_from_ext {X} a keep keep' (l : list X) :
  (forall k, a <= k < a + length l -> keep k = keep' k) -> sel_from a keep l = sel_from a keep' l.
Proof.
  intros E. unfold sel_from. f_equal. apply filter_ext_in. intros [k x] Hin. simpl.
  apply in_combine_l in Hin. apply in_seq in Hin. now apply E.
Qed.

Lemma sel_from_cons {X} a keep (x : X) l :
  sel_from a keep (x :: l) = if keep a then x :: sel_from (S a) keep l else sel_from (S a) keep l.
Proof. unfold sel_from. cbn [length seq combine filter fst]. destruct (keep a); reflexivity. Qed.

Lemma drop_mask_sel {X} mask : forall (l : list X) a, length mask = length l ->
  drop_mask mask l = sel_from a (fun k => negb (nth (k - a) mask false)) l.
Proof.
  induction mask as [|b m IH]; intros [|x l] a HL; simpl in HL; try discriminate; auto.
  rewrite sel_from_cons.
  assert (R : sel_from (S a) (fun k => negb (nth (k - a) (b :: m) false)) l = drop_mask m l).
  { rewrite (IH l (S a)) by lia. apply sel_from_ext. intros k Hk.
    replace (k - a) with (S (k - S a)) by lia. reflexivity. }
  rewrite R. rewrite Nat.sub_diag. destruct b; reflexivity.
Qed.

Lemma select_positions_sel {X} keep (l : list X) : select_positions keep l = sel_from 0 keep l.
Proof. reflexivity. Qed.

Lemma select_positions_ext {X} keep keep' (l : list X) :
  (forall k, k < length l -> keep k = keep' k) -> select_positions keep l = select_positions keep' l.
Proof. intros E. rewrite !select_positions_sel. apply sel_from_ext. intros k Hk. apply E. lia. Qed.

Lemma drop_mask_select {X} mask (l : list X) : length mask = length l ->
  drop_mask mask l = select_positions (fun k => negb (nth k mask false)) l.
Proof.
  intros HL. rewrite (drop_mask_sel mask l 0 HL). rewrite select_positions_sel. apply sel_from_ext.
  intros k Hk. now rewrite Nat.sub_0_r.
Qed.

Lemma sel_from_all {X} a keep (l : list X) : (forall k, a <= k < a + length l -> keep k = true) -> sel_from a keep l = l.
Proof.
  revert a. induction l as [|x l IH]; intros a E. reflexivity.
  rewrite sel_from_cons. rewrite (E a) by (simpl; lia). f_equal.
  apply IH. intros k Hk. apply E. simpl. lia.
Qed.

Lemma select_positions_all {X} keep (l : list X) : (forall k, k < length l -> keep k = true) -> select_positions keep l = l.
Proof. intros E. rewrite select_positions_sel. apply sel_from_all. intros k Hk. apply E. lia. Qed.

(* ------------------------------------------------------------------ squeeze *)
Lemma norm_axes_map n l ks : norm_axes n l = Some ks -> forall k, In k ks <-> exists z, In z l /\ norm_axis n z = Some k.
Proof.
  revert ks. induction l as [|z l IH]; intros ks E k; simpl in E.
  - inversion E; subst. simpl. split. tauto. intros (z & [] & _).
  - destruct (norm_axis n z) as [k0|] eqn:Ez; try discriminate.
    destruct (norm_axes n l) as [r|] eqn:El; try discriminate. inversion E; subst. simpl. rewrite (IH r eq_refl). split.
    + intros [<-|(z' & Hz & Ez')]. exists z. auto. exists z'. auto.
    + intros (z' & [<-|Hz] & Ez'). left. congruence. right. eauto.
Qed.

Lemma norm_axes_filter n (P : Z -> bool) l ks : norm_axes n l = Some ks -> exists ks', norm_axes n (filter P l) = Some ks'.
Proof.
  revert ks. induction l as [|z l IH]; intros ks E; simpl in *. eauto.
  destruct (norm_axis n z) as [k0|] eqn:Ez; try discriminate.
  destruct (norm_axes n l) as [r|] eqn:El; try discriminate.
  destruct (IH r eq_refl) as (ks' & E'). destruct (P z); simpl; eauto. rewrite Ez, E'. eauto.
Qed.

Lemma sq_selected_tuple n l k : n <> 0 ->
  sq_selected n (SqTuple l) k = true <-> exists z, In z l /\ norm_axis n z = Some k.
Proof.
  intros Hn. unfold sq_selected. cbn [sq_dims]. rewrite existsb_exists. split.
  - intros (z & Hz & E). exists z. split; auto. rewrite norm_wrap by auto.
    destruct (wrap_dim n z) as [k'|]; try discriminate. apply Nat.eqb_eq in E. now subst.
  - intros (z & Hz & E). exists z. split; auto. rewrite norm_wrap in E by auto. rewrite E. apply Nat.eqb_refl.
Qed.

Lemma bool_eq_iff (a b : bool) : (a = true <-> b = true) -> a = b.
Proof. destruct a, b; intuition congruence. Qed.

Lemma np_squeeze_some_shape sh l op ks :
  np_squeeze sh (Some l) = Some op -> norm_axes (length sh) l = Some ks ->
  g_out op = select_positions (fun k => negb (memb k ks)) sh.
Proof.
  unfold np_squeeze. intros E N. rewrite N in E.
  destruct (nodupb ks); simpl in E; try discriminate.
  destruct (forallb (fun k => nth k sh 0 =? 1) ks); simpl in E; try discriminate.
  inversion E; subst; clear E. cbn [g_out]. rewrite drop_mask_select by (now rewrite mask_of_length).
  apply select_positions_ext. intros k Hk. now rewrite mask_of_nth.
Qed.

Theorem squeeze_matches_spec sh arg op : fwd_squeeze sh arg = Some op -> spec_squeeze sh arg op.
Proof.
  intros F. destruct (fwd_squeeze_order_preserving _ _ _ F) as (Ei & OP & _).
  unfold spec_squeeze. split; auto. split; auto. unfold spec_squeeze_shape.
  unfold fwd_squeeze in F. destruct arg as [|z|l].
  - (* None *)
    destruct (Nat.eqb_spec (length sh) 0) as [E0|E0].
    + injection F as <-. destruct sh; try discriminate. reflexivity.
    + unfold np_squeeze in F. injection F as <-. cbn [g_out].
      rewrite drop_mask_select by (now rewrite map_length). apply select_positions_ext.
      intros k Hk. unfold sq_selected. cbn [sq_dims]. cbn [andb]. f_equal.
      change false with ((fun d => d =? 1) 0). now rewrite map_nth.
  - (* int *)
    destruct (Nat.eqb_spec (length sh) 0) as [E0|E0].
    + injection F as <-. destruct sh; try discriminate. reflexivity.
    + destruct (norm_axis (length sh) z) as [k0|] eqn:Ez; try discriminate.
      assert (Sel : forall k, sq_selected (length sh) (SqInt z) k = (k0 =? k)).
      { intros k. unfold sq_selected. cbn [sq_dims existsb]. rewrite <- norm_wrap by auto. rewrite Ez. now rewrite orb_false_r. }
      destruct (Nat.eqb_spec (nth k0 sh 0) 1) as [E1|E1].
      * rewrite (np_squeeze_some_shape sh [z] op [k0] F) by (simpl; now rewrite Ez).
        apply select_positions_ext. intros k Hk. f_equal. rewrite Sel. unfold memb. cbn [existsb]. rewrite orb_false_r.
        destruct (Nat.eqb_spec k k0) as [->|Hne]. rewrite Nat.eqb_refl. simpl. symmetry. now apply Nat.eqb_eq.
        destruct (Nat.eqb_spec k0 k); try congruence. reflexivity.
      * injection F as <-. cbn [g_out id_op]. symmetry. apply select_positions_all.
        intros k Hk. rewrite Sel. destruct (Nat.eqb_spec k0 k) as [<-|]; auto. simpl.
        destruct (Nat.eqb_spec (nth k0 sh 0) 1); auto; contradiction.
  - (* tuple *)
    destruct (norm_axes (length sh) l) as [ks|] eqn:En; try discriminate.
    destruct (Nat.eqb_spec (length sh) 0) as [E0|E0].
    + destruct sh; try discriminate. destruct l as [|z l]. injection F as <-. reflexivity.
      simpl in En. rewrite norm_axis_0d in En. discriminate.
    + set (P := fun z => match norm_axis (length sh) z with Some k => nth k sh 0 =? 1 | None => false end) in *.
      assert (Key : forall k, k < length sh ->
                (exists z, In z (filter P l) /\ norm_axis (length sh) z = Some k) <->
                sq_selected (length sh) (SqTuple l) k && (nth k sh 0 =? 1) = true).
      { intros k Hk. rewrite andb_true_iff, sq_selected_tuple by auto. split.
        - intros (z & Hz & Ez). apply filter_In in Hz as [Hz Pz]. unfold P in Pz. rewrite Ez in Pz. split; eauto.
        - intros [(z & Hz & Ez) E1]. exists z. split; auto. apply filter_In. split; auto. unfold P. now rewrite Ez. }
      destruct (filter P l) as [|z0 l0] eqn:Fl.
      * injection F as <-. cbn [g_out id_op]. symmetry. apply select_positions_all. intros k Hk.
        destruct (sq_selected (length sh) (SqTuple l) k && (nth k sh 0 =? 1)) eqn:X; auto.
        apply Key in X; auto. destruct X as (z & [] & _).
      * rewrite <- Fl in *. destruct (norm_axes_filter (length sh) P l ks En) as (ks' & En').
        rewrite (np_squeeze_some_shape sh (filter P l) op ks' F En').
        apply select_positions_ext. intros k Hk. f_equal. apply bool_eq_iff.
        rewrite memb_In, (norm_axes_map _ _ _ En'). now apply Key.
Qed.

(* acceptance of squeeze *)
Lemma norm_axes_all_some n l : (forall z, In z l -> norm_axis n z <> None) -> exists ks, norm_axes n l = Some ks.
Proof.
  intros H. destruct (norm_axes n l) as [ks|] eqn:E. eauto.
  apply norm_axes_none in E as (z & Hz & Ez). exfalso. now apply (H z).
Qed.

Lemma NoDup_map_filter {X Y} (f : X -> Y) (P : X -> bool) l : NoDup (map f l) -> NoDup (map f (filter P l)).
Proof.
  induction l as [|a l IH]; simpl; intros ND; auto. inversion ND; subst.
  destruct (P a); simpl; auto. constructor; auto.
  intro Hc. apply H1. apply in_map_iff in Hc as (x & E & Hx). apply filter_In in Hx as [Hx _].
  apply in_map_iff. eauto.
Qed.

Lemma norm_axes_map_some n : forall l ks, norm_axes n l = Some ks -> map (norm_axis n) l = map Some ks.
Proof.
  induction l as [|z l IH]; intros ks E; simpl in E.
  - inversion E; subst. reflexivity.
  - destruct (norm_axis n z) as [k|] eqn:Ez; try discriminate.
    destruct (norm_axes n l) as [r|] eqn:El; try discriminate. inversion E; subst. simpl. rewrite Ez. f_equal. auto.
Qed.

Theorem squeeze_legal_accepted_partial sh arg :
  sh <> [] -> legal_squeeze sh arg -> fwd_squeeze sh arg <> None.
Proof.
  intros Hne L. assert (Hn : length sh <> 0) by (destruct sh; simpl; congruence).
  unfold fwd_squeeze, legal_squeeze in *. destruct arg as [|z|l]; cbn [sq_dims] in L.
  - destruct (Nat.eqb_spec (length sh) 0); try lia. unfold np_squeeze. discriminate.
  - destruct (Nat.eqb_spec (length sh) 0); try lia. destruct L as [R _].
    specialize (R z (or_introl eq_refl)). rewrite <- norm_wrap in R by auto.
    destruct (norm_axis (length sh) z) as [k|] eqn:Ez; try contradiction.
    destruct (Nat.eqb_spec (nth k sh 0) 1) as [E1|E1]; try discriminate.
    unfold np_squeeze. cbn [norm_axes]. rewrite Ez. cbn [nodupb memb existsb negb andb forallb]. rewrite E1. discriminate.
  - destruct L as [R ND].
    destruct (norm_axes_all_some (length sh) l) as (ks & En).
    { intros z Hz. rewrite norm_wrap by auto. now apply R. }
    rewrite En. set (P := fun z => match norm_axis (length sh) z with Some k => nth k sh 0 =? 1 | None => false end).
    destruct (filter P l) as [|z0 l0] eqn:Fl; try discriminate. rewrite <- Fl.
    destruct (norm_axes_filter (length sh) P l ks En) as (ks' & En').
    unfold np_squeeze. rewrite En'.
    assert (Nd : nodupb ks' = true).
    { apply nodupb_NoDup. apply (NoDup_map_inv Some). rewrite <- (norm_axes_map_some _ _ _ En').
      apply NoDup_map_filter. erewrite map_ext. exact ND. intros z. now apply norm_wrap. }
    assert (Fa : forallb (fun k => nth k sh 0 =? 1) ks' = true).
    { apply forallb_forall. intros k Hk. apply (norm_axes_map _ _ _ En') in Hk as (z & Hz & Ez).
      apply filter_In in Hz as [_ Pz]. unfold P in Pz. now rewrite Ez in Pz. }
    rewrite Nd, Fa. discriminate.
Qed.

Theorem squeeze_accepted_in_range_partial sh arg :
  sh <> [] -> fwd_squeeze sh arg <> None ->
  match sq_dims arg with None => True | Some l => forall z, In z l -> wrap_dim (length sh) z <> None end.
Proof.
  intros Hne A. assert (Hn : length sh <> 0) by (destruct sh; simpl; congruence).
  unfold fwd_squeeze in A. destruct arg as [|z|l]; cbn [sq_dims]; auto.
  - destruct (Nat.eqb_spec (length sh) 0); try lia. intros z' [<-|[]]. rewrite <- norm_wrap by auto.
    destruct (norm_axis (length sh) z); congruence.
  - destruct (norm_axes (length sh) l) as [ks|] eqn:En; try contradiction.
    intros z Hz. rewrite <- norm_wrap by auto. apply (norm_axes_spec _ _ _ En). auto.
Qed.

(* duplicates are only noticed when the named axis has size 1: squeeze((0,0)) of a (2,) tensor is accepted *)
Theorem squeeze_dup_refuted :
  fwd_squeeze [2] (SqTuple [0;0]%Z) <> None /\ ~ legal_squeeze [2] (SqTuple [0;0]%Z).
Proof.
  split. vm_compute. discriminate. intros [_ ND]. cbn in ND. inversion ND; subst. apply H1. now left.
Qed.

(* 0-d tensors: an int dim is never validated, a tuple dim is always rejected *)
Theorem squeeze_0d_refuted :
  (fwd_squeeze [] (SqInt 5) <> None /\ ~ legal_squeeze [] (SqInt 5)) /\
  (legal_squeeze [] (SqTuple [0%Z]) /\ fwd_squeeze [] (SqTuple [0%Z]) = None).
Proof.
  split; split.
  - vm_compute. discriminate.
  - intros [R _]. apply (R 5%Z). now left. reflexivity.
  - split. intros z [<-|[]]. discriminate. cbn. repeat constructor. intros [].
  - reflexivity.
Qed.

(* ------------------------------------------------------------------ unsqueeze *)
Lemma norm_axis_in_range m z : m <> 0 ->
  (norm_axis m z <> None <-> (- Z.of_nat m <= z < Z.of_nat m)%Z).
Proof.
  intros Hm. rewrite norm_wrap by auto. split.
  - intros Hn. destruct (wrap_dim m z) as [k|] eqn:E; try contradiction. apply wrap_dim_some in E as [R _]. cbn zeta in R. lia.
  - intros R E. apply wrap_dim_none in E. cbn zeta in E. lia.
Qed.

Lemma norm_axis_val m z k : norm_axis m z = Some k -> k = Z.to_nat (z mod Z.of_nat m).
Proof.
  intros E. assert (Hm : m <> 0). { intro; subst. rewrite norm_axis_0d in E. discriminate. }
  rewrite norm_wrap in E by auto. apply wrap_dim_some in E as [_ ->]. cbn zeta. f_equal. f_equal. lia.
Qed.

Lemma norm_axes_vals m : forall l ks, norm_axes m l = Some ks -> ks = map (fun z => Z.to_nat (z mod Z.of_nat m)) l.
Proof.
  induction l as [|z l IH]; intros ks E; simpl in E.
  - now inversion E.
  - destruct (norm_axis m z) as [k|] eqn:Ez; try discriminate.
    destruct (norm_axes m l) as [r|] eqn:El; try discriminate. inversion E; subst. simpl. f_equal.
    now apply norm_axis_val. auto.
Qed.

Lemma NoDup_to_nat_mod m l : (0 < m)%Z ->
  (NoDup (map (fun z => Z.to_nat (z mod m)) l) <-> NoDup (map (fun z => (z mod m)%Z) l)).
Proof.
  intros Hm. induction l as [|z l IH]; simpl. split; constructor.
  split; intros ND; inversion ND; subst; constructor; try (now apply IH).
  - intro Hc. apply H1. apply in_map_iff in Hc as (x & E & Hx). apply in_map_iff. exists x. split; auto. now rewrite E.
  - intro Hc. apply H1. apply in_map_iff in Hc as (x & E & Hx). apply in_map_iff. exists x. split; auto.
    pose proof (Z.mod_pos_bound x m Hm). pose proof (Z.mod_pos_bound z m Hm). lia.
Qed.

Theorem unsqueeze_accepts_iff_legal sh arg : fwd_unsqueeze sh arg <> None <-> legal_unsqueeze sh arg.
Proof.
  unfold fwd_unsqueeze, np_expand_dims, legal_unsqueeze. generalize (unsq_axes arg). intros l.
  replace (Z.of_nat (length sh + length l)) with (Z.of_nat (length l + length sh)) by lia.
  set (m := length l + length sh).
  destruct (Nat.eq_dec (length l) 0) as [El|El].
  { destruct l; try discriminate. simpl. split. intros _. split. intros z []. constructor. intros _. discriminate. }
  assert (Hm : m <> 0) by (unfold m; lia).
  split.
  - destruct (norm_axes m l) as [ks|] eqn:En; try contradiction.
    destruct (nodupb ks) eqn:Nd; simpl; try contradiction. intros _.
    destruct (norm_axes_spec _ _ _ En) as (_ & _ & _ & Hr). split.
    + intros z Hz. apply norm_axis_in_range; auto.
    + apply nodupb_NoDup in Nd. rewrite (norm_axes_vals _ _ _ En) in Nd. apply NoDup_to_nat_mod in Nd; auto. lia.
  - intros [R ND]. destruct (norm_axes_all_some m l) as (ks & En).
    { intros z Hz. apply norm_axis_in_range; auto. }
    rewrite En. assert (Nd : nodupb ks = true).
    { apply nodupb_NoDup. rewrite (norm_axes_vals _ _ _ En). apply NoDup_to_nat_mod; auto. lia. }
    rewrite Nd. discriminate.
Qed.

Theorem unsqueeze_matches_spec sh arg op : fwd_unsqueeze sh arg = Some op -> spec_unsqueeze sh arg op.
Proof.
  unfold fwd_unsqueeze, spec_unsqueeze. set (l := unsq_axes arg). intros F.
  apply np_expand_dims_some in F as (ks & En & ND & -> & Cf). cbn [g_in g_out reshape_op].
  replace (length sh + length l) with (length l + length sh) by lia.
  set (m := length l + length sh) in *. set (mask := mask_of m ks) in *. set (out := fill_mask mask 1 sh).
  destruct (fill_mask_fits mask sh Cf) as [Fit Drop]. fold out in Fit, Drop.
  assert (Lo : length out = m). { apply sq_fits_length in Fit. unfold mask in Fit. now rewrite mask_of_length in Fit. }
  assert (Np : forall k, k < m -> existsb (fun z => (z mod Z.of_nat m =? Z.of_nat k)%Z) l = nth k mask false).
  { intros k Hk. unfold mask. rewrite mask_of_nth by auto. apply bool_eq_iff.
    rewrite memb_In, (norm_axes_map _ _ _ En), existsb_exists. split.
    - intros (z & Hz & E). apply Z.eqb_eq in E. exists z. split; auto.
      destruct (norm_axis m z) as [k'|] eqn:Ez.
      + apply norm_axis_val in Ez. subst k'. f_equal. lia.
      + exfalso. apply (norm_axes_spec _ _ _ En) in Hz. contradiction.
    - intros (z & Hz & Ez). exists z. split; auto. apply norm_axis_val in Ez. apply Z.eqb_eq.
      assert (0 < Z.of_nat m)%Z by lia. pose proof (Z.mod_pos_bound z (Z.of_nat m) H). lia. }
  split; auto. split; auto. split; [|split].
  - intros k Hk E. rewrite Np in E by auto. now apply (sq_fits_nth mask).
  - transitivity (drop_mask mask out); [|exact Drop].
    rewrite drop_mask_select by (unfold mask; now rewrite mask_of_length, Lo).
    apply select_positions_ext. intros k Hk. rewrite Lo in Hk. now rewrite Np.
  - apply reshape_op_order_preserving.
    transitivity (size (drop_mask mask out)). now rewrite Drop. now apply size_drop_mask.
Qed.
