(* C09, scalar part: mechanism facts over R about the GENERATED kernels (Gen/GenKernels.v shallow,
   Gen/GenExprs.v deep).  What is and is not claimed:
     - claimed: which values reach np.exp, real-number ranges of results, and the behaviour in the
       saturating model of RealOps.v (exp overflows to +inf above a threshold T, IEEE rules on inf);
     - NOT claimed: anything about float32/float64 rounding or the accuracy of NumPy's exp/log/tanh. *)
From Coq Require Import Reals Lra Lia ZArith QArith Qreals List.
From Interval Require Import Tactic.
Import ListNotations.
From SG Require Import Analysis.RealOps Analysis.Expr Gen.GenKernels Gen.GenExprs Proofs.ExprProofs.
Open Scope R_scope.

(* ---- constants ------------------------------------------------------------------------------------------ *)
(* FLT_MAX = (2 - 2^-23) * 2^127.  exp 88 is representable, exp 89 is not: any threshold T in [88, 89) makes
   "exp x overflows iff x > T" a sound coarse model of float32 exp. *)
Definition FLT_MAX : R := 340282346638528859811704183484516925440.
Lemma exp_88_lt_FLT_MAX : exp 88 < FLT_MAX.
Proof. unfold FLT_MAX. interval with (i_prec 80). Qed.
Lemma FLT_MAX_lt_exp_89 : FLT_MAX < exp 89.
Proof. unfold FLT_MAX. interval with (i_prec 80). Qed.
Lemma exp_m88_tiny : exp (- 88) < 1 / 10 ^ 38.
Proof. interval with (i_prec 80). Qed.

(* ---- selu backward: every exp argument is <= 0, for all real inputs ---------------------------------------- *)
Definition any4 : list itv := [itop; itop; itop; itop].
Definition any2 : list itv := [itop; itop].
Definition any3 : list itv := [itop; itop; itop].

Lemma any_env2 a b : Forall2 in_itv [a; b] any2.
Proof. repeat constructor. Qed.
Lemma any_env3 a b c : Forall2 in_itv [a; b; c] any3.
Proof. repeat constructor. Qed.
Lemma any_env4 a b c d : Forall2 in_itv [a; b; c; d] any4.
Proof. repeat constructor. Qed.

Lemma selu_backward_analysis : exp_args_bounded selu_backward_expr any4 = Some 0%Q.
Proof. vm_compute. reflexivity. Qed.

Lemma selu_backward_exp_args_nonpos_lemma grad a alpha scale :
  exp_args [scale; alpha; a; grad] selu_backward_expr <> [] /\
  Forall (fun v => v <= 0) (exp_args [scale; alpha; a; grad] selu_backward_expr).
Proof.
  split. discriminate.
  pose proof (exp_args_bounded_sound _ _ _ selu_backward_analysis _ (any_env4 scale alpha a grad)) as H.
  eapply Forall_impl; [|exact H]. simpl. intros v Hv. rewrite Q2R_0 in Hv. exact Hv.
Qed.

(* so in the saturating model (any threshold T >= 0) selu_backward never produces inf or NaN and equals the
   real-number kernel *)
Lemma selu_backward_saturating T grad a alpha scale : 0 <= T ->
  xeval T [Fin scale; Fin alpha; Fin a; Fin grad] selu_backward_expr = Fin (selu_backward grad a alpha scale).
Proof.
  intros HT. rewrite <- selu_backward_eval_correct.
  change [Fin scale; Fin alpha; Fin a; Fin grad] with (map Fin [scale; alpha; a; grad]).
  apply (bounded_exp_args_no_overflow T _ _ _ selu_backward_analysis).
  rewrite Q2R_0. exact HT. apply any_env4.
Qed.

(* ---- bce with logits: every exp argument is <= 0 ------------------------------------------------------------- *)
Lemma bce_logits_forward_analysis : exp_args_bounded bce_with_logits_loss_forward_expr any2 = Some 0%Q.
Proof. vm_compute. reflexivity. Qed.
Lemma bce_logits_backward_analysis : exp_args_bounded bce_with_logits_loss_backward_expr any3 = Some 0%Q.
Proof. vm_compute. reflexivity. Qed.

Lemma bce_logits_exp_args_nonpos_lemma grad x y :
  Forall (fun v => v <= 0) (exp_args [y; x] bce_with_logits_loss_forward_expr) /\
  Forall (fun v => v <= 0) (exp_args [y; x; grad] bce_with_logits_loss_backward_expr) /\
  exp_args [y; x] bce_with_logits_loss_forward_expr <> [] /\
  exp_args [y; x; grad] bce_with_logits_loss_backward_expr <> [].
Proof.
  split; [|split; [|split; discriminate]].
  - pose proof (exp_args_bounded_sound _ _ _ bce_logits_forward_analysis _ (any_env2 y x)) as H.
    eapply Forall_impl; [|exact H]. simpl. intros v Hv. rewrite Q2R_0 in Hv. exact Hv.
  - pose proof (exp_args_bounded_sound _ _ _ bce_logits_backward_analysis _ (any_env3 y x grad)) as H.
    eapply Forall_impl; [|exact H]. simpl. intros v Hv. rewrite Q2R_0 in Hv. exact Hv.
Qed.

Lemma bce_logits_saturating T grad x y : 0 <= T ->
  xeval T [Fin y; Fin x] bce_with_logits_loss_forward_expr = Fin (bce_with_logits_loss_forward x y) /\
  xeval T [Fin y; Fin x; Fin grad] bce_with_logits_loss_backward_expr = Fin (bce_with_logits_loss_backward grad x y).
Proof.
  intros HT. rewrite <- bce_with_logits_loss_forward_eval_correct, <- bce_with_logits_loss_backward_eval_correct. split.
  - change [Fin y; Fin x] with (map Fin [y; x]).
    apply (bounded_exp_args_no_overflow T _ _ _ bce_logits_forward_analysis). rewrite Q2R_0. exact HT. apply any_env2.
  - change [Fin y; Fin x; Fin grad] with (map Fin [y; x; grad]).
    apply (bounded_exp_args_no_overflow T _ _ _ bce_logits_backward_analysis). rewrite Q2R_0. exact HT. apply any_env3.
Qed.

(* real-number ranges used by the accuracy discussion: the computed sigmoid branch values lie in (0,1) and the
   argument of the logarithm in (1,2] *)
Lemma bce_logits_ranges x :
  let e := exp (- Rabs x) in 0 < e <= 1 /\ 1 < 1 + e <= 2 /\ 0 < 1 / (1 + e) < 1 /\ 0 < e / (1 + e) < 1.
Proof.
  cbv zeta. assert (P: 0 < exp (- Rabs x)) by apply exp_pos.
  assert (L: exp (- Rabs x) <= 1).
  { rewrite <- exp_0. pose proof (Rabs_pos x) as Hx. destruct Hx as [Hx|Hx].
    left. apply exp_increasing. lra. rewrite <- Hx. rewrite Ropp_0. lra. }
  repeat split; try lra.
  - apply Rdiv_lt_0_compat; lra.
  - apply Rmult_lt_reg_r with (1 + exp (- Rabs x)). lra. unfold Rdiv. rewrite Rmult_assoc, Rinv_l; lra.
  - apply Rdiv_lt_0_compat; lra.
  - apply Rmult_lt_reg_r with (1 + exp (- Rabs x)). lra. unfold Rdiv. rewrite Rmult_assoc, Rinv_l; lra.
Qed.

(* ---- sigmoid: exp (-a) is exposed (argument up to B for |a| <= B) but benign -------------------------------- *)
Definition mag (B:Q) : itv := (Some (Qopp B), Some B).

Lemma sigmoid_analysis_1e4 : exp_args_bounded sigmoid_forward_expr [mag 10000] = Some 10000%Q.
Proof. vm_compute. reflexivity. Qed.

Lemma sigmoid_exp_args a : exp_args [a] sigmoid_forward_expr = [- a].
Proof. reflexivity. Qed.

Lemma sigmoid_exp_arg_le_lemma (B a:R) : - B <= a <= B ->
  Forall (fun v => v <= B) (exp_args [a] sigmoid_forward_expr) /\
  (a = - B -> exp_args [a] sigmoid_forward_expr = [B]).
Proof.
  intros H. rewrite sigmoid_exp_args. split. constructor; [lra|constructor].
  intros ->. now rewrite Ropp_involutive.
Qed.

Lemma sigmoid_range a : 0 < sigmoid_forward a < 1.
Proof.
  unfold sigmoid_forward. assert (0 < exp (- a)) by apply exp_pos. split.
  - apply Rdiv_lt_0_compat; lra.
  - apply Rmult_lt_reg_r with (1 + exp (- a)). lra. unfold Rdiv. rewrite Rmult_assoc, Rinv_l; lra.
Qed.

Lemma sigmoid_lt_exp a : sigmoid_forward a < exp a.
Proof.
  unfold sigmoid_forward. assert (P: 0 < exp (- a)) by apply exp_pos. assert (Q: 0 < exp a) by apply exp_pos.
  assert (E: exp a * exp (- a) = 1). { rewrite <- exp_plus. replace (a + - a) with 0 by ring. apply exp_0. }
  apply Rmult_lt_reg_r with (1 + exp (- a)). lra. unfold Rdiv. rewrite Rmult_assoc, Rinv_l by lra. nra.
Qed.

(* saturating model: when exp (-a) overflows (-a > T) the computed value is 1/(1+inf) = 0; the absolute error
   against the real value is below exp (-T) *)
Lemma sigmoid_saturating_overflow T a : T < - a ->
  xeval T [Fin a] sigmoid_forward_expr = Fin 0 /\ Rabs (0 - sigmoid_forward a) <= exp (- T).
Proof.
  intros H. split.
  - unfold sigmoid_forward_expr. simpl. destruct (Rle_dec (- a) T) as [Hc|_]; [lra|]. reflexivity.
  - pose proof (sigmoid_range a) as R. pose proof (sigmoid_lt_exp a) as L.
    assert (exp a < exp (- T)) by (apply exp_increasing; lra).
    rewrite Rabs_left1 by lra. lra.
Qed.
Lemma sigmoid_saturating_regular T a : - a <= T ->
  xeval T [Fin a] sigmoid_forward_expr = Fin (sigmoid_forward a).
Proof.
  intros H. rewrite <- sigmoid_forward_eval_correct. apply (xeval_no_overflow T sigmoid_forward_expr [a]).
  rewrite sigmoid_exp_args. constructor; [exact H|constructor].
Qed.
(* the backward kernel of sigmoid has no exp at all *)
Lemma sigmoid_backward_no_exp grad s : exp_args [s; grad] sigmoid_backward_expr = [].
Proof. reflexivity. Qed.

(* ---- tanh ------------------------------------------------------------------------------------------------------ *)
Lemma tanh_bounded_lemma a :
  -1 < tanh_forward a < 1 /\ 0 < tanh_backward 1 (tanh_forward a) <= 1 /\
  exp_args [a] tanh_forward_expr = [] /\ (forall g t, exp_args [t; g] tanh_backward_expr = []).
Proof.
  pose proof (tanh_bounds a) as [L U]. unfold tanh_forward, tanh_backward. split; [lra|split; [|split; reflexivity]].
  assert (tanh a ^ 2 < 1). { simpl. rewrite Rmult_1_r. nra. }
  assert (0 <= tanh a ^ 2). { simpl. rewrite Rmult_1_r. nra. }
  lra.
Qed.

(* ---- selu forward: exp a is exposed for a > T, harmless in the saturating model -------------------------------- *)
Lemma selu_forward_exp_args a alpha scale : exp_args [scale; alpha; a] selu_forward_expr = [a].
Proof. reflexivity. Qed.

Lemma selu_forward_analysis_1e4 : exp_args_bounded selu_forward_expr [itop; itop; mag 10000] = Some 10000%Q.
Proof. vm_compute. reflexivity. Qed.

Lemma selu_forward_saturating_overflow T a alpha scale : 0 <= T -> T < a -> 0 < alpha ->
  xeval T [Fin scale; Fin alpha; Fin a] selu_forward_expr = Fin (selu_forward a alpha scale).
Proof.
  intros HT Ha Hal. unfold selu_forward_expr, selu_forward. simpl.
  destruct (Rle_dec a T) as [Hc|_]; [lra|]. simpl.
  unfold xsign_mul. destruct (Req_EM_T alpha 0) as [Hc|_]; [lra|].
  destruct (Rlt_dec 0 alpha) as [_|Hc]; [|lra]. simpl.
  f_equal. f_equal. f_equal. symmetry. apply Rmin_left.
  assert (1 < exp a). { rewrite <- exp_0. apply exp_increasing. lra. } nra.
Qed.
Lemma selu_forward_saturating_regular T a alpha scale : a <= T ->
  xeval T [Fin scale; Fin alpha; Fin a] selu_forward_expr = Fin (selu_forward a alpha scale).
Proof.
  intros H. rewrite <- selu_forward_eval_correct. apply (xeval_no_overflow T selu_forward_expr [scale; alpha; a]).
  rewrite selu_forward_exp_args. constructor; [exact H|constructor].
Qed.
