(* Auxiliary development for the graph-ordering loop of Tensor.backward (Engine/Dfs.v).

   Contents
     1. list / sum lemmas missing from the 8.16 standard library;
     2. [diter] (k iterations of [dstep]) and the instrumented runner [drun_count];
     3. a big-step description [bkids] of "the loop consumes the child entries [cs] of the frame on top
        of the stack" and the proof that the explicit-stack loop realises it ([bkids_sim]);
     4. everything that is proved by induction on [bkids]: the recursive reference [visit], the
        post-order invariant, the zero_() log, the iteration count.

   The user-facing theorems are in Proofs/DfsProofs.v.                                               *)
From Coq Require Import List Bool Arith Lia.
Import ListNotations.
From SG Require Import Engine.Graph Engine.Dfs.

(* ------------------------------------------------------------------------------------------- *)
(** * 1. Lists                                                                                   *)

Lemma mem_In x l : mem x l = true <-> In x l.
Proof.
  unfold mem. rewrite existsb_exists. split.
  - intros (y & Hy & E). apply Nat.eqb_eq in E. now subst.
  - intros Hx. exists x. split; auto. apply Nat.eqb_refl.
Qed.

Lemma mem_notIn x l : mem x l = false <-> ~ In x l.
Proof.
  rewrite <- mem_In. destruct (mem x l); split; intros H.
  - discriminate.
  - exfalso. now apply H.
  - intros E; discriminate.
  - reflexivity.
Qed.

Lemma mem_cons x y l : mem x (y :: l) = (x =? y) || mem x l.
Proof. reflexivity. Qed.

Lemma list_sum_cons a l : list_sum (a :: l) = a + list_sum l.
Proof. reflexivity. Qed.

Lemma list_sum_rev l : list_sum (rev l) = list_sum l.
Proof.
  induction l as [|a l IH]; cbn [rev]; [reflexivity|].
  rewrite list_sum_app, IH, !list_sum_cons. change (list_sum []) with 0. lia.
Qed.

Lemma map_nth_seq_gen {A} (d : A) : forall l2 l1,
  map (fun i => nth i (l1 ++ l2) d) (seq (length l1) (length l2)) = l2.
Proof.
  induction l2 as [|a l2 IH]; intros l1; cbn [length seq map]; [reflexivity|].
  rewrite nth_middle. f_equal.
  specialize (IH (l1 ++ [a])).
  rewrite <- app_assoc in IH. cbn [app] in IH.
  rewrite app_length in IH. cbn [length] in IH. rewrite Nat.add_1_r in IH. exact IH.
Qed.

Lemma map_nth_seq {A} (d : A) l : map (fun i => nth i l d) (seq 0 (length l)) = l.
Proof. exact (map_nth_seq_gen d l []). Qed.

(* a duplicate-free selection weighs at most as much as the whole *)
Lemma list_sum_incl (w : nat -> nat) : forall l l',
  NoDup l -> incl l l' -> list_sum (map w l) <= list_sum (map w l').
Proof.
  induction l as [|x l IH]; intros l' ND Hin; cbn [map]; [cbn; lia|]. rewrite list_sum_cons.
  inversion ND as [|x0 l0 Hx ND']; subst.
  assert (Hx' : In x l') by (apply Hin; left; reflexivity).
  destruct (in_split _ _ Hx') as (a & b & ->).
  assert (Hin' : incl l (a ++ b)).
  { intros y Hy. assert (Hy' : In y (a ++ x :: b)) by (apply Hin; right; exact Hy).
    apply in_app_or in Hy'. apply in_or_app. destruct Hy' as [Hy'|[Hy'|Hy']]; auto.
    subst y. contradiction. }
  specialize (IH _ ND' Hin').
  rewrite map_app, list_sum_app in IH. rewrite map_app, list_sum_app. cbn [map]. rewrite list_sum_cons. lia.
Qed.

(* ------------------------------------------------------------------------------------------- *)
(** * 2. Iterating the loop body; the instrumented runner                                       *)

(* exactly [k] iterations of the loop body *)
Fixpoint diter (g : arena) (k : nat) (s : dstate) : option dstate :=
  match k with
  | O => Some s
  | S k' => match dstep g s with None => None | Some s' => diter g k' s' end
  end.

Lemma diter_add g : forall k1 k2 s s1,
  diter g k1 s = Some s1 -> diter g (k1 + k2) s = diter g k2 s1.
Proof.
  induction k1 as [|k1 IH]; intros k2 s s1 H; cbn [diter Nat.add] in *.
  - now inversion H.
  - destruct (dstep g s) as [s'|]; [|discriminate]. now apply IH.
Qed.

(* [drun] that also counts the executed loop iterations (the final, failing test of the loop
   condition is not an iteration) *)
Fixpoint drun_count (g : arena) (fuel : nat) (s : dstate) (k : nat) : option (dstate * nat) :=
  match dstep g s with
  | None => Some (s, k)
  | Some s' => match fuel with O => None | S f => drun_count g f s' (S k) end
  end.

Lemma drun_count_drun g : forall fuel s k,
  option_map fst (drun_count g fuel s k) = drun g fuel s.
Proof.
  induction fuel as [|f IH]; intros s k; cbn [drun_count drun];
    destruct (dstep g s) as [s'|]; try reflexivity.
  apply IH.
Qed.

Lemma diter_drun_count g : forall k s s',
  diter g k s = Some s' -> dstep g s' = None ->
  forall f k0, k <= f -> drun_count g f s k0 = Some (s', k0 + k).
Proof.
  induction k as [|k IH]; intros s s' Hit Hend f k0 Hle; cbn [diter] in Hit.
  - inversion Hit; subst s'. destruct f; cbn [drun_count]; rewrite Hend; f_equal; f_equal; lia.
  - destruct f as [|f]; [lia|]. cbn [drun_count].
    destruct (dstep g s) as [s1|]; [|discriminate].
    rewrite (IH _ _ Hit Hend f (S k0)) by lia. f_equal; f_equal; lia.
Qed.

(* ------------------------------------------------------------------------------------------- *)
(** * 3. Big-step description of the loop                                                       *)

Lemma wf_children g : wf g -> forall n c, In c (children (getn g n)) -> c < n.
Proof.
  intros Hwf n c Hc. destruct (Nat.lt_ge_cases n (length g)) as [Hn|Hn].
  - specialize (Hwf n Hn). rewrite Forall_forall in Hwf. now apply Hwf.
  - unfold getn in Hc. rewrite nth_overflow in Hc by exact Hn. destruct Hc.
Qed.

Lemma reachable_le g : wf g -> forall n m, reachable g n m -> m <= n.
Proof.
  intros Hwf n m H. induction H as [n|n c m Hc _ IH]; [lia|].
  apply (wf_children g Hwf) in Hc. lia.
Qed.

Lemma reachable_trans g a b c : reachable g a b -> reachable g b c -> reachable g a c.
Proof.
  intros H1 H2. induction H1 as [n|n d m Hd _ IH]; [exact H2|].
  eapply reach_step; eauto.
Qed.

(* everything of the loop state except the stack, plus the iteration counter *)
Record bst := mkB {
  bvis : list nat; bord : list nat; bpres : list nat; bzlog : list nat; bcnt : nat
}.

Definition emb (st : list (nat * list nat)) (b : bst) : dstate :=
  mkD st (bvis b) (bord b) (bpres b) (bzlog b).

(* the iteration that takes child entry [c] from the iterator: the zero_() decision *)
Definition exam (g : arena) (c : nat) (b : bst) : bst :=
  let z := zeroes g (bpres b) c in
  mkB (bvis b) (bord b)
      (if z && negb (mem c (bpres b)) then c :: bpres b else bpres b)
      (if z then c :: bzlog b else bzlog b)
      (S (bcnt b)).
(* ... which, when [c] is new, also marks it and pushes its frame *)
Definition push (c : nat) (b : bst) : bst :=
  mkB (c :: bvis b) (bord b) (bpres b) (bzlog b) (bcnt b).
(* the iteration that finds the iterator of [c] exhausted *)
Definition pop (c : nat) (b : bst) : bst :=
  mkB (bvis b) (c :: bord b) (bpres b) (bzlog b) (S (bcnt b)).

(* [bkids g cs b b']: consuming the child entries [cs] of the top frame turns [b] into [b'] *)
Inductive bkids (g : arena) : list nat -> bst -> bst -> Prop :=
| bk_nil b : bkids g [] b b
| bk_seen c cs b b2 :
    mem c (bvis b) = true ->
    bkids g cs (exam g c b) b2 ->
    bkids g (c :: cs) b b2
| bk_new c cs b b1 b2 :
    mem c (bvis b) = false ->
    bkids g (children (getn g c)) (push c (exam g c b)) b1 ->
    bkids g cs (pop c b1) b2 ->
    bkids g (c :: cs) b b2.

(* on a well-formed arena the description is total *)
Lemma bkids_total g : wf g -> forall cs b, exists b', bkids g cs b b'.
Proof.
  intros Hwf.
  assert (H : forall n cs, (forall c, In c cs -> c < n) -> forall b, exists b', bkids g cs b b').
  { induction n as [n IH] using lt_wf_ind.
    induction cs as [|c cs IHcs]; intros Hlt b.
    - exists b. constructor.
    - assert (Hc : c < n) by (apply Hlt; left; reflexivity).
      assert (Hcs : forall c', In c' cs -> c' < n) by (intros c' Hc'; apply Hlt; right; exact Hc').
      destruct (mem c (bvis b)) eqn:Hm.
      + destruct (IHcs Hcs (exam g c b)) as (b2 & H2). exists b2. now apply bk_seen.
      + destruct (IH c Hc (children (getn g c)) (wf_children g Hwf c) (push c (exam g c b)))
          as (b1 & H1).
        destruct (IHcs Hcs (pop c b1)) as (b2 & H2). exists b2. eapply bk_new; eauto. }
  intros cs b. apply (H (S (list_max cs)) cs).
  intros c Hc. pose proof (list_max_le cs (list_max cs)) as [Hle _].
  specialize (Hle (le_n _)). rewrite Forall_forall in Hle. specialize (Hle c Hc). lia.
Qed.

(* the three kinds of loop iteration *)
Lemma dstep_seen g n c cs rest b : mem c (bvis b) = true ->
  dstep g (emb ((n, c :: cs) :: rest) b) = Some (emb ((n, cs) :: rest) (exam g c b)).
Proof. intros H. unfold dstep, emb. cbn [stack vis rord present zlog]. rewrite H. reflexivity. Qed.

Lemma dstep_new g n c cs rest b : mem c (bvis b) = false ->
  dstep g (emb ((n, c :: cs) :: rest) b)
  = Some (emb ((c, children (getn g c)) :: (n, cs) :: rest) (push c (exam g c b))).
Proof. intros H. unfold dstep, emb. cbn [stack vis rord present zlog]. rewrite H. reflexivity. Qed.

Lemma dstep_pop g n rest b :
  dstep g (emb ((n, []) :: rest) b) = Some (emb rest (pop n b)).
Proof. reflexivity. Qed.

Lemma dstep_done g b : dstep g (emb [] b) = None.
Proof. reflexivity. Qed.

(* the explicit-stack loop realises the description, in exactly [bcnt b' - bcnt b] iterations *)
Lemma bkids_sim g : forall cs b b', bkids g cs b b' ->
  forall n more rest, exists k,
    diter g k (emb ((n, cs ++ more) :: rest) b) = Some (emb ((n, more) :: rest) b') /\
    bcnt b' = bcnt b + k.
Proof.
  induction 1 as [b | c cs b b2 Hm _ IH | c cs b b1 b2 Hm _ IH1 _ IH2]; intros n more rest.
  - exists 0. split; [reflexivity|lia].
  - destruct (IH n more rest) as (k & Hk & Hc).
    exists (S k). split.
    + cbn [diter app]. rewrite dstep_seen by exact Hm. exact Hk.
    + rewrite Hc. cbn [exam bcnt]. lia.
  - destruct (IH1 c [] ((n, cs ++ more) :: rest)) as (k1 & Hk1 & Hc1).
    destruct (IH2 n more rest) as (k2 & Hk2 & Hc2).
    rewrite app_nil_r in Hk1.
    exists (S (k1 + (1 + k2))). split.
    + cbn [diter app]. rewrite dstep_new by exact Hm.
      rewrite (diter_add g k1 (1 + k2) _ _ Hk1).
      cbn [Nat.add diter]. rewrite dstep_pop. exact Hk2.
    + rewrite Hc2. cbn [pop bcnt]. rewrite Hc1. cbn [push exam bcnt]. lia.
Qed.

(* ------------------------------------------------------------------------------------------- *)
(** * 4a. The recursive reference                                                                *)

Lemma visit_seen g f n vs ro : mem n vs = true -> visit g f n (vs, ro) = (vs, ro).
Proof. intros H. destruct f; cbn [visit]; rewrite H; reflexivity. Qed.

Lemma bkids_visit g : wf g -> forall cs b b', bkids g cs b b' ->
  forall f, (forall c, In c cs -> c < f) ->
  fold_left (fun acc c => visit g f c acc) cs (bvis b, bord b) = (bvis b', bord b').
Proof.
  intros Hwf.
  induction 1 as [b | c cs b b2 Hm _ IH | c cs b b1 b2 Hm _ IH1 _ IH2]; intros f Hlt.
  - reflexivity.
  - cbn [fold_left]. rewrite visit_seen by exact Hm.
    apply (IH f). intros c' Hc'. apply Hlt. right; exact Hc'.
  - cbn [fold_left].
    assert (Hc : c < f) by (apply Hlt; left; reflexivity).
    destruct f as [|f]; [lia|].
    assert (E : visit g (S f) c (bvis b, bord b) = (bvis (pop c b1), bord (pop c b1))).
    { cbn [visit]. rewrite Hm.
      assert (Hk : forall d, In d (children (getn g c)) -> d < f).
      { intros d Hd. apply (wf_children g Hwf) in Hd. lia. }
      specialize (IH1 f Hk). cbn [push exam bvis bord] in IH1. rewrite IH1. reflexivity. }
    rewrite E. apply (IH2 (S f)). intros c' Hc'. apply Hlt. right; exact Hc'.
Qed.

(* ------------------------------------------------------------------------------------------- *)
(** * 4b. The post-order invariant                                                              *)

(* in [l] (most recent first) the children of every entry occur further down *)
Definition closed (g : arena) (l : list nat) : Prop :=
  forall l1 p l2, l = l1 ++ p :: l2 -> forall c, In c (children (getn g p)) -> In c l2.

Lemma closed_nil g : closed g [].
Proof. intros l1 p l2 E. destruct l1; discriminate. Qed.

Lemma closed_cons g n l :
  closed g l -> (forall c, In c (children (getn g n)) -> In c l) -> closed g (n :: l).
Proof.
  intros Hc Hn l1 p l2 E c Hin.
  destruct l1 as [|a l1]; cbn [app] in E; inversion E; subst; eauto.
Qed.

Lemma closed_children g l : closed g l ->
  forall n c, In n l -> In c (children (getn g n)) -> In c l.
Proof.
  intros Hc n c Hn Hin. destruct (in_split _ _ Hn) as (l1 & l2 & E).
  specialize (Hc l1 n l2 E c Hin). rewrite E. apply in_or_app. right. right. exact Hc.
Qed.

Lemma closed_reachable g l : closed g l ->
  forall n m, reachable g n m -> In n l -> In m l.
Proof.
  intros Hc n m H. induction H as [n|n c m Hin _ IH]; intros Hn; [exact Hn|].
  apply IH. eapply closed_children; eauto.
Qed.

(* listed nodes are distinct, children-closed and visited; the visited-but-unlisted nodes (those with
   a frame on the stack) all lie at or above [n], the node whose child entries are being consumed *)
Definition Inv (g : arena) (n : nat) (b : bst) : Prop :=
  NoDup (bord b) /\ closed g (bord b) /\ incl (bord b) (bvis b) /\
  (forall x, In x (bvis b) -> ~ In x (bord b) -> n <= x).

Lemma bkids_spec g : wf g -> forall cs b b', bkids g cs b b' ->
  forall n, (forall c, In c cs -> c < n) -> Inv g n b ->
  Inv g n b' /\ (forall c, In c cs -> In c (bord b')) /\
  exists new, bord b' = new ++ bord b /\
    (forall x, In x new -> x < n /\ exists c, In c cs /\ reachable g c x) /\
    (forall x, In x (bvis b') <-> In x new \/ In x (bvis b)) /\
    (forall x, In x new -> ~ In x (bvis b)).
Proof.
  intros Hwf.
  induction 1 as [b | c cs b b2 Hm _ IH | c cs b b1 b2 Hm _ IH1 _ IH2]; intros n Hlt HI.
  - split; [exact HI|]. split; [intros c []|]. exists []. cbn [app].
    split; [reflexivity|]. split; [intros x []|]. split; [intros x; cbn [In]; tauto|intros x []].
  - assert (Hc : c < n) by (apply Hlt; left; reflexivity).
    assert (Hcs : forall c', In c' cs -> c' < n) by (intros c' Hc'; apply Hlt; right; exact Hc').
    apply mem_In in Hm.
    assert (Hco : In c (bord b)).
    { destruct HI as (_ & _ & _ & ST).
      destruct (in_dec Nat.eq_dec c (bord b)) as [Hin|Hnin]; [exact Hin|].
      specialize (ST c Hm Hnin). lia. }
    destruct (IH n Hcs HI) as (HI2 & Hin2 & new & E & Hnew & Hvis & Hfresh).
    cbn [exam bord bvis] in E, Hvis, Hfresh.
    split; [exact HI2|]. split.
    + intros c' [<-|Hc']; [|now apply Hin2]. rewrite E. apply in_or_app. right. exact Hco.
    + exists new. split; [exact E|]. split; [|split; assumption].
      intros x Hx. destruct (Hnew x Hx) as (Hxn & d & Hd & Hr). split; [exact Hxn|].
      exists d. split; [right; exact Hd|exact Hr].
  - assert (Hc : c < n) by (apply Hlt; left; reflexivity).
    assert (Hcs : forall c', In c' cs -> c' < n) by (intros c' Hc'; apply Hlt; right; exact Hc').
    apply mem_notIn in Hm.
    destruct HI as (ND & CL & OV & ST).
    (* the frame of [c] *)
    assert (HI0 : Inv g c (push c (exam g c b))).
    { unfold Inv. cbn [push exam bord bvis]. repeat split; auto.
      - intros x Hx. right. now apply OV.
      - intros x [<-|Hx] Hnx; [lia|]. specialize (ST x Hx Hnx). lia. }
    destruct (IH1 c (wf_children g Hwf c) HI0)
      as ((ND1 & CL1 & OV1 & ST1) & Hin1 & new1 & E1 & Hnew1 & Hvis1 & Hfresh1).
    cbn [push exam bord bvis] in E1, Hvis1, Hfresh1.
    (* after popping [c] *)
    assert (Hcn1 : ~ In c (bord b1)).
    { rewrite E1. intros Hx. apply in_app_or in Hx. destruct Hx as [Hx|Hx].
      - destruct (Hnew1 c Hx) as (Hlt1 & _). lia.
      - apply Hm. now apply OV. }
    assert (HIp : Inv g n (pop c b1)).
    { unfold Inv. cbn [pop bord bvis]. repeat split.
      - constructor; assumption.
      - apply closed_cons; assumption.
      - intros x [<-|Hx]; [|now apply OV1]. apply Hvis1. right. left. reflexivity.
      - intros x Hx Hnx. apply Hvis1 in Hx. destruct Hx as [Hx|[<-|Hx]].
        + exfalso. apply Hnx. right. rewrite E1. apply in_or_app. left. exact Hx.
        + exfalso. apply Hnx. left. reflexivity.
        + apply ST; [exact Hx|]. intros Hxo. apply Hnx. right. rewrite E1.
          apply in_or_app. right. exact Hxo. }
    destruct (IH2 n Hcs HIp) as (HI2 & Hin2 & new2 & E2 & Hnew2 & Hvis2 & Hfresh2).
    cbn [pop bord bvis] in E2, Hvis2, Hfresh2.
    split; [exact HI2|]. split.
    + intros c' [<-|Hc']; [|now apply Hin2]. rewrite E2. apply in_or_app. right. left. reflexivity.
    + exists (new2 ++ c :: new1). split.
      { rewrite E2, E1. rewrite <- app_assoc. reflexivity. }
      split.
      { intros x Hx. apply in_app_or in Hx. destruct Hx as [Hx|[<-|Hx]].
        - destruct (Hnew2 x Hx) as (Hxn & d & Hd & Hr). split; [exact Hxn|].
          exists d. split; [right; exact Hd|exact Hr].
        - split; [exact Hc|]. exists c. split; [left; reflexivity|constructor].
        - destruct (Hnew1 x Hx) as (Hxc & d & Hd & Hr). split; [lia|].
          exists c. split; [left; reflexivity|]. eapply reach_step; eauto. }
      split.
      { intros x. rewrite Hvis2, Hvis1, in_app_iff. cbn [In]. split.
        - intros [Hx|[Hx|[Hx|Hx]]]; auto.
        - intros [[Hx|[Hx|Hx]]|Hx]; auto. }
      { intros x Hx Hxv. apply in_app_or in Hx. destruct Hx as [Hx|[<-|Hx]].
        - apply (Hfresh2 x Hx). apply Hvis1. right. right. exact Hxv.
        - contradiction.
        - apply (Hfresh1 x Hx). right. exact Hxv. }
Qed.

(* ------------------------------------------------------------------------------------------- *)
(** * 4c. The zero_() log                                                                       *)

(* the nodes that get (at least) one zero_() when met as a child entry, in terms of the buffers
   present before the call *)
Definition zcond (g : arena) (p0 : list nat) (x : nat) : Prop :=
  req (getn g x) = true /\ (~ In x p0 \/ is_leaf (getn g x) = false).

(* [x] is a child entry of some node of [l] *)
Definition kidsof (g : arena) (l : list nat) (x : nat) : Prop :=
  exists m, In m l /\ In x (children (getn g m)).

Lemma kidsof_nil g x : kidsof g [] x <-> False.
Proof. split; [intros (m & [] & _)|intros []]. Qed.

Lemma kidsof_cons g n l x : kidsof g (n :: l) x <-> In x (children (getn g n)) \/ kidsof g l x.
Proof.
  split.
  - intros (m & [<-|Hm] & Hx); [left; exact Hx|right; exists m; auto].
  - intros [Hx|(m & Hm & Hx)]; [exists n; split; [left; reflexivity|exact Hx]|].
    exists m. split; [right; exact Hm|exact Hx].
Qed.

Lemma kidsof_app g l1 l2 x : kidsof g (l1 ++ l2) x <-> kidsof g l1 x \/ kidsof g l2 x.
Proof.
  split.
  - intros (m & Hm & Hx). apply in_app_or in Hm. destruct Hm; [left|right]; exists m; auto.
  - intros [(m & Hm & Hx)|(m & Hm & Hx)]; exists m; split; auto; apply in_or_app; auto.
Qed.

(* the buffers present are the initial ones plus the zeroed ones *)
Definition PresInv (p0 : list nat) (b : bst) : Prop :=
  forall x, In x (bpres b) <-> In x p0 \/ In x (bzlog b).

Lemma exam_zlog g p0 c b : PresInv p0 b ->
  PresInv p0 (exam g c b) /\
  (forall x, In x (bzlog (exam g c b)) <-> In x (bzlog b) \/ (zcond g p0 x /\ x = c)).
Proof.
  intros HP. unfold exam, zeroes, zcond, PresInv in *. cbn [bpres bzlog].
  destruct (req (getn g c)) eqn:Hr; cbn [andb].
  - destruct (mem c (bpres b)) eqn:Hm; cbn [negb orb andb].
    + apply mem_In in Hm.
      destruct (is_leaf (getn g c)) eqn:Hl; cbn [negb andb].
      * split; [exact HP|]. intros x. split; [tauto|].
        intros [Hx|((_ & [Hx|Hx]) & ->)]; [exact Hx| |congruence].
        apply HP in Hm. tauto.
      * split.
        -- intros x. cbn [In]. rewrite HP. split; [tauto|].
           intros [Hx|[<-|Hx]]; [tauto| |tauto]. apply HP. exact Hm.
        -- intros x. cbn [In]. split.
           ++ intros [<-|Hx]; [|tauto]. right. split; [|reflexivity]. split; [exact Hr|right; exact Hl].
           ++ intros [Hx|(_ & ->)]; tauto.
    + apply mem_notIn in Hm. split.
      * intros x. cbn [In]. rewrite HP. tauto.
      * intros x. cbn [In]. split.
        -- intros [<-|Hx]; [|tauto]. right. split; [|reflexivity]. split; [exact Hr|].
           left. intros Hp. apply Hm. apply HP. left. exact Hp.
        -- intros [Hx|(_ & ->)]; tauto.
  - split; [exact HP|]. intros x. split; [tauto|].
    intros [Hx|((Hx & _) & ->)]; [exact Hx|congruence].
Qed.

Lemma bkids_zlog g p0 : forall cs b b', bkids g cs b b' -> PresInv p0 b ->
  PresInv p0 b' /\
  exists new, bord b' = new ++ bord b /\
    forall x, In x (bzlog b') <->
              In x (bzlog b) \/ (zcond g p0 x /\ (In x cs \/ kidsof g new x)).
Proof.
  induction 1 as [b | c cs b b2 Hm _ IH | c cs b b1 b2 Hm _ IH1 _ IH2]; intros HP.
  - split; [exact HP|]. exists []. split; [reflexivity|].
    intros x. rewrite kidsof_nil. cbn [In]. tauto.
  - destruct (exam_zlog g p0 c b HP) as (HP1 & Hz1).
    destruct (IH HP1) as (HP2 & new & E & Hz2).
    split; [exact HP2|]. exists new. split; [exact E|].
    intros x. rewrite Hz2, Hz1. cbn [In]. split.
    + intros [[Hx|(Hx & ->)]|(Hx & Hy)]; tauto.
    + intros [Hx|(Hx & [[<-|Hy]|Hy])]; tauto.
  - destruct (exam_zlog g p0 c b HP) as (HP0 & Hz0).
    assert (HP0' : PresInv p0 (push c (exam g c b))) by exact HP0.
    destruct (IH1 HP0') as (HP1 & new1 & E1 & Hz1).
    assert (HP1' : PresInv p0 (pop c b1)) by exact HP1.
    destruct (IH2 HP1') as (HP2 & new2 & E2 & Hz2).
    cbn [push pop exam bord bzlog] in E1, E2, Hz1, Hz2.
    split; [exact HP2|]. exists (new2 ++ c :: new1). split.
    { rewrite E2, E1. rewrite <- app_assoc. reflexivity. }
    intros x. rewrite Hz2, Hz1.
    change (bzlog (push c (exam g c b))) with (bzlog (exam g c b)). rewrite Hz0.
    rewrite kidsof_app, kidsof_cons. cbn [In]. split.
    + intros [[[Hx|(Hx & ->)]|(Hx & Hy)]|(Hx & Hy)]; tauto.
    + intros [Hx|(Hx & [[<-|Hy]|Hy])]; tauto.
Qed.

(* a leaf is zeroed at most once in a whole traversal (its accumulated gradient is never reset
   after the first visit) *)
Lemma exam_leaf_once g c b x :
  is_leaf (getn g x) = true ->
  (forall y, In y (bzlog b) -> In y (bpres b)) ->
  count_occ Nat.eq_dec (bzlog b) x <= 1 ->
  (forall y, In y (bzlog (exam g c b)) -> In y (bpres (exam g c b))) /\
  count_occ Nat.eq_dec (bzlog (exam g c b)) x <= 1.
Proof.
  intros Hl Hsub Hcnt. unfold exam, zeroes. cbn [bpres bzlog].
  destruct (req (getn g c)) eqn:Hr; cbn [andb]; [|split; assumption].
  destruct (mem c (bpres b)) eqn:Hm; cbn [negb orb andb].
  - apply mem_In in Hm. destruct (is_leaf (getn g c)) eqn:Hlc; cbn [negb]; [split; assumption|].
    split.
    + intros y [<-|Hy]; auto.
    + cbn [count_occ]. destruct (Nat.eq_dec c x) as [->|Hne]; [congruence|exact Hcnt].
  - apply mem_notIn in Hm. split.
    + intros y [<-|Hy]; [left; reflexivity|right; auto].
    + cbn [count_occ]. destruct (Nat.eq_dec c x) as [->|Hne]; [|exact Hcnt].
      assert (Hz : ~ In x (bzlog b)) by (intros Hx; apply Hm; auto).
      apply (count_occ_not_In Nat.eq_dec) in Hz. lia.
Qed.

Lemma bkids_leaf_once g x : is_leaf (getn g x) = true ->
  forall cs b b', bkids g cs b b' ->
  (forall y, In y (bzlog b) -> In y (bpres b)) ->
  count_occ Nat.eq_dec (bzlog b) x <= 1 ->
  (forall y, In y (bzlog b') -> In y (bpres b')) /\ count_occ Nat.eq_dec (bzlog b') x <= 1.
Proof.
  intros Hl.
  induction 1 as [b | c cs b b2 Hm _ IH | c cs b b1 b2 Hm _ IH1 _ IH2]; intros Hsub Hcnt.
  - split; assumption.
  - destruct (exam_leaf_once g c b x Hl Hsub Hcnt) as (H1 & H2). now apply IH.
  - destruct (exam_leaf_once g c b x Hl Hsub Hcnt) as (H1 & H2).
    destruct (IH1 H1 H2) as (H3 & H4). now apply IH2.
Qed.

(* ------------------------------------------------------------------------------------------- *)
(** * 4d. The iteration count                                                                   *)

(* iterations attributable to node [n]: one per child entry, one for the pop *)
Definition weight (g : arena) (n : nat) : nat := S (length (children (getn g n))).
Definition cost (g : arena) (l : list nat) : nat := list_sum (map (weight g) l).

Lemma bkids_count g : forall cs b b', bkids g cs b b' ->
  bcnt b' + cost g (bord b) = bcnt b + length cs + cost g (bord b').
Proof.
  induction 1 as [b | c cs b b2 Hm _ IH | c cs b b1 b2 Hm _ IH1 _ IH2].
  - cbn [length]. lia.
  - cbn [exam bcnt bord length] in *. lia.
  - cbn [exam push pop bcnt bord length] in *.
    unfold cost in *. cbn [map] in IH2. rewrite list_sum_cons in IH2. unfold weight at 1 in IH2. lia.
Qed.

Lemma dfs_fuel_cost g : dfs_fuel g = S (cost g (seq 0 (length g))).
Proof.
  unfold dfs_fuel, cost. f_equal.
  assert (E : map (weight g) (seq 0 (length g))
              = map (fun nd => S (length (children nd))) (map (fun i => nth i g dummy_node) (seq 0 (length g)))).
  { rewrite map_map. reflexivity. }
  rewrite E, map_nth_seq. clear E.
  induction g as [|nd g IH]; cbn [fold_right map]; [reflexivity|]. rewrite list_sum_cons, IH. reflexivity.
Qed.
