(* Side lemma for C18: the split size as the code computes it,  int(np.floor(test_split * data_size)),  with the
   product evaluated in IEEE-754 binary64 (round to nearest even of the exact product; data_size < 2^53 converts
   exactly).  For any fraction 0 <= q <= 1 the result lies in [0, n], so the slices indices[:k] / indices[k:] of the
   model (State/Data.v) are ordinary prefixes and suffixes.  Uses Flocq's generic rounding on the reals. *)
From Coq Require Import Reals ZArith Lia Lra.
From Flocq Require Import Core.
Local Open Scope R_scope.

Definition b64_exp := FLT_exp (-1074) 53.
Definition b64_round (x : R) : R := round radix2 b64_exp ZnearestE x.

Local Instance prec53 : Prec_gt_0 53.
Proof. unfold Prec_gt_0. lia. Qed.

Lemma b64_int_exact (n : Z) : (Z.abs n < 2 ^ 53)%Z -> b64_round (IZR n) = IZR n.
Proof.
  intro Hn. unfold b64_round, b64_exp. apply round_generic; [apply valid_rnd_N|].
  apply generic_format_FLT. apply (FLT_spec radix2 (-1074) 53 (IZR n) (Float radix2 n 0)).
  - unfold F2R. simpl. ring.
  - simpl. exact Hn.
  - simpl. lia.
Qed.

Theorem float_floor_rule_range (q : R) (n : Z) :
  0 <= q <= 1 -> (0 <= n < 2 ^ 53)%Z ->
  (0 <= Zfloor (b64_round (q * IZR n)) <= n)%Z.
Proof.
  intros [Hq0 Hq1] [Hn0 Hn1].
  assert (Hn : 0 <= IZR n) by (apply IZR_le; exact Hn0).
  assert (Hlo : 0 <= b64_round (q * IZR n)).
  { unfold b64_round. rewrite <- (round_0 radix2 b64_exp ZnearestE).
    apply round_le; [apply FLT_exp_valid; apply prec53|apply valid_rnd_N|].
    apply Rmult_le_pos; assumption. }
  assert (Hhi : b64_round (q * IZR n) <= IZR n).
  { rewrite <- (b64_int_exact n) at 2 by (rewrite Z.abs_eq by exact Hn0; exact Hn1).
    unfold b64_round. apply round_le; [apply FLT_exp_valid; apply prec53|apply valid_rnd_N|].
    rewrite <- (Rmult_1_l (IZR n)) at 2. apply Rmult_le_compat_r; assumption. }
  split.
  - rewrite <- (Zfloor_IZR 0). apply Zfloor_le. exact Hlo.
  - rewrite <- (Zfloor_IZR n) at 2. apply Zfloor_le. exact Hhi.
Qed.
