(* Proofs about Engine/Sweep.v: the reverse sweep computes the sum over all paths (C03), every closure is
   called exactly once, the result does not depend on which post-order is used, untracked results keep
   nothing (C17).  Generic in the gradient algebra (any commutative monoid of values with additively
   acting weights). *)
From Coq Require Import List Bool Arith Lia Permutation.
Import ListNotations.
From SG Require Import Engine.Graph Engine.Dfs Engine.Sweep.

(* ---------------------------------------------------------------- lists *)
Lemma nodup_split_unique {X} (x : X) : forall a1 a2 b1 b2,
  NoDup (a1 ++ x :: a2) -> a1 ++ x :: a2 = b1 ++ x :: b2 -> a1 = b1 /\ a2 = b2.
Proof.
  induction a1 as [|y a1 IH]; intros a2 b1 b2 Hnd Heq.
  - destruct b1 as [|z b1]; simpl in *.
    + inversion Heq; auto.
    + injection Heq as Hz Ht. subst z. apply NoDup_cons_iff in Hnd. destruct Hnd as [Hni _].
      exfalso. apply Hni. rewrite Ht. apply in_or_app. right; left; reflexivity.
  - destruct b1 as [|z b1]; simpl in *.
    + injection Heq as Hz Ht. subst y. apply NoDup_cons_iff in Hnd. destruct Hnd as [Hni _].
      exfalso. apply Hni. apply in_or_app. right; left; reflexivity.
    + injection Heq as Hz Ht. subst z. apply NoDup_cons_iff in Hnd. destruct Hnd as [_ Hnd].
      destruct (IH _ _ _ Hnd Ht) as [-> ->]. auto.
Qed.

Lemma NoDup_app_l {X} (l1 l2 : list X) : NoDup (l1 ++ l2) -> NoDup l1.
Proof.
  induction l1 as [|x l1 IH]; simpl; intros H; [constructor|].
  inversion H; subst. constructor; [|auto]. intro Hin. apply H2. apply in_or_app; auto.
Qed.

Lemma NoDup_app_r {X} (l1 l2 : list X) : NoDup (l1 ++ l2) -> NoDup l2.
Proof. induction l1 as [|x l1 IH]; simpl; intros H; auto. inversion H; auto. Qed.

Lemma NoDup_app_disj {X} (l1 l2 : list X) x : NoDup (l1 ++ l2) -> In x l1 -> In x l2 -> False.
Proof.
  induction l1 as [|y l1 IH]; simpl; intros H H1 H2; [tauto|].
  inversion H; subst. destruct H1 as [->|H1]; [|eauto].
  apply H4. apply in_or_app; auto.
Qed.

Lemma NoDup_rev' {X} (l : list X) : NoDup l -> NoDup (rev l).
Proof. intros H. eapply Permutation_NoDup; [apply Permutation_rev|exact H]. Qed.

Lemma in_indexed_gen {X} (c : X) : forall (l : list X) s k,
  In (k, c) (combine (seq s (length l)) l) <-> (s <= k /\ nth_error l (k - s) = Some c).
Proof.
  induction l as [|x l IH]; intros s k; simpl.
  - split; [tauto|]. intros [_ H]. destruct (k - s); discriminate.
  - rewrite IH. split.
    + intros [H|[H1 H2]].
      * inversion H; subst. rewrite Nat.sub_diag. simpl; split; [lia|reflexivity].
      * split; [lia|]. replace (k - s) with (S (k - S s)) by lia. exact H2.
    + intros [H1 H2]. destruct (Nat.eq_dec s k) as [->|Hne].
      * rewrite Nat.sub_diag in H2. simpl in H2. inversion H2; subst. left; reflexivity.
      * right. split; [lia|]. replace (k - s) with (S (k - S s)) in H2 by lia. exact H2.
Qed.

Lemma in_indexed {X} (l : list X) k c : In (k, c) (indexed l) <-> nth_error l k = Some c.
Proof.
  unfold indexed. rewrite in_indexed_gen. rewrite Nat.sub_0_r. split; [tauto|]. split; [lia|auto].
Qed.

Lemma in_indexed_snd {X} (l : list X) kc : In kc (indexed l) -> In (snd kc) l.
Proof. destruct kc as [k c]. unfold indexed. intros H. apply in_combine_r in H. exact H. Qed.

Lemma mem_In x l : mem x l = true <-> In x l.
Proof.
  unfold mem. rewrite existsb_exists. split.
  - intros [y [H1 H2]]. apply Nat.eqb_eq in H2. subst; auto.
  - intros H. exists x. split; auto. apply Nat.eqb_refl.
Qed.

Lemma Permutation_filter' {X} (f : X -> bool) l l' :
  Permutation l l' -> Permutation (filter f l) (filter f l').
Proof.
  induction 1; simpl; auto.
  - destruct (f x); auto.
  - destruct (f x), (f y); auto. apply perm_swap.
  - eapply Permutation_trans; eauto.
Qed.

Lemma NoDup_app_intro {X} (l1 l2 : list X) :
  NoDup l1 -> NoDup l2 -> (forall x, In x l1 -> ~ In x l2) -> NoDup (l1 ++ l2).
Proof.
  induction l1 as [|a l1 IH]; intros H1 H2 Hd; [exact H2|].
  cbn [app]. apply NoDup_cons_iff in H1. destruct H1 as [Ha H1]. constructor.
  - intros Hin. apply in_app_or in Hin. destruct Hin as [Hin|Hin]; [tauto|]. apply (Hd a); [left; reflexivity|exact Hin].
  - apply IH; [exact H1|exact H2|]. intros x Hx. apply Hd. right; exact Hx.
Qed.

Lemma NoDup_flat_map {X Y} (F : X -> list Y) (l : list X) :
  NoDup l -> (forall x, In x l -> NoDup (F x)) ->
  (forall x y z, In x l -> In y l -> x <> y -> In z (F x) -> ~ In z (F y)) ->
  NoDup (flat_map F l).
Proof.
  induction l as [|a l IH]; intros Hnd HF Hd; [constructor|].
  cbn [flat_map]. apply NoDup_cons_iff in Hnd. destruct Hnd as [Ha Hnd].
  apply NoDup_app_intro.
  - apply HF. left; reflexivity.
  - apply IH; [exact Hnd| |].
    + intros x Hx. apply HF. right; exact Hx.
    + intros x y z Hx Hy. apply Hd; right; assumption.
  - intros z Hz Hin. apply in_flat_map in Hin. destruct Hin as [y [Hy Hzy]].
    apply (Hd a y z); [left; reflexivity|right; exact Hy| |exact Hz|exact Hzy].
    intros ->. tauto.
Qed.

Lemma NoDup_indexed {X} (l : list X) : NoDup (indexed l).
Proof.
  unfold indexed. generalize 0%nat as s. induction l as [|x l IH]; intros s; cbn [length seq combine]; [constructor|].
  constructor; [|apply IH].
  intros Hin. apply in_combine_l in Hin. apply in_seq in Hin. lia.
Qed.

Lemma filter_none {X} (f : X -> bool) l : (forall x, In x l -> f x = false) -> filter f l = [].
Proof.
  induction l as [|x l IH]; intros H; [reflexivity|]. cbn [filter].
  rewrite (H x) by (left; reflexivity). apply IH. intros y Hy. apply H. right; exact Hy.
Qed.

(* ---------------------------------------------------------------- graph *)
Lemma getn_overflow g n : length g <= n -> getn g n = dummy_node.
Proof. intros H. unfold getn. apply nth_overflow. exact H. Qed.

Lemma children_lt g n c : wf g -> In c (children (getn g n)) -> c < n.
Proof.
  intros Hwf Hin. destruct (lt_dec n (length g)) as [Hlt|Hge].
  - specialize (Hwf n Hlt). rewrite Forall_forall in Hwf. auto.
  - rewrite getn_overflow in Hin by lia. simpl in Hin. tauto.
Qed.

Lemma sw_reachable_le g r v : wf g -> reachable g r v -> v <= r.
Proof.
  intros Hwf H. induction H; [lia|]. apply (children_lt _ _ _ Hwf) in H. lia.
Qed.

Lemma sw_reachable_trans g a b c : reachable g a b -> reachable g b c -> reachable g a c.
Proof. induction 1; auto. intros. econstructor; eauto. Qed.

Lemma reachb_f_sound g : forall fuel r v, reachb_f g fuel r v = true -> reachable g r v.
Proof.
  induction fuel as [|f IH]; intros r v H; simpl in H.
  - rewrite orb_false_r in H. apply Nat.eqb_eq in H. subst. constructor.
  - apply orb_true_iff in H. destruct H as [H|H].
    + apply Nat.eqb_eq in H. subst. constructor.
    + apply existsb_exists in H. destruct H as [c [Hc Hr]]. econstructor; eauto.
Qed.

Lemma reachb_f_complete g : wf g -> forall r v, reachable g r v -> forall fuel, r < fuel -> reachb_f g fuel r v = true.
Proof.
  intros Hwf r v H. induction H as [n|n c m Hc Hr IH]; intros fuel Hf.
  - destruct fuel; simpl; rewrite Nat.eqb_refl; reflexivity.
  - destruct fuel as [|f]; [lia|]. simpl. apply orb_true_iff. right.
    apply existsb_exists. exists c. split; [exact Hc|]. apply IH.
    apply (children_lt _ _ _ Hwf) in Hc. lia.
Qed.

Lemma reachb_iff g r v : wf g -> (reachb g r v = true <-> reachable g r v).
Proof.
  intros Hwf. unfold reachb. split.
  - apply reachb_f_sound.
  - intros H. apply reachb_f_complete; auto.
Qed.

(* ---------------------------------------------------------------- sums *)
Section Generic.
Variable A : galg.
Hypothesis Aok : galg_ok A.
Notation V := (V A).
Notation W := (W A).
Notation "0" := (vzero A).
Infix "⊕" := (vadd A) (at level 50, left associativity).
Notation vsum := (vsum A).
Notation bufs := (bufs A).

Lemma vadd_0_r (a : V) : a ⊕ 0 = a.
Proof. rewrite (vadd_comm A Aok). apply (vadd_0_l A Aok). Qed.

Lemma vsum_app l1 l2 : vsum (l1 ++ l2) = vsum l1 ⊕ vsum l2.
Proof.
  induction l1 as [|x l1 IH]; simpl.
  - symmetry. apply (vadd_0_l A Aok).
  - rewrite IH. apply (vadd_assoc A Aok).
Qed.

Lemma vsum_zero l : (forall x, In x l -> x = 0) -> vsum l = 0.
Proof.
  induction l as [|x l IH]; simpl; intros H; auto.
  rewrite (H x) by auto. rewrite IH by auto. apply (vadd_0_l A Aok).
Qed.

Lemma vsum_map_zero {X} (f : X -> V) l : (forall x, In x l -> f x = 0) -> vsum (map f l) = 0.
Proof. intros H. apply vsum_zero. intros y Hy. apply in_map_iff in Hy. destruct Hy as [x [<- Hx]]. auto. Qed.

Lemma vsum_map_ext {X} (f h : X -> V) l : (forall x, In x l -> f x = h x) -> vsum (map f l) = vsum (map h l).
Proof. intros H. f_equal. apply map_ext_in. exact H. Qed.

Lemma vadd_swap4 (a b c d : V) : (a ⊕ b) ⊕ (c ⊕ d) = (a ⊕ c) ⊕ (b ⊕ d).
Proof.
  rewrite <- (vadd_assoc A Aok a b (c ⊕ d)). rewrite (vadd_assoc A Aok b c d).
  rewrite (vadd_comm A Aok b c). rewrite <- (vadd_assoc A Aok c b d).
  rewrite (vadd_assoc A Aok a c (b ⊕ d)). reflexivity.
Qed.

Lemma vsum_map_add {X} (f h : X -> V) l :
  vsum (map (fun x => f x ⊕ h x) l) = vsum (map f l) ⊕ vsum (map h l).
Proof.
  induction l as [|x l IH]; simpl.
  - symmetry. apply (vadd_0_l A Aok).
  - rewrite IH. apply vadd_swap4.
Qed.

Lemma vsum_swap {X Y} (f : X -> Y -> V) la lb :
  vsum (map (fun a => vsum (map (f a) lb)) la) = vsum (map (fun b => vsum (map (fun a => f a b) la)) lb).
Proof.
  induction la as [|a la IH]; simpl.
  - symmetry. apply vsum_map_zero. auto.
  - rewrite IH. rewrite <- vsum_map_add. reflexivity.
Qed.

Lemma vsum_flat_map {X Y} (F : Y -> V) (G : X -> list Y) l :
  vsum (map F (flat_map G l)) = vsum (map (fun x => vsum (map F (G x))) l).
Proof.
  induction l as [|x l IH]; simpl; auto.
  rewrite map_app, vsum_app, IH. reflexivity.
Qed.

Lemma act_vsum (x : W) l : act A x (vsum l) = vsum (map (act A x) l).
Proof.
  induction l as [|a l IH]; simpl.
  - apply (act_0 A Aok).
  - rewrite (act_add A Aok), IH. reflexivity.
Qed.

Lemma vsum_single (M : list nat) r (a : V) :
  NoDup M -> In r M -> vsum (map (fun n => if r =? n then a else 0) M) = a.
Proof.
  induction M as [|m M IH]; simpl; intros Hnd Hin; [tauto|].
  inversion Hnd; subst. destruct Hin as [->|Hin].
  - rewrite Nat.eqb_refl. rewrite vsum_map_zero; [apply vadd_0_r|].
    intros x Hx. destruct (r =? x) eqn:E; auto. apply Nat.eqb_eq in E. subst. tauto.
  - destruct (r =? m) eqn:E.
    + apply Nat.eqb_eq in E. subst. tauto.
    + rewrite IH by auto. apply (vadd_0_l A Aok).
Qed.

(* ---------------------------------------------------------------- the path sum as a recursion *)
Section PathSum.
Variable g : arena.
Variable w : weights A.
Hypothesis Hwf : wf g.

Notation kids n := (indexed (children (getn g n))).

Fixpoint pv (fuel n v : nat) (s : V) : V :=
  (if n =? v then s else 0) ⊕
  match fuel with
  | O => 0
  | S f =>
      if has_fn (getn g n)
      then vsum (map (fun kc => if req (getn g (snd kc)) then pv f (snd kc) v (act A (w n (fst kc)) s) else 0) (kids n))
      else 0
  end.

Lemma paths_pv : forall fuel n v s,
  vsum (map (fun p => apply_path A w p s) (paths g fuel n v)) = pv fuel n v s.
Proof.
  induction fuel as [|f IH]; intros n v s; simpl; rewrite map_app, vsum_app.
  - f_equal. destruct (n =? v); simpl; [apply vadd_0_r|reflexivity].
  - f_equal.
    + destruct (n =? v); simpl; [apply vadd_0_r|reflexivity].
    + destruct (has_fn (getn g n)); [|reflexivity].
      rewrite vsum_flat_map. apply vsum_map_ext. intros [k c] _. simpl.
      destruct (req (getn g c)); [|reflexivity].
      rewrite map_map. simpl. apply IH.
Qed.

Lemma pv_fuel : forall f1 f2 n v s, n < f1 -> n < f2 -> pv f1 n v s = pv f2 n v s.
Proof.
  induction f1 as [|f1 IH]; intros f2 n v s H1 H2; [lia|].
  destruct f2 as [|f2]; [lia|]. simpl. f_equal.
  destruct (has_fn (getn g n)); [|reflexivity].
  apply vsum_map_ext. intros kc Hkc.
  destruct (req (getn g (snd kc))); [|reflexivity].
  apply in_indexed_snd in Hkc. apply (children_lt _ _ _ Hwf) in Hkc.
  apply IH; lia.
Qed.

Definition PV (r v : nat) (s : V) : V := pv (S r) r v s.

Lemma pathval_PV r v s : pathval A g w r v s = PV r v s.
Proof. unfold pathval, all_paths, PV. apply paths_pv. Qed.

Lemma PV_unfold r v s :
  PV r v s = (if r =? v then s else 0) ⊕
             (if has_fn (getn g r)
              then vsum (map (fun kc => if req (getn g (snd kc)) then PV (snd kc) v (act A (w r (fst kc)) s) else 0) (kids r))
              else 0).
Proof.
  unfold PV at 1. simpl. f_equal.
  destruct (has_fn (getn g r)); [|reflexivity].
  apply vsum_map_ext. intros kc Hkc.
  destruct (req (getn g (snd kc))); [|reflexivity].
  apply in_indexed_snd in Hkc. apply (children_lt _ _ _ Hwf) in Hkc.
  unfold PV. apply pv_fuel; lia.
Qed.

(* what node n's closure adds to v's buffer when n's own gradient is x *)
Definition inflow (n v : nat) (x : V) : V :=
  if has_fn (getn g n)
  then vsum (map (fun kc => if (snd kc =? v) && req (getn g v) then act A (w n (fst kc)) x else 0) (kids n))
  else 0.

Lemma inflow_fn n v x : has_fn (getn g n) = true ->
  inflow n v x = vsum (map (fun kc => if (snd kc =? v) && req (getn g v) then act A (w n (fst kc)) x else 0) (kids n)).
Proof. intros H. unfold inflow. rewrite H. reflexivity. Qed.

Lemma inflow_nofn n v x : has_fn (getn g n) = false -> inflow n v x = 0.
Proof. intros H. unfold inflow. rewrite H. reflexivity. Qed.

Lemma inflow_add n v x y : inflow n v (x ⊕ y) = inflow n v x ⊕ inflow n v y.
Proof.
  unfold inflow. destruct (has_fn (getn g n)); [|symmetry; apply (vadd_0_l A Aok)].
  rewrite <- vsum_map_add. apply vsum_map_ext. intros kc _.
  destruct ((snd kc =? v) && req (getn g v)).
  - apply (act_add A Aok).
  - symmetry; apply (vadd_0_l A Aok).
Qed.

Lemma inflow_0 n v : inflow n v 0 = 0.
Proof.
  unfold inflow. destruct (has_fn (getn g n)); [|reflexivity].
  apply vsum_map_zero. intros kc _. destruct ((snd kc =? v) && req (getn g v)); auto. apply (act_0 A Aok).
Qed.

Lemma inflow_vsum n v l : inflow n v (vsum l) = vsum (map (inflow n v) l).
Proof.
  induction l as [|a l IH]; simpl; [apply inflow_0|]. rewrite inflow_add, IH. reflexivity.
Qed.

Lemma inflow_notchild n v x : ~ In v (children (getn g n)) -> inflow n v x = 0.
Proof.
  intros H. unfold inflow. destruct (has_fn (getn g n)); [|reflexivity].
  apply vsum_map_zero. intros kc Hkc. apply in_indexed_snd in Hkc.
  destruct (snd kc =? v) eqn:E; [|reflexivity].
  apply Nat.eqb_eq in E. subst. tauto.
Qed.

(* decomposition by the last edge: the gradient reaching v is the seed (if v is the root) plus what every
   parent's closure adds.  [M] is any duplicate-free list containing everything reachable from r. *)
Lemma last_edge : forall r M v s,
  NoDup M -> (forall n, reachable g r n -> In n M) ->
  PV r v s = (if r =? v then s else 0) ⊕ vsum (map (fun n => inflow n v (PV r n s)) M).
Proof.
  induction r as [r IH] using lt_wf_ind. intros M v s Hnd HM.
  assert (HrM : In r M) by (apply HM; constructor).
  (* right-hand side: expand PV r n s *)
  transitivity ((if r =? v then s else 0) ⊕
    (vsum (map (fun n => inflow n v (if r =? n then s else 0)) M) ⊕
     vsum (map (fun n => inflow n v
        (if has_fn (getn g r)
         then vsum (map (fun kc => if req (getn g (snd kc)) then PV (snd kc) n (act A (w r (fst kc)) s) else 0) (kids r))
         else 0)) M))).
  2:{ f_equal. rewrite <- vsum_map_add. apply vsum_map_ext. intros n _.
      rewrite <- inflow_add. f_equal. symmetry. apply PV_unfold. }
  assert (E1 : vsum (map (fun n => inflow n v (if r =? n then s else 0)) M) = inflow r v s).
  { rewrite <- (vsum_single M r (inflow r v s) Hnd HrM). apply vsum_map_ext. intros n _.
    destruct (r =? n) eqn:E; [apply Nat.eqb_eq in E; subst; reflexivity|apply inflow_0]. }
  rewrite E1. rewrite PV_unfold. f_equal.
  unfold inflow at 1.
  destruct (has_fn (getn g r)) eqn:Hfn.
  - (* swap the sums *)
    transitivity (vsum (map (fun kc => (if (snd kc =? v) && req (getn g v) then act A (w r (fst kc)) s else 0) ⊕
        (if req (getn g (snd kc)) then vsum (map (fun n => inflow n v (PV (snd kc) n (act A (w r (fst kc)) s))) M) else 0)) (kids r))).
    + apply vsum_map_ext. intros kc Hkc.
      destruct (req (getn g (snd kc))) eqn:Hreq.
      * assert (Hc : In (snd kc) (children (getn g r))) by (apply in_indexed_snd; exact Hkc).
        rewrite (IH (snd kc) (children_lt _ _ _ Hwf Hc) M v _ Hnd).
        2:{ intros n Hn. apply HM. econstructor; eauto. }
        f_equal. destruct (snd kc =? v) eqn:E; simpl; [|reflexivity].
        apply Nat.eqb_eq in E. rewrite <- E, Hreq. reflexivity.
      * destruct (snd kc =? v) eqn:E; simpl.
        -- apply Nat.eqb_eq in E. rewrite <- E, Hreq. symmetry; apply (vadd_0_l A Aok).
        -- symmetry; apply (vadd_0_l A Aok).
    + rewrite vsum_map_add. f_equal.
      transitivity (vsum (map (fun n => vsum (map (fun kc => inflow n v
            (if req (getn g (snd kc)) then PV (snd kc) n (act A (w r (fst kc)) s) else 0)) (kids r))) M)).
      * rewrite vsum_swap. apply vsum_map_ext. intros kc _.
        destruct (req (getn g (snd kc))); [reflexivity|].
        symmetry. apply vsum_map_zero. intros; apply inflow_0.
      * apply vsum_map_ext. intros n _. rewrite inflow_vsum, map_map. reflexivity.
  - rewrite vsum_map_zero; [symmetry; apply (vadd_0_l A Aok)|]. intros; apply inflow_0.
Qed.

End PathSum.

(* ---------------------------------------------------------------- the sweep *)
Lemma upd_same (b : bufs) n x : upd b n x n = x.
Proof. unfold upd. rewrite Nat.eqb_refl. reflexivity. Qed.

Lemma upd_other (b : bufs) n x m : m <> n -> upd b n x m = b m.
Proof. intros H. unfold upd. apply Nat.eqb_neq in H. rewrite H. reflexivity. Qed.

Section SweepPf.
Variable g : arena.
Variable w : weights A.
Variable mode : bool.
Variable root : nat.
Hypothesis Hwf : wf g.
Hypothesis Hfnreq : forall n, has_fn (getn g n) = true -> req (getn g n) = true.

Notation kids n := (indexed (children (getn g n))).
Notation inflow := (inflow g w).
Notation hasfn := (fun n => has_fn (getn g n)).

Lemma slot_update_some n go (b : bufs) kc :
  slot_update A g w n go (Some b) kc =
  if req (getn g (snd kc))
  then match b (snd kc) with
       | None => None
       | Some x => Some (upd b (snd kc) (Some (x ⊕ act A (w n (fst kc)) go)))
       end
  else Some b.
Proof. reflexivity. Qed.

Lemma closure_fold n go : forall ks (b : bufs),
  (forall kc, In kc ks -> req (getn g (snd kc)) = true -> b (snd kc) <> None) ->
  exists b1, fold_left (slot_update A g w n go) ks (Some b) = Some b1 /\
    forall v, b1 v = match b v with
                     | Some x => Some (x ⊕ vsum (map (fun kc => if (snd kc =? v) && req (getn g v)
                                                               then act A (w n (fst kc)) go else 0) ks))
                     | None => None
                     end.
Proof.
  induction ks as [|kc ks IH]; intros b Hpre.
  - exists b. split; [reflexivity|]. intros v. destruct (b v); [|reflexivity]. simpl. rewrite vadd_0_r. reflexivity.
  - cbn [fold_left]. rewrite slot_update_some.
    destruct (req (getn g (snd kc))) eqn:Hr.
    + destruct (b (snd kc)) as [x|] eqn:Hb.
      2:{ exfalso. apply (Hpre kc); [left; reflexivity|exact Hr|exact Hb]. }
      destruct (IH (upd b (snd kc) (Some (x ⊕ act A (w n (fst kc)) go)))) as [b1 [Hf Hb1]].
      { intros kc' Hin Hr'. unfold upd. destruct (snd kc' =? snd kc); [discriminate|].
        apply Hpre; [right; exact Hin|exact Hr']. }
      exists b1. split; [exact Hf|]. intros v. rewrite Hb1. cbn [map Sweep.vsum fold_right].
      destruct (Nat.eq_dec v (snd kc)) as [->|Hne].
      * rewrite upd_same, Hb, Nat.eqb_refl, Hr. simpl. rewrite (vadd_assoc A Aok). reflexivity.
      * rewrite upd_other by exact Hne. destruct (b v); [|reflexivity].
        assert (E : (snd kc =? v) = false) by (apply Nat.eqb_neq; auto). rewrite E. simpl.
        rewrite (vadd_0_l A Aok). reflexivity.
    + destruct (IH b) as [b1 [Hf Hb1]].
      { intros kc' Hin Hr'. apply Hpre; [right; exact Hin|exact Hr']. }
      exists b1. split; [exact Hf|]. intros v. rewrite Hb1. destruct (b v); [|reflexivity].
      cbn [map Sweep.vsum fold_right].
      assert (E : (snd kc =? v) && req (getn g v) = false).
      { destruct (snd kc =? v) eqn:E; [|reflexivity]. apply Nat.eqb_eq in E. rewrite <- E, Hr. reflexivity. }
      rewrite E. rewrite (vadd_0_l A Aok). reflexivity.
Qed.

Lemma releases_nofn n : has_fn (getn g n) = false -> releases g mode root n = false.
Proof.
  intros H. unfold releases, is_leaf. rewrite H. simpl. rewrite orb_true_r. simpl.
  rewrite andb_false_r. reflexivity.
Qed.

Variable L : list nat.           (* reversed(ordered_nodes) *)
Hypothesis HLnd : NoDup L.
Hypothesis HLkids : forall P n S, L = P ++ n :: S -> forall c, In c (children (getn g n)) -> In c S.
Variable X : nat -> V.           (* the gradient a node holds when its closure runs *)
Variable start : nat -> V.       (* buffer contents before the loop *)
Hypothesis HX : forall v, In v L -> has_fn (getn g v) = true ->
  X v = start v ⊕ vsum (map (fun n => inflow n v (X n)) L).

Lemma inflow_suffix P n S : L = P ++ n :: S ->
  vsum (map (fun m => inflow m n (X m)) L) = vsum (map (fun m => inflow m n (X m)) P).
Proof.
  intros HL. rewrite HL at 1. rewrite map_app, vsum_app.
  rewrite (vsum_map_zero (fun m => inflow m n (X m)) (n :: S)); [apply vadd_0_r|].
  intros m Hm. apply inflow_notchild. intros Hc.
  assert (Hnd : NoDup (n :: S)) by (rewrite HL in HLnd; apply NoDup_app_r in HLnd; exact HLnd).
  apply NoDup_cons_iff in Hnd. destruct Hnd as [HnS _].
  destruct Hm as [->|Hm].
  - apply HnS. eapply HLkids; eauto.
  - apply in_split in Hm. destruct Hm as [S1 [S2 ->]].
    assert (HL' : L = (P ++ n :: S1) ++ m :: S2) by (rewrite HL, <- app_assoc; reflexivity).
    pose proof (HLkids _ _ _ HL' _ Hc) as Hin.
    apply HnS. apply in_or_app. right. right. exact Hin.
Qed.

Lemma sweep_suffix : forall S P (b : bufs) log,
  L = P ++ S ->
  (forall v, In v S -> req (getn g v) = true ->
     b v = Some (start v ⊕ vsum (map (fun m => inflow m v (X m)) P))) ->
  exists b', fold_left (sweep_step A g w mode root) S (Some (b, log))
             = Some (b', rev (filter hasfn S) ++ log) /\
    (forall v, ~ In v S -> b' v = b v) /\
    (forall v, In v S -> req (getn g v) = false -> b' v = b v) /\
    (forall v, In v S -> req (getn g v) = true ->
       b' v = if releases g mode root v then None
              else Some (start v ⊕ vsum (map (fun m => inflow m v (X m)) L))).
Proof.
  induction S as [|n S' IH]; intros P b log HL Hpre.
  - exists b. simpl. repeat split; auto; intros; tauto.
  - assert (Hnd : NoDup (n :: S')) by (rewrite HL in HLnd; apply NoDup_app_r in HLnd; exact HLnd).
    apply NoDup_cons_iff in Hnd. destruct Hnd as [HnS' _].
    assert (HL2 : L = (P ++ [n]) ++ S') by (rewrite HL, <- app_assoc; reflexivity).
    assert (Hkids : forall c, In c (children (getn g n)) -> In c S') by (intros c; apply (HLkids _ _ _ HL)).
    assert (Hself : ~ In n (children (getn g n))) by (intros Hc; apply HnS'; auto).
    destruct (has_fn (getn g n)) eqn:Hfn.
    + (* the closure runs *)
      pose proof (Hfnreq n Hfn) as Hreqn.
      pose proof (Hpre n (or_introl eq_refl) Hreqn) as Hbn.
      assert (Hgo : start n ⊕ vsum (map (fun m => inflow m n (X m)) P) = X n).
      { rewrite (HX n); [|rewrite HL; apply in_or_app; right; left; reflexivity|exact Hfn].
        rewrite (inflow_suffix P n S' HL). reflexivity. }
      rewrite Hgo in Hbn.
      destruct (closure_fold n (X n) (kids n) b) as [b1 [Hf Hb1]].
      { intros kc Hin Hr. apply in_indexed_snd in Hin.
        rewrite (Hpre (snd kc)); [discriminate|right; apply Hkids; exact Hin|exact Hr]. }
      assert (Hb1_nonchild : forall v, ~ In v (children (getn g n)) -> b1 v = b v).
      { intros v Hv. rewrite Hb1. destruct (b v); [|reflexivity].
        rewrite vsum_map_zero; [rewrite vadd_0_r; reflexivity|].
        intros kc Hin. apply in_indexed_snd in Hin.
        destruct (snd kc =? v) eqn:E; [|reflexivity]. apply Nat.eqb_eq in E. subst. tauto. }
      assert (Hb1_noreq : forall v, req (getn g v) = false -> b1 v = b v).
      { intros v Hv. rewrite Hb1. destruct (b v); [|reflexivity].
        rewrite vsum_map_zero; [rewrite vadd_0_r; reflexivity|].
        intros kc _. rewrite Hv, andb_false_r. reflexivity. }
      set (b1' := if releases g mode root n then upd b1 n None else b1).
      assert (Hb1'_other : forall v, v <> n -> b1' v = b1 v).
      { intros v Hv. unfold b1'. destruct (releases g mode root n); [apply upd_other; exact Hv|reflexivity]. }
      destruct (IH (P ++ [n]) b1' (n :: log) HL2) as [b' [Hfold [Hout [Hnoreq Hreq]]]].
      { intros v Hv Hr. assert (Hvn : v <> n) by (intros ->; tauto).
        rewrite Hb1'_other by exact Hvn. rewrite Hb1. rewrite (Hpre v (or_intror Hv) Hr).
        f_equal. rewrite map_app, vsum_app. cbn [map Sweep.vsum fold_right]. rewrite vadd_0_r.
        rewrite <- (vadd_assoc A Aok). f_equal. f_equal. rewrite inflow_fn by exact Hfn. reflexivity. }
      exists b'. split; [|split; [|split]].
      * cbn [fold_left sweep_step]. rewrite Hfn. unfold closure. rewrite Hbn, Hf.
        fold b1'. rewrite Hfold. cbn [filter]. rewrite Hfn. cbn [rev]. rewrite <- app_assoc. reflexivity.
      * intros v Hv. assert (Hvn : v <> n) by (intros ->; apply Hv; left; reflexivity).
        rewrite Hout by (intros Hin; apply Hv; right; exact Hin).
        rewrite Hb1'_other by exact Hvn. apply Hb1_nonchild.
        intros Hc. apply Hv. right. apply Hkids. exact Hc.
      * intros v [->|Hv] Hr; [congruence|].
        rewrite Hnoreq by assumption. assert (Hvn : v <> n) by (intros ->; tauto).
        rewrite Hb1'_other by exact Hvn. apply Hb1_noreq. exact Hr.
      * intros v [->|Hv] Hr; [|apply Hreq; assumption].
        rewrite Hout by exact HnS'. unfold b1'.
        destruct (releases g mode root v); [apply upd_same|].
        rewrite Hb1_nonchild by exact Hself. rewrite Hbn, <- Hgo.
        rewrite (inflow_suffix P v S' HL). reflexivity.
    + (* a leaf: nothing runs, nothing is released *)
      destruct (IH (P ++ [n]) b log HL2) as [b' [Hfold [Hout [Hnoreq Hreq]]]].
      { intros v Hv Hr. rewrite (Hpre v (or_intror Hv) Hr). f_equal. f_equal.
        rewrite map_app, vsum_app. cbn [map Sweep.vsum fold_right].
        rewrite inflow_nofn by exact Hfn. rewrite !vadd_0_r. reflexivity. }
      exists b'. split; [|split; [|split]].
      * cbn [fold_left sweep_step]. rewrite Hfn. rewrite (releases_nofn n Hfn).
        rewrite Hfold. cbn [filter]. rewrite Hfn. reflexivity.
      * intros v Hv. apply Hout. intros Hin; apply Hv; right; exact Hin.
      * intros v [->|Hv] Hr; [apply Hout; exact HnS'|apply Hnoreq; assumption].
      * intros v [->|Hv] Hr; [|apply Hreq; assumption].
        rewrite Hout by exact HnS'. rewrite (releases_nofn v Hfn).
        rewrite (Hpre v (or_introl eq_refl) Hr). rewrite (inflow_suffix P v S' HL). reflexivity.
Qed.

End SweepPf.

(* ---------------------------------------------------------------- backward = closed form *)
Lemma fold_zero : forall z (b : bufs) v,
  fold_left zero_buf z b v = if mem v z then Some 0 else b v.
Proof.
  induction z as [|c z IH]; intros b v; [reflexivity|].
  cbn [fold_left]. rewrite IH. unfold mem. cbn [existsb]. fold (mem v z).
  destruct (mem v z); [rewrite orb_true_r; reflexivity|]. rewrite orb_false_r.
  unfold zero_buf, upd. reflexivity.
Qed.

Section Main.
Variable g : arena.
Variable w : weights A.
Variable mode : bool.
Variable root : nat.
Variable seed : V.
Hypothesis Hwf : wf g.
Hypothesis Hok : forall n, node_ok (getn g n).
Hypothesis Hreq : req (getn g root) = true.

Notation hasfn := (fun n => has_fn (getn g n)).

(* which tensors the ordering loop calls zero_() on (Proofs/DfsProofs.v), given the buffers before the call *)
Definition zero_char (b : bufs) (z : list nat) : Prop :=
  forall c, In c z <-> (c <> root /\ reachable g root c /\ req (getn g c) = true /\
                        (b c = None \/ is_leaf (getn g c) = false)).

Lemma postorder_kids ord : is_postorder g root ord ->
  forall P n S, rev ord = P ++ n :: S -> forall c, In c (children (getn g n)) -> In c S.
Proof.
  intros [Hnd [_ [_ Hbef]]] P n S HL c Hc.
  assert (Hord : ord = rev S ++ n :: rev P).
  { rewrite <- (rev_involutive ord), HL, rev_app_distr. cbn [rev]. rewrite <- app_assoc. reflexivity. }
  assert (Hn : In n ord) by (rewrite Hord; apply in_or_app; right; left; reflexivity).
  destruct (Hbef n c Hn Hc) as [l1 [l2 [l3 Hb]]].
  assert (Hb' : ord = (l1 ++ c :: l2) ++ n :: l3) by (rewrite Hb, <- app_assoc; reflexivity).
  rewrite Hord in Hb'. rewrite Hord in Hnd.
  destruct (nodup_split_unique n _ _ _ _ Hnd Hb') as [E _].
  apply in_rev. rewrite E. apply in_or_app. right; left; reflexivity.
Qed.

Theorem run_sweep_expected ord z (b : bufs) :
  is_postorder g root ord -> zero_char b z ->
  exists b', run_sweep A g w mode root seed ord z b = Some (b', filter hasfn (rev ord)) /\
    forall v, b' v = expected A g w mode root seed b v.
Proof.
  intros Hpo Hz.
  pose proof (postorder_kids ord Hpo) as HLkids.
  destruct Hpo as [Hnd [[pre Hpre] [Hmem Hbef]]].
  assert (HLnd : NoDup (rev ord)) by (apply NoDup_rev'; exact Hnd).
  assert (HinL : forall v, In v (rev ord) <-> reachable g root v).
  { intros v. rewrite <- in_rev. apply Hmem. }
  assert (Hfnreq : forall n, has_fn (getn g n) = true -> req (getn g n) = true).
  { intros n. destruct (Hok n) as [H _]. exact H. }
  set (b1 := fold_left zero_buf z b).
  assert (Hb1 : forall v, b1 v = if mem v z then Some 0 else b v) by (intros v; apply fold_zero).
  assert (Hrootz : mem root z = false).
  { destruct (mem root z) eqn:E; [|reflexivity]. apply mem_In in E. apply Hz in E. destruct E as [E _]. congruence. }
  assert (Hb1root : b1 root = b root) by (rewrite Hb1, Hrootz; reflexivity).
  (* the seed step *)
  set (b1' := if negb (is_some (b1 root)) || negb (is_leaf (getn g root)) then zero_buf b1 root else b1).
  assert (Hb1'root : b1' root = Some (leaf_part A g b root)).
  { unfold b1', leaf_part. rewrite Hb1root.
    destruct (is_leaf (getn g root)); destruct (b root) as [x|] eqn:Hbr; cbn [is_some negb orb];
      try (unfold zero_buf; apply upd_same). exact Hb1root. }
  assert (Hb1'other : forall v, v <> root -> b1' v = b1 v).
  { intros v Hv. unfold b1'. destruct (negb (is_some (b1 root)) || negb (is_leaf (getn g root))); [|reflexivity].
    unfold zero_buf. apply upd_other. exact Hv. }
  set (b2 := upd b1' root (Some (leaf_part A g b root ⊕ seed))).
  assert (Hseed : seed_root A g root seed b1 = Some b2).
  { unfold seed_root. fold b1'. rewrite Hb1'root. reflexivity. }
  set (start := fun v => leaf_part A g b v ⊕ (if root =? v then seed else 0)).
  set (X := fun v => PV g w root v seed).
  assert (Hleaf_fn : forall v, has_fn (getn g v) = true -> leaf_part A g b v = 0).
  { intros v Hv. unfold leaf_part, is_leaf. rewrite Hv, (Hfnreq v Hv). reflexivity. }
  assert (HLE : forall v, X v = (if root =? v then seed else 0) ⊕
                              vsum (map (fun n => inflow g w n v (X n)) (rev ord))).
  { intros v. unfold X. apply last_edge; [exact Hwf|exact HLnd|]. intros n Hn. apply HinL. exact Hn. }
  assert (HX : forall v, In v (rev ord) -> has_fn (getn g v) = true ->
             X v = start v ⊕ vsum (map (fun n => inflow g w n v (X n)) (rev ord))).
  { intros v _ Hv. unfold start. rewrite (Hleaf_fn v Hv), (vadd_0_l A Aok). apply HLE. }
  assert (Hb2 : forall v, In v (rev ord) -> req (getn g v) = true ->
             b2 v = Some (start v ⊕ vsum (map (fun m => inflow g w m v (X m)) []))).
  { intros v Hv Hr. cbn [map Sweep.vsum fold_right]. rewrite vadd_0_r. unfold start, b2.
    destruct (Nat.eq_dec v root) as [->|Hne].
    - rewrite upd_same, Nat.eqb_refl. reflexivity.
    - rewrite upd_other by exact Hne. rewrite Hb1'other by exact Hne.
      assert (E : (root =? v) = false) by (apply Nat.eqb_neq; auto). rewrite E, vadd_0_r.
      rewrite Hb1. unfold leaf_part.
      destruct (mem v z) eqn:Ez.
      + apply mem_In in Ez. apply Hz in Ez. destruct Ez as [_ [_ [_ [Hn|Hl]]]].
        * rewrite Hn. destruct (is_leaf (getn g v)); reflexivity.
        * rewrite Hl. reflexivity.
      + destruct (is_leaf (getn g v)) eqn:El.
        * destruct (b v) as [x|] eqn:Hbv; [reflexivity|].
          exfalso. assert (In v z); [|apply mem_In in H; congruence].
          apply Hz. split; [exact Hne|]. split; [apply HinL; exact Hv|]. split; [exact Hr|]. left; exact Hbv.
        * exfalso. assert (In v z); [|apply mem_In in H; congruence].
          apply Hz. split; [exact Hne|]. split; [apply HinL; exact Hv|]. split; [exact Hr|]. right; exact El. }
  destruct (sweep_suffix g w mode root Hfnreq (rev ord) HLnd HLkids X start HX (rev ord) [] b2 [] eq_refl Hb2)
    as [b' [Hfold [Hout [Hnoreq Hreq']]]].
  exists b'. split.
  - unfold run_sweep. fold b1. rewrite Hseed. unfold sweep. rewrite Hfold.
    rewrite app_nil_r, rev_involutive. reflexivity.
  - intros v. unfold expected.
    assert (Hb2other : forall u, u <> root -> ~ In u z -> b2 u = b u).
    { intros u Hu Huz. unfold b2. rewrite upd_other by exact Hu. rewrite Hb1'other by exact Hu.
      rewrite Hb1. destruct (mem u z) eqn:E; [apply mem_In in E; tauto|reflexivity]. }
    destruct (reachb g root v) eqn:Hrb.
    + apply (reachb_iff g root v Hwf) in Hrb. apply HinL in Hrb.
      destruct (req (getn g v)) eqn:Hr; cbn [andb].
      * rewrite (Hreq' v Hrb Hr). destruct (releases g mode root v); [reflexivity|].
        f_equal. rewrite (pathval_PV g w). fold (X v). rewrite (HLE v). unfold start.
        rewrite (vadd_assoc A Aok). reflexivity.
      * rewrite (Hnoreq v Hrb Hr). apply Hb2other.
        -- intros ->. congruence.
        -- intros Hin. apply Hz in Hin. destruct Hin as [_ [_ [Hr' _]]]. congruence.
    + cbn [andb]. assert (Hnr : ~ reachable g root v).
      { intros H. apply (reachb_iff g root v Hwf) in H. congruence. }
      rewrite Hout by (intros Hin; apply Hnr; apply HinL; exact Hin).
      apply Hb2other.
      * intros ->. apply Hnr. constructor.
      * intros Hin. apply Hz in Hin. destruct Hin as [_ [Hre _]]. tauto.
Qed.

End Main.

(* ---------------------------------------------------------------- corollaries *)
Section Corollaries.
Variable g : arena.
Variable w : weights A.
Variable mode : bool.
Variable root : nat.
Variable seed : V.
Hypothesis Hwf : wf g.
Hypothesis Hok : forall n, node_ok (getn g n).
Hypothesis Hreq : req (getn g root) = true.

Notation hasfn := (fun n => has_fn (getn g n)).

(* the closure log: the has_fn nodes of ordered_nodes, each once, parents before children *)
Lemma log_facts ord : is_postorder g root ord ->
  let log := filter hasfn (rev ord) in
  NoDup log /\
  (forall n, In n log <-> (reachable g root n /\ has_fn (getn g n) = true)) /\
  (forall n c, In n log -> In c log -> In c (children (getn g n)) -> before n c log).
Proof.
  intros Hpo log. pose proof (postorder_kids g root ord Hpo) as HLkids.
  destruct Hpo as [Hnd [_ [Hmem _]]].
  split; [|split].
  - unfold log. apply NoDup_filter. apply NoDup_rev'. exact Hnd.
  - intros n. unfold log. rewrite filter_In, <- in_rev, Hmem. tauto.
  - intros n c Hn Hc Hch. unfold log in *. apply filter_In in Hn. apply filter_In in Hc.
    destruct Hn as [Hn Hfn]. destruct Hc as [_ Hfc].
    apply in_split in Hn. destruct Hn as [P [S HL]].
    pose proof (HLkids _ _ _ HL c Hch) as HcS. apply in_split in HcS. destruct HcS as [S1 [S2 ->]].
    rewrite HL. exists (filter hasfn P), (filter hasfn S1), (filter hasfn S2).
    rewrite filter_app. cbn [filter]. rewrite Hfn. rewrite filter_app. cbn [filter]. rewrite Hfc. reflexivity.
Qed.

(* any two post-orders of the same graph give the same buffers and the same set of closure calls *)
Theorem order_independent_gen ord1 ord2 z1 z2 (b : bufs) :
  is_postorder g root ord1 -> is_postorder g root ord2 ->
  zero_char g root b z1 -> zero_char g root b z2 ->
  exists b1 b2 log1 log2,
    run_sweep A g w mode root seed ord1 z1 b = Some (b1, log1) /\
    run_sweep A g w mode root seed ord2 z2 b = Some (b2, log2) /\
    (forall v, b1 v = b2 v) /\ Permutation log1 log2.
Proof.
  intros Hp1 Hp2 Hz1 Hz2.
  destruct (run_sweep_expected g w mode root seed Hwf Hok Hreq ord1 z1 b Hp1 Hz1) as [b1 [H1 E1]].
  destruct (run_sweep_expected g w mode root seed Hwf Hok Hreq ord2 z2 b Hp2 Hz2) as [b2 [H2 E2]].
  exists b1, b2, (filter hasfn (rev ord1)), (filter hasfn (rev ord2)).
  split; [exact H1|]. split; [exact H2|]. split.
  - intros v. rewrite E1, E2. reflexivity.
  - apply Permutation_filter'. destruct Hp1 as [Hn1 [_ [Hm1 _]]]. destruct Hp2 as [Hn2 [_ [Hm2 _]]].
    apply NoDup_Permutation; try (apply NoDup_rev'; assumption).
    intros x. rewrite <- !in_rev, Hm1, Hm2. tauto.
Qed.

(* number of closure calls = number of has_fn nodes reachable from the root *)
Lemma calls_count ord : root < length g -> is_postorder g root ord ->
  length (filter hasfn (rev ord)) =
  length (filter (fun n => reachb g root n && has_fn (getn g n)) (seq 0 (length g))).
Proof.
  intros Hroot [Hnd [_ [Hmem _]]].
  assert (HP : Permutation (rev ord) (filter (reachb g root) (seq 0 (length g)))).
  { apply NoDup_Permutation.
    - apply NoDup_rev'. exact Hnd.
    - apply NoDup_filter. apply seq_NoDup.
    - intros x. rewrite <- in_rev, Hmem, filter_In, in_seq, (reachb_iff g root x Hwf).
      split; [|tauto]. intros H. split; [|exact H]. apply (sw_reachable_le g root x Hwf) in H. lia. }
  apply (Permutation_filter' hasfn) in HP. apply Permutation_length in HP. rewrite HP.
  f_equal. clear. induction (seq 0 (length g)) as [|x l IH]; [reflexivity|].
  cbn [filter]. destruct (reachb g root x); cbn [filter andb]; [destruct (has_fn (getn g x))|]; rewrite IH; reflexivity.
Qed.

(* composition with the ordering loop, given what Proofs/DfsProofs.v proves about it *)
Lemma mem_present_of (b : bufs) c : c < length g -> (mem c (present_of A g b) = false <-> b c = None).
Proof.
  intros Hc. unfold present_of. split.
  - intros H. destruct (b c) eqn:E; [|reflexivity].
    assert (mem c (filter (fun v => is_some (b v)) (seq 0 (length g))) = true); [|congruence].
    apply mem_In. apply filter_In. split; [apply in_seq; lia|rewrite E; reflexivity].
  - intros H. destruct (mem c (filter (fun v => is_some (b v)) (seq 0 (length g)))) eqn:E; [|reflexivity].
    apply mem_In in E. apply filter_In in E. destruct E as [_ E]. rewrite H in E. discriminate.
Qed.

Theorem backward_expected (b : bufs) : dfs_spec -> root < length g ->
  exists b' ord, backward A g w mode root seed b = Some (b', filter hasfn (rev ord)) /\
    is_postorder g root ord /\
    forall v, b' v = expected A g w mode root seed b v.
Proof.
  intros Hdfs Hroot.
  destruct (Hdfs g root (present_of A g b) Hwf Hroot) as [ord [z [p [Hd [Hpo Hz]]]]].
  assert (Hzc : zero_char g root b z).
  { intros c. rewrite Hz. split; intros [H1 [H2 [H3 H4]]]; (split; [exact H1|]; split; [exact H2|]; split; [exact H3|]).
    - destruct H4 as [H4|H4]; [left|right; exact H4]. apply mem_present_of; [|exact H4].
      apply (sw_reachable_le g root c Hwf) in H2. lia.
    - destruct H4 as [H4|H4]; [left|right; exact H4]. apply mem_present_of; [|exact H4].
      apply (sw_reachable_le g root c Hwf) in H2. lia. }
  destruct (run_sweep_expected g w mode root seed Hwf Hok Hreq ord z b Hpo Hzc) as [b' [Hrun Hexp]].
  exists b', ord. split; [|split; [exact Hpo|exact Hexp]].
  unfold backward. rewrite Hreq. cbn [negb]. rewrite Hd. exact Hrun.
Qed.

End Corollaries.

(* ---------------------------------------------------------------- the path enumeration is right *)
Section PathsSpec.
Variable g : arena.
Hypothesis Hwf : wf g.

Lemma paths_sound : forall fuel n v p, In p (paths g fuel n v) -> is_path g n v p.
Proof.
  induction fuel as [|f IH]; intros n v p H; cbn [paths] in H; apply in_app_or in H; destruct H as [H|H].
  - destruct (n =? v) eqn:E; [|destruct H]. apply Nat.eqb_eq in E. destruct H as [<-|[]]. subst. constructor.
  - destruct H.
  - destruct (n =? v) eqn:E; [|destruct H]. apply Nat.eqb_eq in E. destruct H as [<-|[]]. subst. constructor.
  - destruct (has_fn (getn g n)) eqn:Hfn; [|destruct H].
    apply in_flat_map in H. destruct H as [[k c] [Hkc H]]. cbn [fst snd] in H.
    destruct (req (getn g c)) eqn:Hr; [|destruct H].
    apply in_map_iff in H. destruct H as [q [<- Hq]].
    apply in_indexed in Hkc. econstructor; eauto.
Qed.

Lemma paths_complete : forall n v p, is_path g n v p -> forall fuel, n < fuel -> In p (paths g fuel n v).
Proof.
  intros n v p H. induction H as [n|n k c v p Hfn Hk Hr Hp IH]; intros fuel Hf.
  - destruct fuel; cbn [paths]; apply in_or_app; left; rewrite Nat.eqb_refl; left; reflexivity.
  - destruct fuel as [|f]; [lia|]. cbn [paths]. apply in_or_app. right. rewrite Hfn.
    apply in_flat_map. exists (k, c). split; [apply in_indexed; exact Hk|]. cbn [fst snd]. rewrite Hr.
    apply in_map. apply IH. apply nth_error_In in Hk. apply (children_lt g n c Hwf) in Hk. lia.
Qed.

Lemma paths_spec r v p : In p (all_paths g r v) <-> is_path g r v p.
Proof.
  unfold all_paths. split; [apply paths_sound|]. intros H. apply paths_complete; [exact H|lia].
Qed.

Lemma paths_nodup : forall fuel n v, NoDup (paths g fuel n v).
Proof.
  induction fuel as [|f IH]; intros n v; cbn [paths].
  - rewrite app_nil_r. destruct (n =? v); repeat constructor. simpl; tauto.
  - apply NoDup_app_intro.
    + destruct (n =? v); repeat constructor. simpl; tauto.
    + destruct (has_fn (getn g n)); [|constructor].
      apply NoDup_flat_map.
      * apply NoDup_indexed.
      * intros [k c] _. cbn [fst snd]. destruct (req (getn g c)); [|constructor].
        apply FinFun.Injective_map_NoDup; [|apply IH]. intros p q E. injection E. auto.
      * intros [k c] [k' c'] z Hx Hy Hne Hz Hz'. cbn [fst snd] in *.
        destruct (req (getn g c)); [|destruct Hz]. destruct (req (getn g c')); [|destruct Hz'].
        apply in_map_iff in Hz. destruct Hz as [p [<- _]].
        apply in_map_iff in Hz'. destruct Hz' as [q [E _]]. injection E as E1 E2. subst k'.
        apply in_indexed in Hx. apply in_indexed in Hy. rewrite Hx in Hy. injection Hy as ->. apply Hne. reflexivity.
    + intros p Hp Hin. destruct (n =? v); [|destruct Hp]. destruct Hp as [<-|[]].
      destruct (has_fn (getn g n)); [|destruct Hin].
      apply in_flat_map in Hin. destruct Hin as [[k c] [_ Hin]]. cbn [fst snd] in Hin.
      destruct (req (getn g c)); [|destruct Hin]. apply in_map_iff in Hin. destruct Hin as [q [E _]]. discriminate.
Qed.

End PathsSpec.

End Generic.

(* ---------------------------------------------------------------- untracked results keep nothing (C17) *)
Lemma retained_untracked g n : node_ok (getn g n) -> req (getn g n) = false -> retained g n = [n].
Proof.
  intros [_ Hk] Hr. specialize (Hk Hr). unfold retained.
  assert (E : forall v, reachb g n v = (n =? v)).
  { intros v. unfold reachb. cbn [reachb_f]. rewrite Hk. cbn [existsb]. apply orb_false_r. }
  rewrite seq_S, filter_app. cbn [filter plus]. rewrite E, Nat.eqb_refl.
  rewrite filter_none; [reflexivity|].
  intros x Hx. apply in_seq in Hx. rewrite E. apply Nat.eqb_neq. lia.
Qed.

Lemma untracked_not_traversed g n m : node_ok (getn g n) -> req (getn g n) = false -> reachable g n m -> m = n.
Proof.
  intros [_ Hk] Hr H. specialize (Hk Hr). destruct H as [|n c m Hc _]; [reflexivity|].
  rewrite Hk in Hc. destruct Hc.
Qed.

(* ---------------------------------------------------------------- the two instances used by the checks *)
From Coq Require Import ZArith.

Lemma ZAlg_ok : galg_ok ZAlg.
Proof. constructor; cbn; intros; ring. Qed.

Lemma Z2Alg_ok : galg_ok Z2Alg.
Proof.
  constructor; cbn; intros.
  - f_equal; ring.
  - f_equal; ring.
  - destruct a; cbn; reflexivity.
  - f_equal; ring.
  - f_equal; ring.
Qed.

Lemma apply_path_Z (w : nat -> nat -> Z) : forall p (s : Z), @eq Z (apply_path ZAlg w p s) (s * path_weight w p)%Z.
Proof.
  induction p as [|[n k] p IH]; intros s; cbn [apply_path path_weight fold_right fst snd].
  - ring.
  - rewrite IH. cbn [act ZAlg]. unfold path_weight. ring.
Qed.

(* for one-element tensors "the sum over all paths" is seed * (sum over paths of the product of the local derivatives) *)
Lemma pathval_Z g (w : nat -> nat -> Z) r v (s : Z) : @eq Z (pathval ZAlg g w r v s) (s * pathsum g w r v)%Z.
Proof.
  unfold pathval, pathsum. induction (all_paths g r v) as [|p l IH]; cbn [map Sweep.vsum fold_right].
  - cbn [vzero ZAlg]. ring.
  - unfold Sweep.vsum in IH. rewrite IH, apply_path_Z. cbn [vadd ZAlg]. ring.
Qed.

(* ---------------------------------------------------------------- a call that fails after the ordering loop *)
Lemma backward_fails_expected A g root (b : bufs A) : wf g -> dfs_spec ->
  forall v, backward_fails A g root b v = fails_expected A g root b v.
Proof.
  intros Hwf Hdfs v. unfold backward_fails, fails_expected.
  destruct (req (getn g root)) eqn:Hreq; cbn [negb andb]; [|reflexivity].
  assert (Hroot : root < length g).
  { destruct (lt_dec root (length g)) as [H|H]; [exact H|]. rewrite getn_overflow in Hreq by lia. discriminate. }
  destruct (Hdfs g root (present_of A g b) Hwf Hroot) as [ord [z [p [Hd [_ Hz]]]]].
  rewrite Hd, fold_zero.
  assert (E : mem v z = reachb g root v && negb (v =? root) && req (getn g v) && (negb (is_some (b v)) || negb (is_leaf (getn g v)))).
  { destruct (mem v z) eqn:Em.
    - apply mem_In in Em. apply Hz in Em. destruct Em as [Hne [Hre [Hrq Hc]]].
      pose proof (sw_reachable_le g root v Hwf Hre) as Hle.
      apply (reachb_iff g root v Hwf) in Hre. rewrite Hre, Hrq.
      assert (Hn : (v =? root) = false) by (apply Nat.eqb_neq; exact Hne). rewrite Hn. cbn [negb andb].
      symmetry. destruct Hc as [Hc|Hc].
      + apply (mem_present_of A g b v) in Hc; [|lia]. rewrite Hc. reflexivity.
      + rewrite Hc. apply orb_true_r.
    - symmetry. destruct (reachb g root v) eqn:Hre; [|reflexivity].
      destruct (v =? root) eqn:Hn; [reflexivity|]. destruct (req (getn g v)) eqn:Hrq; [|reflexivity]. cbn [negb andb].
      destruct (negb (is_some (b v)) || negb (is_leaf (getn g v))) eqn:Hc; [|reflexivity].
      exfalso. assert (Hin : In v z); [|apply mem_In in Hin; congruence].
      apply (reachb_iff g root v Hwf) in Hre. pose proof (sw_reachable_le g root v Hwf Hre) as Hle.
      apply Hz. split; [apply Nat.eqb_neq; exact Hn|]. split; [exact Hre|]. split; [exact Hrq|].
      apply orb_true_iff in Hc. destruct Hc as [Hc|Hc].
      + left. apply (mem_present_of A g b v); [lia|]. destruct (b v); [discriminate|reflexivity].
      + right. apply negb_true_iff. exact Hc. }
  rewrite E. reflexivity.
Qed.
