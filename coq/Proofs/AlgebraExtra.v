(* Corollaries: scalar-operand forms, max/min instances, "forward accepted / backward raises" facts,
   fused-op identities (addmm, linear), accumulation keeps the buffer's shape.                       *)
From Coq Require Import List Arith ZArith Lia Bool Permutation.
Import ListNotations.
From SG Require Import Base.Sums Base.ScalarExt Base.Cmp NumPy.Index NumPy.Tensor NumPy.Gather NumPy.TensorFn
  NumPy.Broadcast NumPy.Reduce NumPy.Matmul NumPy.Concat NumPy.Overloads
  Proofs.IdxSums Proofs.BcastProofs Proofs.ArithProofs Proofs.ReduceProofs Proofs.MatmulProofs Proofs.Matmul1dProofs Proofs.MaxProofs Proofs.SpecProofs.

Section S.
Context {A:Type} `{ScalarLaws A} `{!ScalarMulLaws A}.

(* t + c, c + t, t - c with a Python scalar c: the gradient reaching t is the upstream gradient *)
Theorem add_scalar_grad_proof (g t:tensor A) : tshape g = tshape t ->
  exists ga gc, add_backward g (tshape t) [] = Some (ga, gc) /\ tshape ga = tshape t /\ tshape gc = [] /\
    (forall i, In i (idxs (tshape t)) -> tat ga i = tat g i) /\
    tat gc [] = isum (idxs (tshape t)) (tat g).
Proof.
  intros Hg. destruct (add_vjp_proof (tshape t) [] (tshape t) g (bshape_nil_r _) Hg) as (ga & gc & E & Ha & Hc & Va & Vc & _).
  exists ga, gc. repeat split; auto.
  - intros i Hi. rewrite Va by auto. now apply tscatter_id.
  - rewrite Vc by (simpl; auto). unfold bcast_map. rewrite tscatter_unfold. apply isum_ext. intros j Hj.
    unfold bcast_idx. cbn [bm_al]. reflexivity.
Qed.

(* t * c, c * t, -t (= t * -1.0), t / c (= t * c**-1): the gradient reaching t is g * c *)
Theorem mul_scalar_grad_proof (g t:tensor A) (c:A) : tshape g = tshape t ->
  exists ga gc, mul_backward g t (scalar0d c) = Some (ga, gc) /\ tshape ga = tshape t /\
    forall i, In i (idxs (tshape t)) -> tat ga i = smul (tat g i) c.
Proof.
  intros Hg. unfold mul_backward, bmul, bop. cbn [scalar0d tshape tat]. rewrite Hg, bshape_nil_r.
  rewrite (broadcast_shapes_absorb_r _ _ (broadcastable_refl (tshape t))). cbn [obind].
  match goal with |- context [unbroadcast ?u (tshape t)] =>
    destruct (unbroadcast_scatter_ext (tshape t) (tshape t) u (fun j => smul (tat g j) c) (broadcastable_refl _) eq_refl) as (ra & Era & Hsa & Haa) end.
  { intros j Hj. cbn [tat]. now rewrite bcast_idx_id. }
  match goal with |- context [unbroadcast ?u []] =>
    destruct (unbroadcast_is_scatter_proof [] (tshape t) u (broadcastable_nil _) eq_refl) as (rc & Erc & _ & _) end.
  rewrite Era, Erc. cbn [obind]. exists ra, rc. repeat split; auto.
  intros i Hi. rewrite Haa by auto. exact (tscatter_id (tshape t) (fun j => smul (tat g j) c) i Hi).
Qed.
End S.

(* ---------- max / min over an ordered scalar ---------- *)
Section O.
Context {A:Type} `{ScalarLaws A} `{!ScalarOrd A} `{!ScalarOrdLaws A}.

Lemma sgeb_refl a : sgeb a a = true. Proof. apply sleb_refl. Qed.
Lemma sgeb_trans a b c : sgeb a b = true -> sgeb b c = true -> sgeb a c = true.
Proof. unfold sgeb. intros. eapply sleb_trans; eauto. Qed.
Lemma sgeb_total a b : sgeb a b = true \/ sgeb b a = true.
Proof. unfold sgeb. destruct (sleb_total a b); auto. Qed.

(* the element selected in every column is an extremum of the column and the first one *)
Theorem max_selects_first_maximiser (l:list A) d : l <> [] ->
  argbest sleb l < length l /\
  (forall v, In v l -> sleb v (nth (argbest sleb l) l d) = true) /\
  (forall p, p < argbest sleb l -> sleb (nth (argbest sleb l) l d) (nth p l d) = false).
Proof.
  intros Hn. split. now apply argbest_lt.
  apply (argbest_spec sleb sleb_refl sleb_trans sleb_total d l Hn).
Qed.
Theorem min_selects_first_minimiser (l:list A) d : l <> [] ->
  argbest sgeb l < length l /\
  (forall v, In v l -> sleb (nth (argbest sgeb l) l d) v = true) /\
  (forall p, p < argbest sgeb l -> sleb (nth p l d) (nth (argbest sgeb l) l d) = false).
Proof.
  intros Hn. split. now apply argbest_lt.
  apply (argbest_spec sgeb sgeb_refl sgeb_trans sgeb_total d l Hn).
Qed.
(* a strict unique extremum keeps being selected: the argmax table is locally constant there *)
Theorem max_unique_is_selected (l:list A) d K : K < length l ->
  (forall p, p < length l -> p <> K -> sleb (nth K l d) (nth p l d) = false) -> argbest sleb l = K.
Proof. apply (argbest_unique sleb sleb_refl sleb_trans sleb_total). Qed.
End O.

(* ---------- argument forms whose backward used to raise (repaired): computed instances over Z ---------- *)
Theorem sum_0d_int_dim_backward_ok :
  let a : tensor Z := scalar0d 5%Z in let g : tensor Z := scalar0d 3%Z in
  sum_forward a (AxInt 0) false <> None /\
  option_map (@to_list Z) (r <- sum_backward g (tshape a) (AxInt 0) false ;; accumulate (zeros (tshape a)) r) = Some [3%Z].
Proof. split. discriminate. reflexivity. Qed.
Theorem max_0d_int_dim_backward_ok :
  let a : tensor Z := scalar0d 5%Z in let g : tensor Z := scalar0d 3%Z in
  max_forward a (AxInt (-1)) false <> None /\
  option_map (@to_list Z) (r <- max_backward g a (AxInt (-1)) false ;; accumulate (zeros (tshape a)) r) = Some [3%Z].
Proof. split. discriminate. reflexivity. Qed.
Theorem max_tuple_dim_backward_ok :
  option_map (@to_list Z) (max_backward (of_list [2] [5;7]%Z) (of_list [2;2;2] [1;3;3;0; 4;2;4;1]%Z) (AxTuple [-1;1]%Z) false)
  = Some [0;5;0;0; 7;0;0;0]%Z.
Proof. reflexivity. Qed.
Theorem linear_1d_backward_ok :
  let x : tensor Z := of_list [3] [1;2;3]%Z in let w : tensor Z := of_list [2;3] [1;0;2; 0;1;1]%Z in let g : tensor Z := of_list [2] [5;7]%Z in
  option_map (fun r => (to_list (fst (fst r)), to_list (snd (fst r)))) (linear_backward g x w None) = Some ([5;7;17]%Z, [5;10;15; 7;14;21]%Z).
Proof. reflexivity. Qed.

(* ---------- fused ops ---------- *)
Section F.
Context {A:Type} `{ScalarLaws A} `{!ScalarMulLaws A}.

Theorem addmm_is_add_matmul_proof (a b c:tensor A) :
  addmm_forward a b c = (m <- matmul_forward b c ;; add_forward a m).
Proof. reflexivity. Qed.
(* the backward of addmm is add_backward followed by matmul_backward through the product's shape *)
Theorem addmm_backward_is_composition_proof (g a b c m:tensor A) bb bc n k k' p :
  tshape b = bb ++ [n; k] -> tshape c = bc ++ [k'; p] -> matmul_forward b c = Some m ->
  addmm_backward g a b c =
    (ab <- add_backward g (tshape a) (tshape m) ;; bc' <- matmul_backward (snd ab) b c ;; Some (fst ab, fst bc', snd bc')).
Proof.
  intros Hb Hc Em. unfold addmm_backward.
  assert (Hk: k = k' /\ exists bo, broadcast_shapes bb bc = Some bo /\ tshape m = bo ++ [n; p]).
  { unfold matmul_forward, np_matmul in Em. rewrite (rank_app2 b _ _ _ Hb), (rank_app2 c _ _ _ Hc) in Em. cbn [Nat.eqb] in Em.
    unfold mm in Em. rewrite Hb, Hc, !last2_of_app, !batch_of_app, (rank_app2 b _ _ _ Hb), (rank_app2 c _ _ _ Hc) in Em. cbn [Nat.leb andb] in Em.
    destruct (k =? k') eqn:Ek; [|discriminate]. apply Nat.eqb_eq in Ek. split. exact Ek.
    destruct (broadcast_shapes bb bc) as [bo|]; [|discriminate]. cbn [obind] in Em. injection Em as <-. exists bo. auto. }
  destruct Hk as (-> & bo & Eb & Hm). rewrite Hb, Hc, (addmm_prod_shape_spec bb bc bo n k' k' p Eb), Hm. reflexivity.
Qed.
Theorem linear_is_matmul_T_plus_b_proof (x w bias:tensor A) :
  bias_truth (Some bias) = Some true ->
  linear_forward x w (Some bias) = (m <- matmul_forward x (np_T w) ;; add_forward bias m) /\
  linear_forward x w None = matmul_forward x (np_T w).
Proof. intros Bt. unfold linear_forward. rewrite Bt. split; reflexivity. Qed.

(* accumulation into a gradient buffer never changes the buffer's shape *)
Theorem accumulate_shape_proof (buf g r:tensor A) : accumulate buf g = Some r -> tshape r = tshape buf.
Proof. unfold accumulate. destruct (broadcastable _ _); [|discriminate]. intros [= <-]. reflexivity. Qed.
Theorem accumulate_exact_proof (buf g:tensor A) : tshape g = tshape buf ->
  exists r, accumulate buf g = Some r /\ tshape r = tshape buf /\
    forall i, In i (idxs (tshape buf)) -> tat r i = sadd (tat buf i) (tat g i).
Proof.
  intros Hg. unfold accumulate. rewrite Hg, broadcastable_refl. eexists. split. reflexivity. split. reflexivity.
  intros i Hi. cbn [tat]. now rewrite bcast_idx_id.
Qed.
End F.
