(* C05 for indexing and iteration, C14 identities of the view ops. *)
From Coq Require Import List Arith ZArith Lia Bool Permutation.
Import ListNotations.
From SG Require Import Base.Sums Base.Cmp NumPy.Gather NumPy.Index NumPy.Tensor NumPy.ViewsAux NumPy.Views NumPy.Indexing NumPy.Spec.
From SG Require Import Proofs.ViewsAuxProofs Proofs.ViewsReshapeProofs Proofs.ViewsPermProofs Proofs.ViewsUnfoldProofs
                       Proofs.ViewsIndexProofs Proofs.ViewsSpecProofs.

(* ------------------------------------------------------------------ the implicit trailing full slices *)
Definition full : item := ISlice None None None.

Lemma slice_indices_full d : slice_indices d None None None = Some (0%Z, 1%Z, d).
Proof.
  unfold slice_indices. simpl. f_equal. f_equal.
  destruct (Z.ltb_spec 0 (Z.of_nat d)).
  - rewrite Z.sub_0_r, Z.div_1_r. lia.
  - lia.
Qed.

Lemma resolve_full rest : resolve rest (repeat full (length rest)) = Some (map (fun d => RSl 0 1 d) rest).
Proof.
  induction rest as [|d r IH]. reflexivity.
  cbn [length repeat map]. unfold full at 1. cbn [resolve].
  rewrite slice_indices_full. fold full. rewrite IH. reflexivity.
Qed.

Lemma basic_shape_full rest : basic_shape (map (fun d => RSl 0 1 d) rest) = rest.
Proof. unfold basic_shape. induction rest as [|d r IH]; simpl; auto. now rewrite IH. Qed.

Lemma walk_full rest t : forall r, length r = length rest -> walk (map (fun d => RSl 0 1 d) rest) t r = r.
Proof.
  induction rest as [|d rest IH]; intros [|a r] HL; simpl in HL; try discriminate; auto.
  cbn [map walk hd tl]. rewrite IH by lia. f_equal. lia.
Qed.

Lemma existsb_is_arr_full rest : existsb is_arr (map (fun d => RSl 0 1 d) rest) = false.
Proof. induction rest; simpl; auto. Qed.
Lemma existsb_is_adv_full rest : existsb is_adv (map (fun d => RSl 0 1 d) rest) = false.
Proof. induction rest; simpl; auto. Qed.

Lemma expand_single n it : consuming it = true -> is_ell it = false ->
  expand (S n) [it] = Some (it :: repeat full n).
Proof.
  intros C E. unfold expand. cbn [filter]. rewrite C, E. cbn [length]. cbn [Nat.ltb Nat.leb Nat.eqb].
  destruct (Nat.ltb_spec (S n) 1); try lia. replace (S n - 1) with n by lia. reflexivity.
Qed.

(* ------------------------------------------------------------------ x[k] *)
Theorem row_matches_spec d rest k op :
  fwd_index (d :: rest) [IInt k] = Some op -> spec_row (d :: rest) k op.
Proof.
  unfold fwd_index. cbn [length]. rewrite expand_single by reflexivity. cbn [resolve].
  destruct (norm_axis d k) as [k'|] eqn:Ek; try discriminate. rewrite resolve_full.
  unfold index_op. cbn [existsb is_arr]. rewrite existsb_is_arr_full. cbn [orb]. intros E; injection E as <-.
  assert (Hd : d <> 0). { intro; subst. rewrite norm_axis_0d in Ek. discriminate. }
  exists d, rest, k'. split; auto. split.
  { apply norm_axis_in_range; auto. congruence. }
  split. now apply norm_axis_val. cbn [g_in g_out g_phi]. split; auto. split.
  - unfold basic_shape. cbn [flat_map out_axes app]. apply basic_shape_full.
  - intros r Hr. cbn [walk]. rewrite walk_full; auto. now apply in_idxs_length.
Qed.

Theorem row_accepts_iff_legal d rest k :
  fwd_index (d :: rest) [IInt k] <> None <-> (- Z.of_nat d <= k < Z.of_nat d)%Z.
Proof.
  unfold fwd_index. cbn [length]. rewrite expand_single by reflexivity. cbn [resolve]. rewrite resolve_full.
  destruct (Nat.eq_dec d 0) as [->|Hd].
  - rewrite norm_axis_0d. split. contradiction. lia.
  - rewrite <- norm_axis_in_range by auto. destruct (norm_axis d k); split; try contradiction; try discriminate; auto.
    intros _. unfold index_op. cbn [existsb is_arr]. rewrite existsb_is_arr_full. discriminate.
Qed.

(* ------------------------------------------------------------------ x[[k1, ..., km]] *)
Theorem take0_matches_spec d rest ks op :
  fwd_index (d :: rest) [IArr ks] = Some op -> spec_take0 (d :: rest) ks op.
Proof.
  unfold fwd_index. cbn [length]. rewrite expand_single by reflexivity. cbn [resolve].
  destruct (norm_axes d ks) as [ks'|] eqn:Ek; try discriminate. rewrite resolve_full.
  destruct (norm_axes_spec _ _ _ Ek) as (Lk & _ & _ & Hr).
  unfold index_op. cbn [existsb is_arr orb]. cbn [arr_lens flat_map].
  assert (Al : arr_lens (map (fun d0 => RSl 0 1 d0) rest) = []).
  { unfold arr_lens. induction rest; simpl; auto. }
  unfold arr_lens in Al. rewrite Al. cbn [app].
  assert (Bc : bcast_len [length ks'] = Some (length ks')).
  { unfold bcast_len. cbn [filter]. destruct (Nat.eqb_spec (length ks') 1) as [->|]; reflexivity. }
  rewrite Bc.
  assert (Ct : contiguous (RArr ks' :: map (fun d0 => RSl 0 1 d0) rest) = true).
  { unfold contiguous. cbn [skip_nonadv is_adv skip_adv].
    assert (S : forall l, skip_adv (map (fun d0 => RSl 0 1 d0) l) = map (fun d0 => RSl 0 1 d0) l) by (intros [|? ?]; reflexivity).
    rewrite S, existsb_is_adv_full. reflexivity. }
  rewrite Ct. cbn [axes_before_adv is_adv]. intros E; injection E as <-.
  exists d, rest. split; auto. split.
  { apply Forall_forall. intros z Hz. specialize (Hr z Hz).
    destruct (Nat.eq_dec d 0) as [->|Hd]. rewrite norm_axis_0d in Hr. contradiction. now apply norm_axis_in_range. }
  cbn [g_in g_out g_phi]. split; auto.
  rewrite basic_shape_full. unfold insert_at. cbn [firstn skipn app]. split. now rewrite Lk.
  intros t r Hj. f_equal. cbn [nth]. unfold remove_at. cbn [firstn skipn app].
  apply in_idxs in Hj. inversion Hj as [|t' B r' rest' Ht Hr']; subst.
  rewrite walk_full by (apply Forall2_len in Hr'; auto). f_equal.
  rewrite Lk in *. rewrite (norm_axes_vals _ _ _ Ek).
  assert (N : forall u, u < length ks -> nth u (map (fun z => Z.to_nat (z mod Z.of_nat d)) ks) 0 = Z.to_nat (nth u ks 0%Z mod Z.of_nat d)).
  { intros u Hu. rewrite (nth_indep _ 0 (Z.to_nat (0 mod Z.of_nat d))) by (now rewrite map_length).
    now rewrite (map_nth (fun z => Z.to_nat (z mod Z.of_nat d))). }
  destruct (Nat.eqb_spec (length ks) 1) as [E1|E1].
  - assert (t = 0) by lia. subst t. apply N. lia.
  - now apply N.
Qed.

(* ------------------------------------------------------------------ slices: closed form = enumeration *)
Lemma adjust_py n neg v : (0 <= n)%Z ->
  adjust_bound n neg v = py_clip n neg (Some v) 0 0.
Proof.
  intros Hn. unfold adjust_bound, py_clip.
  destruct (Z.ltb_spec v 0); [destruct (Z.ltb_spec (v + n) 0)|destruct (Z.leb_spec n v)]; destruct neg; lia.
Qed.

Definition cnt_up (x step stop : Z) : nat := Z.to_nat (if (x <? stop)%Z then (stop - x - 1) / step + 1 else 0)%Z.
Definition cnt_down (x step stop : Z) : nat := Z.to_nat (if (stop <? x)%Z then (x - stop - 1) / (- step) + 1 else 0)%Z.

Lemma map_seq_shift {X} (f : nat -> X) k : map f (seq 1 k) = map (fun m => f (S m)) (seq 0 k).
Proof. rewrite <- seq_shift, map_map. reflexivity. Qed.

Lemma cnt_up_step x step stop : (0 < step)%Z -> (x < stop)%Z -> cnt_up x step stop = S (cnt_up (x + step) step stop).
Proof.
  intros Hs Hx. unfold cnt_up. destruct (Z.ltb_spec x stop); try lia.
  destruct (Z.ltb_spec (x + step) stop).
  - replace (stop - x - 1)%Z with ((stop - (x + step) - 1) + 1 * step)%Z by lia. rewrite Z.div_add by lia.
    assert (0 <= (stop - (x + step) - 1) / step)%Z by (apply Z.div_pos; lia). lia.
  - rewrite Z.div_small by lia. reflexivity.
Qed.

Lemma enum_up_closed step stop : (0 < step)%Z -> forall fuel x, (0 <= x)%Z -> cnt_up x step stop <= fuel ->
  enum_up fuel x step stop = map (fun m => Z.to_nat (x + Z.of_nat m * step)) (seq 0 (cnt_up x step stop)).
Proof.
  intros Hs. induction fuel as [|f IH]; intros x Hx Hc.
  - assert (E : cnt_up x step stop = 0) by lia. rewrite E. reflexivity.
  - cbn [enum_up]. destruct (Z.ltb_spec x stop) as [Hlt|Hge].
    + rewrite (cnt_up_step x step stop) in * by auto. cbn [seq map]. f_equal. f_equal. lia.
      rewrite IH by lia. rewrite map_seq_shift. apply map_ext. intros m. f_equal. lia.
    + unfold cnt_up. destruct (Z.ltb_spec x stop); try lia. reflexivity.
Qed.

Lemma cnt_down_step x step stop : (step < 0)%Z -> (stop < x)%Z -> cnt_down x step stop = S (cnt_down (x + step) step stop).
Proof.
  intros Hs Hx. unfold cnt_down. destruct (Z.ltb_spec stop x); try lia.
  destruct (Z.ltb_spec stop (x + step)).
  - replace (x - stop - 1)%Z with ((x + step - stop - 1) + 1 * (- step))%Z by lia. rewrite Z.div_add by lia.
    assert (0 <= (x + step - stop - 1) / - step)%Z by (apply Z.div_pos; lia). lia.
  - rewrite Z.div_small by lia. reflexivity.
Qed.

Lemma enum_down_closed step stop : (step < 0)%Z -> forall fuel x, cnt_down x step stop <= fuel ->
  enum_down fuel x step stop = map (fun m => Z.to_nat (x + Z.of_nat m * step)) (seq 0 (cnt_down x step stop)).
Proof.
  intros Hs. induction fuel as [|f IH]; intros x Hc.
  - assert (E : cnt_down x step stop = 0) by lia. rewrite E. reflexivity.
  - cbn [enum_down]. destruct (Z.ltb_spec stop x) as [Hlt|Hge].
    + rewrite (cnt_down_step x step stop) in * by auto. cbn [seq map]. f_equal. f_equal. lia.
      rewrite IH by lia. rewrite map_seq_shift. apply map_ext. intros m. f_equal. lia.
    + unfold cnt_down. destruct (Z.ltb_spec stop x); try lia. reflexivity.
Qed.

(* the positions of slice.indices + length formula are the enumerated ones of the language reference *)
Lemma slice_indices_enum d a b c st sp len :
  slice_indices d a b c = Some (st, sp, len) ->
  spec_slice_positions d a b c = Some (map (fun m => Z.to_nat (st + Z.of_nat m * sp)) (seq 0 len)).
Proof.
  intros E. pose proof (slice_indices_bounds _ _ _ _ _ _ _ E) as [Hsp Hb]. revert E.
  unfold slice_indices, spec_slice_positions.
  set (step := match c with None => 1%Z | Some s => s end).
  destruct (Z.eqb_spec step 0) as [|Hs]; try discriminate.
  set (nz := Z.of_nat d). assert (Hn : (0 <= nz)%Z) by (unfold nz; lia).
  set (neg := (step <? 0)%Z).
  set (start := match a with None => if neg then (nz - 1)%Z else 0%Z | Some v => adjust_bound nz neg v end).
  set (stop := match b with None => if neg then (-1)%Z else nz | Some v => adjust_bound nz neg v end).
  assert (Ea : py_clip nz neg a 0 (nz - 1) = start).
  { unfold start. destruct a as [v|]; auto. rewrite adjust_py by auto. reflexivity. }
  assert (Eb : py_clip nz neg b nz (-1) = stop).
  { unfold stop. destruct b as [v|]; auto. rewrite adjust_py by auto. reflexivity. }
  rewrite Ea, Eb. intros E. injection E as <- <- <-. f_equal. unfold neg in *.
  destruct (Z.ltb_spec step 0) as [Hneg|Hpos].
  - fold (cnt_down start step stop) in *. apply enum_down_closed; auto.
    (* the selected positions are distinct and in [0, d): at most d of them *)
    destruct (cnt_down start step stop) as [|k] eqn:Ek. lia.
    pose proof (Hb 0 ltac:(lia)). pose proof (Hb k ltac:(lia)). fold nz in H, H0. nia.
  - fold (cnt_up start step stop) in *.
    assert (S1 : (0 <= start)%Z). { unfold start. destruct a. apply adjust_bound_pos; auto. lia. }
    apply enum_up_closed; try lia.
    destruct (cnt_up start step stop) as [|k] eqn:Ek. lia.
    pose proof (Hb 0 ltac:(lia)). pose proof (Hb k ltac:(lia)). fold nz in H, H0. nia.
Qed.

Theorem slice0_matches_spec d rest a b c op :
  fwd_index (d :: rest) [ISlice a b c] = Some op -> spec_slice0 (d :: rest) a b c op.
Proof.
  unfold fwd_index. cbn [length]. rewrite expand_single by reflexivity. cbn [resolve].
  destruct (slice_indices d a b c) as [[[st sp] len]|] eqn:Es; try discriminate. rewrite resolve_full.
  unfold index_op. cbn [existsb is_arr]. rewrite existsb_is_arr_full. cbn [orb]. intros E; injection E as <-.
  exists d, rest, (map (fun m => Z.to_nat (st + Z.of_nat m * sp)) (seq 0 len)).
  split; auto. split. now apply slice_indices_enum. cbn [g_in g_out g_phi]. split; auto.
  rewrite basic_shape_full. split. now rewrite map_length, seq_length.
  intros t r Hj. apply in_idxs in Hj. inversion Hj as [|t' B r' rest' Ht Hr']; subst.
  cbn [walk hd tl]. rewrite walk_full by (apply Forall2_len in Hr'; auto). f_equal. f_equal.
  now rewrite nth_map_seq.
Qed.

Theorem slice0_accepts_iff_legal d rest a b c :
  fwd_index (d :: rest) [ISlice a b c] <> None <-> spec_slice_positions d a b c <> None.
Proof.
  unfold fwd_index. cbn [length]. rewrite expand_single by reflexivity. cbn [resolve]. rewrite resolve_full.
  destruct (slice_indices d a b c) as [[[st sp] len]|] eqn:Es.
  - rewrite (slice_indices_enum _ _ _ _ _ _ _ Es). split; intros _; try discriminate.
    unfold index_op. cbn [existsb is_arr]. rewrite existsb_is_arr_full. discriminate.
  - split. contradiction. unfold slice_indices in Es. unfold spec_slice_positions.
    destruct (Z.eqb_spec (match c with None => 1%Z | Some s => s end) 0); try discriminate. contradiction.
Qed.

(* ------------------------------------------------------------------ iteration over the first dimension *)

Lemma nth_error_upd_nth {X} (v : X) : forall l k k', k < length l ->
  nth_error (upd_nth k v l) k' = if k' =? k then Some v else nth_error l k'.
Proof.
  induction l as [|a l IH]; intros k k' Hk; simpl in Hk. lia.
  destruct k as [|k].
  - unfold upd_nth. cbn [firstn skipn app]. destruct k'; reflexivity.
  - change (upd_nth (S k) v (a :: l)) with (a :: upd_nth k v l).
    destruct k' as [|k']. reflexivity. cbn [nth_error]. rewrite IH by lia. reflexivity.
Qed.

Lemma count_next_same k evs : count_next k (Next k :: evs) = S (count_next k evs).
Proof. unfold count_next. cbn [filter]. now rewrite Nat.eqb_refl. Qed.
Lemma count_next_other k k' evs : k' <> k -> count_next k (Next k' :: evs) = count_next k evs.
Proof. intros Hne. unfold count_next. cbn [filter]. destruct (Nat.eqb_spec k' k); congruence. Qed.
Lemma count_next_new k evs : count_next k (NewIter :: evs) = count_next k evs.
Proof. reflexivity. Qed.

Theorem iter_independent sh : forall evs st k c b,
  nth_error st k = Some (c, b) -> c <= b ->
  yields k evs (irun sh st evs) = seq c (min (count_next k evs) (b - c)).
Proof.
  induction evs as [|e evs IH]; intros st k c b Hk Hcb.
  - reflexivity.
  - cbn [irun]. destruct e as [|k'].
    + (* a new iterator is created (or the creation fails): iterator k is untouched *)
      rewrite count_next_new. unfold istep. destruct (tlen sh) as [d|]; cbn [yields].
      * apply IH; auto. rewrite nth_error_app1; auto. apply nth_error_Some. congruence.
      * apply IH; auto.
    + unfold istep. destruct (nth_error st k') as [[c' b']|] eqn:Ek'.
      * assert (Hl : k' < length st) by (apply nth_error_Some; congruence).
        destruct (Nat.ltb_spec c' b') as [Hlt|Hge]; cbn [yields].
        -- destruct (Nat.eqb_spec k' k) as [->|Hne].
           ++ rewrite Hk in Ek'. injection Ek' as <- <-. rewrite count_next_same.
              rewrite (IH _ k (S c) b); try lia.
              ** replace (min (S (count_next k evs)) (b - c)) with (S (min (count_next k evs) (b - S c))) by lia.
                 reflexivity.
              ** rewrite nth_error_upd_nth by auto. now rewrite Nat.eqb_refl.
           ++ rewrite count_next_other by auto. apply IH; auto.
              rewrite nth_error_upd_nth by auto. destruct (Nat.eqb_spec k k'); congruence.
        -- destruct (Nat.eqb_spec k' k) as [->|Hne].
           ++ rewrite Hk in Ek'. injection Ek' as <- <-. rewrite count_next_same. rewrite (IH _ k c b); auto.
              replace (b - c) with 0 by lia. now rewrite !Nat.min_0_r.
           ++ rewrite count_next_other by auto. apply IH; auto.
      * cbn [yields]. destruct (Nat.eqb_spec k' k) as [->|Hne]. congruence.
        rewrite count_next_other by auto. apply IH; auto.
Qed.

(* a fresh iterator yields the rows 0, 1, ... in order, each once, whatever else is iterated meanwhile *)
Theorem iter_yields_rows d rest st evs :
  let sh := d :: rest in
  let k := length st in
  tlen sh = Some d /\
  fst (istep sh st NewIter) = st ++ [(0, d)] /\
  yields k evs (irun sh (st ++ [(0, d)]) evs) = seq 0 (min (count_next k evs) d).
Proof.
  cbn zeta. split; auto. split; auto.
  rewrite (iter_independent (d :: rest) evs (st ++ [(0, d)]) (length st) 0 d); try lia.
  now rewrite Nat.sub_0_r.
  rewrite nth_error_app2 by lia. now rewrite Nat.sub_diag.
Qed.

(* ------------------------------------------------------------------ C14 *)
Theorem flatten_is_reshape sh s e op :
  fwd_flatten sh s e = Some op ->
  fwd_reshape sh (map Z.of_nat (g_out op)) = Some op /\
  forall gsh, bwd_flatten gsh sh = bwd_reshape gsh sh.
Proof.
  unfold fwd_flatten. destruct (flatten_target sh s e) as [t|]; try discriminate. intros F. split; auto.
  apply np_reshape_some in F as (out & _ & -> & Es). cbn [g_out reshape_op].
  unfold fwd_reshape, np_reshape. now rewrite infer_shape_of_nat.
Qed.

Theorem flatten_is_reshape_to_spec_shape sh s e s' e' op :
  fwd_flatten sh s e = Some op ->
  wrap_dim (length sh) s = Some s' -> wrap_dim (length sh) e = Some e' ->
  fwd_reshape sh (map Z.of_nat (spec_flatten_shape sh s' e')) = Some op.
Proof.
  intros F Ws We. destruct (flatten_matches_spec sh s e op F) as (s1 & e1 & Ws1 & We1 & _ & Eo & _).
  rewrite Ws in Ws1. rewrite We in We1. injection Ws1 as <-. injection We1 as <-. rewrite <- Eo.
  now apply flatten_is_reshape in F.
Qed.

Theorem movedim_adjacent_is_transpose sh s d s' d' :
  norm_axis (length sh) s = Some s' -> norm_axis (length sh) d = Some d' -> (s' = S d' \/ d' = S s') ->
  fwd_movedim sh s d = fwd_transpose sh s d /\
  forall gsh, length gsh = length sh -> bwd_movedim gsh s d = bwd_transpose gsh s d.
Proof.
  intros Es Ed Adj. split.
  - unfold fwd_movedim, fwd_transpose. rewrite (np_moveaxis_is_some sh s d s' d') by auto.
    unfold np_swapaxes. rewrite Es, Ed. f_equal. f_equal. apply map_ext. intros k. now apply mv_adjacent.
  - intros gsh L. unfold bwd_movedim, bwd_transpose. rewrite <- L in Es, Ed.
    rewrite (np_moveaxis_is_some gsh d s d' s') by auto.
    unfold np_swapaxes. rewrite Es, Ed. f_equal. f_equal. apply map_ext. intros k.
    rewrite mv_adjacent by tauto. apply sw_comm.
Qed.
