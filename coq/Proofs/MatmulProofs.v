(* matmul / addmm / linear: <g, a@b> = <g@b^T, a> = <a^T@g, b> by exchange of finite sums, with batch
   broadcasting undone by unbroadcast.                                                             *)
From Coq Require Import List Arith ZArith Lia Bool Permutation.
Import ListNotations.
From SG Require Import Base.Sums Base.ScalarExt Base.Cmp NumPy.Index NumPy.Tensor NumPy.Gather NumPy.TensorFn NumPy.Broadcast NumPy.Matmul
  Proofs.IdxSums Proofs.BcastProofs Proofs.ArithProofs.

(* ---------- last two axes ---------- *)
Lemma batch_of_app p (x y:nat) : batch_of (p ++ [x; y]) = p.
Proof. unfold batch_of. rewrite app_length. simpl. replace (length p + 2 - 2) with (length p) by lia. rewrite firstn_app, Nat.sub_diag, firstn_all. simpl. apply app_nil_r. Qed.
Lemma firstn_app2 {X} (p:list X) x y : firstn (length (p ++ [x; y]) - 2) (p ++ [x; y]) = p.
Proof. rewrite app_length. simpl. replace (length p + 2 - 2) with (length p) by lia. rewrite firstn_app, Nat.sub_diag, firstn_all. simpl. apply app_nil_r. Qed.
Lemma last2_of_app {X} (p:list X) x y : last2_of (p ++ [x; y]) = [x; y].
Proof. unfold last2_of. rewrite app_length. simpl. replace (length p + 2 - 2) with (length p) by lia. rewrite skipn_app, Nat.sub_diag, skipn_all. reflexivity. Qed.
Lemma rank_app2 {A} (t:tensor A) p x y : tshape t = p ++ [x; y] -> rank t = S (S (length p)).
Proof. unfold rank. intros ->. rewrite app_length. simpl. lia. Qed.

(* ---------- broadcasting with a common tail ---------- *)
Lemma bcompat_app : forall a b t, bcompat a b = true -> bcompat (a ++ t) (b ++ t) = true.
Proof.
  induction a as [|d a IH]; intros [|e b] t E; simpl in E; try discriminate.
  - simpl. apply bcompat_refl.
  - apply andb_true_iff in E as [E1 E2]. simpl. now rewrite E1, IH.
Qed.
Lemma broadcastable_app a b t : broadcastable a b = true -> broadcastable (a ++ t) (b ++ t) = true.
Proof.
  intros Hb. apply broadcastable_spec in Hb as [Hl Hc]. unfold broadcastable. rewrite !app_length.
  apply andb_true_iff. split. apply Nat.leb_le. lia.
  replace (length b + length t - (length a + length t)) with (length b - length a) by lia.
  rewrite skipn_app. replace (length b - length a - length b) with 0 by lia. simpl.
  now apply bcompat_app.
Qed.
Lemma bm_al_app : forall a p t q, length p = length a -> bm_al (a ++ t) (p ++ q) = bm_al a p ++ bm_al t q.
Proof. induction a as [|d a IH]; intros [|x p] t q E; simpl in *; try discriminate; auto. f_equal. apply IH. lia. Qed.
Lemma bcast_idx_app a b t p q : broadcastable a b = true -> In p (idxs b) -> In q (idxs t) ->
  bcast_idx (a ++ t) (b ++ t) (p ++ q) = bcast_idx a b p ++ q.
Proof.
  intros Hb Hp Hq. apply broadcastable_spec in Hb as [Hl Hc]. unfold bcast_idx. rewrite !app_length.
  replace (length b + length t - (length a + length t)) with (length b - length a) by lia.
  pose proof (in_idxs_length _ _ Hp) as Lp.
  rewrite skipn_app. replace (length b - length a - length p) with 0 by lia. simpl.
  rewrite bm_al_app. now rewrite (bm_al_id t q Hq).
  rewrite skipn_length. apply bcompat_length in Hc. rewrite skipn_length in Hc. lia.
Qed.

Section P.
Context {A:Type} `{ScalarLaws A}.

Lemma isum3_rev {I J K} (la:list I) (lb:list J) (lc:list K) (F:I->J->K->A) :
  isum la (fun a => isum lb (fun b => isum lc (fun c => F a b c))) =
  isum lc (fun c => isum lb (fun b => isum la (fun a => F a b c))).
Proof.
  rewrite isum_exchange.
  transitivity (isum lb (fun b => isum lc (fun c => isum la (fun a => F a b c)))).
  { apply isum_ext. intros b _. apply isum_exchange. }
  apply isum_exchange.
Qed.

Lemma isum_idxs_2 n m (G:idx->A) : isum (idxs [n; m]) G = isum (seq 0 n) (fun r => isum (seq 0 m) (fun c => G [r; c])).
Proof.
  rewrite isum_idxs_cons. apply isum_ext. intros r _. rewrite isum_idxs_cons. apply isum_ext. intros c _. apply isum_idxs_nil.
Qed.
Lemma in_idxs_2 n m r c : In [r; c] (idxs [n; m]) <-> r < n /\ c < m.
Proof. rewrite in_idxs_cons, in_idxs_cons, in_idxs_nil. tauto. Qed.

(* ---------- specification of the model of a @ b for ranks >= 2 ---------- *)
Definition mm_val (a b:tensor A) ba bb bo k (p:idx) r c : A :=
  isum (seq 0 k) (fun l => smul (tat a (bcast_idx ba bo p ++ [r; l])) (tat b (bcast_idx bb bo p ++ [l; c]))).

Lemma np_matmul_spec (a b:tensor A) ba bb bo n k m :
  tshape a = ba ++ [n; k] -> tshape b = bb ++ [k; m] -> broadcast_shapes ba bb = Some bo ->
  exists o, np_matmul a b = Some o /\ F_matmul a b = Some o /\ tshape o = bo ++ [n; m] /\
    forall p r c, tat o (p ++ [r; c]) = mm_val a b ba bb bo k p r c.
Proof.
  intros Ha Hb Eb.
  assert (Ra := rank_app2 a _ _ _ Ha). assert (Rb := rank_app2 b _ _ _ Hb).
  assert (Emm: exists o, mm a b = Some o /\ tshape o = bo ++ [n; m] /\ forall p r c, tat o (p ++ [r; c]) = mm_val a b ba bb bo k p r c).
  { unfold mm. rewrite Ha, Hb, !last2_of_app, !batch_of_app, Ra, Rb. cbn [Nat.leb andb]. rewrite Nat.eqb_refl, Eb.
    eexists. split. reflexivity. split. reflexivity. intros p r c. cbn [tat]. rewrite firstn_app2, last2_of_app. reflexivity. }
  destruct Emm as (o & Eo & Ho & Hv). exists o.
  assert (En: np_matmul a b = Some o).
  { unfold np_matmul. rewrite Ra, Rb. cbn [Nat.eqb]. rewrite Eo. reflexivity. }
  split. exact En. split. unfold F_matmul. rewrite Ra, Rb. exact En. auto.
Qed.

Lemma mm_spec (a b:tensor A) ba bb bo n k m :
  tshape a = ba ++ [n; k] -> tshape b = bb ++ [k; m] -> broadcast_shapes ba bb = Some bo ->
  exists o, mm a b = Some o /\ tshape o = bo ++ [n; m] /\ forall p r c, tat o (p ++ [r; c]) = mm_val a b ba bb bo k p r c.
Proof.
  intros Ha Hb Eb. assert (Ra := rank_app2 a _ _ _ Ha). assert (Rb := rank_app2 b _ _ _ Hb).
  unfold mm. rewrite Ha, Hb, !last2_of_app, !batch_of_app, Ra, Rb. cbn [Nat.leb andb]. rewrite Nat.eqb_refl, Eb.
  eexists. split. reflexivity. split. reflexivity. intros p r c. cbn [tat]. rewrite firstn_app2, last2_of_app. reflexivity.
Qed.

Lemma swap_last2_spec (b:tensor A) bb x y : tshape b = bb ++ [x; y] ->
  exists bT, swap_last2 b = Some bT /\ tshape bT = bb ++ [y; x] /\ forall q u v, tat bT (q ++ [u; v]) = tat b (q ++ [v; u]).
Proof.
  intros Hb. unfold swap_last2. rewrite Hb, last2_of_app, batch_of_app, (rank_app2 b _ _ _ Hb). cbn [Nat.leb].
  eexists. split. reflexivity. split. reflexivity. intros q u v. cbn [tat]. now rewrite last2_of_app, firstn_app2.
Qed.

Lemma matmul_backward_rank2 (g a b:tensor A) ba bb (n k k' m:nat) :
  tshape a = ba ++ [n; k] -> tshape b = bb ++ [k'; m] -> matmul_backward g a b = matmul_backward2 g a b.
Proof.
  intros Ha Hb. unfold matmul_backward. rewrite (rank_app2 a _ _ _ Ha), (rank_app2 b _ _ _ Hb). cbn [Nat.eqb].
  destruct (matmul_backward2 g a b) as [[x y]|]; reflexivity.
Qed.

Context `{!ScalarMulLaws A}.

(* a sum over bo ++ [n;m] as nested sums *)
Lemma isum_batch2 bo n m (F:idx->A) :
  isum (idxs (bo ++ [n; m])) F = isum (idxs bo) (fun p => isum (seq 0 n) (fun r => isum (seq 0 m) (fun c => F (p ++ [r; c])))).
Proof. rewrite isum_idxs_app. apply isum_ext. intros p _. apply isum_idxs_2. Qed.

Theorem matmul_vjp_proof ba bb bo n k m (g a b:tensor A) :
  broadcast_shapes ba bb = Some bo -> tshape a = ba ++ [n; k] -> tshape b = bb ++ [k; m] -> tshape g = bo ++ [n; m] ->
  exists ga gb, matmul_backward g a b = Some (ga, gb) /\ tshape ga = tshape a /\ tshape gb = tshape b /\
    (forall da, tshape da = tshape a -> exists o, F_matmul da b = Some o /\ tshape o = tshape g /\
        dot (idxs (tshape o)) (tat g) (tat o) = dot (idxs (tshape a)) (tat ga) (tat da)) /\
    (forall db, tshape db = tshape b -> exists o, F_matmul a db = Some o /\ tshape o = tshape g /\
        dot (idxs (tshape o)) (tat g) (tat o) = dot (idxs (tshape b)) (tat gb) (tat db)).
Proof.
  intros Eb Ha Hb Hg. destruct (broadcast_shapes_sound _ _ _ Eb) as [Ba Bb].
  destruct (swap_last2_spec b bb k m Hb) as (bT & EbT & HbT & VbT).
  destruct (swap_last2_spec a ba n k Ha) as (aT & EaT & HaT & VaT).
  destruct (np_matmul_spec g bT bo bb bo n m k Hg HbT (broadcast_shapes_absorb_r bb bo Bb)) as (ga' & Ega' & _ & Hga' & Vga').
  destruct (np_matmul_spec aT g ba bo bo k n m HaT Hg (broadcast_shapes_absorb_l ba bo Ba)) as (gb' & Egb' & _ & Hgb' & Vgb').
  assert (BA: broadcastable (ba ++ [n; k]) (bo ++ [n; k]) = true) by now apply broadcastable_app.
  assert (BB: broadcastable (bb ++ [k; m]) (bo ++ [k; m]) = true) by now apply broadcastable_app.
  destruct (unbroadcast_is_scatter_proof _ _ ga' BA Hga') as (ga & Ega & Hsa & Vga).
  destruct (unbroadcast_is_scatter_proof _ _ gb' BB Hgb') as (gb & Egb & Hsb & Vgb).
  exists ga, gb. rewrite (matmul_backward_rank2 g a b ba bb n k k m Ha Hb). unfold matmul_backward2. rewrite EbT, EaT. cbn [obind]. rewrite Ega', Egb'. cbn [obind].
  rewrite Ha, Hb, Ega, Egb. cbn [obind]. repeat split; auto.
  - (* d/da *)
    intros da Hda.
    destruct (np_matmul_spec da b ba bb bo n k m Hda Hb Eb) as (o & _ & Eo & Ho & Vo).
    exists o. split. exact Eo. split. congruence. rewrite Ho.
    transitivity (dot (idxs (bo ++ [n; k])) (tat ga') (fun j => tat da (bcast_idx (ba ++ [n; k]) (bo ++ [n; k]) j))).
    2:{ rewrite bcast_adjoint by auto. apply dot_ext; auto. intros i Hi. symmetry. now apply Vga. }
    unfold dot. rewrite !isum_batch2. apply isum_ext. intros p Hp.
    transitivity (isum (seq 0 n) (fun r => isum (seq 0 m) (fun c => isum (seq 0 k) (fun l =>
        smul (smul (tat g (p ++ [r; c])) (tat b (bcast_idx bb bo p ++ [l; c]))) (tat da (bcast_idx ba bo p ++ [r; l])))))).
    { apply isum_ext. intros r _. apply isum_ext. intros c _. rewrite Vo. unfold mm_val. rewrite <- isum_mul_l.
      apply isum_ext. intros l _. rewrite (smul_comm (tat da _)). apply smul_assoc. }
    apply isum_ext. intros r Hr. rewrite isum_exchange. apply isum_ext. intros l Hl.
    rewrite Vga'. unfold mm_val. rewrite <- isum_mul_r. apply isum_ext. intros c Hc.
    rewrite (bcast_idx_id bo p Hp), VbT.
    rewrite (bcast_idx_app ba bo [n; k] p [r; l]); auto.
    apply in_idxs_2. apply in_seq in Hr, Hl. lia.
  - (* d/db *)
    intros db Hdb.
    destruct (np_matmul_spec a db ba bb bo n k m Ha Hdb Eb) as (o & _ & Eo & Ho & Vo).
    exists o. split. exact Eo. split. congruence. rewrite Ho.
    transitivity (dot (idxs (bo ++ [k; m])) (tat gb') (fun j => tat db (bcast_idx (bb ++ [k; m]) (bo ++ [k; m]) j))).
    2:{ rewrite bcast_adjoint by auto. apply dot_ext; auto. intros i Hi. symmetry. now apply Vgb. }
    unfold dot. rewrite !isum_batch2. apply isum_ext. intros p Hp.
    transitivity (isum (seq 0 n) (fun r => isum (seq 0 m) (fun c => isum (seq 0 k) (fun l =>
        smul (smul (tat a (bcast_idx ba bo p ++ [r; l])) (tat g (p ++ [r; c]))) (tat db (bcast_idx bb bo p ++ [l; c])))))).
    { apply isum_ext. intros r _. apply isum_ext. intros c _. rewrite Vo. unfold mm_val. rewrite <- isum_mul_l.
      apply isum_ext. intros l _. rewrite smul_assoc. f_equal. apply smul_comm. }
    (* reorder r c l  ->  l c r *)
    transitivity (isum (seq 0 k) (fun l => isum (seq 0 m) (fun c => isum (seq 0 n) (fun r =>
        smul (smul (tat a (bcast_idx ba bo p ++ [r; l])) (tat g (p ++ [r; c]))) (tat db (bcast_idx bb bo p ++ [l; c])))))).
    { apply (isum3_rev (seq 0 n) (seq 0 m) (seq 0 k)
        (fun r c l => smul (smul (tat a (bcast_idx ba bo p ++ [r; l])) (tat g (p ++ [r; c]))) (tat db (bcast_idx bb bo p ++ [l; c])))). }
    apply isum_ext. intros l Hl. apply isum_ext. intros c Hc.
    rewrite Vgb'. unfold mm_val. rewrite <- isum_mul_r. apply isum_ext. intros r Hr.
    rewrite (bcast_idx_id bo p Hp), VaT.
    rewrite (bcast_idx_app bb bo [k; m] p [l; c]); auto.
    apply in_idxs_2. apply in_seq in Hl, Hc. lia.
Qed.

(* ================= addmm ================= *)
Lemma addmm_prod_shape_spec bb bc bo (n k k' m:nat) : broadcast_shapes bb bc = Some bo ->
  addmm_prod_shape (bb ++ [n; k]) (bc ++ [k'; m]) = Some (bo ++ [n; m]).
Proof.
  intros Eb. unfold addmm_prod_shape. rewrite !app_length. cbn [length].
  replace (length bb + 2 =? 1) with false by (symmetry; apply Nat.eqb_neq; lia).
  replace (length bc + 2 =? 1) with false by (symmetry; apply Nat.eqb_neq; lia).
  rewrite !batch_of_app, Eb. cbn [obind].
  rewrite !app_length. cbn [length]. replace (2 <=? length bb + 2) with true by (symmetry; apply Nat.leb_le; lia).
  replace (1 <=? length bc + 2) with true by (symmetry; apply Nat.leb_le; lia). cbn [andb].
  replace (length bb + 2 - 2) with (length bb + 0) by lia. replace (length bc + 2 - 1) with (length bc + 1) by lia.
  rewrite !app_nth2_plus. reflexivity.
Qed.

(* addmm(a, b, c) = a + b @ c is jointly linear in (a, b) and in (a, c); the three gradients are the adjoints *)
Theorem addmm_vjp_proof sa bb bc bo n k m so (g a b c:tensor A) :
  broadcast_shapes bb bc = Some bo -> broadcast_shapes sa (bo ++ [n; m]) = Some so ->
  tshape a = sa -> tshape b = bb ++ [n; k] -> tshape c = bc ++ [k; m] -> tshape g = so ->
  exists ga gb gc, addmm_backward g a b c = Some (ga, gb, gc) /\
    tshape ga = tshape a /\ tshape gb = tshape b /\ tshape gc = tshape c /\
    (forall a' b', tshape a' = tshape a -> tshape b' = tshape b ->
       exists o, addmm_forward a' b' c = Some o /\ tshape o = so /\
         dot (idxs so) (tat g) (tat o) = sadd (dot (idxs (tshape a)) (tat ga) (tat a')) (dot (idxs (tshape b)) (tat gb) (tat b'))) /\
    (forall a' c', tshape a' = tshape a -> tshape c' = tshape c ->
       exists o, addmm_forward a' b c' = Some o /\ tshape o = so /\
         dot (idxs so) (tat g) (tat o) = sadd (dot (idxs (tshape a)) (tat ga) (tat a')) (dot (idxs (tshape c)) (tat gc) (tat c'))).
Proof.
  intros Eb Es Ha Hb Hc Hg.
  destruct (add_vjp_proof sa (bo ++ [n; m]) so g Es Hg) as (ga & gmm & Eab & Hsa & Hsm & _ & _ & Vadd).
  destruct (matmul_vjp_proof bb bc bo n k m gmm b c Eb Hb Hc Hsm) as (gb & gc & Ebc & Hsb & Hsc & Vb & Vc).
  exists ga, gb, gc. unfold addmm_backward. rewrite Hb, Hc, (addmm_prod_shape_spec bb bc bo n k k m Eb). cbn [obind].
  rewrite Ha, Eab. cbn [obind fst snd]. rewrite Ebc. cbn [obind fst snd].
  split. reflexivity. split. congruence. split. congruence. split. congruence. split.
  - intros a' b' Ha' Hb'. destruct (Vb b') as (o & Eo & Ho & Hd). congruence.
    unfold F_matmul in Eo. rewrite (rank_app2 b' bb n k), (rank_app2 c bc k m) in Eo by congruence. cbn [Nat.ltb Nat.leb orb] in Eo.
    destruct (Vadd a' o) as (r & Er & Hr & Hdr). congruence. congruence.
    exists r. unfold addmm_forward. rewrite Eo. cbn [obind]. split. exact Er. split. exact Hr.
    rewrite Hdr. f_equal. rewrite Ho, Hsm in Hd. rewrite <- Hb. exact Hd.
  - intros a' c' Ha' Hc'. destruct (Vc c') as (o & Eo & Ho & Hd). congruence.
    unfold F_matmul in Eo. rewrite (rank_app2 b bb n k), (rank_app2 c' bc k m) in Eo by congruence. cbn [Nat.ltb Nat.leb orb] in Eo.
    destruct (Vadd a' o) as (r & Er & Hr & Hdr). congruence. congruence.
    exists r. unfold addmm_forward. rewrite Eo. cbn [obind]. split. exact Er. split. exact Hr.
    rewrite Hdr. f_equal. rewrite Ho, Hsm in Hd. rewrite <- Hc. exact Hd.
Qed.

(* ================= linear ================= *)
Lemma np_T_2d (w:tensor A) (m k:nat) : tshape w = [m; k] ->
  tshape (np_T w) = [] ++ [k; m] /\ forall l c, tat (np_T w) [l; c] = tat w [c; l].
Proof. intros Hw. unfold np_T. cbn [tshape tat]. rewrite Hw. split; reflexivity. Qed.

Lemma dot_T (u w:tensor A) (m k:nat) : tshape u = [k; m] ->
  dot (idxs [k; m]) (tat u) (tat (np_T w)) = dot (idxs [m; k]) (tat (np_T u)) (tat w).
Proof.
  intros Hu. unfold dot. rewrite !isum_idxs_2, isum_exchange. apply isum_ext. intros c _. apply isum_ext. intros l _. reflexivity.
Qed.

Theorem linear_vjp_proof bx n k m sb so (g x w:tensor A) (bias:tensor A) :
  broadcast_shapes sb ((bx ++ [n; m])) = Some so ->
  tshape x = bx ++ [n; k] -> tshape w = [m; k] -> tshape bias = sb -> bias_truth (Some bias) = Some true -> tshape g = so ->
  exists gx gw gb, linear_backward g x w (Some bias) = Some (gx, gw, Some gb) /\
    tshape gx = tshape x /\ tshape gw = tshape w /\ tshape gb = tshape bias /\
    (forall x' b', tshape x' = tshape x -> tshape b' = tshape bias -> bias_truth (Some b') = Some true ->
       exists o, linear_forward x' w (Some b') = Some o /\ tshape o = so /\
         dot (idxs so) (tat g) (tat o) = sadd (dot (idxs (tshape x)) (tat gx) (tat x')) (dot (idxs (tshape bias)) (tat gb) (tat b'))) /\
    (forall w' b', tshape w' = tshape w -> tshape b' = tshape bias -> bias_truth (Some b') = Some true ->
       exists o, linear_forward x w' (Some b') = Some o /\ tshape o = so /\
         dot (idxs so) (tat g) (tat o) = sadd (dot (idxs (tshape w)) (tat gw) (tat w')) (dot (idxs (tshape bias)) (tat gb) (tat b'))).
Proof.
  intros Es Hx Hw Hb Bt Hg. destruct (np_T_2d w m k Hw) as [HwT _].
  assert (Ebx: broadcast_shapes bx [] = Some bx) by (apply broadcast_shapes_absorb_r, broadcastable_nil).
  destruct (addmm_vjp_proof sb bx [] bx n k m so g bias x (np_T w) Ebx Es Hb Hx HwT Hg)
    as (gb & gx & gwt & Ebw & Hsb & Hsx & Hswt & Vxb & Vwb).
  exists gx, (np_T gwt), gb. unfold linear_backward. rewrite Bt. cbn [obind]. rewrite Ebw. cbn [obind fst snd].
  split. reflexivity. split. exact Hsx. split. { unfold np_T. cbn [tshape]. rewrite Hswt, HwT, Hw. reflexivity. } split. exact Hsb. split.
  - intros x' b' Hx' Hb' Bt'. destruct (Vxb b' x') as (o & Eo & Ho & Hd); auto.
    exists o. unfold linear_forward. rewrite Bt'. cbn [obind]. split. exact Eo. split. exact Ho.
    rewrite Hd. apply sadd_comm.
  - intros w' b' Hw' Hb' Bt'. destruct (np_T_2d w' m k) as [HwT' _]. congruence.
    destruct (Vwb b' (np_T w')) as (o & Eo & Ho & Hd); auto. congruence.
    exists o. unfold linear_forward. rewrite Bt'. cbn [obind]. split. exact Eo. split. exact Ho.
    rewrite Hd, sadd_comm. f_equal. rewrite HwT, Hw. cbn [app]. apply dot_T. rewrite Hswt, HwT. reflexivity.
Qed.

Theorem linear_nobias_vjp_proof bx n k m (g x w:tensor A) :
  tshape x = bx ++ [n; k] -> tshape w = [m; k] -> tshape g = bx ++ [n; m] ->
  exists gx gw, linear_backward g x w None = Some (gx, gw, None) /\
    tshape gx = tshape x /\ tshape gw = tshape w /\
    (forall x', tshape x' = tshape x -> exists o, linear_forward x' w None = Some o /\ tshape o = tshape g /\
         dot (idxs (tshape g)) (tat g) (tat o) = dot (idxs (tshape x)) (tat gx) (tat x')) /\
    (forall w', tshape w' = tshape w -> exists o, linear_forward x w' None = Some o /\ tshape o = tshape g /\
         dot (idxs (tshape g)) (tat g) (tat o) = dot (idxs (tshape w)) (tat gw) (tat w')).
Proof.
  intros Hx Hw Hg. destruct (np_T_2d w m k Hw) as [HwT _].
  assert (Ebx: broadcast_shapes bx [] = Some bx) by (apply broadcast_shapes_absorb_r, broadcastable_nil).
  destruct (matmul_vjp_proof bx [] bx n k m g x (np_T w) Ebx Hx HwT Hg) as (gx & gwt & Ebw & Hsx & Hswt & Vx & Vw).
  exists gx, (np_T gwt). unfold linear_backward. cbn [bias_truth obind]. rewrite Ebw. cbn [obind fst snd].
  split. reflexivity. split. exact Hsx. split. { unfold np_T. cbn [tshape]. rewrite Hswt, HwT, Hw. reflexivity. } split.
  - intros x' Hx'. destruct (Vx x' Hx') as (o & Eo & Ho & Hd). exists o. unfold linear_forward. cbn [bias_truth obind].
    unfold F_matmul in Eo. rewrite (rank_app2 x' bx n k), (rank_app2 (np_T w) [] k m) in Eo by congruence. cbn [Nat.ltb Nat.leb orb] in Eo.
    split. exact Eo. split. exact Ho. rewrite <- Ho. exact Hd.
  - intros w' Hw'. destruct (np_T_2d w' m k) as [HwT' _]. congruence.
    destruct (Vw (np_T w')) as (o & Eo & Ho & Hd). congruence. exists o. unfold linear_forward. cbn [bias_truth obind].
    unfold F_matmul in Eo. rewrite (rank_app2 x bx n k), (rank_app2 (np_T w') [] k m) in Eo by congruence. cbn [Nat.ltb Nat.leb orb] in Eo.
    split. exact Eo. split. exact Ho. rewrite <- Ho, Hd. rewrite HwT, Hw. cbn [app]. apply dot_T. rewrite Hswt, HwT. reflexivity.
Qed.
End P.
