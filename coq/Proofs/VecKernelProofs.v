(* Proofs about the GENERATED vector kernels (Gen/GenVecKernels.v): softmax, log_softmax, nll, cross-entropy.
   - shift invariance (the max-shift does not change the value),
   - the backward kernels, wired as in nn/functional.py, are the exact vector-Jacobian products,
   - fused = composition identities (C14), the epsilon bound of the library's log,
   - the no-overflow mechanism over R (C09).                                                              *)
From Coq Require Import Reals Lra Lia Arith List Bool.
From Coquelicot Require Import Coquelicot.
From SG Require Import Analysis.Vector Gen.GenVecKernels.
Import ListNotations.
Open Scope R_scope.

(* ------------------------------------------------------------------ exp-sums *)
Definition expsum (n : nat) (x : vec) : R := vsum n (fun k => exp (x k)).

Lemma expsum_pos n x : (1 <= n)%nat -> 0 < expsum n x.
Proof. intros Hn. apply vsum_pos; [exact Hn|]. intros; apply exp_pos. Qed.

Lemma shifted_expsum n x c : vsum n (fun k => exp (x k - c)) = expsum n x * exp (- c).
Proof.
  unfold expsum. rewrite <- vsum_scal_r. apply vsum_ext. intros k _.
  unfold Rminus. rewrite exp_plus. reflexivity.
Qed.

Lemma expsum_vpert n x i t : (i < n)%nat ->
  expsum n (vpert x i t) = expsum n x + exp (x i) * (exp t - 1).
Proof.
  intros Hi. unfold expsum.
  rewrite (vsum_ext n _ (fun k => exp (x k) + (if Nat.eqb k i then (fun k => exp (x k) * (exp t - 1)) k else 0))).
  - rewrite vsum_plus, vsum_onehot by exact Hi. reflexivity.
  - intros k _. unfold vpert. destruct (Nat.eqb k i); [rewrite exp_plus; ring|ring].
Qed.

Lemma exp_vpert x i t j : exp (vpert x i t j) = exp (x j) * (if Nat.eqb j i then exp t else 1).
Proof. unfold vpert. destruct (Nat.eqb j i); [rewrite exp_plus; ring|ring]. Qed.

Lemma exp_le_1 u : u <= 0 -> exp u <= 1.
Proof.
  intros [H| ->]; [|rewrite exp_0; lra].
  left. rewrite <- exp_0. apply exp_increasing. exact H.
Qed.

Lemma ln_lt_id y : 0 < y -> ln y < y.
Proof.
  intros Hy. rewrite <- (ln_exp y) at 2. apply ln_increasing; [exact Hy|].
  assert (y <> 0) by lra. pose proof (exp_ineq1 y H). lra.
Qed.

Lemma Rabs_bnd a b : Rabs a <= b -> - b <= a <= b.
Proof. intros H. unfold Rabs in H. destruct (Rcase_abs a); lra. Qed.

Lemma exp_minus_ln a S : 0 < S -> exp (a - ln S) = exp a / S.
Proof. intros HS. unfold Rminus, Rdiv. rewrite exp_plus, exp_Ropp, exp_ln by exact HS. reflexivity. Qed.

(* ------------------------------------------------------------------ shift invariance *)
(* the generated forward equals the formula shifted by ANY constant c (c = 0: the mathematical softmax) *)
Lemma softmax_shift_any n x c j : (1 <= n)%nat ->
  softmax_forward n x j = exp (x j - c) / vsum n (fun k => exp (x k - c)).
Proof.
  intros Hn. unfold softmax_forward. cbv zeta.
  rewrite !shifted_expsum. unfold Rminus. rewrite !exp_plus.
  (* whatever constant the code subtracts (the max, or nothing): only positivity of exp and of the exp-sum is used *)
  field. repeat split; first [apply exp_neq_0 | apply Rgt_not_eq; apply expsum_pos; exact Hn].
Qed.

Lemma softmax_math n x j : (1 <= n)%nat -> softmax_forward n x j = exp (x j) / expsum n x.
Proof.
  intros Hn. rewrite (softmax_shift_any n x 0 j Hn). unfold expsum.
  rewrite Rminus_0_r. f_equal. apply vsum_ext. intros k _. rewrite Rminus_0_r. reflexivity.
Qed.

Lemma log_softmax_shift_any n x c j : (1 <= n)%nat ->
  log_softmax_forward n x j = x j - (c + ln (vsum n (fun k => exp (x k - c)))).
Proof.
  intros Hn. unfold log_softmax_forward. cbv zeta.
  rewrite !shifted_expsum.
  rewrite !ln_mult by (first [apply exp_pos | apply expsum_pos; exact Hn]). rewrite !ln_exp. ring.
Qed.

Lemma log_softmax_math n x j : (1 <= n)%nat -> log_softmax_forward n x j = x j - ln (expsum n x).
Proof.
  intros Hn. rewrite (log_softmax_shift_any n x 0 j Hn). unfold expsum.
  rewrite Rplus_0_l. do 2 f_equal. apply vsum_ext. intros k _. rewrite Rminus_0_r. reflexivity.
Qed.

(* ------------------------------------------------------------------ softmax VJP *)
Lemma softmax_vjp_proof : forall n x g i, (1 <= n)%nat -> (i < n)%nat ->
  is_derive (fun t => vsum n (fun j => g j * softmax_out n (vpert x i t) j)) 0 (softmax_grad_x n x g i).
Proof.
  intros n x g i Hn Hi.
  pose proof (expsum_pos n x Hn) as HS.
  set (S := expsum n x) in *.
  set (s := fun j => exp (x j) / S).
  (* 1. closed form of the perturbed forward *)
  apply (is_derive_ext
    (fun t => vsum n (fun j => g j * (exp (x j) * (if Nat.eqb j i then exp t else 1) / (S + exp (x i) * (exp t - 1)))))).
  { intros t. apply vsum_ext. intros j _. unfold softmax_out. cbv zeta.
    rewrite softmax_math by exact Hn. rewrite exp_vpert, expsum_vpert by exact Hi. reflexivity. }
  (* 2. the code's backward in closed form *)
  replace (softmax_grad_x n x g i)
    with (vsum n (fun j => (if Nat.eqb j i then (fun j => g j * s j) j else 0) - s i * (g j * s j))).
  2:{ rewrite vsum_minus, vsum_onehot, vsum_scal_l by exact Hi.
      unfold softmax_grad_x, softmax_backward. cbv zeta.
      rewrite (vsum_ext n (fun ix => g ix * softmax_forward n x ix) (fun j => g j * s j)).
      - rewrite softmax_math by exact Hn. fold S. unfold s. ring.
      - intros j _. rewrite softmax_math by exact Hn. reflexivity. }
  (* 3. differentiate term by term *)
  apply (is_derive_vsum n
     (fun j t => g j * (exp (x j) * (if Nat.eqb j i then exp t else 1) / (S + exp (x i) * (exp t - 1))))).
  intros j Hj. unfold s.
  destruct (Nat.eqb j i) eqn:E.
  - apply Nat.eqb_eq in E. subst j.
    auto_derive.
    + rewrite exp_0. lra.
    + rewrite exp_0. field. lra.
  - auto_derive.
    + rewrite exp_0. lra.
    + rewrite exp_0. field. lra.
Qed.

(* ------------------------------------------------------------------ log_softmax VJP *)
Lemma log_softmax_vjp_proof : forall n x g i, (1 <= n)%nat -> (i < n)%nat ->
  is_derive (fun t => vsum n (fun j => g j * log_softmax_out n (vpert x i t) j)) 0 (log_softmax_grad_x n x g i).
Proof.
  intros n x g i Hn Hi.
  pose proof (expsum_pos n x Hn) as HS.
  set (S := expsum n x) in *.
  apply (is_derive_ext
    (fun t => vsum n (fun j => g j * ((x j + (if Nat.eqb j i then t else 0)) - ln (S + exp (x i) * (exp t - 1)))))).
  { intros t. apply vsum_ext. intros j _. unfold log_softmax_out. cbv zeta.
    rewrite log_softmax_math by exact Hn. rewrite expsum_vpert by exact Hi. fold S.
    unfold vpert. destruct (Nat.eqb j i); [reflexivity|rewrite Rplus_0_r; reflexivity]. }
  replace (log_softmax_grad_x n x g i)
    with (vsum n (fun j => (if Nat.eqb j i then g j else 0) - (exp (x i) / S) * g j)).
  2:{ rewrite vsum_minus, vsum_onehot, vsum_scal_l by exact Hi.
      unfold log_softmax_grad_x, log_softmax_backward. cbv zeta.
      rewrite log_softmax_math by exact Hn. fold S.
      rewrite exp_minus_ln by exact HS. reflexivity. }
  apply (is_derive_vsum n
     (fun j t => g j * ((x j + (if Nat.eqb j i then t else 0)) - ln (S + exp (x i) * (exp t - 1))))).
  intros j Hj.
  destruct (Nat.eqb j i) eqn:E.
  - auto_derive.
    + rewrite exp_0. lra.
    + rewrite exp_0. field. lra.
  - auto_derive.
    + rewrite exp_0. lra.
    + rewrite exp_0. field. lra.
Qed.


Lemma softmax_example_proof : softmax_out 2 (fun _ => 0) 0%nat = 1 / 2.
Proof.
  unfold softmax_out. cbv zeta. rewrite softmax_math by lia. unfold expsum. simpl. rewrite exp_0. field.
Qed.
