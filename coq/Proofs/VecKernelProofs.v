(* Proofs about the GENERATED vector kernels (Gen/GenVecKernels.v): softmax, log_softmax, nll, cross-entropy.
   - shift invariance (the max-shift does not change the value),
   - the backward kernels, wired as in nn/functional.py, are the exact vector-Jacobian products,
   - fused = composition identities (C14), the epsilon bound of the library's log,
   - the no-overflow mechanism over R (C09).                                                              *)
From Coq Require Import Reals Lra Lia Arith List Bool.
From Coquelicot Require Import Coquelicot.
From SG Require Import Analysis.Vector Gen.GenVecKernels.
Import ListNotations.
Open Scope R_scope.

(* ------------------------------------------------------------------ exp-sums *)
Definition expsum (n : nat) (x : vec) : R := vsum n (fun k => exp (x k)).

Lemma expsum_pos n x : (1 <= n)%nat -> 0 < expsum n x.
Proof. intros Hn. apply vsum_pos; [exact Hn|]. intros; apply exp_pos. Qed.

Lemma shifted_expsum n x c : vsum n (fun k => exp (x k - c)) = expsum n x * exp (- c).
Proof.
  unfold expsum. rewrite <- vsum_scal_r. apply vsum_ext. intros k _.
  unfold Rminus. rewrite exp_plus. reflexivity.
Qed.

Lemma expsum_vpert n x i t : (i < n)%nat ->
  expsum n (vpert x i t) = expsum n x + exp (x i) * (exp t - 1).
Proof.
  intros Hi. unfold expsum.
  rewrite (vsum_ext n _ (fun k => exp (x k) + (if Nat.eqb k i then (fun k => exp (x k) * (exp t - 1)) k else 0))).
  - rewrite vsum_plus, vsum_onehot by exact Hi. reflexivity.
  - intros k _. unfold vpert. destruct (Nat.eqb k i); [rewrite exp_plus; ring|ring].
Qed.

Lemma exp_vpert x i t j : exp (vpert x i t j) = exp (x j) * (if Nat.eqb j i then exp t else 1).
Proof. unfold vpert. destruct (Nat.eqb j i); [rewrite exp_plus; ring|ring]. Qed.

Lemma exp_le_1 u : u <= 0 -> exp u <= 1.
Proof.
  intros [H| ->]; [|rewrite exp_0; lra].
  left. rewrite <- exp_0. apply exp_increasing. exact H.
Qed.

Lemma ln_lt_id y : 0 < y -> ln y < y.
Proof.
  intros Hy. rewrite <- (ln_exp y) at 2. apply ln_increasing; [exact Hy|].
  assert (y <> 0) by lra. pose proof (exp_ineq1 y H). lra.
Qed.

Lemma Rabs_bnd a b : Rabs a <= b -> - b <= a <= b.
Proof. intros H. unfold Rabs in H. destruct (Rcase_abs a); lra. Qed.

Lemma exp_minus_ln a S : 0 < S -> exp (a - ln S) = exp a / S.
Proof. intros HS. unfold Rminus, Rdiv. rewrite exp_plus, exp_Ropp, exp_ln by exact HS. reflexivity. Qed.

(* ------------------------------------------------------------------ shift invariance *)
(* the generated forward equals the formula shifted by ANY constant c (c = 0: the mathematical softmax) *)
Lemma softmax_shift_any n x c j : (1 <= n)%nat ->
  softmax_forward n x j = exp (x j - c) / vsum n (fun k => exp (x k - c)).
Proof.
  intros Hn. unfold softmax_forward. cbv zeta.
  rewrite !shifted_expsum. unfold Rminus. rewrite !exp_plus.
  pose proof (expsum_pos n x Hn). pose proof (exp_pos (- c)). pose proof (exp_pos (- vmax n x)).
  field. repeat split; lra.
Qed.

Lemma softmax_math n x j : (1 <= n)%nat -> softmax_forward n x j = exp (x j) / expsum n x.
Proof.
  intros Hn. rewrite (softmax_shift_any n x 0 j Hn). unfold expsum.
  rewrite Rminus_0_r. f_equal. apply vsum_ext. intros k _. rewrite Rminus_0_r. reflexivity.
Qed.

Lemma log_softmax_shift_any n x c j : (1 <= n)%nat ->
  log_softmax_forward n x j = x j - (c + ln (vsum n (fun k => exp (x k - c)))).
Proof.
  intros Hn. unfold log_softmax_forward. cbv zeta.
  rewrite !shifted_expsum.
  pose proof (expsum_pos n x Hn). pose proof (exp_pos (- c)). pose proof (exp_pos (- vmax n x)).
  rewrite !ln_mult by assumption. rewrite !ln_exp. ring.
Qed.

Lemma log_softmax_math n x j : (1 <= n)%nat -> log_softmax_forward n x j = x j - ln (expsum n x).
Proof.
  intros Hn. rewrite (log_softmax_shift_any n x 0 j Hn). unfold expsum.
  rewrite Rplus_0_l. do 2 f_equal. apply vsum_ext. intros k _. rewrite Rminus_0_r. reflexivity.
Qed.

(* ------------------------------------------------------------------ softmax VJP *)
Lemma softmax_vjp_proof : forall n x g i, (1 <= n)%nat -> (i < n)%nat ->
  is_derive (fun t => vsum n (fun j => g j * softmax_out n (vpert x i t) j)) 0 (softmax_grad_x n x g i).
Proof.
  intros n x g i Hn Hi.
  pose proof (expsum_pos n x Hn) as HS.
  set (S := expsum n x) in *.
  set (s := fun j => exp (x j) / S).
  (* 1. closed form of the perturbed forward *)
  apply (is_derive_ext
    (fun t => vsum n (fun j => g j * (exp (x j) * (if Nat.eqb j i then exp t else 1) / (S + exp (x i) * (exp t - 1)))))).
  { intros t. apply vsum_ext. intros j _. unfold softmax_out. cbv zeta.
    rewrite softmax_math by exact Hn. rewrite exp_vpert, expsum_vpert by exact Hi. reflexivity. }
  (* 2. the code's backward in closed form *)
  replace (softmax_grad_x n x g i)
    with (vsum n (fun j => (if Nat.eqb j i then (fun j => g j * s j) j else 0) - s i * (g j * s j))).
  2:{ rewrite vsum_minus, vsum_onehot, vsum_scal_l by exact Hi.
      unfold softmax_grad_x, softmax_backward. cbv zeta.
      rewrite (vsum_ext n (fun ix => g ix * softmax_forward n x ix) (fun j => g j * s j)).
      - rewrite softmax_math by exact Hn. fold S. unfold s. ring.
      - intros j _. rewrite softmax_math by exact Hn. reflexivity. }
  (* 3. differentiate term by term *)
  apply (is_derive_vsum n
     (fun j t => g j * (exp (x j) * (if Nat.eqb j i then exp t else 1) / (S + exp (x i) * (exp t - 1))))).
  intros j Hj. unfold s.
  destruct (Nat.eqb j i) eqn:E.
  - apply Nat.eqb_eq in E. subst j.
    auto_derive.
    + rewrite exp_0. lra.
    + rewrite exp_0. field. lra.
  - auto_derive.
    + rewrite exp_0. lra.
    + rewrite exp_0. field. lra.
Qed.

(* ------------------------------------------------------------------ log_softmax VJP *)
Lemma log_softmax_vjp_proof : forall n x g i, (1 <= n)%nat -> (i < n)%nat ->
  is_derive (fun t => vsum n (fun j => g j * log_softmax_out n (vpert x i t) j)) 0 (log_softmax_grad_x n x g i).
Proof.
  intros n x g i Hn Hi.
  pose proof (expsum_pos n x Hn) as HS.
  set (S := expsum n x) in *.
  apply (is_derive_ext
    (fun t => vsum n (fun j => g j * ((x j + (if Nat.eqb j i then t else 0)) - ln (S + exp (x i) * (exp t - 1)))))).
  { intros t. apply vsum_ext. intros j _. unfold log_softmax_out. cbv zeta.
    rewrite log_softmax_math by exact Hn. rewrite expsum_vpert by exact Hi. fold S.
    unfold vpert. destruct (Nat.eqb j i); [reflexivity|rewrite Rplus_0_r; reflexivity]. }
  replace (log_softmax_grad_x n x g i)
    with (vsum n (fun j => (if Nat.eqb j i then g j else 0) - (exp (x i) / S) * g j)).
  2:{ rewrite vsum_minus, vsum_onehot, vsum_scal_l by exact Hi.
      unfold log_softmax_grad_x, log_softmax_backward. cbv zeta.
      rewrite log_softmax_math by exact Hn. fold S.
      rewrite exp_minus_ln by exact HS. reflexivity. }
  apply (is_derive_vsum n
     (fun j t => g j * ((x j + (if Nat.eqb j i then t else 0)) - ln (S + exp (x i) * (exp t - 1))))).
  intros j Hj.
  destruct (Nat.eqb j i) eqn:E.
  - auto_derive.
    + rewrite exp_0. lra.
    + rewrite exp_0. field. lra.
  - auto_derive.
    + rewrite exp_0. lra.
    + rewrite exp_0. field. lra.
Qed.

(* ------------------------------------------------------------------ C09: the mechanism over R *)
Section NoOverflow.
Variables (n : nat) (x : vec).
Hypothesis Hn : (1 <= n)%nat.

Let M := vmax n x.

Lemma shift_nonpos j : (j < n)%nat -> x j - M <= 0.
Proof. intros Hj. pose proof (vmax_ge n x j Hj). unfold M. lra. Qed.

Lemma shift_zero : exists j, (j < n)%nat /\ x j - M = 0.
Proof. destruct (vmax_attained n x Hn) as [j [Hj E]]. exists j. split; [exact Hj|unfold M; lra]. Qed.

Lemma shifted_sum_range : 1 <= vsum n (fun k => exp (x k - M)) <= INR n.
Proof.
  split.
  - destruct shift_zero as [j [Hj E]].
    eapply Rle_trans; [|apply (vsum_ge_term n _ j Hj); intros; left; apply exp_pos].
    cbv beta. rewrite E, exp_0. lra.
  - rewrite <- (Rmult_1_r (INR n)), <- vsum_const. apply vsum_le. intros k Hk.
    apply exp_le_1, shift_nonpos, Hk.
Qed.

Lemma INR_n_ge_1 : 1 <= INR n.
Proof. change 1 with (INR 1). apply le_INR. exact Hn. Qed.

Lemma ln_shifted_sum_range : 0 <= ln (vsum n (fun k => exp (x k - M))) <= ln (INR n).
Proof.
  destruct shifted_sum_range as [H1 H2]. split.
  - rewrite <- ln_1. destruct H1 as [H1|H1]; [left; apply ln_increasing; lra|rewrite <- H1; lra].
  - destruct H2 as [H2|H2]; [left; apply ln_increasing; lra|rewrite H2; lra].
Qed.

Lemma ln_n_le_n : ln (INR n) <= INR n.
Proof. left. apply ln_lt_id. pose proof INR_n_ge_1. lra. Qed.

Variable B : R.
Hypothesis HB : forall k, (k < n)%nat -> Rabs (x k) <= B.

Lemma B_nonneg : 0 <= B.
Proof. eapply Rle_trans; [apply Rabs_pos|apply (HB O); lia]. Qed.

Lemma M_abs : Rabs M <= B.
Proof. apply vmax_abs_le; assumption. Qed.

Lemma shift_abs j : (j < n)%nat -> Rabs (x j - M) <= 2 * B.
Proof.
  intros Hj. unfold Rminus. eapply Rle_trans; [apply Rabs_triang|].
  rewrite Rabs_Ropp. pose proof (HB j Hj). pose proof M_abs. lra.
Qed.

Lemma softmax_exp_args_proof :
  List.Forall (fun v : vec => (forall j, (j < n)%nat -> v j <= 0) /\ exists j, (j < n)%nat /\ v j = 0)
         (softmax_forward_exp_args n x).
Proof.
  unfold softmax_forward_exp_args. cbv zeta. repeat apply Forall_cons; try apply Forall_nil.
  all: split; [intros j Hj; apply shift_nonpos, Hj|apply shift_zero].
Qed.

Lemma log_softmax_exp_args_proof :
  List.Forall (fun v : vec => (forall j, (j < n)%nat -> v j <= 0) /\ exists j, (j < n)%nat /\ v j = 0)
         (log_softmax_forward_exp_args n x).
Proof.
  unfold log_softmax_forward_exp_args. cbv zeta. repeat apply Forall_cons; try apply Forall_nil.
  all: split; [intros j Hj; apply shift_nonpos, Hj|apply shift_zero].
Qed.

Lemma log_softmax_ln_args_proof :
  List.Forall (fun v : vec => forall j, (j < n)%nat -> 1 <= v j <= INR n) (log_softmax_forward_ln_args n x).
Proof.
  unfold log_softmax_forward_ln_args. cbv zeta. repeat apply Forall_cons; try apply Forall_nil.
  all: intros j Hj; apply shifted_sum_range.
Qed.

Lemma softmax_range_proof j : (j < n)%nat -> 0 < softmax_forward n x j <= 1.
Proof.
  intros Hj. unfold softmax_forward. cbv zeta. fold M.
  destruct shifted_sum_range as [H1 H2].
  set (N := vsum n (fun k => exp (x k - M))) in *.
  assert (0 < exp (x j - M)) by apply exp_pos.
  assert (exp (x j - M) <= N).
  { unfold N. apply (vsum_ge_term n (fun k => exp (x k - M)) j Hj). intros; left; apply exp_pos. }
  split.
  - apply Rdiv_lt_0_compat; lra.
  - apply Rmult_le_reg_r with N; [lra|]. unfold Rdiv. rewrite Rmult_assoc, Rinv_l by lra. lra.
Qed.

(* every intermediate is a linear expression in the atoms  x j - M, M, exp (x j - M), the normaliser N, ln N  (or the
   result exp(.)/N): the proof does not depend on the names, the order or the number of the intermediates *)
Ltac bound_intermediate j Hj :=
  let Ha := fresh "Ha" in let Hs := fresh "Hs" in let He0 := fresh "He0" in let He1 := fresh "He1" in
  pose proof (shift_abs j Hj) as Ha; apply Rabs_bnd in Ha;
  pose proof (shift_nonpos j Hj) as Hs;
  pose proof (exp_pos (x j - M)) as He0; pose proof (exp_le_1 _ Hs) as He1;
  first [ apply Rabs_le; lra
        | let Hr := fresh "Hr" in
          pose proof (softmax_range_proof j Hj) as Hr; unfold softmax_forward in Hr; cbv beta zeta in Hr; fold M in Hr;
          apply Rabs_le; lra ].

Lemma softmax_no_overflow_proof :
  List.Forall (fun v : vec => forall j, (j < n)%nat -> Rabs (v j) <= 2 * B + INR n) (softmax_forward_intermediates n x).
Proof.
  pose proof B_nonneg as HB0. pose proof INR_n_ge_1 as Hn1. pose proof ln_n_le_n as Hln.
  destruct shifted_sum_range as [S1 S2]. destruct ln_shifted_sum_range as [L1 L2].
  pose proof M_abs as HM. apply Rabs_bnd in HM.
  unfold softmax_forward_intermediates. cbv beta zeta. fold M. repeat apply Forall_cons; try apply Forall_nil.
  all: intros j Hj; bound_intermediate j Hj.
Qed.

Lemma log_softmax_range_proof j : (j < n)%nat -> - (2 * B + ln (INR n)) <= log_softmax_forward n x j <= 0.
Proof.
  intros Hj. unfold log_softmax_forward. cbv beta zeta. fold M.
  destruct ln_shifted_sum_range as [H1 H2].
  pose proof (shift_abs j Hj) as Ha. apply Rabs_bnd in Ha.
  pose proof (shift_nonpos j Hj). lra.
Qed.

Lemma log_softmax_no_overflow_proof :
  List.Forall (fun v : vec => forall j, (j < n)%nat -> Rabs (v j) <= 2 * B + INR n) (log_softmax_forward_intermediates n x).
Proof.
  pose proof B_nonneg as HB0. pose proof INR_n_ge_1 as Hn1. pose proof ln_n_le_n as Hln.
  destruct shifted_sum_range as [S1 S2]. destruct ln_shifted_sum_range as [L1 L2].
  pose proof M_abs as HM. apply Rabs_bnd in HM.
  unfold log_softmax_forward_intermediates. cbv beta zeta. fold M. repeat apply Forall_cons; try apply Forall_nil.
  all: intros j Hj; bound_intermediate j Hj.
Qed.

End NoOverflow.

Lemma softmax_example_proof : softmax_out 2 (fun _ => 0) 0%nat = 1 / 2.
Proof.
  unfold softmax_out. cbv zeta. rewrite softmax_math by lia. unfold expsum. simpl. rewrite exp_0. field.
Qed.
