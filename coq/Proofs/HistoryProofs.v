(* Proofs about Engine/History.v (C04): over every history, the buffer of every leaf is what the per-tensor
   specification [leaf_spec] says - reset makes it zero, each backward call that reaches it adds that call's
   path sum, nothing else touches it - whatever stale buffers non-leaf tensors hold. *)
From Coq Require Import List Bool Arith Lia.
Import ListNotations.
From SG Require Import Engine.Graph Engine.Dfs Engine.Sweep Engine.History Proofs.SweepProofs.

(* ---------------------------------------------------------------- arena evolution *)
Lemma getn_app_old g nd n : n < length g -> getn (g ++ [nd]) n = getn g n.
Proof. intros H. unfold getn. apply app_nth1. exact H. Qed.

Lemma getn_app_new g nd : getn (g ++ [nd]) (length g) = nd.
Proof. unfold getn. rewrite app_nth2 by lia. rewrite Nat.sub_diag. reflexivity. Qed.

Lemma set_retain_length : forall g v, length (set_retain g v) = length g.
Proof. induction g as [|nd g IH]; intros [|v]; cbn [set_retain length]; auto. Qed.

Lemma set_retain_fields : forall g v n,
  children (getn (set_retain g v) n) = children (getn g n) /\
  req (getn (set_retain g v) n) = req (getn g n) /\
  has_fn (getn (set_retain g v) n) = has_fn (getn g n).
Proof.
  induction g as [|nd g IH]; intros v n.
  - destruct v; cbn [set_retain]; auto.
  - destruct v as [|v]; cbn [set_retain].
    + destruct n as [|n]; unfold getn; cbn [nth]; auto.
    + destruct n as [|n]; unfold getn; cbn [nth]; auto. apply IH.
Qed.

Definition valid_arena (g : arena) : Prop := wf g /\ forall n, node_ok (getn g n).

Lemma node_ok_dummy : node_ok dummy_node.
Proof. split; cbn; [discriminate|reflexivity]. Qed.

Lemma valid_app g nd : valid_arena g -> Forall (fun c => c < length g) (children nd) -> node_ok nd ->
  valid_arena (g ++ [nd]).
Proof.
  intros [Hwf Hok] Hc Hnd. split.
  - intros n Hn. rewrite app_length in Hn. cbn [length] in Hn.
    destruct (Nat.eq_dec n (length g)) as [->|Hne].
    + rewrite getn_app_new. exact Hc.
    + rewrite getn_app_old by lia. apply Hwf. lia.
  - intros n. destruct (lt_dec n (length g)) as [Hlt|Hge].
    + rewrite getn_app_old by exact Hlt. apply Hok.
    + destruct (Nat.eq_dec n (length g)) as [->|Hne].
      * rewrite getn_app_new. exact Hnd.
      * rewrite getn_overflow; [apply node_ok_dummy|]. rewrite app_length. cbn [length]. lia.
Qed.

Lemma valid_set_retain g v : valid_arena g -> valid_arena (set_retain g v).
Proof.
  intros [Hwf Hok]. split.
  - intros n Hn. rewrite set_retain_length in Hn. destruct (set_retain_fields g v n) as [-> _]. apply Hwf. exact Hn.
  - intros n. destruct (set_retain_fields g v n) as [Hc [Hr Hf]]. unfold node_ok. rewrite Hc, Hr, Hf. apply Hok.
Qed.

(* a tensor that either does not exist yet or is a leaf that requires grad *)
Definition leafish (g : arena) (v : nat) : Prop :=
  length g <= v \/ (req (getn g v) = true /\ has_fn (getn g v) = false).

Section Hist.
Variable A : galg.
Hypothesis Aok : galg_ok A.
Hypothesis Hdfs : dfs_spec.
Notation V := (V A).
Notation hstate := (hstate A).
Notation event := (event A).

Definition valid_state (s : hstate) : Prop := valid_arena (h_g A s).

Definition build_ok (g : arena) (e : event) : Prop :=
  match e with
  | Build nd _ => Forall (fun c => c < length g) (children nd) /\ node_ok nd
  | _ => True
  end.

Lemma evolve_valid g e : valid_arena g -> build_ok g e -> valid_arena (evolve_g A g e).
Proof.
  intros Hv Hb. destruct e; cbn [evolve_g]; try exact Hv.
  - destruct Hb as [H1 H2]. apply valid_app; assumption.
  - destruct (req (getn g v)); [apply valid_set_retain|]; exact Hv.
Qed.

Lemma evolve_length_le g e : length g <= length (evolve_g A g e).
Proof.
  destruct e; cbn [evolve_g]; try lia.
  - rewrite app_length. cbn [length]. lia.
  - destruct (req (getn g v)); [rewrite set_retain_length|]; lia.
Qed.

Lemma evolve_fields g e n : n < length g ->
  children (getn (evolve_g A g e) n) = children (getn g n) /\
  req (getn (evolve_g A g e) n) = req (getn g n) /\
  has_fn (getn (evolve_g A g e) n) = has_fn (getn g n).
Proof.
  intros Hn. destruct e; cbn [evolve_g]; auto.
  - rewrite getn_app_old by exact Hn. auto.
  - destruct (req (getn g v)); [apply set_retain_fields|auto].
Qed.

Lemma leafish_back g e v : leafish (evolve_g A g e) v -> leafish g v.
Proof.
  intros [H|[H1 H2]].
  - left. pose proof (evolve_length_le g e). lia.
  - destruct (le_lt_dec (length g) v) as [Hge|Hlt]; [left; exact Hge|right].
    destruct (evolve_fields g e v Hlt) as [_ [Hr Hf]]. rewrite <- Hr, <- Hf. auto.
Qed.

Lemma step_gw s e s' : step A s e = Some s' ->
  h_g A s' = evolve_g A (h_g A s) e /\ h_w A s' = evolve_w A (h_g A s) (h_w A s) e.
Proof.
  unfold step. destruct e.
  - intros H; inversion H; subst; auto.
  - destruct (backward A (h_g A s) (h_w A s) (h_mode A s) root seed (h_b A s)) as [[b' l]|]; [|discriminate].
    intros H; inversion H; subst; auto.
  - intros H; inversion H; subst; auto.
  - destruct (v <? length (h_g A s)); [|discriminate]. intros H; inversion H; subst; auto.
  - destruct (in_range (h_g A s) ps); [|discriminate]. intros H; inversion H; subst; auto.
  - destruct (in_range (h_g A s) ps); [|discriminate]. intros H; inversion H; subst; auto.
  - destruct ((v <? length (h_g A s)) && req (getn (h_g A s) v)); [|discriminate]. intros H; inversion H; subst; auto.
  - intros H; inversion H; subst; auto.
Qed.

Lemma fold_zero_req g : forall ps (b : bufs A) v,
  fold_left (fun b v => if req (getn g v) then zero_buf b v else b) ps b v =
  if mem v ps && req (getn g v) then Some (vzero A) else b v.
Proof.
  induction ps as [|c ps IH]; intros b v; [reflexivity|].
  cbn [fold_left]. rewrite IH. unfold mem. cbn [existsb]. fold (mem v ps).
  destruct (mem v ps) eqn:Em.
  - rewrite orb_true_r. cbn [andb]. destruct (req (getn g v)) eqn:Hrv; [reflexivity|].
    destruct (req (getn g c)) eqn:Hc; [|reflexivity].
    unfold zero_buf, upd. destruct (v =? c) eqn:E; [|reflexivity]. apply Nat.eqb_eq in E. subst. congruence.
  - rewrite orb_false_r. cbn [andb]. destruct (v =? c) eqn:E.
    + apply Nat.eqb_eq in E. subst. cbn [andb]. destruct (req (getn g c)); [|reflexivity].
      unfold zero_buf. apply upd_same.
    + cbn [andb]. destruct (req (getn g c)); [|reflexivity]. unfold zero_buf. apply upd_other.
      apply Nat.eqb_neq. exact E.
Qed.

(* one event: the buffer of a leaf-or-not-yet-existing tensor moves as the specification says *)
Lemma step_leaf s e s' v :
  valid_state s -> step A s e = Some s' -> leafish (h_g A s) v ->
  h_b A s' v = acc_step A (h_g A s) (h_w A s) e v (h_b A s v).
Proof.
  intros [Hwf Hok] Hstep Hleaf. unfold step in Hstep. destruct e; cbn [acc_step].
  - inversion Hstep; subst; reflexivity.
  - (* Backward *)
    destruct (backward A (h_g A s) (h_w A s) (h_mode A s) root seed (h_b A s)) as [[b' l]|] eqn:Hb; [|discriminate].
    inversion Hstep; subst; clear Hstep. cbn [h_b].
    assert (Hreq : req (getn (h_g A s) root) = true).
    { unfold backward in Hb. destruct (req (getn (h_g A s) root)); [reflexivity|discriminate]. }
    assert (Hroot : root < length (h_g A s)).
    { destruct (lt_dec root (length (h_g A s))) as [H|H]; [exact H|].
      rewrite getn_overflow in Hreq by lia. discriminate. }
    destruct (backward_expected A Aok (h_g A s) (h_w A s) (h_mode A s) root seed Hwf Hok Hreq (h_b A s) Hdfs Hroot)
      as [b'' [ord [Hb'' [_ Hexp]]]].
    rewrite Hb in Hb''. inversion Hb''; subst b''. rewrite Hexp. unfold expected.
    destruct (reachb (h_g A s) root v && req (getn (h_g A s) v)) eqn:Hc; [|reflexivity].
    apply andb_true_iff in Hc. destruct Hc as [_ Hr].
    destruct Hleaf as [Hge|[_ Hf]].
    + rewrite getn_overflow in Hr by exact Hge. discriminate.
    + assert (Hl : is_leaf (getn (h_g A s) v) = true) by (unfold is_leaf; rewrite Hf; apply orb_true_r).
      unfold releases. rewrite Hl. cbn [negb andb]. rewrite andb_false_r. cbn [andb].
      unfold leaf_part. rewrite Hl. unfold oget. reflexivity.
  - (* BackwardFails *)
    inversion Hstep; subst; clear Hstep. cbn [h_b].
    rewrite (backward_fails_expected A (h_g A s) root (h_b A s) Hwf Hdfs). unfold fails_expected.
    fold (touches (h_g A s) root v).
    destruct Hleaf as [Hge|[Hr Hf]].
    + assert (Ht : touches (h_g A s) root v = false).
      { unfold touches. rewrite (getn_overflow _ _ Hge). cbn. apply andb_false_r. }
      rewrite Ht. reflexivity.
    + assert (Hl : is_leaf (getn (h_g A s) v) = true) by (unfold is_leaf; rewrite Hf; apply orb_true_r).
      rewrite Hl. cbn [negb]. rewrite orb_false_r.
      destruct (touches (h_g A s) root v); cbn [andb]; [|reflexivity].
      destruct (h_b A s v); reflexivity.
  - destruct (v0 <? length (h_g A s)); [|discriminate]. inversion Hstep; subst. cbn [h_b].
    unfold zero_buf, upd. rewrite (Nat.eqb_sym v0 v). reflexivity.
  - destruct (in_range (h_g A s) ps); [|discriminate]. inversion Hstep; subst. cbn [h_b]. apply fold_zero_req.
  - destruct (in_range (h_g A s) ps); [|discriminate]. inversion Hstep; subst. cbn [h_b]. apply fold_zero.
  - destruct ((v0 <? length (h_g A s)) && req (getn (h_g A s) v0)); [|discriminate]. inversion Hstep; subst; reflexivity.
  - inversion Hstep; subst; reflexivity.
Qed.

Lemma builds_ok_head len e h : builds_ok A len (e :: h) ->
  (forall g, length g = len -> build_ok g e) /\ (forall g, length g = len -> builds_ok A (length (evolve_g A g e)) h).
Proof.
  intros H. destruct e; cbn [builds_ok] in H; split; intros g Hg; cbn [build_ok evolve_g]; auto; try (rewrite Hg; exact H).
  - destruct H as [H1 [H2 _]]. rewrite Hg. auto.
  - destruct H as [_ [_ H]]. rewrite app_length. cbn [length]. rewrite Hg, Nat.add_1_r. exact H.
  - destruct (req (getn g v)); [rewrite set_retain_length|]; rewrite Hg; exact H.
Qed.

(* C04, main statement *)
Theorem history_leaf_spec : forall h s s',
  valid_state s -> builds_ok A (length (h_g A s)) h -> run A s h = Some s' ->
  valid_state s' /\
  forall v, leafish (h_g A s') v -> h_b A s' v = leaf_spec A (h_g A s) (h_w A s) h v (h_b A s v).
Proof.
  induction h as [|e h IH]; intros s s' Hv Hb Hrun.
  - cbn [run] in Hrun. inversion Hrun; subst. split; [exact Hv|]. intros; reflexivity.
  - cbn [run] in Hrun. destruct (step A s e) as [s1|] eqn:Hstep; [|discriminate].
    destruct (step_gw s e s1 Hstep) as [Hg1 Hw1].
    destruct (builds_ok_head _ e h Hb) as [Hbe Hbh].
    assert (Hv1 : valid_state s1).
    { unfold valid_state. rewrite Hg1. apply evolve_valid; [exact Hv|apply Hbe; reflexivity]. }
    assert (Hb1 : builds_ok A (length (h_g A s1)) h) by (rewrite Hg1; apply Hbh; reflexivity).
    destruct (IH s1 s' Hv1 Hb1 Hrun) as [Hv' Hspec]. split; [exact Hv'|].
    intros v Hleaf. rewrite (Hspec v Hleaf). cbn [leaf_spec]. rewrite <- Hg1, <- Hw1. f_equal.
    apply step_leaf; [exact Hv|exact Hstep|].
    (* v is leafish all the way back *)
    assert (Hback : forall h2 s2 s3, run A s2 h2 = Some s3 -> leafish (h_g A s3) v -> leafish (h_g A s2) v).
    { clear. induction h2 as [|e2 h2 IH2]; intros s2 s3 Hr Hl.
      - cbn [run] in Hr. inversion Hr; subst; exact Hl.
      - cbn [run] in Hr. destruct (step A s2 e2) as [s4|] eqn:Hs; [|discriminate].
        destruct (step_gw s2 e2 s4 Hs) as [Hg _]. apply (leafish_back _ e2). rewrite <- Hg. eapply IH2; eauto. }
    apply (leafish_back _ e). rewrite <- Hg1. eapply Hback; eauto.
Qed.

(* a backward call never changes a tensor its root does not reach (any tensor, leaf or not) *)
Theorem backward_unreachable_unchanged s r seed s' v :
  valid_state s -> step A s (Backward r seed) = Some s' ->
  ~ reachable (h_g A s) r v -> h_b A s' v = h_b A s v.
Proof.
  intros [Hwf Hok] Hstep Hnr. unfold step in Hstep.
  destruct (backward A (h_g A s) (h_w A s) (h_mode A s) r seed (h_b A s)) as [[b' l]|] eqn:Hb; [|discriminate].
  inversion Hstep; subst; clear Hstep. cbn [h_b].
  assert (Hreq : req (getn (h_g A s) r) = true).
  { unfold backward in Hb. destruct (req (getn (h_g A s) r)); [reflexivity|discriminate]. }
  assert (Hroot : r < length (h_g A s)).
  { destruct (lt_dec r (length (h_g A s))) as [H|H]; [exact H|]. rewrite getn_overflow in Hreq by lia. discriminate. }
  destruct (backward_expected A Aok (h_g A s) (h_w A s) (h_mode A s) r seed Hwf Hok Hreq (h_b A s) Hdfs Hroot)
    as [b'' [ord [Hb'' [_ Hexp]]]].
  rewrite Hb in Hb''. inversion Hb''; subst b''. rewrite Hexp. unfold expected.
  destruct (reachb (h_g A s) r v) eqn:E; [|reflexivity].
  apply reachb_iff in E; [tauto|exact Hwf].
Qed.

(* backward never fails on a valid state when the root requires grad *)
Theorem backward_total s r seed :
  valid_state s -> req (getn (h_g A s) r) = true -> exists s', step A s (Backward r seed) = Some s'.
Proof.
  intros [Hwf Hok] Hreq.
  assert (Hroot : r < length (h_g A s)).
  { destruct (lt_dec r (length (h_g A s))) as [H|H]; [exact H|]. rewrite getn_overflow in Hreq by lia. discriminate. }
  destruct (backward_expected A Aok (h_g A s) (h_w A s) (h_mode A s) r seed Hwf Hok Hreq (h_b A s) Hdfs Hroot)
    as [b'' [ord [Hb'' _]]].
  unfold step. rewrite Hb''. eexists; reflexivity.
Qed.

(* stale buffers of non-leaf tensors never matter: two states that differ only in what non-leaf tensors (and
   tensors that do not require grad) hold give every leaf the same gradient after any history *)
Theorem stale_irrelevant h s1 s2 s1' s2' :
  valid_state s1 -> h_g A s1 = h_g A s2 -> h_w A s1 = h_w A s2 ->
  builds_ok A (length (h_g A s1)) h ->
  run A s1 h = Some s1' -> run A s2 h = Some s2' ->
  forall v, leafish (h_g A s1') v -> h_b A s1 v = h_b A s2 v -> h_g A s1' = h_g A s2' -> h_b A s1' v = h_b A s2' v.
Proof.
  intros Hv Hg Hw Hb H1 H2 v Hl Hbv Hg'.
  assert (Hv2 : valid_state s2) by (unfold valid_state; rewrite <- Hg; exact Hv).
  destruct (history_leaf_spec h s1 s1' Hv Hb H1) as [_ E1].
  rewrite Hg in Hb. destruct (history_leaf_spec h s2 s2' Hv2 Hb H2) as [_ E2].
  rewrite E1 by exact Hl. rewrite E2 by (rewrite <- Hg'; exact Hl). rewrite Hg, Hw, Hbv. reflexivity.
Qed.

(* ---------------------------------------------------------------- the explicit sum *)
Lemma contribs_unreached : forall h g w v, reached A g h v = false -> contribs A g w h v = [].
Proof.
  induction h as [|e h IH]; intros g w v H; [reflexivity|].
  cbn [reached] in H. apply orb_false_iff in H. destruct H as [H1 H2].
  cbn [contribs]. rewrite (IH _ _ _ H2), app_nil_r.
  destruct e; try reflexivity. rewrite H1. reflexivity.
Qed.

Lemma oget_some (a : option V) : oget A (Some (oget A a)) = oget A a.
Proof. reflexivity. Qed.

Theorem leaf_spec_since_reset : forall h g w v a,
  no_reset A g h v = true ->
  leaf_spec A g w h v a =
  if reached A g h v then Some (vadd A (oget A a) (vsum A (contribs A g w h v)))
  else if touched A g h v then Some (oget A a) else a.
Proof.
  induction h as [|e h IH]; intros g w v a Hn; [reflexivity|].
  cbn [no_reset] in Hn. apply andb_true_iff in Hn. destruct Hn as [Hn1 Hn2]. apply negb_true_iff in Hn1.
  cbn [leaf_spec reached touched contribs]. rewrite (IH _ _ _ _ Hn2).
  destruct e; cbn [acc_step resets] in *; cbn [orb app];
    try reflexivity; try (rewrite Hn1; reflexivity).
  - (* Backward *)
    destruct (reachb g root v && req (getn g v)); cbn [orb app]; [|reflexivity].
    destruct (reached A (evolve_g A g (Backward root seed)) h v) eqn:Er.
    + cbn [oget Sweep.vsum fold_right]. rewrite (vadd_assoc A Aok). reflexivity.
    + rewrite (contribs_unreached _ _ _ _ Er). cbn [Sweep.vsum fold_right]. rewrite (vadd_0_r A Aok).
      destruct (touched A (evolve_g A g (Backward root seed)) h v); reflexivity.
  - (* BackwardFails *)
    destruct (touches g root v); cbn [orb]; [|reflexivity].
    rewrite oget_some.
    destruct (reached A (evolve_g A g (BackwardFails root)) h v); [reflexivity|].
    destruct (touched A (evolve_g A g (BackwardFails root)) h v); reflexivity.
Qed.

(* graph and weights after a history *)
Fixpoint evolve_all (g : arena) (w : weights A) (h : list event) : arena * weights A :=
  match h with
  | [] => (g, w)
  | e :: h' => evolve_all (evolve_g A g e) (evolve_w A g w e) h'
  end.

Lemma leaf_spec_app : forall h1 h2 g w v a,
  leaf_spec A g w (h1 ++ h2) v a =
  leaf_spec A (fst (evolve_all g w h1)) (snd (evolve_all g w h1)) h2 v (leaf_spec A g w h1 v a).
Proof. induction h1 as [|e h1 IH]; intros; cbn [app leaf_spec evolve_all]; [reflexivity|apply IH]. Qed.

(* Σ over the backward calls since the last reset (failed calls in between contribute nothing) *)
Theorem history_sum_since_reset h1 e h2 s s' v :
  valid_state s -> builds_ok A (length (h_g A s)) (h1 ++ e :: h2) ->
  run A s (h1 ++ e :: h2) = Some s' ->
  forall g1 w1, evolve_all (h_g A s) (h_w A s) h1 = (g1, w1) ->
  resets A g1 e v = true -> no_reset A (evolve_g A g1 e) h2 v = true -> leafish (h_g A s') v ->
  h_b A s' v = Some (vsum A (contribs A (evolve_g A g1 e) (evolve_w A g1 w1 e) h2 v)).
Proof.
  intros Hv Hb Hrun g1 w1 E1 Hres Hno Hleaf.
  destruct (history_leaf_spec _ s s' Hv Hb Hrun) as [_ Hspec].
  rewrite (Hspec v Hleaf). rewrite leaf_spec_app, E1. cbn [fst snd leaf_spec].
  rewrite (leaf_spec_since_reset h2 _ _ v _ Hno).
  assert (Ha : acc_step A g1 w1 e v (leaf_spec A (h_g A s) (h_w A s) h1 v (h_b A s v)) = Some (vzero A)).
  { destruct e; cbn [resets] in Hres; cbn [acc_step]; try discriminate; rewrite Hres; reflexivity. }
  rewrite Ha. destruct (reached A (evolve_g A g1 e) h2 v) eqn:Er.
  - cbn [oget]. rewrite (vadd_0_l A Aok). reflexivity.
  - rewrite (contribs_unreached _ _ _ _ Er). cbn [Sweep.vsum fold_right oget].
    destruct (touched A (evolve_g A g1 e) h2 v); reflexivity.
Qed.

(* a leaf that was never reset: what it held at the start (possibly nothing) plus every contribution; still absent (None) iff
   it was absent and no call (successful or failed) reached it *)
Theorem history_sum_never_reset h s s' v :
  valid_state s -> builds_ok A (length (h_g A s)) h -> run A s h = Some s' ->
  no_reset A (h_g A s) h v = true -> leafish (h_g A s') v ->
  h_b A s' v = if reached A (h_g A s) h v
               then Some (vadd A (oget A (h_b A s v)) (vsum A (contribs A (h_g A s) (h_w A s) h v)))
               else if touched A (h_g A s) h v then Some (oget A (h_b A s v)) else h_b A s v.
Proof.
  intros Hv Hb Hrun Hno Hleaf.
  destruct (history_leaf_spec _ s s' Hv Hb Hrun) as [_ Hspec].
  rewrite (Hspec v Hleaf). apply leaf_spec_since_reset. exact Hno.
Qed.

(* a failed call changes no leaf gradient value: at most an absent buffer becomes a zero buffer *)
Theorem failed_call_keeps_values s r s' v :
  valid_state s -> step A s (BackwardFails r) = Some s' -> leafish (h_g A s) v ->
  oget A (h_b A s' v) = oget A (h_b A s v) /\ (forall x, h_b A s v = Some x -> h_b A s' v = Some x) /\
  (h_b A s' v = h_b A s v \/ (h_b A s v = None /\ h_b A s' v = Some (vzero A) /\ touches (h_g A s) r v = true)).
Proof.
  intros Hv Hstep Hleaf. rewrite (step_leaf s _ s' v Hv Hstep Hleaf). cbn [acc_step].
  destruct (touches (h_g A s) r v) eqn:Ht.
  - destruct (h_b A s v) as [x|] eqn:Hb; cbn [oget].
    + split; [reflexivity|]. split; [intros y Hy; exact Hy|left; reflexivity].
    + split; [reflexivity|]. split; [intros y Hy; discriminate|right; auto].
  - split; [reflexivity|]. split; [auto|left; reflexivity].
Qed.

End Hist.
