(* C10 — proofs about the dtype calculus (IR/Dtype.v) and about the generated tables (Gen/GenDtype.v). *)
From Coq Require Import List Bool Arith Lia String.
Import ListNotations.
From SG Require Import IR.Dtype Gen.GenDtype.

(* ---- the promotion lattice ----------------------------------------------------------------------------- *)
Lemma join_comm : forall a b, join a b = join b a.
Proof. destruct a, b; reflexivity. Qed.

Lemma join_assoc : forall a b c, join a (join b c) = join (join a b) c.
Proof. destruct a, b, c; reflexivity. Qed.

Lemma join_idem : forall a, join a a = a.
Proof. destruct a; reflexivity. Qed.

Lemma join_float_l : forall a b, is_float a = true -> is_float (join a b) = true.
Proof. destruct a, b; simpl; intro H; try reflexivity; discriminate H. Qed.

Lemma join_upper_l : forall a b, join a (join a b) = join a b.
Proof. destruct a, b; reflexivity. Qed.

(* a Python scalar (weak) never changes the dtype of a floating array / NumPy scalar, whatever the operator side *)
Definition weak (v : absval) : Prop := v = PyFloat \/ v = PyInt \/ exists b, v = PyBool b.

Lemma weak_scalar_keeps_float :
  forall d k w, is_float d = true -> weak w ->
    (exists k', arith (Np d k) w = Np d k') /\ (exists k', arith w (Np d k) = Np d k') /\
    (exists k', divv (Np d k) w = Np d k') /\ (exists k', divv w (Np d k) = Np d k') /\
    (exists k', powv (Np d k) w = Np d k') /\ (exists k', powv w (Np d k) = Np d k').
Proof.
  intros d k w Hf Hw.
  destruct Hw as [-> | [-> | [b ->]]]; destruct d; try discriminate Hf; cbn; repeat split; eexists; reflexivity.
Qed.

(* ... whereas NumPy scalars are strong: float32 array with a np.float64 / np.int64 scalar gives float64 *)
Lemma numpy_scalar_is_strong :
  arith (Np F32 KArray) (Np F64 KScalar) = Np F64 KEither /\ divv (Np F32 KArray) (Np DInt KScalar) = Np F64 KEither.
Proof. split; reflexivity. Qed.

(* ---- in-place accumulation --------------------------------------------------------------------------------- *)
Lemma inplace_keeps : forall b v b', inplace b v = Some b' -> b' = b.
Proof.
  intros b v b' H. unfold inplace in H.
  destruct (same_kind_castable (join (fst b) (fst v)) (fst b) && broadcasts_to (snd v) (snd b)); congruence.
Qed.

Lemma inplace_keeps_dtype_shape : forall b v b', inplace b v = Some b' -> fst b' = fst b /\ snd b' = snd b.
Proof. intros b v b' H. apply inplace_keeps in H. subst. auto. Qed.

Lemma accumulate_keeps : forall vs b b', accumulate b vs = Some b' -> b' = b.
Proof.
  induction vs as [|v vs IH]; intros b b' H; simpl in H.
  - congruence.
  - destruct (inplace b v) as [b1|] eqn:E; [|discriminate].
    apply inplace_keeps in E. subst b1. apply IH. exact H.
Qed.

Lemma float_buffer_castable : forall d dv, is_float d = true -> same_kind_castable (join d dv) d = true.
Proof. destruct d, dv; simpl; intro H; try reflexivity; discriminate H. Qed.

Lemma accumulate_total :
  forall vs b, is_float (fst b) = true ->
    Forall (fun v => broadcasts_to (snd v) (snd b) = true) vs ->
    accumulate b vs = Some b.
Proof.
  induction vs as [|v vs IH]; intros b Hf Hall; simpl.
  - reflexivity.
  - inversion Hall as [|? ? Hv Hrest]; subst.
    unfold inplace. rewrite float_buffer_castable by exact Hf. rewrite Hv. simpl.
    apply IH; assumption.
Qed.

(* a float value cannot be accumulated into an integer buffer: the failure mode that [backward_values_castable]
   excludes the other way round (float buffers accept everything) *)
Lemma int_buffer_rejects_float : forall s, inplace (DInt, s) (F32, s) = None.
Proof. intro s. unfold inplace. simpl. reflexivity. Qed.

Lemma broadcasts_refl : forall s, broadcasts_to s s = true.
Proof.
  intro s. unfold broadcasts_to. induction (rev s) as [|x l IH]; simpl.
  - reflexivity.
  - rewrite Nat.eqb_refl. simpl. exact IH.
Qed.

(* ---- the gradient buffer of a tensor during backward ------------------------------------------------------------ *)
Lemma final_grad_invariant :
  forall is_root data upstream vs b',
    final_grad true is_root data upstream vs = Some b' -> fst b' = fst data /\ snd b' = snd data.
Proof.
  intros is_root data upstream vs b' H. unfold final_grad, start_buffer in H.
  destruct is_root.
  - unfold seed_root in H. destruct (inplace (zeros_like_buf data) upstream) as [b|] eqn:E; [|discriminate].
    apply inplace_keeps in E. subst b. apply accumulate_keeps in H. subst. unfold zeros_like_buf. auto.
  - apply accumulate_keeps in H. subst. unfold zeros_like_buf. auto.
Qed.

Lemma final_grad_total :
  forall is_root data upstream vs,
    is_float (fst data) = true ->
    broadcasts_to (snd upstream) (snd data) = true ->
    Forall (fun v => broadcasts_to (snd v) (snd data) = true) vs ->
    final_grad true is_root data upstream vs = Some data.
Proof.
  intros is_root data upstream vs Hf Hu Hall. unfold final_grad, start_buffer.
  destruct is_root.
  - unfold seed_root, inplace, zeros_like_buf. rewrite float_buffer_castable by exact Hf. rewrite Hu. simpl.
    apply accumulate_total; assumption.
  - unfold zeros_like_buf. apply accumulate_total; assumption.
Qed.

(* the behaviour before fix d4325f2 (`self.grad = grad`): the root's buffer is the caller's array *)
Lemma rebinding_seed_takes_upstream_dtype :
  exists data upstream b', final_grad false true data upstream [] = Some b' /\ fst b' <> fst data.
Proof. exists (F32, [2]), (F64, [2]), (F64, [2]). split; [reflexivity|discriminate]. Qed.

Lemma forallb_In {A} (f : A -> bool) (l : list A) : forallb f l = true -> forall x, In x l -> f x = true.
Proof. intro H. apply forallb_forall. exact H. Qed.

(* ---- facts about the generated tables (finite: the ops present in the source) -------------------------------------- *)
Definition fdts : list dtype := [F32; F64].

Definition fwd_ok (r : oprow) : bool :=
  forallb (fun d => all_dtype d (op_result gen_cfg d d r)) fdts.

Lemma fwd_ok_all : forallb fwd_ok (op_rows ++ layer_rows) = true.
Proof. vm_compute. reflexivity. Qed.


Definition mixed_ok (r : oprow) : bool :=
  forallb (fun d => forallb (fun d2 => in_dtypes [d; join d d2] (op_result gen_cfg d d2 r)) fdts) fdts.

Lemma mixed_ok_all : forallb mixed_ok (op_rows ++ layer_rows) = true.
Proof. vm_compute. reflexivity. Qed.


Lemma accs_in_place_all : forallb accs_in_place wrapper_rows = true.
Proof. vm_compute. reflexivity. Qed.

Definition acc_castable (r : oprow) : bool :=
  forallb (fun j =>
    arg_absent r (fst (nth j (op_accs r) (0, false))) ||
    forallb (fun d => forallb (fun d2 => forallb (fun g => all_float (acc_values gen_cfg d d2 g r j)) fdts) fdts) fdts)
  (seq 0 (List.length (op_accs r))).

Lemma acc_castable_all : forallb acc_castable wrapper_rows = true.
Proof. vm_compute. reflexivity. Qed.

(* float16 as a probe: an op / parameter-free layer that silently creates a default-dtype (float32) temporary
   (Tensor(2.0), synapgrad.tensor(mask) ...) turns float16 operands into float32 *)
Definition probe_ok (r : oprow) : bool := all_dtype F16 (op_result gen_cfg F16 F16 r).

Lemma probe_ok_all : forallb probe_ok (wrapper_rows ++ param_free_layer_rows) = true.
Proof. vm_compute. reflexivity. Qed.

(* Python-scalar operands of the operator overloads, all three floating dtypes *)
Definition fl3 : list dtype := [F16; F32; F64].
Definition py_scalars : list absval := [PyInt; PyFloat; PyBool None; PyBool (Some true); PyBool (Some false)].

Definition scalar_row_ok (r : oprow) : bool := forallb (fun d => all_dtype d (op_result gen_cfg d d r)) fl3.

Lemma scalar_row_ok_all : forallb scalar_row_ok scalar_operand_rows = true.
Proof. vm_compute. reflexivity. Qed.

Definition wrap_ok (d : dtype) (w : absval) : bool :=
  list_eqb_abs (deval0 gen_cfg [Np d KArray; w] scalar_wrap) [Np d KArray].

Lemma wrap_ok_all : forallb (fun d => forallb (wrap_ok d) py_scalars) fl3 = true.
Proof. vm_compute. reflexivity. Qed.

(* ---- layers with state: the invariant over histories ------------------------------------------------------------ *)
Lemma dtype_eqb_eq : forall a b, dtype_eqb a b = true -> a = b.
Proof. destruct a, b; simpl; intro H; try reflexivity; discriminate H. Qed.
Lemma kind_eqb_eq : forall a b, kind_eqb a b = true -> a = b.
Proof. destruct a, b; simpl; intro H; try reflexivity; discriminate H. Qed.
Lemma obool_eqb_eq : forall a b, obool_eqb a b = true -> a = b.
Proof.
  destruct a as [x|], b as [y|]; simpl; intro H; try reflexivity; try discriminate H.
  apply Bool.eqb_prop in H. subst. reflexivity.
Qed.

Lemma absval_eqb_eq : forall a b, absval_eqb a b = true -> a = b.
Proof.
  fix IH 1. intros a b. destruct a; destruct b; simpl; intro H; try reflexivity; try discriminate H.
  - apply andb_true_iff in H. destruct H as [H1 H2]. apply dtype_eqb_eq in H1. apply kind_eqb_eq in H2. subst. reflexivity.
  - apply obool_eqb_eq in H. subst. reflexivity.
  - destruct (string_dec s s0); [subst; reflexivity | discriminate H].
  - f_equal. revert l0 H.
    refine ((fix go (l : list absval) : forall l0,
               (fix go0 (l l' : list absval) : bool :=
                  match l, l' with
                  | [], [] => true
                  | x :: t, y :: t' => absval_eqb x y && go0 t t'
                  | _, _ => false
                  end) l l0 = true -> l = l0 :=
               match l with
               | [] => fun l0 => match l0 with [] => fun _ => eq_refl | _ :: _ => fun H => _ end
               | x :: t => fun l0 => match l0 with [] => fun H => _ | y :: t' => fun H => _ end
               end) l).
    + discriminate H.
    + discriminate H.
    + apply andb_true_iff in H. destruct H as [H1 H2]. apply IH in H1. apply go in H2. subst. reflexivity.
Qed.

Lemma vmem_In : forall x l, vmem x l = true -> In x l.
Proof.
  intros x l H. unfold vmem in H. apply existsb_exists in H. destruct H as [y [Hy He]].
  apply absval_eqb_eq in He. subst. exact Hy.
Qed.

Lemma In_vunion : forall a b y, In y (vunion a b) -> In y a \/ In y b.
Proof.
  induction a as [|x t IH]; intros b y H; simpl in H.
  - right. exact H.
  - destruct (vmem x b || vmem x t).
    + apply IH in H. destruct H; [left; right; assumption | right; assumption].
    + destruct H as [H|H]; [left; left; assumption|]. apply IH in H. destruct H; [left; right; assumption | right; assumption].
Qed.

Lemma In_vdedup : forall l y, In y (vdedup l) -> In y l.
Proof.
  induction l as [|x t IH]; intros y H; simpl in H; [exact H|].
  destruct (vmem x t); [right; apply IH; exact H|].
  destruct H as [H|H]; [left; exact H | right; apply IH; exact H].
Qed.

Lemma In_vflat : forall f l y, In y (vflat f l) -> exists x, In x l /\ In y (f x).
Proof.
  intros f l. induction l as [|x t IH]; intros y H; simpl in H; [contradiction|].
  unfold vflat in H. simpl in H. apply In_vunion in H. destruct H as [H|H].
  - exists x. split; [left; reflexivity | exact H].
  - apply IH in H. destruct H as [x' [Hx Hy]]. exists x'. split; [right; exact Hx | exact Hy].
Qed.

Lemma In_lift1 : forall f s y, In y (lift1 f s) -> exists v, In v s /\ bound v = true /\ y = f v.
Proof.
  intros f s y H. unfold lift1 in H. apply In_vdedup in H. apply in_map_iff in H. destruct H as [v [Hv Hin]].
  unfold nounb in Hin. apply filter_In in Hin. destruct Hin as [Hin Hb]. exists v. repeat split; auto.
Qed.

Lemma In_nounb : forall s y, In y (nounb s) -> In y s /\ bound y = true.
Proof. intros s y H. unfold nounb in H. apply filter_In in H. exact H. Qed.

(* one step from states inside a closed set R *)
Lemma closed_step :
  forall c r d R, closed_ok c r d R = true ->
  forall S tr, (forall s, In s S -> In s R) ->
    (forall o, In o (sl_outs c r (Np d KArray) tr S) -> out_is d o = true) /\
    (forall s', In s' (sl_next c r (Np d KArray) tr S) -> In s' R).
Proof.
  intros c r d R Hc S tr HS.
  assert (Hres : forall st res, In st S -> In res (sl_step1 c r (Np d KArray) tr st) -> bound res = true ->
                 In (res_state res) R /\ out_is d (res_out res) = true).
  { intros st res Hst Hres Hb. unfold closed_ok in Hc.
    pose proof (forallb_In _ _ Hc st (HS st Hst)) as H1. cbv beta in H1.
    assert (Htr : In tr [true; false]) by (destruct tr; simpl; auto).
    pose proof (forallb_In _ _ H1 tr Htr) as H2. cbv beta in H2.
    pose proof (forallb_In _ _ H2 res Hres) as H3. cbv beta in H3.
    rewrite Hb in H3. simpl in H3. apply andb_true_iff in H3. destruct H3 as [H3 H4].
    split; [apply vmem_In; exact H3 | exact H4]. }
  split.
  - intros o Ho. unfold sl_outs in Ho. apply In_vflat in Ho. destruct Ho as [st [Hst Ho]].
    apply In_lift1 in Ho. destruct Ho as [res [Hr [Hb ->]]]. exact (proj2 (Hres st res Hst Hr Hb)).
  - intros s' Hs'. unfold sl_next in Hs'. apply In_vflat in Hs'. destruct Hs' as [st [Hst Hs']].
    apply In_lift1 in Hs'. destruct Hs' as [res [Hr [Hb ->]]]. exact (proj1 (Hres st res Hst Hr Hb)).
Qed.

Lemma out_is_all_dtype : forall d s, (forall o, In o s -> out_is d o = true) -> all_dtype d s = true.
Proof.
  intros d s H. unfold all_dtype. apply forallb_forall. intros v Hv. specialize (H v Hv).
  unfold out_is in H. destruct v; try discriminate H. exact H.
Qed.

Lemma history_invariant :
  forall c r d R, closed_ok c r d R = true -> forallb (good_state d) R = true ->
  forall (h : list bool) S, (forall s, In s S -> In s R) ->
    let res := sl_run c r (map (fun tr => (tr, Np d KArray)) h) S in
    forallb (all_dtype d) (fst res) = true /\ forallb (good_state d) (snd res) = true.
Proof.
  intros c r d R Hc Hg h. induction h as [|tr t IH]; intros S HS; simpl.
  - split; [reflexivity|]. apply forallb_forall. intros s Hs. exact (forallb_In _ _ Hg s (HS s Hs)).
  - destruct (closed_step c r d R Hc S tr HS) as [Ho Hn].
    specialize (IH (sl_next c r (Np d KArray) tr S) Hn). simpl in IH. destruct IH as [IH1 IH2].
    split; [|exact IH2]. rewrite (out_is_all_dtype d _ Ho). simpl. exact IH1.
Qed.

Definition sl_row_ok2 (r : slrow) : bool := sl_row_ok gen_cfg r F32 && sl_row_ok gen_cfg r F64.

Lemma sl_rows_ok_true : forallb sl_row_ok2 stateful_rows = true.
Proof. vm_compute. reflexivity. Qed.

Lemma sl_row_history :
  forall r d, sl_row_ok gen_cfg r d = true ->
    forallb (good_state d) (sl_init_states gen_cfg d d r) = true ->
    forall h : list bool,
      let res := sl_run gen_cfg r (map (fun tr => (tr, Np d KArray)) h) (sl_init_states gen_cfg d d r) in
      forallb (all_dtype d) (fst res) = true /\ forallb (good_state d) (snd res) = true.
Proof.
  intros r d Hok Hg0 h. unfold sl_row_ok in Hok. rewrite Hg0 in Hok.
  apply andb_true_iff in Hok. destruct Hok as [Hok Hsub]. apply andb_true_iff in Hok. destruct Hok as [Hc Hg].
  apply (history_invariant gen_cfg r d _ Hc Hg h).
  intros s Hs. apply vmem_In. unfold vsubset in Hsub. exact (forallb_In _ _ Hsub s Hs).
Qed.

