(* C10 — proofs about the dtype calculus (IR/Dtype.v) and about the generated tables (Gen/GenDtype.v). *)
From Coq Require Import List Bool Arith Lia String.
Import ListNotations.
From SG Require Import IR.Dtype Gen.GenDtype.

(* ---- the promotion lattice ----------------------------------------------------------------------------- *)
Lemma join_comm : forall a b, join a b = join b a.
Proof. destruct a, b; reflexivity. Qed.

Lemma join_assoc : forall a b c, join a (join b c) = join (join a b) c.
Proof. destruct a, b, c; reflexivity. Qed.

Lemma join_idem : forall a, join a a = a.
Proof. destruct a; reflexivity. Qed.

Lemma join_float_l : forall a b, is_float a = true -> is_float (join a b) = true.
Proof. destruct a, b; simpl; intro H; try reflexivity; discriminate H. Qed.

Lemma join_upper_l : forall a b, join a (join a b) = join a b.
Proof. destruct a, b; reflexivity. Qed.

(* a Python scalar (weak) never changes the dtype of a floating array / NumPy scalar, whatever the operator side *)
Definition weak (v : absval) : Prop := v = PyFloat \/ v = PyInt \/ exists b, v = PyBool b.

Lemma weak_scalar_keeps_float :
  forall d k w, is_float d = true -> weak w ->
    (exists k', arith (Np d k) w = Np d k') /\ (exists k', arith w (Np d k) = Np d k') /\
    (exists k', divv (Np d k) w = Np d k') /\ (exists k', divv w (Np d k) = Np d k') /\
    (exists k', powv (Np d k) w = Np d k') /\ (exists k', powv w (Np d k) = Np d k').
Proof.
  intros d k w Hf Hw.
  destruct Hw as [-> | [-> | [b ->]]]; destruct d; try discriminate Hf; cbn; repeat split; eexists; reflexivity.
Qed.

(* ... whereas NumPy scalars are strong: float32 array with a np.float64 / np.int64 scalar gives float64 *)
Lemma numpy_scalar_is_strong :
  arith (Np F32 KArray) (Np F64 KScalar) = Np F64 KEither /\ divv (Np F32 KArray) (Np DInt KScalar) = Np F64 KEither.
Proof. split; reflexivity. Qed.

(* ---- in-place accumulation --------------------------------------------------------------------------------- *)
Lemma inplace_keeps : forall b v b', inplace b v = Some b' -> b' = b.
Proof.
  intros b v b' H. unfold inplace in H.
  destruct (same_kind_castable (join (fst b) (fst v)) (fst b) && broadcasts_to (snd v) (snd b)); congruence.
Qed.

Lemma inplace_keeps_dtype_shape : forall b v b', inplace b v = Some b' -> fst b' = fst b /\ snd b' = snd b.
Proof. intros b v b' H. apply inplace_keeps in H. subst. auto. Qed.

Lemma accumulate_keeps : forall vs b b', accumulate b vs = Some b' -> b' = b.
Proof.
  induction vs as [|v vs IH]; intros b b' H; simpl in H.
  - congruence.
  - destruct (inplace b v) as [b1|] eqn:E; [|discriminate].
    apply inplace_keeps in E. subst b1. apply IH. exact H.
Qed.

Lemma float_buffer_castable : forall d dv, is_float d = true -> same_kind_castable (join d dv) d = true.
Proof. destruct d, dv; simpl; intro H; try reflexivity; discriminate H. Qed.

Lemma accumulate_total :
  forall vs b, is_float (fst b) = true ->
    Forall (fun v => broadcasts_to (snd v) (snd b) = true) vs ->
    accumulate b vs = Some b.
Proof.
  induction vs as [|v vs IH]; intros b Hf Hall; simpl.
  - reflexivity.
  - inversion Hall as [|? ? Hv Hrest]; subst.
    unfold inplace. rewrite float_buffer_castable by exact Hf. rewrite Hv. simpl.
    apply IH; assumption.
Qed.

(* a float value cannot be accumulated into an integer buffer: the failure mode that [backward_values_castable]
   excludes the other way round (float buffers accept everything) *)
Lemma int_buffer_rejects_float : forall s, inplace (DInt, s) (F32, s) = None.
Proof. intro s. unfold inplace. simpl. reflexivity. Qed.

Lemma broadcasts_refl : forall s, broadcasts_to s s = true.
Proof.
  intro s. unfold broadcasts_to. induction (rev s) as [|x l IH]; simpl.
  - reflexivity.
  - rewrite Nat.eqb_refl. simpl. exact IH.
Qed.

(* ---- the gradient buffer of a tensor during backward ------------------------------------------------------------ *)
Lemma final_grad_invariant :
  forall is_root data upstream vs b',
    final_grad true is_root data upstream vs = Some b' -> fst b' = fst data /\ snd b' = snd data.
Proof.
  intros is_root data upstream vs b' H. unfold final_grad, start_buffer in H.
  destruct is_root.
  - unfold seed_root in H. destruct (inplace (zeros_like_buf data) upstream) as [b|] eqn:E; [|discriminate].
    apply inplace_keeps in E. subst b. apply accumulate_keeps in H. subst. unfold zeros_like_buf. auto.
  - apply accumulate_keeps in H. subst. unfold zeros_like_buf. auto.
Qed.

Lemma final_grad_total :
  forall is_root data upstream vs,
    is_float (fst data) = true ->
    broadcasts_to (snd upstream) (snd data) = true ->
    Forall (fun v => broadcasts_to (snd v) (snd data) = true) vs ->
    final_grad true is_root data upstream vs = Some data.
Proof.
  intros is_root data upstream vs Hf Hu Hall. unfold final_grad, start_buffer.
  destruct is_root.
  - unfold seed_root, inplace, zeros_like_buf. rewrite float_buffer_castable by exact Hf. rewrite Hu. simpl.
    apply accumulate_total; assumption.
  - unfold zeros_like_buf. apply accumulate_total; assumption.
Qed.

(* the behaviour before fix d4325f2 (`self.grad = grad`): the root's buffer is the caller's array *)
Lemma rebinding_seed_takes_upstream_dtype :
  exists data upstream b', final_grad false true data upstream [] = Some b' /\ fst b' <> fst data.
Proof. exists (F32, [2]), (F64, [2]), (F64, [2]). split; [reflexivity|discriminate]. Qed.

(* ---- facts about the generated tables (finite: the ops present in the source) -------------------------------------- *)
Definition fdts : list dtype := [F32; F64].

Definition fwd_ok (r : oprow) : bool :=
  forallb (fun d => all_dtype d (op_result gen_cfg d d r)) fdts.

Lemma fwd_ok_all : forallb fwd_ok (op_rows ++ layer_rows) = true.
Proof. vm_compute. reflexivity. Qed.


Definition mixed_ok (r : oprow) : bool :=
  forallb (fun d => forallb (fun d2 => in_dtypes [d; join d d2] (op_result gen_cfg d d2 r)) fdts) fdts.

Lemma mixed_ok_all : forallb mixed_ok (op_rows ++ layer_rows) = true.
Proof. vm_compute. reflexivity. Qed.


Lemma accs_in_place_all : forallb accs_in_place wrapper_rows = true.
Proof. vm_compute. reflexivity. Qed.

Definition acc_castable (r : oprow) : bool :=
  forallb (fun j =>
    arg_absent r (fst (nth j (op_accs r) (0, false))) ||
    forallb (fun d => forallb (fun d2 => forallb (fun g => all_float (acc_values gen_cfg d d2 g r j)) fdts) fdts) fdts)
  (seq 0 (List.length (op_accs r))).

Lemma acc_castable_all : forallb acc_castable wrapper_rows = true.
Proof. vm_compute. reflexivity. Qed.

(* float16 as a probe: an op / parameter-free layer that silently creates a default-dtype (float32) temporary
   (Tensor(2.0), synapgrad.tensor(mask) ...) turns float16 operands into float32 *)
Definition probe_ok (r : oprow) : bool := all_dtype F16 (op_result gen_cfg F16 F16 r).

Lemma probe_ok_all : forallb probe_ok (wrapper_rows ++ param_free_layer_rows) = true.
Proof. vm_compute. reflexivity. Qed.

(* Python-scalar operands of the operator overloads, all three floating dtypes *)
Definition fl3 : list dtype := [F16; F32; F64].
Definition py_scalars : list absval := [PyInt; PyFloat; PyBool None; PyBool (Some true); PyBool (Some false)].

Definition scalar_row_ok (r : oprow) : bool := forallb (fun d => all_dtype d (op_result gen_cfg d d r)) fl3.

Lemma scalar_row_ok_all : forallb scalar_row_ok scalar_operand_rows = true.
Proof. vm_compute. reflexivity. Qed.

Definition wrap_ok (d : dtype) (w : absval) : bool :=
  list_eqb_abs (deval0 gen_cfg [Np d KArray; w] scalar_wrap) [Np d KArray].

Lemma wrap_ok_all : forallb (fun d => forallb (wrap_ok d) py_scalars) fl3 = true.
Proof. vm_compute. reflexivity. Qed.

Lemma forallb_In {A} (f : A -> bool) (l : list A) : forallb f l = true -> forall x, In x l -> f x = true.
Proof. intro H. apply forallb_forall. exact H. Qed.
