(* Proofs about NumPy/Im2col.v (property C16): closed forms of the index maps of the three im2col variants and of
   extract_windows, the contribution sums of the three col2im variants and of place_windows, adjointness,
   fold(unfold) multiplicity, pad positions. *)
From Coq Require Import List ZArith Lia Bool Arith QArith Qround Permutation.
Import ListNotations.
From SG Require Import Base.Sums NumPy.Gather NumPy.Index NumPy.Window NumPy.Im2col Proofs.WindowProofs.
Open Scope Z_scope.

Ltac dv H :=
  destruct H as (HN & HC & HHn & HWn & HkH & HkW & HsH & HsW & HpH & HpW & HdH & HdW & HlH & HlW).

(* ------------------------------------------------------------------ geometry facts *)
Lemma lH_eq g : valid g -> lH g = out_size (gH g) (kH g) (sH g) (pH g) (dH g).
Proof. intros Hv; dv Hv. unfold lH. now apply out_size_float_eq. Qed.
Lemma lW_eq g : valid g -> lW g = out_size (gW g) (kW g) (sW g) (pW g) (dW g).
Proof. intros Hv; dv Hv. unfold lW. now apply out_size_float_eq. Qed.
Lemma oH_eq g : valid g -> oH g = lH g.
Proof. intros Hv. rewrite lH_eq by auto. unfold oH, Hp. apply out_size_view_eq. Qed.
Lemma oW_eq g : valid g -> oW g = lW g.
Proof. intros Hv. rewrite lW_eq by auto. unfold oW, Wp. apply out_size_view_eq. Qed.

Lemma fitsH g i : valid g -> 0 <= i < lH g -> i * sH g + (kH g - 1) * dH g + 1 <= Hp g.
Proof. intros Hv Hi. rewrite lH_eq in Hi by auto. dv Hv. unfold Hp. apply fits_iff; auto. lia. Qed.
Lemma fitsW g j : valid g -> 0 <= j < lW g -> j * sW g + (kW g - 1) * dW g + 1 <= Wp g.
Proof. intros Hv Hj. rewrite lW_eq in Hj by auto. dv Hv. unfold Wp. apply fits_iff; auto. lia. Qed.

Lemma hpos_range g i a : valid g -> 0 <= i < lH g -> 0 <= a < kH g -> 0 <= i * sH g + a * dH g < Hp g.
Proof. intros Hv Hi Ha. pose proof (fitsH g i Hv Hi). dv Hv. nia. Qed.
Lemma wpos_range' g j b : valid g -> 0 <= j < lW g -> 0 <= b < kW g -> 0 <= j * sW g + b * dW g < Wp g.
Proof. intros Hv Hj Hb. pose proof (fitsW g j Hv Hj). dv Hv. nia. Qed.

Lemma nR_alt g : nR g = gC g * (kH g * kW g).
Proof. unfold nR. ring. Qed.
Lemma nR_nonneg g : valid g -> 0 <= nR g.
Proof. intros Hv; dv Hv. unfold nR. nia. Qed.
Lemma nL_pos g : valid g -> 0 < nL g.
Proof. intros Hv; dv Hv. unfold nL. nia. Qed.
Lemma nK_pos g : valid g -> 0 < kH g * kW g.
Proof. intros Hv; dv Hv. nia. Qed.

(* decomposition of a row index and of a column index *)
Lemma row_parts g r : valid g -> 0 <= r < nR g ->
  0 <= r / (kH g * kW g) < gC g /\ 0 <= (r / kW g) mod kH g < kH g /\ 0 <= r mod kW g < kW g.
Proof.
  intros Hv Hr. pose proof (nK_pos g Hv). rewrite nR_alt in Hr. dv Hv. split; [|split].
  - apply div_bound; auto.
  - apply mod_bound; auto.
  - apply mod_bound; auto.
Qed.
Lemma col_parts g l : valid g -> 0 <= l < nL g -> 0 <= l / lW g < lH g /\ 0 <= l mod lW g < lW g.
Proof.
  intros Hv Hl. unfold nL in Hl. dv Hv. split.
  - apply div_bound; auto; lia.
  - apply mod_bound; lia.
Qed.

(* ------------------------------------------------------------------ 1. get_im2col_indices: closed forms from repeat/tile/arange *)
Lemma idx_k_nth g r : valid g -> 0 <= r < nR g -> znth_error (idx_k g) r = Some (r / (kH g * kW g)).
Proof.
  intros Hv Hr. pose proof (row_parts g r Hv Hr) as (Hc & _ & _). pose proof (nK_pos g Hv).
  unfold idx_k. rewrite znth_error_np_repeat by lia. now apply znth_error_zr.
Qed.

Lemma idx_i0_nth g r : valid g -> 0 <= r < nR g ->
  znth_error (idx_i0 g) r = Some (((r / kW g) mod kH g) * dH g).
Proof.
  intros Hv Hr. pose proof (row_parts g r Hv Hr) as (_ & Ha & _). pose proof (nK_pos g Hv) as HK.
  rewrite nR_alt in Hr. dv Hv.
  unfold idx_i0. rewrite arange3_mul by auto.
  assert (Hlen : zlen (np_repeat (map (fun a => a * dH g) (zr (kH g))) (kW g)) = kH g * kW g).
  { rewrite zlen_np_repeat, zlen_map, zlen_zr by lia. reflexivity. }
  rewrite znth_error_np_tile by (rewrite Hlen; lia). rewrite Hlen.
  pose proof (mod_bound r (kH g * kW g) HK).
  rewrite znth_error_np_repeat by lia.
  rewrite mod_mul_div by auto.
  rewrite znth_error_map, znth_error_zr by auto. reflexivity.
Qed.

Lemma idx_j0_nth g r : valid g -> 0 <= r < nR g -> znth_error (idx_j0 g) r = Some ((r mod kW g) * dW g).
Proof.
  intros Hv Hr. pose proof (row_parts g r Hv Hr) as (_ & _ & Hb).
  rewrite nR_alt in Hr. dv Hv.
  unfold idx_j0. rewrite arange3_mul by auto.
  assert (Hlen : zlen (map (fun a => a * dW g) (zr (kW g))) = kW g) by (rewrite zlen_map, zlen_zr; lia).
  rewrite znth_error_np_tile by (rewrite Hlen; nia). rewrite Hlen.
  rewrite znth_error_map, znth_error_zr by auto. reflexivity.
Qed.

Lemma idx_i1_nth g l : valid g -> 0 <= l < nL g -> znth_error (idx_i1 g) l = Some (sH g * (l / lW g)).
Proof.
  intros Hv Hl. pose proof (col_parts g l Hv Hl) as (Hi & _). dv Hv.
  unfold idx_i1. rewrite znth_error_map, znth_error_np_repeat by lia.
  rewrite znth_error_zr by auto. reflexivity.
Qed.

Lemma idx_j1_nth g l : valid g -> 0 <= l < nL g -> znth_error (idx_j1 g) l = Some (sW g * (l mod lW g)).
Proof.
  intros Hv Hl. pose proof (col_parts g l Hv Hl) as (_ & Hj). unfold nL in Hl. dv Hv.
  unfold idx_j1. rewrite znth_error_map.
  assert (Hlen : zlen (zr (lW g)) = lW g) by (apply zlen_zr; lia).
  rewrite znth_error_np_tile by (rewrite Hlen; lia). rewrite Hlen.
  rewrite znth_error_zr by auto. reflexivity.
Qed.

Definition rowf g (r : Z) : Z * Z * Z := (r / (kH g * kW g), ((r / kW g) mod kH g) * dH g, (r mod kW g) * dW g).
Definition colf g (l : Z) : Z * Z := (sH g * (l / lW g), sW g * (l mod lW g)).

Lemma idx_rows_nth g r : valid g -> 0 <= r < nR g -> znth_error (idx_rows g) r = Some (rowf g r).
Proof.
  intros Hv Hr. unfold idx_rows. rewrite !znth_error_combine.
  rewrite idx_k_nth, idx_i0_nth, idx_j0_nth by auto. reflexivity.
Qed.
Lemma idx_cols_nth g l : valid g -> 0 <= l < nL g -> znth_error (idx_cols g) l = Some (colf g l).
Proof.
  intros Hv Hl. unfold idx_cols. rewrite znth_error_combine.
  rewrite idx_i1_nth, idx_j1_nth by auto. reflexivity.
Qed.

Lemma idx_rows_len g : valid g -> zlen (idx_rows g) = nR g.
Proof.
  intros Hv. pose proof (nK_pos g Hv). pose proof (nR_alt g). dv Hv.
  unfold idx_rows, idx_k, idx_i0, idx_j0. rewrite !zlen_combine.
  rewrite !arange3_mul by auto.
  rewrite zlen_np_repeat, zlen_zr by lia.
  rewrite zlen_np_tile, zlen_np_repeat, zlen_map, zlen_zr by lia.
  rewrite zlen_np_tile, zlen_map, zlen_zr by nia. nia.
Qed.
Lemma idx_cols_len g : valid g -> zlen (idx_cols g) = nL g.
Proof.
  intros Hv. dv Hv. unfold idx_cols, idx_i1, idx_j1, nL. rewrite zlen_combine, !zlen_map.
  rewrite zlen_np_repeat, zlen_np_tile, !zlen_zr by lia. nia.
Qed.

Lemma idx_rows_eq g : valid g -> idx_rows g = map (rowf g) (zr (nR g)).
Proof.
  intros Hv. apply list_eq_map_zr. now apply nR_nonneg. now apply idx_rows_len.
  intros; now apply idx_rows_nth.
Qed.
Lemma idx_cols_eq g : valid g -> idx_cols g = map (colf g) (zr (nL g)).
Proof.
  intros Hv. pose proof (nL_pos g Hv). apply list_eq_map_zr. lia. now apply idx_cols_len.
  intros; now apply idx_cols_nth.
Qed.

Lemma idx_unf_closed g n r l : valid g -> 0 <= r < nR g -> 0 <= l < nL g -> idx_unf g (n, r, l) = phi g (n, r, l).
Proof.
  intros Hv Hr Hl. unfold idx_unf. rewrite idx_rows_nth, idx_cols_nth by auto. reflexivity.
Qed.

Lemma idx_2d_closed g r q : valid g -> 0 <= r < nR g -> 0 <= q < gN g * nL g -> idx_2d g (r, q) = phi2d g (r, q).
Proof.
  intros Hv Hr Hq. unfold idx_2d, phi2d. rewrite idx_cols_len by auto.
  assert (HNpos : 0 < gN g) by (pose proof (nL_pos g Hv); nia).
  pose proof (mod_bound q (gN g) HNpos) as Hn.
  assert (Hl : 0 <= q / gN g < nL g) by (apply div_bound; auto; lia).
  replace (ravel2 (nL g * gN g) r q) with (ravel3 (nL g) (gN g) r (q / gN g) (q mod gN g)).
  2:{ unfold ravel2, ravel3. pose proof (div_mod_eq q (gN g) HNpos). lia. }
  rewrite unravel3_ravel by auto. now apply idx_unf_closed.
Qed.

(* ------------------------------------------------------------------ helpers *)
Ltac btrue :=
  repeat (apply andb_true_intro; split); first [apply Z.leb_le; lia | apply Z.ltb_lt; lia | apply Z.eqb_eq; lia | idtac].
Ltac guard_true :=
  match goal with |- context [if ?b then _ else _] =>
    let G := fresh "G" in assert (G : b = true) by btrue; rewrite G; clear G end.

Lemma pad_lookup_ext g n c h h' w w' : h = h' -> w = w' -> pad_lookup g (n, c, h, w) = pad_lookup g (n, c, h', w').
Proof. intros -> ->. reflexivity. Qed.

(* ------------------------------------------------------------------ 2. im2col_v2: slices, ravel/reshape, the loop *)
Lemma v2_hs_closed g i : valid g -> 0 <= i < lH g -> v2_hs g i = map (fun a => i * sH g + a * dH g) (zr (kH g)).
Proof.
  intros Hv Hi. pose proof (fitsH g i Hv Hi). dv Hv. unfold v2_hs.
  replace (i * sH g + kH g + (dH g - 1) * (kH g - 1)) with (i * sH g + ((kH g - 1) * dH g + 1)) by ring.
  apply slice_idx_fit; auto. lia. nia.
Qed.
Lemma v2_ws_closed g j : valid g -> 0 <= j < lW g -> v2_ws g j = map (fun b => j * sW g + b * dW g) (zr (kW g)).
Proof.
  intros Hv Hj. pose proof (fitsW g j Hv Hj). dv Hv. unfold v2_ws.
  replace (j * sW g + kW g + (dW g - 1) * (kW g - 1)) with (j * sW g + ((kW g - 1) * dW g + 1)) by ring.
  apply slice_idx_fit; auto. lia. nia.
Qed.

Lemma v2_col_closed g i j n r : valid g -> 0 <= i < lH g -> 0 <= j < lW g -> 0 <= r < nR g ->
  v2_col g i j n r =
  pad_lookup g (n, r / (kH g * kW g), i * sH g + ((r / kW g) mod kH g) * dH g, j * sW g + (r mod kW g) * dW g).
Proof.
  intros Hv Hi Hj Hr. pose proof (row_parts g r Hv Hr) as (Hc & Ha & Hb).
  unfold v2_col. rewrite v2_hs_closed, v2_ws_closed by auto.
  rewrite !zlen_map, !zlen_zr by (dv Hv; lia).
  assert (G : (gN g * gC g * kH g * kW g =? gN g * (gC g * (kH g * kW g))) = true) by (apply Z.eqb_eq; ring).
  rewrite G. cbn [negb].
  replace (ravel2 (gC g * (kH g * kW g)) n r)
    with (ravel4 (gC g) (kH g) (kW g) n (r / (kH g * kW g)) ((r / kW g) mod kH g) (r mod kW g)).
  2:{ unfold ravel2, ravel4. assert (E := split3 r (kH g) (kW g)). dv Hv. specialize (E HkH HkW). nia. }
  rewrite unravel4_ravel by auto.
  rewrite !znth_error_map, !znth_error_zr by auto. reflexivity.
Qed.

Lemma v2_writer_spec g l : valid g -> 0 <= l < nL g -> v2_writer g l = Some (l / lW g, l mod lW g).
Proof.
  intros Hv Hl. pose proof (col_parts g l Hv Hl) as (Hi & Hj).
  assert (HlW : 0 < lW g) by (dv Hv; lia).
  pose proof (div_mod_eq l (lW g) HlW) as E.
  unfold v2_writer.
  pose proof (fold_upd_spec (fun ij : Z * Z => fst ij * lW g + snd ij) (loop_pairs g) (fun _ => None)
                (l / lW g, l mod lW g)) as S.
  cbn [fst snd] in S. rewrite <- E in S. apply S.
  - unfold loop_pairs. apply in_prod; apply in_zr; auto.
  - intros [i' j'] Hin Hk. cbn [fst snd] in Hk. unfold loop_pairs in Hin.
    apply in_prod_iff in Hin. destruct Hin as (Hi' & Hj'). apply in_zr in Hi'. apply in_zr in Hj'.
    destruct (divmod_unique l (lW g) i' j' Hj' (eq_sym Hk)) as (D & M). congruence.
Qed.

Lemma v2_unf_closed g n r l : valid g -> 0 <= n < gN g -> 0 <= r < nR g -> 0 <= l < nL g ->
  v2_unf g (n, r, l) = phi g (n, r, l).
Proof.
  intros Hv Hn Hr Hl. pose proof (col_parts g l Hv Hl) as (Hi & Hj). pose proof (nR_alt g).
  unfold v2_unf. guard_true. rewrite v2_writer_spec by auto.
  rewrite v2_col_closed by auto. unfold phi, phi_pad. apply pad_lookup_ext; ring.
Qed.

Lemma q_parts g q : valid g -> 0 <= q < gN g * nL g -> 0 <= q mod gN g < gN g /\ 0 <= q / gN g < nL g.
Proof.
  intros Hv Hq. assert (HNpos : 0 < gN g) by (pose proof (nL_pos g Hv); nia). split.
  apply mod_bound; auto. apply div_bound; auto; lia.
Qed.

Lemma ravel2_as_ravel3 g r q : valid g -> 0 <= q < gN g * nL g ->
  ravel2 (nL g * gN g) r q = ravel3 (nL g) (gN g) r (q / gN g) (q mod gN g).
Proof.
  intros Hv Hq. assert (HNpos : 0 < gN g) by (pose proof (nL_pos g Hv); nia).
  unfold ravel2, ravel3. pose proof (div_mod_eq q (gN g) HNpos). lia.
Qed.

Lemma v2_2d_closed g r q : valid g -> 0 <= r < nR g -> 0 <= q < gN g * nL g -> v2_2d g (r, q) = phi2d g (r, q).
Proof.
  intros Hv Hr Hq. unfold v2_2d, phi2d. destruct (q_parts g q Hv Hq) as (Hn & Hl).
  rewrite ravel2_as_ravel3 by auto. rewrite unravel3_ravel by auto. now apply v2_unf_closed.
Qed.

(* ------------------------------------------------------------------ 3. extract_windows: the strided view *)
Lemma ew_offset_closed g wi wj n c a b :
  dotZ [wi; wj; n; c; a; b] (ew_strides g) =
  ravel4 (gC g) (Hp g) (Wp g) n c (wi * sH g + a * dH g) (wj * sW g + b * dW g).
Proof.
  cbv [ew_strides ew_strides_gen dotZ zip_mul lastn butlastn cumprod cumprod_from rev tl app length skipn firstn
       fold_right Nat.sub ravel4]. ring.
Qed.

Lemma ew_closed g wi wj n c a b : valid g ->
  0 <= wi < lH g -> 0 <= wj < lW g -> 0 <= n < gN g -> 0 <= c < gC g -> 0 <= a < kH g -> 0 <= b < kW g ->
  ew g wi wj n c a b = phi_win g (wi, wj, n, c, a, b).
Proof.
  intros Hv Hwi Hwj Hn Hc Ha Hb.
  pose proof (hpos_range g wi a Hv Hwi Ha) as Hh. pose proof (wpos_range' g wj b Hv Hwj Hb) as Hw.
  unfold ew. rewrite oH_eq, oW_eq by auto. guard_true.
  rewrite ew_offset_closed.
  pose proof (ravel4_bound (gN g) (gC g) (Hp g) (Wp g) n c _ _ Hn Hc Hh Hw) as B.
  guard_true. rewrite unravel4_ravel by auto. reflexivity.
Qed.

Lemma phi_of_win g wi wj n c a b : valid g ->
  0 <= wi < lH g -> 0 <= wj < lW g -> 0 <= c -> 0 <= a < kH g -> 0 <= b < kW g ->
  phi g (n, (c * kH g + a) * kW g + b, wi * lW g + wj) = phi_win g (wi, wj, n, c, a, b).
Proof.
  intros Hv Hwi Hwj Hc Ha Hb. unfold phi, phi_pad, phi_win.
  set (r := (c * kH g + a) * kW g + b). set (l := wi * lW g + wj).
  assert (Eb : r mod kW g = b) by (eapply mod_unique'; eauto; reflexivity).
  assert (Dk : r / kW g = c * kH g + a) by (eapply div_unique'; eauto; reflexivity).
  assert (Ea : (r / kW g) mod kH g = a) by (rewrite Dk; eapply mod_unique'; eauto).
  assert (Ec : r / (kH g * kW g) = c).
  { apply (div_unique' _ _ c (a * kW g + b)). nia. unfold r. ring. }
  assert (Ej : l mod lW g = wj) by (eapply mod_unique'; eauto; reflexivity).
  assert (Ei : l / lW g = wi) by (eapply div_unique'; eauto; reflexivity).
  rewrite Eb, Ea, Ec, Ej, Ei. apply pad_lookup_ext; ring.
Qed.

Lemma win_of_phi g n r l : valid g -> 0 <= r < nR g -> 0 <= l < nL g ->
  phi_win g (l / lW g, l mod lW g, n, r / (kH g * kW g), (r / kW g) mod kH g, r mod kW g) = phi g (n, r, l).
Proof. intros Hv Hr Hl. unfold phi, phi_pad, phi_win. apply pad_lookup_ext; ring. Qed.

Lemma fast_flat g n r l : valid g -> 0 <= r < nR g -> 0 <= l < nL g ->
  ravel3 (gN g) (gC g * kH g * kW g) l n r =
  ravel6 (oW g) (gN g) (gC g) (kH g) (kW g) (l / lW g) (l mod lW g) n (r / (kH g * kW g)) ((r / kW g) mod kH g) (r mod kW g).
Proof.
  intros Hv Hr Hl. rewrite oW_eq by auto. unfold ravel3, ravel6.
  assert (HlWp : 0 < lW g) by (dv Hv; lia).
  pose proof (div_mod_eq l (lW g) HlWp) as El. rewrite <- El.
  assert (Er := split3 r (kH g) (kW g)). dv Hv. specialize (Er HkH HkW).
  set (c := r / (kH g * kW g)) in *. set (a := (r / kW g) mod kH g) in *. set (b := r mod kW g) in *.
  rewrite Er at 1. ring.
Qed.

Lemma fast_unf_closed g n r l : valid g -> 0 <= n < gN g -> 0 <= r < nR g -> 0 <= l < nL g ->
  fast_unf g (n, r, l) = phi g (n, r, l).
Proof.
  intros Hv Hn Hr Hl. pose proof (row_parts g r Hv Hr) as (Hc & Ha & Hb). pose proof (col_parts g l Hv Hl) as (Hi & Hj).
  unfold fast_unf. rewrite oH_eq, oW_eq by auto.
  assert (E1 : gC g * kH g * kW g = nR g) by (unfold nR; ring). rewrite E1. fold (nL g). guard_true.
  rewrite <- E1. rewrite fast_flat by auto. unfold ew6. rewrite unravel6_ravel; try lia; try (rewrite oW_eq by auto; lia).
  rewrite ew_closed by auto. now apply win_of_phi.
Qed.

Lemma fast_2d_closed g r q : valid g -> 0 <= r < nR g -> 0 <= q < gN g * nL g -> fast_2d g (r, q) = phi2d g (r, q).
Proof.
  intros Hv Hr Hq. destruct (q_parts g q Hv Hq) as (Hn & Hl).
  pose proof (row_parts g r Hv Hr) as (Hc & Ha & Hb). pose proof (col_parts g _ Hv Hl) as (Hi & Hj).
  unfold fast_2d, phi2d. rewrite oH_eq, oW_eq by auto.
  assert (E1 : gC g * kH g * kW g = nR g) by (unfold nR; ring). rewrite E1. fold (nL g). guard_true.
  assert (HNpos : 0 < gN g) by lia.
  replace (ravel2 (nR g) q r) with (ravel3 (gN g) (gC g * kH g * kW g) (q / gN g) (q mod gN g) r).
  2:{ unfold ravel2, ravel3. rewrite E1. pose proof (div_mod_eq q (gN g) HNpos) as E. rewrite <- E. reflexivity. }
  rewrite fast_flat by auto. unfold ew6. rewrite unravel6_ravel; try lia; try (rewrite oW_eq by auto; lia).
  rewrite ew_closed by auto. now apply win_of_phi.
Qed.

(* ------------------------------------------------------------------ the three im2col variants agree *)
Lemma im2col_unf_closed v g n r l : valid g -> 0 <= n < gN g -> 0 <= r < nR g -> 0 <= l < nL g ->
  im2col_unf v g (n, r, l) = phi g (n, r, l).
Proof.
  intros. destruct v; cbn [im2col_unf].
  now apply idx_unf_closed. now apply v2_unf_closed. now apply fast_unf_closed.
Qed.
Lemma im2col_2d_closed v g r q : valid g -> 0 <= r < nR g -> 0 <= q < gN g * nL g ->
  im2col_2d v g (r, q) = phi2d g (r, q).
Proof.
  intros. destruct v; cbn [im2col_2d].
  now apply idx_2d_closed. now apply v2_2d_closed. now apply fast_2d_closed.
Qed.

(* ------------------------------------------------------------------ un-padding = reading the padded image backwards *)
Lemma unpad_pos_real L p x : unpad_pos p (L + 2 * p) x = if is_real L p x then Some (x - p) else None.
Proof.
  unfold unpad_pos, is_real. replace (L + 2 * p - p) with (p + L) by ring. reflexivity.
Qed.
Lemma unpad_neg_real L p x : 0 <= p -> 0 <= x < L + 2 * p ->
  unpad_neg p (L + 2 * p) x = if is_real L p x then Some (x - p) else None.
Proof.
  intros Hp Hx. unfold unpad_neg, is_real. replace (L + 2 * p - p) with (p + L) by ring.
  destruct (Z.eqb_spec p 0) as [->|NE]; auto.
  destruct (Z.leb_spec 0 x), (Z.ltb_spec x (0 + L)); try lia; cbn [andb]. f_equal. lia.
Qed.

Lemma unpad_c2i_lookup g n c hp wp : valid g -> 0 <= n < gN g -> 0 <= c < gC g -> 0 <= hp < Hp g -> 0 <= wp < Wp g ->
  unpad_c2i g (n, c, hp, wp) = cell_opt (pad_lookup g (n, c, hp, wp)).
Proof.
  intros Hv Hn Hc Hh Hw. unfold unpad_c2i, unpad_with, pad_lookup. guard_true.
  unfold Hp, Wp. rewrite !unpad_pos_real.
  destruct (is_real (gH g) (pH g) hp), (is_real (gW g) (pW g) wp); reflexivity.
Qed.
Lemma unpad_pw_lookup g n c hp wp : valid g -> 0 <= n < gN g -> 0 <= c < gC g -> 0 <= hp < Hp g -> 0 <= wp < Wp g ->
  unpad_pw g (n, c, hp, wp) = cell_opt (pad_lookup g (n, c, hp, wp)).
Proof.
  intros Hv Hn Hc Hh Hw. unfold unpad_pw, unpad_with, pad_lookup. guard_true.
  unfold Hp, Wp in *. rewrite !unpad_neg_real by (dv Hv; lia).
  destruct (is_real (gH g) (pH g) hp), (is_real (gW g) (pW g) wp); reflexivity.
Qed.

Lemma phi_pad_range g r l : valid g -> 0 <= r < nR g -> 0 <= l < nL g ->
  0 <= ((r / kW g) mod kH g) * dH g + sH g * (l / lW g) < Hp g /\
  0 <= (r mod kW g) * dW g + sW g * (l mod lW g) < Wp g.
Proof.
  intros Hv Hr Hl. pose proof (row_parts g r Hv Hr) as (Hc & Ha & Hb). pose proof (col_parts g l Hv Hl) as (Hi & Hj).
  pose proof (hpos_range g _ _ Hv Hi Ha). pose proof (wpos_range' g _ _ Hv Hj Hb). lia.
Qed.

(* ------------------------------------------------------------------ the contribution lists as sums *)
Definition P2 g := list_prod (zr (lH g)) (zr (lW g)).
Definition P4 g := list_prod (list_prod (list_prod (zr (gN g)) (zr (gC g))) (zr (kH g))) (zr (kW g)).

Section ContribSums.
Context {A : Type} `{ScalarLaws A}.

Lemma isum_zr_R g (f : Z -> A) : valid g ->
  isum (zr (nR g)) f =
  isum (zr (gC g)) (fun c => isum (zr (kH g)) (fun a => isum (zr (kW g)) (fun b => f ((c * kH g + a) * kW g + b)))).
Proof.
  intros Hv. dv Hv. replace (nR g) with ((gC g * kH g) * kW g) by (unfold nR; ring).
  rewrite isum_zr_mul by nia. rewrite isum_zr_mul by lia. reflexivity.
Qed.
Lemma isum_zr_L g (f : Z -> A) : valid g ->
  isum (zr (nL g)) f = isum (zr (lH g)) (fun i => isum (zr (lW g)) (fun j => f (i * lW g + j))).
Proof. intros Hv. dv Hv. unfold nL. apply isum_zr_mul; lia. Qed.

(* sums over the result indices, regrouped by (window) x (batch, channel, kernel offset) *)
Lemma Junf_sum g (G : Z * Z * Z -> A) : valid g ->
  isum (Junf g) G =
  isum (P2 g) (fun ij => isum (P4 g) (fun ncab =>
     let '(i, j) := ij in let '(n, c, a, b) := ncab in G (n, (c * kH g + a) * kW g + b, i * lW g + j))).
Proof.
  intros Hv. rewrite isum_exchange. unfold Junf, P4, P2. rewrite !isum_list_prod.
  apply isum_ext; intros n _. rewrite isum_zr_R by auto.
  apply isum_ext; intros c _. apply isum_ext; intros a _. apply isum_ext; intros b _.
  rewrite isum_zr_L by auto. rewrite isum_list_prod. reflexivity.
Qed.

(* 2-D layout: column q = l*N + n *)
Lemma J2d_sum g (G : Z * Z -> A) : valid g ->
  isum (J2d g) G = isum (Junf g) (fun j => let '(n, r, l) := j in G (r, l * gN g + n)).
Proof.
  intros Hv. unfold J2d, Junf. rewrite !isum_list_prod. rewrite (isum_exchange (zr (gN g)) (zr (nR g))).
  apply isum_ext; intros r _. rewrite (isum_exchange (zr (gN g)) (zr (nL g))).
  replace (gN g * nL g) with (nL g * gN g) by ring.
  pose proof (nL_pos g Hv). dv Hv. rewrite isum_zr_mul by lia. reflexivity.
Qed.

(* col2im: np.add.at over the broadcast index arrays *)
Lemma idx_sum g (F : Z * Z * Z -> option pos -> A) : valid g ->
  isum (idx_contribs_unf g) (fun jt => F (fst jt) (snd jt)) = isum (Junf g) (fun j => F j (phi_opt g j)).
Proof.
  intros Hv. unfold idx_contribs_unf, Junf.
  rewrite idx_rows_len, idx_cols_len, idx_rows_eq, idx_cols_eq, !combine_map_r by auto.
  rewrite isum_flat_map, !isum_list_prod.
  apply isum_ext; intros n Hn. apply in_zr in Hn.
  rewrite isum_flat_map, isum_map. apply isum_ext; intros r Hr. apply in_zr in Hr.
  unfold rowf. cbv beta iota zeta. rewrite !isum_map.
  apply isum_ext; intros l Hl. apply in_zr in Hl.
  unfold colf. cbv beta iota zeta. cbn [fst snd].
  destruct (phi_pad_range g r l Hv Hr Hl) as (Bh & Bw). pose proof (row_parts g r Hv Hr) as (Hc & _ & _).
  rewrite unpad_c2i_lookup by auto. reflexivity.
Qed.

Lemma v2_src_closed g i j n c a b : valid g ->
  0 <= i < lH g -> 0 <= j < lW g -> 0 <= c < gC g -> 0 <= a < kH g -> 0 <= b < kW g ->
  unravel3 (nR g) (nL g) (ravel4 (gC g) (nK g) (nL g) n c (ravel2 (kW g) a b) (i * lW g + j)) =
  (n, (c * kH g + a) * kW g + b, i * lW g + j).
Proof.
  intros Hv Hi Hj Hc Ha Hb.
  replace (ravel4 (gC g) (nK g) (nL g) n c (ravel2 (kW g) a b) (i * lW g + j))
    with (ravel3 (nR g) (nL g) n ((c * kH g + a) * kW g + b) (i * lW g + j))
    by (unfold ravel4, ravel3, ravel2, nR, nK; ring).
  apply unravel3_ravel.
  - pose proof (mul_lt_bound c (kH g) a (gC g) Hc Ha) as B1.
    pose proof (mul_lt_bound _ (kW g) b _ B1 Hb) as B2. unfold nR. lia.
  - pose proof (mul_lt_bound i (lW g) j (lH g) Hi Hj). unfold nL. lia.
Qed.

(* col2im_v2: the loop over windows, slices and reshapes *)
Lemma v2_sum g (F : Z * Z * Z -> option pos -> A) : valid g ->
  isum (v2_contribs_unf g) (fun jt => F (fst jt) (snd jt)) =
  isum (P2 g) (fun ij => isum (P4 g) (fun ncab =>
     let '(i, j) := ij in let '(n, c, a, b) := ncab in
     F (n, (c * kH g + a) * kW g + b, i * lW g + j) (phi_win_opt g (i, j, n, c, a, b)))).
Proof.
  intros Hv. unfold v2_contribs_unf, loop_pairs, P2. rewrite isum_flat_map.
  apply isum_ext; intros [i j] Hij. apply in_prod_iff in Hij. destruct Hij as (Hi & Hj).
  apply in_zr in Hi. apply in_zr in Hj.
  rewrite v2_hs_closed, v2_ws_closed by auto.
  rewrite !zlen_map, !zlen_zr by (dv Hv; lia). rewrite Z.eqb_refl. rewrite !combine_map_r.
  unfold P4. rewrite !isum_list_prod. rewrite isum_flat_map.
  apply isum_ext; intros n Hn. apply in_zr in Hn. rewrite isum_flat_map.
  apply isum_ext; intros c Hc. apply in_zr in Hc. rewrite isum_flat_map, isum_map.
  apply isum_ext; intros a Ha. apply in_zr in Ha. cbv beta iota zeta. rewrite !isum_map.
  apply isum_ext; intros b Hb. apply in_zr in Hb. cbv beta iota zeta.
  rewrite v2_src_closed by auto. cbn [fst snd].
  pose proof (hpos_range g i a Hv Hi Ha). pose proof (wpos_range' g j b Hv Hj Hb).
  rewrite unpad_c2i_lookup by auto. reflexivity.
Qed.

(* place_windows *)
Lemma pw_sum g (F : Z * Z * Z * Z * Z * Z -> option pos -> A) : valid g ->
  isum (pw_contribs g) (fun wt => F (fst wt) (snd wt)) =
  isum (P2 g) (fun ij => isum (P4 g) (fun ncab =>
     let '(i, j) := ij in let '(n, c, a, b) := ncab in
     F (i, j, n, c, a, b) (phi_win_opt g (i, j, n, c, a, b)))).
Proof.
  intros Hv. unfold pw_contribs, P2. rewrite isum_flat_map.
  apply isum_ext; intros [i j] Hij. apply in_prod_iff in Hij. destruct Hij as (Hi & Hj).
  apply in_zr in Hi. apply in_zr in Hj.
  pose proof (fitsH g i Hv Hi) as FH. pose proof (fitsW g j Hv Hj) as FW.
  assert (EH : slice_idx (i * sH g) (i * sH g + kH g * dH g) (dH g) (Hp g) = map (fun a => i * sH g + a * dH g) (zr (kH g))).
  { dv Hv. apply slice_idx_fit; auto. lia. nia. }
  assert (EW : slice_idx (j * sW g) (j * sW g + kW g * dW g) (dW g) (Wp g) = map (fun b => j * sW g + b * dW g) (zr (kW g))).
  { dv Hv. apply slice_idx_fit; auto. lia. nia. }
  rewrite EH, EW. rewrite !zlen_map, !zlen_zr by (dv Hv; lia). rewrite !Z.eqb_refl. cbn [andb]. rewrite !combine_map_r.
  unfold P4. rewrite !isum_list_prod. rewrite isum_flat_map.
  apply isum_ext; intros n Hn. apply in_zr in Hn. rewrite isum_flat_map.
  apply isum_ext; intros c Hc. apply in_zr in Hc. rewrite isum_flat_map, isum_map.
  apply isum_ext; intros a Ha. apply in_zr in Ha. cbv beta iota zeta. rewrite !isum_map.
  apply isum_ext; intros b Hb. apply in_zr in Hb. cbv beta iota zeta. cbn [fst snd].
  pose proof (hpos_range g i a Hv Hi Ha). pose proof (wpos_range' g j b Hv Hj Hb).
  rewrite unpad_pw_lookup by auto. reflexivity.
Qed.

(* the same, over the window index set in ravel() order *)
Lemma pw_sum_Jwin g (F : Z * Z * Z * Z * Z * Z -> option pos -> A) : valid g ->
  isum (pw_contribs g) (fun wt => F (fst wt) (snd wt)) = isum (Jwin g) (fun w => F w (phi_win_opt g w)).
Proof.
  intros Hv. rewrite pw_sum by auto. unfold Jwin, P2. rewrite !isum_list_prod.
  apply isum_ext; intros i _. apply isum_ext; intros j _. unfold P4. rewrite !isum_list_prod. reflexivity.
Qed.

Lemma fast_src_unf_closed g i j n c a b : valid g ->
  0 <= i < lH g -> 0 <= j < lW g -> 0 <= n < gN g -> 0 <= c < gC g -> 0 <= a < kH g -> 0 <= b < kW g ->
  fast_src_unf g (i, j, n, c, a, b) = (n, (c * kH g + a) * kW g + b, i * lW g + j).
Proof.
  intros Hv Hi Hj Hn Hc Ha Hb. unfold fast_src_unf.
  replace (ravel6 (lW g) (gN g) (gC g) (kH g) (kW g) i j n c a b)
    with (ravel3 (gN g) (nR g) (i * lW g + j) n ((c * kH g + a) * kW g + b))
    by (unfold ravel6, ravel3, nR; ring).
  rewrite unravel3_ravel; auto.
  pose proof (mul_lt_bound c (kH g) a (gC g) Hc Ha) as B1.
  pose proof (mul_lt_bound _ (kW g) b _ B1 Hb) as B2. unfold nR. lia.
Qed.
Lemma fast_src_2d_closed g i j n c a b : valid g ->
  0 <= i < lH g -> 0 <= j < lW g -> 0 <= n < gN g -> 0 <= c < gC g -> 0 <= a < kH g -> 0 <= b < kW g ->
  fast_src_2d g (i, j, n, c, a, b) = ((c * kH g + a) * kW g + b, (i * lW g + j) * gN g + n).
Proof.
  intros Hv Hi Hj Hn Hc Ha Hb. unfold fast_src_2d.
  replace (ravel6 (lW g) (gN g) (gC g) (kH g) (kW g) i j n c a b)
    with (ravel2 (nR g) ((i * lW g + j) * gN g + n) ((c * kH g + a) * kW g + b))
    by (unfold ravel6, ravel2, nR; ring).
  rewrite unravel2_ravel; auto.
  pose proof (mul_lt_bound c (kH g) a (gC g) Hc Ha) as B1.
  pose proof (mul_lt_bound _ (kW g) b _ B1 Hb) as B2. unfold nR. lia.
Qed.

Lemma src2d_closed g n r l : valid g -> 0 <= n < gN g -> 0 <= l < nL g -> src2d g (n, r, l) = (r, l * gN g + n).
Proof.
  intros Hv Hn Hl. unfold src2d.
  replace (ravel3 (nL g) (gN g) r l n) with (ravel2 (nL g * gN g) r (l * gN g + n)) by (unfold ravel3, ravel2; ring).
  apply unravel2_ravel. pose proof (mul_lt_bound l (gN g) n (nL g) Hl Hn). lia.
Qed.

Lemma phi2d_of_unf g n r l : valid g -> 0 <= n < gN g -> phi2d g (r, l * gN g + n) = phi g (n, r, l).
Proof.
  intros Hv Hn. unfold phi2d.
  destruct (divmod_unique (l * gN g + n) (gN g) l n Hn eq_refl) as (-> & ->). reflexivity.
Qed.

(* in range, every contribution list is the scatter of phi: entry j is added once, at phi j *)
Lemma in_P2 g i j : In (i, j) (P2 g) -> 0 <= i < lH g /\ 0 <= j < lW g.
Proof. unfold P2. intros Hin. apply in_prod_iff in Hin. destruct Hin as (Hi & Hj). apply in_zr in Hi. apply in_zr in Hj. auto. Qed.
Lemma in_P4 g n c a b : In (n, c, a, b) (P4 g) -> 0 <= n < gN g /\ 0 <= c < gC g /\ 0 <= a < kH g /\ 0 <= b < kW g.
Proof.
  unfold P4. intros Hin. apply in_prod_iff in Hin. destruct Hin as (Hin & Hb).
  apply in_prod_iff in Hin. destruct Hin as (Hin & Ha). apply in_prod_iff in Hin. destruct Hin as (Hn & Hc).
  apply in_zr in Hn. apply in_zr in Hc. apply in_zr in Ha. apply in_zr in Hb. auto.
Qed.

Lemma contribs_unf_sum v g (F : Z * Z * Z -> option pos -> A) : valid g ->
  isum (col2im_unf v g) (fun jt => F (fst jt) (snd jt)) = isum (Junf g) (fun j => F j (phi_opt g j)).
Proof.
  intros Hv. destruct v; cbn [col2im_unf].
  - now apply idx_sum.
  - rewrite v2_sum by auto. rewrite (Junf_sum g (fun j => F j (phi_opt g j))) by auto.
    apply isum_ext; intros [i j] Hij. apply in_P2 in Hij. destruct Hij as (Hi & Hj).
    apply isum_ext; intros [[[n c] a] b] Hq. apply in_P4 in Hq. destruct Hq as (Hn & Hc & Ha & Hb).
    unfold phi_opt, phi_win_opt. rewrite phi_of_win by (auto; lia). reflexivity.
  - unfold fast_contribs_unf. rewrite isum_map. cbn [fst snd].
    rewrite (pw_sum g (fun w t => F (fast_src_unf g w) t)) by auto.
    rewrite (Junf_sum g (fun j => F j (phi_opt g j))) by auto.
    apply isum_ext; intros [i j] Hij. apply in_P2 in Hij. destruct Hij as (Hi & Hj).
    apply isum_ext; intros [[[n c] a] b] Hq. apply in_P4 in Hq. destruct Hq as (Hn & Hc & Ha & Hb).
    rewrite fast_src_unf_closed by auto.
    unfold phi_opt, phi_win_opt. rewrite phi_of_win by (auto; lia). reflexivity.
Qed.

Lemma in_Junf g n r l : In (n, r, l) (Junf g) -> 0 <= n < gN g /\ 0 <= r < nR g /\ 0 <= l < nL g.
Proof.
  unfold Junf. intros Hin. apply in_prod_iff in Hin. destruct Hin as (Hin & Hl).
  apply in_prod_iff in Hin. destruct Hin as (Hn & Hr).
  apply in_zr in Hn. apply in_zr in Hr. apply in_zr in Hl. auto.
Qed.

Lemma contribs_2d_sum v g (F : Z * Z -> option pos -> A) : valid g ->
  isum (col2im_2d v g) (fun jt => F (fst jt) (snd jt)) =
  isum (Junf g) (fun j => let '(n, r, l) := j in F (r, l * gN g + n) (phi_opt g j)).
Proof.
  intros Hv.
  assert (Hmap : forall contribs,
    isum contribs (fun jt => F (src2d g (fst jt)) (snd jt)) = isum (Junf g) (fun j => F (src2d g j) (phi_opt g j)) ->
    isum (map (fun jt => (src2d g (fst jt), snd jt)) contribs) (fun jt => F (fst jt) (snd jt)) =
    isum (Junf g) (fun j => let '(n, r, l) := j in F (r, l * gN g + n) (phi_opt g j))).
  { intros contribs E. rewrite isum_map. cbn [fst snd]. rewrite E.
    apply isum_ext; intros [[n r] l] Hin. apply in_Junf in Hin. destruct Hin as (Hn & Hr & Hl).
    rewrite src2d_closed by auto. reflexivity. }
  destruct v; cbn [col2im_2d].
  - apply Hmap. apply (contribs_unf_sum VIdx g (fun j t => F (src2d g j) t) Hv).
  - apply Hmap. apply (contribs_unf_sum VLoop g (fun j t => F (src2d g j) t) Hv).
  - unfold fast_contribs_2d. rewrite isum_map. cbn [fst snd].
    rewrite (pw_sum g (fun w t => F (fast_src_2d g w) t)) by auto.
    rewrite (Junf_sum g (fun j => let '(n, r, l) := j in F (r, l * gN g + n) (phi_opt g j))) by auto.
    apply isum_ext; intros [i j] Hij. apply in_P2 in Hij. destruct Hij as (Hi & Hj).
    apply isum_ext; intros [[[n c] a] b] Hq. apply in_P4 in Hq. destruct Hq as (Hn & Hc & Ha & Hb).
    rewrite fast_src_2d_closed by auto.
    unfold phi_opt, phi_win_opt. rewrite phi_of_win by (auto; lia). reflexivity.
Qed.
End ContribSums.

(* ------------------------------------------------------------------ index sets *)
Lemma pos_eqb_spec (a b : pos) : pos_eqb a b = true <-> a = b.
Proof.
  destruct a as [[[n c] h] w], b as [[[n' c'] h'] w']. unfold pos_eqb.
  rewrite !andb_true_iff, !Z.eqb_eq. split.
  - intros (((-> & ->) & ->) & ->). reflexivity.
  - intros E. inversion E. auto.
Qed.

Lemma NoDup_list_prod {X Y} (l : list X) (l' : list Y) : NoDup l -> NoDup l' -> NoDup (list_prod l l').
Proof.
  intros N1 N2. induction N1 as [|a l Hnotin N1 IH]; simpl. constructor.
  apply NoDup_app'; auto.
  - apply NoDup_map_inj; auto. intros x y E. now inversion E.
  - intros [x y] Hin Hc. apply in_map_iff in Hin. destruct Hin as (y' & E & _). inversion E; subst.
    apply in_prod_iff in Hc. destruct Hc. contradiction.
Qed.

Lemma NoDup_Ipos g : NoDup (Ipos g).
Proof. unfold Ipos. repeat apply NoDup_list_prod; apply NoDup_zr. Qed.
Lemma NoDup_Junf g : NoDup (Junf g).
Proof. unfold Junf. repeat apply NoDup_list_prod; apply NoDup_zr. Qed.
Lemma NoDup_J2d g : NoDup (J2d g).
Proof. unfold J2d. repeat apply NoDup_list_prod; apply NoDup_zr. Qed.

Lemma in_Ipos g n c h w : In (n, c, h, w) (Ipos g) <-> 0 <= n < gN g /\ 0 <= c < gC g /\ 0 <= h < gH g /\ 0 <= w < gW g.
Proof. unfold Ipos. rewrite !in_prod_iff, !in_zr. tauto. Qed.
Lemma in_J2d g r q : In (r, q) (J2d g) <-> 0 <= r < nR g /\ 0 <= q < gN g * nL g.
Proof. unfold J2d. rewrite !in_prod_iff, !in_zr. tauto. Qed.

(* what pad_lookup returns *)
Lemma pad_lookup_At g q i : pad_lookup g q = At i -> In i (Ipos g).
Proof.
  destruct q as [[[n c] hp] wp]. unfold pad_lookup, is_real.
  match goal with |- (if ?b then _ else _) = _ -> _ => destruct b eqn:G1; [|discriminate] end.
  match goal with |- (if ?b then _ else _) = _ -> _ => destruct b eqn:G2; [|discriminate] end.
  intros E. inversion E; subst. apply in_Ipos.
  rewrite !andb_true_iff, !Z.leb_le, !Z.ltb_lt in G1, G2. lia.
Qed.
Lemma pad_lookup_cases g n c hp wp : 0 <= n < gN g -> 0 <= c < gC g -> 0 <= hp < Hp g -> 0 <= wp < Wp g ->
  pad_lookup g (n, c, hp, wp) =
  if is_real (gH g) (pH g) hp && is_real (gW g) (pW g) wp then At (n, c, hp - pH g, wp - pW g) else PadV.
Proof. intros. unfold pad_lookup. guard_true. reflexivity. Qed.

Lemma phi_opt_into g j i : phi_opt g j = Some i -> In i (Ipos g).
Proof.
  unfold phi_opt, phi. destruct (pad_lookup g (phi_pad g j)) eqn:E; try discriminate.
  cbn [cell_opt]. intros E'. inversion E'; subst. eapply pad_lookup_At; eauto.
Qed.
Lemma phi2d_opt_into g j i : phi2d_opt g j = Some i -> In i (Ipos g).
Proof. destruct j as [r q]. unfold phi2d_opt, phi2d. apply phi_opt_into. Qed.

(* in range phi is total: a pixel or the pad value, never out of bounds, never unwritten *)
Lemma phi_cases g n r l : valid g -> 0 <= n < gN g -> 0 <= r < nR g -> 0 <= l < nL g ->
  phi g (n, r, l) =
  let '(_, c, hp, wp) := phi_pad g (n, r, l) in
  if is_real (gH g) (pH g) hp && is_real (gW g) (pW g) wp then At (n, c, hp - pH g, wp - pW g) else PadV.
Proof.
  intros Hv Hn Hr Hl. unfold phi, phi_pad.
  destruct (phi_pad_range g r l Hv Hr Hl) as (Bh & Bw). pose proof (row_parts g r Hv Hr) as (Hc & _ & _).
  now apply pad_lookup_cases.
Qed.

(* ------------------------------------------------------------------ main theorems *)
Section Main.
Context {A : Type} `{ScalarLaws A}.

(* im2col(x) of any variant is the gather of phi (pad value pv at the None positions) *)
Lemma im2col_apply_unf v g pv (x : pos -> A) n r l : valid g -> 0 <= n < gN g -> 0 <= r < nR g -> 0 <= l < nL g ->
  im2col_apply (im2col_unf v g) pv x (n, r, l) = match phi_opt g (n, r, l) with Some p => x p | None => pv end.
Proof.
  intros Hv Hn Hr Hl. unfold im2col_apply. rewrite im2col_unf_closed by auto.
  unfold phi_opt. rewrite phi_cases by auto. unfold phi_pad.
  destruct (_ && _); reflexivity.
Qed.
Lemma im2col_apply_2d v g pv (x : pos -> A) r q : valid g -> 0 <= r < nR g -> 0 <= q < gN g * nL g ->
  im2col_apply (im2col_2d v g) pv x (r, q) = match phi2d_opt g (r, q) with Some p => x p | None => pv end.
Proof.
  intros Hv Hr Hq. destruct (q_parts g q Hv Hq) as (Hn & Hl).
  unfold im2col_apply. rewrite im2col_2d_closed by auto.
  unfold phi2d_opt, phi2d. rewrite phi_cases by auto. unfold phi_pad.
  destruct (_ && _); reflexivity.
Qed.

(* col2im(y) of any variant is the scatter of phi *)
Lemma col2im_unf_scatter v g (y : Z * Z * Z -> A) i : valid g ->
  col2im_apply (col2im_unf v g) y i = scatter pos (Z * Z * Z) pos_eqb (Junf g) (phi_opt g) y i.
Proof.
  intros Hv. unfold col2im_apply, scatter.
  apply (contribs_unf_sum v g (fun j t => match t with Some i' => if pos_eqb i' i then y j else s0 | None => s0 end) Hv).
Qed.
Lemma col2im_2d_scatter v g (y : Z * Z -> A) i : valid g ->
  col2im_apply (col2im_2d v g) y i = scatter pos (Z * Z) pos_eqb (J2d g) (phi2d_opt g) y i.
Proof.
  intros Hv. unfold col2im_apply, scatter.
  rewrite (contribs_2d_sum v g (fun j t => match t with Some i' => if pos_eqb i' i then y j else s0 | None => s0 end) Hv).
  rewrite J2d_sum by auto.
  apply isum_ext; intros [[n r] l] Hin. apply in_Junf in Hin. destruct Hin as (Hn & Hr & Hl).
  unfold phi2d_opt. rewrite phi2d_of_unf by auto. reflexivity.
Qed.

(* place_windows agrees with col2im on windows[wi,wj,n,c,a,b] = y[n, (c*kH+a)*kW+b, wi*lW+wj] *)
Definition jwin g (w : Z * Z * Z * Z * Z * Z) : Z * Z * Z :=
  let '(wi, wj, n, c, a, b) := w in (n, (c * kH g + a) * kW g + b, wi * lW g + wj).
Lemma place_windows_scatter g (y : Z * Z * Z -> A) i : valid g ->
  col2im_apply (pw_contribs g) (fun w => y (jwin g w)) i = scatter pos (Z * Z * Z) pos_eqb (Junf g) (phi_opt g) y i.
Proof.
  intros Hv. unfold col2im_apply, scatter.
  rewrite (pw_sum g (fun w t => match t with Some i' => if pos_eqb i' i then y (jwin g w) else s0 | None => s0 end) Hv).
  rewrite Junf_sum by auto.
  apply isum_ext; intros [wi wj] Hij. apply in_P2 in Hij. destruct Hij as (Hi & Hj).
  apply isum_ext; intros [[[n c] a] b] Hq. apply in_P4 in Hq. destruct Hq as (Hn & Hc & Ha & Hb).
  unfold phi_opt, phi_win_opt. rewrite phi_of_win by (auto; lia). reflexivity.
Qed.

(* <im2col x, y> = <x, col2im y> *)
Lemma adjoint_unf v v' g (x : pos -> A) (y : Z * Z * Z -> A) : valid g ->
  dot (Junf g) y (im2col_apply (im2col_unf v g) s0 x) = dot (Ipos g) (col2im_apply (col2im_unf v' g) y) x.
Proof.
  intros Hv.
  transitivity (dot (Junf g) y (gather pos (Z * Z * Z) (phi_opt g) x)).
  { unfold dot. apply isum_ext; intros [[n r] l] Hin. apply in_Junf in Hin. destruct Hin as (Hn & Hr & Hl).
    rewrite im2col_apply_unf by auto. reflexivity. }
  rewrite (gather_scatter_adjoint pos (Z * Z * Z) pos_eqb pos_eqb_spec (Ipos g) (Junf g) (NoDup_Ipos g)).
  - unfold dot. apply isum_ext; intros i _. now rewrite col2im_unf_scatter.
  - intros j i _ E. eapply phi_opt_into; eauto.
Qed.
Lemma adjoint_2d v v' g (x : pos -> A) (y : Z * Z -> A) : valid g ->
  dot (J2d g) y (im2col_apply (im2col_2d v g) s0 x) = dot (Ipos g) (col2im_apply (col2im_2d v' g) y) x.
Proof.
  intros Hv.
  transitivity (dot (J2d g) y (gather pos (Z * Z) (phi2d_opt g) x)).
  { unfold dot. apply isum_ext; intros [r q] Hin. apply in_J2d in Hin. destruct Hin as (Hr & Hq).
    rewrite im2col_apply_2d by auto. reflexivity. }
  rewrite (gather_scatter_adjoint pos (Z * Z) pos_eqb pos_eqb_spec (Ipos g) (J2d g) (NoDup_Ipos g)).
  - unfold dot. apply isum_ext; intros i _. now rewrite col2im_2d_scatter.
  - intros j i _ E. eapply phi2d_opt_into; eauto.
Qed.

(* fold(unfold x) i = x i * #{(window, kernel offset) reading i} *)
Lemma isum_indicator_const {I} (l : list I) (P : I -> bool) (c : A) :
  isum l (fun j => if P j then c else s0) = nsmul (length (filter P l)) c.
Proof.
  induction l as [|a l IH]; simpl. reflexivity.
  unfold isum in *. simpl. rewrite IH. destruct (P a); simpl. reflexivity. apply sadd_0_l.
Qed.

Lemma fold_unfold_unf v v' g (x : pos -> A) i : valid g ->
  col2im_apply (col2im_unf v' g) (im2col_apply (im2col_unf v g) s0 x) i = nsmul (cover g i) (x i).
Proof.
  intros Hv. rewrite col2im_unf_scatter by auto. unfold scatter, cover.
  rewrite <- isum_indicator_const.
  apply isum_ext; intros [[n r] l] Hin. apply in_Junf in Hin. destruct Hin as (Hn & Hr & Hl).
  rewrite im2col_apply_unf by auto. unfold phi_opt.
  destruct (phi g (n, r, l)) as [p| | |]; cbn [cell_opt cell_is]; auto.
  destruct (pos_eqb p i) eqn:E; auto. apply pos_eqb_spec in E. now subst.
Qed.
Lemma fold_unfold_2d v v' g (x : pos -> A) i : valid g ->
  col2im_apply (col2im_2d v' g) (im2col_apply (im2col_2d v g) s0 x) i = nsmul (cover g i) (x i).
Proof.
  intros Hv. rewrite col2im_2d_scatter by auto. unfold scatter, cover.
  rewrite <- isum_indicator_const. rewrite J2d_sum by auto.
  apply isum_ext; intros [[n r] l] Hin. apply in_Junf in Hin. destruct Hin as (Hn & Hr & Hl).
  assert (Hq : 0 <= l * gN g + n < gN g * nL g) by (pose proof (mul_lt_bound l (gN g) n (nL g) Hl Hn); lia).
  rewrite im2col_apply_2d by auto. unfold phi2d_opt. rewrite phi2d_of_unf by auto.
  destruct (phi g (n, r, l)) as [p| | |]; cbn [cell_opt cell_is]; auto.
  destruct (pos_eqb p i) eqn:E; auto. apply pos_eqb_spec in E. now subst.
Qed.
End Main.

(* every argument entry is added exactly once, into the pixel phi names (what one-hot probing reads) *)
Definition j3_eqb (a b : Z * Z * Z) : bool :=
  let '(n, r, l) := a in let '(n', r', l') := b in (n =? n') && (r =? r') && (l =? l').
Lemma j3_eqb_spec a b : j3_eqb a b = true <-> a = b.
Proof.
  destruct a as [[n r] l], b as [[n' r'] l']. unfold j3_eqb. rewrite !andb_true_iff, !Z.eqb_eq. split.
  - intros ((-> & ->) & ->). reflexivity.
  - intros E. inversion E. auto.
Qed.
Lemma col2im_one_hot v g j0 i : valid g -> In j0 (Junf g) ->
  col2im_apply (col2im_unf v g) (fun j => if j3_eqb j0 j then 1 else 0) i =
  match phi_opt g j0 with Some i' => if pos_eqb i' i then 1 else 0 | None => 0 end.
Proof.
  intros Hv Hin. rewrite col2im_unf_scatter by auto. unfold scatter.
  rewrite <- (isum_pick j3_eqb j3_eqb_spec (Junf g) j0
               (fun j => match phi_opt g j with Some i' => if pos_eqb i' i then 1 else 0 | None => 0 end)
               (NoDup_Junf g) Hin).
  apply isum_ext; intros j _. change s0 with 0.
  destruct (phi_opt g j) as [i'|]; destruct (j3_eqb j0 j); auto. destruct (pos_eqb i' i); auto.
Qed.

(* the pad value appears exactly where the padded coordinates of phi_pad leave the image rectangle *)
Lemma pad_exact v g n r l : valid g -> 0 <= n < gN g -> 0 <= r < nR g -> 0 <= l < nL g ->
  let '(_, c, hp, wp) := phi_pad g (n, r, l) in
  (im2col_unf v g (n, r, l) = PadV <-> ~ (pH g <= hp < pH g + gH g /\ pW g <= wp < pW g + gW g)) /\
  (im2col_unf v g (n, r, l) <> PadV -> im2col_unf v g (n, r, l) = At (n, c, hp - pH g, wp - pW g)).
Proof.
  intros Hv Hn Hr Hl. rewrite im2col_unf_closed by auto. rewrite phi_cases by auto. unfold phi_pad, is_real.
  set (hp := (r / kW g) mod kH g * dH g + sH g * (l / lW g)). set (wp := r mod kW g * dW g + sW g * (l mod lW g)).
  destruct (Z.leb_spec (pH g) hp), (Z.ltb_spec hp (pH g + gH g)), (Z.leb_spec (pW g) wp), (Z.ltb_spec wp (pW g + gW g));
    cbn [andb]; split; try (split; [discriminate || (intros; lia) | intros; try congruence; lia]); try (intros; congruence).
Qed.

(* the fibre of a pooling window always has kH*kW entries (padding included) *)
Lemma fibre2_length g wi wj n c : valid g -> zlen (fibre2 g wi wj n c) = kH g * kW g.
Proof. intros Hv. pose proof (nK_pos g Hv). unfold fibre2. rewrite zlen_map, zlen_zr; lia. Qed.
Lemma fibre2_nth g wi wj n c t : valid g ->
  0 <= wi < lH g -> 0 <= wj < lW g -> 0 <= n < gN g -> 0 <= c < gC g -> 0 <= t < kH g * kW g ->
  znth_error (fibre2 g wi wj n c) t = Some (phi_win g (wi, wj, n, c, t / kW g, t mod kW g)).
Proof.
  intros Hv Hwi Hwj Hn Hc Ht. unfold fibre2. rewrite znth_error_map, znth_error_zr by auto. cbn [option_map].
  assert (HkWp : 0 < kW g) by (dv Hv; lia).
  rewrite ew_closed; auto. apply div_bound; auto. apply mod_bound; auto.
Qed.
