(* Proofs about NumPy/ConvPool.v, part 3: geometry and argument normalisation (C06).
   output size, 'same' padding, int-or-tuple arguments, default pooling stride, when max pooling can return -inf. *)
From Coq Require Import List ZArith Lia Bool Arith QArith Qround Qcanon Permutation.
Import ListNotations.
From SG Require Import Base.Sums NumPy.Gather NumPy.Index NumPy.Window NumPy.Im2col NumPy.ConvPool
  Proofs.WindowProofs Proofs.Im2colProofs Proofs.ConvPoolAux Proofs.ConvPoolProofs Proofs.ConvPoolPooling.
Open Scope Z_scope.

(* ------------------------------------------------------------------ output size *)
Theorem out_size_formula_lemma L k s p d : 0 < s ->
  out_size_float L k s p d = (L + 2 * p - d * (k - 1) - 1) / s + 1 /\
  out_size_view (L + 2 * p) k s d = (L + 2 * p - d * (k - 1) - 1) / s + 1 /\
  (0 < d -> forall l j, 0 <= l < (L + 2 * p - d * (k - 1) - 1) / s + 1 -> 0 <= j < k -> 0 <= l * s + j * d < L + 2 * p).
Proof.
  intros Hs. split; [|split].
  - now apply out_size_float_eq.
  - apply out_size_view_eq.
  - intros Hd l j Hl Hj. exact (wpos_range L k s p d l j Hs Hd Hl Hj).
Qed.

(* ------------------------------------------------------------------ 'same' padding *)
Lemma out_size_same L k p d : 2 * p = d * (k - 1) -> out_size L k 1 p d = L.
Proof. intros E. unfold out_size. rewrite Z.div_1_r. lia. Qed.

Lemma even_half t : t mod 2 = 0 -> 2 * (t / 2) = t.
Proof. intros E. pose proof (Z.div_mod t 2). lia. Qed.

Theorem same_padding_2d k s d q : conv2d_ctor k s PSame d = Ok q ->
  g_s q = (1, 1) /\
  2 * fst (g_p q) = fst (g_d q) * (fst (g_k q) - 1) /\ 2 * snd (g_p q) = snd (g_d q) * (snd (g_k q) - 1) /\
  forall N C H W, lH (mk_geom N C H W q) = H /\ lW (mk_geom N C H W q) = W.
Proof.
  unfold conv2d_ctor, bind.
  destruct (bcast2 k) as [[ka kb]|]; [|discriminate]. destruct (bcast2 s) as [[sa sb]|]; [|discriminate].
  destruct (bcast2 d) as [[da db]|]; [|discriminate]. cbn [fst snd].
  destruct (Z.eqb_spec sa 1) as [->|]; [|discriminate]. destruct (Z.eqb_spec sb 1) as [->|]; [|discriminate]. cbn [andb negb].
  destruct (Z.eqb_spec ((da * (ka - 1)) mod 2) 0) as [Ea|]; [|discriminate].
  destruct (Z.eqb_spec ((db * (kb - 1)) mod 2) 0) as [Eb|]; [|discriminate]. cbn [andb negb bcast2].
  intros E. inversion E; subst; clear E. cbn [g_s g_p g_d g_k fst snd].
  pose proof (even_half _ Ea). pose proof (even_half _ Eb).
  repeat split; auto; unfold lH, lW, mk_geom; cbn [gH gW kH kW sH sW pH pW dH dW g_s g_p g_d g_k fst snd];
    rewrite out_size_float_eq by lia; apply out_size_same; auto.
Qed.

(* the constructor rejects exactly the strided and the odd cases *)
Theorem same_padding_2d_rejects k s d ka kb sa sb da db :
  bcast2 k = Ok (ka, kb) -> bcast2 s = Ok (sa, sb) -> bcast2 d = Ok (da, db) ->
  (conv2d_ctor k s PSame d = Raises <->
   (sa <> 1 \/ sb <> 1) \/ (da * (ka - 1)) mod 2 <> 0 \/ (db * (kb - 1)) mod 2 <> 0).
Proof.
  intros Ek Es Ed. unfold conv2d_ctor, bind. rewrite Ek, Es, Ed. cbn [fst snd].
  destruct (Z.eqb_spec sa 1); destruct (Z.eqb_spec sb 1); cbn [andb negb]; try (split; [intros _|reflexivity]; lia).
  destruct (Z.eqb_spec ((da * (ka - 1)) mod 2) 0); destruct (Z.eqb_spec ((db * (kb - 1)) mod 2) 0); cbn [andb negb bcast2];
    try (split; [intros _|reflexivity]; lia).
  split. discriminate. lia.
Qed.

Theorem same_padding_1d k s d q : conv1d_ctor k s P1Same d = Ok q ->
  h_s q = 1 /\ 2 * h_p q = h_d q * (h_k q - 1) /\ forall N C W, l1 (mk_geom1 N C W q) = W.
Proof.
  unfold conv1d_ctor. destruct (Z.eqb_spec s 1) as [->|]; [|discriminate]. cbn [negb].
  destruct (Z.eqb_spec ((d * (k - 1)) mod 2) 0) as [E|]; [|discriminate]. cbn [negb].
  intros E'. inversion E'; subst; clear E'. cbn [h_s h_p h_d h_k]. pose proof (even_half _ E).
  repeat split; auto. intros N C W. unfold l1, mk_geom1. cbn [W1 k1 s1 p1 d1 h_s h_p h_d h_k].
  rewrite out_size_float_eq by lia. now apply out_size_same.
Qed.

Theorem same_padding_1d_rejects k s d : conv1d_ctor k s P1Same d = Raises <-> s <> 1 \/ (d * (k - 1)) mod 2 <> 0.
Proof.
  unfold conv1d_ctor. destruct (Z.eqb_spec s 1); cbn [negb]; [|split; [intros _; lia|reflexivity]].
  destruct (Z.eqb_spec ((d * (k - 1)) mod 2) 0); cbn [negb]. split. discriminate. lia. split; [intros _; lia|reflexivity].
Qed.

Theorem valid_padding_is_zero k s d : conv2d_ctor k s PValid d = conv2d_ctor k s (PNum (AInt 0)) d.
Proof. reflexivity. Qed.

(* ------------------------------------------------------------------ int-or-tuple arguments *)
Theorem bcast2_int n : bcast2 (AInt n) = Ok (n, n) /\ bcast2 (ATup [n]) = Ok (n, n) /\ bcast2 (ATup [n; n]) = Ok (n, n).
Proof. repeat split. Qed.
Theorem bcast2_accepts a : bcast2 a = Raises <-> exists l, a = ATup l /\ length l <> 1%nat /\ length l <> 2%nat.
Proof.
  destruct a as [n|l].
  - split. discriminate. intros (l & E & _). discriminate.
  - split.
    + intros E. exists l. split; auto. destruct l as [|x [|y [|z t]]]; cbn in *; try discriminate; lia.
    + intros (l' & E & L1 & L2). inversion E; subst. destruct l' as [|x [|y [|z t]]]; cbn in *; auto; lia.
Qed.

Definition pad_equiv (p p' : padarg) : Prop :=
  match p, p' with
  | PSame, PSame => True
  | PValid, PValid => True
  | PNum a, PNum a' => bcast2 a = bcast2 a'
  | PValid, PNum a | PNum a, PValid => bcast2 a = Ok (0, 0)
  | _, _ => False
  end.

(* every constructor looks at its geometry arguments only through np.broadcast_to(., 2) *)
Theorem conv2d_ctor_normalises k k' s s' p p' d d' :
  bcast2 k = bcast2 k' -> bcast2 s = bcast2 s' -> bcast2 d = bcast2 d' -> pad_equiv p p' ->
  conv2d_ctor k s p d = conv2d_ctor k' s' p' d'.
Proof.
  intros Ek Es Ed Ep. unfold conv2d_ctor. rewrite Ek, Es, Ed.
  destruct (bcast2 k') as [kk|]; cbn [bind]; auto. destruct (bcast2 s') as [ss|]; cbn [bind]; auto.
  destruct (bcast2 d') as [dd|]; cbn [bind]; auto.
  destruct p, p'; cbn in Ep; try contradiction; cbn [bind]; auto; try (rewrite Ep; reflexivity).
Qed.

Theorem pool2d_ctor_normalises k k' s s' p p' d d' :
  bcast2 k = bcast2 k' -> match s, s' with None, None => True | Some a, Some a' => bcast2 a = bcast2 a' | _, _ => False end ->
  bcast2 p = bcast2 p' -> bcast2 d = bcast2 d' -> pool2d_ctor k s p d = pool2d_ctor k' s' p' d'.
Proof.
  intros Ek Es Ep Ed. unfold pool2d_ctor. rewrite Ek, Ep, Ed.
  destruct s, s'; try contradiction; try rewrite Es; reflexivity.
Qed.

Theorem unfold_ctor_normalises k k' s s' p p' d d' :
  bcast2 k = bcast2 k' -> bcast2 s = bcast2 s' -> bcast2 p = bcast2 p' -> bcast2 d = bcast2 d' ->
  unfold_ctor k s p d = unfold_ctor k' s' p' d'.
Proof. intros Ek Es Ep Ed. unfold unfold_ctor. now rewrite Ek, Es, Ep, Ed. Qed.

(* default stride of the pools = kernel size *)
Theorem pool2d_default_stride k p d : pool2d_ctor k None p d = pool2d_ctor k (Some k) p d.
Proof. unfold pool2d_ctor. destruct (bcast2 k); reflexivity. Qed.
Theorem pool1d_default_stride k p d : pool1d_ctor k None p d = pool1d_ctor k (Some k) p d.
Proof. reflexivity. Qed.

(* ------------------------------------------------------------------ when does a pooling window contain a real position? *)
Lemma phi_win_opt_real g wi wj n c a b : valid g ->
  0 <= wi < lH g -> 0 <= wj < lW g -> 0 <= n < gN g -> 0 <= c < gC g -> 0 <= a < kH g -> 0 <= b < kW g ->
  (phi_win_opt g (wi, wj, n, c, a, b) = None <->
   is_real (gH g) (pH g) (wi * sH g + a * dH g) && is_real (gW g) (pW g) (wj * sW g + b * dW g) = false).
Proof.
  intros. unfold phi_win_opt. rewrite phi_win_cases by auto. destruct (_ && _); cbn; split; congruence.
Qed.

Theorem maxpool2d_padding_never_wins g (x : pos -> Z) n c wi wj : valid g ->
  0 <= n < gN g -> 0 <= c < gC g -> 0 <= wi < lH g -> 0 <= wj < lW g ->
  pH g <= (kH g - 1) * dH g -> dH g <= gH g -> pW g <= (kW g - 1) * dW g -> dW g <= gW g ->
  exists i, In i (Ipos g) /\ sel2 g x (n, c, wi, wj) = Some i /\ maxpool2d_fwd g x (n, c, wi, wj) = Fin (x i) /\
    forall a b i', 0 <= a < kH g -> 0 <= b < kW g -> phi_win_opt g (wi, wj, n, c, a, b) = Some i' -> x i' <= x i.
Proof.
  intros Hv Hn Hc Hwi Hwj GpH GdH GpW GdW. pose proof Hv as Hv'. dv Hv'.
  assert (Hwi' : 0 <= wi < out_size (gH g) (kH g) (sH g) (pH g) (dH g)) by (rewrite <- lH_eq; auto).
  assert (Hwj' : 0 <= wj < out_size (gW g) (kW g) (sW g) (pW g) (dW g)) by (rewrite <- lW_eq; auto).
  destruct (window_has_real (gH g) (kH g) (sH g) (pH g) (dH g) wi HsH HdH HkH HpH GdH GpH Hwi') as (a & Ha & Ra).
  destruct (window_has_real (gW g) (kW g) (sW g) (pW g) (dW g) wj HsW HdW HkW HpW GdW GpW Hwj') as (b & Hb & Rb).
  unfold wpos in Ra, Rb.
  destruct (maxpool2d_selects g x n c wi wj Hv Hn Hc Hwi Hwj) as (i & Es & Ev & Emax).
  { exists a, b. unfold phi_win_opt. rewrite phi_win_cases by auto. rewrite Ra, Rb. cbn. eauto. }
  exists i. repeat split; auto. eapply sel2_into; eauto.
Qed.

Theorem maxpool1d_padding_never_wins g (x : pos1 -> Z) n c wj : valid1 g ->
  0 <= n < N1 g -> 0 <= c < C1 g -> 0 <= wj < l1 g -> p1 g <= (k1 g - 1) * d1 g -> d1 g <= W1 g ->
  exists i, In i (Ipos1 g) /\ sel1 g x (n, c, wj) = Some i /\ maxpool1d_fwd g x (n, c, wj) = Fin (x i) /\
    forall b i', 0 <= b < k1 g -> phi1_opt g (wj, n, c, b) = Some i' -> x i' <= x i.
Proof.
  intros Hv Hn Hc Hwj Gp Gd. pose proof Hv as Hv'. dv1 Hv'.
  assert (Hwj' : 0 <= wj < out_size (W1 g) (k1 g) (s1 g) (p1 g) (d1 g)) by (rewrite <- l1_eq; auto).
  destruct (window_has_real (W1 g) (k1 g) (s1 g) (p1 g) (d1 g) wj Hs Hd Hk Hp Gd Gp Hwj') as (b & Hb & Rb).
  unfold wpos in Rb.
  destruct (maxpool1d_selects g x n c wj Hv Hn Hc Hwj) as (i & Es & Ev & Emax).
  { exists b. unfold phi1_opt. rewrite phi1_cases by auto. rewrite Rb. cbn. eauto. }
  exists i. repeat split; auto. rewrite sel1_phi in Es. eapply phi1_opt_into; eauto.
  apply in_Jwin1. pose proof (amax1_range g n c wj Hv Hn Hc Hwj x). lia.
Qed.

(* the code accepts paddings PyTorch rejects (p > k/2): with more padding than the dilated kernel span the first window lies in
   the padding entirely and max pooling returns -inf there *)
Theorem maxpool2d_padding_can_win_H g (x : pos -> Z) n c wj : valid g ->
  0 <= n < gN g -> 0 <= c < gC g -> 0 <= wj < lW g -> (kH g - 1) * dH g < pH g ->
  maxpool2d_fwd g x (n, c, 0, wj) = NegInf.
Proof.
  intros Hv Hn Hc Hwj Gp. pose proof Hv as Hv'. dv Hv'.
  apply (maxpool2d_all_padding g x n c 0 wj); auto. lia.
  intros a b Ha Hb. apply phi_win_opt_real; auto. lia.
  pose proof (first_window_all_padding (gH g) (kH g) (sH g) (pH g) (dH g) a HdH Gp Ha) as E. unfold wpos in E. now rewrite E.
Qed.
Theorem maxpool2d_padding_can_win_W g (x : pos -> Z) n c wi : valid g ->
  0 <= n < gN g -> 0 <= c < gC g -> 0 <= wi < lH g -> (kW g - 1) * dW g < pW g ->
  maxpool2d_fwd g x (n, c, wi, 0) = NegInf.
Proof.
  intros Hv Hn Hc Hwi Gp. pose proof Hv as Hv'. dv Hv'.
  apply (maxpool2d_all_padding g x n c wi 0); auto. lia.
  intros a b Ha Hb. apply phi_win_opt_real; auto. lia.
  pose proof (first_window_all_padding (gW g) (kW g) (sW g) (pW g) (dW g) b HdW Gp Hb) as E. unfold wpos in E. rewrite E.
  apply andb_false_r.
Qed.
Theorem maxpool1d_padding_can_win g (x : pos1 -> Z) n c : valid1 g ->
  0 <= n < N1 g -> 0 <= c < C1 g -> (k1 g - 1) * d1 g < p1 g -> maxpool1d_fwd g x (n, c, 0) = NegInf.
Proof.
  intros Hv Hn Hc Gp. pose proof Hv as Hv'. dv1 Hv'.
  apply (maxpool1d_all_padding g x n c 0); auto. lia.
  intros b Hb. unfold phi1_opt. rewrite phi1_cases by (auto; lia).
  pose proof (first_window_all_padding (W1 g) (k1 g) (s1 g) (p1 g) (d1 g) b Hd Gp Hb) as E. unfold wpos in E. now rewrite E.
Qed.

(* exactly: the result is -inf iff no kernel offset of the window hits a real row and a real column *)
Theorem maxpool2d_neginf_geometry g (x : pos -> Z) n c wi wj : valid g ->
  0 <= n < gN g -> 0 <= c < gC g -> 0 <= wi < lH g -> 0 <= wj < lW g ->
  (maxpool2d_fwd g x (n, c, wi, wj) = NegInf <->
   forall a b, 0 <= a < kH g -> 0 <= b < kW g ->
     is_real (gH g) (pH g) (wi * sH g + a * dH g) && is_real (gW g) (pW g) (wj * sW g + b * dW g) = false).
Proof.
  intros Hv Hn Hc Hwi Hwj. rewrite (maxpool2d_neginf_iff g x n c wi wj Hv Hn Hc Hwi Hwj).
  split; intros Hall a b Ha Hb; specialize (Hall a b Ha Hb); now apply (phi_win_opt_real g wi wj n c a b Hv).
Qed.

(* ------------------------------------------------------------------ F.fold accepts exactly the arguments of consistent shape *)
Theorem fold_accepts_iff N R L H W q : 0 < fst (g_k q) -> 0 < snd (g_k q) ->
  (fold_accepts N R L H W q = true <->
   exists C, R = C * fst (g_k q) * snd (g_k q) /\
             1 <= lH (mk_geom N C H W q) /\ 1 <= lW (mk_geom N C H W q) /\ L = lH (mk_geom N C H W q) * lW (mk_geom N C H W q)).
Proof.
  intros Hk1 Hk2. unfold fold_accepts, fold_geom.
  rewrite !andb_true_iff, !Z.leb_le, !Z.eqb_eq. cbn [gC kH kW mk_geom].
  change (lH (mk_geom N (R / (fst (g_k q) * snd (g_k q))) H W q)) with (lH (mk_geom N 0 H W q)).
  change (lW (mk_geom N (R / (fst (g_k q) * snd (g_k q))) H W q)) with (lW (mk_geom N 0 H W q)).
  split.
  - intros (((H1 & H2) & H3) & H4). exists (R / (fst (g_k q) * snd (g_k q))).
    change (lH (mk_geom N (R / (fst (g_k q) * snd (g_k q))) H W q)) with (lH (mk_geom N 0 H W q)).
    change (lW (mk_geom N (R / (fst (g_k q) * snd (g_k q))) H W q)) with (lW (mk_geom N 0 H W q)). auto.
  - intros (C & ER & H1 & H2 & H4).
    change (lH (mk_geom N C H W q)) with (lH (mk_geom N 0 H W q)) in *.
    change (lW (mk_geom N C H W q)) with (lW (mk_geom N 0 H W q)) in *.
    assert (EC : R / (fst (g_k q) * snd (g_k q)) = C).
    { rewrite ER, <- Z.mul_assoc. apply Z.div_mul. nia. }
    rewrite EC. repeat split; auto.
Qed.

(* when F.fold accepts (and strides, dilations are positive, paddings non-negative) the geometry is valid, so fold_sums_overlaps
   describes the result *)
Theorem fold_accepts_valid N R L H W q : 0 <= N -> 0 <= R -> 0 <= H -> 0 <= W ->
  0 < fst (g_k q) -> 0 < snd (g_k q) -> 0 < fst (g_s q) -> 0 < snd (g_s q) -> 0 <= fst (g_p q) -> 0 <= snd (g_p q) ->
  0 < fst (g_d q) -> 0 < snd (g_d q) ->
  fold_accepts N R L H W q = true -> valid (fold_geom N R L H W q).
Proof.
  intros HN HR HH HW Hk1 Hk2 Hs1 Hs2 Hp1 Hp2 Hd1 Hd2. unfold fold_accepts.
  rewrite !andb_true_iff, !Z.leb_le. intros (((H1 & H2) & _) & _).
  unfold valid, fold_geom in *. cbn [gN gC gH gW kH kW sH sW pH pW dH dW mk_geom] in *.
  repeat split; auto; try lia. apply Z.div_pos; nia.
Qed.
