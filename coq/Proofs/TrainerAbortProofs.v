(* Proofs about State/Trainer.v (property C20): exceptions.  Whatever event of fit / test raises (a bad batch, the
   loss, a metric, a callback, KeyboardInterrupt), unwinding the `with no_grad():` block that is open at that point
   leaves the gradient mode and the saved-mode stack as they were when fit / test was called. *)
From Coq Require Import List Bool Arith Lia.
Import ListNotations.
From SG Require Import State.Trainer Proofs.TrainerProofs.

Definition gfree (e : ev) : bool := match e with NoGradEnter | NoGradExit => false | _ => true end.

Definition gbase (g0 : bool) (sv : list bool) (m : mst) : Prop :=
  mdepth m = 0 /\ mgrad m = g0 /\ msaved m = sv.
Definition ginv (g0 : bool) (sv : list bool) (m : mst) : Prop :=
  gbase g0 sv m \/ (mdepth m = 1 /\ msaved m = g0 :: sv).

Lemma mrun_app m a b : mrun m (a ++ b) = mrun (mrun m a) b.
Proof. unfold mrun. apply fold_left_app. Qed.

Lemma mrun_gfree t : forallb gfree t = true -> forall m,
  mdepth (mrun m t) = mdepth m /\ mgrad (mrun m t) = mgrad m /\ msaved (mrun m t) = msaved m.
Proof.
  induction t as [|e t IH]; intros H m; [auto|]. cbn in H. apply andb_true_iff in H. destruct H as [He H].
  cbn [mrun fold_left]. fold (mrun (mstep m e) t). destruct (IH H (mstep m e)) as (A & B & C).
  rewrite A, B, C. destruct e; cbn in He; try discriminate; cbn; auto.
Qed.

(* a segment that starts and ends outside every block and keeps the invariant at every prefix *)
Definition seg_ok (g0 : bool) (sv : list bool) (t : list ev) : Prop :=
  forall m, gbase g0 sv m ->
    (forall pre post, t = pre ++ post -> ginv g0 sv (mrun m pre)) /\ gbase g0 sv (mrun m t).

Lemma seg_ok_app g0 sv a b : seg_ok g0 sv a -> seg_ok g0 sv b -> seg_ok g0 sv (a ++ b).
Proof.
  intros Ha Hb m Hm. destruct (Ha m Hm) as [Pa Ba]. destruct (Hb _ Ba) as [Pb Bb]. split.
  - intros pre post E. destruct (app_eq_app _ _ _ _ E) as [l [[E1 E2]|[E1 E2]]].
    + apply (Pa pre l). exact E1.
    + subst pre. rewrite mrun_app. apply (Pb l post). exact E2.
  - rewrite mrun_app. exact Bb.
Qed.

Lemma seg_ok_nil g0 sv : seg_ok g0 sv [].
Proof.
  intros m Hm. split; [|exact Hm]. intros pre post E. destruct pre; [left; exact Hm|discriminate].
Qed.

Lemma seg_ok_flat_map {A} g0 sv (f : A -> list ev) l : (forall x, seg_ok g0 sv (f x)) -> seg_ok g0 sv (flat_map f l).
Proof. intro H. induction l as [|x l IH]; cbn; [apply seg_ok_nil|apply seg_ok_app; auto]. Qed.

Lemma gfree_prefix pre post : forallb gfree (pre ++ post) = true -> forallb gfree pre = true.
Proof. rewrite forallb_app. intro H. apply andb_true_iff in H. tauto. Qed.

Lemma seg_ok_gfree g0 sv t : forallb gfree t = true -> seg_ok g0 sv t.
Proof.
  intros H m (D & G & S). split.
  - intros pre post E. subst t. destruct (mrun_gfree pre (gfree_prefix _ _ H) m) as (A & B & C).
    left. unfold gbase. rewrite A, B, C. auto.
  - destruct (mrun_gfree t H m) as (A & B & C). unfold gbase. rewrite A, B, C. auto.
Qed.

(* with no_grad(): body *)
Lemma seg_ok_block g0 sv body : forallb gfree body = true -> seg_ok g0 sv (NoGradEnter :: body ++ [NoGradExit]).
Proof.
  intros H m (D & G & S). 
  set (m1 := mstep m NoGradEnter).
  assert (I1 : mdepth m1 = 1 /\ msaved m1 = g0 :: sv) by (unfold m1; cbn; rewrite D, G, S; auto).
  split.
  - intros pre post E. destruct pre as [|x pre]; [left; unfold gbase; auto|].
    cbn in E. inversion E as [[Hx E']]. subst x. change (mrun m (NoGradEnter :: pre)) with (mrun m1 pre).
    destruct (app_eq_app _ _ _ _ E') as [l [[E1 E2]|[E1 E2]]].
    + (* pre is a prefix of body *)
      assert (F : forallb gfree pre = true) by (rewrite E1 in H; eapply gfree_prefix; exact H).
      destruct (mrun_gfree pre F m1) as (A & B & C). right. rewrite A, C. exact I1.
    + (* pre = body ++ l, l a prefix of [NoGradExit] *)
      subst pre. rewrite mrun_app. destruct (mrun_gfree body H m1) as (A & B & C).
      destruct l as [|y l].
      * right. change (mrun (mrun m1 body) []) with (mrun m1 body). rewrite A, C. exact I1.
      * destruct l; [|destruct post; cbn in E2; inversion E2; destruct l; discriminate].
        cbn in E2. inversion E2; subst y. change (mrun (mrun m1 body) [NoGradExit]) with (mstep (mrun m1 body) NoGradExit).
        destruct I1 as [I1 I2]. cbn [mstep]. rewrite C, I2. left. unfold gbase. cbn [mdepth mgrad msaved]. rewrite A, I1. auto.
  - change (NoGradEnter :: body ++ [NoGradExit]) with ([NoGradEnter] ++ body ++ [NoGradExit]).
    rewrite !mrun_app. cbn [mrun fold_left]. fold m1. fold (mrun m1 body).
    destruct (mrun_gfree body H m1) as (A & B & C). destruct I1 as [I1 I2].
    change (mrun (mrun m1 body) [NoGradExit]) with (mstep (mrun m1 body) NoGradExit).
    cbn [mstep]. rewrite C, I2. unfold gbase. cbn [mdepth mgrad msaved]. rewrite A, I1. auto.
Qed.

Lemma gfree_opt b e : gfree e = true -> forallb gfree (opt_ev b e) = true.
Proof. intro H. destruct b; cbn; [rewrite H|]; reflexivity. Qed.

Lemma gfree_flat_map {A} (f : A -> list ev) l : (forall x, forallb gfree (f x) = true) -> forallb gfree (flat_map f l) = true.
Proof. intro H. induction l; cbn; auto. rewrite forallb_app, H, IHl. reflexivity. Qed.

Lemma epoch_seg_ok g0 sv c e : seg_ok g0 sv (epoch_ok c e).
Proof.
  unfold epoch_ok. apply seg_ok_app; [|apply seg_ok_app].
  - apply seg_ok_gfree. unfold head_evs. destruct (cb_train c); reflexivity.
  - apply seg_ok_gfree. apply gfree_flat_map. intro i. unfold train_batch. destruct (has_eval c); reflexivity.
  - unfold tail_evs. apply seg_ok_app; [apply seg_ok_gfree, gfree_opt; reflexivity|].
    apply seg_ok_app; [|apply seg_ok_gfree; reflexivity].
    destruct (val c) as [nv|]; [|apply seg_ok_nil].
    unfold val_evs. apply seg_ok_app; [apply seg_ok_gfree, gfree_opt; reflexivity|].
    change ([EvalMode; NoGradNew; NoGradEnter] ++ flat_map (fun _ : nat => val_batch c) (seq 0 nv) ++ opt_ev (has_eval c) (EvalCompute true) ++ [NoGradExit])
      with ([EvalMode; NoGradNew] ++ (NoGradEnter :: flat_map (fun _ : nat => val_batch c) (seq 0 nv) ++ opt_ev (has_eval c) (EvalCompute true) ++ [NoGradExit])).
    apply seg_ok_app; [apply seg_ok_gfree; reflexivity|].
    rewrite app_assoc. apply seg_ok_block. rewrite forallb_app. apply andb_true_iff. split.
    + apply gfree_flat_map. intro i. unfold val_batch. destruct (has_eval c); reflexivity.
    + apply gfree_opt. reflexivity.
Qed.

Lemma unwind_restores g0 sv m pre : ginv g0 sv (mrun m pre) -> gbase g0 sv (mrun m (unwind m pre)).
Proof.
  intros [B|[D S]]; unfold unwind.
  - destruct B as (D & G & S). rewrite D. cbn. rewrite app_nil_r. unfold gbase. auto.
  - rewrite D. cbn. rewrite mrun_app. cbn [mrun fold_left mstep]. rewrite S. cbn. rewrite D. unfold gbase. auto.
Qed.

(* fit: an exception raised by ANY event of the trace *)
Lemma fit_exception_restores c epochs t0 g0 sv pre post :
  1 <= nb c -> val_ok c -> fst (fit c epochs) = pre ++ post ->
  gbase g0 sv (mrun (mstart t0 g0 sv) (unwind (mstart t0 g0 sv) pre)).
Proof.
  intros Hn Hv E. rewrite fit_ok in E by assumption. cbn [fst] in E.
  apply unwind_restores.
  assert (S : seg_ok g0 sv (flat_map (epoch_ok c) (seq 0 epochs))) by (apply seg_ok_flat_map; intro; apply epoch_seg_ok).
  destruct (S (mstart t0 g0 sv)) as [P _]; [unfold gbase; cbn; auto|]. exact (P pre post E).
Qed.

(* test: likewise *)
Lemma test_exception_restores nbt t0 g0 sv pre post :
  test_trace nbt = pre ++ post ->
  gbase g0 sv (mrun (mstart t0 g0 sv) (unwind (mstart t0 g0 sv) pre)).
Proof.
  intro E. apply unwind_restores.
  assert (S : seg_ok g0 sv (test_trace nbt)).
  { unfold test_trace.
    change ([EvalMode; NoGradNew; NoGradEnter] ++ repeat Forward nbt ++ [NoGradExit])
      with ([EvalMode; NoGradNew] ++ (NoGradEnter :: repeat Forward nbt ++ [NoGradExit])).
    apply seg_ok_app; [apply seg_ok_gfree; reflexivity|]. apply seg_ok_block.
    clear E. induction nbt as [|k IH]; cbn; auto. }
  destruct (S (mstart t0 g0 sv)) as [P _]; [unfold gbase; cbn; auto|]. exact (P pre post E).
Qed.
