(* The E2 models agree with the naive specification NumPy/SpecAlgebra.v (C05): acceptance and values. *)
From Coq Require Import List Arith ZArith Lia Bool Permutation.
Import ListNotations.
From SG Require Import Base.Sums Base.ScalarExt Base.Cmp NumPy.Index NumPy.Tensor NumPy.Gather NumPy.TensorFn
  NumPy.Broadcast NumPy.Reduce NumPy.Matmul NumPy.Concat NumPy.Overloads NumPy.SpecAlgebra
  Proofs.IdxSums Proofs.BcastProofs Proofs.ArithProofs Proofs.ReduceProofs Proofs.MatmulProofs Proofs.ConcatProofs.

(* ---------- axes ---------- *)
Lemma spec_axis_norm n a : spec_axis n a = norm_axis n a.
Proof.
  unfold spec_axis, norm_axis.
  destruct ((0 <=? a)%Z && (a <? Z.of_nat n)%Z) eqn:E1.
  - apply andb_true_iff in E1 as [E1 E2]. replace ((- Z.of_nat n <=? a)%Z && (a <? Z.of_nat n)%Z) with true by (symmetry; apply andb_true_iff; split; lia).
    now rewrite Z.mod_small by lia.
  - destruct ((a <? 0)%Z && (- Z.of_nat n <=? a)%Z) eqn:E2.
    + apply andb_true_iff in E2 as [E2 E3]. replace ((- Z.of_nat n <=? a)%Z && (a <? Z.of_nat n)%Z) with true by (symmetry; apply andb_true_iff; split; lia).
      f_equal. f_equal. symmetry. apply (Z.mod_unique a (Z.of_nat n) (-1)); lia.
    + destruct ((- Z.of_nat n <=? a)%Z && (a <? Z.of_nat n)%Z) eqn:E3; auto.
      apply andb_true_iff in E3 as [E3 E4]. apply andb_false_iff in E1, E2. exfalso. destruct E1, E2; lia.
Qed.

(* ---------- broadcasting ---------- *)
Lemma bzip_spec : forall x y, length x = length y ->
  bzip x y = (if forallb (fun xy => (fst xy =? snd xy) || (fst xy =? 1) || (snd xy =? 1)) (combine x y)
              then Some (map (fun xy => if fst xy =? 1 then snd xy else fst xy) (combine x y)) else None).
Proof.
  induction x as [|a x IH]; intros [|b y] E; simpl in E; try discriminate. reflexivity.
  cbn [bzip combine forallb map fst snd]. rewrite IH by lia. unfold bdim.
  destruct (a =? b) eqn:E1; cbn [orb andb].
  - destruct (forallb _ _); auto. apply Nat.eqb_eq in E1. subst. destruct (b =? 1); reflexivity.
  - destruct (a =? 1) eqn:E2; cbn [orb andb]. destruct (forallb _ _); reflexivity.
    destruct (b =? 1); cbn [andb]; auto. destruct (forallb _ _); reflexivity.
Qed.
Lemma spec_bshape_eq a b : spec_bshape a b = broadcast_shapes a b.
Proof.
  unfold spec_bshape, broadcast_shapes, spec_pad, pad_left. symmetry. apply bzip_spec.
  rewrite !app_length, !repeat_length. lia.
Qed.
Lemma bm_al_mod : forall s sg q, bcompat s sg = true -> In q (idxs sg) ->
  bm_al s q = map (fun kd => fst kd mod snd kd) (combine q s).
Proof.
  induction s as [|d s IH]; intros [|e sg] q Hc Hq; simpl in Hc; try discriminate.
  - apply in_idxs_nil in Hq. now subst.
  - destruct q as [|k q]. { apply in_idxs_length in Hq. discriminate. }
    apply in_idxs_cons in Hq as [Hk Hq]. apply andb_true_iff in Hc as [Hd Hc].
    cbn [bm_al combine map fst snd]. rewrite (IH sg q) by auto. f_equal.
    destruct (d =? 1) eqn:E. apply Nat.eqb_eq in E. subst. reflexivity.
    simpl in Hd. rewrite orb_false_r in Hd. apply Nat.eqb_eq in Hd. subst. symmetry. now apply Nat.mod_small.
Qed.
Lemma spec_bindex_eq s so j : broadcastable s so = true -> In j (idxs so) -> spec_bindex s j = bcast_idx s so j.
Proof.
  intros Hb Hj. apply broadcastable_spec in Hb as [Hl Hc]. unfold spec_bindex, bcast_idx.
  rewrite (in_idxs_length _ _ Hj). symmetry. eapply bm_al_mod; eauto. now apply in_idxs_skipn.
Qed.

Section P.
Context {A:Type} `{ScalarLaws A}.

(* add / mul (any pointwise f) *)
Theorem bop_accepts_iff (f:A->A->A) (a b:tensor A) :
  bop f a b <> None <-> spec_bshape (tshape a) (tshape b) <> None.
Proof. unfold bop. rewrite spec_bshape_eq. destruct (broadcast_shapes _ _); split; congruence. Qed.

Theorem bop_matches_spec (f:A->A->A) (a b:tensor A) so :
  spec_bshape (tshape a) (tshape b) = Some so ->
  exists o, bop f a b = Some o /\ tshape o = so /\
    forall j, In j (idxs so) -> tat o j = f (tat a (spec_bindex (tshape a) j)) (tat b (spec_bindex (tshape b) j)).
Proof.
  rewrite spec_bshape_eq. intros E. unfold bop. rewrite E. eexists. split. reflexivity. split. reflexivity.
  intros j Hj. destruct (broadcast_shapes_sound _ _ _ E) as [Ba Bb]. cbn [tat].
  now rewrite !spec_bindex_eq with (so := so).
Qed.

(* ---------- reductions ---------- *)
Lemma proj_spec (f:nat->bool) keep : forall i off,
  proj (map f (seq off (length i))) keep i =
  (if keep then map (fun kt => if f (snd kt) then 0 else fst kt) (combine i (seq off (length i)))
   else map fst (filter (fun kt => negb (f (snd kt))) (combine i (seq off (length i))))).
Proof.
  induction i as [|k t IH]; intros off. destruct keep; reflexivity.
  cbn [length seq map combine proj filter fst snd]. specialize (IH (S off)).
  destruct (f off); cbn [negb]; destruct keep; cbn [map fst]; rewrite IH; reflexivity.
Qed.
Lemma red_shape_spec (f:nat->bool) keep : forall s off,
  red_shape (map f (seq off (length s))) s keep =
  (if keep then map (fun dt => if f (snd dt) then 1 else fst dt) (combine s (seq off (length s)))
   else map fst (filter (fun dt => negb (f (snd dt))) (combine s (seq off (length s))))).
Proof.
  induction s as [|d r IH]; intros off. destruct keep; reflexivity.
  cbn [length seq map combine red_shape filter fst snd]. specialize (IH (S off)).
  destruct (f off); cbn [negb]; destruct keep; cbn [map fst]; rewrite IH; reflexivity.
Qed.
Lemma spec_kept_eq ks keep i : spec_kept ks keep i = proj (mask_of (length i) ks) keep i.
Proof.
  unfold spec_kept, mask_of. rewrite (proj_spec (fun t => existsb (Nat.eqb t) ks)). unfold spec_reduced. reflexivity.
Qed.
Lemma spec_red_shape_eq ks keep s : spec_red_shape ks keep s = red_shape (mask_of (length s) ks) s keep.
Proof.
  unfold spec_red_shape, mask_of. rewrite (red_shape_spec (fun t => existsb (Nat.eqb t) ks)). unfold spec_reduced. reflexivity.
Qed.
Lemma isum_filter {I} (P:I->bool) (l:list I) (F:I->A) : isum (filter P l) F = isum l (fun i => if P i then F i else s0).
Proof.
  induction l as [|x l IH]. reflexivity. cbn [filter]. rewrite (isum_cons x l).
  destruct (P x). rewrite isum_cons, IH. reflexivity. rewrite IH. symmetry. apply sadd_0_l.
Qed.

Theorem sum_matches_spec_proof (a:tensor A) ax keep ks :
  strict_axes (rank a) ax = Some ks ->
  exists o, sum_forward a ax keep = Some o /\ tshape o = spec_red_shape ks keep (tshape a) /\
    forall j, In j (idxs (tshape o)) -> tat o j = spec_sum_at a ks keep j.
Proof.
  intros Hax. unfold sum_forward. rewrite (reduce_axes_legacy _ _ _ Hax). eexists. split. reflexivity.
  unfold rank. split. cbn [tshape]. now rewrite spec_red_shape_eq.
  intros j Hj. cbn [tshape tat] in *. unfold spec_sum_at. rewrite isum_filter.
  rewrite fibre_sum_is_scatter by (auto; apply mask_of_length). apply isum_ext. intros i Hi.
  rewrite spec_kept_eq. now rewrite (in_idxs_length _ _ Hi).
Qed.

(* the count of a mean: the product of the sizes of the axes as written (any order, any sign) *)
Lemma prod_perm l l' : Permutation l l' -> fold_right Nat.mul 1 l = fold_right Nat.mul 1 l'.
Proof. induction 1; simpl; auto; try lia. Qed.
Lemma spec_count_eq ks s : NoDup ks -> (forall k, In k ks -> k < length s) ->
  spec_count ks s = fibre_size (mask_of (length s) ks) s.
Proof.
  intros ND Hlt. unfold spec_count, mask_of.
  rewrite <- (fibre_size_filter (fun i => existsb (Nat.eqb i) ks) s 0).
  rewrite (map_ext (fun i => nth (i - 0) s 0) (fun i => nth i s 0)) by (intros; now rewrite Nat.sub_0_r).
  apply prod_perm. apply Permutation_map. apply NoDup_Permutation; auto.
  - apply NoDup_filter, seq_NoDup.
  - intros i. rewrite filter_In, in_seq, existsb_exists. split.
    + intros Hi. split. specialize (Hlt i Hi). lia. exists i. split; auto. apply Nat.eqb_refl.
    + intros (_ & x & Hx & E). apply Nat.eqb_eq in E. now subst.
Qed.
Lemma strict_axes_nodup n ax ks : strict_axes n ax = Some ks -> NoDup ks.
Proof.
  destruct ax as [|a|l]; unfold strict_axes, np_reduce_axes; cbn [andb].
  - intros [= <-]. apply seq_NoDup.
  - destruct (norm_axis n a); [|discriminate]. intros [= <-]. repeat constructor. auto.
  - intros E. now destruct (norm_axes_spec _ _ _ E).
Qed.

Context `{!ScalarDiv A}.
Theorem mean_matches_spec_proof (a:tensor A) ax keep ks :
  strict_axes (rank a) ax = Some ks ->
  exists o, mean_forward a ax keep = Some o /\ tshape o = spec_red_shape ks keep (tshape a) /\
    forall j, In j (idxs (tshape o)) -> tat o j = sdivn (spec_sum_at a ks keep j) (spec_count ks (tshape a)).
Proof.
  intros Hax. destruct (sum_matches_spec_proof a ax keep ks Hax) as (s & Es & Hs & Vs).
  unfold mean_forward. unfold strict_axes in Hax. rewrite Hax. eexists. split. reflexivity.
  unfold sum_forward in Es. rewrite (reduce_axes_legacy _ _ _ Hax) in Es. injection Es as <-.
  split. exact Hs. intros j Hj. cbn [tshape tat] in *. rewrite (Vs j Hj). f_equal.
  symmetry. apply spec_count_eq. eapply strict_axes_nodup; eauto. eapply strict_axes_lt; eauto.
Qed.
End P.

(* acceptance of the reductions: exactly the axis arguments the naive rule allows *)
Definition spec_reduce_axes (legacy0d:bool) (n:nat) (ax:axis_arg) : option (list nat) :=
  match ax with
  | AxNone => Some (seq 0 n)
  | AxInt a => if legacy0d && (n =? 0) && ((a =? 0) || (a =? -1))%Z then Some []
               else match spec_axis n a with Some k => Some [k] | None => None end
  | AxTuple l => match all_some (map (spec_axis n) l) with
                 | Some ks => if nodupb ks then Some ks else None
                 | None => None end
  end.
Lemma spec_reduce_axes_eq legacy n ax : spec_reduce_axes legacy n ax = np_reduce_axes legacy n ax.
Proof.
  destruct ax as [|a|l]; cbn [spec_reduce_axes np_reduce_axes]; auto.
  - now rewrite spec_axis_norm.
  - unfold norm_axes. rewrite (map_ext (spec_axis n) (norm_axis n)) by (apply spec_axis_norm). reflexivity.
Qed.

Section Q.
Context {A:Type} `{ScalarLaws A}.
Theorem sum_accepts_iff_proof (a:tensor A) ax keep : sum_forward a ax keep <> None <-> spec_reduce_axes true (rank a) ax <> None.
Proof. unfold sum_forward. rewrite spec_reduce_axes_eq. destruct (np_reduce_axes _ _ _); split; congruence. Qed.
Context `{!ScalarDiv A}.
Theorem mean_accepts_iff_proof (a:tensor A) ax keep : mean_forward a ax keep <> None <-> spec_reduce_axes false (rank a) ax <> None.
Proof. unfold mean_forward. rewrite spec_reduce_axes_eq. destruct (np_reduce_axes _ _ _); split; congruence. Qed.
End Q.

(* ---------- matmul ---------- *)
Lemma in_idxs_app_inv : forall s1 s2 p q, length p = length s1 -> In (p ++ q) (idxs (s1 ++ s2)) -> In p (idxs s1).
Proof.
  induction s1 as [|d s1 IH]; intros s2 [|k p] q L Hin; simpl in L; try discriminate. simpl. auto.
  change ((k :: p) ++ q) with (k :: (p ++ q)) in Hin. change ((d :: s1) ++ s2) with (d :: (s1 ++ s2)) in Hin.
  apply in_idxs_cons in Hin as [Hk Hin]. apply in_idxs_cons. split; auto. eapply IH; eauto.
Qed.

Section M.
Context {A:Type} `{ScalarLaws A}.

Lemma split_last2 {X} (l:list X) : 2 <= length l -> exists p x y, l = p ++ [x; y].
Proof.
  intros Hl. destruct (rev l) as [|y [|x q]] eqn:E.
  - apply (f_equal (@length X)) in E. rewrite rev_length in E. simpl in E. lia.
  - apply (f_equal (@length X)) in E. rewrite rev_length in E. simpl in E. lia.
  - exists (rev q), x, y. rewrite <- (rev_involutive l), E. simpl. now rewrite <- app_assoc.
Qed.

Theorem matmul_accepts_iff_proof (a b:tensor A) :
  F_matmul a b <> None <->
  exists ba bb n k m, tshape a = ba ++ [n; k] /\ tshape b = bb ++ [k; m] /\ spec_bshape ba bb <> None.
Proof.
  split.
  - intros Hn. unfold F_matmul in Hn.
    destruct ((rank a <? 2) || (rank b <? 2)) eqn:Er; [congruence|].
    apply orb_false_iff in Er as [Ra Rb]. apply Nat.ltb_ge in Ra, Rb. unfold rank in *.
    destruct (split_last2 _ Ra) as (ba & n & k & Ha). destruct (split_last2 _ Rb) as (bb & k' & m & Hb).
    assert (Ra2 := rank_app2 a _ _ _ Ha). assert (Rb2 := rank_app2 b _ _ _ Hb).
    unfold np_matmul in Hn. rewrite Ra2, Rb2 in Hn. cbn [Nat.eqb] in Hn.
    unfold mm in Hn. rewrite Ha, Hb, !last2_of_app, !batch_of_app, Ra2, Rb2 in Hn. cbn [Nat.leb andb] in Hn.
    destruct (k =? k') eqn:Ek; [|cbn [obind] in Hn; congruence]. apply Nat.eqb_eq in Ek. subst k'.
    exists ba, bb, n, k, m. repeat split; auto. rewrite spec_bshape_eq.
    destruct (broadcast_shapes ba bb); [congruence|]. cbn [obind] in Hn. congruence.
  - intros (ba & bb & n & k & m & Ha & Hb & Hs). rewrite spec_bshape_eq in Hs.
    destruct (broadcast_shapes ba bb) as [bo|] eqn:Eb; [|congruence].
    destruct (np_matmul_spec a b ba bb bo n k m Ha Hb Eb) as (o & _ & Eo & _). congruence.
Qed.

Theorem matmul_matches_spec_proof (a b:tensor A) ba bb bo n k m :
  tshape a = ba ++ [n; k] -> tshape b = bb ++ [k; m] -> spec_bshape ba bb = Some bo ->
  exists o, F_matmul a b = Some o /\ tshape o = bo ++ [n; m] /\
    forall j, In j (idxs (tshape o)) -> tat o j = spec_mm_at a b k j.
Proof.
  intros Ha Hb Es. rewrite spec_bshape_eq in Es.
  destruct (np_matmul_spec a b ba bb bo n k m Ha Hb Es) as (o & _ & Eo & Ho & Vo).
  exists o. split. exact Eo. split. exact Ho. intros j Hj. rewrite Ho in Hj.
  destruct (broadcast_shapes_sound _ _ _ Es) as [Ba Bb].
  pose proof (in_idxs_length _ _ Hj) as Lj. rewrite app_length in Lj. cbn [length] in Lj.
  destruct (split_last2 j) as (p & r & c & ->). lia.
  assert (Hp: In p (idxs bo)).
  { rewrite app_length in Lj. cbn [length] in Lj. apply (in_idxs_app_inv bo [n; m] p [r; c]). lia. exact Hj. }
  rewrite Vo. unfold mm_val, spec_mm_at. rewrite firstn_app2.
  rewrite app_length. cbn [length]. replace (length p + 2 - 2) with (length p + 0) by lia. replace (length p + 2 - 1) with (length p + 1) by lia.
  rewrite !app_nth2_plus. cbn [nth].
  rewrite (rank_app2 a _ _ _ Ha), (rank_app2 b _ _ _ Hb). cbn [Nat.sub]. rewrite Ha, Hb.
  rewrite !Nat.sub_0_r.
  replace (firstn (length ba) (ba ++ [n; k])) with ba by (now rewrite firstn_app, Nat.sub_diag, firstn_all, app_nil_r).
  replace (firstn (length bb) (bb ++ [k; m])) with bb by (now rewrite firstn_app, Nat.sub_diag, firstn_all, app_nil_r).
  apply isum_ext. intros l _. now rewrite !spec_bindex_eq with (so := bo).
Qed.
End M.

(* ---------- concat / stack / unbind ---------- *)
Lemma remove_at_eq_iff {X} (d:X) : forall ax (s t:list X), length s = length t ->
  (remove_at ax s = remove_at ax t <-> forall u, u <> ax -> nth u s d = nth u t d).
Proof.
  induction ax as [|ax IH]; intros [|a s] [|b t] E; simpl in E; try discriminate; simpl.
  - split; auto.
  - split.
    + intros -> u Hu. destruct u; [congruence|]. reflexivity.
    + intros Hn. apply (nth_ext _ _ d d). lia. intros n Hl. apply (Hn (S n)). lia.
  - split; auto.
  - split.
    + intros E2 u Hu. injection E2 as -> E2. destruct u. reflexivity. apply (IH s t); auto.
    + intros Hn. f_equal. apply (Hn 0). lia. apply IH. lia. intros u Hu. apply (Hn (S u)). lia.
Qed.

Section C.
Context {A:Type} `{ScalarLaws A}.

Theorem concat_accepts_iff_proof (xs:list (tensor A)) dim :
  concat_forward xs dim <> None <-> spec_concat_legal xs dim.
Proof.
  unfold concat_forward, spec_concat_legal. split.
  - destruct xs as [|x0 r]; [congruence|]. destruct (rank x0 =? 0) eqn:E0; [congruence|].
    destruct (norm_axis (rank x0) dim) as [ax|] eqn:Eax; [|cbn [obind]; congruence]. cbn [obind].
    destruct (forallb _ _) eqn:Ef; [|congruence]. intros _.
    exists x0, r, ax. split. reflexivity. split. apply Nat.eqb_neq. exact E0. split. now rewrite spec_axis_norm.
    intros x Hx. rewrite forallb_forall in Ef. apply Ef in Hx. apply nth_remove_other_shape in Hx as [E1 E2].
    split. exact E2. apply (remove_at_eq_iff 0 ax); auto.
  - intros (x0 & r & ax & -> & Hr & Eax & Hall). rewrite spec_axis_norm in Eax.
    apply Nat.eqb_neq in Hr. rewrite Hr, Eax. cbn [obind].
    assert (Ef: forallb (fun x => eq_except ax (tshape x) (tshape x0)) (x0 :: r) = true).
    { apply forallb_forall. intros x Hx. destruct (Hall x Hx) as [E1 E2]. unfold eq_except. unfold rank in E1. rewrite E1, Nat.eqb_refl, andb_true_r.
      apply shape_eqb_spec. apply (remove_at_eq_iff 0 ax); auto. }
    rewrite Ef. congruence.
Qed.

Lemma cat_at_rows ax (j:idx) : forall (xs:list (tensor A)) k, k < sumd ax xs ->
  cat_at ax xs k j = nth k (spec_rows ax xs j) s0.
Proof.
  induction xs as [|x r IH]; intros k Hk. { unfold sumd in Hk. simpl in Hk. lia. }
  unfold sumd in Hk. cbn [map fold_right] in Hk. fold (sumd ax r) in Hk.
  cbn [cat_at spec_rows flat_map]. fold (spec_rows ax r j). set (d := nth ax (tshape x) 0) in *.
  destruct (k <? d) eqn:E.
  - apply Nat.ltb_lt in E. rewrite app_nth1 by (now rewrite map_length, seq_length).
    rewrite (nth_map_seq (fun k => tat x (set_at ax k j)) 0 d k s0 E). reflexivity.
  - apply Nat.ltb_ge in E. rewrite app_nth2 by (rewrite map_length, seq_length; exact E).
    rewrite map_length, seq_length. apply IH. lia.
Qed.

Theorem concat_matches_spec_proof (xs:list (tensor A)) dim (o:tensor A) :
  concat_forward xs dim = Some o ->
  exists x0 ax, hd_error xs = Some x0 /\ spec_axis (rank x0) dim = Some ax /\
    tshape o = set_at ax (sumd ax xs) (tshape x0) /\
    forall j, In j (idxs (tshape o)) -> tat o j = spec_concat_at ax xs j.
Proof.
  unfold concat_forward. destruct xs as [|x0 r]; [discriminate|]. destruct (rank x0 =? 0) eqn:E0; [discriminate|].
  destruct (norm_axis (rank x0) dim) as [ax|] eqn:Eax; [|discriminate]. cbn [obind].
  destruct (forallb _ _) eqn:Ef; [|discriminate]. intros [= <-].
  exists x0, ax. split. reflexivity. split. now rewrite spec_axis_norm. split. reflexivity.
  intros j Hj. unfold spec_concat_at.
  pose proof (norm_axis_lt _ _ _ Eax) as Hax. unfold rank in Hax.
  assert (Hlt: nth ax j 0 < sumd ax (x0 :: r)).
  { pose proof (in_idxs_nth _ _ ax Hj) as Hn. cbn [tshape] in Hn. rewrite length_set_at, nth_set_at_eq in Hn by exact Hax. apply Hn. exact Hax. }
  exact (cat_at_rows ax j (x0 :: r) (nth ax j 0) Hlt).
Qed.

Theorem stack_accepts_iff_proof (xs:list (tensor A)) dim :
  stack_forward xs dim <> None <-> spec_stack_legal xs dim.
Proof.
  unfold stack_forward, spec_stack_legal. split.
  - destruct xs as [|x0 r]; [congruence|].
    destruct (norm_axis (S (rank x0)) dim) as [ax|] eqn:Eax; [|cbn [obind]; congruence]. cbn [obind].
    destruct (forallb _ _) eqn:Ef; [|congruence]. intros _. exists x0, r, ax. split. reflexivity. split. now rewrite spec_axis_norm.
    intros x Hx. rewrite forallb_forall in Ef. apply Ef in Hx. now apply shape_eqb_spec in Hx.
  - intros (x0 & r & ax & -> & Eax & Hall). rewrite spec_axis_norm in Eax. rewrite Eax. cbn [obind].
    assert (Ef: forallb (fun x => shape_eqb (tshape x) (tshape x0)) (x0 :: r) = true).
    { apply forallb_forall. intros x Hx. apply shape_eqb_spec. now apply Hall. }
    rewrite Ef. congruence.
Qed.

Theorem unbind_accepts_iff_proof (x:tensor A) dim :
  unbind_forward x dim <> None <-> spec_axis (rank x) dim <> None.
Proof. unfold unbind_forward. rewrite spec_axis_norm. destruct (norm_axis _ _); cbn [obind]; split; congruence. Qed.
End C.

(* ---------- reflected operators with Python scalars ---------- *)
Section O.
Context {A:Type} `{ScalarLaws A} `{!ScalarMulLaws A} `{!ScalarRing A} `{!ScalarRingLaws A}.

Lemma bshape_nil_r s : broadcast_shapes s [] = Some s.
Proof. apply broadcast_shapes_absorb_r, broadcastable_nil. Qed.

Theorem rsub_matches_spec_proof (c:A) (t:tensor A) :
  exists o, ov_rsub_ts c t = Some o /\ tshape o = tshape t /\
    forall j, In j (idxs (tshape t)) -> tat o j = sadd c (sopp (tat t j)).
Proof.
  unfold ov_rsub_ts, ov_neg, bmul, badd, bop. cbn [scalar0d tshape tat]. rewrite bshape_nil_r. cbn [obind tshape tat].
  rewrite bshape_nil_r. eexists. split. reflexivity. split. reflexivity.
  intros j Hj. cbn [tat]. rewrite !(bcast_idx_id (tshape t) j Hj). rewrite sopp_mul_1. apply sadd_comm.
Qed.
Theorem sub_scalar_matches_spec_proof (t:tensor A) (c:A) :
  exists o, ov_sub_ts t c = Some o /\ tshape o = tshape t /\
    forall j, In j (idxs (tshape t)) -> tat o j = sadd (tat t j) (sopp c).
Proof.
  unfold ov_sub_ts, badd, bop. cbn [scalar0d tshape tat]. rewrite bshape_nil_r.
  eexists. split. reflexivity. split. reflexivity. intros j Hj. cbn [tat]. now rewrite bcast_idx_id by exact Hj.
Qed.
Theorem rdiv_matches_spec_proof (c:A) (t:tensor A) :
  exists o, ov_rdiv_ts c t = Some o /\ tshape o = tshape t /\
    forall j, In j (idxs (tshape t)) -> tat o j = smul c (sinv (tat t j)).
Proof.
  unfold ov_rdiv_ts, pow_m1, tmap, bmul, bop. cbn [scalar0d tshape tat]. rewrite bshape_nil_r.
  eexists. split. reflexivity. split. reflexivity. intros j Hj. cbn [tat]. rewrite bcast_idx_id by exact Hj. apply smul_comm.
Qed.
Theorem radd_rmul_commute (c:A) (t:tensor A) : ov_radd_ts c t = ov_add_ts t c /\ ov_rmul_ts c t = ov_mul_ts t c.
Proof. split; reflexivity. Qed.

(* C14: a - b = a + (-b), a / b = a * b**-1 : as computed, and the value they denote *)
Theorem sub_is_add_neg_proof (a b:tensor A) so :
  broadcast_shapes (tshape a) (tshape b) = Some so ->
  exists nb o, ov_neg b = Some nb /\ ov_sub_tt a b = badd a nb /\ badd a nb = Some o /\ tshape o = so /\
    forall j, In j (idxs so) -> tat o j = sadd (tat a (bcast_idx (tshape a) so j)) (sopp (tat b (bcast_idx (tshape b) so j))).
Proof.
  intros Eb. unfold ov_sub_tt, ov_neg, bmul, bop. cbn [scalar0d tshape tat]. rewrite bshape_nil_r. cbn [obind].
  eexists. eexists. split. reflexivity. split. reflexivity. unfold badd, bop. cbn [tshape tat]. rewrite Eb.
  split. reflexivity. split. reflexivity. intros j Hj. cbn [tat]. destruct (broadcast_shapes_sound _ _ _ Eb) as [_ Bb].
  rewrite (bcast_idx_id (tshape b)) by (now apply bcast_idx_in). now rewrite sopp_mul_1.
Qed.
Theorem div_is_mul_pow_minus1_proof (a b:tensor A) : ov_div_tt a b = bmul a (tmap sinv b).
Proof. reflexivity. Qed.
End O.
