(* C02, elementwise part: relu / leaky_relu / selu / tanh / sigmoid and the losses mse / bce /
   bce-with-logits, about the GENERATED definitions (see KernelProofs.v for the reading of the wrap_ names). *)
From Coq Require Import Reals Lra Lia ZArith List.
From Coquelicot Require Import Coquelicot.
From SG Require Import Analysis.RealOps Analysis.Derive Gen.GenKernels Gen.GenKernelUse Proofs.KernelProofs.
Import ListNotations.
Open Scope R_scope.

(* one-sided derivatives at a kink at 0: f is fl on (-inf,0] and fr on [0,inf) *)
Definition one_sided_at_0 (f:R->R) (dl dr:R) : Prop :=
  exists fl fr:R->R, (forall y, y <= 0 -> f y = fl y) /\ (forall y, 0 <= y -> f y = fr y) /\
                     is_derive fl 0 dl /\ is_derive fr 0 dr.
Definition between (lo_or_hi1 lo_or_hi2 v:R) : Prop := Rmin lo_or_hi1 lo_or_hi2 <= v <= Rmax lo_or_hi1 lo_or_hi2.

Lemma d_const (c x:R) : is_derive (fun _ : R => c) x 0.
Proof. apply @is_derive_const. Qed.
Lemma d_id (x:R) : is_derive (fun y : R => y) x 1.
Proof. apply @is_derive_id. Qed.
Lemma d_lin (s x:R) : is_derive (fun y : R => s * y) x s.
Proof. auto_derive. auto. ring. Qed.

(* ---- relu ---------------------------------------------------------------------------------------------- *)
Lemma relu_derive x : x <> 0 -> is_derive wrap_relu_out x (wrap_relu_grad_x 1 x).
Proof.
  intros Hx. unfold wrap_relu_out, wrap_relu_grad_x, relu_forward, relu_backward.
  destruct (Rlt_dec 0 x) as [Hp|Hn].
  - ind_simpl. apply (is_derive_on_pos _ (fun y => y)); auto.
    intros y Hy. rewrite Rmax_right; lra. auto_derive; auto. ring.
  - ind_simpl. apply (is_derive_on_neg _ (fun y => 0)). lra.
    intros y Hy. rewrite Rmax_left; lra. auto_derive; auto. ring.
Qed.
Lemma relu_linear g x : wrap_relu_grad_x g x = g * wrap_relu_grad_x 1 x.
Proof. unfold wrap_relu_grad_x, relu_backward. ring. Qed.
Lemma relu_subgradient_at_0 :
  one_sided_at_0 wrap_relu_out 0 1 /\ between 0 1 (wrap_relu_grad_x 1 0).
Proof.
  split.
  - exists (fun _ => 0), (fun y => y). unfold wrap_relu_out, relu_forward. split; [|split; [|split]].
    + intros y Hy. rewrite Rmax_left; lra.
    + intros y Hy. rewrite Rmax_right; lra.
    + apply d_const.
    + apply d_id.
  - unfold between, wrap_relu_grad_x, relu_backward. rewrite Rmin_left, Rmax_right by lra.
    unfold ind_gt, ind_ge; repeat match goal with |- context [if ?d then _ else _] => destruct d end; lra.
Qed.

(* ---- leaky_relu: forward is where(x > 0, x, s*x), any slope s ------------------------------------------- *)
Lemma leaky_relu_derive x s : x <> 0 ->
  is_derive (fun t => wrap_leaky_relu_out t s) x (wrap_leaky_relu_grad_x 1 x s).
Proof.
  intros Hx. unfold wrap_leaky_relu_out, wrap_leaky_relu_grad_x, leaky_relu_forward, leaky_relu_backward.
  destruct (Rlt_dec 0 x) as [Hp|Hn].
  - ind_simpl. apply (is_derive_on_pos _ (fun y => y)); auto.
    intros y Hy. now ind_simpl. auto_derive; auto. ring.
  - ind_simpl. apply (is_derive_on_neg _ (fun y => s * y)). lra.
    intros y Hy. now ind_simpl. auto_derive; auto. ring.
Qed.
Lemma leaky_relu_linear g x s : wrap_leaky_relu_grad_x g x s = g * wrap_leaky_relu_grad_x 1 x s.
Proof. unfold wrap_leaky_relu_grad_x, leaky_relu_backward. ring. Qed.
Lemma leaky_relu_subgradient_at_0 s :
  one_sided_at_0 (fun t => wrap_leaky_relu_out t s) s 1 /\ between s 1 (wrap_leaky_relu_grad_x 1 0 s).
Proof.
  split.
  - exists (fun y => s * y), (fun y => y). unfold wrap_leaky_relu_out, leaky_relu_forward. split; [|split; [|split]].
    + intros y Hy. now ind_simpl.
    + intros y [Hy|Hy]. now ind_simpl. subst. ind_simpl. ring.
    + apply d_lin.
    + apply d_id.
  - unfold between, wrap_leaky_relu_grad_x, leaky_relu_backward.
    pose proof (Rmin_l s 1). pose proof (Rmin_r s 1). pose proof (Rmax_l s 1). pose proof (Rmax_r s 1).
    unfold ind_gt, ind_ge, ind_lt, ind_le; repeat match goal with |- context [if ?d then _ else _] => destruct d end; lra.
Qed.

(* ---- selu ------------------------------------------------------------------------------------------------ *)
Lemma selu_kernel_derive x alpha scale : 0 < alpha -> x <> 0 ->
  is_derive (fun t => selu_forward t alpha scale) x (selu_backward 1 x alpha scale).
Proof.
  intros Ha Hx. unfold selu_forward, selu_backward.
  destruct (Rlt_dec 0 x) as [Hp|Hn].
  - ind_simpl. apply (is_derive_on_pos _ (fun y => scale * y)); auto.
    + intros y Hy. rewrite Rmax_right by lra. rewrite Rmin_left. ring.
      assert (1 < exp y) by (rewrite <- exp_0; now apply exp_increasing). nra.
    + auto_derive; auto. ring.
  - ind_simpl. rewrite Rmin_left by lra.
    apply (is_derive_on_neg _ (fun y => scale * (alpha * (exp y - 1)))). lra.
    + intros y Hy. rewrite Rmax_left by lra. rewrite Rmin_right. ring.
      assert (exp y < 1) by (rewrite <- exp_0; now apply exp_increasing). nra.
    + auto_derive; auto. ring.
Qed.
Lemma selu_kernel_linear g x alpha scale : selu_backward g x alpha scale = g * selu_backward 1 x alpha scale.
Proof. unfold selu_backward. ring. Qed.

Lemma wrap_selu_alpha_pos : 0 < wrap_selu_alpha.
Proof. unfold wrap_selu_alpha. lra. Qed.
Lemma wrap_selu_scale_pos : 0 < wrap_selu_scale.
Proof. unfold wrap_selu_scale. lra. Qed.

Lemma selu_derive x : x <> 0 -> is_derive wrap_selu_out x (wrap_selu_grad_x 1 x).
Proof. intros Hx. unfold wrap_selu_out, wrap_selu_grad_x. apply selu_kernel_derive; auto. apply wrap_selu_alpha_pos. Qed.
Lemma selu_linear g x : wrap_selu_grad_x g x = g * wrap_selu_grad_x 1 x.
Proof. unfold wrap_selu_grad_x. apply selu_kernel_linear. Qed.
Lemma selu_subgradient_at_0 :
  one_sided_at_0 wrap_selu_out (wrap_selu_scale * wrap_selu_alpha) wrap_selu_scale /\
  between (wrap_selu_scale * wrap_selu_alpha) wrap_selu_scale (wrap_selu_grad_x 1 0).
Proof.
  pose proof wrap_selu_alpha_pos as Ha.
  split.
  - exists (fun y => wrap_selu_scale * (wrap_selu_alpha * (exp y - 1))), (fun y => wrap_selu_scale * y).
    unfold wrap_selu_out, selu_forward. split; [|split; [|split]].
    + intros y Hy. rewrite Rmax_left by lra. rewrite Rmin_right. ring.
      assert (exp y <= 1). { rewrite <- exp_0. destruct Hy as [Hy|Hy]. left. now apply exp_increasing. subst. lra. } nra.
    + intros y Hy. rewrite Rmax_right by lra. rewrite Rmin_left. ring.
      assert (1 <= exp y). { rewrite <- exp_0. destruct Hy as [Hy|Hy]. left. now apply exp_increasing. subst. lra. } nra.
    + auto_derive; auto. rewrite exp_0. ring.
    + auto_derive; auto. ring.
  - unfold between, wrap_selu_grad_x, selu_backward. ind_simpl.
    rewrite (Rmin_left 0 0) by lra. rewrite exp_0.
    replace (wrap_selu_scale * 1 * (wrap_selu_alpha * 1)) with (wrap_selu_scale * wrap_selu_alpha) by ring.
    split. apply Rmin_l. apply Rmax_l.
Qed.

(* ---- tanh, sigmoid: the closures pass the saved OUTPUT --------------------------------------------------- *)
Lemma tanh_derive x : is_derive wrap_tanh_out x (wrap_tanh_grad_x 1 x).
Proof.
  unfold wrap_tanh_out, wrap_tanh_grad_x, tanh_forward, tanh_backward.
  unfold tanh, sinh, cosh. auto_derive.
  - assert (0 < exp x) by apply exp_pos. assert (0 < exp (-x)) by apply exp_pos. lra.
  - assert (0 < exp x) by apply exp_pos. assert (0 < exp (-x)) by apply exp_pos. field. lra.
Qed.
Lemma tanh_linear g x : wrap_tanh_grad_x g x = g * wrap_tanh_grad_x 1 x.
Proof. unfold wrap_tanh_grad_x, tanh_backward. ring. Qed.

Lemma sigmoid_derive x : is_derive wrap_sigmoid_out x (wrap_sigmoid_grad_x 1 x).
Proof.
  unfold wrap_sigmoid_out, wrap_sigmoid_grad_x, sigmoid_forward, sigmoid_backward.
  auto_derive.
  - assert (0 < exp (-x)) by apply exp_pos. lra.
  - assert (0 < exp (-x)) by apply exp_pos. field. lra.
Qed.
Lemma sigmoid_linear g x : wrap_sigmoid_grad_x g x = g * wrap_sigmoid_grad_x 1 x.
Proof. unfold wrap_sigmoid_grad_x, sigmoid_backward. ring. Qed.

(* ---- mse: both arguments --------------------------------------------------------------------------------- *)
Lemma mse_derive_pred p y : is_derive (fun t => wrap_mse_loss_out t y) p (wrap_mse_loss_grad_y_pred 1 p y).
Proof. unfold wrap_mse_loss_out, wrap_mse_loss_grad_y_pred, mse_loss_forward, mse_loss_backward. cbv zeta. auto_derive. auto. ring. Qed.
Lemma mse_derive_true p y : is_derive (fun t => wrap_mse_loss_out p t) y (wrap_mse_loss_grad_y_true 1 p y).
Proof. unfold wrap_mse_loss_out, wrap_mse_loss_grad_y_true, mse_loss_forward, mse_loss_backward. cbv zeta. auto_derive. auto. ring. Qed.
Lemma mse_linear g p y :
  wrap_mse_loss_grad_y_pred g p y = g * wrap_mse_loss_grad_y_pred 1 p y /\
  wrap_mse_loss_grad_y_true g p y = g * wrap_mse_loss_grad_y_true 1 p y.
Proof. unfold wrap_mse_loss_grad_y_pred, wrap_mse_loss_grad_y_true, mse_loss_backward. split; ring. Qed.

(* ---- bce --------------------------------------------------------------------------------------------------- *)
(* the loss before the compatibility clamp, and the generalisation of both kernels over the guard constant *)
Definition bce_core_eps (eps p y:R) : R := - (y * ln (p + eps) + (1 - y) * ln (1 - p + eps)).
Definition bce_dcore_eps (eps p y:R) : R := - (y / (p + eps) - (1 - y) / (1 - p + eps)).
Definition bce_bwd_eps (eps g p y:R) : R := - (- (1 - y + eps) / (1 - p + eps) + (y + eps) / (p + eps)) * g.

Lemma bce_forward_shape p y :
  wrap_binary_cross_entropy_out p y =
  where_ (ind_eq (bce_core_eps epsilon p y) (- ln epsilon)) 100 (bce_core_eps epsilon p y).
Proof. reflexivity. Qed.
Lemma bce_backward_shape g p y : wrap_binary_cross_entropy_grad_y_pred g p y = bce_bwd_eps epsilon g p y.
Proof. reflexivity. Qed.

Lemma bce_core_derive eps p y : 0 < p + eps -> 0 < 1 - p + eps ->
  is_derive (fun t => bce_core_eps eps t y) p (bce_dcore_eps eps p y).
Proof.
  intros H1 H2. unfold bce_core_eps, bce_dcore_eps. auto_derive.
  - split; [exact H1|split; [exact H2|exact I]].
  - field. lra.
Qed.

(* where the clamp to 100 is active, on the unit square: exactly at the two corners where the loss is -ln eps *)
Lemma bce_clamp_active_iff eps p y : 0 < eps -> 0 <= p <= 1 -> 0 <= y <= 1 ->
  (bce_core_eps eps p y = - ln eps <-> (p = 0 /\ y = 1) \/ (p = 1 /\ y = 0)).
Proof.
  intros He Hp Hy. unfold bce_core_eps. split.
  - intros E.
    assert (L1: ln eps <= ln (p + eps)).
    { destruct (Req_dec p 0) as [->|Hp0]. rewrite Rplus_0_l. lra. left. apply ln_increasing; lra. }
    assert (L2: ln eps <= ln (1 - p + eps)).
    { destruct (Req_dec p 1) as [->|Hp1]. replace (1 - 1 + eps) with eps by ring. lra. left. apply ln_increasing; lra. }
    assert (S1: p = 0 \/ ln eps < ln (p + eps)).
    { destruct (Req_dec p 0) as [->|Hp0]. now left. right. apply ln_increasing; lra. }
    assert (S2: p = 1 \/ ln eps < ln (1 - p + eps)).
    { destruct (Req_dec p 1) as [->|Hp1]. now left. right. apply ln_increasing; lra. }
    (* y (ln(p+e) - ln e) + (1-y) (ln(1-p+e) - ln e) = 0 with non-negative terms *)
    assert (T1: y * (ln (p + eps) - ln eps) = 0) by nra.
    assert (T2: (1 - y) * (ln (1 - p + eps) - ln eps) = 0) by nra.
    destruct S1 as [->|S1]; destruct S2 as [S2|S2].
    + lra.
    + left. split; auto. nra.
    + right. split; auto. nra.
    + exfalso. assert (y = 0) by nra. assert (1 - y = 0) by nra. lra.
  - intros [[-> ->]|[-> ->]].
    + rewrite Rplus_0_l. ring.
    + replace (1 - 1 + eps) with eps by ring. ring.
Qed.

(* away from the two corners the generated forward is differentiable in p with derivative bce_dcore *)
Lemma bce_forward_derive p y : 0 < p < 1 -> 0 <= y <= 1 ->
  is_derive (fun t => wrap_binary_cross_entropy_out t y) p (bce_dcore_eps epsilon p y).
Proof.
  intros Hp Hy. pose proof epsilon_pos as He.
  apply (is_derive_ext_loc (fun t => bce_core_eps epsilon t y)).
  - assert (Hd: 0 < Rmin p (1 - p)) by (apply Rmin_pos; lra).
    exists (mkposreal _ Hd). intros t Ht.
    unfold ball in Ht; simpl in Ht. unfold AbsRing_ball, abs, minus, plus, opp in Ht; simpl in Ht.
    apply Rabs_def2 in Ht.
    assert (0 < t < 1).
    { pose proof (Rmin_l p (1 - p)). pose proof (Rmin_r p (1 - p)). lra. }
    rewrite bce_forward_shape. rewrite ind_eq_false, where_false; auto.
    intros E. apply bce_clamp_active_iff in E; auto; lra.
  - apply bce_core_derive; lra.
Qed.

(* the backward kernel places epsilon differently from the derivative of the computed forward: explicit bound *)
Lemma bce_backward_error_bound p y : 0 <= p <= 1 -> 0 <= y <= 1 ->
  Rabs (wrap_binary_cross_entropy_grad_y_pred 1 p y - bce_dcore_eps epsilon p y)
  <= epsilon * (1 / (p + epsilon) + 1 / (1 - p + epsilon)).
Proof.
  intros Hp Hy. pose proof epsilon_pos as He. rewrite bce_backward_shape.
  unfold bce_bwd_eps, bce_dcore_eps.
  assert (A: 0 < p + epsilon) by lra. assert (B: 0 < 1 - p + epsilon) by lra.
  replace (- (- (1 - y + epsilon) / (1 - p + epsilon) + (y + epsilon) / (p + epsilon)) * 1 -
           - (y / (p + epsilon) - (1 - y) / (1 - p + epsilon)))
    with (epsilon * (1 / (1 - p + epsilon)) - epsilon * (1 / (p + epsilon))) by (field; lra).
  assert (P1: 0 < 1 / (p + epsilon)) by (apply Rdiv_lt_0_compat; lra).
  assert (P2: 0 < 1 / (1 - p + epsilon)) by (apply Rdiv_lt_0_compat; lra).
  apply Rabs_le. split; nra.
Qed.

(* coarser reading: inside (0,1) the discrepancy is at most epsilon (1/p + 1/(1-p)), i.e. ~1e-12 relative *)
Lemma bce_backward_error_bound_interior p y : 0 < p < 1 -> 0 <= y <= 1 ->
  Rabs (wrap_binary_cross_entropy_grad_y_pred 1 p y - bce_dcore_eps epsilon p y) <= epsilon * (1 / p + 1 / (1 - p)).
Proof.
  intros Hp Hy. pose proof epsilon_pos as He.
  eapply Rle_trans. apply bce_backward_error_bound; lra.
  apply Rmult_le_compat_l. lra.
  assert (1 / (p + epsilon) <= 1 / p).
  { unfold Rdiv. rewrite !Rmult_1_l. apply Rinv_le_contravar; lra. }
  assert (1 / (1 - p + epsilon) <= 1 / (1 - p)).
  { unfold Rdiv. rewrite !Rmult_1_l. apply Rinv_le_contravar; lra. }
  lra.
Qed.

(* exactness in the limit of a vanishing guard: with eps = 0 the backward formula IS the derivative *)
Lemma bce_exact_without_guard p y : 0 < p < 1 ->
  is_derive (fun t => bce_core_eps 0 t y) p (bce_bwd_eps 0 1 p y).
Proof.
  intros Hp. replace (bce_bwd_eps 0 1 p y) with (bce_dcore_eps 0 p y).
  apply bce_core_derive; lra.
  unfold bce_bwd_eps, bce_dcore_eps. field. lra.
Qed.
Lemma bce_linear g p y : wrap_binary_cross_entropy_grad_y_pred g p y = g * wrap_binary_cross_entropy_grad_y_pred 1 p y.
Proof. rewrite (bce_backward_shape g), (bce_backward_shape 1). unfold bce_bwd_eps. unfold Rdiv. ring. Qed.

(* ---- bce with logits ------------------------------------------------------------------------------------- *)
Definition softplus_loss (x y:R) : R := ln (1 + exp x) - x * y.
Definition sigmoid (x:R) : R := exp x / (1 + exp x).

Lemma bce_logits_forward_eq x y : wrap_binary_cross_entropy_with_logits_out x y = softplus_loss x y.
Proof.
  unfold wrap_binary_cross_entropy_with_logits_out, bce_with_logits_loss_forward, relu_forward, softplus_loss. cbv zeta.
  assert (0 < exp x) by apply exp_pos. assert (0 < exp (- x)) by apply exp_pos.
  destruct (Rle_dec 0 x) as [Hp|Hn].
  - rewrite Rmax_right, Rabs_right by lra.
    replace (1 + exp x) with (exp x * (1 + exp (- x))).
    rewrite ln_mult, ln_exp by lra. ring.
    rewrite Rmult_plus_distr_l, <- exp_plus. replace (x + - x) with 0 by ring. rewrite exp_0. ring.
  - rewrite Rmax_left, Rabs_left by lra. rewrite Ropp_involutive. ring.
Qed.

Lemma bce_logits_backward_eq g x y : wrap_binary_cross_entropy_with_logits_grad_y_pred g x y = g * (sigmoid x - y).
Proof.
  unfold wrap_binary_cross_entropy_with_logits_grad_y_pred, bce_with_logits_loss_backward, sigmoid. cbv zeta.
  assert (0 < exp x) by apply exp_pos. assert (0 < exp (- x)) by apply exp_pos.
  destruct (Rle_dec 0 x) as [Hp|Hn].
  - ind_simpl. rewrite Rabs_right by lra.
    rewrite exp_Ropp. f_equal. f_equal. field. lra.
  - ind_simpl. rewrite Rabs_left by lra. now rewrite Ropp_involutive.
Qed.

Lemma softplus_derive_x x y : is_derive (fun t => softplus_loss t y) x (sigmoid x - y).
Proof.
  unfold softplus_loss, sigmoid. assert (0 < exp x) by apply exp_pos.
  auto_derive. lra. field. lra.
Qed.
Lemma softplus_derive_y x y : is_derive (fun t => softplus_loss x t) y (- x).
Proof. unfold softplus_loss. auto_derive. auto. ring. Qed.

Lemma bce_logits_derive_pred x y :
  is_derive (fun t => wrap_binary_cross_entropy_with_logits_out t y) x (wrap_binary_cross_entropy_with_logits_grad_y_pred 1 x y).
Proof.
  rewrite bce_logits_backward_eq, Rmult_1_l.
  apply (is_derive_ext (fun t => softplus_loss t y)). intros t. now rewrite bce_logits_forward_eq.
  apply softplus_derive_x.
Qed.
Lemma bce_logits_derive_true x y :
  is_derive (fun t => wrap_binary_cross_entropy_with_logits_out x t) y (- x).
Proof.
  apply (is_derive_ext (fun t => softplus_loss x t)). intros t. now rewrite bce_logits_forward_eq.
  apply softplus_derive_y.
Qed.
Lemma bce_logits_linear g x y :
  wrap_binary_cross_entropy_with_logits_grad_y_pred g x y = g * wrap_binary_cross_entropy_with_logits_grad_y_pred 1 x y.
Proof. rewrite (bce_logits_backward_eq g), (bce_logits_backward_eq 1). ring. Qed.

Lemma selu_scale_value : wrap_selu_scale = 10507009873554804934193349852946 / 10000000000000000000000000000000.
Proof. unfold wrap_selu_scale. lra. Qed.
