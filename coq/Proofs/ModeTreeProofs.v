(* Proofs about State/ModeTree.v (property C13: mode propagation through a module tree). *)
From Coq Require Import List Bool Arith QArith Lia.
Import ListNotations.
From SG Require Import State.BNDropout State.ModeTree Proofs.BNDropoutProofs.

Lemma nth_error_upd_kid_same {A} n (f : A -> A) l :
  nth_error (upd_kid n f l) n = option_map f (nth_error l n).
Proof. revert n; induction l as [|x l IH]; intros [|n]; simpl; auto. Qed.

Lemma nth_error_upd_kid_other {A} n m (f : A -> A) l :
  n <> m -> nth_error (upd_kid n f l) m = nth_error l m.
Proof.
  revert n m; induction l as [|x l IH]; intros [|n] [|m] H; simpl; auto; try congruence.
Qed.

Lemma flag_set_all b lp : forall t f, flag_at t lp = Some f -> flag_at (set_all b t) lp = Some b.
Proof.
  induction lp as [|i q IH]; intros [f0 ks] f H; cbn in *; [reflexivity|].
  rewrite nth_error_map. destruct (nth_error ks i) as [c|]; [|discriminate]. cbn. eapply IH; eauto.
Qed.

(* one train()/eval() call on the node at p, seen from the node at lp *)
Lemma flag_set_at p b : forall t lp f, flag_at t lp = Some f ->
  flag_at (set_at p b t) lp = Some (if is_prefix p lp then b else f).
Proof.
  induction p as [|i q IH]; intros t lp f H.
  - cbn [set_at is_prefix]. eapply flag_set_all; eauto.
  - destruct t as [f0 ks]. destruct lp as [|j r]; cbn in *; [exact H|].
    destruct (Nat.eqb_spec i j) as [E|NE].
    + subst j. rewrite nth_error_upd_kid_same. destruct (nth_error ks i) as [c|]; [|discriminate].
      cbn. apply IH. exact H.
    + rewrite nth_error_upd_kid_other by exact NE. cbn. exact H.
Qed.

(* any sequence of calls on any nodes: the layer's flag is what the last call on the layer or an ancestor asked for *)
Lemma flag_apply_switches lp sw : forall t f, flag_at t lp = Some f ->
  flag_at (apply_switches t sw) lp = Some (last_switch lp f sw).
Proof.
  induction sw as [|[p b] sw IH]; intros t f H; [exact H|].
  unfold apply_switches, last_switch. cbn [fold_left fst snd]. apply IH. apply flag_set_at. exact H.
Qed.

Lemma last_switch_app lp f a b : last_switch lp f (a ++ b) = last_switch lp (last_switch lp f a) b.
Proof. unfold last_switch. apply fold_left_app. Qed.

Lemma is_prefix_nil lp : is_prefix [] lp = true.
Proof. reflexivity. Qed.

Lemma is_prefix_refl lp : is_prefix lp lp = true.
Proof. induction lp; cbn; auto. rewrite Nat.eqb_refl. exact IHlp. Qed.

(* a call on an ancestor-or-self followed only by calls elsewhere decides the mode, whatever happened before *)
Lemma ancestor_switch_wins lp f before p b after :
  is_prefix p lp = true -> Forall (fun pb => is_prefix (fst pb) lp = false) after ->
  last_switch lp f (before ++ (p, b) :: after) = b.
Proof.
  intros Hp Ha. rewrite last_switch_app. unfold last_switch at 1. cbn [fold_left fst snd]. rewrite Hp.
  induction Ha as [|[q c] after Hq Ha IH]; [reflexivity|]. cbn [fold_left fst snd] in *. rewrite Hq. exact IH.
Qed.

(* ---- BatchNorm inside a tree = the flat history the layer sees ---- *)
Lemma set_training_idem s : set_training (training s) s = s.
Proof. unfold set_training. apply bn_eta. Qed.

Lemma trun_projects o lp h : forall t s,
  flag_at t lp = Some (training s) ->
  snd (trun o lp (t, s) h) = run o s (project lp h) /\
  flag_at (fst (trun o lp (t, s) h)) lp = Some (training (snd (trun o lp (t, s) h))).
Proof.
  induction h as [|e h IH]; intros t s H; [split; [reflexivity|exact H]|].
  destruct e as [p b|x]; cbn [trun tree_step fst snd project flat_map].
  - pose proof (flag_set_at p b t lp (training s) H) as F.
    cbv zeta. cbn [fst snd]. unfold sync. rewrite F.
    destruct (is_prefix p lp).
    + specialize (IH (set_at p b t) (set_training b s)). cbn [training set_training] in IH.
      destruct (IH F) as [A B]. split; [|exact B]. rewrite A. cbn [app run].
      destruct b; reflexivity.
    + rewrite set_training_idem. cbn [app]. apply IH. exact F.
  - cbn [app run step]. pose proof (forward_training o s x) as T.
    destruct (forward o s x) as [s' out|s']; cbn [fst snd state_of] in *; apply IH; rewrite T; exact H.
Qed.

Lemma sync_flag lp t s f : flag_at t lp = Some f -> training (sync lp t s) = f.
Proof. intro H. unfold sync. rewrite H. reflexivity. Qed.

(* the mode of the layer after a tree history *)
Definition tswitches (h : list tev) : switches :=
  flat_map (fun e => match e with Switch p b => [(p, b)] | TForward _ => [] end) h.

Lemma final_mode_project lp h : forall m,
  final_mode m (project lp h) = last_switch lp m (tswitches h).
Proof.
  induction h as [|e h IH]; intro m; [reflexivity|].
  destruct e as [p b|x]; cbn [project flat_map tswitches app].
  - unfold last_switch. cbn [fold_left fst snd]. fold (last_switch lp (if is_prefix p lp then b else m) (tswitches h)).
    fold (project lp h). destruct (is_prefix p lp); cbn [app]; [|apply IH].
    destruct b; cbn [final_mode]; apply IH.
  - cbn [final_mode]. apply IH.
Qed.

Lemma tree_mode o lp h t s :
  flag_at t lp = Some (training s) ->
  training (snd (trun o lp (t, s) h)) = last_switch lp (training s) (tswitches h).
Proof.
  intro H. destruct (trun_projects o lp h t s H) as [A _]. rewrite A.
  destruct (run_factor o (project lp h) s) as [_ B]. rewrite B. apply final_mode_project.
Qed.

(* Dropout *)
Lemma tree_dropout_mode p t lp sw r x f :
  flag_at t lp = Some f ->
  tree_dropout p t lp sw r x = Some (dropout p (last_switch lp f sw) r x).
Proof. intro H. unfold tree_dropout. rewrite (flag_apply_switches lp sw t f H). reflexivity. Qed.

(* ---- one Dropout object called several times: backward of call k goes through call k's own mask ---- *)
Lemma dstep_nodes_grow p lp s e : exists extra, dnodes (fst (dstep p lp s e)) = dnodes s ++ extra.
Proof.
  destruct e as [q b|r x|k g]; cbn.
  - exists []. rewrite app_nil_r. reflexivity.
  - destruct (flag_at (dtree s) lp) as [[|]|]; cbn; eexists; try reflexivity. rewrite app_nil_r. reflexivity.
  - destruct (nth_error (dnodes s) k) as [[m|]|]; cbn; exists []; rewrite app_nil_r; reflexivity.
Qed.

Lemma drun_nodes_grow p lp h : forall s, exists extra, dnodes (drun p lp s h) = dnodes s ++ extra.
Proof.
  induction h as [|e h IH]; intro s; [exists []; rewrite app_nil_r; reflexivity|].
  cbn [drun]. destruct (dstep_nodes_grow p lp s e) as [x1 E1]. destruct (IH (fst (dstep p lp s e))) as [x2 E2].
  exists (x1 ++ x2). rewrite E2, E1, app_assoc. reflexivity.
Qed.

Lemma drun_app p lp a : forall s b, drun p lp s (a ++ b) = drun p lp (drun p lp s a) b.
Proof. induction a as [|e a IH]; intros s b; [reflexivity|]. cbn [app drun]. apply IH. Qed.

(* whatever happens between the forward and the backward (other forwards of the same layer with other draws and
   shapes, mode switches anywhere, other backward calls), out_k.backward(g) delivers g * (mask of call k) *)
Lemma backward_uses_own_mask p lp s h1 r x h2 g :
  flag_at (dtree (drun p lp s h1)) lp = Some true ->
  snd (dstep p lp (drun p lp s (h1 ++ DFwd r x :: h2)) (DBwd (length (dnodes (drun p lp s h1))) g))
  = DGrad (dropout_bwd p r g).
Proof.
  intro Hm. rewrite drun_app. cbn [drun]. set (s1 := drun p lp s h1) in *.
  assert (E : dnodes (fst (dstep p lp s1 (DFwd r x))) = dnodes s1 ++ [Some (mask_tensor p r)]).
  { cbn. rewrite Hm. reflexivity. }
  destruct (drun_nodes_grow p lp h2 (fst (dstep p lp s1 (DFwd r x)))) as [extra E2].
  remember (drun p lp (fst (dstep p lp s1 (DFwd r x))) h2) as s2 eqn:Hs2. clear Hs2.
  cbn [dstep]. rewrite E2, E, <- app_assoc. cbn [app].
  rewrite nth_error_app2 by lia. rewrite Nat.sub_diag. cbn. reflexivity.
Qed.

(* and the forward value of every call is computed with that call's own draw *)
Lemma forward_uses_own_draw p lp s r x :
  flag_at (dtree s) lp = Some true -> snd (dstep p lp s (DFwd r x)) = DOut (dropout p true r x).
Proof. intro H. cbn. rewrite H. reflexivity. Qed.
