(* C01, family 3: the elementwise tensor ops (add mul neg pow rpow exp log sqrt clone) and the operator
   overloads built from them.  Every statement is about the GENERATED definitions
   (Gen/GenKernels.v, Gen/GenKernelUse.v, Gen/GenOverloads.v): wrap_<op>_out is the forward kernel as the
   wrapper calls it, wrap_<op>_grad_<x> g ... is what the wrapper's closure adds to x.grad for the
   upstream gradient g (it contains the choice "input or saved output" made by the wrapper). *)
From Coq Require Import Reals Lra Lia ZArith List.
From Coquelicot Require Import Coquelicot.
From SG Require Import Analysis.RealOps Analysis.Derive Gen.GenKernels Gen.GenKernelUse Gen.GenOverloads.
Import ListNotations.
Open Scope R_scope.

Lemma epsilon_pos : 0 < epsilon.
Proof. unfold epsilon. lra. Qed.

(* ---- add / mul / neg / clone -------------------------------------------------------------------- *)
Lemma add_derive_x1 x1 x2 : is_derive (fun t => wrap_add_out t x2) x1 (wrap_add_grad_x1 1 x1 x2).
Proof. unfold wrap_add_out, wrap_add_grad_x1, add_forward, add_backward_0. auto_derive. auto. cbv zeta. ring. Qed.
Lemma add_derive_x2 x1 x2 : is_derive (fun t => wrap_add_out x1 t) x2 (wrap_add_grad_x2 1 x1 x2).
Proof. unfold wrap_add_out, wrap_add_grad_x2, add_forward, add_backward_1. auto_derive. auto. cbv zeta. ring. Qed.
Lemma add_linear g x1 x2 :
  wrap_add_grad_x1 g x1 x2 = g * wrap_add_grad_x1 1 x1 x2 /\ wrap_add_grad_x2 g x1 x2 = g * wrap_add_grad_x2 1 x1 x2.
Proof. unfold wrap_add_grad_x1, wrap_add_grad_x2, add_backward_0, add_backward_1. cbv zeta. split; ring. Qed.

Lemma mul_derive_x1 x1 x2 : is_derive (fun t => wrap_mul_out t x2) x1 (wrap_mul_grad_x1 1 x1 x2).
Proof. unfold wrap_mul_out, wrap_mul_grad_x1, mul_forward, mul_backward_0. auto_derive. auto. cbv zeta. ring. Qed.
Lemma mul_derive_x2 x1 x2 : is_derive (fun t => wrap_mul_out x1 t) x2 (wrap_mul_grad_x2 1 x1 x2).
Proof. unfold wrap_mul_out, wrap_mul_grad_x2, mul_forward, mul_backward_1. auto_derive. auto. cbv zeta. ring. Qed.
Lemma mul_linear g x1 x2 :
  wrap_mul_grad_x1 g x1 x2 = g * wrap_mul_grad_x1 1 x1 x2 /\ wrap_mul_grad_x2 g x1 x2 = g * wrap_mul_grad_x2 1 x1 x2.
Proof. unfold wrap_mul_grad_x1, wrap_mul_grad_x2, mul_backward_0, mul_backward_1. cbv zeta. split; ring. Qed.

Lemma neg_derive x : is_derive wrap_neg_out x (wrap_neg_grad_x 1 x).
Proof. unfold wrap_neg_out, wrap_neg_grad_x, neg_forward, neg_backward. auto_derive. auto. ring. Qed.
Lemma neg_linear g x : wrap_neg_grad_x g x = g * wrap_neg_grad_x 1 x.
Proof. unfold wrap_neg_grad_x, neg_backward. ring. Qed.

Lemma clone_derive x : is_derive wrap_clone_out x (wrap_clone_grad_x 1 x).
Proof. unfold wrap_clone_out, wrap_clone_grad_x, clone_forward, clone_backward. auto_derive. auto. ring. Qed.
Lemma clone_linear g x : wrap_clone_grad_x g x = g * wrap_clone_grad_x 1 x.
Proof. unfold wrap_clone_grad_x, clone_backward. ring. Qed.

(* ---- pow: x ** n ------------------------------------------------------------------------------------ *)
(* the exact domain: integer n >= 1, every x; integer n <= 0, x <> 0; non-integer n, x > 0 *)
Definition pow_domain (x n:R) : Prop :=
  (exists z:Z, n = IZR z /\ ((1 <= z)%Z \/ x <> 0)) \/ ((forall z:Z, n <> IZR z) /\ 0 < x).

Lemma pow_derive x n : pow_domain x n -> is_derive (fun t => wrap_pow_out t n) x (wrap_pow_grad_x 1 x n).
Proof.
  intros D. unfold wrap_pow_out, wrap_pow_grad_x, pow_forward, pow_backward.
  replace (n * gpow x (n - 1) * 1) with (n * gpow x (n - 1)) by ring.
  destruct D as [[z [-> Hz]]|[Hn Hx]].
  - now apply is_derive_gpow_base_int.
  - now apply is_derive_gpow_base_real.
Qed.
Lemma pow_linear g x n : wrap_pow_grad_x g x n = g * wrap_pow_grad_x 1 x n.
Proof. unfold wrap_pow_grad_x, pow_backward. ring. Qed.

(* ---- rpow: n ** x, n > 0; the closure passes the saved OUTPUT n ** x ------------------------------- *)
Lemma rpow_derive x n : 0 < n -> is_derive (fun t => wrap_rpow_out t n) x (wrap_rpow_grad_x 1 x n).
Proof.
  intros Hn. unfold wrap_rpow_out, wrap_rpow_grad_x, rpow_forward, rpow_backward.
  replace (gpow n x * ln n * 1) with (gpow n x * ln n) by ring.
  now apply is_derive_gpow_exponent.
Qed.
Lemma rpow_linear g x n : wrap_rpow_grad_x g x n = g * wrap_rpow_grad_x 1 x n.
Proof. unfold wrap_rpow_grad_x, rpow_backward. ring. Qed.

(* ---- exp (saved output), log (as computed: ln (x + epsilon)), sqrt (saved output) ------------------ *)
Lemma exp_derive x : is_derive wrap_exp_out x (wrap_exp_grad_x 1 x).
Proof. unfold wrap_exp_out, wrap_exp_grad_x, exp_forward, exp_backward. auto_derive. auto. ring. Qed.
Lemma exp_linear g x : wrap_exp_grad_x g x = g * wrap_exp_grad_x 1 x.
Proof. unfold wrap_exp_grad_x, exp_backward. ring. Qed.

Lemma log_derive x : 0 < x + epsilon -> is_derive wrap_log_out x (wrap_log_grad_x 1 x).
Proof.
  intros H. unfold wrap_log_out, wrap_log_grad_x, log_forward, log_backward.
  auto_derive. exact H. field. lra.
Qed.
Lemma log_linear g x : wrap_log_grad_x g x = g * wrap_log_grad_x 1 x.
Proof. unfold wrap_log_grad_x, log_backward. unfold Rdiv. ring. Qed.

Lemma sqrt_derive x : 0 < x -> is_derive wrap_sqrt_out x (wrap_sqrt_grad_x 1 x).
Proof.
  intros H. unfold wrap_sqrt_out, wrap_sqrt_grad_x, sqrt_forward, sqrt_backward.
  auto_derive. exact H. field. apply Rgt_not_eq. now apply sqrt_lt_R0.
Qed.
Lemma sqrt_linear g x : wrap_sqrt_grad_x g x = g * wrap_sqrt_grad_x 1 x.
Proof. unfold wrap_sqrt_grad_x, sqrt_backward. unfold Rdiv. ring. Qed.

(* ---- operator overloads: expansions over the real wrappers ------------------------------------------ *)
Notation OV f := (f wrap_add_out wrap_mul_out wrap_pow_out wrap_rpow_out).

Lemma ov_neg_eq a : OV ov_neg a = - a.
Proof. unfold ov_neg, ov_mul, wrap_mul_out, mul_forward, ov_wrap_scalar. ring. Qed.
Lemma ov_sub_eq a b : OV ov_sub a b = a - b.
Proof. unfold ov_sub, ov_add, ov_neg, ov_mul, wrap_add_out, wrap_mul_out, add_forward, mul_forward, ov_wrap_scalar. ring. Qed.
Lemma ov_rsub_eq a o : OV ov_rsub a o = o - a.
Proof. unfold ov_rsub, ov_radd, ov_add, ov_neg, ov_mul, wrap_add_out, wrap_mul_out, add_forward, mul_forward, ov_wrap_scalar. ring. Qed.
Lemma ov_truediv_eq a b : OV ov_truediv a b = a / b.
Proof.
  unfold ov_truediv, ov_mul, ov_pow, wrap_mul_out, wrap_pow_out, mul_forward, pow_forward, ov_wrap_scalar.
  change (IZR (-1)) with (-1). now rewrite gpow_m1.
Qed.
Lemma ov_rtruediv_eq a o : OV ov_rtruediv a o = o / a.
Proof.
  unfold ov_rtruediv, ov_rmul, ov_mul, ov_pow, wrap_mul_out, wrap_pow_out, mul_forward, pow_forward, ov_wrap_scalar.
  change (IZR (-1)) with (-1). rewrite gpow_m1. unfold Rdiv. ring.
Qed.
Lemma ov_radd_eq a o : OV ov_radd a o = o + a.
Proof. unfold ov_radd, ov_add, wrap_add_out, add_forward, ov_wrap_scalar. ring. Qed.
Lemma ov_rmul_eq a o : OV ov_rmul a o = o * a.
Proof. unfold ov_rmul, ov_mul, wrap_mul_out, mul_forward, ov_wrap_scalar. ring. Qed.

(* gradients of the expansions: the engine chains the backward closures of the primitive nodes; the
   composite backward maps below are those chains (vjp_comp), and they are the derivatives. *)
Definition neg_grad_self (g a:R) : R := wrap_mul_grad_x1 g a (IZR (-1)).
Definition sub_grad_self (g a b:R) : R := wrap_add_grad_x1 g a (OV ov_neg b).
Definition sub_grad_other (g a b:R) : R := neg_grad_self (wrap_add_grad_x2 g a (OV ov_neg b)) b.
Definition rsub_grad_self (g a o:R) : R := neg_grad_self (wrap_add_grad_x1 g (OV ov_neg a) o) a.
Definition div_grad_self (g a b:R) : R := wrap_mul_grad_x1 g a (wrap_pow_out b (IZR (-1))).
Definition div_grad_other (g a b:R) : R := wrap_pow_grad_x (wrap_mul_grad_x2 g a (wrap_pow_out b (IZR (-1)))) b (IZR (-1)).
Definition rdiv_grad_self (g a o:R) : R := wrap_pow_grad_x (wrap_mul_grad_x1 g (wrap_pow_out a (IZR (-1))) o) a (IZR (-1)).

Lemma ov_neg_derive a : is_derive (fun t => OV ov_neg t) a (neg_grad_self 1 a).
Proof. unfold ov_neg, ov_mul, neg_grad_self, ov_wrap_scalar. apply mul_derive_x1. Qed.

Lemma ov_sub_derive_self a b : is_derive (fun t => OV ov_sub t b) a (sub_grad_self 1 a b).
Proof. unfold ov_sub, ov_add, sub_grad_self, ov_wrap_scalar. apply add_derive_x1. Qed.

Lemma ov_sub_derive_other a b : is_derive (fun t => OV ov_sub a t) b (sub_grad_other 1 a b).
Proof.
  unfold ov_sub, ov_add, sub_grad_other, ov_wrap_scalar.
  apply (vjp_comp (fun t => OV ov_neg t) (fun u => wrap_add_out a u)
                  (fun g => neg_grad_self g b) (fun g => wrap_add_grad_x2 g a (OV ov_neg b))).
  - intros g. unfold neg_grad_self. apply mul_linear.
  - apply ov_neg_derive.
  - apply add_derive_x2.
Qed.

Lemma ov_rsub_derive_self a o : is_derive (fun t => OV ov_rsub t o) a (rsub_grad_self 1 a o).
Proof.
  unfold ov_rsub, ov_radd, ov_add, rsub_grad_self, ov_wrap_scalar.
  apply (vjp_comp (fun t => OV ov_neg t) (fun u => wrap_add_out u o)
                  (fun g => neg_grad_self g a) (fun g => wrap_add_grad_x1 g (OV ov_neg a) o)).
  - intros g. unfold neg_grad_self. apply mul_linear.
  - apply ov_neg_derive.
  - apply add_derive_x1.
Qed.

Lemma ov_truediv_derive_self a b : is_derive (fun t => OV ov_truediv t b) a (div_grad_self 1 a b).
Proof. unfold ov_truediv, ov_mul, ov_pow, div_grad_self, ov_wrap_scalar. apply mul_derive_x1. Qed.

Lemma pow_domain_m1 b : b <> 0 -> pow_domain b (IZR (-1)).
Proof. intros Hb. left. exists (-1)%Z. split; [reflexivity|now right]. Qed.

Lemma ov_truediv_derive_other a b : b <> 0 -> is_derive (fun t => OV ov_truediv a t) b (div_grad_other 1 a b).
Proof.
  intros Hb. unfold ov_truediv, ov_mul, ov_pow, div_grad_other, ov_wrap_scalar.
  apply (vjp_comp (fun t => wrap_pow_out t (IZR (-1))) (fun u => wrap_mul_out a u)
                  (fun g => wrap_pow_grad_x g b (IZR (-1))) (fun g => wrap_mul_grad_x2 g a (wrap_pow_out b (IZR (-1))))).
  - intros g. apply pow_linear.
  - apply pow_derive. now apply pow_domain_m1.
  - apply mul_derive_x2.
Qed.

Lemma ov_rtruediv_derive_self a o : a <> 0 -> is_derive (fun t => OV ov_rtruediv t o) a (rdiv_grad_self 1 a o).
Proof.
  intros Ha. unfold ov_rtruediv, ov_rmul, ov_mul, ov_pow, rdiv_grad_self, ov_wrap_scalar.
  apply (vjp_comp (fun t => wrap_pow_out t (IZR (-1))) (fun u => wrap_mul_out u o)
                  (fun g => wrap_pow_grad_x g a (IZR (-1))) (fun g => wrap_mul_grad_x1 g (wrap_pow_out a (IZR (-1))) o)).
  - intros g. apply pow_linear.
  - apply pow_derive. now apply pow_domain_m1.
  - apply mul_derive_x1.
Qed.

(* closed forms of the chained gradients: what the operand finally receives *)
Lemma overload_grads_closed_form g a b :
  neg_grad_self g a = - g /\ sub_grad_self g a b = g /\ sub_grad_other g a b = - g /\ rsub_grad_self g a b = - g /\
  div_grad_self g a b = g / b /\ (b <> 0 -> div_grad_other g a b = - g * a / (b * b)) /\
  (a <> 0 -> rdiv_grad_self g a b = - g * b / (a * a)).
Proof.
  unfold neg_grad_self, sub_grad_self, sub_grad_other, rsub_grad_self, div_grad_self, div_grad_other, rdiv_grad_self,
    neg_grad_self, wrap_mul_grad_x1, wrap_mul_grad_x2, wrap_add_grad_x1, wrap_add_grad_x2, wrap_pow_grad_x, wrap_pow_out,
    mul_backward_0, mul_backward_1, add_backward_0, add_backward_1, pow_backward, pow_forward.
  cbv zeta. change (IZR (-1)) with (-1). replace (-1 - 1) with (IZR (-2)) by (simpl; lra).
  rewrite !gpow_m1, !gpow_int. simpl powerRZ.
  repeat split; intros; try ring; field; auto.
Qed.

(* ---- lifting to tensors: an elementwise op has a diagonal Jacobian ---------------------------------- *)
Definition map2 (b:R->R->R) (g x:list R) : list R := map (fun p => b (fst p) (snd p)) (combine g x).

Lemma lift_kernel (f:R->R) (b:R->R->R) (dom:R->Prop) :
  (forall x, dom x -> is_derive f x (b 1 x)) ->
  (forall g x, b g x = g * b 1 x) ->
  forall x g v, length g = length x -> length v = length x -> List.Forall dom x ->
    is_derive (fun t => dot g (map f (axpy t v x))) 0 (dot (map2 b g x) v).
Proof.
  intros D L x g v Lg Lv Hd.
  assert (E: map2 b g x = zipmul g (map (b 1) x)).
  { unfold map2, zipmul. clear Lv Hd v. revert g Lg. induction x as [|x0 x IH]; intros [|g0 g] Lg; try discriminate; auto.
    simpl. rewrite L. f_equal. apply IH. simpl in Lg. lia. }
  rewrite E. apply elementwise_vjp; auto.
  - now rewrite map_length.
  - clear E Lg Lv. induction Hd as [|x0 x H0 Hd IH]; simpl; constructor; auto.
Qed.
