(* Batch normalisation, FORWARD: what the generated batch_norm_forward (wired as in nn/functional.py) computes on one
   channel, per mode; the normalised training output has mean 0 and biased variance var/(var+eps).   (C06; also used by
   the backward proofs in VecKernelProofsBN.v) *)
From Coq Require Import Reals Lra Lia Arith Bool.
From Coquelicot Require Import Coquelicot.
From SG Require Import Analysis.Vector Gen.GenVecKernels.
Open Scope R_scope.

Definition batch_mode (training : bool) (rm rv : option R) : Prop :=
  training = true \/ (rm = None /\ rv = None).

Definition affine (w b : option R) (u : R) : R :=
  let u1 := match w with Some gamma => u * gamma | None => u end in
  match b with Some beta => u1 + beta | None => u1 end.

Definition gam (w : option R) : R := match w with Some gamma => gamma | None => 1 end.

(* the normalised value with batch statistics *)
Definition xhat (n : nat) (x : vec) (eps : R) (j : nat) : R :=
  (x j - vmean n x) / sqrt (vvar n x + eps).

Definition obeta (b : option R) : R := match b with Some beta => beta | None => 0 end.

(* ------------------------------------------------------------------ what the generated code is, per mode *)
Lemma bn_out_batch n x w b rm rv tr mo eps j : batch_mode tr rm rv ->
  batch_norm_out n x w b rm rv tr mo eps j = affine w b (xhat n x eps j).
Proof.
  intros Hm. unfold batch_norm_out, batch_norm_forward, affine, xhat.
  destruct w, b, rm, rv, tr; destruct Hm as [Hm|[Hm1 Hm2]]; try discriminate; reflexivity.
Qed.

Lemma bn_out_eval n x w b m v mo eps j :
  batch_norm_out n x w b (Some m) (Some v) false mo eps j = affine w b ((x j - m) / sqrt (v + eps)).
Proof. unfold batch_norm_out, batch_norm_forward, affine; destruct w, b; reflexivity. Qed.

Lemma affine_gam_obeta w b u : affine w b u = gam w * u + obeta b.
Proof. unfold affine, gam, obeta. destruct w, b; ring. Qed.

Lemma bn_train_value_proof n x w b rm rv tr mo eps j : batch_mode tr rm rv ->
  batch_norm_out n x w b rm rv tr mo eps j = gam w * ((x j - vmean n x) / sqrt (vvar n x + eps)) + obeta b.
Proof. intros Hm. rewrite bn_out_batch by exact Hm. apply affine_gam_obeta. Qed.

Lemma bn_eval_value_proof n x w b m v mo eps j :
  batch_norm_out n x w b (Some m) (Some v) false mo eps j = gam w * ((x j - m) / sqrt (v + eps)) + obeta b.
Proof. rewrite bn_out_eval. apply affine_gam_obeta. Qed.

(* the normalised (pre-affine) training output: mean 0, biased variance var/(var+eps) *)
Lemma xhat_mean_proof n x eps : (1 <= n)%nat -> vmean n (xhat n x eps) = 0.
Proof.
  intros Hn. unfold vmean at 1. unfold xhat.
  rewrite vsum_div_r, vsum_centered by exact Hn. unfold Rdiv. ring.
Qed.

Lemma xhat_var_proof n x eps : (1 <= n)%nat -> 0 < eps ->
  vvar n (xhat n x eps) = vvar n x / (vvar n x + eps).
Proof.
  intros Hn He. pose proof (vvar_nonneg n x) as Hv.
  unfold vvar at 1. rewrite xhat_mean_proof by exact Hn.
  assert (Hs : sqrt (vvar n x + eps) * sqrt (vvar n x + eps) = vvar n x + eps) by (apply sqrt_sqrt; lra).
  assert (Hp : 0 < sqrt (vvar n x + eps)) by (apply sqrt_lt_R0; lra).
  assert (HN : INR n <> 0) by (apply not_0_INR; lia).
  assert (HV : vsum n (fun i => (x i - vmean n x) ^ 2) = vvar n x * INR n).
  { unfold vvar. unfold vmean at 2. field. exact HN. }
  unfold vmean at 1.
  rewrite (vsum_ext n _ (fun i => (x i - vmean n x) ^ 2 * / (vvar n x + eps))).
  - rewrite vsum_scal_r, HV. field. split; lra.
  - intros i _. unfold xhat. set (s := sqrt (vvar n x + eps)) in *. rewrite <- Hs. field. lra.
Qed.
