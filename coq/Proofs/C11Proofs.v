(* Proofs of the statements of Props/C11.v over the GENERATED program (Gen/GenEffects.v).
   Finite facts are decided by vm_compute over the generated lists and lifted with forallb_forall; the
   "for all heaps" parts come from Proofs/EffectsProofs.v (analysis_sound_full). *)
From Coq Require Import List Bool Arith ZArith String.
Import ListNotations.
From SG Require Import IR.Effects Proofs.EffectsProofs Gen.GenEffects.
Open Scope string_scope.

(* ---- the general theorem (all programs, all heaps, overlapping arguments, all control-flow paths) ---------- *)
Lemma analysis_sound_pf :
  forall p, ok_prog p = true ->
  forall o fuel fi fd argl h h' ret,
    nth_error p fi = Some fd -> List.length argl <= f_nparams fd ->
    run o p fuel fd argl h = Some (h', ret) ->
    (forall l, l < next h -> (forall pi, In pi (f_writable fd) -> ~ In l (nth pi argl [])) -> cont h' l = cont h l)
    /\ (forall l, In l ret -> next h <= l \/ exists pi, In pi (sget (summaries p) fi) /\ In l (nth pi argl []))
    /\ next h <= next h'.
Proof. exact analysis_sound_full. Qed.

(* ---- the generated program passes the analysis ---------------------------------------------------------- *)
Lemma program_ok : ok_prog program = true.
Proof. vm_compute. reflexivity. Qed.

Definition named (names : list string) (fd : fundef) : bool := smemb (f_name fd) names.

Lemma pure_functions_have_no_writable :
  forallb (fun fd => if named (kernel_names ++ wrapper_names ++ initialiser_names ++ layer_names ++
                                ["tensor.Tensor.detach"; "tensor.Tensor.clone"; "tensor.Tensor.zero_"]) fd
                     then match f_writable fd with [] => true | _ => false end else true) program = true.
Proof. vm_compute. reflexivity. Qed.

Lemma named_no_writable names :
  forallb (fun fd => if named names fd then match f_writable fd with [] => true | _ => false end else true) program = true ->
  forall fi fd, nth_error program fi = Some fd -> named names fd = true -> f_writable fd = [].
Proof.
  intros H fi fd Hfd Hn. rewrite forallb_forall in H. specialize (H fd (nth_error_In _ _ Hfd)).
  rewrite Hn in H. destruct (f_writable fd); [reflexivity|discriminate].
Qed.

Lemma named_app a b fd : named a fd = true -> named (a ++ b) fd = true.
Proof. unfold named, smemb. rewrite existsb_app. intro H. rewrite H. reflexivity. Qed.
Lemma named_app_r a b fd : named b fd = true -> named (a ++ b) fd = true.
Proof. unfold named, smemb. rewrite existsb_app. intro H. rewrite H. apply orb_true_r. Qed.

(* every kernel of cpu_ops.py / conv_tools.py: for all heaps and (overlapping) arguments, on every control-flow
   path, the bytes of every storage that existed before the call — in particular of every input — are unchanged *)
Lemma kernels_pure_pf :
  forall fi fd, nth_error program fi = Some fd -> named kernel_names fd = true ->
  forall o fuel argl h h' ret, List.length argl <= f_nparams fd ->
    run o program fuel fd argl h = Some (h', ret) ->
    forall l, l < next h -> cont h' l = cont h l.
Proof.
  intros fi fd Hfd Hk o fuel argl h h' ret Hlen Hrun.
  apply (EffectsProofs.analysis_sound program program_ok o fuel fi fd argl h h' ret Hfd Hlen); [|exact Hrun].
  apply (named_no_writable _ pure_functions_have_no_writable fi fd Hfd). apply named_app. exact Hk.
Qed.

(* the same for the forward part of every op wrapper (functional.py, nn/functional.py), the tensor initialisers,
   Dropout.forward, detach, clone and zero_ *)
Lemma forward_wrappers_pure_pf :
  forall fi fd, nth_error program fi = Some fd ->
    named (wrapper_names ++ initialiser_names ++ layer_names ++ ["tensor.Tensor.detach"; "tensor.Tensor.clone"; "tensor.Tensor.zero_"]) fd = true ->
  forall o fuel argl h h' ret, List.length argl <= f_nparams fd ->
    run o program fuel fd argl h = Some (h', ret) ->
    forall l, l < next h -> cont h' l = cont h l.
Proof.
  intros fi fd Hfd Hk o fuel argl h h' ret Hlen Hrun.
  apply (EffectsProofs.analysis_sound program program_ok o fuel fi fd argl h h' ret Hfd Hlen); [|exact Hrun].
  apply (named_no_writable _ pure_functions_have_no_writable fi fd Hfd). apply named_app_r. exact Hk.
Qed.

(* every backward closure: the only pre-existing storages whose bytes may change are those bound to its
   writable parameters, and these are exactly `<child>._grad` buffers (never `.data`, never the result's buffer) *)
Lemma closure_writables_are_grad_buffers :
  forallb (fun '(f, ws) => forallb (fun w => ends_with w "._grad") ws) writable_names = true /\
  forallb (fun fd => if named closure_names fd then smemb (f_name fd) (map fst writable_names) else true) program = true.
Proof. vm_compute. split; reflexivity. Qed.

Lemma closures_write_only_grad_buffers_pf :
  forall fi fd, nth_error program fi = Some fd -> named closure_names fd = true ->
  (exists ws, In (f_name fd, ws) writable_names /\ forall w, In w ws -> ends_with w "._grad" = true) /\
  forall o fuel argl h h' ret, List.length argl <= f_nparams fd ->
    run o program fuel fd argl h = Some (h', ret) ->
    forall l, l < next h -> (forall pi, In pi (f_writable fd) -> ~ In l (nth pi argl [])) -> cont h' l = cont h l.
Proof.
  intros fi fd Hfd Hc. split.
  - destruct closure_writables_are_grad_buffers as (H1 & H2).
    rewrite forallb_forall in H2. specialize (H2 fd (nth_error_In _ _ Hfd)). rewrite Hc in H2.
    unfold smemb in H2. apply existsb_exists in H2. destruct H2 as (n & Hin & Heq).
    apply String.eqb_eq in Heq. apply in_map_iff in Hin. destruct Hin as ((f, ws) & Hf & Hin). cbn in Hf. subst n f.
    exists ws. split; [exact Hin|].
    rewrite forallb_forall in H1. specialize (H1 _ Hin). cbn in H1. rewrite forallb_forall in H1. exact H1.
  - intros o fuel argl h h' ret Hlen Hrun.
    exact (proj1 (analysis_sound_full program program_ok o fuel fi fd argl h h' ret Hfd Hlen Hrun)).
Qed.

(* Tensor.backward: the caller's gradient is never aliased or written.  The only writable parameter of backward is
   `self._grad` (the gradient buffers that already exist in the graph: leaves accumulate across calls); the seed is
   ADDED into the root's own buffer, freshly created by zero_() or already owned by the graph, so every other
   pre-existing storage — the data of every tensor and the caller's gradient array — keeps its bytes. *)
Lemma seed_not_aliased_pf :
  exists fi fd g,
    find_fun program "tensor.Tensor.backward" = Some (fi, fd) /\
    f_writable fd = [g] /\ nth_error backward_layout g = Some "self._grad" /\
    ret_owned program "tensor.Tensor.zero_" = true /\
    forall o fuel argl h h' ret, List.length argl <= f_nparams fd ->
      run o program fuel fd argl h = Some (h', ret) ->
      forall l, l < next h -> ~ In l (nth g argl []) -> cont h' l = cont h l.
Proof.
  destruct (find_fun program "tensor.Tensor.backward") as [[fi fd]|] eqn:E; [|vm_compute in E; discriminate].
  assert (Hw : exists g, f_writable fd = [g] /\ nth_error backward_layout g = Some "self._grad").
  { vm_compute in E. inversion E; subst fd. cbn [f_writable]. eexists. split; reflexivity. }
  destruct Hw as (g & Hw & Hg).
  exists fi, fd, g. split; [reflexivity|]. split; [exact Hw|]. split; [exact Hg|]. split; [vm_compute; reflexivity|].
  intros o fuel argl h h' ret Hlen Hrun l Hl Hnot.
  pose proof (find_fun_nth _ _ _ _ E) as Hfd.
  apply (proj1 (analysis_sound_full program program_ok o fuel fi fd argl h h' ret Hfd Hlen Hrun)); [exact Hl|].
  rewrite Hw. intros pi [Hpi|[]]. subst pi. exact Hnot.
Qed.

(* clone() and detach() return storage independent of their source: the result is summarised Owned, hence
   (soundness) every storage of the result is allocated by the call itself *)
Lemma clone_detach_fresh_pf :
  forall name, In name ["tensor.Tensor.clone"; "tensor.Tensor.detach"; "functional.clone"; "cpu_ops.clone_forward"] ->
  exists fi fd, find_fun program name = Some (fi, fd) /\
    forall o fuel argl h h' ret, List.length argl <= f_nparams fd ->
      run o program fuel fd argl h = Some (h', ret) ->
      forall l, In l ret -> next h <= l.
Proof.
  intros name Hin.
  assert (Hro : ret_owned program name = true).
  { cbn in Hin. destruct Hin as [<-|[<-|[<-|[<-|[]]]]]; vm_compute; reflexivity. }
  unfold ret_owned in Hro. destruct (find_fun program name) as [[fi fd]|] eqn:E; [|discriminate].
  exists fi, fd. split; [reflexivity|].
  intros o fuel argl h h' ret Hlen Hrun.
  apply (owned_result_fresh program program_ok o fuel fi fd argl h h' ret (find_fun_nth _ _ _ _ E) Hlen); [|exact Hrun].
  destruct (sget (summaries program) fi); [reflexivity|discriminate].
Qed.

(* the statements of the whole package that assign / update in place tensor data or gradient buffers are exactly the
   documented ones: optimizer steps, nn.init.*_, batch-norm running statistics, zero_/zero_grad, the grad setter,
   gradient accumulation (backward and the closures), and the constructor *)
Lemma documented_mutators_pf :
  (forall r, In r mutator_census -> exists c, row_category r = Some c) /\
  documented_all_present mutator_census = true.
Proof.
  split.
  - assert (H : census_documented mutator_census = true) by (vm_compute; reflexivity).
    unfold census_documented in H. rewrite forallb_forall in H.
    intros r Hr. specialize (H r Hr). destruct (row_category r) as [c|]; [exists c; reflexivity|discriminate].
  - vm_compute. reflexivity.
Qed.


(* the graph walk of backward follows `_children`; the constructor keeps children only for results that require grad *)
Lemma backward_confined_to_tracked_graph_pf : untracked_results_keep_no_children = true.
Proof. vm_compute. reflexivity. Qed.

(* a tensor that does not require grad WHEN BACKWARD RUNS is not written: every closure guards every accumulation by the
   live flag of its own target, every closure has such a row, and backward zeroes a child only under its live flag *)
Lemma frozen_tensors_not_written_pf :
  (forall q b, In (q, b) closure_guards_live -> b = true) /\
  (forall fd, In fd program -> named closure_names fd = true -> In (f_name fd, true) closure_guards_live) /\
  walk_zeroes_only_requiring = true.
Proof.
  split; [|split].
  - assert (H : forallb (fun qb => snd qb) closure_guards_live = true) by (vm_compute; reflexivity).
    rewrite forallb_forall in H. intros q b Hin. exact (H (q, b) Hin).
  - assert (H : forallb (fun fd => if named closure_names fd
                                   then existsb (fun qb => String.eqb (fst qb) (f_name fd) && snd qb) closure_guards_live else true) program = true)
      by (vm_compute; reflexivity).
    rewrite forallb_forall in H. intros fd Hfd Hn. specialize (H fd Hfd). rewrite Hn in H.
    apply existsb_exists in H. destruct H as ((q, b) & Hin & Hq). cbn in Hq. apply andb_true_iff in Hq. destruct Hq as (Hq & Hb).
    apply String.eqb_eq in Hq. subst q b. exact Hin.
  - vm_compute. reflexivity.
Qed.
